(* The shape of DTDChecker.check's output (inversion of the model's monadic
   code) and what each segment of it can contain. *)
From Coq Require Import NArith ZArith List Bool Arith Lia.
From CL Require Import Base.Sx Base.Res Base.Str Regex.Rx Generated.RxC07 Generated.C07Facts
  Model.CSS Model.XmlContent Model.CheckDTD Proofs.CheckDTDProofs.
Import ListNotations.

Section Shape.
Variable sax : str -> sax_out.
Variable uesc : str -> option (nat * str).

Definition ref_unparseable (reflist : list str) (ref : entity) : bool :=
  match sax_err (sax (doc_value reflist (e_val ref))) with
  | Some _ => true
  | None => is_some (sax_err (sax (doc_decl reflist ref)))
  end.

Definition w_ref_of (reflist : list str) (ref : entity) : list issue :=
  if ref_unparseable reflist ref then [lit_issue y_cant_parse (PTuple 0 0)] else [].

(* the SAXParseException of the localized value's two documents, if any *)
Definition l10n_error (names : list str) (l10n : entity) : option (Z * Z * str) :=
  match sax_err (sax (doc_value names (e_val l10n))) with
  | Some e => Some e
  | None => sax_err (sax (doc_decl names l10n))
  end.

Definition w_mismatch_of (inContext l10nlist missing : list str) : list issue :=
  if notnil inContext && notnil l10nlist then
    map (mismatch_issue inContext) (set_diff (set_diff l10nlist inContext) missing)
  else [].

Definition w_num_of (refv l10nv : str) : list issue :=
  if is_match rx_c07_num refv && negb (is_match rx_c07_num l10nv)
  then [lit_issue y_number (PInt 0)] else [].

Definition e_len_of (refv l10nv : str) : list issue :=
  if is_match rx_c07_length refv && negb (is_match rx_c07_length l10nv)
  then [lit_issue y_css_length (PInt 0)] else [].

Lemma check_inv : forall cache reference android ref l10n issues cache',
  check sax uesc cache reference android ref l10n = Ok (issues, cache') ->
  exists enc reflist inContext l10nlist e_l10n style andr,
    check_base l10n = Ok enc /\
    known_entities cache reference (e_val ref) = Ok (reflist, cache') /\
    entities_for_value (e_val ref) = Ok inContext /\
    entities_for_value (e_val l10n) = Ok l10nlist /\
    maybe_style (e_val ref) (e_val l10n) = Ok style /\
    (if android
     then process_android uesc
            (sax_text (sax (doc_value (reflist ++ missing_names reflist l10nlist) (e_val l10n))))
     else Ok []) = Ok andr /\
    e_l10n =
      match l10n_error (reflist ++ missing_names reflist l10nlist) l10n with
      | Some (line, col, msg) => [var_issue y_xmlparse (error_position (e_val l10n) line col) msg]
      | None => []
      end /\
    issues = enc ++ w_ref_of reflist ref ++ e_l10n ++
             map (unknown_issue (warn_suffix reflist inContext)) (missing_names reflist l10nlist) ++
             w_mismatch_of inContext l10nlist (missing_names reflist l10nlist) ++
             w_num_of (e_val ref) (e_val l10n) ++ e_len_of (e_val ref) (e_val l10n) ++ style ++ andr.
Proof.
  intros cache reference android ref l10n issues cache' H. unfold check in H.
  apply bind_ok in H. destruct H as [enc [Henc H]].
  apply bind_ok in H. destruct H as [[reflist c'] [Hk H]].
  apply bind_ok in H. destruct H as [inContext [Hctx H]].
  apply bind_ok in H. destruct H as [l10nlist [Hl H]].
  apply bind_ok in H. destruct H as [style [Hs H]].
  apply bind_ok in H. destruct H as [andr [Ha H]].
  inversion H; subst. clear H.
  do 7 eexists. repeat split; try eassumption; reflexivity.
Qed.
End Shape.

(* ---- what a segment can contain ----------------------------------------------------------- *)
Lemma filter_none : forall {T} (f : T -> bool) l, (forall x, In x l -> f x = false) -> filter f l = [].
Proof.
  induction l as [|x l IH]; simpl; intros H; [reflexivity|].
  rewrite (H x (or_introl eq_refl)). apply IH. intros y Hy. apply H. right. exact Hy.
Qed.

Lemma filter_all : forall {T} (f : T -> bool) l, (forall x, In x l -> f x = true) -> filter f l = l.
Proof.
  induction l as [|x l IH]; simpl; intros H; [reflexivity|].
  rewrite (H x (or_introl eq_refl)). f_equal. apply IH. intros y Hy. apply H. right. exact Hy.
Qed.

Lemma check_base_cat : forall l10n enc, check_base l10n = Ok enc ->
  forall i, In i enc -> i_cat i = snd y_encoding.
Proof.
  unfold check_base. intros l10n enc H i Hi. apply bind_ok in H. destruct H as [ms [_ H]].
  inversion H; subst. apply in_map_iff in Hi. destruct Hi as [x [<- _]]. reflexivity.
Qed.

Lemma check_style_cat : forall rm lm errs i, In i (check_style rm lm errs) ->
  i = lit_issue y_css_spec (PInt 0) \/ (i_error i = fst y_css_warn /\ i_cat i = snd y_css_warn).
Proof.
  intros rm lm errs i. unfold check_style.
  destruct lm as [[|x l]|]; simpl; try (intros [<-|[]]; left; reflexivity).
  destruct (nonempty errs); [intros [<-|[]]; left; reflexivity|].
  destruct (style_msgs rm (x :: l)); simpl; [intros []|].
  intros [<-|[]]. right. split; reflexivity.
Qed.

Lemma maybe_style_cat : forall rv lv style, maybe_style rv lv = Ok style ->
  forall i, In i style ->
  i = lit_issue y_css_spec (PInt 0) \/ (i_error i = fst y_css_warn /\ i_cat i = snd y_css_warn).
Proof.
  unfold maybe_style. intros rv lv style H i Hi. apply bind_ok in H. destruct H as [r [_ H]].
  destruct (fst r) as [[|x l]|]; try (inversion H; subst; contradiction).
  apply bind_ok in H. destruct H as [r' [_ H]]. inversion H; subst.
  eapply check_style_cat; eassumption.
Qed.

Lemma process_android_err : forall uesc v out, process_android uesc v = Ok out ->
  forall i, In i out -> i_error i = true /\ i_cat i = snd y_android_quote.
Proof.
  unfold process_android. intros uesc v out H i Hi.
  apply bind_ok in H. destruct H as [[[r off] v'] [_ H]].
  apply bind_ok in H. destruct H as [ms [_ H]]. inversion H; subst. clear H.
  apply in_app_or in Hi. destruct Hi as [Hi|Hi].
  - destruct (uesc v) as [[p reason]|]; [|contradiction]. destruct Hi as [<-|[]]. split; reflexivity.
  - apply in_flat_map in Hi. destruct Hi as [m [_ Hi]]. unfold quote_issue in Hi.
    destruct (Nat.odd (m_end m - m_start m)); [|contradiction].
    destruct Hi as [<-|[]]. split; reflexivity.
Qed.
