(* C09: consequences of the token theorem in declarative form, and the
   "clean string is never an error" theorem. *)
From Coq Require Import NArith List Bool Arith Lia.
From CL Require Import Base.Sx Base.Res Base.Str Regex.Rx Regex.RxLemmas Generated.RxC09
  Generated.C09Facts Model.CheckAndroid Proofs.CheckAndroidSpec Proofs.CheckAndroidParams
  Proofs.CheckAndroidExits Proofs.CheckAndroidScan Proofs.CheckAndroidQuoting.
Import ListNotations.

(* a bare quote directly after a quote character *)
Definition adjacent_quotes (ts : list qtok) : Prop :=
  exists pre t post, ts = pre ++ t :: QQuote :: post /\ (t = QQuote \/ t = QEsc c_quote).

Lemma adjacent_tail : forall t ts, adjacent_quotes ts -> adjacent_quotes (t :: ts).
Proof.
  intros t ts [pre [u [post [H1 H2]]]]. exists (t :: pre), u, post. split; auto.
  rewrite H1. reflexivity.
Qed.

Lemma no_adjacent_no_doubles : forall ts off, ~ adjacent_quotes ts -> q_doubles ts off = [].
Proof.
  induction ts as [|t ts IH]; intros off H; [reflexivity|].
  assert (Ht : ~ adjacent_quotes ts) by (intro A; apply H; apply adjacent_tail; exact A).
  destruct t; simpl; auto.
  - destruct ts as [|[] ts']; auto.
    destruct (N.eqb c c_quote) eqn:E; auto.
    exfalso. apply H. apply N.eqb_eq in E. subst c. exists [], (QEsc c_quote), ts'. auto.
  - destruct ts as [|[] ts']; auto.
    exfalso. apply H. exists [], QQuote, ts'. auto.
Qed.

Lemma no_apos_no_apostrophes : forall ts off, ~ In QApos ts -> q_apostrophes ts off = [].
Proof.
  induction ts as [|t ts IH]; intros off H; [reflexivity|].
  destruct t; simpl; try (apply IH; intro A; apply H; right; exact A).
  exfalso. apply H. left. reflexivity.
Qed.

(* properly escaped: no bare apostrophe, no bare quote directly after a quote character *)
Theorem quoting_clean : forall ts,
  ~ In QApos ts -> ~ adjacent_quotes ts -> quoting_model ts = [].
Proof.
  intros ts H1 H2. unfold quoting_model.
  rewrite no_adjacent_no_doubles, no_apos_no_apostrophes by auto.
  destruct (q_quoted ts); reflexivity.
Qed.

(* two adjacent bare quotes are reported *)
Lemma pair_doubles : forall ts off,
  (exists pre post, ts = pre ++ QQuote :: QQuote :: post) -> q_doubles ts off <> [].
Proof.
  induction ts as [|t ts IH]; intros off [pre [post H]].
  - destruct pre; discriminate.
  - assert (Htail : pre <> [] -> exists pre' post', ts = pre' ++ QQuote :: QQuote :: post').
    { intro Hp. destruct pre as [|u pre']; [contradiction|]. inversion H. eauto. }
    destruct t.
    + simpl. apply IH. apply Htail. intro E. subst pre. discriminate.
    + assert (Hts : exists pre' post', ts = pre' ++ QQuote :: QQuote :: post').
      { apply Htail. intro E. subst pre. discriminate. }
      simpl. destruct ts as [|[] ts']; try (apply IH; exact Hts).
      destruct (N.eqb c c_quote); [discriminate|]. apply IH. exact Hts.
    + simpl. apply IH. apply Htail. intro E. subst pre. discriminate.
    + simpl. destruct ts as [|[] ts']; try discriminate;
        try (apply IH; apply Htail; intro E; subst pre; discriminate).
Qed.

Theorem quoting_double_error : forall ts pre post,
  ts = pre ++ QQuote :: QQuote :: post ->
  exists off, In (lit_issue y_double_quotes off) (quoting_model ts).
Proof.
  intros ts pre post H. unfold quoting_model.
  destruct (q_doubles ts 0) as [|o l] eqn:E.
  - exfalso. revert E. apply pair_doubles. eauto.
  - exists o. apply in_or_app. left. left. reflexivity.
Qed.

(* a bare apostrophe in a value that does not begin with a quote is reported *)
Lemma q_quoted_hd : forall ts, q_quoted ts = true -> q_hd_quote ts = true.
Proof.
  intros ts H. unfold q_quoted in H.
  destruct ts as [|t ts]; [discriminate|]. destruct t; simpl in *; try discriminate; auto;
    match goal with H : match ?x with _ => _ end = true |- _ => destruct x; discriminate end.
Qed.

Lemma apos_in : forall ts off, In QApos ts -> q_apostrophes ts off <> [].
Proof.
  induction ts as [|t ts IH]; intros off H; [inversion H|].
  destruct H as [H|H].
  - subst t. discriminate.
  - destruct t; simpl; try (apply IH; exact H). discriminate.
Qed.

Theorem quoting_apostrophe_error : forall ts,
  In QApos ts -> q_hd_quote ts = false ->
  exists off, In (lit_issue y_apostrophe off) (quoting_model ts).
Proof.
  intros ts H1 H2. unfold quoting_model.
  destruct (q_quoted ts) eqn:E.
  - apply q_quoted_hd in E. congruence.
  - destruct (q_apostrophes ts 0) as [|o l] eqn:Ea.
    + exfalso. revert Ea. apply apos_in. exact H1.
    + exists o. apply in_or_app. right. left. reflexivity.
Qed.

(* a value wholly enclosed in quotes may contain bare apostrophes *)
Lemma q_silence_snoc_quote : forall mid, ~ In QQuote mid ->
  exists us, q_silence (mid ++ [QQuote]) = us ++ [QQuote].
Proof.
  induction mid as [|t mid IH]; intro H.
  - exists []. reflexivity.
  - destruct IH as [us Hus]; [intro A; apply H; right; exact A|].
    destruct t; simpl; rewrite ?Hus.
    + exists (QChar c :: us). reflexivity.
    + exists (q_blank :: q_blank :: us). reflexivity.
    + exists (QApos :: us). reflexivity.
    + exfalso. apply H. left. reflexivity.
Qed.

Theorem quoting_whole_string : forall mid,
  mid <> [] -> ~ In QQuote mid ->
  forall off, ~ In (lit_issue y_apostrophe off) (quoting_model (QQuote :: mid ++ [QQuote])).
Proof.
  intros mid Hne Hnq off Hin. unfold quoting_model in Hin.
  assert (Hq : q_quoted (QQuote :: mid ++ [QQuote]) = true).
  { unfold q_quoted. destruct (q_silence_snoc_quote mid Hnq) as [us Hus].
    assert (Hs : q_silence (QQuote :: mid ++ [QQuote]) = QQuote :: us ++ [QQuote]).
    { rewrite q_silence_quote_nq; [rewrite Hus; reflexivity|].
      destruct mid as [|[] mid']; try reflexivity; [contradiction|].
      exfalso. apply Hnq. left. reflexivity. }
    rewrite Hs. simpl rev. rewrite rev_app_distr. reflexivity. }
  rewrite Hq, app_nil_r in Hin. apply in_map_iff in Hin. destruct Hin as [o [Ho _]].
  discriminate.
Qed.

(* ---- a clean localized string is never an error ------------------------------------------------- *)
Theorem clean_no_error : forall ref l10n ts os_r os_l,
  n_name (e_node ref) = s_string -> n_name (e_node l10n) = s_string ->
  n_transl (e_node l10n) <> Some s_false -> n_transl (e_node ref) <> Some s_false ->
  simple_content (n_children (e_node l10n)) ->
  (forall rest, val l10n <> s_at_string ++ rest) ->
  val l10n = qrender ts -> qtoks_ok ts -> ~ In QApos ts -> ~ adjacent_quotes ts ->
  scan_params (text_content (e_node ref)) = Ok os_r ->
  scan_params (val l10n) = Ok os_l ->
  (forall k f st, In (k, f, st) (resolve 1 os_l) -> first_conv k (resolve 1 os_r) = Some f) ->
  exists issues, check ref l10n = Ok issues /\ Forall is_warning issues.
Proof.
  intros ref l10n ts os_r os_l Hr Hl Ht1 Ht2 Hsimple Hat Hval Hok Hap Hadj Hsr Hsl Hsub.
  destruct (check_base_ok l10n) as [enc [Henc Hw]].
  rewrite (check_is_check_string ref l10n Hr Hl enc Henc). unfold check_string.
  destruct (not_translatable [e_node l10n; e_node ref]) eqn:E1.
  { apply not_translatable_iff in E1. tauto. }
  destruct (no_at_string [e_node l10n]) eqn:E2.
  { apply no_at_string_iff in E2. destruct E2 as [rest E2]. exfalso. eapply Hat. exact E2. }
  apply non_simple_data_iff in Hsimple. rewrite Hsimple.
  assert (Hq : check_apostrophes (val l10n) = Ok []).
  { rewrite Hval, check_apostrophes_tokens by auto. rewrite quoting_clean; auto. }
  rewrite Hq. cbn [bind].
  unfold get_params at 1. rewrite Hsr. cbn [bind].
  destruct (check_params_subset_no_error (ps_params (params_of_occs os_r))
              (ps_count (params_of_occs os_r)) (val l10n) os_l Hsl) as [cp [Hcp Hcpw]].
  { intros k f st Hin. destruct (params_of_occs_spec os_r) as [Hp _]. cbv zeta in Hp.
    rewrite Hp. eapply Hsub. exact Hin. }
  rewrite Hcp. cbn [bind]. eexists. split; [reflexivity|].
  apply Forall_app. split; [exact Hw|].
  apply Forall_app. split.
  { destruct (no_at_string [e_node ref]); repeat constructor. }
  cbn [app]. apply Forall_app. split; [|exact Hcpw].
  apply Forall_forall. intros i Hi. apply in_map_iff in Hi. destruct Hi as [e [He _]].
  subst i. reflexivity.
Qed.
