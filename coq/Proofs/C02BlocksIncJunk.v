(* C02, .inc (DefinesParser): junk regions.  The blocks of Proofs/C02BlocksInc.v plus garbage
   regions: any nonempty text without "#" that does not start with a newline (lines of plain
   text, also empty lines after the first character).  At its start there is no comment, no
   newline run, no #define and no instruction; Parser.getJunk searches the comment, key and
   instruction expressions from the next position on, and all three need a "#": they fail at
   every position inside the region.  A region that is followed by another block ends with a
   newline, so that block starts a line; the junk ends exactly there (or at the end of the
   text): ONE Junk entry per region, covering exactly that region.  The filter state is not
   changed by a region. *)
From Coq Require Import NArith List Bool Arith Lia.
From CL Require Import Base.Sx Base.Res Base.Str Regex.Rx Regex.RxLemmas Model.Entry Model.Parse
  Model.ParseFormats Generated.Tables Generated.RxParser Proofs.UnescapeProofs
  Proofs.ClassLoop Proofs.ClassLoop2 Proofs.C02Props Proofs.WalkProofs Proofs.C02Roundtrip
  Proofs.C02BlocksRx Proofs.C02BlocksIniRx Proofs.C02BlocksIncRx Proofs.C02BlocksInc.
From CL Require Proofs.C02BlocksIniJunk Proofs.C02BlocksDtdJunk.
Import ListNotations.

Local Arguments Nat.ltb : simpl never.
Local Arguments Nat.leb : simpl never.
Local Arguments Nat.eqb : simpl never.
Local Arguments N.eqb : simpl never.
Local Arguments N.leb : simpl never.
Local Arguments chr_ok : simpl never.
Local Arguments run : simpl never.
Local Arguments fwd : simpl never.
Local Opaque word_ranges.

Ltac norm_app := repeat (progress (rewrite <- ?app_assoc; cbn [app])).

(* ---- garbage ------------------------------------------------------------------------------------------- *)
Definition no_hash (g : str) : bool := forallb (fun d => negb (N.eqb d 35)) g.
Definition legal_ngarbage (g : str) : bool :=
  match g with
  | [] => false
  | c :: _ => negb (N.eqb c 10) && no_hash g
  end.
Definition ends_nl (g : str) : bool := N.eqb (last g 0%N) 10.

(* the text does not start with # *)
Definition hash_free_head (X : str) : bool := negb (head_is (fun c => N.eqb c 35) X).

Lemma suffix_hash_free : forall g after i, no_hash g = true -> i < length g ->
  hash_free_head (skipn i g ++ after) = true.
Proof.
  induction g as [|c g IH]; intros after i Hg Hi; [simpl in Hi; lia|].
  cbn [no_hash forallb] in Hg. apply andb_true_iff in Hg. destruct Hg as [H1 H2].
  destruct i as [|i]; [exact H1|]. cbn [skipn]. apply IH; [exact H2|simpl in Hi; lia].
Qed.

Lemma hash_free_head2 : forall X, hash_free_head X = true -> head2 X = false.
Proof.
  intros [|c X] H; [reflexivity|]. unfold hash_free_head in H. cbn [head_is] in H.
  apply negb_true_iff in H. apply N.eqb_neq in H. cbn [head2].
  destruct c; try reflexivity. repeat (destruct p; try reflexivity). contradiction.
Qed.

Lemma hash_free_define : forall X, hash_free_head X = true -> starts_with s_define X = false.
Proof.
  intros [|c X] H; [reflexivity|]. unfold hash_free_head in H. cbn [head_is] in H.
  apply negb_true_iff in H. unfold s_define. cbn [starts_with]. rewrite N.eqb_sym, H. reflexivity.
Qed.

Lemma comment_attempt : forall X pr p, hash_free_head X = true ->
  run_at rx_inc_comment (mkst pr X p []) (fun _ => true) = MNone.
Proof.
  intros X pr p H. rewrite run_at_k0, ncomment_fails by (apply hash_free_head2; exact H). reflexivity.
Qed.

Lemma key_attempt : forall X pr p, hash_free_head X = true ->
  run_at rx_inc_key (mkst pr X p []) (fun _ => true) = MNone.
Proof.
  intros X pr p H. rewrite run_at_k0, inc_key_shape, m_lit, hash_free_define by exact H. reflexivity.
Qed.

Lemma pi_fails : forall X pr p k, hash_free_head X = true -> m rx_inc_pi (mkst pr X p []) k = Fail.
Proof.
  intros X pr p k H. rewrite inc_pi_shape, m_Cat, m_Chr. cbn [suf]. destruct X as [|c X]; [reflexivity|].
  unfold hash_free_head in H. cbn [head_is] in H. apply negb_true_iff in H.
  rewrite chr_ok_points, mem_single, H. reflexivity.
Qed.

Lemma pi_attempt : forall X pr p, hash_free_head X = true ->
  run_at rx_inc_pi (mkst pr X p []) (fun _ => true) = MNone.
Proof. intros X pr p H. rewrite run_at_k0, pi_fails by exact H. reflexivity. Qed.

Lemma omatch_pi_none : forall (a X : str), hash_free_head X = true ->
  omatch rx_inc_pi (a ++ X) (length a) = None.
Proof. intros a X H. rewrite omatch_split, run_at_k0, pi_fails by exact H. reflexivity. Qed.

(* ---- step: a garbage region ---------------------------------------------------------------------------- *)
Inductive njunk_after : str -> Prop :=
| nja_eof : njunk_after []
| nja_comment : forall cs X, cs <> [] -> forallb legal_cline_n cs = true -> head2 X = false ->
                njunk_after (ctext cs ++ X)
| nja_key : forall b1 key v T, b1 <> [] -> is_blanks b1 = true -> key <> [] -> is_word key = true ->
            legal_nval v = true -> tail_nl T -> njunk_after (s_define ++ b1 ++ key ++ vtext v ++ T)
| nja_instr : forall w b r T, w <> [] -> is_word w = true -> b <> [] -> is_blanks b = true ->
              r <> [] -> no_nl r = true -> head_is (fun c => mem c BL) r = false -> tail_nl T ->
              njunk_after (35%N :: w ++ b ++ r ++ T).

Lemma ends_nl_bol : forall (g pr : str), g <> [] -> ends_nl g = true -> bol (rev g ++ pr) = true.
Proof.
  intros g pr Hne H. destruct (exists_last Hne) as [g' [c ->]]. unfold ends_nl in H. rewrite last_last in H.
  rewrite rev_app_distr. simpl. exact H.
Qed.

Lemma gn_n_garbage : forall fe (a g after : str),
  legal_ngarbage g = true -> njunk_after after -> (after <> [] -> ends_nl g = true) ->
  gn_defines fe (a ++ g ++ after) (length a) = (mk_junk (length a, length a + length g), fe).
Proof.
  intros fe a g after Hg Hafter Hends.
  destruct g as [|c g'] eqn:Eg; [discriminate|]. rewrite <- Eg in *.
  assert (Hgne : g <> []) by (rewrite Eg; discriminate).
  assert (Hpos : 1 <= length g) by (rewrite Eg; simpl; lia).
  unfold legal_ngarbage in Hg. rewrite Eg in Hg. rewrite <- Eg in Hg.
  apply andb_true_iff in Hg. destruct Hg as [Hnl Hnh]. apply negb_true_iff in Hnl.
  pose proof (suffix_hash_free g after) as Hsuf. specialize (fun i => Hsuf i Hnh).
  set (s := a ++ g ++ after).
  assert (H0 : hash_free_head (g ++ after) = true) by (apply (Hsuf 0); lia).
  assert (Ec : omatch rx_inc_comment s (length a) = None)
    by (apply omatch_ncomment_none; apply hash_free_head2; exact H0).
  assert (Ew : omatch rx_inc_ws s (length a) = None).
  { unfold s. change (a ++ g ++ after) with (a ++ repeat 10%N 0 ++ g ++ after).
    rewrite omatch_nws; [reflexivity|]. rewrite Eg. exact Hnl. }
  assert (Ek : omatch rx_inc_key s (length a) = None)
    by (apply omatch_nkey_none; apply hash_free_define; exact H0).
  assert (Ep : omatch rx_inc_pi s (length a) = None) by (apply omatch_pi_none; exact H0).
  unfold gn_defines, get_next_defines. fold s. rewrite Ec. cbv beta iota zeta.
  rewrite Ew. cbv beta iota zeta. rewrite Ek, Ep. f_equal.
  (* the three searches of getJunk *)
  set (p := length a + length g).
  assert (Ac : forall i, i < length g ->
            run_at rx_inc_comment (mkst (rev (firstn i g) ++ rev a) (skipn i g ++ after) (length a + i) [])
                   (fun _ => true) = MNone) by (intros i Hi; apply comment_attempt; apply Hsuf; exact Hi).
  assert (Ak : forall i, i < length g ->
            run_at rx_inc_key (mkst (rev (firstn i g) ++ rev a) (skipn i g ++ after) (length a + i) [])
                   (fun _ => true) = MNone) by (intros i Hi; apply key_attempt; apply Hsuf; exact Hi).
  assert (Ap : forall i, i < length g ->
            run_at rx_inc_pi (mkst (rev (firstn i g) ++ rev a) (skipn i g ++ after) (length a + i) [])
                   (fun _ => true) = MNone) by (intros i Hi; apply pi_attempt; apply Hsuf; exact Hi).
  assert (Sc := C02BlocksDtdJunk.search_from_region rx_inc_comment a g after Ac Hpos).
  assert (Sk := C02BlocksDtdJunk.search_from_region rx_inc_key a g after Ak Hpos).
  assert (Sp := C02BlocksDtdJunk.search_from_region rx_inc_pi a g after Ap Hpos).
  fold p in Sc, Sk, Sp. set (z := mkst (rev g ++ rev a) after p []) in *.
  assert (OO : forall R, rsearch R (a ++ g ++ after) (S (length a)) = search_from R (S (length after)) z None ->
               osearch R s (S (length a)) =
               match search_from R (S (length after)) z None with MSome x => Some x | _ => None end)
    by (intros R HR; unfold osearch; unfold s; rewrite HR; reflexivity).
  assert (Oc := OO _ Sc). assert (Ok := OO _ Sk). assert (Op := OO _ Sp).
  assert (Bnd : forall R, osearch R s (S (length a)) =
                  match search_from R (S (length after)) z None with MSome x => Some x | _ => None end ->
                  C02BlocksIniJunk.jbounded s (length a) p R).
  { intros R HO. unfold C02BlocksIniJunk.jbounded. rewrite HO.
    pose proof (C02BlocksIniJunk.search_bound R (S (length after)) (rev g ++ rev a) after p) as B. fold z in B.
    destruct (search_from R (S (length after)) z None) as [|x|]; [left|right|left]; auto.
    exists x. split; [reflexivity|exact B]. }
  assert (HB : Forall (C02BlocksIniJunk.jbounded s (length a) p) [rx_inc_comment; rx_inc_key; rx_inc_pi])
    by (constructor; [apply Bnd; exact Oc|constructor; [apply Bnd; exact Ok|
        constructor; [apply Bnd; exact Op|constructor]]]).
  assert (Hit : forall R x, run_at R z (fun _ => true) = MSome x -> m_start x = p ->
                  osearch R s (S (length a)) =
                  match search_from R (S (length after)) z None with MSome x => Some x | _ => None end ->
                  C02BlocksIniJunk.jhits s (length a) p R).
  { intros R x Hr Hs HO. exists x. rewrite HO, search_from_S. cbv beta iota.
    change (fun s' : st => true) with (fun _ : st => true). rewrite Hr. split; [reflexivity|exact Hs]. }
  destruct Hafter as [|cs X Hne Hcs HX|b1 key v T K1 K2 K3 K4 K5 K6|w b r T P1 P2 P3 P4 P5 P6 P7 P8].
  - (* the end of the file: nothing is found *)
    rewrite C02BlocksIniJunk.get_junk_none.
    + unfold s. rewrite !app_length. simpl. rewrite Nat.add_0_r. reflexivity.
    + repeat constructor.
      * rewrite Oc, search_from_S. cbv beta iota. change (fun s' : st => true) with (fun _ : st => true).
        unfold z. rewrite comment_attempt by reflexivity. reflexivity.
      * rewrite Ok, search_from_S. cbv beta iota. change (fun s' : st => true) with (fun _ : st => true).
        unfold z. rewrite key_attempt by reflexivity. reflexivity.
      * rewrite Op, search_from_S. cbv beta iota. change (fun s' : st => true) with (fun _ : st => true).
        unfold z. rewrite pi_attempt by reflexivity. reflexivity.
  - (* comment lines: they start a line, the region ends with a newline *)
    assert (Hb : bol (rev g ++ rev a) = true).
    { apply ends_nl_bol; [exact Hgne|]. apply Hends. destruct cs as [|[c0 t0] cs']; [contradiction|].
      rewrite ctext_cons. unfold cline_text. simpl. discriminate. }
    apply C02BlocksIniJunk.get_junk_hit; [unfold p; lia|exact HB|]. apply Exists_cons_hd.
    eapply Hit; [unfold z; rewrite run_at_k0, ncomment_match by auto; reflexivity|reflexivity|exact Oc].
  - (* #define *)
    destruct (nkey_rest b1 key v T (rev s_define ++ rev g ++ rev a) (p + length s_define) K1 K2 K3 K4 K5 K6)
      as [s' [E1 [E2 E3]]].
    apply C02BlocksIniJunk.get_junk_hit; [unfold p; lia|exact HB|]. apply Exists_cons_tl. apply Exists_cons_hd.
    eapply Hit; [unfold z; rewrite run_at_k0, inc_key_shape, m_lit, starts_with_app;
                 replace (skipn (length s_define) (s_define ++ b1 ++ key ++ vtext v ++ T))
                   with (b1 ++ key ++ vtext v ++ T) by reflexivity;
                 rewrite E1; reflexivity|reflexivity|exact Ok].
  - (* an instruction *)
    destruct (pi_match w b r T (rev g ++ rev a) p P1 P2 P3 P4 P5 P6 P7 P8) as [s' [E1 [E2 E3]]].
    apply C02BlocksIniJunk.get_junk_hit; [unfold p; lia|exact HB|].
    apply Exists_cons_tl. apply Exists_cons_tl. apply Exists_cons_hd.
    eapply Hit; [unfold z; rewrite run_at_k0, E1; reflexivity|reflexivity|exact Op].
Qed.

(* ---- blocks with garbage regions -------------------------------------------------------------------------- *)
Inductive jnblock :=
| NJB (b : nblock)
| NJG (g : str).

Definition jntext (jb : jnblock) : str := match jb with NJB b => ntext b | NJG g => g end.
Definition jnfile_text (bs : list jnblock) : str := concat (map jntext bs).
Definition legal_jnblockb (jb : jnblock) : bool :=
  match jb with NJB b => legal_nblockb b | NJG g => legal_ngarbage g end.
Definition legal_jnblock (jb : jnblock) : Prop := legal_jnblockb jb = true.

(* as C02BlocksInc.nsep; a garbage region is followed by the end of the file, comment lines, an
   instruction or an entity, ends with a newline unless it is last, and does not directly
   follow a standalone comment *)
Fixpoint jnsep (bs : list jnblock) : bool :=
  match bs with
  | [] => true
  | NJB (NBlank _) :: rest => jnsep rest
  | NJB (NComment _) :: rest =>
      match rest with
      | [] | NJB (NBlank _) :: _ | NJB (NInstr _ _ _ _) :: _ => true
      | _ => false
      end && jnsep rest
  | NJB (NInstr _ _ _ nl) :: rest => (nl || is_nil rest) && jnsep rest
  | NJB (NEntity _ _ _ _ nl) :: rest => (nl || is_nil rest) && jnsep rest
  | NJG g :: rest =>
      (ends_nl g || is_nil rest) &&
      match rest with
      | [] | NJB (NComment _) :: _ | NJB (NInstr _ _ _ _) :: _ | NJB (NEntity _ _ _ _ _) :: _ => true
      | _ => false
      end && jnsep rest
  end.
Definition jnadjacent_ok (bs : list jnblock) : Prop := jnsep bs = true.

Fixpoint jnents (fe : bool) (off w : nat) (bs : list jnblock) : list entry :=
  match bs with
  | [] => nflush fe off w
  | NJB (NBlank n) :: rest => jnents fe off (w + n) rest
  | NJB (NComment cs) :: rest =>
      let a := off + w in
      let e := a + length (cbody cs) in
      nflush fe off w ++ mk_comment (a, e) :: jnents fe e 1 rest
  | NJB (NInstr w0 b r nl) :: rest =>
      let a := off + w in
      let e := a + 1 + length w0 + length b + length r in
      nflush fe off w ++
      mkentry KInstruction (a, e) (Some (a + 1, e)) (Some (a + 1, e)) None None
      :: jnents (new_filter fe (w0 ++ b ++ r)) e (length (eol nl)) rest
  | NJB (NEntity cs b1 key v nl) :: rest =>
      let a := off + w in
      let k := a + length (ctext cs) in
      let ks := k + 7 + length b1 in
      let ke := ks + length key in
      let e := ke + length (vtext v) in
      nflush fe off w ++
      mkentry KEntity (k, e) (Some (ks, ke))
              (match v with Some (_, val) => Some (ke + 1, ke + 1 + length val) | None => None end)
              (match cs with [] => None | _ => Some (a, k - 1) end)
              (match cs with [] => None | _ => Some (k - 1, k) end)
      :: jnents fe e (length (eol nl)) rest
  | NJG g :: rest =>
      let a := off + w in
      nflush fe off w ++ mk_junk (a, a + length g) :: jnents fe (a + length g) 0 rest
  end.
Definition jnentries_of (bs : list jnblock) : list entry := jnents false 0 0 bs.

(* sanity, by evaluation:
   #define k v w / "garb" newline newline "x y" newline / # c, #define<tab>k2 / #filter emptyLines /
   newline / "junk" newline / #inc  x.y / "tail" *)
Definition njx_g : jnblock := NJG (A [103; 97; 114; 98; 10; 10; 120; 32; 121; 10]).
Example njx_junk :
  let bs := [NJB nx_e1; njx_g; NJB nx_e2; NJB nx_filter; NJB nx_b1; NJG (A [106; 10]); NJB nx_incl;
             NJG (A [116; 97; 105; 108])] in
  Forall legal_jnblock bs /\ jnadjacent_ok bs /\ walk_defines (jnfile_text bs) = Ok (jnentries_of bs) /\
  filter (is_kind KJunk) (jnentries_of bs) = [mk_junk (14, 24); mk_junk (59, 61); mk_junk (71, 75)].
Proof. split; [repeat constructor|]. split; [vm_compute; reflexivity|]. split; vm_compute; reflexivity. Qed.

(* ---- the walk with garbage regions ------------------------------------------------------------------------ *)
Definition jnstmt (bs : list jnblock) (fe : bool) (a : str) (n : nat) : Prop :=
  (bs <> [] -> bol (rev (a ++ nls n)) = true) ->
  forall fuel, length (a ++ nls n ++ jnfile_text bs) - length a < fuel ->
  walk_loop gn_defines fuel fe (a ++ nls n ++ jnfile_text bs) (length a) =
  Ok (jnents fe (length a) n bs).

Definition jnonblank_head (bs : list jnblock) : Prop :=
  match bs with NJB (NBlank _) :: _ => False | _ => True end.

Lemma jnents_flush : forall bs fe off w, jnonblank_head bs ->
  jnents fe off w bs = nflush fe off w ++ jnents fe (off + w) 0 bs.
Proof.
  intros [|[[x|cs|w0 b r nl|cs b1 key v nl]|g] rest] fe off w H; try contradiction; simpl;
    rewrite ?Nat.add_0_r, ?app_nil_r; reflexivity.
Qed.

Lemma jlift_nflush : forall bs fe, jnonblank_head bs ->
  head_is (fun c => N.eqb c 10) (jnfile_text bs) = false ->
  (forall a, jnstmt bs fe a 0) ->
  forall a n, jnstmt bs fe a n.
Proof.
  intros bs fe Hnb Hhead H0 a n Hbol fuel Hf.
  destruct n as [|n'] eqn:En; [apply (H0 a); auto|]. rewrite <- En in *.
  assert (Hn : 1 <= n) by lia.
  destruct fuel as [|f]; [lia|].
  rewrite jnents_flush by exact Hnb.
  pose proof (gn_n_blank fe a (jnfile_text bs) n Hn Hhead) as G.
  assert (Efl : nflush fe (length a) n =
                [if bad_run fe (length a) n then mk_junk (length a, length a + n)
                 else mk_white (length a, length a + n)]).
  { rewrite En. unfold nflush. rewrite <- En. destruct (bad_run fe (length a) n); reflexivity. }
  rewrite Efl. simpl app. eapply walk_step_n; [|exact G|].
  - rewrite !app_length, nls_length. lia.
  - assert (Esp : snd (e_span (if bad_run fe (length a) n then mk_junk (length a, length a + n)
                               else mk_white (length a, length a + n))) = length a + n)
      by (destruct (bad_run fe (length a) n); reflexivity).
    rewrite Esp.
    assert (Hs : a ++ nls n ++ jnfile_text bs = (a ++ nls n) ++ nls 0 ++ jnfile_text bs)
      by (rewrite <- app_assoc; reflexivity).
    rewrite Hs. replace (length a + n) with (length (a ++ nls n)) by (rewrite app_length, nls_length; reflexivity).
    apply (H0 (a ++ nls n)).
    + intros Hb. simpl. rewrite app_nil_r. apply Hbol. exact Hb.
    + rewrite <- Hs. rewrite !app_length, nls_length in *. lia.
Qed.

Lemma jnfile_text_cons : forall b bs, jnfile_text (b :: bs) = jntext b ++ jnfile_text bs.
Proof. reflexivity. Qed.

Lemma jeol_tail_n : forall nl rest, (nl || is_nil rest) = true -> tail_nl (eol nl ++ jnfile_text rest).
Proof.
  intros [|] rest H; [right; eexists; reflexivity|]. simpl in H.
  destruct rest; [left; reflexivity|discriminate].
Qed.

Lemma garbage_head_nl : forall g Y, legal_ngarbage g = true -> head_is (fun c => N.eqb c 10) (g ++ Y) = false.
Proof.
  intros [|c g] Y H; [discriminate|]. unfold legal_ngarbage in H. apply andb_true_iff in H.
  destruct H as [H _]. apply negb_true_iff in H. exact H.
Qed.

(* what follows a garbage region, read off the next block *)
Lemma njunk_after_rest : forall rest, Forall legal_jnblock rest -> jnsep rest = true ->
  match rest with
  | [] | NJB (NComment _) :: _ | NJB (NInstr _ _ _ _) :: _ | NJB (NEntity _ _ _ _ _) :: _ => true
  | _ => false
  end = true ->
  njunk_after (jnfile_text rest).
Proof.
  intros [|[[x|cs|w0 b0 r nl|cs b1 key v nl]|g] rest'] Hleg Hsep Hk; try discriminate.
  - constructor.
  - (* a standalone comment *)
    inversion Hleg as [|b' r' Hb Hrest]; subst. unfold legal_jnblock in Hb. cbn [legal_jnblockb legal_nblockb] in Hb.
    apply andb_true_iff in Hb. destruct Hb as [Hc1 Hc2].
    assert (Hne : cs <> []) by (destruct cs; [discriminate|discriminate]).
    rewrite jnfile_text_cons. cbn [jntext ntext]. constructor; auto.
    cbn [jnsep] in Hsep. apply andb_true_iff in Hsep. destruct Hsep as [Hnext _].
    destruct rest' as [|[[x| |w0 b0 r nl|]|] rest'']; try discriminate; [reflexivity| |].
    + inversion Hrest as [|b' r' Hx _]; subst. unfold legal_jnblock in Hx. cbn [legal_jnblockb legal_nblockb] in Hx.
      apply Nat.leb_le in Hx. rewrite jnfile_text_cons. cbn [jntext ntext]. destruct x; [lia|]. reflexivity.
    + inversion Hrest as [|b' r' Hx _]; subst. unfold legal_jnblock in Hx. cbn [legal_jnblockb legal_nblockb] in Hx.
      repeat (apply andb_true_iff in Hx; destruct Hx as [Hx ?]).
      rewrite jnfile_text_cons. cbn [jntext ntext]. norm_app. apply head2_instr; [|assumption].
      destruct w0; [discriminate|discriminate].
  - (* an instruction *)
    inversion Hleg as [|b' r' Hb Hrest]; subst. unfold legal_jnblock in Hb. cbn [legal_jnblockb legal_nblockb] in Hb.
    repeat (apply andb_true_iff in Hb; destruct Hb as [Hb ?]).
    cbn [jnsep] in Hsep. apply andb_true_iff in Hsep. destruct Hsep as [Hnl _].
    rewrite jnfile_text_cons. cbn [jntext ntext].
    replace ((35%N :: w0 ++ b0 ++ r ++ eol nl) ++ jnfile_text rest')
      with (35%N :: w0 ++ b0 ++ r ++ (eol nl ++ jnfile_text rest')) by (norm_app; reflexivity).
    constructor.
    + destruct w0; [discriminate|discriminate].
    + assumption.
    + destruct b0; [discriminate|discriminate].
    + assumption.
    + destruct r; [discriminate|discriminate].
    + assumption.
    + match goal with H : negb (head_is _ r) = true |- _ => apply negb_true_iff in H; exact H end.
    + apply jeol_tail_n. exact Hnl.
  - (* an entity, with or without comment lines *)
    inversion Hleg as [|b' r' Hb Hrest]; subst. unfold legal_jnblock in Hb. cbn [legal_jnblockb legal_nblockb] in Hb.
    repeat (apply andb_true_iff in Hb; destruct Hb as [Hb ?]).
    cbn [jnsep] in Hsep. apply andb_true_iff in Hsep. destruct Hsep as [Hnl _].
    rewrite jnfile_text_cons. cbn [jntext ntext].
    replace ((ctext cs ++ s_define ++ b1 ++ key ++ vtext v ++ eol nl) ++ jnfile_text rest')
      with (ctext cs ++ s_define ++ b1 ++ key ++ vtext v ++ (eol nl ++ jnfile_text rest'))
      by (rewrite <- !app_assoc; reflexivity).
    destruct cs as [|c1 cs1].
    + change (ctext []) with (@nil N). cbn [app]. constructor; auto.
      * destruct b1; [discriminate|discriminate].
      * destruct key; [discriminate|discriminate].
      * apply jeol_tail_n. exact Hnl.
    + constructor; [discriminate|exact Hb|reflexivity].
Qed.

Lemma walk_jnents : forall bs, Forall legal_jnblock bs -> jnsep bs = true ->
  forall fe a n, jnstmt bs fe a n.
Proof.
  induction bs as [|b rest IH]; intros Hleg Hsep fe.
  - apply jlift_nflush; [exact I|reflexivity|].
    intros a _ fuel Hf. simpl. apply walk_loop_done. rewrite !app_length. simpl. lia.
  - inversion Hleg as [|b' rest' Hb Hrest]; subst b' rest'.
    destruct b as [[x|cs|w0 b0 r nl|cs b1 key v nl]|g].
    + (* empty lines join what is pending *)
      intros a n Hbol fuel Hf. simpl in Hsep.
      unfold legal_jnblock in Hb. cbn [legal_jnblockb legal_nblockb] in Hb. apply Nat.leb_le in Hb.
      assert (Hs : a ++ nls n ++ jnfile_text (NJB (NBlank x) :: rest) = a ++ nls (n + x) ++ jnfile_text rest).
      { rewrite jnfile_text_cons. cbn [jntext ntext]. rewrite nls_app. norm_app. reflexivity. }
      simpl jnents. rewrite Hs in *. apply (IH Hrest Hsep); auto.
      intros _. apply bol_rev_nls. lia.
    + (* a standalone comment *)
      unfold legal_jnblock in Hb. cbn [legal_jnblockb legal_nblockb] in Hb. apply andb_true_iff in Hb.
      destruct Hb as [Hc1 Hc2].
      assert (Hne : cs <> []) by (destruct cs; [discriminate|discriminate]).
      simpl in Hsep. apply andb_true_iff in Hsep. destruct Hsep as [Hnext Hsep].
      apply jlift_nflush; [exact I| rewrite jnfile_text_cons; apply head_ctext_n; auto |].
      intros a Hbol fuel Hf. destruct fuel as [|f]; [lia|].
      assert (Hb0 : bol (rev a) = true).
      { specialize (Hbol ltac:(discriminate)). simpl in Hbol. rewrite app_nil_r in Hbol. exact Hbol. }
      rewrite jnfile_text_cons in *. cbn [jntext ntext] in *. simpl app in *.
      assert (Hafter : after_ncomment (jnfile_text rest)).
      { destruct rest as [|[[x| |w0 b0 r nl|]|] rest']; try discriminate; [constructor| |].
        - rewrite jnfile_text_cons. cbn [jntext ntext].
          inversion Hrest as [|b' r' Hx Hr']; subst. unfold legal_jnblock in Hx. cbn [legal_jnblockb legal_nblockb] in Hx.
          apply Nat.leb_le in Hx.
          (* all the empty lines that follow, up to the first other block *)
          clear - Hx Hr'. revert x Hx. induction rest' as [|b2 rest2 IH2]; intros x Hx.
          + replace (nls x ++ jnfile_text []) with (nls x ++ []) by reflexivity. constructor; auto.
          + destruct b2 as [[x2|cs2|w2 b2' r2 nl2|cs2 b12 key2 v2 nl2]|g2].
            * rewrite jnfile_text_cons. cbn [jntext ntext]. rewrite app_assoc, <- nls_app.
              inversion Hr' as [|? ? _ Hr2]; subst. apply IH2; [exact Hr2|lia].
            * inversion Hr' as [|? ? Hl _]; subst. unfold legal_jnblock in Hl. cbn [legal_jnblockb legal_nblockb] in Hl.
              apply andb_true_iff in Hl. destruct Hl as [Hl1 Hl2].
              constructor; [exact Hx|]. rewrite jnfile_text_cons. cbn [jntext ntext].
              apply head_ctext_n; [destruct cs2; discriminate|exact Hl2].
            * constructor; [exact Hx|reflexivity].
            * inversion Hr' as [|? ? Hl _]; subst. unfold legal_jnblock in Hl. cbn [legal_jnblockb legal_nblockb] in Hl.
              constructor; [exact Hx|]. rewrite jnfile_text_cons. cbn [jntext ntext].
              do 5 (apply andb_true_iff in Hl; destruct Hl as [Hl _]).
              destruct cs2 as [|c2 cs2']; [reflexivity|]. rewrite <- app_assoc.
              apply head_ctext_n; [discriminate|exact Hl].
            * inversion Hr' as [|? ? Hl _]; subst. unfold legal_jnblock in Hl. cbn [legal_jnblockb] in Hl.
              constructor; [exact Hx|]. rewrite jnfile_text_cons. cbn [jntext].
              apply garbage_head_nl. exact Hl.
        - rewrite jnfile_text_cons. cbn [jntext ntext].
          inversion Hrest as [|b' r' Hx _]; subst. unfold legal_jnblock in Hx. cbn [legal_jnblockb legal_nblockb] in Hx.
          repeat (apply andb_true_iff in Hx; destruct Hx as [Hx ?]).
          replace ((35%N :: w0 ++ b0 ++ r ++ eol nl) ++ jnfile_text rest')
            with (35%N :: w0 ++ b0 ++ (r ++ eol nl ++ jnfile_text rest')) by (norm_app; reflexivity).
          constructor.
          + destruct w0; [discriminate|discriminate].
          + assumption.
          + match goal with H : negb (starts_with s_define_word w0) = true |- _ =>
              apply negb_true_iff in H; exact H end.
          + destruct b0; [discriminate|discriminate].
          + assumption. }
      pose proof (gn_n_comment fe a cs (jnfile_text rest) Hb0 Hne Hc2 Hafter) as G.
      simpl jnents. rewrite !Nat.add_0_r.
      eapply walk_step_n; [|exact G|].
      * rewrite !app_length. pose proof (ctext_length_ge cs). destruct cs; [contradiction|].
        simpl in *. lia.
      * cbn [mk_comment e_span snd].
        assert (Hs : a ++ ctext cs ++ jnfile_text rest = (a ++ cbody cs) ++ nls 1 ++ jnfile_text rest).
        { rewrite (ctext_body cs Hne). norm_app. reflexivity. }
        pose proof (cbody_length_pos cs Hne) as Hpos.
        rewrite Hs, <- app_length.
        apply (IH Hrest Hsep).
        -- intros _. apply bol_rev_nl.
        -- rewrite <- Hs.
           assert (Elen : length (ctext cs) = length (cbody cs) + 1)
             by (rewrite (ctext_body cs Hne), app_length; reflexivity).
           rewrite !app_length in *. simpl in *. lia.
    + (* an instruction *)
      unfold legal_jnblock in Hb. cbn [legal_jnblockb legal_nblockb] in Hb.
      repeat (apply andb_true_iff in Hb; destruct Hb as [Hb ?]).
      simpl in Hsep. apply andb_true_iff in Hsep. destruct Hsep as [Hnl Hsep].
      apply jlift_nflush; [exact I|reflexivity|].
      intros a _ fuel Hf. destruct fuel as [|f]; [lia|].
      assert (Etxt : a ++ nls 0 ++ jnfile_text (NJB (NInstr w0 b0 r nl) :: rest) =
                     a ++ 35%N :: w0 ++ b0 ++ r ++ (eol nl ++ jnfile_text rest)).
      { rewrite jnfile_text_cons. cbn [jntext ntext]. norm_app. reflexivity. }
      rewrite Etxt in *.
      assert (G := gn_n_instr fe a w0 b0 r (eol nl ++ jnfile_text rest)).
      cbv zeta in G.
      simpl jnents. rewrite !Nat.add_0_r.
      eapply walk_step_n; [|apply G|].
      * rewrite !app_length. simpl. lia.
      * destruct w0; [discriminate|discriminate].
      * assumption.
      * match goal with H : negb (starts_with s_define_word w0) = true |- _ =>
          apply negb_true_iff in H; exact H end.
      * destruct b0; [discriminate|discriminate].
      * assumption.
      * destruct r; [discriminate|discriminate].
      * assumption.
      * match goal with H : negb (head_is _ r) = true |- _ => apply negb_true_iff in H; exact H end.
      * apply jeol_tail_n. exact Hnl.
      * cbn [e_span snd].
        set (A0 := a ++ 35%N :: w0 ++ b0 ++ r).
        assert (Hs2 : a ++ 35%N :: w0 ++ b0 ++ r ++ (eol nl ++ jnfile_text rest) =
                      A0 ++ nls (length (eol nl)) ++ jnfile_text rest).
        { unfold A0. rewrite <- eol_nls. norm_app. reflexivity. }
        assert (El : length a + 1 + length w0 + length b0 + length r = length A0).
        { unfold A0. rewrite !app_length. simpl. rewrite !app_length. lia. }
        rewrite Hs2, El. apply (IH Hrest Hsep).
        -- intros Hr. destruct nl; [apply bol_rev_nl|]. simpl in Hnl. destruct rest; [contradiction|discriminate].
        -- rewrite Hs2 in Hf. rewrite !app_length in *. simpl in *. lia.
    + (* an entity *)
      unfold legal_jnblock in Hb. cbn [legal_jnblockb legal_nblockb] in Hb.
      repeat (apply andb_true_iff in Hb; destruct Hb as [Hb ?]).
      simpl in Hsep. apply andb_true_iff in Hsep. destruct Hsep as [Hnl Hsep].
      assert (Etxt : forall Y, jntext (NJB (NEntity cs b1 key v nl)) ++ Y =
                     ctext cs ++ s_define ++ b1 ++ key ++ vtext v ++ eol nl ++ Y).
      { intros Y. cbn [jntext ntext]. norm_app. reflexivity. }
      apply jlift_nflush; [exact I| |].
      { rewrite jnfile_text_cons, Etxt. destruct cs as [|c1 cs1]; [reflexivity|].
        apply head_ctext_n; [discriminate|exact Hb]. }
      intros a Hbol fuel Hf. destruct fuel as [|f]; [lia|].
      assert (Hb0 : cs <> [] -> bol (rev a) = true).
      { intros _. specialize (Hbol ltac:(discriminate)). simpl in Hbol. rewrite app_nil_r in Hbol. exact Hbol. }
      rewrite jnfile_text_cons in *. rewrite Etxt in *.
      change (nls 0 ++ ctext cs ++ s_define ++ b1 ++ key ++ vtext v ++ eol nl ++ jnfile_text rest)
        with (ctext cs ++ s_define ++ b1 ++ key ++ vtext v ++ eol nl ++ jnfile_text rest) in *.
      assert (G := gn_n_entity fe a cs b1 key v (eol nl ++ jnfile_text rest)).
      cbv zeta in G.
      simpl jnents. rewrite !Nat.add_0_r.
      eapply walk_step_n; [|apply G|].
      * repeat rewrite app_length. simpl. lia.
      * exact Hb.
      * destruct b1; [discriminate|discriminate].
      * assumption.
      * destruct key; [discriminate|discriminate].
      * assumption.
      * assumption.
      * apply jeol_tail_n. exact Hnl.
      * exact Hb0.
      * cbn [e_span snd].
        set (A0 := a ++ ctext cs ++ s_define ++ b1 ++ key ++ vtext v).
        assert (Hs2 : a ++ ctext cs ++ s_define ++ b1 ++ key ++ vtext v ++ eol nl ++ jnfile_text rest
                      = A0 ++ nls (length (eol nl)) ++ jnfile_text rest).
        { unfold A0. rewrite <- eol_nls. norm_app. reflexivity. }
        assert (El : length a + length (ctext cs) + 7 + length b1 + length key + length (vtext v) = length A0).
        { unfold A0. rewrite !app_length. simpl. lia. }
        rewrite Hs2, El. apply (IH Hrest Hsep).
        -- intros Hr. destruct nl; [apply bol_rev_nl|]. simpl in Hnl. destruct rest; [contradiction|discriminate].
        -- assert (Hlt : length a < length A0) by (rewrite <- El; lia).
           rewrite Hs2 in Hf. clear - Hf Hlt. rewrite !app_length in *. simpl in *. lia.
    + (* a garbage region: one junk entry, exactly the region; the filter state is unchanged *)
      unfold legal_jnblock in Hb. cbn [legal_jnblockb] in Hb.
      cbn [jnsep] in Hsep. apply andb_true_iff in Hsep. destruct Hsep as [Hsep0 Hsep].
      apply andb_true_iff in Hsep0. destruct Hsep0 as [Hend Hnext].
      assert (Hpos : 1 <= length g) by (destruct g; [discriminate|simpl; lia]).
      apply jlift_nflush; [exact I| |].
      { rewrite jnfile_text_cons. cbn [jntext]. apply garbage_head_nl. exact Hb. }
      intros a _ fuel Hf. destruct fuel as [|f]; [lia|].
      rewrite jnfile_text_cons in *. cbn [jntext] in *.
      change (nls 0 ++ g ++ jnfile_text rest) with (g ++ jnfile_text rest) in *.
      assert (Hends : jnfile_text rest <> [] -> ends_nl g = true).
      { intros Hne. apply orb_true_iff in Hend. destruct Hend as [E|E]; [exact E|].
        destruct rest; [contradiction|discriminate]. }
      pose proof (gn_n_garbage fe a g (jnfile_text rest) Hb (njunk_after_rest rest Hrest Hsep Hnext) Hends) as G.
      simpl jnents. rewrite !Nat.add_0_r.
      eapply walk_step_n; [|exact G|].
      * rewrite !app_length. lia.
      * cbn [mk_junk e_span snd].
        assert (Hs : a ++ g ++ jnfile_text rest = (a ++ g) ++ nls 0 ++ jnfile_text rest)
          by (rewrite <- app_assoc; reflexivity).
        rewrite Hs, <- app_length.
        apply (IH Hrest Hsep).
        -- intros Hr. simpl. rewrite app_nil_r, rev_app_distr. apply ends_nl_bol; [destruct g; [discriminate|discriminate]|].
           apply orb_true_iff in Hend. destruct Hend as [E|E]; [exact E|]. destruct rest; [contradiction|discriminate].
        -- rewrite <- Hs. rewrite !app_length in *. lia.
Qed.

(* ---- the block theorem with garbage regions ---------------------------------------------------------------- *)
Theorem blocks_inc_junk : forall bs : list jnblock,
  Forall legal_jnblock bs -> jnadjacent_ok bs ->
  walk_defines (jnfile_text bs) = Ok (jnentries_of bs).
Proof.
  intros bs Hleg Hadj. unfold walk_defines, walk, jnentries_of.
  apply (walk_jnents bs Hleg Hadj false [] 0); [reflexivity|]. simpl. lia.
Qed.
Print Assumptions blocks_inc_junk.

(* ---- what the entries contain ----------------------------------------------------------------------------- *)
Fixpoint jnrecords_of (bs : list jnblock) : list nrecord :=
  match bs with
  | [] => []
  | NJB (NEntity cs _ key v _) :: rest =>
      (key, match v with Some (_, val) => Some val | None => None end,
       match cs with [] => None | _ => Some (cbody cs) end) :: jnrecords_of rest
  | _ :: rest => jnrecords_of rest
  end.
Fixpoint jncomments_of (bs : list jnblock) : list str :=
  match bs with
  | [] => []
  | NJB (NComment cs) :: rest => cbody cs :: jncomments_of rest
  | _ :: rest => jncomments_of rest
  end.
Fixpoint jninstrs_of (bs : list jnblock) : list str :=
  match bs with
  | [] => []
  | NJB (NInstr w b r _) :: rest => (w ++ b ++ r) :: jninstrs_of rest
  | _ :: rest => jninstrs_of rest
  end.
Fixpoint jngarbage_of (bs : list jnblock) : list str :=
  match bs with
  | [] => []
  | NJG g :: rest => g :: jngarbage_of rest
  | _ :: rest => jngarbage_of rest
  end.

Definition jnviews (s : str) (es : list entry) (bs : list jnblock) : Prop :=
  map (entity_nrecord s) (filter (is_kind KEntity) es) = jnrecords_of bs /\
  map (fun e => span_text s (e_span e)) (filter (is_kind KComment) es) = jncomments_of bs /\
  map (fun e => opt_text s (e_val e)) (filter (is_kind KInstruction) es) = jninstrs_of bs.

Lemma jnents_views : forall bs, Forall legal_jnblock bs -> forall fe (a : str) n,
  jnviews (a ++ nls n ++ jnfile_text bs) (jnents fe (length a) n bs) bs.
Proof.
  induction bs as [|b rest IH]; intros Hleg fe a n; unfold jnviews.
  - simpl jnents. destruct (nflush_views fe a n (jnfile_text [])) as [F1 [F2 [F3 F4]]].
    rewrite F1, F2, F3. repeat split.
  - inversion Hleg as [|b' rest' Hb Hrest]; subst b' rest'. specialize (IH Hrest).
    set (s := a ++ nls n ++ jnfile_text (b :: rest)).
    destruct (nflush_views fe a n (jnfile_text (b :: rest))) as [F1 [F2 [F3 F4]]]. fold s in F4.
    destruct b as [[x|cs|w0 b0 r nl|cs b1 key v nl]|g].
    + assert (Hs : s = a ++ nls (n + x) ++ jnfile_text rest).
      { unfold s. rewrite jnfile_text_cons. cbn [jntext ntext]. rewrite nls_app. norm_app. reflexivity. }
      simpl jnents. rewrite Hs. apply IH.
    + unfold legal_jnblock in Hb. cbn [legal_jnblockb legal_nblockb] in Hb. apply andb_true_iff in Hb.
      destruct Hb as [Hc1 _].
      assert (Hne : cs <> []) by (destruct cs; [discriminate|discriminate]).
      set (A0 := a ++ nls n ++ cbody cs).
      assert (Hs : s = A0 ++ nls 1 ++ jnfile_text rest).
      { unfold s, A0. rewrite jnfile_text_cons. cbn [jntext ntext]. rewrite (ctext_body cs Hne).
        norm_app. reflexivity. }
      assert (El : length a + n + length (cbody cs) = length A0)
        by (unfold A0; rewrite !app_length, nls_length; lia).
      destruct (IH fe A0 1) as [I1 [I2 I3]]. rewrite <- Hs in I1, I2, I3.
      simpl jnents. rewrite !filter_app, F1, F2, F3. rewrite El.
      cbn [app filter is_kind mk_comment e_kind map e_span]. rewrite I1, I2, I3.
      split; [reflexivity|split; [|reflexivity]]. cbn [jncomments_of]. f_equal.
      assert (Hs' : s = (a ++ nls n) ++ cbody cs ++ nls 1 ++ jnfile_text rest)
        by (rewrite Hs; unfold A0; norm_app; reflexivity).
      unfold span_text. cbn [fst snd]. rewrite <- El.
      replace (length a + n) with (length (a ++ nls n)) by (rewrite app_length, nls_length; reflexivity).
      rewrite Hs'. apply slice_mid.
    + set (N0 := a ++ nls n ++ [35%N]).
      set (A0 := N0 ++ w0 ++ b0 ++ r).
      assert (Hs : s = A0 ++ nls (length (eol nl)) ++ jnfile_text rest).
      { unfold s, A0, N0. rewrite jnfile_text_cons. cbn [jntext ntext]. rewrite <- eol_nls. norm_app. reflexivity. }
      assert (En : length a + n + 1 = length N0)
        by (unfold N0; rewrite !app_length, nls_length; simpl; lia).
      assert (Ee : length a + n + 1 + length w0 + length b0 + length r = length A0).
      { unfold A0. rewrite !app_length. lia. }
      destruct (IH (new_filter fe (w0 ++ b0 ++ r)) A0 (length (eol nl))) as [I1 [I2 I3]].
      rewrite <- Hs in I1, I2, I3.
      simpl jnents. rewrite !filter_app, F1, F2, F3. rewrite Ee, En.
      cbn [app filter is_kind e_kind map e_val]. rewrite I1, I2, I3.
      split; [reflexivity|split; [reflexivity|]].
      cbn [jninstrs_of]. f_equal. unfold opt_text, span_text. cbn [fst snd].
      assert (Hs' : s = N0 ++ (w0 ++ b0 ++ r) ++ nls (length (eol nl)) ++ jnfile_text rest)
        by (rewrite Hs; unfold A0; norm_app; reflexivity).
      rewrite Hs'. rewrite <- Ee, En.
      replace (length N0 + length w0 + length b0 + length r) with (length N0 + length (w0 ++ b0 ++ r))
        by (rewrite !app_length; lia).
      apply slice_mid.
    + set (K0 := a ++ nls n ++ ctext cs).
      set (S0 := K0 ++ s_define ++ b1).
      set (E0 := S0 ++ key).
      set (A0 := E0 ++ vtext v).
      assert (Hs : s = A0 ++ nls (length (eol nl)) ++ jnfile_text rest).
      { unfold s, A0, E0, S0, K0. rewrite jnfile_text_cons. cbn [jntext ntext]. rewrite <- eol_nls.
        rewrite <- !app_assoc. reflexivity. }
      assert (Ek : length a + n + length (ctext cs) = length K0)
        by (unfold K0; rewrite !app_length, nls_length; lia).
      assert (Es0 : length K0 + 7 + length b1 = length S0).
      { unfold S0. rewrite !app_length. simpl. lia. }
      assert (Ee0 : length S0 + length key = length E0) by (unfold E0; rewrite app_length; lia).
      assert (Ea0 : length E0 + length (vtext v) = length A0) by (unfold A0; rewrite app_length; lia).
      destruct (IH fe A0 (length (eol nl))) as [I1 [I2 I3]]. rewrite <- Hs in I1, I2, I3.
      simpl jnents. rewrite !filter_app, F1, F2, F3. rewrite Ek, Es0, Ee0, Ea0.
      cbn [app filter is_kind e_kind map]. rewrite I1, I2, I3.
      split; [|split; reflexivity]. cbn [jnrecords_of]. f_equal.
      unfold entity_nrecord. cbn [e_key e_val e_pre opt_text].
      unfold span_text. cbn [fst snd].
      assert (S1 : slice s (length S0) (length E0) = key).
      { rewrite <- Ee0, Hs. unfold A0, E0. rewrite <- !app_assoc. apply slice_mid. }
      rewrite S1. f_equal; [f_equal|].
      * destruct v as [[c val]|]; [|reflexivity]. cbn [option_map fst snd]. f_equal.
        replace s with ((E0 ++ [c]) ++ val ++ nls (length (eol nl)) ++ jnfile_text rest)
          by (rewrite Hs; unfold A0; cbn [vtext]; norm_app; reflexivity).
        replace (length E0 + 1) with (length (E0 ++ [c])) by (rewrite app_length; reflexivity).
        apply slice_mid.
      * assert (Hcase : cs = [] \/ cs <> []) by (destruct cs; [left; reflexivity|right; discriminate]).
        destruct Hcase as [Ecs|Hne]; [rewrite Ecs; reflexivity|].
        rewrite !(match_ne cs) by exact Hne.
        cbn [option_map]. f_equal. cbn [fst snd].
        assert (Ec : length K0 - 1 = length (a ++ nls n) + length (cbody cs)).
        { rewrite <- Ek, (ctext_body cs Hne), !app_length, nls_length. simpl. lia. }
        replace (length a + n) with (length (a ++ nls n)) by (rewrite app_length, nls_length; reflexivity).
        rewrite Ec.
        replace s with ((a ++ nls n) ++ cbody cs ++ nls 1 ++
                        (s_define ++ b1 ++ key ++ vtext v ++ eol nl) ++ jnfile_text rest)
          by (unfold s; rewrite jnfile_text_cons; cbn [jntext ntext]; rewrite (ctext_body cs Hne);
              rewrite <- !app_assoc; reflexivity).
        apply slice_mid.
    + set (A0 := a ++ nls n ++ g).
      assert (Hs : s = A0 ++ nls 0 ++ jnfile_text rest).
      { unfold s, A0. rewrite jnfile_text_cons. cbn [jntext]. norm_app. reflexivity. }
      assert (El : length a + n + length g = length A0)
        by (unfold A0; rewrite !app_length, nls_length; lia).
      destruct (IH fe A0 0) as [I1 [I2 I3]]. rewrite <- Hs in I1, I2, I3.
      simpl jnents. rewrite !filter_app, F1, F2, F3. rewrite El.
      cbn [app filter is_kind mk_junk e_kind map]. rewrite I1, I2, I3. repeat split.
Qed.

(* the Junk entries that are not runs of newlines (those belong to the empty-line treatment of
   the format) are, one for one and in order, exactly the garbage regions *)
Definition junk_texts (s : str) (es : list entry) : list str :=
  filter (fun t => negb (all_nl t)) (map (fun e => span_text s (e_span e)) (filter (is_kind KJunk) es)).

Lemma junk_texts_app : forall s x y, junk_texts s (x ++ y) = junk_texts s x ++ junk_texts s y.
Proof. intros. unfold junk_texts. rewrite filter_app, map_app, filter_app. reflexivity. Qed.

Lemma all_nl_filter : forall (f : entry -> str) l,
  forallb (fun e => all_nl (f e)) l = true -> filter (fun t => negb (all_nl t)) (map f l) = [].
Proof.
  induction l as [|e l IH]; intros H; [reflexivity|]. cbn [forallb] in H. apply andb_true_iff in H.
  destruct H as [H1 H2]. cbn [map filter]. rewrite H1. cbn [negb]. apply IH. exact H2.
Qed.

Lemma nflush_junk_texts : forall fe (a : str) n X, junk_texts (a ++ nls n ++ X) (nflush fe (length a) n) = [].
Proof.
  intros fe a n X. destruct (nflush_views fe a n X) as [_ [_ [_ F4]]]. unfold junk_texts.
  apply all_nl_filter. exact F4.
Qed.

Lemma junk_step : forall fe (a : str) n X e l, is_kind KJunk e = false ->
  junk_texts (a ++ nls n ++ X) (nflush fe (length a) n ++ e :: l) = junk_texts (a ++ nls n ++ X) l.
Proof.
  intros fe a n X e l He. rewrite junk_texts_app, nflush_junk_texts. cbn [app].
  unfold junk_texts. cbn [filter]. rewrite He. reflexivity.
Qed.

Lemma garbage_not_all_nl : forall g, legal_ngarbage g = true -> all_nl g = false.
Proof.
  intros [|c g] H; [discriminate|]. unfold legal_ngarbage in H. apply andb_true_iff in H.
  destruct H as [H _]. apply negb_true_iff in H. cbn [all_nl forallb]. rewrite H. reflexivity.
Qed.

Lemma jnents_junk : forall bs, Forall legal_jnblock bs -> forall fe (a : str) n,
  junk_texts (a ++ nls n ++ jnfile_text bs) (jnents fe (length a) n bs) = jngarbage_of bs.
Proof.
  induction bs as [|b rest IH]; intros Hleg fe a n.
  - cbn [jnents]. apply nflush_junk_texts.
  - inversion Hleg as [|b' rest' Hb Hrest]; subst b' rest'. specialize (IH Hrest).
    set (s := a ++ nls n ++ jnfile_text (b :: rest)).
    destruct b as [[x|cs|w0 b0 r nl|cs b1 key v nl]|g].
    + assert (Hs : s = a ++ nls (n + x) ++ jnfile_text rest).
      { unfold s. rewrite jnfile_text_cons. cbn [jntext ntext]. rewrite nls_app. norm_app. reflexivity. }
      simpl jnents. rewrite Hs. apply IH.
    + unfold legal_jnblock in Hb. cbn [legal_jnblockb legal_nblockb] in Hb. apply andb_true_iff in Hb.
      destruct Hb as [Hc1 _].
      assert (Hne : cs <> []) by (destruct cs; [discriminate|discriminate]).
      set (A0 := a ++ nls n ++ cbody cs).
      assert (Hs : s = A0 ++ nls 1 ++ jnfile_text rest).
      { unfold s, A0. rewrite jnfile_text_cons. cbn [jntext ntext]. rewrite (ctext_body cs Hne).
        norm_app. reflexivity. }
      assert (El : length a + n + length (cbody cs) = length A0)
        by (unfold A0; rewrite !app_length, nls_length; lia).
      cbn [jnents]. unfold s. rewrite junk_step by reflexivity. fold s. rewrite El, Hs. apply IH.
    + set (A0 := a ++ nls n ++ 35%N :: w0 ++ b0 ++ r).
      assert (Hs : s = A0 ++ nls (length (eol nl)) ++ jnfile_text rest).
      { unfold s, A0. rewrite jnfile_text_cons. cbn [jntext ntext]. rewrite <- eol_nls. norm_app. reflexivity. }
      assert (Ee : length a + n + 1 + length w0 + length b0 + length r = length A0).
      { unfold A0. rewrite !app_length, nls_length. simpl. rewrite !app_length. lia. }
      cbn [jnents]. unfold s. rewrite junk_step by reflexivity. fold s. rewrite Ee, Hs. apply IH.
    + set (A0 := a ++ nls n ++ ctext cs ++ s_define ++ b1 ++ key ++ vtext v).
      assert (Hs : s = A0 ++ nls (length (eol nl)) ++ jnfile_text rest).
      { unfold s, A0. rewrite jnfile_text_cons. cbn [jntext ntext]. rewrite <- eol_nls.
        rewrite <- !app_assoc. reflexivity. }
      assert (Ee : length a + n + length (ctext cs) + 7 + length b1 + length key + length (vtext v) = length A0).
      { unfold A0. rewrite !app_length, nls_length. simpl. lia. }
      cbn [jnents]. unfold s. rewrite junk_step by reflexivity. fold s. rewrite Ee, Hs. apply IH.
    + unfold legal_jnblock in Hb. cbn [legal_jnblockb] in Hb.
      set (A0 := a ++ nls n ++ g).
      assert (Hs : s = A0 ++ nls 0 ++ jnfile_text rest).
      { unfold s, A0. rewrite jnfile_text_cons. cbn [jntext]. norm_app. reflexivity. }
      assert (El : length a + n + length g = length A0)
        by (unfold A0; rewrite !app_length, nls_length; lia).
      cbn [jnents]. unfold s. rewrite junk_texts_app, nflush_junk_texts. fold s. cbn [app].
      unfold junk_texts at 1. cbn [filter is_kind mk_junk e_kind map e_span].
      assert (Esl : span_text s (length a + n, length a + n + length g) = g).
      { unfold span_text. cbn [fst snd].
        replace s with ((a ++ nls n) ++ g ++ jnfile_text rest)
          by (unfold s; rewrite jnfile_text_cons; cbn [jntext]; norm_app; reflexivity).
        replace (length a + n) with (length (a ++ nls n)) by (rewrite app_length, nls_length; reflexivity).
        apply slice_mid. }
      rewrite Esl, (garbage_not_all_nl g Hb). cbn [negb jngarbage_of]. f_equal.
      fold (junk_texts s (jnents fe (length a + n + length g) 0 rest)). rewrite El, Hs. apply IH.
Qed.

(* with garbage regions: the entities are exactly the records, the standalone comments the
   comment blocks, the instructions the instruction blocks, and the Junk entries that are not
   runs of newlines are, one for one and in order, exactly the garbage regions *)
Theorem roundtrip_inc_junk : forall bs : list jnblock,
  Forall legal_jnblock bs -> jnadjacent_ok bs ->
  exists es, walk_defines (jnfile_text bs) = Ok es /\ jnviews (jnfile_text bs) es bs /\
             junk_texts (jnfile_text bs) es = jngarbage_of bs.
Proof.
  intros bs Hleg Hadj. exists (jnentries_of bs). split; [apply blocks_inc_junk; auto|].
  split; [exact (jnents_views bs Hleg false [] 0)|exact (jnents_junk bs Hleg false [] 0)].
Qed.
Print Assumptions roundtrip_inc_junk.

(* ---- ONE garbage region between two block lists ---------------------------------------------------------- *)
Definition nwith_garbage (bs1 : list nblock) (g : str) (bs2 : list nblock) : list jnblock :=
  map NJB bs1 ++ NJG g :: map NJB bs2.

Lemma jnfile_text_app : forall x y, jnfile_text (x ++ y) = jnfile_text x ++ jnfile_text y.
Proof. intros. unfold jnfile_text. rewrite map_app, concat_app. reflexivity. Qed.

Lemma jnfile_text_NJB : forall bs, jnfile_text (map NJB bs) = nfile_text bs.
Proof. induction bs as [|b bs IH]; [reflexivity|]. rewrite map_cons, jnfile_text_cons, IH. reflexivity. Qed.

Lemma jn_of_NJB : forall bs, jnrecords_of (map NJB bs) = nrecords_of bs /\
  jncomments_of (map NJB bs) = ncomments_of bs /\ jninstrs_of (map NJB bs) = ninstrs_of bs /\
  jngarbage_of (map NJB bs) = [].
Proof.
  induction bs as [|[x|cs|w0 b0 r nl|cs b1 key v nl] bs [I1 [I2 [I3 I4]]]]; [repeat split| | | |];
    cbn [map jnrecords_of jncomments_of jninstrs_of jngarbage_of nrecords_of ncomments_of ninstrs_of];
    rewrite ?I1, ?I2, ?I3, ?I4; repeat split.
Qed.

Lemma jnrecords_app : forall x y, jnrecords_of (x ++ y) = jnrecords_of x ++ jnrecords_of y.
Proof.
  induction x as [|[[x0|cs|w0 b0 r nl|cs b1 key v nl]|g] x IH]; intros y; simpl; rewrite ?IH; reflexivity.
Qed.
Lemma jncomments_app : forall x y, jncomments_of (x ++ y) = jncomments_of x ++ jncomments_of y.
Proof.
  induction x as [|[[x0|cs|w0 b0 r nl|cs b1 key v nl]|g] x IH]; intros y; simpl; rewrite ?IH; reflexivity.
Qed.
Lemma jninstrs_app : forall x y, jninstrs_of (x ++ y) = jninstrs_of x ++ jninstrs_of y.
Proof.
  induction x as [|[[x0|cs|w0 b0 r nl|cs b1 key v nl]|g] x IH]; intros y; simpl; rewrite ?IH; reflexivity.
Qed.
Lemma jngarbage_app : forall x y, jngarbage_of (x ++ y) = jngarbage_of x ++ jngarbage_of y.
Proof.
  induction x as [|[[x0|cs|w0 b0 r nl|cs b1 key v nl]|g] x IH]; intros y; simpl; rewrite ?IH; reflexivity.
Qed.

(* the entries of a prefix of ordinary blocks, then those of the rest at the offset reached *)
Lemma jnents_prefix : forall bs, Forall legal_nblock bs -> forall fe off w R,
  exists pre fe' off' w', jnents fe off w (map NJB bs ++ R) = pre ++ jnents fe' off' w' R /\
                          off' + w' = off + w + length (nfile_text bs).
Proof.
  induction bs as [|b bs IH]; intros Hleg fe off w R.
  - exists [], fe, off, w. split; [reflexivity|simpl; lia].
  - inversion Hleg as [|? ? Hb Hrest]; subst. specialize (IH Hrest).
    rewrite nfile_text_cons, app_length.
    destruct b as [x|cs|w0 b0 r nl|cs b1 key v nl]; cbn [map app jnents ntext].
    + destruct (IH fe off (w + x) R) as [pre [fe' [o [w' [E1 E2]]]]]. exists pre, fe', o, w'.
      split; [exact E1|]. rewrite nls_length. lia.
    + unfold legal_nblock in Hb. cbn [legal_nblockb] in Hb. apply andb_true_iff in Hb. destruct Hb as [Hc _].
      assert (Hne : cs <> []) by (destruct cs; [discriminate|discriminate]).
      destruct (IH fe (off + w + length (cbody cs)) 1 R) as [pre [fe' [o [w' [E1 E2]]]]].
      eexists (_ ++ _ :: pre), fe', o, w'. split; [rewrite E1, <- app_assoc; reflexivity|].
      rewrite (ctext_body cs Hne), app_length. simpl. lia.
    + destruct (IH (new_filter fe (w0 ++ b0 ++ r)) (off + w + 1 + length w0 + length b0 + length r)
                   (length (eol nl)) R) as [pre [fe' [o [w' [E1 E2]]]]].
      eexists (_ ++ _ :: pre), fe', o, w'. split; [rewrite E1, <- app_assoc; reflexivity|].
      simpl. rewrite !app_length. lia.
    + destruct (IH fe (off + w + length (ctext cs) + 7 + length b1 + length key + length (vtext v))
                   (length (eol nl)) R) as [pre [fe' [o [w' [E1 E2]]]]].
      eexists (_ ++ _ :: pre), fe', o, w'. split; [rewrite E1, <- app_assoc; reflexivity|].
      rewrite !app_length. simpl. lia.
Qed.

(* a file printed from two block lists with ONE garbage region between them: every record,
   comment and instruction is recovered unchanged, the only Junk entry that is not a run of
   newlines is the region, and its span is exactly the region *)
Theorem inc_junk_one_region : forall (bs1 : list nblock) (g : str) (bs2 : list nblock),
  Forall legal_nblock bs1 -> legal_ngarbage g = true -> Forall legal_nblock bs2 ->
  jnadjacent_ok (nwith_garbage bs1 g bs2) ->
  let s := nfile_text bs1 ++ g ++ nfile_text bs2 in
  let p := length (nfile_text bs1) in
  exists es, walk_defines s = Ok es /\
    map (entity_nrecord s) (filter (is_kind KEntity) es) = nrecords_of bs1 ++ nrecords_of bs2 /\
    map (fun e => span_text s (e_span e)) (filter (is_kind KComment) es) =
      ncomments_of bs1 ++ ncomments_of bs2 /\
    map (fun e => opt_text s (e_val e)) (filter (is_kind KInstruction) es) =
      ninstrs_of bs1 ++ ninstrs_of bs2 /\
    junk_texts s es = [g] /\ In (mk_junk (p, p + length g)) es /\
    slice s p (p + length g) = g.
Proof.
  intros bs1 g bs2 H1 Hg H2 Hadj s p.
  assert (Hleg : Forall legal_jnblock (nwith_garbage bs1 g bs2)).
  { unfold nwith_garbage. apply Forall_app. split; [|constructor; [exact Hg|]];
      rewrite Forall_map; assumption. }
  assert (Es : jnfile_text (nwith_garbage bs1 g bs2) = s).
  { unfold nwith_garbage, s. rewrite jnfile_text_app, jnfile_text_cons, !jnfile_text_NJB. reflexivity. }
  exists (jnentries_of (nwith_garbage bs1 g bs2)).
  pose proof (blocks_inc_junk _ Hleg Hadj) as Hw. rewrite Es in Hw.
  destruct (jnents_views _ Hleg false [] 0) as [V1 [V2 V3]].
  pose proof (jnents_junk _ Hleg false [] 0) as V4. cbn [app length nls repeat] in V1, V2, V3, V4.
  rewrite Es in V1, V2, V3, V4. fold (jnentries_of (nwith_garbage bs1 g bs2)) in V1, V2, V3, V4.
  destruct (jn_of_NJB bs1) as [A1 [A2 [A3 A4]]]. destruct (jn_of_NJB bs2) as [B1 [B2 [B3 B4]]].
  split; [exact Hw|]. split; [|split; [|split; [|split; [|split]]]].
  - rewrite V1. unfold nwith_garbage. rewrite jnrecords_app. cbn [jnrecords_of]. rewrite A1, B1. reflexivity.
  - rewrite V2. unfold nwith_garbage. rewrite jncomments_app. cbn [jncomments_of]. rewrite A2, B2. reflexivity.
  - rewrite V3. unfold nwith_garbage. rewrite jninstrs_app. cbn [jninstrs_of]. rewrite A3, B3. reflexivity.
  - rewrite V4. unfold nwith_garbage. rewrite jngarbage_app. cbn [jngarbage_of]. rewrite A4, B4. reflexivity.
  - unfold jnentries_of, nwith_garbage.
    destruct (jnents_prefix bs1 H1 false 0 0 (NJG g :: map NJB bs2)) as [pre [fe' [o [w' [E1 E2]]]]].
    rewrite E1. cbn [jnents]. simpl in E2. rewrite E2. fold p.
    apply in_or_app. right. apply in_or_app. right. left. reflexivity.
  - unfold s, p. apply slice_mid.
Qed.
Print Assumptions inc_junk_one_region.

(*  #define k v w / "garb" newline newline "x y" newline / # c, #define<tab>k2 / #inc  x.y  *)
Example njx_one_region :
  let bs1 := [nx_e1] in let g := A [103; 97; 114; 98; 10; 10; 120; 32; 121; 10] in let bs2 := [nx_e2; nx_incl] in
  Forall legal_nblock bs1 /\ legal_ngarbage g = true /\ Forall legal_nblock bs2 /\
  jnadjacent_ok (nwith_garbage bs1 g bs2) /\
  length (nfile_text bs1) = 14 /\ length g = 10.
Proof.
  split; [repeat constructor|]. split; [reflexivity|]. split; [repeat constructor|].
  split; [vm_compute; reflexivity|]. split; reflexivity.
Qed.
