(* The converse direction of the CSS parser: arbitrary text between the
   declarations.  Between / around valid declarations stands any string of
   characters that cannot start a declaration; parse_css_spec returns the map
   of the declarations and exactly the errors of the gaps that are not
   blanks ;? blanks (css-bad-content) or lack the semicolon after a
   declaration (css-missing-semicolon). *)
From Coq Require Import NArith List Bool Arith Lia ZifyBool.
From CL Require Import Base.Sx Base.Res Base.Str Regex.Rx Regex.RxLemmas Generated.RxC07 Generated.C07Facts
  Model.CSS Proofs.CssRxKit Proofs.CssRxSpec Proofs.CssFinditer Proofs.CssParseTheorem.
Import ListNotations.

Local Arguments Nat.ltb : simpl never.
Local Arguments Nat.leb : simpl never.
Local Arguments Nat.eqb : simpl never.
Local Arguments Nat.sub : simpl never.
Local Arguments Nat.add : simpl never.

Notation RX := rx_c07_css_spec.

(* a character no declaration starts with (read off the generated expression) *)
Definition inert (c : N) : bool := fails_on RX c.

Record jitem := mkjitem { j_gap : str; j_decl : decl }.
Definition render_jitem (it : jitem) : str := j_gap it ++ render_decl (j_decl it).
Definition render_jitems (items : list jitem) (tr : str) : str := concat (map render_jitem items) ++ tr.
Definition jitem_ok (it : jitem) : bool := forallb inert (j_gap it) && decl_ok (j_decl it).

Fixpoint exp_msj (off : nat) (items : list jitem) (tr : str) : list mres :=
  match items with
  | [] => [mkres (off + length tr) (off + length tr) []]
  | it :: rest =>
      let a := off + length (j_gap it) in
      let e := a + length (render_decl (j_decl it)) in
      mkres a e (decl_caps a (j_decl it) []) :: exp_msj e rest tr
  end.

(* ---- finditer skips inert text ------------------------------------------------------------- *)
Lemma skip_inert1 z c t f : suf z = c :: t -> inert c = true -> caps z = [] ->
  finditer_from RX (S f) z None = finditer_from RX (S f) (St z [c] t []) None.
Proof.
  intros Hs Hc Hcz. rewrite !finditer_from_S. cbn [suf St]. rewrite Hs. cbn [length].
  rewrite (search_from_S RX (S (length t)) z None).
  rewrite run_at_fail by (apply (fails_on_ok RX z c t); assumption).
  rewrite Hs, advance_St, Hcz.
  destruct (search_from RX (S (length t)) (St z [c] t []) None) as [|x|] eqn:E; try reflexivity.
  apply search_from_some in E. destruct E as (E1 & E2 & _). cbn [St pos length] in E1.
  match goal with |- match finditer_from _ _ ?A _ with _ => _ end =
                     match finditer_from _ _ ?B _ with _ => _ end =>
    assert (A = B) as ->; [|reflexivity] end.
  replace (m_end x - pos z) with (S (m_end x - (pos z + 1))) by lia.
  cbn [fwd suf pre pos St rev app length]. f_equal. apply st_ext; cbn; auto. lia.
Qed.

Lemma skip_inert : forall s z rest f, suf z = s ++ rest -> forallb inert s = true -> caps z = [] ->
  finditer_from RX (S f) z None = finditer_from RX (S f) (St z s rest []) None.
Proof.
  induction s as [|c s IH]; intros z rest f Hs Hm Hcz.
  - cbn [app] in Hs. rewrite <- Hs, <- Hcz, St_nil. reflexivity.
  - cbn [forallb] in Hm. apply andb_true_iff in Hm. destruct Hm as [Hc Hm]. cbn [app] in Hs.
    rewrite (skip_inert1 z c (s ++ rest) f Hs Hc Hcz).
    rewrite (IH (St z [c] (s ++ rest) []) rest f) by (first [reflexivity|exact Hm]).
    rewrite St_St. reflexivity.
Qed.

Theorem finditer_jitems : forall items tr z fuel,
  caps z = [] -> suf z = render_jitems items tr ->
  forallb jitem_ok items = true -> forallb inert tr = true ->
  2 * length (suf z) + 1 < fuel ->
  finditer_from RX fuel z None = Some (exp_msj (pos z) items tr).
Proof.
  induction items as [|it items IH]; intros tr z fuel Hcz Hs Hok Htr Hfuel.
  - destruct fuel as [|f]; [lia|]. unfold render_jitems in Hs. cbn [map concat app] in Hs.
    rewrite (skip_inert tr z [] f) by (first [rewrite app_nil_r; exact Hs | exact Htr | exact Hcz]).
    set (z1 := St z tr [] []).
    rewrite finditer_from_S, search_from_S.
    rewrite (run_at_done RX z1 _ z1) by (rewrite spec_at_end by reflexivity; reflexivity).
    cbn [m_start m_end]. rewrite Nat.eqb_refl, Nat.sub_diag. cbn [fwd].
    destruct f as [|f]; [lia|].
    rewrite finditer_from_S, search_from_S.
    rewrite run_at_fail.
    2: { rewrite spec_at_end by reflexivity. cbn [pos]. rewrite !Nat.eqb_refl. reflexivity. }
    cbn [suf z1 St]. cbn [exp_msj]. reflexivity.
  - destruct fuel as [|f]; [lia|].
    cbn [forallb] in Hok. apply andb_true_iff in Hok. destruct Hok as [Hit Hok].
    unfold jitem_ok in Hit. apply andb_true_iff in Hit. destruct Hit as [Hg Hd].
    unfold render_jitems in Hs. cbn [map concat] in Hs. unfold render_jitem in Hs.
    set (g := j_gap it) in *. set (dt := render_decl (j_decl it)) in *.
    assert (Hs1 : suf z = g ++ (dt ++ render_jitems items tr)).
    { rewrite Hs. unfold render_jitems. unfold str in *. rewrite <- !app_assoc. reflexivity. }
    rewrite (skip_inert g z _ f Hs1 Hg Hcz).
    set (z1 := St z g (dt ++ render_jitems items tr) []).
    rewrite finditer_from_S.
    rewrite (search_at_decl z1 (j_decl it) (render_jitems items tr)) by (first [reflexivity | exact Hd]).
    pose proof (decl_nonempty _ Hd) as Hne. fold dt in Hne.
    cbn [m_start m_end]. fold dt.
    assert (Nat.eqb (pos z1) (pos z1 + length dt) = false) as -> by (apply Nat.eqb_neq; lia).
    replace (pos z1 + length dt - pos z1) with (length dt) by lia.
    rewrite (z_nocaps z1 eq_refl), (fwd_St dt z1 (render_jitems items tr) eq_refl).
    cbn [caps z1 St].
    rewrite (IH tr (St z1 dt (render_jitems items tr) []) f);
      [ | reflexivity | reflexivity | exact Hok | exact Htr | ].
    + cbn [exp_msj]. fold g dt. cbn [pos z1 St]. reflexivity.
    + cbn [suf St]. rewrite Hs1, !app_length in Hfuel. lia.
Qed.

(* ---- the separator expression decides the shape of a gap ----------------------------------------- *)
Fixpoint drop_ws (s : str) : str :=
  match s with
  | c :: t => if cssws c then drop_ws t else s
  | [] => []
  end.

(* Some true: blanks ; blanks   Some false: blanks   None: anything else *)
Definition sep_shape (j : str) : option bool :=
  match drop_ws j with
  | [] => Some false
  | c :: t => if N.eqb c 59 then match drop_ws t with [] => Some true | _ => None end else None
  end.

Lemma ws_split : forall s, exists w, s = w ++ drop_ws s /\ Forall (fun c => cssws c = true) w /\
  head_not cssws (drop_ws s).
Proof.
  induction s as [|c s IH]; [exists []; repeat split; constructor|].
  cbn [drop_ws]. destruct (cssws c) eqn:E.
  - destruct IH as [w [E1 [F H]]]. exists (c :: w). cbn [app]. rewrite <- E1. repeat split; auto.
  - exists []. repeat split; [constructor | exact E].
Qed.

Lemma shape_good : forall j b, sep_shape j = Some b ->
  exists g, gap_ok g = true /\ render_gap g = j /\ has_semi g = b.
Proof.
  intros j b H. unfold sep_shape in H. destruct (ws_split j) as [w [E [Fw Hh]]].
  destruct (drop_ws j) as [|c t] eqn:Ed.
  - inversion H; subst b. exists (w, None). unfold gap_ok, render_gap, has_semi. cbn [fst snd].
    rewrite app_nil_r in *. repeat split; auto. rewrite andb_true_r. apply forallb_forall.
    rewrite Forall_forall in Fw. exact Fw.
  - destruct (N.eqb c 59) eqn:Ec; [|discriminate]. apply N.eqb_eq in Ec. subst c.
    destruct (ws_split t) as [w' [E' [Fw' _]]]. destruct (drop_ws t); [|discriminate].
    inversion H; subst b. rewrite app_nil_r in E'. subst t. exists (w, Some w').
    unfold gap_ok, render_gap, has_semi. cbn [fst snd]. repeat split; auto.
    apply andb_true_iff. split; apply forallb_forall.
    + rewrite Forall_forall in Fw. exact Fw.
    + rewrite Forall_forall in Fw'. exact Fw'.
Qed.

(* blanks then the end: impossible when a character that is not a blank is still to come *)
Lemma wsEol_fail : forall t s k, suf s = t -> (exists c, In c t /\ cssws c = false) ->
  m (Cat rWS (Eol false)) s k = Fail.
Proof.
  intros t s k Hs [c [Hin Hc]]. destruct (ws_split t) as [w [E [Fw Hh]]].
  destruct (drop_ws t) as [|c0 r] eqn:Ed.
  - exfalso. rewrite app_nil_r in E. rewrite E in Hin. rewrite Forall_forall in Fw. rewrite (Fw c Hin) in Hc. discriminate.
  - rewrite m_Cat. unfold rWS.
    eapply (m_Rep_fail false WS 0 w s (c0 :: r)); [rewrite Hs; exact E | exact Fw | exact Hh |].
    intros l1 l2 El. cbn [m]. unfold at_eol. cbn [St suf].
    destruct l2 as [|c1 l2]; cbn [app].
    + cbn in Hh. assert (N.eqb c0 nlc = false) as ->; [|reflexivity].
      destruct (N.eqb c0 nlc) eqn:E0; [|reflexivity]. apply N.eqb_eq in E0. subst c0. discriminate.
    + destruct (l2 ++ c0 :: r) eqn:E2; [destruct l2; discriminate|]. rewrite andb_false_r. reflexivity.
Qed.

Theorem shape_bad : forall j z k, sep_shape j = None -> suf z = j -> m rx_c07_css_sep z k = Fail.
Proof.
  intros j z k H Hs. unfold sep_shape in H. destruct (ws_split j) as [w [E [Fw Hh]]].
  destruct (drop_ws j) as [|c t] eqn:Ed; [discriminate|]. cbn in Hh.
  (* what follows an optional semicolon still has a character that is not a blank *)
  assert (Hrest : c = 59%N -> exists c2, In c2 t /\ cssws c2 = false).
  { intros ->. rewrite N.eqb_refl in H. destruct (ws_split t) as [w' [E' [_ Hh']]].
    destruct (drop_ws t) as [|c2 t2]; [discriminate|]. exists c2. split; [|exact Hh'].
    rewrite E'. apply in_or_app. right. left. reflexivity. }
  rewrite css_sep_shape, m_Cat. unfold rWS at 1.
  eapply (m_Rep_fail false WS 0 w z (c :: t)); [rewrite Hs; exact E | exact Fw | exact Hh |].
  intros l1 l2 El. rewrite m_Cat, m_Alt.
  assert (Hws : forall x, In x l2 -> cssws x = true).
  { intros x Hx. rewrite Forall_forall in Fw. apply Fw. rewrite El. apply in_or_app. right. exact Hx. }
  rewrite orelse_Fail.
  - rewrite m_Eps. apply (wsEol_fail (l2 ++ c :: t)); [reflexivity|].
    exists c. split; [apply in_or_app; right; left; reflexivity | exact Hh].
  - rewrite m_Grp. destruct l2 as [|c1 l2]; cbn [app].
    + destruct (N.eqb c 59) eqn:Ec.
      * apply N.eqb_eq in Ec. subst c.
        rewrite (m_Chr_ok false cSEMI _ 59%N t) by reflexivity.
        apply (wsEol_fail t); [reflexivity | apply Hrest; reflexivity].
      * apply m_Chr_fail. cbn [St suf head_not]. unfold cSEMI. rewrite chr_false.
        unfold in_ranges. cbn [existsb fst snd]. lia.
    + apply m_Chr_fail. cbn [St suf head_not]. specialize (Hws c1 (or_introl eq_refl)).
      destruct (cssws_cases c1 Hws) as [ -> | [ -> | [ -> | -> ]]]; reflexivity.
Qed.

Lemma sep_nomatch : forall (a b j : str), sep_shape j = None ->
  omatch_end rx_c07_css_sep (a ++ j ++ b) (length a) (length a + length j) = None.
Proof.
  intros a b j H. unfold omatch_end, rmatch.
  assert (E : firstn (length a + length j) (a ++ j ++ b) = a ++ j).
  { rewrite app_assoc. rewrite <- app_length. apply firstn_exact. }
  rewrite E.
  assert ((length (a ++ j) <? length a) = false) as -> by (apply Nat.ltb_ge; rewrite app_length; lia).
  unfold st_at. rewrite firstn_exact, skipn_exact. unfold run_at.
  rewrite (shape_bad j _ _ H) by reflexivity. reflexivity.
Qed.

(* ---- the loop, with its errors -------------------------------------------------------------------------- *)
Definition gap_err (off : nat) (j : str) : option css_error :=
  match j with
  | [] => None
  | _ =>
      match sep_shape j with
      | None => Some (off, CssBadContent)
      | Some semi => if (0 <? off) && negb semi then Some (off, CssMissingSemicolon) else None
      end
  end.

Definition add_opt (errors : option (list css_error)) (o : option css_error) : option (list css_error) :=
  match o with Some e => add_error errors e | None => errors end.

Fixpoint errs_after (off : nat) (items : list jitem) (tr : str) (errors : option (list css_error))
  : option (list css_error) :=
  match items with
  | [] => add_opt errors (gap_err off tr)
  | it :: rest =>
      let a := off + length (j_gap it) in
      let e := a + length (render_decl (j_decl it)) in
      errs_after e rest tr (add_opt errors (gap_err off (j_gap it)))
  end.

Definition fold_jitems (items : list jitem) (r : option cmap) : option cmap :=
  fold_left (fun r it => step_map r (j_decl it)) items r.

(* what the code does with the text between offsets off and off + |j| *)
Lemma gap_check : forall (a b j : str) errors,
  let off := length a in
  (if off <? off + length j
   then match omatch_end rx_c07_css_sep (a ++ j ++ b) off (off + length j) with
        | Some split =>
            if (0 <? off) && is_none (group g_c07_css_sep_semi split)
            then add_error errors (off, CssMissingSemicolon) else errors
        | None => add_error errors (off, CssBadContent)
        end
   else errors) = add_opt errors (gap_err off j).
Proof.
  intros a b j errors off. destruct j as [|c j'].
  - cbn [length gap_err add_opt]. assert ((off <? off + 0) = false) as -> by (apply Nat.ltb_ge; lia). reflexivity.
  - set (j := c :: j'). assert ((off <? off + length j) = true) as -> by (apply Nat.ltb_lt; cbn; lia).
    unfold gap_err. fold j. destruct (sep_shape j) as [semi|] eqn:Es.
    + destruct (shape_good j semi Es) as [g [Hg [Hr Hsemi]]].
      pose proof (sep_match a b g Hg) as Hm. rewrite Hr in Hm. unfold off. rewrite Hm.
      unfold group. cbn [m_caps]. destruct css_groups as (_ & _ & G). rewrite G.
      unfold gap_caps, has_semi in *. destruct (snd g); subst semi.
      * rewrite get_cap_hd. cbn [is_none negb]. rewrite !andb_false_r. reflexivity.
      * cbn [get_cap is_none negb]. rewrite !andb_true_r.
        destruct (0 <? length a); reflexivity.
    + unfold off. rewrite (sep_nomatch a b j Es). reflexivity.
Qed.

Theorem loop_jitems : forall items tr (pre_text : str) refMap errors,
  let off := length pre_text in
  let val := pre_text ++ render_jitems items tr in
  forallb jitem_ok items = true -> (items = [] -> 0 < off) ->
  css_loop val (exp_msj off items tr) refMap errors off =
  Ok (fold_jitems items refMap, errs_after off items tr errors).
Proof.
  induction items as [|it items IH]; intros tr pre_text refMap errors off val Hok H0.
  - specialize (H0 eq_refl). cbn [exp_msj css_loop m_start m_end].
    assert (Nat.eqb off 0 = false) as -> by (apply Nat.eqb_neq; lia). cbn [andb].
    unfold val, render_jitems. cbn [map concat app].
    assert (Hg : group_str (pre_text ++ tr) (mkres (off + length tr) (off + length tr) [])
                   g_c07_css_spec_prop = None) by reflexivity.
    rewrite Hg. cbn [bind]. cbn [css_loop fold_jitems fold_left errs_after].
    pose proof (gap_check pre_text [] tr errors) as Hc. cbv zeta in Hc. rewrite app_nil_r in Hc. fold off in Hc.
    rewrite Hc. reflexivity.
  - cbn [forallb] in Hok. apply andb_true_iff in Hok. destruct Hok as [Hit Hok].
    unfold jitem_ok in Hit. apply andb_true_iff in Hit. destruct Hit as [Hg Hd].
    set (g := j_gap it) in *. set (d := j_decl it) in *.
    cbn [exp_msj errs_after]. fold g d.
    set (a := off + length g). set (e := a + length (render_decl d)).
    pose proof (decl_nonempty d Hd) as Hne.
    cbn [css_loop m_start m_end].
    assert (Nat.eqb a e = false) as -> by (apply Nat.eqb_neq; unfold e; lia). rewrite andb_false_r.
    set (rest := render_jitems items tr).
    assert (Hval : val = pre_text ++ g ++ (render_decl d ++ rest)).
    { unfold val, render_jitems, rest, render_jitem. cbn [map concat]. fold g d.
      unfold str in *. rewrite <- !app_assoc. reflexivity. }
    pose proof (gap_check pre_text (render_decl d ++ rest) g errors) as Hc.
    cbv zeta in Hc. fold off in Hc. change (off + length g) with a in Hc. rewrite <- Hval in Hc. rewrite Hc.
    assert (Hval2 : val = (pre_text ++ g) ++ render_decl d ++ rest).
    { rewrite Hval. unfold str in *. rewrite <- !app_assoc. reflexivity. }
    assert (Ha : a = length (pre_text ++ g)) by (unfold a, off; rewrite app_length; reflexivity).
    destruct (decl_groups (pre_text ++ g) rest d Hd) as (Gp & Gu & Hpne).
    rewrite <- Hval2, <- Ha in Gp, Gu. fold e in Gp, Gu.
    rewrite Gp, Gu. destruct (d_prop d) as [|c p'] eqn:Ep; [contradiction|]. rewrite <- Ep.
    cbn [bind].
    assert (He : e = length ((pre_text ++ g) ++ render_decl d)).
    { unfold e, a, off. rewrite !app_length. lia. }
    assert (Hval3 : val = ((pre_text ++ g) ++ render_decl d) ++ render_jitems items tr).
    { rewrite Hval2. fold rest. unfold str in *. rewrite <- !app_assoc. reflexivity. }
    rewrite Hval3, He.
    rewrite (IH tr ((pre_text ++ g) ++ render_decl d) _ _ Hok).
    + cbn [fold_jitems fold_left]. fold d. unfold step_map. rewrite Ep. reflexivity.
    + intros _. rewrite <- He. unfold e. lia.
Qed.

(* ---- which texts have errors ------------------------------------------------------------------------------ *)
(* after: there is a declaration before this gap *)
Definition gap_bad (after : bool) (j : str) : bool :=
  match j with
  | [] => false
  | _ => match sep_shape j with None => true | Some semi => after && negb semi end
  end.

Fixpoint any_bad (after : bool) (items : list jitem) (tr : str) : bool :=
  match items with
  | [] => gap_bad after tr
  | it :: rest => gap_bad after (j_gap it) || any_bad true rest tr
  end.

Lemma gap_err_bad off j : match gap_err off j with Some _ => true | None => false end = gap_bad (0 <? off) j.
Proof.
  unfold gap_err, gap_bad. destruct j; [reflexivity|]. destruct (sep_shape _) as [semi|]; [|reflexivity].
  destruct ((0 <? off) && negb semi); reflexivity.
Qed.

Lemma add_opt_nonempty errors o :
  nonempty (add_opt errors o) = nonempty errors || match o with Some _ => true | None => false end.
Proof.
  destruct o as [e|]; cbn [add_opt]; [|rewrite orb_false_r; reflexivity].
  destruct errors as [[|x l]|]; cbn; reflexivity.
Qed.

Lemma errs_after_nonempty : forall items off tr errors,
  forallb jitem_ok items = true ->
  nonempty (errs_after off items tr errors) = nonempty errors || any_bad (0 <? off) items tr.
Proof.
  induction items as [|it items IH]; intros off tr errors Hok; cbn [errs_after any_bad].
  - rewrite add_opt_nonempty, gap_err_bad. reflexivity.
  - cbn [forallb] in Hok. apply andb_true_iff in Hok. destruct Hok as [Hit Hok].
    unfold jitem_ok in Hit. apply andb_true_iff in Hit. destruct Hit as [_ Hd].
    pose proof (decl_nonempty _ Hd) as Hne.
    rewrite (IH _ tr _ Hok), add_opt_nonempty, gap_err_bad.
    assert ((0 <? off + length (j_gap it) + length (render_decl (j_decl it))) = true) as ->
      by (apply Nat.ltb_lt; lia).
    rewrite orb_assoc. reflexivity.
Qed.

Lemma fold_jitems_none : forall items, items <> [] ->
  fold_jitems items None = Some (decl_map (map j_decl items)).
Proof.
  assert (G : forall items m, fold_jitems items (Some m) =
              Some (fold_left (fun m d => cset (d_prop d) (d_unit d) m) (map j_decl items) m)).
  { induction items as [|it items IH]; intros m; [reflexivity|].
    unfold fold_jitems in *. cbn [fold_left map]. unfold step_map at 2. apply IH. }
  intros [|it items] H; [contradiction|]. unfold fold_jitems. cbn [fold_left]. unfold step_map at 2.
  fold (fold_jitems items (Some (cset (d_prop (j_decl it)) (d_unit (j_decl it)) []))).
  rewrite G. reflexivity.
Qed.

(* the map of the declarations, and exactly the errors of the gaps *)
Theorem css_parse_junk : forall items tr,
  items <> [] -> forallb jitem_ok items = true -> forallb inert tr = true ->
  parse_css_spec (render_jitems items tr) =
    Ok (Some (decl_map (map j_decl items)), errs_after 0 items tr None) /\
  nonempty (errs_after 0 items tr None) = any_bad false items tr /\
  (any_bad false items tr = false -> errs_after 0 items tr None = None).
Proof.
  intros items tr Hne Hok Htr. split; [|split].
  - unfold parse_css_spec, finditer, rfinditer.
    set (val := render_jitems items tr).
    assert (Hz : st_at val 0 = mkst [] val 0 []) by reflexivity. rewrite Hz.
    rewrite (finditer_jitems items tr (mkst [] val 0 []) (2 * length val + 2))
      by (first [reflexivity | exact Hok | exact Htr | cbn [suf]; lia]).
    cbn [bind pos].
    pose proof (loop_jitems items tr [] None None Hok) as HL. cbn [length app] in HL.
    subst val. rewrite HL by (intros E; contradiction).
    rewrite (fold_jitems_none items Hne). reflexivity.
  - rewrite (errs_after_nonempty items 0 tr None Hok). reflexivity.
  - intros Hb. pose proof (errs_after_nonempty items 0 tr None Hok) as Hn.
    cbn [nonempty orb] in Hn. change (0 <? 0) with false in Hn. rewrite Hb in Hn.
    (* the error list is never an empty Some *)
    assert (G : forall its off errs, (errs = None \/ nonempty errs = true) ->
              errs_after off its tr errs = None \/ nonempty (errs_after off its tr errs) = true).
    { assert (A : forall errs o, (errs = None \/ nonempty errs = true) ->
                add_opt errs o = None \/ nonempty (add_opt errs o) = true).
      { intros errs [e|] H; cbn [add_opt]; [right|exact H].
        destruct errs as [[|x l]|]; cbn; reflexivity. }
      induction its as [|it its IH]; intros off errs H; cbn [errs_after]; [apply A; exact H|].
      apply IH. apply A. exact H. }
    destruct (G items 0 None (or_introl eq_refl)) as [E|E]; [exact E | congruence].
Qed.
