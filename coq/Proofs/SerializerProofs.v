(* Lemmas on Model/Serializer.v (serializer.py) over the merge lemmas of
   Proofs/ChannelsProofs.v.  Part 1: what can be in the output at all. *)
From Coq Require Import ZArith NArith List Bool Arith Lia Permutation.
From CL Require Import Base.Sx Base.Res Base.Str Model.AddRemove
                       Proofs.AddRemoveProofs Proofs.AddRemoveSpec Model.Channels
                       Proofs.ChannelsProofs Proofs.ChannelsSpec Model.Serializer.
Import ListNotations.
Local Open Scope nat_scope.

(* ---- OrderedDict(pairs) in general ---------------------------------------------------- *)
Section ODG.
Context {K V : Type} (eqb : K -> K -> bool).
Hypothesis eqb_eq : forall a b, eqb a b = true <-> a = b.

Lemma od_set_keys k (v : V) m :
  map fst (od_set eqb k v m) = if AddRemove.mem eqb k (map fst m) then map fst m else map fst m ++ [k].
Proof.
  induction m as [|[k' v'] m IH]; cbn; [reflexivity|].
  destruct (eqb k k') eqn:E; cbn; [reflexivity|]. rewrite IH.
  destruct (AddRemove.mem eqb k (map fst m)); reflexivity.
Qed.

Lemma od_set_nodup k (v : V) m : NoDup (map fst m) -> NoDup (map fst (od_set eqb k v m)).
Proof.
  intros H. rewrite od_set_keys. destruct (AddRemove.mem eqb k (map fst m)) eqn:E; [exact H|].
  apply NoDup_app_disjoint; [exact H|constructor; [intros []|constructor]|].
  intros y Hy [Hk|[]]. subst y. apply (mem_In eqb eqb_eq) in Hy. congruence.
Qed.

Lemma od_set_In k (v : V) m p : In p (od_set eqb k v m) -> p = (k, v) \/ In p m.
Proof.
  induction m as [|[k' v'] m IH]; cbn.
  - intros [H|[]]. left. symmetry. exact H.
  - destruct (eqb k k') eqn:E; cbn.
    + apply eqb_eq in E. subst k'. intros [H|H]; [left; symmetry; exact H|right; right; exact H].
    + intros [H|H]; [right; left; exact H|]. apply IH in H. destruct H; [left|right; right]; assumption.
Qed.

Lemma od_of_pairs_gen (ps : list (K * V)) : forall acc, NoDup (map fst acc) ->
  NoDup (map fst (fold_left (fun m p => od_set eqb (fst p) (snd p) m) ps acc)) /\
  (forall p, In p (fold_left (fun m p => od_set eqb (fst p) (snd p) m) ps acc) -> In p acc \/ In p ps).
Proof.
  induction ps as [|[k v] ps IH]; intros acc Ha; cbn; [split; [exact Ha|auto]|].
  destruct (IH (od_set eqb k v acc) (od_set_nodup k v acc Ha)) as [I1 I2].
  split; [exact I1|]. intros p Hp. apply I2 in Hp. destruct Hp as [Hp|Hp]; [|right; right; exact Hp].
  apply od_set_In in Hp. destruct Hp as [Hp|Hp]; [right; left; symmetry; exact Hp|left; exact Hp].
Qed.

Lemma od_of_pairs_nodup_keys (ps : list (K * V)) : NoDup (map fst (od_of_pairs eqb ps)).
Proof. apply (od_of_pairs_gen ps []). constructor. Qed.

Lemma od_of_pairs_incl (ps : list (K * V)) p : In p (od_of_pairs eqb ps) -> In p ps.
Proof.
  intros H. destruct (od_of_pairs_gen ps [] (NoDup_nil _)) as [_ I2].
  apply I2 in H. destruct H as [[]|H]. exact H.
Qed.
End ODG.

Lemma parse_resource_wf_gen es : wf (parse_resource es).
Proof.
  split; [apply (od_of_pairs_nodup_keys dkey_eqb dkey_eqb_eq)|].
  apply Forall_forall. intros p Hp. apply od_of_pairs_incl in Hp; [|apply dkey_eqb_eq].
  pose proof (key_values_key_ok es []) as H. rewrite Forall_forall in H. apply H. exact Hp.
Qed.

Lemma parse_resource_values_incl es e : In e (dvalues (parse_resource es)) -> In e es.
Proof.
  unfold dvalues. intros H. apply in_map_iff in H. destruct H as [p [<- Hp]].
  apply od_of_pairs_incl in Hp; [|apply dkey_eqb_eq].
  rewrite <- (key_values_values es []). apply in_map. exact Hp.
Qed.

(* ---- the pairs of a merge come from the two dicts ------------------------------------------- *)
Lemma prune_pairs_incl cs : forall acc, Forall key_ok (somes cs) ->
  forall p, In p (fold_left prune_step cs acc) -> In p acc \/ In p (somes cs).
Proof.
  induction cs as [|[k [e|]] cs IH]; intros acc Hcs p Hp.
  - left. exact Hp.
  - rewrite somes_cons_some in *. inversion Hcs as [|? ? Hke Hcs']; subst.
    cbn [fold_left] in Hp. apply (IH _ Hcs') in Hp. destruct Hp as [Hp|Hp]; [|right; right; exact Hp].
    unfold prune_step in Hp. cbn [snd fst] in Hp.
    destruct acc as [|[pk pe] acc'].
    + destruct Hp as [Hp|[]]. right. left. exact Hp.
    + destruct (is_white e && is_white pe) eqn:Ew.
      * apply andb_true_iff in Ew. destruct Ew as [He _].
        destruct (length (c_text pe) <? length (c_text e)).
        -- destruct Hp as [Hp|Hp]; [|left; right; exact Hp].
           right. left. rewrite <- Hp. rewrite (key_ok_white k e Hke He). reflexivity.
        -- left. exact Hp.
      * destruct Hp as [Hp|Hp]; [right; left; exact Hp|left; exact Hp].
  - rewrite somes_cons_none in *. cbn [fold_left] in Hp. unfold prune_step at 2 in Hp. cbn [snd] in Hp.
    apply (IH _ Hcs) in Hp. exact Hp.
Qed.

Lemma merge_two_pairs N O keep p : wf N -> wf O ->
  In p (merge_two N O keep) -> In p N \/ In p O.
Proof.
  intros HN HO Hp. rewrite (merge_two_eq N O keep HN HO) in Hp. apply in_rev in Hp.
  apply prune_pairs_incl in Hp; [|apply merge_contents_key_ok; [apply HN|apply HO]].
  destruct Hp as [[]|Hp]. destruct p as [k e]. apply somes_In in Hp.
  unfold merge_contents in Hp. apply in_map_iff in Hp. destruct Hp as [lk [Heq _]].
  injection Heq as Hk He. subst k. apply get_entity_In in He. exact He.
Qed.

Lemma merge_two_values N O keep e : wf N -> wf O ->
  In e (dvalues (merge_two N O keep)) -> In e (dvalues N) \/ In e (dvalues O).
Proof.
  unfold dvalues. intros HN HO H. apply in_map_iff in H. destruct H as [p [<- Hp]].
  apply merge_two_pairs in Hp; [|assumption|assumption].
  destruct Hp as [Hp|Hp]; [left|right]; apply in_map; exact Hp.
Qed.

(* ---- prune_placeholders ------------------------------------------------------------------------- *)
Definition nonwhite (e : centry) : bool := negb (is_white e).

Lemma prune_ws_nonwhite es : forall acc,
  filter nonwhite (rev (fold_left prune_ws_step es acc)) =
  filter nonwhite (rev acc) ++ filter nonwhite es.
Proof.
  induction es as [|e es IH]; intros acc; cbn [fold_left].
  - cbn. rewrite app_nil_r. reflexivity.
  - rewrite IH. change (e :: es) with ([e] ++ es). rewrite (filter_app nonwhite [e]).
    rewrite app_assoc. f_equal. unfold prune_ws_step.
    destruct acc as [|pe acc']; [reflexivity|].
    destruct (is_white e && is_white pe) eqn:Ew.
    + apply andb_true_iff in Ew. destruct Ew as [He Hpe].
      assert (Hk : filter nonwhite [e] = []) by (cbn; unfold nonwhite; rewrite He; reflexivity).
      rewrite Hk, app_nil_r.
      destruct (length (c_text pe) <? length (c_text e)); [|reflexivity].
      cbn [rev]. rewrite !filter_app. cbn. unfold nonwhite at 2 4. rewrite He, Hpe. reflexivity.
    + cbn [rev]. rewrite filter_app. reflexivity.
Qed.

Lemma prune_ws_incl es : forall acc e,
  In e (fold_left prune_ws_step es acc) -> In e acc \/ In e es.
Proof.
  induction es as [|a es IH]; intros acc e H; [left; exact H|].
  cbn [fold_left] in H. apply IH in H. destruct H as [H|H]; [|right; right; exact H].
  unfold prune_ws_step in H. destruct acc as [|pe acc'].
  - destruct H as [H|[]]. right; left; exact H.
  - destruct (is_white a && is_white pe).
    + destruct (length (c_text pe) <? length (c_text a)).
      * destruct H as [H|H]; [right; left; exact H|left; right; exact H].
      * left; exact H.
    + destruct H as [H|H]; [right; left; exact H|left; exact H].
Qed.

Lemma prune_placeholders_incl es e :
  In e (prune_placeholders es) -> In e es /\ is_placeholder e = false.
Proof.
  unfold prune_placeholders. intros H. apply in_rev in H. apply prune_ws_incl in H.
  destruct H as [[]|H]. apply filter_In in H. destruct H as [H1 H2].
  split; [exact H1|]. destruct (is_placeholder e); [discriminate|reflexivity].
Qed.

Definition is_cent (e : centry) : bool := match c_kind e with CEntity => true | _ => false end.

Lemma is_cent_nonwhite e : is_cent e = true -> nonwhite e = true.
Proof. unfold is_cent, nonwhite, is_white. destruct (c_kind e); try discriminate; reflexivity. Qed.

Lemma prune_placeholders_cent es :
  filter is_cent (prune_placeholders es) = filter is_cent es.
Proof.
  unfold prune_placeholders.
  rewrite <- (filter_filter_imp is_cent nonwhite) by apply is_cent_nonwhite.
  rewrite prune_ws_nonwhite. cbn [rev filter app].
  rewrite (filter_filter_imp is_cent nonwhite) by apply is_cent_nonwhite.
  apply filter_filter_imp. intros x Hx. unfold is_cent, is_placeholder in *.
  destruct (c_kind x); try discriminate; reflexivity.
Qed.

(* ---- ref_mapping and the new entities ----------------------------------------------------------- *)
Lemma ref_mapping_get reference k r : od_get str_eqb k (ref_mapping reference) = Some r ->
  In r reference /\ is_entity r = true /\ c_key r = k.
Proof.
  intros H. apply (od_get_In str_eqb str_eqb_eq) in H. unfold ref_mapping in H.
  apply od_of_pairs_incl in H; [|apply str_eqb_eq]. apply in_map_iff in H.
  destruct H as [e [Heq He]]. injection Heq as Hk Hr. subst. apply filter_In in He.
  destruct He as [H1 H2]. auto.
Qed.

Section Ser.
Variable wrap : centry -> str -> result centry.

Lemma new_entities_In rm nd : forall es e, new_entities wrap rm nd = Ok es -> In e es ->
  exists k raw r, In (k, Some raw) nd /\ od_get str_eqb k rm = Some r /\ wrap r raw = Ok e.
Proof.
  induction nd as [|[k [raw|]] nd IH]; intros es e H Hin; cbn in H.
  - inversion H; subst. contradiction.
  - destruct (od_get str_eqb k rm) as [r|] eqn:Er.
    + destruct (wrap r raw) as [e1|] eqn:Ew; cbn in H; [|discriminate].
      destruct (new_entities wrap rm nd) as [es1|] eqn:En; cbn in H; [|discriminate].
      inversion H; subst. destruct Hin as [Hin|Hin].
      * subst e1. exists k, raw, r. split; [left; reflexivity|auto].
      * destruct (IH es1 e eq_refl Hin) as (k' & raw' & r' & H1 & H2 & H3).
        exists k', raw', r'. split; [right; exact H1|auto].
    + destruct (IH es e H Hin) as (k' & raw' & r' & H1 & H2 & H3).
      exists k', raw', r'. split; [right; exact H1|auto].
  - destruct (IH es e H Hin) as (k' & raw' & r' & H1 & H2 & H3).
    exists k', raw', r'. split; [right; exact H1|auto].
Qed.

(* everything in the output comes from one of three places *)
Theorem serialize_sources reference old nd out :
  serialize_entries wrap reference old nd = Ok out ->
  forall e, In e out ->
    is_placeholder e = false /\
    ((In e reference /\ is_junk e = false /\ is_entity e = false) \/
     (In e old /\ is_junk e = false /\
      (is_entity e = true ->
       In (c_key e) (map fst (ref_mapping reference)) /\
       od_get str_eqb (c_key e) nd <> Some None)) \/
     (exists r raw, In r reference /\ is_entity r = true /\
                    In (c_key r, Some raw) nd /\ wrap r raw = Ok e)).
Proof.
  unfold serialize_entries. intros H e He.
  destruct (new_entities wrap (ref_mapping reference) nd) as [nl|] eqn:En; cbn in H; [|discriminate].
  inversion H; subst; clear H.
  apply prune_placeholders_incl in He. destruct He as [He Hp]. split; [exact Hp|].
  apply merge_two_values in He; try apply merge_two_wf; try apply parse_resource_wf_gen.
  destruct He as [He|He].
  - apply merge_two_values in He; try apply parse_resource_wf_gen. destruct He as [He|He].
    + left. apply parse_resource_values_incl in He. unfold placeholders in He.
      apply in_map_iff in He. destruct He as [r [Hr Hin]]. apply filter_In in Hin.
      destruct Hin as [Hin Hj]. unfold placeholder in Hr. destruct (is_entity r) eqn:Er.
      * subst e. discriminate.
      * subst e. split; [exact Hin|]. split; [|exact Er]. destruct (is_junk r); [discriminate|reflexivity].
    + right. left. apply parse_resource_values_incl in He. unfold sanitize_old in He.
      apply in_map_iff in He. destruct He as [o [Ho Hin]]. apply filter_In in Hin.
      destruct Hin as [Hin Hj].
      destruct (should_placeholder (map fst (ref_mapping reference)) nd o) eqn:Es.
      * unfold should_placeholder in Es. unfold placeholder in Ho.
        destruct (is_entity o); [subst e; discriminate|discriminate].
      * subst e. split; [exact Hin|]. split; [destruct (is_junk o); [discriminate|reflexivity]|].
        intros Ent. unfold should_placeholder in Es. rewrite Ent in Es. cbn in Es.
        destruct (mem_str (c_key o) (map fst (ref_mapping reference))) eqn:Em; [|discriminate].
        cbn in Es. split.
        -- clear -Em. induction (map fst (ref_mapping reference)) as [|x l IH]; [discriminate|].
           cbn in Em. apply orb_true_iff in Em. destruct Em as [Em|Em].
           ++ left. apply str_eqb_eq in Em. symmetry; exact Em.
           ++ right. apply IH. exact Em.
        -- intros Hn. rewrite Hn in Es. discriminate.
  - right. right. apply parse_resource_values_incl in He.
    destruct (new_entities_In _ _ _ _ En He) as (k & raw & r & H1 & H2 & H3).
    apply ref_mapping_get in H2. destruct H2 as (R1 & R2 & R3). subst k.
    exists r, raw. auto.
Qed.

End Ser.
