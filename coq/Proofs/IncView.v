(* .inc: the entries merge.py / serializer.py see for the text of a legal, junk-free block list
   ([ncentries_of], Proofs/IncShape.v) are the view (kind, key / comment value / instruction
   text, Entity.all, raw value) of what the parser yields for that text (C02 blocks_inc). *)
From Coq Require Import ZArith NArith List Bool Arith Lia.
From CL Require Import Base.Sx Base.Res Base.Str Model.Entry Model.Parse Model.ParseFormats
                       Proofs.C02Roundtrip Proofs.C02BlocksRx Proofs.C02BlocksIniRx Proofs.C02BlocksIncRx
                       Proofs.C02BlocksInc Model.Channels Proofs.ChannelsProofs Proofs.IncShape.
From CL Require Proofs.C02Blocks Proofs.PropsShape Proofs.PropsView Proofs.MergeReparse15.
Import ListNotations.
Local Open Scope nat_scope.

Local Arguments ctext : simpl never.
Local Arguments s_define : simpl never.
Local Arguments Nat.sub : simpl never.
Local Notation cflush := PropsShape.cflush.

(* what the harness hands to the models for a parsed entry of the .inc text s *)
Definition nview (s : str) (e : entry) : centry :=
  mkc (PropsView.ckind_of (e_kind e))
      (match e_kind e with
       | KComment => comment_val (COffset 2) (all_text s e)
       | KWhitespace => []
       | _ => C02Blocks.opt_text s (e_key e)
       end)
      (all_text s e)
      (match e_kind e with KEntity => C02Blocks.opt_text s (e_val e) | _ => [] end) 0.

Lemma nview_flush fe (a : str) n rest : good_run fe (length a) n ->
  map (nview (a ++ nls n ++ rest)) (nflush fe (length a) n) = cflush (nls n).
Proof.
  intros Hg. destruct n as [|n']; [reflexivity|].
  assert (Hb : bad_run fe (length a) (S n') = false).
  { destruct Hg as [Hg|[Ho Hw]]; [discriminate|]. unfold bad_run.
    replace (Nat.eqb (length a) 0) with false by (symmetry; apply Nat.eqb_neq; lia).
    destruct Hw as [Hw| ->]; [inversion Hw; reflexivity|rewrite orb_true_r; reflexivity]. }
  unfold nflush. rewrite Hb. cbn [map]. rewrite nls_S. cbn [PropsShape.cflush].
  unfold nview, mk_white, all_text, Entry.span_start. cbn [e_kind e_pre e_span fst snd PropsView.ckind_of].
  rewrite <- nls_S. rewrite <- (nls_length (S n')) at 2. rewrite (slice_mid a (nls (S n')) rest).
  reflexivity.
Qed.

Lemma ncents_view : forall bs, Forall legal_nblock bs -> forall fe first (a : str) n,
  (first = false -> 1 <= length a) -> good_run fe (length a) n -> nblanks_ok fe first bs = true ->
  map (nview (a ++ nls n ++ nfile_text bs)) (nents fe (length a) n bs) = ncents n bs.
Proof.
  induction bs as [|b rest IH]; intros Hleg fe first a n Hf Hg Hok.
  - cbn [nents ncents]. apply nview_flush. exact Hg.
  - inversion Hleg as [|b' rest' Hb Hrest]; subst b' rest'. specialize (IH Hrest).
    rewrite nfile_text_cons. destruct b as [x|cs|w0 b0 r nl|cs b1 key v nl]; cbn [nblanks_ok] in Hok.
    + apply andb_true_iff in Hok. destruct Hok as [Hok Hrest']. apply andb_true_iff in Hok.
      destruct Hok as [Hfe Hfirst]. subst fe. apply negb_true_iff in Hfirst.
      cbn [nents ncents ntext].
      replace (a ++ nls n ++ nls x ++ nfile_text rest) with (a ++ nls (n + x) ++ nfile_text rest)
        by (rewrite nls_app, <- !app_assoc; reflexivity).
      apply (IH true false); auto. destruct Hg as [->|[Ho _]].
      * destruct x; [left; reflexivity|]. right. split; [apply Hf; exact Hfirst|right; reflexivity].
      * right. split; [exact Ho|right; reflexivity].
    + unfold legal_nblock in Hb. cbn [legal_nblockb] in Hb. apply andb_true_iff in Hb.
      destruct Hb as [Hc1 _].
      assert (Hne : cs <> []) by (destruct cs; [discriminate|discriminate]).
      pose proof (cbody_length_pos cs Hne) as Hpos.
      cbn [nents ncents ntext]. rewrite map_app. f_equal; [apply nview_flush; exact Hg|].
      set (A0 := a ++ nls n ++ cbody cs).
      assert (Hs : a ++ nls n ++ ctext cs ++ nfile_text rest = A0 ++ nls 1 ++ nfile_text rest).
      { unfold A0. rewrite (ctext_body cs Hne). rewrite <- !app_assoc. reflexivity. }
      assert (El : length a + n + length (cbody cs) = length A0)
        by (unfold A0; rewrite !app_length, nls_length; lia).
      cbn [map]. f_equal.
      * unfold nview, mk_comment, all_text, Entry.span_start, ncom_centry.
        cbn [e_kind e_pre e_span fst snd PropsView.ckind_of].
        assert (Sl : slice (a ++ nls n ++ ctext cs ++ nfile_text rest) (length a + n)
                       (length a + n + length (cbody cs)) = cbody cs).
        { rewrite (ctext_body cs Hne).
          replace (a ++ nls n ++ (cbody cs ++ [10%N]) ++ nfile_text rest)
            with ((a ++ nls n) ++ cbody cs ++ [10%N] ++ nfile_text rest)
            by (rewrite <- !app_assoc; reflexivity).
          replace (length a + n) with (length (a ++ nls n)) by (rewrite app_length, nls_length; reflexivity).
          apply slice_mid. }
        rewrite Sl. reflexivity.
      * rewrite Hs, El. apply (IH fe false); auto.
        -- intros _. rewrite <- El. lia.
        -- right. split; [rewrite <- El; lia|left; reflexivity].
    + set (N0 := a ++ nls n ++ [35%N]).
      set (A0 := N0 ++ w0 ++ b0 ++ r).
      set (s := a ++ nls n ++ ntext (NInstr w0 b0 r nl) ++ nfile_text rest).
      assert (Hs : s = A0 ++ nls (length (eol nl)) ++ nfile_text rest).
      { unfold s, A0, N0. cbn [ntext]. rewrite <- eol_nls. rewrite <- !app_assoc. cbn [app].
        rewrite <- !app_assoc. reflexivity. }
      assert (En : length a + n + 1 = length N0)
        by (unfold N0; rewrite !app_length, nls_length; simpl; lia).
      assert (Ee : length a + n + 1 + length w0 + length b0 + length r = length A0).
      { unfold A0. rewrite !app_length. lia. }
      cbn [nents ncents]. rewrite map_app. f_equal; [apply nview_flush; exact Hg|].
      cbn [map]. rewrite Ee, En. f_equal.
      * unfold nview, all_text, Entry.span_start, ninstr_centry.
        cbn [e_kind e_key e_val e_pre e_span PropsView.ckind_of C02Blocks.opt_text fst snd].
        assert (S1 : slice s (length N0) (length A0) = w0 ++ b0 ++ r).
        { replace (length A0) with (length N0 + length (w0 ++ b0 ++ r))
            by (unfold A0; rewrite !app_length; lia).
          rewrite Hs. unfold A0. rewrite <- app_assoc. apply slice_mid. }
        assert (S2 : slice s (length a + n) (length A0) = ninstr_text w0 b0 r).
        { replace (length A0) with (length (a ++ nls n) + length (ninstr_text w0 b0 r))
            by (rewrite <- Ee; unfold ninstr_text; rewrite app_length, nls_length; simpl; rewrite !app_length; lia).
          replace (length a + n) with (length (a ++ nls n)) by (rewrite app_length, nls_length; reflexivity).
          replace s with ((a ++ nls n) ++ ninstr_text w0 b0 r ++ eol nl ++ nfile_text rest)
            by (unfold s, ninstr_text; cbn [ntext]; rewrite <- !app_assoc; cbn [app]; rewrite <- !app_assoc; reflexivity).
          apply slice_mid. }
        unfold C02Blocks.span_text. cbn [fst snd]. rewrite S1, S2. reflexivity.
      * rewrite Hs. apply (IH _ false); auto.
        -- intros _. rewrite <- Ee. lia.
        -- destruct nl; [right; split; [rewrite <- Ee; lia|left; reflexivity]|left; reflexivity].
    + set (K0 := a ++ nls n ++ ctext cs).
      set (S0 := K0 ++ s_define ++ b1).
      set (E0 := S0 ++ key).
      set (A0 := E0 ++ vtext v).
      set (s := a ++ nls n ++ ntext (NEntity cs b1 key v nl) ++ nfile_text rest).
      assert (Hs : s = A0 ++ nls (length (eol nl)) ++ nfile_text rest).
      { unfold s, A0, E0, S0, K0. cbn [ntext]. rewrite <- eol_nls. rewrite <- !app_assoc. reflexivity. }
      assert (Ek : length a + n + length (ctext cs) = length K0)
        by (unfold K0; rewrite !app_length, nls_length; lia).
      assert (Es0 : length K0 + 7 + length b1 = length S0).
      { unfold S0. rewrite !app_length. unfold s_define. simpl. lia. }
      assert (Ee0 : length S0 + length key = length E0) by (unfold E0; rewrite app_length; lia).
      assert (Ea0 : length E0 + length (vtext v) = length A0) by (unfold A0; rewrite app_length; lia).
      cbn [nents ncents]. rewrite map_app. f_equal; [apply nview_flush; exact Hg|].
      cbn [map]. rewrite Ek, Es0, Ee0, Ea0. f_equal.
      * unfold nview, all_text, nent_centry.
        cbn [e_kind e_key e_val e_pre e_span PropsView.ckind_of C02Blocks.opt_text fst snd].
        assert (S1 : slice s (length S0) (length E0) = key).
        { rewrite <- Ee0, Hs. unfold A0, E0. rewrite <- !app_assoc. apply slice_mid. }
        assert (S3 : slice s (length a + n) (length A0) = nent_text cs b1 key v).
        { replace (length A0) with (length (a ++ nls n) + length (nent_text cs b1 key v)).
          2:{ rewrite <- Ea0, <- Ee0, <- Es0, <- Ek. unfold nent_text. rewrite !app_length, nls_length.
              unfold s_define. simpl. lia. }
          replace (length a + n) with (length (a ++ nls n)) by (rewrite app_length, nls_length; reflexivity).
          replace s with ((a ++ nls n) ++ nent_text cs b1 key v ++ eol nl ++ nfile_text rest)
            by (unfold s, nent_text; cbn [ntext]; rewrite <- !app_assoc; reflexivity).
          apply slice_mid. }
        unfold C02Blocks.span_text. cbn [fst snd]. rewrite S1. f_equal.
        -- unfold Entry.span_start. cbn [e_pre e_span fst snd].
           destruct cs as [|c cs'].
           ++ cbn [fst].
              assert (length K0 = length a + n) as -> by (rewrite <- Ek; unfold ctext; cbn; lia).
              exact S3.
           ++ cbn [fst]. exact S3.
        -- destruct v as [[c val]|]; [|reflexivity]. cbn [C02Blocks.opt_text nval].
           unfold C02Blocks.span_text. cbn [fst snd].
           replace s with ((E0 ++ [c]) ++ val ++ nls (length (eol nl)) ++ nfile_text rest)
             by (rewrite Hs; unfold A0; cbn [vtext]; rewrite <- !app_assoc; reflexivity).
           replace (length E0 + 1) with (length (E0 ++ [c])) by (rewrite app_length; reflexivity).
           apply slice_mid.
      * rewrite Hs. apply (IH fe false); auto.
        -- intros _. rewrite <- Ea0, <- Ee0, <- Es0. lia.
        -- destruct nl; [right; split; [rewrite <- Ea0, <- Ee0, <- Es0; lia|left; reflexivity]|left; reflexivity].
Qed.

(* the entries of the parse of a legal junk-free file, as the models see them *)
Theorem ncentries_view : forall bs, Forall legal_nblock bs -> nadjacent_ok bs ->
  nblanks_ok false true bs = true ->
  exists es, walk_defines (nfile_text bs) = Ok es /\
             map (nview (nfile_text bs)) es = ncentries_of bs.
Proof.
  intros bs Hl Ha Hb. exists (nentries_of bs). split; [apply blocks_inc; assumption|].
  apply (ncents_view bs Hl false true [] 0); [discriminate|left; reflexivity|exact Hb].
Qed.
