(* C02, PO: the values of the messages of a block file.  createEntity's string lists are the
   printed items; with C02_unescape_po the key (msgid, msgctxt) and val of every message are
   the concatenated token meanings. *)
From Coq Require Import NArith List Bool Arith Lia.
From CL Require Import Base.Sx Base.Res Base.Str Regex.Rx Regex.RxLemmas Model.Entry Model.Parse
  Model.ParseFormats Generated.RxParser Model.Unescape Proofs.UnescapeProofs
  Proofs.ClassLoop Proofs.ClassLoop2 Proofs.C02Props Proofs.WalkProofs Proofs.C02Roundtrip
  Proofs.C02BlocksRx Proofs.C02BlocksIniRx Proofs.C02BlocksIncRx Proofs.C02Po Proofs.ParseContracts
  Proofs.C02BlocksPoRx Proofs.C02BlocksPo.
Import ListNotations.

Local Arguments Nat.ltb : simpl never.
Local Arguments Nat.leb : simpl never.
Local Arguments Nat.eqb : simpl never.
Local Arguments N.eqb : simpl never.
Local Arguments chr_ok : simpl never.

Ltac norm_app := repeat (progress (rewrite <- ?app_assoc; cbn [app])).

Definition ctxt_spans (off : nat) (ctxt : option (list pitem * str)) : option (list span) :=
  match ctxt with Some (ci, _) => Some (frag_spans (off + 7) ci) | None => None end.

Lemma create_po_full_ok : forall (a : str) ctxt idl w2 strl T k cc wsp,
  m_start k = length a ->
  match ctxt with Some (ci, w1) => legal_items ci && all_ws w1 | None => true end = true ->
  legal_items idl = true -> all_ws w2 = true -> legal_items strl = true -> item_stops T ->
  let p := length a + length (ctxt_text ctxt) in
  let id_end := p + 5 + length (items_text idl) in
  let c3 := id_end + length w2 in
  let c4 := c3 + 6 + length (items_text strl) in
  create_po_full rx_po_ws rx_po_listitem (a ++ msg_text ctxt idl w2 strl ++ T) k cc wsp =
  Some (mkentry KEntity (length a, c4) (Some (length a, id_end)) (Some (c3, c4)) cc wsp,
        mkpo (ctxt_spans (length a) ctxt) (frag_spans (p + 5) idl) (frag_spans (c3 + 6) strl)).
Proof.
  intros a ctxt idl w2 strl T k cc wsp Hk Hctx Hid Hw2 Hstr HT p id_end c3 c4.
  destruct (legal_items_split _ Hid) as [Hid1 Hid2]. destruct (legal_items_split _ Hstr) as [Hs1 Hs2].
  unfold create_po_full. rewrite Hk.
  set (s := a ++ msg_text ctxt idl w2 strl ++ T).
  set (R2 := s_msgid ++ items_text idl ++ w2 ++ s_msgstr ++ items_text strl ++ T).
  assert (Hc : match parse_string_list rx_po_listitem s (length a) s_msgctxt with
               | Some (fr, c1) => (Some fr, skip_ws rx_po_ws s c1)
               | None => (None, length a)
               end = (ctxt_spans (length a) ctxt, p) /\ s = (a ++ ctxt_text ctxt) ++ R2).
  { destruct ctxt as [[ci w1]|].
    - apply andb_true_iff in Hctx. destruct Hctx as [Hci Hw1].
      destruct (legal_items_split _ Hci) as [Hc1 Hc2].
      assert (Es : s = a ++ s_msgctxt ++ items_text ci ++ (w1 ++ R2)).
      { unfold s, msg_text, R2. cbn [ctxt_text]. norm_app. reflexivity. }
      rewrite Es, parse_string_list_ok; auto.
      2:{ exists w1, R2. split; [reflexivity|]. split; [exact Hw1|apply head_msgid]. }
      assert (Es2 : a ++ s_msgctxt ++ items_text ci ++ w1 ++ R2 =
                    (a ++ s_msgctxt ++ items_text ci) ++ w1 ++ R2) by (norm_app; reflexivity).
      split.
      + rewrite Es2. replace (length a + length s_msgctxt + length (items_text ci))
          with (length (a ++ s_msgctxt ++ items_text ci)) by (rewrite !app_length; lia).
        rewrite skip_ws_run; [| exact Hw1 | reflexivity].
        cbn [ctxt_spans]. f_equal. unfold p. cbn [ctxt_text]. rewrite !app_length. simpl. lia.
      + cbn [ctxt_text]. norm_app. reflexivity.
    - split.
      + unfold parse_string_list.
        assert (Hsw : startswith_at s_msgctxt s (length a) = false).
        { unfold startswith_at, s, msg_text. cbn [ctxt_text app]. rewrite skipn_app_length.
          rewrite <- !app_assoc.
          replace (starts_with s_msgctxt (s_msgid ++ items_text idl ++ w2 ++ s_msgstr ++ items_text strl ++ T))
            with false by reflexivity.
          apply andb_false_r. }
        rewrite Hsw. unfold p. simpl. rewrite Nat.add_0_r. reflexivity.
      + unfold s, msg_text, R2. cbn [ctxt_text]. norm_app. reflexivity. }
  destruct Hc as [Hc Es]. rewrite Hc.
  set (P := a ++ ctxt_text ctxt) in *.
  assert (EP : p = length P) by (unfold p, P; rewrite app_length; reflexivity).
  rewrite EP.
  assert (Es3 : s = P ++ s_msgid ++ items_text idl ++ (w2 ++ s_msgstr ++ items_text strl ++ T))
    by (rewrite Es; unfold R2; reflexivity).
  set (Q := P ++ s_msgid ++ items_text idl).
  assert (EQ : length P + length s_msgid + length (items_text idl) = length Q)
    by (unfold Q; rewrite !app_length; lia).
  assert (Pid : parse_string_list rx_po_listitem s (length P) s_msgid =
                Some (frag_spans (length P + length s_msgid) idl, length Q)).
  { rewrite Es3, parse_string_list_ok; auto; [rewrite EQ; reflexivity|].
    exists w2, (s_msgstr ++ items_text strl ++ T). split; [reflexivity|]. split; [exact Hw2|apply head_msgstr]. }
  rewrite Pid.
  assert (Es4 : s = Q ++ w2 ++ (s_msgstr ++ items_text strl ++ T)).
  { rewrite Es3. unfold Q. norm_app. reflexivity. }
  set (Q2 := Q ++ w2).
  assert (EQ2 : length Q + length w2 = length Q2) by (unfold Q2; rewrite app_length; reflexivity).
  assert (Hsk : skip_ws rx_po_ws s (length Q) = length Q2).
  { rewrite Es4, skip_ws_run; [exact EQ2| exact Hw2 | reflexivity]. }
  rewrite Hsk.
  assert (Es5 : s = Q2 ++ s_msgstr ++ items_text strl ++ T).
  { rewrite Es4. unfold Q2. norm_app. reflexivity. }
  assert (Pstr : parse_string_list rx_po_listitem s (length Q2) s_msgstr =
                 Some (frag_spans (length Q2 + length s_msgstr) strl,
                       length Q2 + length s_msgstr + length (items_text strl))).
  { rewrite Es5, parse_string_list_ok; auto. }
  rewrite Pstr.
  unfold c4, c3, id_end. rewrite EP, <- EQ2, <- EQ. simpl length. reflexivity.
Qed.

(* the text of the fragments: the printed items *)
Lemma frag_texts_items : forall its (a T : str),
  frag_texts (a ++ items_text its ++ T) (frag_spans (length a) its) = map (fun it => render_item (snd it)) its.
Proof.
  induction its as [|[lead toks] its IH]; intros a T; [reflexivity|].
  cbn [frag_spans frag_texts map snd]. f_equal.
  - unfold span_text. cbn [fst snd].
    match goal with |- slice ?X _ _ = _ =>
      replace X with ((a ++ lead ++ [34%N]) ++ render_item toks ++ (34%N :: items_text its ++ T))
        by (rewrite items_text_cons; unfold item_text; norm_app; reflexivity) end.
    replace (length a + length lead + 1) with (length (a ++ lead ++ [34%N]))
      by (rewrite !app_length; simpl; lia).
    apply slice_mid.
  - match goal with |- map (span_text ?X) _ = _ =>
      replace X with ((a ++ item_text lead toks) ++ items_text its ++ T)
        by (rewrite items_text_cons; norm_app; reflexivity) end.
    rewrite <- app_length. apply IH.
Qed.

(* the meaning of a string list: the concatenated meanings of its items *)
Definition items_meaning (its : list pitem) : str := concat (map (fun it => meaning_item (snd it)) its).

Lemma eval_items : forall its, forallb legal_pitem its = true ->
  eval_stringlist (map (fun it => render_item (snd it)) its) = Ok (items_meaning its).
Proof.
  intros its H.
  replace (map (fun it => render_item (snd it)) its) with (map render_item (map snd its))
    by (rewrite map_map; reflexivity).
  rewrite unescape_po.
  - unfold items_meaning. rewrite map_map. reflexivity.
  - rewrite forallb_forall in *. intros x Hx. apply in_map_iff in Hx. destruct Hx as [[l t] [E Hin]].
    subst x. specialize (H _ Hin). unfold legal_pitem in H. apply andb_true_iff in H. apply H.
Qed.

(* PoEntity.key and val of the message at [length a] *)
Theorem po_value_ok : forall (a : str) ctxt idl w2 strl T,
  match ctxt with Some (ci, w1) => legal_items ci && all_ws w1 | None => true end = true ->
  legal_items idl = true -> all_ws w2 = true -> legal_items strl = true -> item_stops T ->
  po_value_at (a ++ msg_text ctxt idl w2 strl ++ T) (length a) =
  Ok (mkpov (items_meaning idl)
            (match ctxt with Some (ci, _) => Some (items_meaning ci) | None => None end)
            (items_meaning strl)).
Proof.
  intros a ctxt idl w2 strl T Hctx Hid Hw2 Hstr HT.
  destruct (legal_items_split _ Hid) as [_ Hid2]. destruct (legal_items_split _ Hstr) as [_ Hs2].
  unfold po_value_at, po_strings_at.
  rewrite create_po_full_ok by auto. cbn [po_id po_str po_ctxt].
  set (s := a ++ msg_text ctxt idl w2 strl ++ T).
  set (P := a ++ ctxt_text ctxt ++ s_msgid).
  assert (E1 : frag_texts s (frag_spans (length a + length (ctxt_text ctxt) + 5) idl) =
               map (fun it => render_item (snd it)) idl).
  { replace s with (P ++ items_text idl ++ (w2 ++ s_msgstr ++ items_text strl ++ T))
      by (unfold s, P, msg_text; norm_app; reflexivity).
    replace (length a + length (ctxt_text ctxt) + 5) with (length P)
      by (unfold P; rewrite !app_length; simpl; lia).
    apply frag_texts_items. }
  set (Q := P ++ items_text idl ++ w2 ++ s_msgstr).
  assert (E2 : frag_texts s (frag_spans (length a + length (ctxt_text ctxt) + 5 + length (items_text idl) +
                                         length w2 + 6) strl) = map (fun it => render_item (snd it)) strl).
  { replace s with (Q ++ items_text strl ++ T)
      by (unfold s, Q, P, msg_text; norm_app; reflexivity).
    replace (length a + length (ctxt_text ctxt) + 5 + length (items_text idl) + length w2 + 6) with (length Q)
      by (unfold Q, P; rewrite !app_length; simpl; lia).
    apply frag_texts_items. }
  rewrite E1, E2, !eval_items by auto.
  destruct ctxt as [[ci w1]|]; cbn [ctxt_spans]; [|reflexivity].
  apply andb_true_iff in Hctx. destruct Hctx as [Hci _]. destruct (legal_items_split _ Hci) as [_ Hc2].
  assert (E3 : frag_texts s (frag_spans (length a + 7) ci) = map (fun it => render_item (snd it)) ci).
  { replace s with ((a ++ s_msgctxt) ++ items_text ci ++ (w1 ++ s_msgid ++ items_text idl ++ w2 ++ s_msgstr ++ items_text strl ++ T))
      by (unfold s, msg_text; cbn [ctxt_text]; norm_app; reflexivity).
    replace (length a + 7) with (length (a ++ s_msgctxt)) by (rewrite app_length; reflexivity).
    apply frag_texts_items. }
  rewrite E3, eval_items by auto. reflexivity.
Qed.

(* ---- the messages of a file ------------------------------------------------------------------------------- *)
Definition precord := (po_value * option str)%type.     (* (msgid, msgctxt, msgstr), attached comment *)

Fixpoint precords_of (bs : list pblock) : list precord :=
  match bs with
  | [] => []
  | PEntity cs _ ctxt idl _ strl :: rest =>
      (mkpov (items_meaning idl)
             (match ctxt with Some (ci, _) => Some (items_meaning ci) | None => None end)
             (items_meaning strl),
       match cs with [] => None | _ => Some (ctext cs) end) :: precords_of rest
  | _ :: rest => precords_of rest
  end.

Fixpoint pcomments_of (bs : list pblock) : list str :=
  match bs with
  | [] => []
  | PComment cs :: rest => ctext cs :: pcomments_of rest
  | _ :: rest => pcomments_of rest
  end.

Definition span_text' (s : str) (sp : span) : str := slice s (fst sp) (snd sp).
Definition is_kind (k : kind) (e : entry) : bool :=
  match e_kind e, k with
  | KEntity, KEntity | KComment, KComment | KWhitespace, KWhitespace | KJunk, KJunk
  | KSection, KSection | KInstruction, KInstruction => true
  | _, _ => false
  end.

(* for every entity: its evaluated string lists (PoEntity.key = (msgid, msgctxt), val from
   msgstr / msgid) and its attached comment; the comment entries; no junk *)
Definition pviews (s : str) (es : list entry) (bs : list pblock) : Prop :=
  map (fun e => (po_value_at s (fst (e_span e)), option_map (span_text' s) (e_pre e)))
      (filter (is_kind KEntity) es) =
    map (fun r => (Ok (fst r), snd r)) (precords_of bs) /\
  map (fun e => span_text' s (e_span e)) (filter (is_kind KComment) es) = pcomments_of bs /\
  filter (is_kind KJunk) es = [].

Lemma flush_no : forall k off w, k <> KWhitespace -> filter (is_kind k) (flush off w) = [].
Proof. intros k off [|w] H; [reflexivity|]. destruct k; try reflexivity. contradiction. Qed.

Lemma pents_views : forall bs, Forall legal_pblock bs -> forall (a w : str),
  pviews (a ++ w ++ pfile_text bs) (pents (length a) (length w) bs) bs.
Proof.
  induction bs as [|b rest IH]; intros Hleg a w; unfold pviews.
  - simpl pents. rewrite !flush_no by discriminate. repeat split.
  - inversion Hleg as [|b' rest' Hb Hrest]; subst b' rest'. specialize (IH Hrest).
    set (s := a ++ w ++ pfile_text (b :: rest)).
    destruct b as [x|cs|cs iw ctxt idl w2 strl].
    + assert (Hs : s = a ++ (w ++ x) ++ pfile_text rest).
      { unfold s. rewrite pfile_text_cons. cbn [ptext]. rewrite <- app_assoc. reflexivity. }
      simpl pents. rewrite <- app_length, Hs. apply IH.
    + set (A0 := a ++ w ++ ctext cs).
      assert (Hs : s = A0 ++ [] ++ pfile_text rest).
      { unfold s, A0. rewrite pfile_text_cons. cbn [ptext]. norm_app. reflexivity. }
      assert (El : length a + length w + length (ctext cs) = length A0)
        by (unfold A0; rewrite !app_length; lia).
      destruct (IH A0 []) as [I1 [I2 I3]]. rewrite <- Hs in I1, I2.
      change (length (@nil N)) with 0 in I1, I2, I3.
      simpl pents. rewrite !filter_app, !flush_no by discriminate. rewrite El.
      cbn [app filter is_kind mk_comment e_kind map e_span]. rewrite I1, I2, I3.
      split; [reflexivity|split; [|reflexivity]]. cbn [pcomments_of]. f_equal.
      assert (Hs' : s = (a ++ w) ++ ctext cs ++ pfile_text rest)
        by (rewrite Hs; unfold A0; norm_app; reflexivity).
      unfold span_text'. cbn [fst snd]. rewrite <- El, <- app_length, Hs'. apply slice_mid.
    + assert (Hb' := Hb). unfold legal_pblock in Hb'. cbn [legal_pblockb] in Hb'.
      repeat (apply andb_true_iff in Hb'; let H := fresh "L" in destruct Hb' as [Hb' H]).
      set (K0 := a ++ w ++ ctext cs ++ iw).
      set (A0 := K0 ++ msg_text ctxt idl w2 strl).
      assert (Hs : s = A0 ++ [] ++ pfile_text rest).
      { unfold s, A0, K0. rewrite pfile_text_cons. cbn [ptext]. norm_app. reflexivity. }
      assert (Ek : length a + length w + length (ctext cs) + length iw = length K0)
        by (unfold K0; rewrite !app_length; lia).
      assert (Ee : length K0 + length (ctxt_text ctxt) + 5 + length (items_text idl) + length w2 + 6 +
                   length (items_text strl) = length A0).
      { unfold A0, msg_text. rewrite !app_length. simpl. lia. }
      destruct (IH A0 []) as [I1 [I2 I3]]. rewrite <- Hs in I1, I2.
      change (length (@nil N)) with 0 in I1, I2, I3.
      simpl pents. rewrite !filter_app, !flush_no by discriminate. rewrite Ek, Ee.
      cbn [app filter is_kind e_kind map e_span e_pre fst]. rewrite I1, I2, I3.
      split; [|split; reflexivity]. cbn [precords_of map fst snd]. f_equal. f_equal.
      * assert (Hs' : s = K0 ++ msg_text ctxt idl w2 strl ++ pfile_text rest)
          by (rewrite Hs; unfold A0; norm_app; reflexivity).
        rewrite Hs'. apply po_value_ok; auto. apply item_stops_rest. exact Hrest.
      * destruct cs as [|c1 cs1]; [reflexivity|]. cbn [option_map]. f_equal.
        unfold span_text'. cbn [fst snd].
        assert (Hs' : s = (a ++ w) ++ ctext (c1 :: cs1) ++ iw ++ msg_text ctxt idl w2 strl ++ pfile_text rest)
          by (rewrite Hs; unfold A0, K0; norm_app; reflexivity).
        rewrite Hs', <- app_length. apply slice_mid.
Qed.

(* every message is recovered with the values of its string lists (key = (msgid, msgctxt), the
   msgstr) and its attached comment, every standalone comment is a comment entry, in order, and
   there is no junk *)
Theorem roundtrip_po_multi : forall bs : list pblock,
  Forall legal_pblock bs -> padjacent_ok bs ->
  exists es, walk_po (pfile_text bs) = Ok es /\ pviews (pfile_text bs) es bs.
Proof.
  intros bs Hleg Hadj. exists (pentries_of bs). split; [apply blocks_po; auto|].
  exact (pents_views bs Hleg [] []).
Qed.

Example px_records :
  let bs := [px_c; px_b2; px_e1; px_b; px_e2; px_b2; px_e3] in
  Forall legal_pblock bs /\ padjacent_ok bs /\
  precords_of bs =
    [(mkpov (A [97]) None (A [98; 10; 99]), None);
     (mkpov (A [97; 34; 98]) (Some (A [120])) [], Some (A [35; 32; 99; 10; 35; 44; 32; 100; 10]));
     (mkpov (A [97]) None (A [98]), Some (A [35; 32; 99; 10]))] /\
  po_val (mkpov (A [97; 34; 98]) (Some (A [120])) []) = A [97; 34; 98].
Proof. split; [repeat constructor|]. split; [vm_compute; reflexivity|]. split; reflexivity. Qed.
