(* .inc (DefinesParser): entries of a legal block list (C02BlocksInc.v) as merge.py /
   serializer.py see them, and back: an entry list that starts with an entry that is no
   whitespace, in which every entity / instruction / standalone comment is directly followed
   by ONE whitespace entry (a run of newlines, at least two after a comment) and whose runs of
   more than one newline are inside "#filter emptyLines" regions ([cblanks]) is the text of a
   legal block list without junk — so the block theorem of C02 (blocks_inc) gives the
   re-parse. *)
From Coq Require Import ZArith NArith List Bool Arith Lia.
From CL Require Import Base.Sx Base.Res Base.Str Model.Entry Model.Parse Model.ParseFormats
                       Proofs.C02Roundtrip Proofs.C02BlocksRx Proofs.C02BlocksIniRx Proofs.C02BlocksIncRx
                       Proofs.C02BlocksInc
                       Model.Channels Proofs.ChannelsProofs Proofs.MergeShapeKeys Proofs.MergeShape
                       Proofs.SerializerProofs.
From CL Require Proofs.C02Blocks Proofs.PropsShape Proofs.MergeReparse15.
Import ListNotations.
Local Open Scope nat_scope.
Local Notation mem := C02Roundtrip.mem.
Local Arguments ctext : simpl never.
Local Arguments s_define : simpl never.

Local Notation ws_centry := PropsShape.ws_centry.
Local Notation cflush := PropsShape.cflush.
Local Notation strip_fields := PropsShape.strip_fields.

Definition nval (v : option (N * str)) : str := match v with Some (_, val) => val | None => [] end.
Definition nent_text (cs : list cline) (b1 key : str) (v : option (N * str)) : str :=
  ctext cs ++ s_define ++ b1 ++ key ++ vtext v.
Definition nent_centry cs b1 key v : centry := mkc CEntity key (nent_text cs b1 key v) (nval v) 0.
Definition ncom_centry (cs : list cline) : centry :=
  mkc CComment (comment_val (COffset 2) (cbody cs)) (cbody cs) [] 0.
Definition ninstr_text (w b r : str) : str := 35%N :: w ++ b ++ r.
Definition ninstr_centry (w b r : str) : centry := mkc COther (w ++ b ++ r) (ninstr_text w b r) [] 0.

(* [w]: the number of newlines pending (the newline that ended the previous line and the
   blank blocks since): they become ONE whitespace entry *)
Fixpoint ncents (w : nat) (bs : list nblock) : list centry :=
  match bs with
  | [] => cflush (nls w)
  | NBlank n :: rest => ncents (w + n) rest
  | NComment cs :: rest => cflush (nls w) ++ ncom_centry cs :: ncents 1 rest
  | NInstr w0 b r nl :: rest => cflush (nls w) ++ ninstr_centry w0 b r :: ncents (length (eol nl)) rest
  | NEntity cs b1 key v nl :: rest =>
      cflush (nls w) ++ nent_centry cs b1 key v :: ncents (length (eol nl)) rest
  end.
Definition ncentries_of (bs : list nblock) : list centry := ncents 0 bs.

Lemma ncents_text bs : Forall legal_nblock bs ->
  forall w, concat (map c_text (ncents w bs)) = nls w ++ nfile_text bs.
Proof.
  induction 1 as [|b rest Hb _ IH]; intros w; cbn [ncents].
  - rewrite PropsShape.cflush_text. cbn. rewrite app_nil_r. reflexivity.
  - rewrite nfile_text_cons. destruct b as [n|cs|w0 b0 r nl|cs b1 key v nl].
    + rewrite IH. cbn [ntext]. rewrite nls_app, <- app_assoc. reflexivity.
    + rewrite map_app, concat_app, PropsShape.cflush_text. cbn [map concat c_text ncom_centry]. rewrite IH.
      cbn [ntext]. unfold legal_nblock in Hb. cbn in Hb. destruct cs as [|c cs']; [discriminate|].
      rewrite (ctext_body (c :: cs')) by discriminate. rewrite <- !app_assoc. reflexivity.
    + rewrite map_app, concat_app, PropsShape.cflush_text. cbn [map concat c_text ninstr_centry]. rewrite IH.
      cbn [ntext]. unfold ninstr_text. rewrite <- eol_nls. cbn [app]. rewrite <- !app_assoc. reflexivity.
    + rewrite map_app, concat_app, PropsShape.cflush_text. cbn [map concat c_text nent_centry]. rewrite IH.
      cbn [ntext]. unfold nent_text. rewrite <- eol_nls. rewrite <- !app_assoc. reflexivity.
Qed.

Theorem ncentries_text bs : Forall legal_nblock bs ->
  concat (map c_text (ncentries_of bs)) = nfile_text bs.
Proof. intros H. apply (ncents_text bs H 0). Qed.

(* the texts of the instructions *)
Definition is_other (e : centry) : bool := match c_kind e with COther => true | _ => false end.
Definition cinstrs (l : list centry) : list str := map c_key (filter is_other l).

Definition nbrecs (bs : list nblock) : list (str * str) :=
  map (fun r => (fst (fst r), match snd (fst r) with Some v => v | None => [] end)) (nrecords_of bs).

(* runs of more than one newline only while the filter is on *)
Fixpoint cblanks (fe : bool) (out : list centry) : bool :=
  match out with
  | [] => true
  | e :: rest =>
      match c_kind e with
      | CWhite => (Nat.eqb (length (c_text e)) 1 || fe) && cblanks fe rest
      | COther => cblanks (new_filter fe (c_key e)) rest
      | _ => cblanks fe rest
      end
  end.

Definition hdnw (l : list centry) : Prop :=
  match l with [] => True | e :: _ => is_white e = false end.

Inductive ndec : centry -> Prop :=
| ndec_ent e cs b1 key v :
    legal_nblockb (NEntity cs b1 key v true) = true ->
    strip e = strip (nent_centry cs b1 key v) -> ndec e
| ndec_com e cs :
    cs <> [] -> forallb legal_cline_n cs = true -> strip e = strip (ncom_centry cs) -> ndec e
| ndec_instr e w b r :
    legal_nblockb (NInstr w b r true) = true -> strip e = strip (ninstr_centry w b r) -> ndec e
| ndec_ws e k :
    strip e = strip (ws_centry (nls (S k))) -> ndec e.

Lemma ndec_strip e e' : strip e = strip e' -> ndec e -> ndec e'.
Proof.
  intros Hs H. destruct H as [e cs b1 key v H1 H2|e cs H1 H2 H3|e w b r H1 H2|e k H1].
  - eapply ndec_ent; eauto. congruence.
  - eapply ndec_com; eauto. congruence.
  - eapply ndec_instr; eauto. congruence.
  - eapply ndec_ws. rewrite <- Hs. exact H1.
Qed.

Lemma ndec_white e : ndec e -> is_white e = true -> exists k, strip e = strip (ws_centry (nls (S k))).
Proof.
  intros H Hw. destruct H as [e cs b1 key v _ Q|e cs _ _ Q|e w b r _ Q|e k Q].
  - apply strip_fields in Q. unfold is_white in Hw. destruct Q as [Q _]. cbn in Q. rewrite Q in Hw. discriminate.
  - apply strip_fields in Q. unfold is_white in Hw. destruct Q as [Q _]. cbn in Q. rewrite Q in Hw. discriminate.
  - apply strip_fields in Q. unfold is_white in Hw. destruct Q as [Q _]. cbn in Q. rewrite Q in Hw. discriminate.
  - exists k. exact Q.
Qed.

Definition opt_blank (k : nat) (bs : list nblock) : list nblock :=
  match k with 0 => bs | S _ => NBlank k :: bs end.

Lemma opt_blank_legal k bs : Forall legal_nblock bs -> Forall legal_nblock (opt_blank k bs).
Proof. intros Hb. destruct k; [exact Hb|]. constructor; [reflexivity|exact Hb]. Qed.
Lemma opt_blank_sep k bs : nsep bs = true -> nsep (opt_blank k bs) = true.
Proof. destruct k; auto. Qed.
Lemma opt_blank_text k bs : nfile_text (opt_blank k bs) = nls k ++ nfile_text bs.
Proof. destruct k; [reflexivity|]. cbn [opt_blank]. rewrite nfile_text_cons. reflexivity. Qed.
Lemma opt_blank_recs k bs : nrecords_of (opt_blank k bs) = nrecords_of bs.
Proof. destruct k; reflexivity. Qed.
Lemma opt_blank_coms k bs : ncomments_of (opt_blank k bs) = ncomments_of bs.
Proof. destruct k; reflexivity. Qed.
Lemma opt_blank_instrs k bs : ninstrs_of (opt_blank k bs) = ninstrs_of bs.
Proof. destruct k; reflexivity. Qed.
Lemma opt_blank_blanks fe k bs :
  nblanks_ok fe false (opt_blank k bs) = (Nat.eqb (S k) 1 || fe) && nblanks_ok fe false bs.
Proof. destruct k; [reflexivity|]. cbn [opt_blank nblanks_ok negb]. rewrite andb_true_r. reflexivity. Qed.

Lemma noadj_tail2 (x w : centry) l : noadj (x :: w :: l) -> is_white w = true -> noadj l /\ hdnw l.
Proof.
  cbn. intros [_ H] Hw. destruct l as [|y l']; [split; exact I|].
  destruct H as [[H|H] H']; [congruence|]. split; [exact H'|exact H].
Qed.

Section Dec.
Variable m : nat.
Hypothesis Hm : 2 <= m.

(* the reconstruction, one block (and one optional blank block) per pair entry, whitespace *)
Lemma nshape_blocks_n n : forall out, length out <= n ->
  nf m out -> noadj out -> hdnw out -> Forall ndec out ->
  exists bs, Forall legal_nblock bs /\ nsep bs = true /\
             nfile_text bs = concat (map c_text out) /\ nbrecs bs = PropsShape.krecs out /\
             ncomments_of bs = PropsShape.ccoms out /\ ninstrs_of bs = cinstrs out /\
             (forall fe, nblanks_ok fe false bs = cblanks fe out) /\
             (forall fe, nblanks_ok fe true bs = nblanks_ok fe false bs).
Proof.
  induction n as [|n IH]; intros out Hlen Hnf Hna Hhd Hdec.
  - destruct out; [|cbn in Hlen; lia]. exists []. repeat split; try constructor.
  - destruct out as [|x out']; [exists []; repeat split; constructor|].
    pose proof (Forall_inv Hdec) as Hx. pose proof (Forall_inv_tail Hdec) as Hdec'.
    cbn in Hhd. destruct Hnf as [Hn1 Hn2]. specialize (Hn1 Hhd).
    destruct out' as [|w out'']; [contradiction|]. destruct Hn1 as [Hww Hneed].
    destruct (ndec_white w (Forall_inv Hdec') Hww) as (k & Q).
    destruct (strip_fields _ _ Q) as (T1 & _ & T3 & _). cbn [c_kind c_text PropsShape.ws_centry] in T1, T3.
    pose proof (Forall_inv_tail Hdec') as Hdec''. destruct Hn2 as [_ Hn3].
    destruct (noadj_tail2 x w out'' Hna Hww) as [Hna3 Hhd3].
    destruct (IH out'' ltac:(cbn in Hlen; lia) Hn3 Hna3 Hhd3 Hdec'') as (bs & B1 & B2 & B3 & B4 & B5 & B6 & B7 & B8).
    assert (Ew : is_comment w = false) by (unfold is_comment; rewrite T1; reflexivity).
    assert (Ewo : is_other w = false) by (unfold is_other; rewrite T1; reflexivity).
    assert (Lw : length (c_text w) = S k) by (rewrite T3, nls_length; reflexivity).
    destruct Hx as [e cs b1 key v L1 L3|e cs C1 C2 C3|e w0 b0 r L1 L3|e k0 W0].
    + destruct (strip_fields _ _ L3) as (K1 & K2 & K3 & K4). cbn in K1, K2, K3, K4.
      exists (NEntity cs b1 key v true :: opt_blank k bs). repeat split.
      * constructor; [exact L1|]. apply opt_blank_legal. exact B1.
      * cbn [nsep orb andb]. apply opt_blank_sep. exact B2.
      * rewrite nfile_text_cons, opt_blank_text. cbn [map concat ntext eol]. rewrite K3, T3, B3.
        unfold nent_text. rewrite nls_S. rewrite <- !app_assoc. cbn [app]. reflexivity.
      * unfold nbrecs, PropsShape.krecs. cbn [nrecords_of map flat_map fst snd]. unfold PropsShape.krec at 1 2.
        rewrite K1, T1. cbn [app]. rewrite K2, K4. rewrite opt_blank_recs. f_equal.
        -- f_equal. destruct v as [[c val]|]; reflexivity.
        -- exact B4.
      * unfold PropsShape.ccoms. cbn [filter ncomments_of]. rewrite opt_blank_coms.
        assert (is_comment e = false) as -> by (unfold is_comment; rewrite K1; reflexivity).
        rewrite Ew. exact B5.
      * unfold cinstrs. cbn [filter ninstrs_of]. rewrite opt_blank_instrs.
        assert (is_other e = false) as -> by (unfold is_other; rewrite K1; reflexivity).
        rewrite Ewo. exact B6.
      * intros fe. cbn [nblanks_ok cblanks]. rewrite K1, T1, opt_blank_blanks, Lw, B7. reflexivity.
    + destruct (strip_fields _ _ C3) as (K1 & K2 & K3 & K4). cbn in K1, K2, K3, K4.
      assert (Hk : 1 <= k).
      { unfold cneed, is_comment, clen in Hneed. rewrite K1, Lw in Hneed. lia. }
      destruct k as [|k']; [lia|].
      exists (NComment cs :: NBlank (S k') :: bs). repeat split.
      * constructor; [unfold legal_nblock; cbn; rewrite C2; destruct cs; [contradiction|reflexivity]|].
        constructor; [reflexivity|exact B1].
      * cbn [nsep andb]. exact B2.
      * rewrite !nfile_text_cons. cbn [map concat ntext]. rewrite K3, T3, B3.
        rewrite (ctext_body cs C1). rewrite (nls_S (S k')). rewrite <- !app_assoc. reflexivity.
      * unfold nbrecs, PropsShape.krecs. cbn [nrecords_of map flat_map]. unfold PropsShape.krec at 1 2.
        rewrite K1, T1. cbn [app]. exact B4.
      * unfold PropsShape.ccoms. cbn [filter ncomments_of].
        assert (is_comment e = true) as -> by (unfold is_comment; rewrite K1; reflexivity).
        rewrite Ew. cbn [map]. rewrite K3. f_equal. exact B5.
      * unfold cinstrs. cbn [filter ninstrs_of].
        assert (is_other e = false) as -> by (unfold is_other; rewrite K1; reflexivity).
        rewrite Ewo. exact B6.
      * intros fe. cbn [nblanks_ok cblanks negb]. rewrite K1, T1, Lw, B7. cbn [Nat.eqb orb].
        rewrite andb_true_r. reflexivity.
    + destruct (strip_fields _ _ L3) as (K1 & K2 & K3 & K4). cbn in K1, K2, K3, K4.
      exists (NInstr w0 b0 r true :: opt_blank k bs). repeat split.
      * constructor; [exact L1|]. apply opt_blank_legal. exact B1.
      * cbn [nsep orb andb]. apply opt_blank_sep. exact B2.
      * rewrite nfile_text_cons, opt_blank_text. cbn [map concat ntext eol]. rewrite K3, T3, B3.
        unfold ninstr_text. rewrite nls_S. cbn [app]. rewrite <- !app_assoc. cbn [app]. reflexivity.
      * unfold nbrecs, PropsShape.krecs. cbn [nrecords_of map flat_map]. unfold PropsShape.krec at 1 2.
        rewrite K1, T1. cbn [app]. rewrite opt_blank_recs. exact B4.
      * unfold PropsShape.ccoms. cbn [filter ncomments_of]. rewrite opt_blank_coms.
        assert (is_comment e = false) as -> by (unfold is_comment; rewrite K1; reflexivity).
        rewrite Ew. exact B5.
      * unfold cinstrs. cbn [filter ninstrs_of]. rewrite opt_blank_instrs.
        assert (is_other e = true) as -> by (unfold is_other; rewrite K1; reflexivity).
        rewrite Ewo. cbn [map]. rewrite K2. f_equal. exact B6.
      * intros fe. cbn [nblanks_ok cblanks]. rewrite K1, T1, K2, opt_blank_blanks, Lw, B7. reflexivity.
    + exfalso. apply strip_fields in W0. destruct W0 as [W0 _]. cbn in W0.
      unfold is_white in Hhd. rewrite W0 in Hhd. discriminate.
Qed.

(* the re-parse of a well-shaped entry list: no junk; the entities, the standalone comments
   and the instructions are those of the list, in order *)
Theorem nshape_reparse out : nf m out -> noadj out -> hdnw out -> Forall ndec out ->
  cblanks false out = true ->
  exists es, walk_defines (concat (map c_text out)) = Ok es /\
    map (fun e => let r := entity_nrecord (concat (map c_text out)) e in
                  (fst (fst r), match snd (fst r) with Some v => v | None => [] end))
        (filter (is_kind KEntity) es) = PropsShape.krecs out /\
    map (fun e => span_text (concat (map c_text out)) (e_span e))
        (filter (is_kind KComment) es) = PropsShape.ccoms out /\
    map (fun e => opt_text (concat (map c_text out)) (e_val e))
        (filter (is_kind KInstruction) es) = cinstrs out /\
    filter (is_kind KJunk) es = [].
Proof.
  intros H1 H2 H3 H4 H5.
  destruct (nshape_blocks_n (length out) out (le_n _) H1 H2 H3 H4) as (bs & B1 & B2 & B3 & B4 & B5 & B6 & B7 & B8).
  assert (Hb : nblanks_ok false true bs = true) by (rewrite B8, B7; exact H5).
  destruct (roundtrip_inc_nojunk bs B1 B2 Hb) as (es & E1 & (E2 & E3 & E4 & _) & E5).
  rewrite B3 in E1, E2, E3, E4. exists es. split; [exact E1|]. split; [|split; [|split; [|exact E5]]].
  - rewrite <- B4. unfold nbrecs. rewrite <- E2, map_map. reflexivity.
  - rewrite <- B5. exact E3.
  - rewrite <- B6. exact E4.
Qed.
End Dec.
