(* What the re-parse theorems of C04 (properties, ini, DTD) share: a file as a
   list of blocks of which some are entities; the entity's text splits into
   what the entity span does not cover in front (attached comment, inner
   whitespace), the span itself, and what follows it inside the block (its
   final newline).  The skips are the selected entities with those spans; the
   model of merge, given any permutation of them, stages
       prefix ++ what is left of every block ++ "\n" ++ the appended texts.
   The formats then show (a) the parse of the file yields exactly these spans
   (their block theorem) and (b) the staged text is again a legal block list. *)
From Coq Require Import NArith List Bool Arith Lia Permutation Sorted.
From CL Require Import Base.Sx Base.Res Base.Str Model.Merge Generated.C04Facts
  Model.Entry Proofs.MergeProofs.
From CL Require Proofs.C02Blocks.
Import ListNotations.
Local Open Scope nat_scope.

Notation sskip := (@Merge.skip str).

(* ---- the entities of a parse, and the skips made of them ------------------- *)
Definition parse_entities (s : str) (es : list entry) : list (str * span) :=
  map (fun e => (C02Blocks.opt_text s (e_key e), e_span e))
      (filter (C02Blocks.is_kind KEntity) es).

(* what compare() puts into skips for a localized entity: the entity's span and key *)
Definition skip_of (p : str * span) : sskip :=
  mkskip (Some (fst (snd p)), Some (snd (snd p))) (fst p) false.

Definition parse_skips (sel : str -> bool) (s : str) (es : list entry) : list sskip :=
  map skip_of (filter (fun p => sel (fst p)) (parse_entities s es)).

(* ---- list lemmas -------------------------------------------------------------- *)
Lemma map_pair_eq : forall {X Y} (l1 l2 : list (X * Y)),
  map fst l1 = map fst l2 -> map snd l1 = map snd l2 -> l1 = l2.
Proof.
  induction l1 as [|[x y] l1 IH]; intros [|[x' y'] l2] H1 H2; try discriminate; [reflexivity|].
  simpl in H1, H2. inversion H1. inversion H2. subst. f_equal. now apply IH.
Qed.

Lemma StronglySorted_filter : forall {X} (R : X -> X -> Prop) f (l : list X),
  StronglySorted R l -> StronglySorted R (filter f l).
Proof.
  intros X R f l H. induction H as [|x l Hs IH Hx]; simpl; [constructor|].
  destruct (f x); [|exact IH]. constructor; [exact IH|].
  rewrite Forall_forall in *. intros y Hy. apply filter_In in Hy. now apply Hx.
Qed.

Lemma StronglySorted_map : forall {X Y} (R : X -> X -> Prop) (Q : Y -> Y -> Prop) (g : X -> Y) l,
  (forall a b, R a b -> Q (g a) (g b)) -> StronglySorted R l -> StronglySorted Q (map g l).
Proof.
  intros X Y R Q g l HRQ H. induction H as [|x l Hs IH Hx]; simpl; constructor; [exact IH|].
  rewrite Forall_forall in *. intros y Hy. apply in_map_iff in Hy. destruct Hy as [z [<- Hz]]. auto.
Qed.

Lemma map_result_app : forall {X Y} (f : X -> result Y) l1 l2 r,
  map_result f (l1 ++ l2) = Ok r ->
  exists r1 r2, map_result f l1 = Ok r1 /\ map_result f l2 = Ok r2 /\ r = r1 ++ r2.
Proof.
  intros X Y f. induction l1 as [|x l1 IH]; intros l2 r H.
  - exists [], r. auto.
  - cbn [app map_result] in H. destruct (f x) as [y|] eqn:E; [|discriminate]. cbn [bind] in H.
    destruct (map_result f (l1 ++ l2)) as [r'|] eqn:E'; [|discriminate]. cbn [bind] in H.
    inversion H; subst. destruct (IH l2 r' E') as (r1 & r2 & H1 & H2 & ->).
    exists (y :: r1), r2. cbn [map_result]. rewrite E, H1. auto.
Qed.

Lemma map_result_map : forall {X Y Z} (g : X -> Y) (f : Y -> result Z) l,
  map_result (fun x => f (g x)) l = map_result f (map g l).
Proof.
  intros X Y Z g f. induction l as [|x l IH]; [reflexivity|]. cbn [map map_result]. now rewrite IH.
Qed.

Lemma filter_map_comm : forall {X Y} (g : X -> Y) (p : Y -> bool) l,
  map g (filter (fun x => p (g x)) l) = filter p (map g l).
Proof.
  intros X Y g p. induction l as [|x l IH]; [reflexivity|]. cbn [filter map].
  destruct (p (g x)); cbn [map]; now rewrite IH.
Qed.

Lemma filter_none_all : forall {X Y} (g : X -> Y) (p : Y -> bool) l,
  filter p (map g l) = [] -> filter (fun x => negb (p (g x))) l = l.
Proof.
  intros X Y g p. induction l as [|x l IH]; intro H; [reflexivity|]. cbn [map filter] in *.
  destruct (p (g x)); [discriminate|]. cbn [negb]. now rewrite IH.
Qed.

Lemma remove_spans_nil : forall c : str, remove_spans c [] = c.
Proof. intro c. unfold remove_spans. cbn [copy_around]. unfold pyslice. now rewrite slice_full. Qed.

Lemma block_spans_app : forall l1 l2 off,
  block_spans off (l1 ++ l2) = block_spans off l1 ++ block_spans (off + length (concat (map snd l1))) l2.
Proof.
  induction l1 as [|[f t] l1 IH]; intros l2 off; simpl.
  - now rewrite Nat.add_0_r.
  - rewrite IH, <- app_assoc, app_length.
    now replace (off + length t + length (concat (map snd l1)))
      with (off + (length t + length (concat (map snd l1)))) by lia.
Qed.

(* ---- the sort puts any permutation of file-ordered skips into file order ------ *)
Definition start_lt (p q : str * span) : Prop := fst (snd p) < fst (snd q).

Definition skip_lt (x y : sskip) : Prop :=
  match sk_start x, sk_start y with Some a, Some b => a < b | _, _ => False end.

Lemma skip_lt_le : forall l : list sskip, StronglySorted skip_lt l -> StronglySorted start_le l.
Proof.
  intros l H. induction H as [|x l Hs IH Hx]; constructor; [exact IH|].
  eapply Forall_impl; [|exact Hx]. intros y Hy. unfold skip_lt in Hy. unfold start_le.
  destruct (sk_start x), (sk_start y); try contradiction. lia.
Qed.

Lemma skip_lt_inj : forall l : list sskip, StronglySorted skip_lt l ->
  forall x y, In x l -> In y l -> sk_start x = sk_start y -> x = y.
Proof.
  intros l H. induction H as [|z l Hs IH Hz]; intros x y Hx Hy E; [contradiction|].
  rewrite Forall_forall in Hz.
  destruct Hx as [Hx|Hx], Hy as [Hy|Hy]; auto.
  - congruence.
  - subst z. specialize (Hz y Hy). unfold skip_lt in Hz. rewrite E in Hz.
    destruct (sk_start y); [lia|contradiction].
  - subst z. specialize (Hz x Hx). unfold skip_lt in Hz. rewrite E in Hz.
    destruct (sk_start y); [lia|contradiction].
Qed.

Lemma sorted_perm_eq : forall l1 l2 : list sskip,
  StronglySorted start_le l1 -> StronglySorted start_le l2 -> Permutation l1 l2 ->
  (forall x y, In x l2 -> In y l2 -> sk_start x = sk_start y -> x = y) -> l1 = l2.
Proof.
  induction l1 as [|x l1 IH]; intros l2 H1 H2 P Hinj.
  - apply Permutation_nil in P. now subst.
  - destruct l2 as [|y l2]; [apply Permutation_sym, Permutation_nil in P; discriminate|].
    inversion H1 as [|? ? H1' Hx]; subst. inversion H2 as [|? ? H2' Hy]; subst.
    rewrite Forall_forall in Hx, Hy.
    assert (x = y) as ->.
    { assert (In x (y :: l2)) as Ix by (apply (Permutation_in _ P); now left).
      assert (In y (x :: l1)) as Iy by (apply (Permutation_in _ (Permutation_sym P)); now left).
      destruct Ix as [<-|Ix]; [reflexivity|]. destruct Iy as [<-|Iy]; [reflexivity|].
      apply Hinj; [now right|now left|].
      specialize (Hx y Iy). specialize (Hy x Ix). unfold start_le in Hx, Hy.
      destruct (sk_start x), (sk_start y); try contradiction. f_equal. lia. }
    f_equal. apply IH; auto.
    + now apply Permutation_cons_inv in P.
    + intros a b Ha Hb. apply Hinj; now right.
Qed.

Lemma sort_file_order : forall (skips : list sskip) (l : list (str * span)),
  StronglySorted start_lt l -> Permutation skips (map skip_of l) ->
  sort_skips skips = Ok (map skip_of l).
Proof.
  intros skips l Hl P.
  assert (StronglySorted skip_lt (map skip_of l)) as Hs
    by (apply (StronglySorted_map start_lt); [intros a b H; exact H|exact Hl]).
  assert (Forall has_start skips) as HF.
  { rewrite Forall_forall. intros s Hs'. apply (Permutation_in _ P) in Hs'.
    apply in_map_iff in Hs'. destruct Hs' as [p [<- _]]. now exists (fst (snd p)). }
  destruct (sort_skips_ok skips HF) as (sorted & E & P' & S' & _). rewrite E. f_equal.
  apply sorted_perm_eq; [exact S'|now apply skip_lt_le| |now apply skip_lt_inj].
  rewrite <- P'. exact P.
Qed.

(* ---- blocks with entities -------------------------------------------------------- *)
Section Blocks.
Context {B : Type} (text : B -> str).
(* [dec b = Some (front, key, core, back)]: b is an entity block, its text is
   front ++ core ++ back and the entity's span is exactly [core] *)
Context (dec : B -> option (str * str * str * str)).
Hypothesis dec_text : forall b p k c q, dec b = Some (p, k, c, q) -> text b = p ++ c ++ q.
Hypothesis dec_core : forall b p k c q, dec b = Some (p, k, c, q) -> c <> [].

Definition ftext (bs : list B) : str := concat (map text bs).

Definition g_entity (off : nat) (b : B) : list (str * span) :=
  match dec b with
  | Some (p, k, c, _) => [(k, (off + length p, off + length p + length c))]
  | None => []
  end.

Fixpoint g_entities (off : nat) (bs : list B) : list (str * span) :=
  match bs with
  | [] => []
  | b :: rest => g_entity off b ++ g_entities (off + length (text b)) rest
  end.

Definition keys_of (bs : list B) : list str :=
  flat_map (fun b => match dec b with Some (_, k, _, _) => [k] | None => [] end) bs.

Definition g_skips (sel : str -> bool) (off : nat) (bs : list B) : list sskip :=
  map skip_of (filter (fun p => sel (fst p)) (g_entities off bs)).

(* what the splice leaves of a block *)
Definition kept_text (sel : str -> bool) (b : B) : str :=
  match dec b with
  | Some (p, k, _, q) => if sel k then p ++ q else text b
  | None => text b
  end.
Definition kept_ftext (sel : str -> bool) (bs : list B) : str := concat (map (kept_text sel) bs).

Lemma ftext_cons : forall b bs, ftext (b :: bs) = text b ++ ftext bs.
Proof. reflexivity. Qed.

Lemma g_entities_keys : forall bs off, map fst (g_entities off bs) = keys_of bs.
Proof.
  induction bs as [|b rest IH]; intro off; [reflexivity|].
  cbn [g_entities keys_of flat_map]. rewrite map_app, IH. f_equal.
  unfold g_entity. destruct (dec b) as [[[[p k] c] q]|]; reflexivity.
Qed.

Lemma g_entities_lower : forall bs off p, In p (g_entities off bs) -> off <= fst (snd p).
Proof.
  induction bs as [|b rest IH]; intros off p H; [contradiction|].
  cbn [g_entities] in H. apply in_app_or in H. destruct H as [H|H].
  - unfold g_entity in H. destruct (dec b) as [[[[p0 k] c] q]|]; [|contradiction].
    destruct H as [<-|[]]. cbn. lia.
  - specialize (IH _ _ H). lia.
Qed.

Lemma g_entities_sorted : forall bs off, StronglySorted start_lt (g_entities off bs).
Proof.
  induction bs as [|b rest IH]; intro off; [constructor|].
  cbn [g_entities]. unfold g_entity. destruct (dec b) as [[[[p k] c] q]|] eqn:E; [|apply IH].
  cbn [app]. constructor; [apply IH|]. rewrite Forall_forall. intros x Hx.
  apply g_entities_lower in Hx. unfold start_lt. cbn [fst snd].
  rewrite (dec_text _ _ _ _ _ E), !app_length in Hx.
  pose proof (dec_core _ _ _ _ _ E). assert (1 <= length c) by (destruct c; [contradiction|simpl; lia]).
  lia.
Qed.

Lemma sort_g_skips : forall sel off bs skips,
  Permutation skips (g_skips sel off bs) -> sort_skips skips = Ok (g_skips sel off bs).
Proof.
  intros sel off bs skips P. apply sort_file_order; [|exact P].
  apply StronglySorted_filter, g_entities_sorted.
Qed.

Lemma g_skips_keys : forall sel off bs, map sk_key (g_skips sel off bs) = filter sel (keys_of bs).
Proof.
  intros sel off bs. unfold g_skips. rewrite map_map. cbn [skip_of sk_key].
  rewrite <- (g_entities_keys bs off). apply (filter_map_comm fst sel).
Qed.

Lemma g_skips_non_junk : forall sel off bs, non_junk (g_skips sel off bs) = g_skips sel off bs.
Proof.
  intros sel off bs. unfold non_junk, g_skips.
  induction (filter (fun p => sel (fst p)) (g_entities off bs)) as [|p l IH]; [reflexivity|].
  cbn [map filter skip_of sk_junk negb]. now rewrite IH.
Qed.

(* a block cut into the pieces the splice keeps or drops *)
Definition pieces_of (sel : str -> bool) (b : B) : list (bool * str) :=
  match dec b with
  | Some (p, k, c, q) => [(false, p); (sel k, c); (false, q)]
  | None => [(false, text b)]
  end.
Definition pieces (sel : str -> bool) (bs : list B) : list (bool * str) := flat_map (pieces_of sel) bs.

Lemma pieces_of_text : forall sel b, concat (map snd (pieces_of sel b)) = text b.
Proof.
  intros sel b. unfold pieces_of. destruct (dec b) as [[[[p k] c] q]|] eqn:E.
  - cbn. rewrite app_nil_r. symmetry. now apply (dec_text _ _ k).
  - cbn. now rewrite app_nil_r.
Qed.

Lemma pieces_text : forall sel bs, concat (map snd (pieces sel bs)) = ftext bs.
Proof.
  intros sel bs. induction bs as [|b rest IH]; [reflexivity|].
  unfold pieces in *. cbn [flat_map]. now rewrite map_app, concat_app, IH, pieces_of_text.
Qed.

Lemma pieces_kept : forall sel bs, concat (kept_blocks (pieces sel bs)) = kept_ftext sel bs.
Proof.
  intros sel bs. induction bs as [|b rest IH]; [reflexivity|].
  unfold pieces, kept_ftext, kept_blocks in *. cbn [flat_map map concat].
  rewrite filter_app, map_app, concat_app, IH. f_equal.
  unfold pieces_of, kept_text. destruct (dec b) as [[[[p k] c] q]|] eqn:E.
  - cbn [filter fst negb]. destruct (sel k); cbn [negb map snd concat]; rewrite ?app_nil_r.
    + reflexivity.
    + symmetry. now apply (dec_text _ _ k).
  - cbn. now rewrite app_nil_r.
Qed.

Lemma pieces_spans : forall sel bs off,
  block_spans off (pieces sel bs) = map snd (filter (fun p => sel (fst p)) (g_entities off bs)).
Proof.
  intros sel bs. induction bs as [|b rest IH]; intro off; [reflexivity|].
  unfold pieces in *. cbn [flat_map g_entities].
  rewrite block_spans_app, filter_app, map_app, IH, pieces_of_text. f_equal.
  unfold pieces_of, g_entity. destruct (dec b) as [[[[p k] c] q]|]; [|reflexivity].
  cbn [block_spans app filter fst]. destruct (sel k); reflexivity.
Qed.

(* removing the spans of the selected entities leaves the rest of every block *)
Lemma remove_selected : forall sel (P : str) bs,
  remove_spans (P ++ ftext bs) (map sk_span (g_skips sel (length P) bs)) = P ++ kept_ftext sel bs.
Proof.
  intros sel P bs. rewrite <- pieces_kept, <- (pieces_text sel bs).
  pose proof (copy_around_blocks (pieces sel bs) P 0 (Nat.le_0_l _)) as H. cbn [skipn] in H.
  unfold remove_spans. rewrite <- H. f_equal.
  unfold g_skips. rewrite map_map, pieces_spans, map_map. reflexivity.
Qed.

(* ---- merge on such a file ---------------------------------------------------------- *)
Theorem merge_on_blocks :
  forall caps (P : str) (bs : list B) (sel : str -> bool) (missing : list str)
         (refs : list (str * str)) (skips : list sskip) (alls : list str),
  has caps can_copy = false -> has caps can_skip = true -> has caps can_merge = true ->
  Permutation skips (g_skips sel (length P) bs) ->
  map_result (ref_all str_eqb refs) (missing ++ filter sel (keys_of bs)) = Ok alls ->
  exists a,
    merge str_eqb true caps (P ++ ftext bs) skips missing refs = Ok a /\
    ((nonempty skips || nonempty missing = true /\
      staged_text (P ++ ftext bs) a =
        Some (P ++ kept_ftext sel bs ++ [10%N] ++ concat (map ensure_newline alls)))
     \/
     (nonempty skips || nonempty missing = false /\ a = CopyL10n /\ alls = [] /\
      filter sel (keys_of bs) = [])).
Proof.
  intros caps P bs sel missing refs skips alls Hc Hs Hm Hperm Hlk.
  set (S := g_skips sel (length P) bs) in *.
  pose proof (sort_g_skips sel (length P) bs skips Hperm) as Hsort. fold S in Hsort.
  destruct (map_result_app _ _ _ _ Hlk) as (ms & ss & Hms & Hss & ->).
  assert (map_result (fun s => ref_all str_eqb refs (sk_key s)) (non_junk S) = Ok ss) as Hss'.
  { unfold S. rewrite g_skips_non_junk, (map_result_map sk_key), g_skips_keys. exact Hss. }
  destruct (nonempty skips || nonempty missing) eqn:Hne.
  - pose proof (merge_append str_eqb caps (P ++ ftext bs) skips missing refs S ms ss
                  Hc Hs Hm Hne Hsort Hms Hss') as Hmerge. cbv zeta in Hmerge.
    pose proof (remove_selected sel P bs) as Hrm. fold S in Hrm.
    eexists. split; [exact Hmerge|]. left. split; [reflexivity|].
    destruct skips as [|s0 skips']; cbn [nonempty staged_text].
    + apply Permutation_nil in Hperm. rewrite Hperm in Hrm. cbn [map] in Hrm.
      rewrite remove_spans_nil in Hrm. rewrite Hrm at 1. now rewrite <- app_assoc.
    + rewrite Hrm. now rewrite <- app_assoc.
  - apply orb_false_iff in Hne. destruct Hne as [Hn1 Hn2].
    destruct skips; [|discriminate]. destruct missing; [|discriminate].
    apply Permutation_nil in Hperm.
    assert (filter sel (keys_of bs) = []) as Hnone.
    { rewrite <- (g_skips_keys sel (length P)). fold S. now rewrite Hperm. }
    cbn [app] in Hlk, Hms, Hss. rewrite Hnone in Hss. cbn [map_result] in Hms, Hss.
    inversion Hms; inversion Hss; subst.
    exists CopyL10n. split; [apply merge_identity; right; exact Hs|].
    right. repeat split; auto.
Qed.

End Blocks.
