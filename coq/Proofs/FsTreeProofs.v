(* os.walk over a directory tree is the prefix filter that Model/ProjectFiles.v uses. (C13) *)
From Coq Require Import NArith List Bool Arith Lia.
From CL Require Import Base.Str Model.ProjectFiles Model.FsTree Proofs.ProjectFilesBase.
Import ListNotations.

Local Arguments N.eqb : simpl never.

Lemma tree_ind' (P : tree -> Prop) :
  P TFile -> (forall es, Forall (fun e => P (snd e)) es -> P (TDir es)) -> forall t, P t.
Proof.
  intros HF HD. fix IH 1. intros [|es]; [exact HF|]. apply HD.
  induction es as [|[n t] es IHes]; constructor; [apply IH | exact IHes].
Qed.

Definition wf_entries (es : list (str * tree)) : Prop :=
  Forall (fun e => has_slash (fst e) = false /\ wf_tree (snd e)) es.

Lemma wf_tree_dir : forall es, wf_tree (TDir es) <-> NoDup (map fst es) /\ wf_entries es.
Proof.
  intro es. simpl. split; intros [H1 H2]; (split; [exact H1|]); clear H1.
  - induction es as [|[n t] es IH]; [constructor|]. destruct H2 as [A [B C]].
    constructor; [split; assumption | apply IH; exact C].
  - induction es as [|[n t] es IH]; [exact I|]. inversion H2 as [|? ? [A B] C]; subst.
    simpl in *. repeat split; try assumption. apply IH. exact C.
Qed.

(* ---- strings ---------------------------------------------------------------------------- *)
Lemma starts_with_app_l : forall a u v, starts_with (a ++ u) (a ++ v) = starts_with u v.
Proof. induction a as [|c a IH]; intros; simpl; [reflexivity|]. rewrite N.eqb_refl. apply IH. Qed.

Lemma starts_with_refl_app : forall a x, starts_with a (a ++ x) = true.
Proof. intros. apply starts_with_iff. eauto. Qed.

Lemma has_slash_app : forall a b, has_slash (a ++ b) = has_slash a || has_slash b.
Proof. intros. unfold has_slash. apply existsb_app. Qed.

(* a slash-free name followed by a slash is a prefix of another such only if the names agree *)
Lemma seg_prefix_eq : forall a b x y,
  has_slash a = false -> has_slash b = false ->
  starts_with (a ++ SLASH :: x) (b ++ SLASH :: y) = true -> a = b.
Proof.
  unfold has_slash. unfold SLASH.
  induction a as [|c a IH]; intros [|d b] x y Ha Hb H; simpl in *.
  - reflexivity.
  - apply andb_true_iff in H as [H _]. apply N.eqb_eq in H. subst d.
    rewrite N.eqb_refl in Hb. discriminate.
  - apply andb_true_iff in H as [H _]. apply N.eqb_eq in H. subst c.
    rewrite N.eqb_refl in Ha. discriminate.
  - apply andb_true_iff in H as [H1 H2]. apply N.eqb_eq in H1. subst d.
    apply orb_false_iff in Ha as [_ Ha].
    apply orb_false_iff in Hb as [_ Hb]. f_equal. eapply IH; eassumption.
Qed.

Lemma seg_prefix_file : forall a b x,
  has_slash b = false -> starts_with (a ++ SLASH :: x) b = false.
Proof.
  intros a b x Hb. destruct (starts_with (a ++ SLASH :: x) b) eqn:E; [|reflexivity].
  apply starts_with_iff in E as [t E]. subst b. rewrite <- app_assoc in Hb.
  rewrite has_slash_app in Hb. apply orb_false_iff in Hb as [_ Hb].
  unfold has_slash in Hb. simpl in Hb. discriminate.
Qed.

Lemma filter_all : forall {T} (f : T -> bool) l, (forall x, In x l -> f x = true) -> filter f l = l.
Proof.
  intros T f l. induction l as [|x l IH]; intro H; simpl; [reflexivity|].
  rewrite (H x) by (left; reflexivity). f_equal. apply IH. intros y Hy. apply H. right. exact Hy.
Qed.

Lemma filter_none : forall {T} (f : T -> bool) l, (forall x, In x l -> f x = false) -> filter f l = [].
Proof.
  intros T f l. induction l as [|x l IH]; intro H; simpl; [reflexivity|].
  rewrite (H x) by (left; reflexivity). apply IH. intros y Hy. apply H. right. exact Hy.
Qed.

(* ---- the walk ------------------------------------------------------------------------------- *)
Definition file_part (base : str) (es : list (str * tree)) : list str :=
  flat_map (fun e => match e with (n, TFile) => [child_path base n] | (_, TDir _) => [] end) es.
Definition dir_part (base : str) (es : list (str * tree)) : list str :=
  flat_map (fun e => match e with
                     | (_, TFile) => []
                     | (n, (TDir _) as d) => walk_tree (child_path base n) d
                     end) es.

Lemma walk_tree_dir : forall base es, walk_tree base (TDir es) = file_part base es ++ dir_part base es.
Proof. reflexivity. Qed.

(* every path the walk yields lies below the directory it started from *)
Lemma walk_below : forall t base p, In p (walk_tree base t) -> starts_with (base ++ [SLASH]) p = true.
Proof.
  induction t as [|es IH] using tree_ind'; intros base p H; [destruct H|].
  rewrite walk_tree_dir in H. apply in_app_iff in H as [H|H].
  - unfold file_part in H. apply in_flat_map in H as [[n [|es']] [_ H]]; [|destruct H].
    destruct H as [<-|[]]. unfold child_path. rewrite app_assoc. apply starts_with_refl_app.
  - unfold dir_part in H. apply in_flat_map in H as [[n [|es']] [He H]]; [destruct H|].
    rewrite Forall_forall in IH. specialize (IH _ He). simpl in IH. apply IH in H.
    eapply starts_with_trans; [|exact H]. unfold child_path.
    rewrite <- !app_assoc. rewrite (app_assoc base). apply starts_with_refl_app.
Qed.

Lemma dirpath_app : forall segs root, exists x,
  dirpath root segs = root ++ x /\ (x = [] \/ exists y, x = SLASH :: y).
Proof.
  induction segs as [|s segs IH]; intro root; simpl.
  - exists []. rewrite app_nil_r. auto.
  - destruct (IH (child_path root s)) as [x [E _]]. unfold child_path in *. rewrite E.
    exists (SLASH :: s ++ x). rewrite <- !app_assoc. simpl. split; [reflexivity | right; eauto].
Qed.

Lemma entry_In : forall n es t, entry n es = Some t -> In (n, t) es.
Proof.
  induction es as [|[n' t'] es IH]; intros t H; simpl in H; [discriminate|].
  destruct (str_eqb n n') eqn:E.
  - apply pf_str_eqb_eq in E. inversion H; subst. left. reflexivity.
  - right. apply IH. exact H.
Qed.

(* the walk restricted to the paths below the sub-directory s: the walk of that sub-directory *)
Lemma dir_part_filter : forall es base s t' x,
  NoDup (map fst es) -> wf_entries es -> entry s es = Some t' ->
  filter (starts_with (child_path base s ++ SLASH :: x)) (dir_part base es) =
  filter (starts_with (child_path base s ++ SLASH :: x)) (walk_tree (child_path base s) t').
Proof.
  induction es as [|[n t] es IH]; intros base s t' x Hnd Hwf He; simpl in He; [discriminate|].
  inversion Hnd as [|? ? Hni Hnd']; subst. inversion Hwf as [|? ? [Hn Ht] Hwf']; subst. simpl in Hn.
  unfold dir_part. simpl. fold (dir_part base es).
  assert (Hother : forall n0 t0, In (n0, t0) es -> n0 <> n).
  { intros n0 t0 Hin E. subst. apply Hni. apply in_map_iff. exists (n, t0). auto. }
  destruct (str_eqb s n) eqn:Esn.
  - apply pf_str_eqb_eq in Esn. subst n. inversion He; subst t'.
    assert (Hrest : filter (starts_with (child_path base s ++ SLASH :: x)) (dir_part base es) = []).
    { apply filter_none. intros p Hp. unfold dir_part in Hp.
      apply in_flat_map in Hp as [[n0 [|es0]] [Hin Hp]]; [destruct Hp|].
      apply walk_below in Hp. apply starts_with_iff in Hp as [y Hy]. subst p.
      destruct (starts_with _ _) eqn:E; [|reflexivity]. exfalso.
      unfold child_path in E. rewrite <- !app_assoc in E. rewrite starts_with_app_l in E.
      simpl in E.
      rewrite Forall_forall in Hwf'. destruct (Hwf' _ Hin) as [Hn0 _]. simpl in Hn0.
      apply seg_prefix_eq in E; [|assumption|assumption]. apply (Hother _ _ Hin). congruence. }
    destruct t as [|es0]; simpl.
    + exact Hrest.
    + rewrite filter_app, Hrest, app_nil_r. reflexivity.
  - assert (Hhere : forall p, In p (match t with TFile => [] | TDir _ => walk_tree (child_path base n) t end) ->
                              starts_with (child_path base s ++ SLASH :: x) p = false).
    { intros p Hp. destruct t as [|es0]; [destruct Hp|].
      apply walk_below in Hp. apply starts_with_iff in Hp as [y Hy]. subst p.
      destruct (starts_with _ _) eqn:E; [|reflexivity]. exfalso.
      unfold child_path in E. rewrite <- !app_assoc in E. rewrite starts_with_app_l in E.
      simpl in E.
      assert (Hs : has_slash s = false).
      { apply entry_In in He. rewrite Forall_forall in Hwf'. destruct (Hwf' _ He) as [H _]. exact H. }
      apply seg_prefix_eq in E; [|assumption|assumption]. subst. rewrite pf_str_eqb_refl in Esn. discriminate. }
    rewrite filter_app.
    replace (filter _ (match t with TFile => [] | TDir _ => walk_tree (child_path base n) t end))
      with (@nil str).
    + simpl. apply IH; assumption.
    + symmetry. apply filter_none. destruct t; exact Hhere.
Qed.

Lemma file_part_filter : forall es base s x,
  wf_entries es -> filter (starts_with (child_path base s ++ SLASH :: x)) (file_part base es) = [].
Proof.
  intros es base s x Hwf. apply filter_none. intros p Hp. unfold file_part in Hp.
  apply in_flat_map in Hp as [[n [|es0]] [Hin Hp]]; [|destruct Hp]. destruct Hp as [<-|[]].
  unfold child_path. rewrite <- !app_assoc. rewrite starts_with_app_l. simpl.
  unfold wf_entries in Hwf. rewrite Forall_forall in Hwf. destruct (Hwf _ Hin) as [Hn _]. simpl in Hn.
  apply seg_prefix_file. exact Hn.
Qed.

(* os.walk(dir) for the directory reached through segs yields exactly the files of the whole
   tree whose path starts with dir + "/" *)
Theorem walk_is_prefix_filter : forall segs t root es,
  wf_tree t -> subtree t segs = Some (TDir es) ->
  filter (starts_with (dirpath root segs ++ [SLASH])) (walk_tree root t) =
  walk_tree (dirpath root segs) (TDir es).
Proof.
  induction segs as [|s segs IH]; intros t root es Hwf Hs; simpl in Hs.
  - inversion Hs; subst. simpl dirpath. apply filter_all. intros p Hp. eapply walk_below. exact Hp.
  - destruct t as [|es0]; [discriminate|]. destruct (entry s es0) as [t'|] eqn:He; [|discriminate].
    apply wf_tree_dir in Hwf as [Hnd Hwf]. simpl dirpath.
    destruct (dirpath_app segs (child_path root s)) as [x [Ex Hx]]. rewrite Ex.
    assert (Hp : exists y, (child_path root s ++ x) ++ [SLASH] = child_path root s ++ SLASH :: y).
    { destruct Hx as [->|[y ->]]; [exists []; rewrite app_nil_r; reflexivity|].
      exists (y ++ [SLASH]). rewrite <- app_assoc. reflexivity. }
    destruct Hp as [y Hy]. rewrite Hy, walk_tree_dir, filter_app.
    rewrite file_part_filter by exact Hwf. simpl.
    rewrite (dir_part_filter _ _ _ _ _ Hnd Hwf He). rewrite <- Hy, <- Ex.
    apply IH; [|exact Hs]. apply entry_In in He. unfold wf_entries in Hwf. rewrite Forall_forall in Hwf.
    destruct (Hwf _ He) as [_ H]. exact H.
Qed.

(* the same, for the function [walk] of the model and both spellings of the directory *)
Theorem model_walk_is_tree_walk : forall segs t root es,
  wf_tree t -> subtree t segs = Some (TDir es) ->
  dirpath root segs <> [] -> ends_slash (dirpath root segs) = false ->
  walk (walk_tree root t) (dirpath root segs) = walk_tree (dirpath root segs) (TDir es) /\
  walk (walk_tree root t) (dirpath root segs ++ [SLASH]) = walk_tree (dirpath root segs) (TDir es).
Proof.
  intros segs t root es Hwf Hs Hne Hsl. pose proof (walk_is_prefix_filter segs t root es Hwf Hs) as H.
  assert (Hw : forall fs b, b <> [] -> walk fs b = filter (starts_with (ensure_slash b)) fs).
  { intros fs [|c b] Hb; [congruence | reflexivity]. }
  split; rewrite Hw.
  - unfold ensure_slash. rewrite Hsl. exact H.
  - exact Hne.
  - unfold ensure_slash. rewrite ends_slash_snoc, N.eqb_refl. exact H.
  - destruct (dirpath root segs); discriminate.
Qed.
