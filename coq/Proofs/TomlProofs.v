(* TOMLParser.parse: the parser's variables override the file's, in every
   configuration of the tree; only the top configuration carries excludes. (C13) *)
From Coq Require Import ZArith NArith List Bool Arith Lia.
From CL Require Import Base.Sx Base.Str Model.ProjectFiles Model.Toml Proofs.ProjectFilesBase.
Import ListNotations.

Lemma dget_dset : forall k k' v d,
  dget k (dset k' v d) = if str_eqb k k' then Some v else dget k d.
Proof.
  intros k k' v d. induction d as [|[k1 v1] d IH]; simpl; [reflexivity|].
  destruct (str_eqb k' k1) eqn:E1; simpl.
  - apply pf_str_eqb_eq in E1. subst. destruct (str_eqb k k1); reflexivity.
  - rewrite IH. destruct (str_eqb k k1) eqn:E2; [|reflexivity].
    apply pf_str_eqb_eq in E2. subst.
    destruct (str_eqb k1 k') eqn:E3; [|reflexivity].
    apply pf_str_eqb_eq in E3. subst. rewrite pf_str_eqb_refl in E1. discriminate.
Qed.

Lemma dget_dupdate : forall e d k,
  dget k (dupdate d e) = match dlast k e with Some v => Some v | None => dget k d end.
Proof.
  unfold dupdate. induction e as [|[k' v'] e IH]; intros d k; simpl; [reflexivity|].
  rewrite IH. destruct (dlast k e); [reflexivity|]. rewrite dget_dset.
  destruct (str_eqb k k'); reflexivity.
Qed.

(* every configuration of the tree: included and excluded ones, recursively *)
Fixpoint tconfigs (c : tconfig) : list tconfig :=
  match c with
  | TConfig _ _ _ _ _ ch ex => c :: flat_map tconfigs ch ++ flat_map tconfigs ex
  end.

Section TomlProofs.
Variable load : str -> option toml_data.
Variable set_root : str -> str -> str.
Variable resolve : str -> str -> env_t -> str.
Notation parse := (parse load set_root resolve).

(* what the environment of a configuration is, given the parser's variables *)
Definition env_ok (env : env_t) (c : tconfig) : Prop :=
  (forall k, match dlast k env with
             | Some v => dget k (t_env c) = Some v
             | None => exists data, load (t_path c) = Some data /\
                                    dget k (t_env c) = dlast k (td_env data)
             end) /\
  Forall (fun r => tr_env r = t_env c) (t_rules c).

Lemma process_children_Forall : forall (Q : tconfig -> Prop) pc ig bad ps cs,
  (forall p c, pc p = TOk c -> Q c) ->
  process_children pc ig bad ps = TOk cs -> Forall Q cs.
Proof.
  intros Q pc ig bad ps. induction ps as [|p ps IH]; intros cs HQ H; simpl in H.
  - inversion H. constructor.
  - destruct (pc p) as [c|e] eqn:E.
    + destruct (bad c); [discriminate|].
      destruct (process_children pc ig bad ps) as [cs'|]; [|discriminate].
      inversion H; subst. constructor; [eapply HQ; exact E | apply IH; [exact HQ | reflexivity]].
    + destruct e; try discriminate. destruct ig; [|discriminate]. apply IH; assumption.
Qed.

Lemma process_children_bad : forall pc ig bad ps cs,
  process_children pc ig bad ps = TOk cs -> Forall (fun c => bad c = false) cs.
Proof.
  intros pc ig bad ps. induction ps as [|p ps IH]; intros cs H; simpl in H.
  - inversion H. constructor.
  - destruct (pc p) as [c|e] eqn:E.
    + destruct (bad c) eqn:Eb; [discriminate|].
      destruct (process_children pc ig bad ps) as [cs'|]; [|discriminate].
      inversion H; subst. constructor; [exact Eb | apply IH; reflexivity].
    + destruct e; try discriminate. destruct ig; [|discriminate]. apply IH; assumption.
Qed.

Lemma in_flat_map_Forall : forall (Q : tconfig -> Prop) (cs : list tconfig) c',
  Forall (fun c => forall c', In c' (tconfigs c) -> Q c') cs ->
  In c' (flat_map tconfigs cs) -> Q c'.
Proof.
  intros Q cs c' H Hin. apply in_flat_map in Hin as [c [Hc Hin]].
  rewrite Forall_forall in H. eapply H; eassumption.
Qed.

Lemma parse_env : forall fuel path env ig c,
  parse fuel path env ig = TOk c -> forall c', In c' (tconfigs c) -> env_ok env c'.
Proof.
  induction fuel as [|fuel IH]; intros path env ig c H; simpl in H; [discriminate|].
  destruct (load path) as [data|] eqn:El; [|discriminate].
  match type of H with
  | match process_children ?pc _ ?b1 ?l1 with _ => _ end = _ =>
      destruct (process_children pc ig b1 l1) as [children|] eqn:Ec; [|discriminate];
      destruct (process_children pc ig deep_excludes (ostrs (td_excludes data))) as [excludes|] eqn:Ex;
        [|discriminate]
  end.
  inversion H; subst. clear H.
  intros c' Hin. simpl in Hin. destruct Hin as [<-|Hin].
  - split; simpl.
    + intro k. rewrite dget_dupdate. destruct (dlast k env); [reflexivity|].
      exists data. split; [exact El|]. rewrite dget_dupdate. simpl.
      destruct (dlast k (td_env data)); reflexivity.
    + apply Forall_forall. intros r Hr. apply in_map_iff in Hr as [d [<- _]]. reflexivity.
  - apply in_app_iff in Hin as [Hin|Hin].
    + eapply in_flat_map_Forall; [|exact Hin].
      eapply process_children_Forall; [|exact Ec]. intros p ch Hp. eapply IH. exact Hp.
    + eapply in_flat_map_Forall; [|exact Hin].
      eapply process_children_Forall; [|exact Ex]. intros p ch Hp. eapply IH. exact Hp.
Qed.

(* included configurations have no excludes, excluded ones none anywhere below:
   the shape assumed by Model/ProjectFiles.v (cnode / project) *)
Lemma parse_excludes_top_only : forall fuel path env ig c,
  parse fuel path env ig = TOk c ->
  Forall (fun ch => deep_excludes ch = false) (t_children c ++ t_excludes c).
Proof.
  induction fuel as [|fuel IH]; intros path env ig c H; simpl in H; [discriminate|].
  destruct (load path) as [data|] eqn:El; [|discriminate].
  match type of H with
  | match process_children ?pc _ ?b1 ?l1 with _ => _ end = _ =>
      destruct (process_children pc ig b1 l1) as [children|] eqn:Ec; [|discriminate];
      destruct (process_children pc ig deep_excludes (ostrs (td_excludes data))) as [excludes|] eqn:Ex;
        [|discriminate]
  end.
  inversion H; subst. clear H. simpl. apply Forall_app. split.
  - pose proof (process_children_bad _ _ _ _ _ Ec) as Hb.
    pose proof (process_children_Forall
                  (fun ch => Forall (fun g => deep_excludes g = false) (t_children ch ++ t_excludes ch))
                  _ _ _ _ _ (fun p ch Hp => IH _ _ _ _ Hp) Ec) as Hd.
    rewrite Forall_forall in *. intros ch Hch. specialize (Hb ch Hch). specialize (Hd ch Hch).
    destruct ch as [p r e rl lo gch gex]. simpl in *. apply negb_false_iff in Hb.
    destruct gex; [|discriminate]. simpl. rewrite app_nil_r in Hd.
    destruct (existsb deep_excludes gch) eqn:Ee; [|reflexivity].
    apply existsb_exists in Ee as [g [Hg Hge]]. rewrite Forall_forall in Hd.
    rewrite (Hd g Hg) in Hge. discriminate.
  - exact (process_children_bad _ _ _ _ _ Ex).
Qed.

End TomlProofs.
