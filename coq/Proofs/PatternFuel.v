(* Fuel of the expansion (Variable.expand / AndroidLocale.expand recursing
   through the environment): more fuel never changes a result, and for
   environments whose values do not mention {android_locale} the recursion
   depth is bounded by the size of the environment, whatever self- or mutual
   references the values contain.  A `locale` defined through
   {android_locale} is the one cycle the code does not cut. *)
From Coq Require Import NArith List Bool Arith Lia.
From CL Require Import Base.Sx Base.Res Base.Str Regex.Rx Regex.RxLemmas
  Generated.RxC11 Generated.PathFacts Model.Pattern Model.Matcher Proofs.MatcherBase
  Proofs.MatcherExpand.
Import ListNotations.

Local Arguments expand_node : simpl never.
Local Arguments to_android : simpl never.

Notation fuelled r := (r <> Raise OutOfFuel).

Lemma fuelled_cast : forall T U (t : tag),
  fuelled (@Raise T t) -> fuelled (@Raise U t).
Proof. intros T U t H E. apply H. inversion E. reflexivity. Qed.

(* ---- expand_with respects agreement of the node expander ------------------------ *)
Lemma expand_children_agree : forall (en1 en2 : node -> result item) rm ns,
  (forall n, In n ns -> fuelled (en1 n) -> en2 n = en1 n) ->
  fuelled (expand_children en1 rm ns) ->
  expand_children en2 rm ns = expand_children en1 rm ns.
Proof.
  intros en1 en2 rm. induction ns as [|n ns IH]; intros Ha Hf; simpl in *; auto.
  assert (Hn : fuelled (en1 n)).
  { intro E. apply Hf. rewrite E. reflexivity. }
  rewrite (Ha n (or_introl eq_refl) Hn).
  destruct (en1 n) as [i|t] eqn:E.
  - rewrite IH; auto. intro E2. apply Hf. rewrite E2. reflexivity.
  - reflexivity.
Qed.

Lemma first_segment_agree : forall (en1 en2 : node -> result item) ns,
  (forall n, In n ns -> fuelled (en1 n) -> en2 n = en1 n) ->
  fuelled (first_segment en1 ns) -> first_segment en2 ns = first_segment en1 ns.
Proof.
  intros en1 en2 ns Ha Hf. destruct ns as [|n0 ns]; [reflexivity|].
  assert (H0 : fuelled (en1 n0) -> en2 n0 = en1 n0) by (apply Ha; left; reflexivity).
  destruct n0; simpl in *; try reflexivity;
    (rewrite H0; [reflexivity|intro E; apply Hf; rewrite E; reflexivity]).
Qed.

Lemma expand_with_agree : forall (en1 en2 : bool -> node -> result item) rm p,
  (forall b n, In n (p_nodes p) -> fuelled (en1 b n) -> en2 b n = en1 b n) ->
  fuelled (expand_with en1 rm p) ->
  expand_with en2 rm p = expand_with en1 rm p.
Proof.
  intros en1 en2 rm p Ha Hf. unfold expand_with in *.
  assert (Hch : forall (k : list item -> result str),
            fuelled (do items <- expand_children (en1 true) rm (p_nodes p); k items) ->
            expand_children (en2 true) rm (p_nodes p) = expand_children (en1 true) rm (p_nodes p)).
  { intros k Hk. apply expand_children_agree.
    - intros n Hin Hn. apply Ha; auto.
    - intro E. apply Hk. rewrite E. reflexivity. }
  destruct (p_root p) as [r|].
  - assert (Hfs : first_segment (en2 false) (p_nodes p) = first_segment (en1 false) (p_nodes p)).
    { apply first_segment_agree; [intros; apply Ha; auto|].
      intro E. apply Hf. rewrite E. reflexivity. }
    rewrite Hfs. destruct (first_segment (en1 false) (p_nodes p)) as [fs|t]; [|reflexivity].
    simpl in *. rewrite (Hch _ Hf). reflexivity.
  - simpl in *. rewrite (Hch _ Hf). reflexivity.
Qed.

(* ---- more fuel never changes a result ---------------------------------------------- *)
Lemma expand_node_mono : forall f e rm n, fuelled (expand_node f e rm n) ->
  expand_node (S f) e rm n = expand_node f e rm n.
Proof.
  induction f as [|f IH]; intros e rm n Hf.
  - exfalso. apply Hf. reflexivity.
  - rewrite (expand_node_S (S f)), (expand_node_S f). rewrite (expand_node_S f) in Hf.
    destruct n as [s|name rep|rep|k|k suffix]; auto.
    + destruct (lookup name e) as [[s|p]|]; auto.
      rewrite (expand_with_agree (expand_node f (remove name e))); auto.
      intro E. apply Hf. rewrite E. reflexivity.
    + destruct (lookup s_locale e) as [[s|p]|]; auto.
      rewrite (expand_with_agree (expand_node f (remove s_android_locale e))); auto.
      intro E. apply Hf. rewrite E. reflexivity.
Qed.

Theorem expand_node_fuel_irrelevant : forall f g e rm n, f <= g ->
  fuelled (expand_node f e rm n) -> expand_node g e rm n = expand_node f e rm n.
Proof.
  intros f g e rm n Hle Hf. induction Hle as [|g Hle IH]; auto.
  rewrite expand_node_mono; auto. rewrite IH. exact Hf.
Qed.

(* ---- the regex calls of the Android code never run out of fuel ------------------- *)
Lemma rsub_fuelled : forall r repl s, (forall x, fuelled (repl x)) -> fuelled (rsub r repl s).
Proof.
  intros r repl s Hr. unfold rsub. destruct (rfinditer r s) as [ms|] eqn:E.
  - clear E. generalize 0 as cur. induction ms as [|x ms IH]; intros cur; [discriminate|].
    pose proof (Hr x) as Hx. destruct (repl x) as [t|t]; simpl.
    + specialize (IH (m_end x)).
      match goal with |- fuelled (bind ?g _) => destruct g; simpl; [discriminate|exact IH] end.
    + exact Hx.
  - exfalso. revert E. apply rfinditer_no_fuel.
Qed.

Lemma map_lookup_fuelled : forall tbl k, fuelled (map_lookup tbl k).
Proof. intros. unfold map_lookup. destruct (lookup k tbl); discriminate. Qed.

Lemma to_android_fuelled : forall l, fuelled (to_android l).
Proof.
  intros l. unfold to_android.
  pose proof (rsub_fuelled rx_android_legacy_out
    (fun x => map_lookup android_legacy_map (text_or_empty (group_text l 1 x)))
    l (fun x => map_lookup_fuelled _ _)) as H.
  match goal with |- fuelled (bind ?r _) => destruct r as [b|t]; [|exact H] end.
  simpl. pose proof (rmatch_no_fuel rx_android_lang_region b 0) as Hm.
  destruct (rmatch _ b 0); try contradiction.
  - destruct (has_char c_dash b); discriminate.
  - destruct (split_char c_dash b) as [|a [|c rest]]; discriminate.
Qed.

(* ---- termination ------------------------------------------------------------------- *)
Definition node_android_free (n : node) : bool :=
  match n with NAndroid _ => false | _ => true end.
Definition value_android_free (v : evalue) : bool :=
  match v with EVLit _ => true | EVPat p => forallb node_android_free (p_nodes p) end.
Definition env_android_free (e : env) : bool :=
  forallb (fun kv => value_android_free (snd kv)) e.

Lemma env_android_free_remove : forall k e, env_android_free e = true ->
  env_android_free (remove k e) = true.
Proof.
  unfold env_android_free, remove. induction e as [|[k' v] e IH]; intros H; simpl in *; auto.
  apply andb_true_iff in H. destruct H as [H1 H2].
  destruct (negb (str_eqb k k')); simpl; auto. rewrite H1. simpl. auto.
Qed.

Lemma env_android_free_lookup : forall k e p, env_android_free e = true ->
  lookup k e = Some (EVPat p) -> forallb node_android_free (p_nodes p) = true.
Proof.
  unfold env_android_free. intros k e p H Hl. apply lookup_in in Hl.
  rewrite forallb_forall in H. apply (H _ Hl).
Qed.

Lemma expand_children_fuelled : forall (en : node -> result item) rm ns,
  (forall n, In n ns -> fuelled (en n)) -> fuelled (expand_children en rm ns).
Proof.
  intros en rm. induction ns as [|n ns IH]; intros H; simpl; [discriminate|].
  pose proof (H n (or_introl eq_refl)) as Hn.
  destruct (en n) as [i|t].
  - assert (Hr : fuelled (expand_children en rm ns)) by (apply IH; intros; apply H; right; auto).
    destruct (expand_children en rm ns); simpl; [discriminate|exact Hr].
  - destruct t; simpl; try discriminate.
    + exfalso. apply Hn. reflexivity.
    + destruct rm; simpl; discriminate.
Qed.

Lemma join_items_fuelled : forall l, fuelled (join_items l).
Proof.
  induction l as [|[s|] l IH]; simpl; try discriminate.
  destruct (join_items l); simpl; [discriminate|exact IH].
Qed.

Lemma first_segment_fuelled : forall (en : node -> result item) ns,
  (forall n, In n ns -> fuelled (en n)) -> fuelled (first_segment en ns).
Proof.
  intros en ns H. destruct ns as [|n0 ns]; [discriminate|].
  pose proof (H n0 (or_introl eq_refl)) as H0.
  destruct n0; simpl; try discriminate;
    (match goal with |- fuelled (bind ?r _) => destruct r as [[s0|]|t] end; simpl; try discriminate;
     eapply fuelled_cast; eauto).
Qed.

Lemma expand_with_fuelled : forall (en : bool -> node -> result item) rm p,
  (forall b n, In n (p_nodes p) -> fuelled (en b n)) -> fuelled (expand_with en rm p).
Proof.
  intros en rm p H. unfold expand_with.
  assert (Hroot : fuelled (match p_root p with
    | None => Ok []
    | Some r => do first_seg <- first_segment (en false) (p_nodes p);
                Ok (if starts_with [c_slash] first_seg then [] else r)
    end)).
  { destruct (p_root p); [|discriminate].
    pose proof (first_segment_fuelled (en false) (p_nodes p) (fun n Hn => H false n Hn)) as H0.
    destruct (first_segment (en false) (p_nodes p)); simpl; [discriminate|eapply fuelled_cast; eauto]. }
  match goal with |- fuelled (bind ?r _) => destruct r as [root|t]; [|exact Hroot] end.
  simpl.
  pose proof (expand_children_fuelled (en true) rm (p_nodes p) (fun n Hn => H true n Hn)) as Hc.
  destruct (expand_children (en true) rm (p_nodes p)) as [items|t];
    [|eapply fuelled_cast; eauto]. simpl.
  pose proof (join_items_fuelled items) as Hj.
  destruct (join_items items); simpl; [discriminate|exact Hj].
Qed.

Lemma expand_node_terminates_free : forall fuel e rm n,
  env_android_free e = true -> node_android_free n = true -> length e < fuel ->
  fuelled (expand_node fuel e rm n).
Proof.
  induction fuel as [|f IH]; intros e rm n He Hn Hlen; [lia|].
  rewrite expand_node_S. destruct n as [s|name rep|rep|k|k suffix]; try discriminate.
  - destruct (lookup name e) as [[s|p]|] eqn:El; try discriminate.
    assert (Hw : fuelled (expand_with (expand_node f (remove name e)) rm p)).
    { apply expand_with_fuelled. intros b n Hin. apply IH.
      - apply env_android_free_remove. auto.
      - pose proof (env_android_free_lookup _ _ _ He El) as Hp.
        rewrite forallb_forall in Hp. auto.
      - pose proof (remove_length_lt _ _ _ El). lia. }
    destruct (expand_with _ rm p); simpl; [discriminate|eapply fuelled_cast; eauto].
  - destruct (lookup (star_name k) e) as [[s|p]|]; discriminate.
  - destruct (lookup (star_name k) e) as [[s|p]|]; discriminate.
Qed.

(* C12_expand_terminates *)
Theorem expand_node_terminates : forall fuel e rm n,
  env_android_free e = true -> length e + 1 < fuel -> fuelled (expand_node fuel e rm n).
Proof.
  intros fuel e rm n He Hlen. destruct (node_android_free n) eqn:En.
  - apply expand_node_terminates_free; auto. lia.
  - destruct n; try discriminate. destruct fuel as [|f]; [lia|]. rewrite expand_node_S.
    destruct (lookup s_locale e) as [v|] eqn:El; [|discriminate].
    assert (Hb : fuelled (match v with
                          | EVLit s => Ok s
                          | EVPat p => expand_with (expand_node f (remove s_android_locale e)) false p
                          end)).
    { destruct v as [s|p]; [discriminate|]. apply expand_with_fuelled. intros b n Hin.
      apply expand_node_terminates_free.
      - apply env_android_free_remove. auto.
      - pose proof (env_android_free_lookup _ _ _ He El) as Hp.
        rewrite forallb_forall in Hp. auto.
      - pose proof (remove_length s_android_locale e). lia. }
    match goal with |- fuelled (bind ?r _) => destruct r as [b|t]; [|eapply fuelled_cast; eauto] end.
    simpl. pose proof (to_android_fuelled b) as Ha.
    destruct (to_android b); simpl; [discriminate|eapply fuelled_cast; eauto].
Qed.

Theorem expand_pattern_terminates : forall e rm p,
  env_android_free e = true -> fuelled (expand_pattern e rm p).
Proof.
  intros e rm p He. unfold expand_pattern. apply expand_with_fuelled. intros b n _.
  apply expand_node_terminates; auto. unfold expand_fuel. lia.
Qed.

(* any fuel above the bound gives the model's answer *)
Theorem expand_node_enough : forall fuel e rm n,
  env_android_free e = true -> length e + 1 < fuel ->
  expand_node fuel e rm n = expand_node (length e + 2) e rm n.
Proof.
  intros fuel e rm n He Hlen. apply expand_node_fuel_irrelevant; [lia|].
  apply expand_node_terminates; auto. lia.
Qed.

(* ---- the cycle the code does not cut ------------------------------------------------- *)
Definition cyclic_env : env := [(s_locale, EVPat (mkpat [NAndroid false] None 1))].

Lemma android_cycle : forall fuel rm,
  expand_node fuel cyclic_env rm (NAndroid false) = Raise OutOfFuel.
Proof.
  induction fuel as [|f IH]; intros rm; [reflexivity|].
  rewrite expand_node_S. simpl. unfold expand_with. simpl.
  change (remove s_android_locale cyclic_env) with cyclic_env. rewrite IH. reflexivity.
Qed.
