(* The pattern grammar the C11 / C12 theorems are stated for, and the
   predicates of their statements. *)
From Coq Require Import NArith List Bool Arith.
From CL Require Import Base.Sx Base.Res Base.Str Regex.Rx Model.Pattern Model.Matcher.
Import ListNotations.

(* a value without wildcards or variables: a literal, or a pattern made of literals *)
Definition is_lit (n : node) : bool := match n with NLit _ => true | _ => false end.
Definition lit_only (p : pattern) : bool :=
  forallb is_lit (p_nodes p) && match p_root p with None => true | Some _ => false end.
Definition nodes_text (ns : list node) : str :=
  concat (map (fun n => match n with NLit s => s | _ => [] end) ns).
Definition value_text (v : evalue) : option str :=
  match v with
  | EVLit s => Some s
  | EVPat p => if lit_only p then Some (nodes_text (p_nodes p)) else None
  end.

(* nodes of the grammar: literals; variables (first occurrence or repeat) that
   are unbound or bound to a wildcard-free, variable-free value, with a name
   CPython accepts as a group name; stars and double stars whose group name is
   not also a variable of the environment.  {android_locale} is covered by the
   C12 Android theorems and by the correspondence suites, not here. *)
Definition simple_node (e : env) (n : node) : bool :=
  match n with
  | NLit _ => true
  | NVar name _ =>
      is_ascii name && valid_group_name name && negb (str_eqb name s_android_locale) &&
      match lookup name e with
      | None => true
      | Some v => match value_text v with Some _ => true | None => false end
      end
  | NAndroid _ => false
  | NStar k | NStarstar k _ =>
      match lookup (star_name k) e with None => true | Some _ => false end
  end.

(* a matcher of the grammar: simple nodes, no root, an environment that is a
   dictionary (distinct keys) *)
Definition simple (M : matcher) : Prop :=
  forallb (simple_node (m_env M)) (p_nodes (m_pat M)) = true /\
  p_root (m_pat M) = None /\
  NoDup (map fst (m_env M)).

Definition nl : N := 10%N.

(* what a match dictionary must say about the wildcards of a pattern:
   a star's value has no '/', a double star took no part or holds a non-empty
   text without newline followed by its suffix *)
Definition star_value_ok (d : list (str * option str)) (n : node) : Prop :=
  match n with
  | NStar k => exists v, lookup (star_name k) d = Some (Some v) /\ has_char c_slash v = false
  | NStarstar k suffix =>
      lookup (star_name k) d = Some None \/
      exists b, b <> [] /\ has_char nl b = false /\
                lookup (star_name k) d = Some (Some (b ++ suffix))
  | _ => True
  end.

Definition kinds_ok (p : pattern) (d : list (str * option str)) : Prop :=
  Forall (star_value_ok d) (p_nodes p).

(* the path, or the path without one final newline (CPython's `$`) *)
Definition upto_final_newline (whole consumed : str) : Prop :=
  whole = consumed \/ whole = consumed ++ [10%N].

Fixpoint ends_with (suffix s : str) : bool :=
  str_eqb suffix s || match s with [] => false | _ :: s' => ends_with suffix s' end.
