(* C02, DTD: the block theorem.  A file that is a sequence of blocks
     - a run of whitespace (blanks, tabs, CR, LF),
     - a standalone XML comment  <!--body-->  (body: as the generated comment expression
       accepts it: comment characters, a dash only directly in front of a comment character),
     - an entity declaration  <!ENTITY ws name ws "value" ws? >  or with 'value' (name: a
       NameStartChar then NameChars, classes read from the generated key expression; value:
       anything but the delimiting quote -- the key expression has no % or & restriction),
       optionally preceded by its attached comment and at most one line break of whitespace,
     - a parameter-entity declaration with its reference  <!ENTITY % name SYSTEM 'url'> %name;
       together with what DTDParser.rePE swallows after it (blanks and tabs, comments with
       their whitespace, one line feed),
   parses (model of DTDParser.getNext / Parser.getNext / walk, through the regex engine on
   the generated expressions) to exactly the entries computed from the blocks by
   [entries_of] ([blocks_dtd]); the entities are the records, the comments the comment
   blocks, and there is no Junk ([C02_roundtrip_dtd_multi]).
   Quirks of the implementation that are mirrored, not idealised:
     - a byte order mark at offset 0 is skipped, the first entry starts at offset 1
       ([blocks_dtd_bom]); the file that is only the mark gives the zero-width Junk (1,1);
     - the License rule applies at offsets 0 AND 1 (offset < 2): excluded by [license_okb]
       (that case is C02_license_dtd), with an example that the premise is needed;
     - a comment is standalone when two or more line breaks follow, or when what follows
       its whitespace is not an entity declaration; otherwise it is attached;
     - a parameter entity: the reference need not name the declared entity; its value span
       is the quoted text WITH the quotes (for an ordinary entity: without); the entry
       extends over the blanks, comments and the ONE line feed (not a carriage return) that
       rePE swallows; a comment in front of it is never attached to it.
   Not covered: junk regions (anything that is not one of the four block kinds, e.g. a
   comment with a double dash inside, a name outside the NameChar classes of the expression,
   a value with its own delimiting quote); a comment, at most one line break, and a bare
   declaration can only be written as ONE entity block with an attached comment.
   Regex-specific: Proofs/C02BlocksDtdRx.v, Proofs/C02BlocksDtdPeRx.v. *)
From Coq Require Import NArith List Bool Arith Lia.
From CL Require Import Base.Sx Base.Res Base.Str Regex.Rx Regex.RxLemmas Model.Entry Model.Parse
  Model.ParseFormats Generated.RxParser Proofs.UnescapeProofs
  Proofs.ClassLoop Proofs.ClassLoop2 Proofs.C02Props Proofs.WalkProofs Proofs.C02Roundtrip
  Proofs.C02BlocksRx Proofs.C02BlocksDtdRx Proofs.C02BlocksDtdPeRx.
From CL Require Proofs.C02Blocks.
Import ListNotations.

Local Arguments Nat.ltb : simpl never.
Local Arguments Nat.leb : simpl never.
Local Arguments Nat.eqb : simpl never.
Local Arguments N.eqb : simpl never.
Local Arguments N.leb : simpl never.
Local Arguments chr_ok : simpl never.

(* ---- blocks --------------------------------------------------------------------------------- *)
Inductive block :=
| BBlank (w : str)                                   (* whitespace: blanks, tabs, CR, LF *)
| BComment (body : str)                              (* standalone  <!--body-->  *)
| BEntity (pre : option (str * str)) (ws1 name ws2 : str) (q : N) (v ws3 : str)
| BPE (d : pedecl).
    (* [pre = Some (body, iw)]: the attached comment <!--body--> and the whitespace [iw]
       between it and the declaration (at most one line break, may be empty); then
       <!ENTITY ws1 name ws2 q v q ws3 >  with the quote character [q] (double or single);
       [BPE d]: a parameter-entity declaration, its reference and the swallowed tail
       ([pedecl], [pe_text], [legal_pe], [pe_next_ok] are in C02BlocksDtdPeRx.v) *)

Definition decl_text (ws1 name ws2 : str) (q : N) (v ws3 : str) : str :=
  ENT ++ ws1 ++ name ++ ws2 ++ q :: v ++ q :: ws3 ++ [62%N].

Definition pre_text (pre : option (str * str)) : str :=
  match pre with
  | Some (body, iw) => comment_text body ++ iw
  | None => []
  end.

Definition text (b : block) : str :=
  match b with
  | BBlank w => w
  | BComment body => comment_text body
  | BEntity pre ws1 name ws2 q v ws3 => pre_text pre ++ decl_text ws1 name ws2 q v ws3
  | BPE d => pe_text d
  end.
Definition file_text (bs : list block) : str := concat (map text bs).

Definition is_nil {A} (l : list A) : bool := match l with [] => true | _ => false end.

Definition legal_pre (pre : option (str * str)) : bool :=
  match pre with
  | Some (body, iw) => legal_cbody body && is_ws iw && (count_char 10%N iw <=? 1)
  | None => true
  end.

Definition legal_decl (ws1 name ws2 : str) (q : N) (v ws3 : str) : bool :=
  negb (is_nil ws1) && is_ws ws1 && legal_name name && negb (is_nil ws2) && is_ws ws2 &&
  legal_qval q v && is_ws ws3.

Definition legal_blockb (b : block) : bool :=
  match b with
  | BBlank w => negb (is_nil w) && is_ws w
  | BComment body => legal_cbody body
  | BEntity pre ws1 name ws2 q v ws3 => legal_pre pre && legal_decl ws1 name ws2 q v ws3
  | BPE d => legal_pe d
  end.
Definition legal_block (b : block) : Prop := legal_blockb b = true.

(* the whitespace blocks at the head of a list (they form ONE whitespace entry), and what
   comes after them *)
Fixpoint lead_ws (bs : list block) : str :=
  match bs with
  | BBlank w :: rest => w ++ lead_ws rest
  | _ => []
  end.
Fixpoint drop_ws (bs : list block) : list block :=
  match bs with
  | BBlank _ :: rest => drop_ws rest
  | _ => bs
  end.
Definition bare_entity_head (bs : list block) : bool :=
  match bs with
  | BEntity None _ _ _ _ _ _ :: _ => true
  | _ => false
  end.

(* local separation: a standalone comment is followed by whitespace with two or more line
   breaks, or, after its whitespace, by something that is not a bare entity declaration
   (the end of the file, another comment, an entity with its own comment); otherwise the
   parser attaches it to the declaration.  What follows a parameter-entity block must not
   extend the match of rePE ([pe_next_ok]: after its line feed anything; otherwise no
   comment, and no whitespace / no blank, tab or line feed).  Whitespace blocks may be
   adjacent: they merge into one entry. *)
Definition comment_next_ok (rest : list block) : bool :=
  (2 <=? count_char 10%N (lead_ws rest)) || negb (bare_entity_head (drop_ws rest)).

Fixpoint separatedb (bs : list block) : bool :=
  match bs with
  | [] => true
  | BComment _ :: rest => comment_next_ok rest && separatedb rest
  | BPE d :: rest => pe_next_ok d (file_text rest) && separatedb rest
  | _ :: rest => separatedb rest
  end.

(* the License rule (C02_license_dtd) is excluded: an entity whose attached comment
   starts at offset 0 or 1 does not have "License" in that comment *)
Fixpoint license_okb (off : nat) (bs : list block) : bool :=
  match bs with
  | BBlank w :: rest => license_okb (off + length w) rest
  | BEntity (Some (body, _)) _ _ _ _ _ _ :: _ => negb ((off <? 2) && contains s_License body)
  | _ => true
  end.

Definition adjacent_okb (bs : list block) : bool := separatedb bs && license_okb 0 bs.
Definition adjacent_ok (bs : list block) : Prop := adjacent_okb bs = true.

(* ---- the expected entries --------------------------------------------------------------------
   [off] is the offset reached, [w] the length of the whitespace pending there (adjacent
   whitespace blocks form one entry) *)
Definition flush (off w : nat) : list entry :=
  match w with 0 => [] | _ => [mk_white (off, off + w)] end.

Definition entity_entry (a : nat) (pre : option (str * str)) (ws1 name ws2 v ws3 : str) : entry :=
  let k := a + length (pre_text pre) in
  let n0 := k + 8 + length ws1 in
  let n1 := n0 + length name in
  let v0 := n1 + length ws2 in
  mkentry KEntity (k, key_end ws1 name ws2 v ws3 k) (Some (n0, n1)) (Some (v0 + 1, v0 + 1 + length v))
    (match pre with Some (body, _) => Some (a, a + length (comment_text body)) | None => None end)
    (match pre with
     | Some (body, _ :: _) => Some (a + length (comment_text body), k)
     | _ => None
     end).

(* DTDParser.getNext for a parameter entity: no comment, no inner whitespace, and the value
   span is group val as it is, WITH the quotes *)
Definition pe_entry (a : nat) (d : pedecl) : entry :=
  mkentry KEntity (a, a + length (pe_text d)) (Some (pe_key_span d a)) (Some (pe_val_span d a)) None None.

Fixpoint ents (off w : nat) (bs : list block) : list entry :=
  match bs with
  | [] => flush off w
  | BBlank x :: rest => ents off (w + length x) rest
  | BComment body :: rest =>
      let a := off + w in
      let e := a + length (comment_text body) in
      flush off w ++ mk_comment (a, e) :: ents e 0 rest
  | BEntity pre ws1 name ws2 q v ws3 :: rest =>
      let a := off + w in
      let e := key_end ws1 name ws2 v ws3 (a + length (pre_text pre)) in
      flush off w ++ entity_entry a pre ws1 name ws2 v ws3 :: ents e 0 rest
  | BPE d :: rest =>
      let a := off + w in
      flush off w ++ pe_entry a d :: ents (a + length (pe_text d)) 0 rest
  end.

Definition entries_of (bs : list block) : list entry := ents 0 0 bs.

(* with a byte order mark in front *)
Definition file_text_bom (mark : bool) (bs : list block) : str :=
  (if mark then [bom] else []) ++ file_text bs.
Definition entries_of_bom (mark : bool) (bs : list block) : list entry :=
  if mark then match bs with [] => [mk_junk (1, 1)] | _ => ents 1 0 bs end else ents 0 0 bs.
Definition adjacent_ok_bom (mark : bool) (bs : list block) : Prop :=
  separatedb bs && license_okb (if mark then 1 else 0) bs = true.

(* ---- sanity: the statement on concrete files, by evaluation --------------------------------- *)
Definition A (l : list nat) : str := map N.of_nat l.
(*  <!ENTITY a "b">  *)
Definition ex_e1 : block := BEntity None (A [32]) (A [97]) (A [32]) 34%N (A [98]) [].
(*  <!-- c - d -->\n<!ENTITY  foo.bar\n'xD<y>&%z;'\t>   where D is a double quote  *)
Definition ex_e2 : block :=
  BEntity (Some (A [32; 99; 32; 45; 32; 100; 32], A [10])) (A [32; 32]) (A [102; 111; 111; 46; 98; 97; 114])
          (A [10]) 39%N (A [120; 34; 60; 121; 62; 38; 37; 122; 59]) (A [9]).
(*  <!---x-y--><!ENTITY _ "">   the comment directly in front  *)
Definition ex_e3 : block := BEntity (Some (A [45; 120; 45; 121], [])) (A [9]) (A [95]) (A [13; 10]) 34%N [] [].
Definition ex_c : block := BComment (A [32; 115; 116; 97; 110; 100; 32]).
Definition ex_c0 : block := BComment [].
Definition ex_b : block := BBlank (A [10]).
Definition ex_b2 : block := BBlank (A [32; 10; 9; 10]).

Example ex_dtd_blocks : let bs := [ex_e1; ex_b; ex_e2; ex_b2; ex_c; ex_b2; ex_e1] in
  Forall legal_block bs /\ adjacent_ok bs /\ walk_dtd (file_text bs) = Ok (entries_of bs) /\
  map (fun e => (e_kind e, e_span e, e_key e, e_val e, e_pre e, e_white e)) (entries_of bs) =
  [(KEntity, (0, 15), Some (9, 10), Some (12, 13), None, None);
   (KWhitespace, (15, 16), Some (15, 16), Some (15, 16), None, None);
   (KEntity, (31, 62), Some (41, 48), Some (50, 59), Some (16, 30), Some (30, 31));
   (KWhitespace, (62, 66), Some (62, 66), Some (62, 66), None, None);
   (KComment, (66, 80), None, None, None, None);
   (KWhitespace, (80, 84), Some (80, 84), Some (80, 84), None, None);
   (KEntity, (84, 99), Some (93, 94), Some (96, 97), None, None)].
Proof. split; [repeat constructor|]. split; [vm_compute; reflexivity|]. split; vm_compute; reflexivity. Qed.

Example ex_dtd_all_kinds :
  let bs := [ex_b; ex_b2; ex_c; ex_c0; ex_b; ex_e3; ex_e2; ex_c; ex_e2; ex_b; ex_b; ex_c; ex_b; ex_c0] in
  Forall legal_block bs /\ adjacent_ok bs /\ walk_dtd (file_text bs) = Ok (entries_of bs).
Proof. split; [repeat constructor|]. split; vm_compute; reflexivity. Qed.

(* separation is needed: a comment, ONE line break, a bare declaration is an attached comment *)
Example ex_dtd_separation_needed : let bs := [ex_c; ex_b; ex_e1] in
  Forall legal_block bs /\ adjacent_okb bs = false /\ walk_dtd (file_text bs) <> Ok (entries_of bs) /\
  adjacent_ok [ex_c; ex_b; ex_b; ex_e1] /\ adjacent_ok [ex_c; ex_b; ex_c; ex_e3] /\
  adjacent_okb [ex_c; ex_e1] = false.
Proof.
  split; [repeat constructor|]. split; [vm_compute; reflexivity|]. split; [vm_compute; discriminate|].
  repeat split; vm_compute; reflexivity.
Qed.

(* the License rule at offset 0 and at offset 1; from offset 2 on it does not apply *)
Definition ex_lic : block := BEntity (Some (32%N :: s_License, [])) (A [32]) (A [97]) (A [32]) 34%N [] [].
Example ex_dtd_license_needed :
  Forall legal_block [BBlank (A [32]); BBlank (A [32]); ex_lic] /\
  adjacent_okb [ex_lic] = false /\ walk_dtd (file_text [ex_lic]) <> Ok (entries_of [ex_lic]) /\
  adjacent_okb [BBlank (A [32]); ex_lic] = false /\
  walk_dtd (file_text [BBlank (A [32]); ex_lic]) <> Ok (entries_of [BBlank (A [32]); ex_lic]) /\
  adjacent_ok [BBlank (A [32]); BBlank (A [32]); ex_lic] /\
  walk_dtd (file_text [BBlank (A [32]); BBlank (A [32]); ex_lic]) =
    Ok (entries_of [BBlank (A [32]); BBlank (A [32]); ex_lic]).
Proof.
  split; [repeat constructor|]. split; [vm_compute; reflexivity|]. split; [vm_compute; discriminate|].
  split; [vm_compute; reflexivity|]. split; [vm_compute; discriminate|]. split; vm_compute; reflexivity.
Qed.

(* the byte order mark *)
Example ex_dtd_bom : let bs := [ex_e2; ex_b; ex_c] in
  Forall legal_block bs /\ adjacent_ok_bom true bs /\
  walk_dtd (file_text_bom true bs) = Ok (entries_of_bom true bs) /\
  walk_dtd (file_text_bom true []) = Ok [mk_junk (1, 1)] /\
  map (fun e => (e_kind e, e_span e)) (entries_of_bom true bs) =
  [(KEntity, (16, 47)); (KWhitespace, (47, 48)); (KComment, (48, 62))].
Proof.
  split; [repeat constructor|]. split; [vm_compute; reflexivity|]. split; [vm_compute; reflexivity|].
  split; vm_compute; reflexivity.
Qed.

(* parameter entities:  <!ENTITY % brand SYSTEM "u">\n%brand;\n  (the line feed belongs to it) *)
Definition ex_pe1 : block :=
  BPE (mkpe (A [32]) (A [32]) (A [98; 114; 97; 110; 100]) (A [32]) (A [32]) 34%N (A [117]) [] (A [10])
            (A [98; 114; 97; 110; 100]) [] [] true).
(*  <!ENTITY\t%\nx SYSTEM\n'' >%y; \t<!-- c -->\n <!---->   the reference need not name the
    declared entity; blanks, two comments and the whitespace between them are swallowed  *)
Definition ex_pe2 : block :=
  BPE (mkpe (A [9]) (A [10]) (A [120]) (A [32]) (A [10]) 39%N [] (A [32]) [] (A [121]) (A [32; 9])
            [(A [32; 99; 32], A [10; 32]); ([], [])] false).
(*  <!ENTITY % z SYSTEM "u">%z;   nothing swallowed  *)
Definition ex_pe3 : block :=
  BPE (mkpe (A [32]) (A [32]) (A [122]) (A [32]) (A [32]) 34%N (A [117]) [] [] (A [122]) [] [] false).

Example ex_dtd_pe :
  let bs := [ex_c; ex_b; ex_pe1; ex_b; ex_pe2; ex_e1; ex_pe3; BBlank (A [13; 10]); ex_e2; ex_pe3] in
  Forall legal_block bs /\ adjacent_ok bs /\ walk_dtd (file_text bs) = Ok (entries_of bs) /\
  map (fun e => (e_kind e, e_span e, e_key e, e_val e)) (entries_of bs) =
  [(KComment, (0, 14), None, None); (KWhitespace, (14, 15), Some (14, 15), Some (14, 15));
   (KEntity, (15, 52), Some (26, 31), Some (39, 42));
   (KWhitespace, (52, 53), Some (52, 53), Some (52, 53));
   (KEntity, (53, 101), Some (64, 65), Some (73, 75));
   (KEntity, (101, 116), Some (110, 111), Some (113, 114));
   (KEntity, (116, 143), Some (127, 128), Some (136, 139));
   (KWhitespace, (143, 145), Some (143, 145), Some (143, 145));
   (KEntity, (160, 191), Some (170, 177), Some (179, 188));
   (KEntity, (191, 218), Some (202, 203), Some (211, 214))].
Proof. split; [repeat constructor|]. split; [vm_compute; reflexivity|]. split; vm_compute; reflexivity. Qed.

(* the separation after a parameter entity is needed: a line feed, a blank or a comment
   after the reference would be swallowed; a carriage return is not *)
Example ex_dtd_pe_separation_needed :
  Forall legal_block [ex_pe3; ex_b] /\ adjacent_okb [ex_pe3; ex_b] = false /\
  walk_dtd (file_text [ex_pe3; ex_b]) <> Ok (entries_of [ex_pe3; ex_b]) /\
  adjacent_okb [ex_pe3; ex_c] = false /\
  walk_dtd (file_text [ex_pe3; ex_c]) <> Ok (entries_of [ex_pe3; ex_c]) /\
  adjacent_okb [ex_pe2; ex_b] = false /\ adjacent_ok [ex_pe1; ex_b; ex_c] /\
  adjacent_ok [ex_pe3; BBlank (A [13; 10])].
Proof.
  split; [repeat constructor|]. split; [vm_compute; reflexivity|]. split; [vm_compute; discriminate|].
  split; [vm_compute; reflexivity|]. split; [vm_compute; discriminate|].
  repeat split; vm_compute; reflexivity.
Qed.

(* ---- Parser.getNext for the DTD format, case by case ------------------------------------------ *)
Definition the_fmt : fmt := fmt_dtd rx_dtd_comment rx_dtd_ws rx_dtd_key g_dtd_key_key g_dtd_key_val.
Definition gnb : str -> nat -> entry := get_next_base the_fmt.

Definition dtd_entity (k : mres) (c w : option span) : entry :=
  mkentry KEntity (mspan k) (group g_dtd_key_key k)
    (match group g_dtd_key_val k with Some (a, b) => Some (a + 1, b - 1) | None => None end) c w.

Definition license_at (s : str) (off : nat) (x : mres) : bool :=
  (off <? 2) && contains s_License (comment_val CDtd (slice s (m_start x) (m_end x))).

Lemma gnb_white : forall s off w,
  omatch rx_dtd_comment s off = None -> omatch rx_dtd_ws s off = Some w ->
  gnb s off = mk_white (mspan w).
Proof.
  intros s off w Hc Hw. unfold gnb, get_next_base, the_fmt, fmt_dtd.
  cbn [f_comment f_ws f_key f_cstyle f_license_below f_create f_junk]. rewrite Hc, Hw. reflexivity.
Qed.

Lemma gnb_bare : forall s off k,
  omatch rx_dtd_comment s off = None -> omatch rx_dtd_ws s off = None ->
  omatch rx_dtd_key s off = Some k ->
  gnb s off = dtd_entity k None None.
Proof.
  intros s off k Hc Hw Hk. unfold gnb, get_next_base, the_fmt, fmt_dtd.
  cbn [f_comment f_ws f_key f_cstyle f_license_below f_create f_junk]. rewrite Hc, Hw, Hk. reflexivity.
Qed.

Lemma gnb_license : forall s off x,
  omatch rx_dtd_comment s off = Some x -> license_at s off x = true ->
  gnb s off = mk_comment (mspan x).
Proof.
  intros s off x Hc Hl. unfold gnb, get_next_base, the_fmt, fmt_dtd.
  cbn [f_comment f_ws f_key f_cstyle f_license_below f_create f_junk]. rewrite Hc.
  unfold license_at in Hl. rewrite Hl. reflexivity.
Qed.

Lemma gnb_comment_alone : forall s off x w,
  omatch rx_dtd_comment s off = Some x -> license_at s off x = false ->
  omatch rx_dtd_ws s (m_end x) = Some w ->
  (1 <? count_char 10%N (slice s (m_start w) (m_end w))) = true ->
  gnb s off = mk_comment (mspan x).
Proof.
  intros s off x w Hc Hl Hw Hn. unfold gnb, get_next_base, the_fmt, fmt_dtd.
  cbn [f_comment f_ws f_key f_cstyle f_license_below f_create f_junk]. rewrite Hc.
  unfold license_at in Hl. rewrite Hl, Hw, Hn. reflexivity.
Qed.

(* a comment, then whitespace with at most one line break, then the key expression *)
Lemma gnb_comment_ws_key : forall s off x w,
  omatch rx_dtd_comment s off = Some x -> license_at s off x = false ->
  omatch rx_dtd_ws s (m_end x) = Some w ->
  (1 <? count_char 10%N (slice s (m_start w) (m_end w))) = false ->
  gnb s off = match omatch rx_dtd_key s (m_end w) with
              | Some k => dtd_entity k (Some (mspan x)) (Some (mspan w))
              | None => mk_comment (mspan x)
              end.
Proof.
  intros s off x w Hc Hl Hw Hn. unfold gnb, get_next_base, the_fmt, fmt_dtd.
  cbn [f_comment f_ws f_key f_cstyle f_license_below f_create f_junk]. rewrite Hc.
  unfold license_at in Hl. rewrite Hl, Hw, Hn.
  destruct (omatch rx_dtd_key s (m_end w)); reflexivity.
Qed.

(* a comment directly in front of what the key expression is tried on *)
Lemma gnb_comment_key : forall s off x,
  omatch rx_dtd_comment s off = Some x -> license_at s off x = false ->
  omatch rx_dtd_ws s (m_end x) = None ->
  gnb s off = match omatch rx_dtd_key s (m_end x) with
              | Some k => dtd_entity k (Some (mspan x)) None
              | None => mk_comment (mspan x)
              end.
Proof.
  intros s off x Hc Hl Hw. unfold gnb, get_next_base, the_fmt, fmt_dtd.
  cbn [f_comment f_ws f_key f_cstyle f_license_below f_create f_junk]. rewrite Hc.
  unfold license_at in Hl. rewrite Hl, Hw.
  destruct (omatch rx_dtd_key s (m_end x)); reflexivity.
Qed.

(* DTDParser.getNext: the mark is skipped at offset 0 only; the parsed-entity expression is
   tried only when Parser.getNext reports Junk *)
Lemma gn_dtd_base : forall (a rest : str),
  (a = [] -> head_is (N.eqb bom) rest = false) ->
  e_kind (gnb (a ++ rest) (length a)) <> KJunk ->
  gn_dtd (a ++ rest) (length a) = gnb (a ++ rest) (length a).
Proof.
  intros a rest Hb Hk. unfold gn_dtd, get_next_dtd.
  assert (E : (Nat.eqb (length a) 0 &&
               match omatch rx_dtd_header (a ++ rest) 0 with Some _ => true | None => false end) = false).
  { destruct a as [|c a']; [|reflexivity]. rewrite header_at0. cbn [app]. rewrite Hb by reflexivity.
    reflexivity. }
  rewrite E. fold the_fmt. fold gnb. destruct (e_kind (gnb (a ++ rest) (length a))); try reflexivity.
  contradiction.
Qed.

(* Parser.getNext reports Junk where neither a comment, nor whitespace, nor a declaration
   starts; DTDParser.getNext then tries the parameter-entity expression there *)
Lemma gnb_junk_kind : forall s off,
  omatch rx_dtd_comment s off = None -> omatch rx_dtd_ws s off = None ->
  omatch rx_dtd_key s off = None -> e_kind (gnb s off) = KJunk.
Proof.
  intros s off Hc Hw Hk. unfold gnb, get_next_base, the_fmt, fmt_dtd.
  cbn [f_comment f_ws f_key f_cstyle f_license_below f_create f_junk]. rewrite Hc, Hw, Hk. reflexivity.
Qed.

Lemma gn_dtd_junk : forall (a rest : str),
  (a = [] -> head_is (N.eqb bom) rest = false) ->
  e_kind (gnb (a ++ rest) (length a)) = KJunk ->
  gn_dtd (a ++ rest) (length a) =
  match omatch rx_dtd_pe (a ++ rest) (length a) with
  | Some x => mkentry KEntity (mspan x) (group g_dtd_pe_key x) (group g_dtd_pe_val x) None None
  | None => gnb (a ++ rest) (length a)
  end.
Proof.
  intros a rest Hb Hk. unfold gn_dtd, get_next_dtd.
  assert (E : (Nat.eqb (length a) 0 &&
               match omatch rx_dtd_header (a ++ rest) 0 with Some _ => true | None => false end) = false).
  { destruct a as [|c a']; [|reflexivity]. rewrite header_at0. cbn [app]. rewrite Hb by reflexivity.
    reflexivity. }
  rewrite E. fold the_fmt. fold gnb. rewrite Hk. reflexivity.
Qed.

Lemma gn_dtd_mark : forall s, head_is (N.eqb bom) s = true -> gn_dtd s 0 = gn_dtd s 1.
Proof.
  intros s H. unfold gn_dtd, get_next_dtd. rewrite header_at0, H. reflexivity.
Qed.

(* ---- small facts -------------------------------------------------------------------------------- *)
Ltac norm_app := repeat (progress (rewrite <- ?app_assoc; cbn [app])).

Lemma ws_head_facts : forall x y, x <> [] -> is_ws x = true ->
  starts_with COPEN (x ++ y) = false /\ head_is (N.eqb bom) (x ++ y) = false /\
  starts_with ENT (x ++ y) = false.
Proof.
  intros [|c x] y Hne H; [contradiction|]. cbn [is_ws forallb] in H. apply andb_true_iff in H.
  destruct H as [H _]. apply mem_in in H. simpl in H.
  destruct H as [<-|[<-|[<-|[<-|[]]]]]; repeat split; reflexivity.
Qed.

Lemma lt_head_facts : forall y,
  head_is (N.eqb bom) (60%N :: y) = false /\ head_is (fun c => mem c WS) (60%N :: y) = false.
Proof. intros y. split; reflexivity. Qed.

Lemma decl_text_app : forall ws1 name ws2 q v ws3 T,
  decl_text ws1 name ws2 q v ws3 ++ T = ENT ++ ws1 ++ name ++ ws2 ++ q :: v ++ q :: ws3 ++ 62%N :: T.
Proof. intros. unfold decl_text. norm_app. reflexivity. Qed.

Lemma decl_text_length : forall ws1 name ws2 q v ws3 p,
  p + length (decl_text ws1 name ws2 q v ws3) = key_end ws1 name ws2 v ws3 p.
Proof.
  intros. unfold decl_text, key_end, ENT. rewrite !app_length. cbn [length]. rewrite !app_length.
  cbn [length]. rewrite !app_length. cbn [length]. lia.
Qed.

Lemma decl_head : forall ws1 name ws2 q v ws3 T, exists y,
  decl_text ws1 name ws2 q v ws3 ++ T = 60%N :: 33%N :: 69%N :: y.
Proof. intros. rewrite decl_text_app. eexists. reflexivity. Qed.

Lemma comment_head : forall body T, exists y, comment_text body ++ T = 60%N :: 33%N :: 45%N :: 45%N :: y.
Proof. intros. unfold comment_text, COPEN. norm_app. eexists. reflexivity. Qed.

Lemma dtd_entity_caps : forall p e a b c d cc ww,
  dtd_entity (mkres p e [(2, (a, b)); (1, (c, d))]) cc ww =
  mkentry KEntity (p, e) (Some (c, d)) (Some (a + 1, b - 1)) cc ww.
Proof. reflexivity. Qed.

Lemma mkentry_eq : forall k s1 s2 k1 k2 v1 v2 c1 c2 w1 w2,
  s1 = s2 -> k1 = k2 -> v1 = v2 -> c1 = c2 -> w1 = w2 ->
  mkentry k s1 k1 v1 c1 w1 = mkentry k s2 k2 v2 c2 w2.
Proof. intros; subst; reflexivity. Qed.

Lemma pair_eq : forall a b a' b' : nat, a = a' -> b = b' -> (a, b) = (a', b').
Proof. intros; subst; reflexivity. Qed.
Lemma some_pair_eq : forall a b a' b' : nat, a = a' -> b = b' -> Some (a, b) = Some (a', b').
Proof. intros; subst; reflexivity. Qed.

Lemma count_char_app : forall c (x y : str), count_char c (x ++ y) = count_char c x + count_char c y.
Proof. intros. unfold count_char. rewrite filter_app, app_length. reflexivity. Qed.

(* ---- step: whitespace -------------------------------------------------------------------------- *)
Lemma gn_white : forall (a x y : str),
  x <> [] -> is_ws x = true -> head_is (fun c => mem c WS) y = false ->
  gn_dtd (a ++ x ++ y) (length a) = mk_white (length a, length a + length x).
Proof.
  intros a x y Hne Hx Hy. destruct (ws_head_facts x y Hne Hx) as [F1 [F2 F3]].
  assert (G : gnb (a ++ x ++ y) (length a) = mk_white (length a, length a + length x)).
  { rewrite (gnb_white _ _ (mkres (length a) (length a + length x) [])); [reflexivity| |].
    - apply omatch_comment_none. exact F1.
    - apply omatch_dtd_ws_run; auto. }
  rewrite gn_dtd_base; [exact G|intros _; exact F2|rewrite G; discriminate].
Qed.

(* ---- step: a standalone comment ----------------------------------------------------------------- *)
Lemma gn_comment : forall (a : str) body W Y,
  legal_cbody body = true -> is_ws W = true -> head_is (fun c => mem c WS) Y = false ->
  (2 <= count_char 10%N W \/ forall P : str, omatch rx_dtd_key (P ++ Y) (length P) = None) ->
  gn_dtd (a ++ comment_text body ++ W ++ Y) (length a) =
  mk_comment (length a, length a + length (comment_text body)).
Proof.
  intros a body W Y Hb HW HY Hnext. set (s := a ++ comment_text body ++ W ++ Y).
  set (L := a ++ comment_text body).
  assert (EL : length a + length (comment_text body) = length L) by (unfold L; rewrite app_length; reflexivity).
  destruct (omatch_comment a body (W ++ Y) Hb) as [x [Ec [Hs He]]]. fold s in Ec. rewrite EL in He.
  assert (Hsp : mspan x = (length a, length L)) by (unfold mspan; rewrite Hs, He; reflexivity).
  assert (G : gnb s (length a) = mk_comment (length a, length L)).
  { destruct (license_at s (length a) x) eqn:Lic; [rewrite (gnb_license s _ x Ec Lic), Hsp; reflexivity|].
    assert (Es : s = L ++ W ++ Y) by (unfold s, L; rewrite <- app_assoc; reflexivity).
    destruct W as [|c W'] eqn:EW.
    - (* no whitespace: the key expression is tried directly *)
      destruct Hnext as [Hn|Hn]; [change (count_char 10%N []) with 0 in Hn; lia|].
      assert (Ew : omatch rx_dtd_ws s (m_end x) = None)
        by (rewrite He, Es; apply omatch_dtd_ws_none; exact HY).
      rewrite (gnb_comment_key s _ x Ec Lic Ew), He, Es. cbn [app].
      rewrite Hn. rewrite Hsp. reflexivity.
    - rewrite <- EW in *. assert (Hne : W <> []) by (rewrite EW; discriminate).
      assert (Ew : omatch rx_dtd_ws s (m_end x) = Some (mkres (length L) (length L + length W) []))
        by (rewrite He, Es; apply omatch_dtd_ws_run; auto).
      assert (Esl : slice s (length L) (length L + length W) = W) by (rewrite Es; apply slice_mid).
      destruct (1 <? count_char 10%N W) eqn:Ect.
      + rewrite (gnb_comment_alone s _ x _ Ec Lic Ew); [rewrite Hsp; reflexivity|].
        cbn [m_start m_end]. rewrite Esl. exact Ect.
      + destruct Hnext as [Hn|Hn]; [apply Nat.ltb_ge in Ect; lia|].
        rewrite (gnb_comment_ws_key s _ x _ Ec Lic Ew); [|cbn [m_start m_end]; rewrite Esl; exact Ect].
        cbn [m_end]. assert (Es2 : s = (L ++ W) ++ Y) by (rewrite Es, <- app_assoc; reflexivity).
        rewrite <- app_length, Es2, Hn. rewrite Hsp. reflexivity. }
  destruct (comment_head body (W ++ Y)) as [y Ey].
  unfold s. rewrite gn_dtd_base; fold s.
  - rewrite G, EL. reflexivity.
  - intros _. rewrite Ey. reflexivity.
  - rewrite G. discriminate.
Qed.

(* ---- step: an entity declaration with its attached comment ------------------------------------- *)
Lemma legal_decl_facts : forall ws1 name ws2 q v ws3, legal_decl ws1 name ws2 q v ws3 = true ->
  ws1 <> [] /\ is_ws ws1 = true /\ legal_name name = true /\ ws2 <> [] /\ is_ws ws2 = true /\
  legal_qval q v = true /\ is_ws ws3 = true.
Proof.
  intros ws1 name ws2 q v ws3 H. unfold legal_decl in H.
  repeat (apply andb_true_iff in H; let H' := fresh "H" in destruct H as [H H']).
  repeat split; auto.
  - intro E. subst ws1. discriminate.
  - intro E. subst ws2. discriminate.
Qed.

Lemma gn_entity : forall (a : str) pre ws1 name ws2 q v ws3 T,
  legal_pre pre = true -> legal_decl ws1 name ws2 q v ws3 = true ->
  (forall body iw, pre = Some (body, iw) -> (length a <? 2) && contains s_License body = false) ->
  gn_dtd (a ++ pre_text pre ++ decl_text ws1 name ws2 q v ws3 ++ T) (length a) =
  entity_entry (length a) pre ws1 name ws2 v ws3.
Proof.
  intros a pre ws1 name ws2 q v ws3 T Hpre Hdecl Hlic.
  destruct (legal_decl_facts _ _ _ _ _ _ Hdecl) as [N1 [W1 [Hn [N2 [W2 [Hq W3]]]]]].
  set (D := decl_text ws1 name ws2 q v ws3 ++ T).
  assert (ED : D = ENT ++ ws1 ++ name ++ ws2 ++ q :: v ++ q :: ws3 ++ 62%N :: T) by apply decl_text_app.
  assert (HD1 : starts_with COPEN D = false) by (rewrite ED; reflexivity).
  assert (HD2 : head_is (fun c => mem c WS) D = false) by (rewrite ED; reflexivity).
  assert (Hkey : forall P : str, omatch rx_dtd_key (P ++ D) (length P) =
            Some (mkres (length P) (key_end ws1 name ws2 v ws3 (length P))
              [(2, (length P + 8 + length ws1 + length name + length ws2,
                    length P + 8 + length ws1 + length name + length ws2 + 2 + length v));
               (1, (length P + 8 + length ws1, length P + 8 + length ws1 + length name))])).
  { intros P. rewrite ED. apply omatch_key; auto. }
  set (s := a ++ pre_text pre ++ D).
  assert (G : gnb s (length a) = entity_entry (length a) pre ws1 name ws2 v ws3).
  { destruct pre as [[body iw]|].
    - cbn [legal_pre] in Hpre. apply andb_true_iff in Hpre. destruct Hpre as [Hpre Hcnt].
      apply andb_true_iff in Hpre. destruct Hpre as [Hb Hiw]. apply Nat.leb_le in Hcnt.
      set (L := a ++ comment_text body).
      assert (EL : length a + length (comment_text body) = length L)
        by (unfold L; rewrite app_length; reflexivity).
      assert (Es0 : s = a ++ comment_text body ++ iw ++ D)
        by (unfold s; cbn [pre_text]; rewrite <- app_assoc; reflexivity).
      destruct (omatch_comment a body (iw ++ D) Hb) as [x [Ec [Hs He]]]. rewrite <- Es0 in Ec.
      rewrite EL in He.
      assert (Hsp : mspan x = (length a, length L)) by (unfold mspan; rewrite Hs, He; reflexivity).
      assert (Lic : license_at s (length a) x = false).
      { unfold license_at. rewrite Hs, He, <- EL, Es0, slice_mid, comment_val_dtd.
        apply (Hlic body iw eq_refl). }
      assert (Es : s = L ++ iw ++ D) by (rewrite Es0; unfold L; rewrite <- app_assoc; reflexivity).
      unfold entity_entry. cbn [pre_text]. rewrite app_length, Nat.add_assoc, EL.
      destruct iw as [|c iw'] eqn:Eiw.
      + assert (Ew : omatch rx_dtd_ws s (m_end x) = None)
          by (rewrite He, Es; apply omatch_dtd_ws_none; exact HD2).
        rewrite (gnb_comment_key s _ x Ec Lic Ew), He, Es. cbn [app]. rewrite Hkey, dtd_entity_caps, Hsp.
        cbn [length]. rewrite Nat.add_0_r.
        apply mkentry_eq; try reflexivity. apply some_pair_eq; lia.
      + rewrite <- Eiw in *. assert (Hne : iw <> []) by (rewrite Eiw; discriminate).
        assert (Ew : omatch rx_dtd_ws s (m_end x) = Some (mkres (length L) (length L + length iw) []))
          by (rewrite He, Es; apply omatch_dtd_ws_run; auto).
        assert (Esl : slice s (length L) (length L + length iw) = iw) by (rewrite Es; apply slice_mid).
        assert (Ect : (1 <? count_char 10%N iw) = false) by (apply Nat.ltb_ge; exact Hcnt).
        rewrite (gnb_comment_ws_key s _ x _ Ec Lic Ew); [|cbn [m_start m_end]; rewrite Esl; exact Ect].
        cbn [m_end]. assert (Es2 : s = (L ++ iw) ++ D) by (rewrite Es, <- app_assoc; reflexivity).
        rewrite <- app_length, Es2, Hkey, dtd_entity_caps, Hsp. unfold mspan. cbn [m_start m_end].
        rewrite app_length.
        apply mkentry_eq; try reflexivity. apply some_pair_eq; lia.
    - unfold s. cbn [pre_text app].
      rewrite (gnb_bare _ _ _ (omatch_comment_none a D HD1) (omatch_dtd_ws_none a D HD2) (Hkey a)).
      rewrite dtd_entity_caps. unfold entity_entry. cbn [pre_text length]. rewrite Nat.add_0_r.
      apply mkentry_eq; try reflexivity. apply some_pair_eq; lia. }
  unfold s. rewrite gn_dtd_base; fold s.
  - exact G.
  - intros _. destruct pre as [[body iw]|].
    + cbn [pre_text]. rewrite <- app_assoc. destruct (comment_head body (iw ++ D)) as [y Ey].
      rewrite Ey. reflexivity.
    + cbn [pre_text app]. rewrite ED. reflexivity.
  - rewrite G. discriminate.
Qed.

(* ---- step: a parameter entity ------------------------------------------------------------------- *)
Lemma pe_head : forall d Y, exists y, pe_text d ++ Y = 60%N :: 33%N :: 69%N :: y.
Proof. intros. rewrite pe_text_app. eexists. reflexivity. Qed.

Lemma gn_pe : forall (a : str) d Y, legal_pe d = true -> pe_next_ok d Y = true ->
  gn_dtd (a ++ pe_text d ++ Y) (length a) = pe_entry (length a) d.
Proof.
  intros a d Y Hleg Hnext. destruct (pe_head d Y) as [y Ey].
  assert (Hk : e_kind (gnb (a ++ pe_text d ++ Y) (length a)) = KJunk).
  { apply gnb_junk_kind.
    - apply omatch_comment_none. rewrite Ey. reflexivity.
    - apply omatch_dtd_ws_none. rewrite Ey. reflexivity.
    - apply omatch_key_none_pe. exact Hleg. }
  rewrite gn_dtd_junk; [|intros _; rewrite Ey; reflexivity|exact Hk].
  rewrite omatch_pe by assumption. reflexivity.
Qed.

(* ---- the walk ------------------------------------------------------------------------------------ *)
Lemma walk_step : forall fuel s off es,
  off < length s ->
  walk_loop (stateless gn_dtd) fuel tt s (snd (e_span (gn_dtd s off))) = Ok es ->
  walk_loop (stateless gn_dtd) (S fuel) tt s off = Ok (gn_dtd s off :: es).
Proof.
  intros fuel s off es Hoff H. rewrite walk_loop_S.
  replace (off <? length s) with true by (symmetry; apply Nat.ltb_lt; exact Hoff).
  unfold stateless at 1. rewrite H. reflexivity.
Qed.

(* the invariant: [a] has been consumed, the whitespace [w] is pending *)
Definition stmt (bs : list block) (a w : str) : Prop :=
  license_okb (length a + length w) bs = true ->
  forall fuel, length (a ++ w ++ file_text bs) - length a < fuel ->
  walk_loop (stateless gn_dtd) fuel tt (a ++ w ++ file_text bs) (length a) =
  Ok (ents (length a) (length w) bs).

Definition nonblank_head (bs : list block) : Prop :=
  match bs with BBlank _ :: _ => False | _ => True end.

Lemma ents_flush : forall bs off w, nonblank_head bs ->
  ents off w bs = flush off w ++ ents (off + w) 0 bs.
Proof.
  intros [|[x|body|pre ws1 name ws2 q v ws3|d] rest] off w H; try contradiction; simpl;
    rewrite ?Nat.add_0_r, ?app_nil_r; reflexivity.
Qed.

Lemma file_text_cons : forall b bs, file_text (b :: bs) = text b ++ file_text bs.
Proof. reflexivity. Qed.

Lemma lift_flush : forall bs, nonblank_head bs ->
  head_is (fun c => mem c WS) (file_text bs) = false ->
  (forall a, stmt bs a []) ->
  forall a w, is_ws w = true -> stmt bs a w.
Proof.
  intros bs Hnb Hhead H0 a w Hw Hlic fuel Hf.
  destruct w as [|c w'] eqn:Ew; [apply (H0 a); auto|]. rewrite <- Ew in *.
  assert (Hne : w <> []) by (rewrite Ew; discriminate).
  destruct fuel as [|f]; [lia|].
  rewrite ents_flush by exact Hnb.
  assert (Efl : flush (length a) (length w) = [mk_white (length a, length a + length w)])
    by (rewrite Ew; reflexivity).
  rewrite Efl. simpl app.
  pose proof (gn_white a w (file_text bs) Hne Hw Hhead) as G.
  rewrite <- G. apply walk_step.
  - rewrite !app_length. rewrite Ew. simpl. lia.
  - rewrite G. cbn [mk_white e_span snd].
    assert (Hs : a ++ w ++ file_text bs = (a ++ w) ++ [] ++ file_text bs)
      by (rewrite <- app_assoc; reflexivity).
    rewrite Hs, <- app_length. apply (H0 (a ++ w)).
    + cbn [length]. rewrite Nat.add_0_r, app_length. exact Hlic.
    + rewrite <- Hs. rewrite !app_length in *. rewrite Ew in *. simpl in *. lia.
Qed.

(* from offset 2 on the License rule does not apply *)
Lemma license_ok_far : forall bs off, 2 <= off -> license_okb off bs = true.
Proof.
  induction bs as [|[x|body|[[body iw]|] ws1 name ws2 q v ws3|d] rest IH]; intros off H; try reflexivity.
  - cbn [license_okb]. apply IH. lia.
  - cbn [license_okb]. replace (off <? 2) with false by (symmetry; apply Nat.ltb_ge; exact H). reflexivity.
Qed.

(* the whitespace blocks at the head of the rest *)
Lemma file_text_lead : forall bs, file_text bs = lead_ws bs ++ file_text (drop_ws bs).
Proof.
  induction bs as [|[x|body|pre ws1 name ws2 q v ws3|d] rest IH]; try reflexivity.
  rewrite file_text_cons. cbn [text lead_ws drop_ws]. rewrite IH, app_assoc. reflexivity.
Qed.

Lemma lead_ws_is_ws : forall bs, Forall legal_block bs -> is_ws (lead_ws bs) = true.
Proof.
  induction bs as [|[x|body|pre ws1 name ws2 q v ws3|d] rest IH]; intros H; try reflexivity.
  inversion H as [|b' r' Hb Hr]; subst. cbn [lead_ws]. unfold is_ws. rewrite forallb_app.
  unfold legal_block in Hb. cbn [legal_blockb] in Hb. apply andb_true_iff in Hb.
  destruct Hb as [_ Hb]. unfold is_ws in Hb. rewrite Hb. apply IH. exact Hr.
Qed.

Lemma drop_ws_legal : forall bs, Forall legal_block bs -> Forall legal_block (drop_ws bs).
Proof.
  induction bs as [|[x|body|pre ws1 name ws2 q v ws3|d] rest IH]; intros H; try exact H.
  inversion H; subst. cbn [drop_ws]. apply IH. assumption.
Qed.

Lemma drop_ws_nonblank : forall bs, nonblank_head (drop_ws bs).
Proof. induction bs as [|[x|body|pre ws1 name ws2 q v ws3|d] rest IH]; simpl; auto. Qed.

(* a block that is not whitespace starts with < *)
Lemma nonblank_text_head : forall bs, Forall legal_block bs -> nonblank_head bs ->
  bs = [] \/ exists y, file_text bs = 60%N :: y.
Proof.
  intros [|[x|body|pre ws1 name ws2 q v ws3|d] rest] Hleg Hnb; [left; reflexivity|contradiction| | |]; right.
  - rewrite file_text_cons. cbn [text]. destruct (comment_head body (file_text rest)) as [y Ey].
    rewrite Ey. eexists. reflexivity.
  - rewrite file_text_cons. cbn [text]. destruct pre as [[body iw]|].
    + cbn [pre_text]. rewrite <- !app_assoc.
      destruct (comment_head body (iw ++ decl_text ws1 name ws2 q v ws3 ++ file_text rest)) as [y Ey].
      rewrite Ey. eexists. reflexivity.
    + cbn [pre_text app]. destruct (decl_head ws1 name ws2 q v ws3 (file_text rest)) as [y Ey].
      rewrite Ey. eexists. reflexivity.
  - rewrite file_text_cons. cbn [text]. destruct (pe_head d (file_text rest)) as [y Ey].
    rewrite Ey. eexists. reflexivity.
Qed.

Lemma nonblank_head_ws : forall bs, Forall legal_block bs -> nonblank_head bs ->
  head_is (fun c => mem c WS) (file_text bs) = false.
Proof.
  intros bs H1 H2. destruct (nonblank_text_head bs H1 H2) as [->|[y ->]]; reflexivity.
Qed.

(* what follows a standalone comment and its whitespace is not a declaration: the key
   expression fails there *)
Lemma not_bare_no_key : forall bs, Forall legal_block bs -> nonblank_head bs ->
  bare_entity_head bs = false ->
  forall P : str, omatch rx_dtd_key (P ++ file_text bs) (length P) = None.
Proof.
  intros [|[x|body|pre ws1 name ws2 q v ws3|d] rest] Hleg Hnb Hbare P; [|contradiction| | |].
  - apply omatch_key_none. reflexivity.
  - apply omatch_key_none. rewrite file_text_cons. cbn [text].
    destruct (comment_head body (file_text rest)) as [y Ey]. rewrite Ey. reflexivity.
  - destruct pre as [[body iw]|]; [|discriminate]. apply omatch_key_none.
    rewrite file_text_cons. cbn [text pre_text]. rewrite <- !app_assoc.
    destruct (comment_head body (iw ++ decl_text ws1 name ws2 q v ws3 ++ file_text rest)) as [y Ey].
    rewrite Ey. reflexivity.
  - rewrite file_text_cons. cbn [text]. apply omatch_key_none_pe.
    inversion Hleg as [|b' r' Hb _]; subst. exact Hb.
Qed.

Lemma text_nonempty : forall b, legal_block b -> 1 <= length (text b).
Proof.
  intros [x|body|pre ws1 name ws2 q v ws3|d] H; cbn [text].
  - unfold legal_block in H. cbn [legal_blockb] in H. apply andb_true_iff in H. destruct H as [H _].
    destruct x; [discriminate|simpl; lia].
  - rewrite comment_text_length. lia.
  - rewrite app_length. unfold decl_text, ENT. rewrite app_length. simpl. lia.
  - rewrite pe_text_length. lia.
Qed.

Lemma walk_ents : forall bs, Forall legal_block bs -> separatedb bs = true ->
  forall a w, is_ws w = true -> stmt bs a w.
Proof.
  induction bs as [|b rest IH]; intros Hleg Hsep.
  - apply lift_flush; [exact I|reflexivity|].
    intros a _ fuel Hf. simpl. apply walk_loop_done. rewrite !app_length. simpl. lia.
  - inversion Hleg as [|b' rest' Hb Hrest]; subst b' rest'.
    destruct b as [x|body|pre ws1 name ws2 q v ws3|d].
    + (* whitespace: joins what is pending *)
      intros a w Hw Hlic fuel Hf. simpl in Hsep.
      unfold legal_block in Hb. cbn [legal_blockb] in Hb. apply andb_true_iff in Hb. destruct Hb as [Hx1 Hx2].
      assert (Hs : a ++ w ++ file_text (BBlank x :: rest) = a ++ (w ++ x) ++ file_text rest).
      { rewrite file_text_cons. simpl text. rewrite <- app_assoc. reflexivity. }
      simpl ents. rewrite Hs in *. rewrite <- app_length. apply (IH Hrest Hsep); auto.
      * unfold is_ws in *. rewrite forallb_app, Hw, Hx2. reflexivity.
      * cbn [license_okb] in Hlic. rewrite app_length, Nat.add_assoc. exact Hlic.
    + (* a standalone comment *)
      unfold legal_block in Hb. cbn [legal_blockb] in Hb.
      simpl in Hsep. apply andb_true_iff in Hsep. destruct Hsep as [Hnext Hsep].
      assert (Hhd : head_is (fun c => mem c WS) (file_text (BComment body :: rest)) = false).
      { rewrite file_text_cons. cbn [text]. destruct (comment_head body (file_text rest)) as [y Ey].
        rewrite Ey. reflexivity. }
      apply lift_flush; [exact I|exact Hhd|].
      intros a _ fuel Hf. destruct fuel as [|f]; [lia|].
      rewrite file_text_cons in *. cbn [text] in *. cbn [app] in *.
      set (W := lead_ws rest). set (Y := file_text (drop_ws rest)).
      assert (Er : file_text rest = W ++ Y) by apply file_text_lead.
      assert (HW : is_ws W = true) by (apply lead_ws_is_ws; exact Hrest).
      assert (HY : head_is (fun c => mem c WS) Y = false).
      { apply nonblank_head_ws; [apply drop_ws_legal; exact Hrest|apply drop_ws_nonblank]. }
      assert (Hn : 2 <= count_char 10%N W \/
                   forall P : str, omatch rx_dtd_key (P ++ Y) (length P) = None).
      { unfold comment_next_ok in Hnext. apply orb_true_iff in Hnext. destruct Hnext as [H|H].
        - left. apply Nat.leb_le. exact H.
        - right. apply not_bare_no_key; [apply drop_ws_legal; exact Hrest|apply drop_ws_nonblank|].
          apply negb_true_iff. exact H. }
      pose proof (gn_comment a body W Y Hb HW HY Hn) as G. rewrite <- Er in G.
      cbn [length ents flush app]. rewrite !Nat.add_0_r. rewrite <- G. apply walk_step.
      * rewrite !app_length, comment_text_length. lia.
      * rewrite G. cbn [mk_comment e_span snd].
        assert (Hs : a ++ comment_text body ++ file_text rest =
                     (a ++ comment_text body) ++ [] ++ file_text rest)
          by (rewrite <- app_assoc; reflexivity).
        rewrite Hs, <- app_length. change 0 with (length (@nil N)).
        apply (IH Hrest Hsep); [reflexivity| |].
        -- apply license_ok_far. rewrite app_length, comment_text_length. lia.
        -- rewrite <- Hs. rewrite !app_length, comment_text_length in *. lia.
    + (* an entity declaration *)
      unfold legal_block in Hb. cbn [legal_blockb] in Hb. apply andb_true_iff in Hb.
      destruct Hb as [Hpre Hdecl]. simpl in Hsep.
      assert (Hhd : head_is (fun c => mem c WS)
                      (file_text (BEntity pre ws1 name ws2 q v ws3 :: rest)) = false).
      { apply nonblank_head_ws; [exact Hleg|exact I]. }
      apply lift_flush; [exact I|exact Hhd|].
      intros a Hlic fuel Hf. destruct fuel as [|f]; [lia|].
      rewrite file_text_cons in *. cbn [text] in *. cbn [app] in *.
      assert (Hs0 : a ++ (pre_text pre ++ decl_text ws1 name ws2 q v ws3) ++ file_text rest =
                    a ++ pre_text pre ++ decl_text ws1 name ws2 q v ws3 ++ file_text rest)
        by (rewrite <- app_assoc; reflexivity).
      rewrite Hs0 in *.
      assert (Hl : forall body iw, pre = Some (body, iw) ->
                   (length a <? 2) && contains s_License body = false).
      { intros body iw E. subst pre. cbn [license_okb length] in Hlic. rewrite Nat.add_0_r in Hlic.
        apply negb_true_iff in Hlic. exact Hlic. }
      pose proof (gn_entity a pre ws1 name ws2 q v ws3 (file_text rest) Hpre Hdecl Hl) as G.
      cbn [length ents flush app]. rewrite !Nat.add_0_r. rewrite <- G. apply walk_step.
      * rewrite !app_length. pose proof (decl_text_length ws1 name ws2 q v ws3 0) as HL.
        unfold key_end in HL. lia.
      * rewrite G. unfold entity_entry. cbn [e_span snd].
        set (A0 := a ++ pre_text pre ++ decl_text ws1 name ws2 q v ws3).
        assert (Hs2 : a ++ pre_text pre ++ decl_text ws1 name ws2 q v ws3 ++ file_text rest
                      = A0 ++ [] ++ file_text rest) by (unfold A0; norm_app; reflexivity).
        assert (El : key_end ws1 name ws2 v ws3 (length a + length (pre_text pre)) = length A0).
        { unfold A0. rewrite <- (decl_text_length ws1 name ws2 q v ws3), !app_length. lia. }
        rewrite Hs2, El. change 0 with (length (@nil N)).
        apply (IH Hrest Hsep); [reflexivity| |].
        -- apply license_ok_far. rewrite <- El. unfold key_end. cbn [length]. lia.
        -- assert (Hlt : length a < length A0) by (rewrite <- El; unfold key_end; lia).
           rewrite Hs2 in Hf. clear - Hf Hlt. rewrite !app_length in *. simpl in *. lia.
    + (* a parameter entity *)
      unfold legal_block in Hb. cbn [legal_blockb] in Hb.
      simpl in Hsep. apply andb_true_iff in Hsep. destruct Hsep as [Hnext Hsep].
      assert (Hhd : head_is (fun c => mem c WS) (file_text (BPE d :: rest)) = false).
      { apply nonblank_head_ws; [exact Hleg|exact I]. }
      apply lift_flush; [exact I|exact Hhd|].
      intros a _ fuel Hf. destruct fuel as [|f]; [lia|].
      rewrite file_text_cons in *. cbn [text] in *. cbn [app] in *.
      pose proof (gn_pe a d (file_text rest) Hb Hnext) as G.
      pose proof (pe_text_length d) as HL.
      cbn [length ents flush app]. rewrite !Nat.add_0_r. rewrite <- G. apply walk_step.
      * rewrite !app_length. lia.
      * rewrite G. cbn [pe_entry e_span snd].
        assert (Hs : a ++ pe_text d ++ file_text rest = (a ++ pe_text d) ++ [] ++ file_text rest)
          by (rewrite <- app_assoc; reflexivity).
        rewrite Hs, <- app_length. change 0 with (length (@nil N)).
        apply (IH Hrest Hsep); [reflexivity| |].
        -- apply license_ok_far. rewrite app_length. lia.
        -- rewrite <- Hs. rewrite !app_length in *. lia.
Qed.

(* ---- the block theorem ---------------------------------------------------------------------------- *)
Theorem blocks_dtd : forall bs : list block,
  Forall legal_block bs -> adjacent_ok bs ->
  walk_dtd (file_text bs) = Ok (entries_of bs).
Proof.
  intros bs Hleg Hadj. unfold adjacent_ok, adjacent_okb in Hadj. apply andb_true_iff in Hadj.
  destruct Hadj as [Hsep Hlic]. unfold walk_dtd, walk, entries_of.
  apply (walk_ents bs Hleg Hsep [] [] eq_refl Hlic). simpl. lia.
Qed.

(* ---- the byte order mark --------------------------------------------------------------------------- *)
Lemma walk_mark : forall n s, head_is (N.eqb bom) s = true -> 1 < length s ->
  walk_loop (stateless gn_dtd) (S n) tt s 0 = walk_loop (stateless gn_dtd) (S n) tt s 1.
Proof.
  intros n s Hm Hl. rewrite !walk_loop_S.
  replace (0 <? length s) with true by (symmetry; apply Nat.ltb_lt; lia).
  replace (1 <? length s) with true by (symmetry; apply Nat.ltb_lt; lia).
  unfold stateless. rewrite (gn_dtd_mark s Hm). reflexivity.
Qed.

Lemma file_text_nonempty : forall b rest, legal_block b -> 1 <= length (file_text (b :: rest)).
Proof.
  intros b rest H. rewrite file_text_cons, app_length. pose proof (text_nonempty b H). lia.
Qed.

(* a mark in front: DTDParser.getNext skips it at offset 0, every span is one further; the
   file that consists of the mark only gives the zero-width Junk (1, 1) *)
Theorem blocks_dtd_bom : forall (mark : bool) (bs : list block),
  Forall legal_block bs -> adjacent_ok_bom mark bs ->
  walk_dtd (file_text_bom mark bs) = Ok (entries_of_bom mark bs).
Proof.
  intros mark bs Hleg Hadj. unfold adjacent_ok_bom in Hadj. apply andb_true_iff in Hadj.
  destruct Hadj as [Hsep Hlic]. destruct mark.
  - destruct bs as [|b rest]; [vm_compute; reflexivity|].
    unfold entries_of_bom, file_text_bom, walk_dtd, walk.
    inversion Hleg as [|b' r' Hb Hrest]; subst b' r'.
    pose proof (file_text_nonempty b rest Hb) as Hlen.
    rewrite walk_mark; [|reflexivity|rewrite app_length; simpl length; lia].
    apply (walk_ents (b :: rest) Hleg Hsep [bom] [] eq_refl Hlic).
    rewrite !app_length. simpl length. lia.
  - unfold entries_of_bom, file_text_bom, walk_dtd, walk. cbn [app].
    apply (walk_ents bs Hleg Hsep [] [] eq_refl Hlic). simpl. lia.
Qed.

(* ---- the records of a file -------------------------------------------------------------------------- *)
(* name, value between the quotes, text of the attached comment (with <!-- and -->); for a
   parameter entity the value is the quoted text WITH its quotes, as the implementation has it *)
Fixpoint records_of (bs : list block) : list C02Blocks.record :=
  match bs with
  | [] => []
  | BEntity pre _ name _ _ v _ :: rest =>
      (name, v, match pre with Some (body, _) => Some (comment_text body) | None => None end)
      :: records_of rest
  | BPE d :: rest => (pe_name d, pe_q d :: pe_v d ++ [pe_q d], None) :: records_of rest
  | _ :: rest => records_of rest
  end.

Fixpoint comments_of (bs : list block) : list str :=
  match bs with
  | [] => []
  | BComment body :: rest => comment_text body :: comments_of rest
  | _ :: rest => comments_of rest
  end.

Lemma flush_no : forall k off w, k <> KWhitespace -> filter (C02Blocks.is_kind k) (flush off w) = [].
Proof. intros k off [|w] H; [reflexivity|]. destruct k; try reflexivity. contradiction. Qed.

Lemma triple_eq : forall (x x' y y' : str) (z : option str), x = x' -> y = y' -> (x, y, z) = (x', y', z).
Proof. intros; subst; reflexivity. Qed.

Lemma slice_at : forall (P b c : str) i j, i = length P -> j = length P + length b ->
  slice (P ++ b ++ c) i j = b.
Proof. intros; subst. apply slice_mid. Qed.

Lemma ents_views : forall bs (a w : str),
  let s := a ++ w ++ file_text bs in
  map (C02Blocks.entity_record s)
      (filter (C02Blocks.is_kind KEntity) (ents (length a) (length w) bs)) = records_of bs /\
  map (fun e => C02Blocks.span_text s (e_span e))
      (filter (C02Blocks.is_kind KComment) (ents (length a) (length w) bs)) = comments_of bs /\
  filter (C02Blocks.is_kind KJunk) (ents (length a) (length w) bs) = [].
Proof.
  induction bs as [|b rest IH]; intros a w s.
  - simpl ents. rewrite !flush_no by discriminate. repeat split.
  - destruct b as [x|body|pre ws1 name ws2 q v ws3|d].
    + assert (Hs : s = a ++ (w ++ x) ++ file_text rest).
      { unfold s. rewrite file_text_cons. cbn [text]. rewrite <- app_assoc. reflexivity. }
      simpl ents. rewrite <- app_length, Hs. apply IH.
    + set (A0 := a ++ w ++ comment_text body).
      assert (Hs : s = A0 ++ [] ++ file_text rest).
      { unfold s, A0. rewrite file_text_cons. cbn [text]. norm_app. reflexivity. }
      assert (El : length a + length w + length (comment_text body) = length A0)
        by (unfold A0; rewrite !app_length; lia).
      destruct (IH A0 []) as [I1 [I2 I3]]. rewrite <- Hs in I1, I2.
      change (length (@nil N)) with 0 in I1, I2, I3.
      cbn [ents]. rewrite !filter_app, !flush_no by discriminate. rewrite El.
      cbn [app filter C02Blocks.is_kind mk_comment e_kind map e_span]. rewrite I1, I2, I3.
      split; [reflexivity|split; [|reflexivity]]. cbn [comments_of]. f_equal.
      unfold C02Blocks.span_text. cbn [fst snd]. unfold s. rewrite file_text_cons. cbn [text].
      replace (a ++ w ++ comment_text body ++ file_text rest)
        with ((a ++ w) ++ comment_text body ++ file_text rest) by (norm_app; reflexivity).
      apply slice_at; [rewrite app_length; reflexivity|rewrite <- El, app_length; lia].
    + set (D := decl_text ws1 name ws2 q v ws3).
      set (A0 := a ++ w ++ pre_text pre ++ D).
      assert (Hs : s = A0 ++ [] ++ file_text rest).
      { unfold s, A0, D. rewrite file_text_cons. cbn [text]. norm_app. reflexivity. }
      assert (Ek : length a + length w + length (pre_text pre) = length (a ++ w ++ pre_text pre))
        by (rewrite !app_length; lia).
      assert (El : key_end ws1 name ws2 v ws3 (length a + length w + length (pre_text pre)) = length A0).
      { unfold A0, D. rewrite <- (decl_text_length ws1 name ws2 q v ws3), !app_length. lia. }
      destruct (IH A0 []) as [I1 [I2 I3]]. rewrite <- Hs in I1, I2.
      change (length (@nil N)) with 0 in I1, I2, I3.
      cbn [ents]. rewrite !filter_app, !flush_no by discriminate. rewrite El.
      unfold entity_entry at 1 2 3.
      cbn [app filter C02Blocks.is_kind e_kind map]. rewrite I1, I2, I3.
      split; [|split; reflexivity]. cbn [records_of]. f_equal.
      unfold C02Blocks.entity_record. cbn [e_key e_val e_pre C02Blocks.opt_text].
      unfold C02Blocks.span_text. cbn [fst snd].
      set (K0 := a ++ w ++ pre_text pre) in *.
      assert (S1 : slice s (length a + length w + length (pre_text pre) + 8 + length ws1)
                     (length a + length w + length (pre_text pre) + 8 + length ws1 + length name) = name).
      { unfold s. rewrite file_text_cons. cbn [text]. fold D. unfold D. rewrite <- app_assoc, decl_text_app.
        replace (a ++ w ++ pre_text pre ++ ENT ++ ws1 ++ name ++ ws2 ++ q :: v ++ q :: ws3 ++ 62%N :: file_text rest)
          with ((K0 ++ ENT ++ ws1) ++ name ++ (ws2 ++ q :: v ++ q :: ws3 ++ 62%N :: file_text rest))
          by (unfold K0; norm_app; reflexivity).
        apply slice_at; rewrite !app_length, <- Ek; unfold ENT; simpl length; lia. }
      assert (S2 : slice s (length a + length w + length (pre_text pre) + 8 + length ws1 + length name + length ws2 + 1)
                     (length a + length w + length (pre_text pre) + 8 + length ws1 + length name + length ws2 + 1 + length v) = v).
      { unfold s. rewrite file_text_cons. cbn [text]. fold D. unfold D. rewrite <- app_assoc, decl_text_app.
        replace (a ++ w ++ pre_text pre ++ ENT ++ ws1 ++ name ++ ws2 ++ q :: v ++ q :: ws3 ++ 62%N :: file_text rest)
          with ((K0 ++ ENT ++ ws1 ++ name ++ ws2 ++ [q]) ++ v ++ (q :: ws3 ++ 62%N :: file_text rest))
          by (unfold K0; norm_app; reflexivity).
        apply slice_at; repeat (rewrite ?app_length; cbn [length]); rewrite <- Ek; unfold ENT;
          cbn [length]; lia. }
      rewrite S1, S2. f_equal.
      destruct pre as [[body iw]|]; [|reflexivity].
      cbn [option_map]. f_equal. cbn [fst snd].
      unfold s. rewrite file_text_cons. cbn [text pre_text].
      fold D.
      replace (a ++ w ++ ((comment_text body ++ iw) ++ D) ++ file_text rest)
        with ((a ++ w) ++ comment_text body ++ (iw ++ D ++ file_text rest)) by (norm_app; reflexivity).
      apply slice_at; rewrite app_length; lia.
    + set (A0 := a ++ w ++ pe_text d).
      assert (Hs : s = A0 ++ [] ++ file_text rest).
      { unfold s, A0. rewrite file_text_cons. cbn [text]. norm_app. reflexivity. }
      assert (El : length a + length w + length (pe_text d) = length A0)
        by (unfold A0; rewrite !app_length; lia).
      destruct (IH A0 []) as [I1 [I2 I3]]. rewrite <- Hs in I1, I2.
      change (length (@nil N)) with 0 in I1, I2, I3.
      cbn [ents]. rewrite !filter_app, !flush_no by discriminate. rewrite El.
      unfold pe_entry at 1 2 3.
      cbn [app filter C02Blocks.is_kind e_kind map]. rewrite I1, I2, I3.
      split; [|split; reflexivity]. cbn [records_of]. f_equal.
      unfold C02Blocks.entity_record. cbn [e_key e_val e_pre C02Blocks.opt_text option_map].
      unfold C02Blocks.span_text, pe_val_span, pe_key_span. cbn [fst snd].
      set (K0 := a ++ w) in *.
      assert (Ek : length a + length w = length K0) by (unfold K0; rewrite app_length; reflexivity).
      assert (Es : s = K0 ++ pe_text d ++ file_text rest).
      { unfold s, K0. rewrite file_text_cons. cbn [text]. norm_app. reflexivity. }
      rewrite Es, pe_text_app.
      apply triple_eq.
      * replace (K0 ++ ENT ++ pe_ws1 d ++ 37%N :: pe_ws2 d ++ pe_name d ++ pe_ws3 d ++ SYSTEM ++ pe_ws4 d ++
                 pe_q d :: pe_v d ++ pe_q d :: pe_ws5 d ++ 62%N :: pe_ws6 d ++ 37%N :: pe_ref d ++ 59%N ::
                 (pe_tail_text d ++ file_text rest))
          with ((K0 ++ ENT ++ pe_ws1 d ++ 37%N :: pe_ws2 d) ++ pe_name d ++ (pe_ws3 d ++ SYSTEM ++ pe_ws4 d ++
                 pe_q d :: pe_v d ++ pe_q d :: pe_ws5 d ++ 62%N :: pe_ws6 d ++ 37%N :: pe_ref d ++ 59%N ::
                 (pe_tail_text d ++ file_text rest)))
          by (norm_app; reflexivity).
        apply slice_at; repeat (rewrite ?app_length; cbn [length]); rewrite <- Ek; unfold ENT;
          cbn [length]; lia.
      * replace (K0 ++ ENT ++ pe_ws1 d ++ 37%N :: pe_ws2 d ++ pe_name d ++ pe_ws3 d ++ SYSTEM ++ pe_ws4 d ++
                 pe_q d :: pe_v d ++ pe_q d :: pe_ws5 d ++ 62%N :: pe_ws6 d ++ 37%N :: pe_ref d ++ 59%N ::
                 (pe_tail_text d ++ file_text rest))
          with ((K0 ++ ENT ++ pe_ws1 d ++ 37%N :: pe_ws2 d ++ pe_name d ++ pe_ws3 d ++ SYSTEM ++ pe_ws4 d) ++
                 (pe_q d :: pe_v d ++ [pe_q d]) ++ (pe_ws5 d ++ 62%N :: pe_ws6 d ++ 37%N :: pe_ref d ++ 59%N ::
                 (pe_tail_text d ++ file_text rest)))
          by (norm_app; reflexivity).
        apply slice_at; repeat (rewrite ?app_length; cbn [length]); rewrite <- Ek; unfold ENT, SYSTEM;
          cbn [length]; lia.
Qed.

(* the entities of the walk are exactly the records (name, value, attached comment), in
   order; the standalone comments are exactly the comment blocks; there is no Junk entry *)
Theorem C02_roundtrip_dtd_multi : forall bs : list block,
  Forall legal_block bs -> adjacent_ok bs ->
  exists es, walk_dtd (file_text bs) = Ok es /\
    map (C02Blocks.entity_record (file_text bs)) (filter (C02Blocks.is_kind KEntity) es) = records_of bs /\
    map (fun e => C02Blocks.span_text (file_text bs) (e_span e)) (filter (C02Blocks.is_kind KComment) es) =
      comments_of bs /\
    filter (C02Blocks.is_kind KJunk) es = [].
Proof.
  intros bs Hleg Hadj. exists (entries_of bs). split; [apply blocks_dtd; auto|].
  exact (ents_views bs [] []).
Qed.

(* the same behind a byte order mark (a non-empty file) *)
Theorem C02_roundtrip_dtd_multi_bom : forall bs : list block,
  Forall legal_block bs -> adjacent_ok_bom true bs -> bs <> [] ->
  let s := file_text_bom true bs in
  exists es, walk_dtd s = Ok es /\
    map (C02Blocks.entity_record s) (filter (C02Blocks.is_kind KEntity) es) = records_of bs /\
    map (fun e => C02Blocks.span_text s (e_span e)) (filter (C02Blocks.is_kind KComment) es) =
      comments_of bs /\
    filter (C02Blocks.is_kind KJunk) es = [].
Proof.
  intros bs Hleg Hadj Hne s. exists (entries_of_bom true bs).
  split; [apply blocks_dtd_bom; auto|].
  destruct bs as [|b rest]; [contradiction|]. exact (ents_views (b :: rest) [bom] []).
Qed.

Example ex_dtd_records :
  let bs := [ex_b; ex_c; ex_b2; ex_e2; ex_e1; ex_c; ex_e3; ex_pe2] in
  Forall legal_block bs /\ adjacent_ok bs /\
  records_of bs = [(A [102; 111; 111; 46; 98; 97; 114], A [120; 34; 60; 121; 62; 38; 37; 122; 59],
                    Some (A [60; 33; 45; 45; 32; 99; 32; 45; 32; 100; 32; 45; 45; 62]));
                   (A [97], A [98], None);
                   (A [95], [], Some (A [60; 33; 45; 45; 45; 120; 45; 121; 45; 45; 62]));
                   (A [120], A [39; 39], None)] /\
  comments_of bs = [A [60; 33; 45; 45; 32; 115; 116; 97; 110; 100; 32; 45; 45; 62];
                    A [60; 33; 45; 45; 32; 115; 116; 97; 110; 100; 32; 45; 45; 62]].
Proof. split; [repeat constructor|]. split; [vm_compute; reflexivity|]. split; reflexivity. Qed.
