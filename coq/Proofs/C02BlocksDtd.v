(* C02, DTD: the block theorem.  A file that is a sequence of blocks
     - a run of whitespace (blanks, tabs, CR, LF),
     - a standalone XML comment  <!--body-->  (body: as the generated comment expression
       accepts it: comment characters, a dash only directly in front of a comment character),
     - an entity declaration  <!ENTITY ws name ws "value" ws? >  or with 'value' (name: a
       NameStartChar then NameChars, classes read from the generated key expression; value:
       anything but the delimiting quote -- the key expression has no % or & restriction),
       optionally preceded by its attached comment and at most one line break of whitespace,
   parses (model of DTDParser.getNext / Parser.getNext / walk, through the regex engine on
   the generated expressions) to exactly the entries computed from the blocks by
   [entries_of] ([blocks_dtd]); the entities are the records, the comments the comment
   blocks, and there is no Junk ([C02_roundtrip_dtd_multi]).
   Quirks of the implementation that are mirrored, not idealised:
     - a byte order mark at offset 0 is skipped, the first entry starts at offset 1
       ([blocks_dtd_bom]); the file that is only the mark gives the zero-width Junk (1,1);
     - the License rule applies at offsets 0 AND 1 (offset < 2): excluded by [license_okb]
       (that case is C02_license_dtd), with an example that the premise is needed;
     - a comment is standalone when two or more line breaks follow, or when what follows
       its whitespace is not an entity declaration; otherwise it is attached.
   Regex-specific: Proofs/C02BlocksDtdRx.v. *)
From Coq Require Import NArith List Bool Arith Lia.
From CL Require Import Base.Sx Base.Res Base.Str Regex.Rx Regex.RxLemmas Model.Entry Model.Parse
  Model.ParseFormats Generated.RxParser Proofs.UnescapeProofs
  Proofs.ClassLoop Proofs.ClassLoop2 Proofs.C02Props Proofs.WalkProofs Proofs.C02Roundtrip
  Proofs.C02BlocksRx Proofs.C02BlocksDtdRx.
Import ListNotations.

Local Arguments Nat.ltb : simpl never.
Local Arguments Nat.leb : simpl never.
Local Arguments Nat.eqb : simpl never.
Local Arguments N.eqb : simpl never.
Local Arguments N.leb : simpl never.
Local Arguments chr_ok : simpl never.

(* ---- blocks --------------------------------------------------------------------------------- *)
Inductive block :=
| BBlank (w : str)                                   (* whitespace: blanks, tabs, CR, LF *)
| BComment (body : str)                              (* standalone  <!--body-->  *)
| BEntity (pre : option (str * str)) (ws1 name ws2 : str) (q : N) (v ws3 : str).
    (* [pre = Some (body, iw)]: the attached comment <!--body--> and the whitespace [iw]
       between it and the declaration (at most one line break, may be empty); then
       <!ENTITY ws1 name ws2 q v q ws3 >  with the quote character [q] (double or single) *)

Definition decl_text (ws1 name ws2 : str) (q : N) (v ws3 : str) : str :=
  ENT ++ ws1 ++ name ++ ws2 ++ q :: v ++ q :: ws3 ++ [62%N].

Definition pre_text (pre : option (str * str)) : str :=
  match pre with
  | Some (body, iw) => comment_text body ++ iw
  | None => []
  end.

Definition text (b : block) : str :=
  match b with
  | BBlank w => w
  | BComment body => comment_text body
  | BEntity pre ws1 name ws2 q v ws3 => pre_text pre ++ decl_text ws1 name ws2 q v ws3
  end.

Definition is_nil {A} (l : list A) : bool := match l with [] => true | _ => false end.

Definition legal_pre (pre : option (str * str)) : bool :=
  match pre with
  | Some (body, iw) => legal_cbody body && is_ws iw && (count_char 10%N iw <=? 1)
  | None => true
  end.

Definition legal_decl (ws1 name ws2 : str) (q : N) (v ws3 : str) : bool :=
  negb (is_nil ws1) && is_ws ws1 && legal_name name && negb (is_nil ws2) && is_ws ws2 &&
  legal_qval q v && is_ws ws3.

Definition legal_blockb (b : block) : bool :=
  match b with
  | BBlank w => negb (is_nil w) && is_ws w
  | BComment body => legal_cbody body
  | BEntity pre ws1 name ws2 q v ws3 => legal_pre pre && legal_decl ws1 name ws2 q v ws3
  end.
Definition legal_block (b : block) : Prop := legal_blockb b = true.

(* the whitespace blocks at the head of a list (they form ONE whitespace entry), and what
   comes after them *)
Fixpoint lead_ws (bs : list block) : str :=
  match bs with
  | BBlank w :: rest => w ++ lead_ws rest
  | _ => []
  end.
Fixpoint drop_ws (bs : list block) : list block :=
  match bs with
  | BBlank _ :: rest => drop_ws rest
  | _ => bs
  end.
Definition bare_entity_head (bs : list block) : bool :=
  match bs with
  | BEntity None _ _ _ _ _ _ :: _ => true
  | _ => false
  end.

(* local separation: a standalone comment is followed by whitespace with two or more line
   breaks, or, after its whitespace, by something that is not a bare entity declaration
   (the end of the file, another comment, an entity with its own comment); otherwise the
   parser attaches it to the declaration.  Whitespace blocks may be adjacent: they merge
   into one entry. *)
Definition comment_next_ok (rest : list block) : bool :=
  (2 <=? count_char 10%N (lead_ws rest)) || negb (bare_entity_head (drop_ws rest)).

Fixpoint separatedb (bs : list block) : bool :=
  match bs with
  | [] => true
  | BComment _ :: rest => comment_next_ok rest && separatedb rest
  | _ :: rest => separatedb rest
  end.

(* the License rule (C02_license_dtd) is excluded: an entity whose attached comment
   starts at offset 0 or 1 does not have "License" in that comment *)
Fixpoint license_okb (off : nat) (bs : list block) : bool :=
  match bs with
  | BBlank w :: rest => license_okb (off + length w) rest
  | BEntity (Some (body, _)) _ _ _ _ _ _ :: _ => negb ((off <? 2) && contains s_License body)
  | _ => true
  end.

Definition adjacent_okb (bs : list block) : bool := separatedb bs && license_okb 0 bs.
Definition adjacent_ok (bs : list block) : Prop := adjacent_okb bs = true.

(* ---- the expected entries --------------------------------------------------------------------
   [off] is the offset reached, [w] the length of the whitespace pending there (adjacent
   whitespace blocks form one entry) *)
Definition flush (off w : nat) : list entry :=
  match w with 0 => [] | _ => [mk_white (off, off + w)] end.

Definition entity_entry (a : nat) (pre : option (str * str)) (ws1 name ws2 v ws3 : str) : entry :=
  let k := a + length (pre_text pre) in
  let n0 := k + 8 + length ws1 in
  let n1 := n0 + length name in
  let v0 := n1 + length ws2 in
  mkentry KEntity (k, key_end ws1 name ws2 v ws3 k) (Some (n0, n1)) (Some (v0 + 1, v0 + 1 + length v))
    (match pre with Some (body, _) => Some (a, a + length (comment_text body)) | None => None end)
    (match pre with
     | Some (body, _ :: _) => Some (a + length (comment_text body), k)
     | _ => None
     end).

Fixpoint ents (off w : nat) (bs : list block) : list entry :=
  match bs with
  | [] => flush off w
  | BBlank x :: rest => ents off (w + length x) rest
  | BComment body :: rest =>
      let a := off + w in
      let e := a + length (comment_text body) in
      flush off w ++ mk_comment (a, e) :: ents e 0 rest
  | BEntity pre ws1 name ws2 q v ws3 :: rest =>
      let a := off + w in
      let e := key_end ws1 name ws2 v ws3 (a + length (pre_text pre)) in
      flush off w ++ entity_entry a pre ws1 name ws2 v ws3 :: ents e 0 rest
  end.

Definition entries_of (bs : list block) : list entry := ents 0 0 bs.
Definition file_text (bs : list block) : str := concat (map text bs).

(* with a byte order mark in front *)
Definition file_text_bom (mark : bool) (bs : list block) : str :=
  (if mark then [bom] else []) ++ file_text bs.
Definition entries_of_bom (mark : bool) (bs : list block) : list entry :=
  if mark then match bs with [] => [mk_junk (1, 1)] | _ => ents 1 0 bs end else ents 0 0 bs.
Definition adjacent_ok_bom (mark : bool) (bs : list block) : Prop :=
  separatedb bs && license_okb (if mark then 1 else 0) bs = true.

(* ---- sanity: the statement on concrete files, by evaluation --------------------------------- *)
Definition A (l : list nat) : str := map N.of_nat l.
(*  <!ENTITY a "b">  *)
Definition ex_e1 : block := BEntity None (A [32]) (A [97]) (A [32]) 34%N (A [98]) [].
(*  <!-- c - d -->\n<!ENTITY  foo.bar\n'xD<y>&%z;'\t>   where D is a double quote  *)
Definition ex_e2 : block :=
  BEntity (Some (A [32; 99; 32; 45; 32; 100; 32], A [10])) (A [32; 32]) (A [102; 111; 111; 46; 98; 97; 114])
          (A [10]) 39%N (A [120; 34; 60; 121; 62; 38; 37; 122; 59]) (A [9]).
(*  <!---x-y--><!ENTITY _ "">   the comment directly in front  *)
Definition ex_e3 : block := BEntity (Some (A [45; 120; 45; 121], [])) (A [9]) (A [95]) (A [13; 10]) 34%N [] [].
Definition ex_c : block := BComment (A [32; 115; 116; 97; 110; 100; 32]).
Definition ex_c0 : block := BComment [].
Definition ex_b : block := BBlank (A [10]).
Definition ex_b2 : block := BBlank (A [32; 10; 9; 10]).

Example ex_dtd_blocks : let bs := [ex_e1; ex_b; ex_e2; ex_b2; ex_c; ex_b2; ex_e1] in
  Forall legal_block bs /\ adjacent_ok bs /\ walk_dtd (file_text bs) = Ok (entries_of bs) /\
  map (fun e => (e_kind e, e_span e, e_key e, e_val e, e_pre e, e_white e)) (entries_of bs) =
  [(KEntity, (0, 15), Some (9, 10), Some (12, 13), None, None);
   (KWhitespace, (15, 16), Some (15, 16), Some (15, 16), None, None);
   (KEntity, (31, 62), Some (41, 48), Some (50, 59), Some (16, 30), Some (30, 31));
   (KWhitespace, (62, 66), Some (62, 66), Some (62, 66), None, None);
   (KComment, (66, 80), None, None, None, None);
   (KWhitespace, (80, 84), Some (80, 84), Some (80, 84), None, None);
   (KEntity, (84, 99), Some (93, 94), Some (96, 97), None, None)].
Proof. split; [repeat constructor|]. split; [vm_compute; reflexivity|]. split; vm_compute; reflexivity. Qed.

Example ex_dtd_all_kinds :
  let bs := [ex_b; ex_b2; ex_c; ex_c0; ex_b; ex_e3; ex_e2; ex_c; ex_e2; ex_b; ex_b; ex_c; ex_b; ex_c0] in
  Forall legal_block bs /\ adjacent_ok bs /\ walk_dtd (file_text bs) = Ok (entries_of bs).
Proof. split; [repeat constructor|]. split; vm_compute; reflexivity. Qed.

(* separation is needed: a comment, ONE line break, a bare declaration is an attached comment *)
Example ex_dtd_separation_needed : let bs := [ex_c; ex_b; ex_e1] in
  Forall legal_block bs /\ adjacent_okb bs = false /\ walk_dtd (file_text bs) <> Ok (entries_of bs) /\
  adjacent_ok [ex_c; ex_b; ex_b; ex_e1] /\ adjacent_ok [ex_c; ex_b; ex_c; ex_e3] /\
  adjacent_okb [ex_c; ex_e1] = false.
Proof.
  split; [repeat constructor|]. split; [vm_compute; reflexivity|]. split; [vm_compute; discriminate|].
  repeat split; vm_compute; reflexivity.
Qed.

(* the License rule at offset 0 and at offset 1; from offset 2 on it does not apply *)
Definition ex_lic : block := BEntity (Some (32%N :: s_License, [])) (A [32]) (A [97]) (A [32]) 34%N [] [].
Example ex_dtd_license_needed :
  Forall legal_block [BBlank (A [32]); BBlank (A [32]); ex_lic] /\
  adjacent_okb [ex_lic] = false /\ walk_dtd (file_text [ex_lic]) <> Ok (entries_of [ex_lic]) /\
  adjacent_okb [BBlank (A [32]); ex_lic] = false /\
  walk_dtd (file_text [BBlank (A [32]); ex_lic]) <> Ok (entries_of [BBlank (A [32]); ex_lic]) /\
  adjacent_ok [BBlank (A [32]); BBlank (A [32]); ex_lic] /\
  walk_dtd (file_text [BBlank (A [32]); BBlank (A [32]); ex_lic]) =
    Ok (entries_of [BBlank (A [32]); BBlank (A [32]); ex_lic]).
Proof.
  split; [repeat constructor|]. split; [vm_compute; reflexivity|]. split; [vm_compute; discriminate|].
  split; [vm_compute; reflexivity|]. split; [vm_compute; discriminate|]. split; vm_compute; reflexivity.
Qed.

(* the byte order mark *)
Example ex_dtd_bom : let bs := [ex_e2; ex_b; ex_c] in
  Forall legal_block bs /\ adjacent_ok_bom true bs /\
  walk_dtd (file_text_bom true bs) = Ok (entries_of_bom true bs) /\
  walk_dtd (file_text_bom true []) = Ok [mk_junk (1, 1)] /\
  map (fun e => (e_kind e, e_span e)) (entries_of_bom true bs) =
  [(KEntity, (16, 47)); (KWhitespace, (47, 48)); (KComment, (48, 62))].
Proof.
  split; [repeat constructor|]. split; [vm_compute; reflexivity|]. split; [vm_compute; reflexivity|].
  split; vm_compute; reflexivity.
Qed.

(* ---- Parser.getNext for the DTD format, case by case ------------------------------------------ *)
Definition the_fmt : fmt := fmt_dtd rx_dtd_comment rx_dtd_ws rx_dtd_key g_dtd_key_key g_dtd_key_val.
Definition gnb : str -> nat -> entry := get_next_base the_fmt.

Definition dtd_entity (k : mres) (c w : option span) : entry :=
  mkentry KEntity (mspan k) (group g_dtd_key_key k)
    (match group g_dtd_key_val k with Some (a, b) => Some (a + 1, b - 1) | None => None end) c w.

Definition license_at (s : str) (off : nat) (x : mres) : bool :=
  (off <? 2) && contains s_License (comment_val CDtd (slice s (m_start x) (m_end x))).

Lemma gnb_white : forall s off w,
  omatch rx_dtd_comment s off = None -> omatch rx_dtd_ws s off = Some w ->
  gnb s off = mk_white (mspan w).
Proof.
  intros s off w Hc Hw. unfold gnb, get_next_base, the_fmt, fmt_dtd.
  cbn [f_comment f_ws f_key f_cstyle f_license_below f_create f_junk]. rewrite Hc, Hw. reflexivity.
Qed.

Lemma gnb_bare : forall s off k,
  omatch rx_dtd_comment s off = None -> omatch rx_dtd_ws s off = None ->
  omatch rx_dtd_key s off = Some k ->
  gnb s off = dtd_entity k None None.
Proof.
  intros s off k Hc Hw Hk. unfold gnb, get_next_base, the_fmt, fmt_dtd.
  cbn [f_comment f_ws f_key f_cstyle f_license_below f_create f_junk]. rewrite Hc, Hw, Hk. reflexivity.
Qed.

Lemma gnb_license : forall s off x,
  omatch rx_dtd_comment s off = Some x -> license_at s off x = true ->
  gnb s off = mk_comment (mspan x).
Proof.
  intros s off x Hc Hl. unfold gnb, get_next_base, the_fmt, fmt_dtd.
  cbn [f_comment f_ws f_key f_cstyle f_license_below f_create f_junk]. rewrite Hc.
  unfold license_at in Hl. rewrite Hl. reflexivity.
Qed.

Lemma gnb_comment_alone : forall s off x w,
  omatch rx_dtd_comment s off = Some x -> license_at s off x = false ->
  omatch rx_dtd_ws s (m_end x) = Some w ->
  (1 <? count_char 10%N (slice s (m_start w) (m_end w))) = true ->
  gnb s off = mk_comment (mspan x).
Proof.
  intros s off x w Hc Hl Hw Hn. unfold gnb, get_next_base, the_fmt, fmt_dtd.
  cbn [f_comment f_ws f_key f_cstyle f_license_below f_create f_junk]. rewrite Hc.
  unfold license_at in Hl. rewrite Hl, Hw, Hn. reflexivity.
Qed.

(* a comment, then whitespace with at most one line break, then the key expression *)
Lemma gnb_comment_ws_key : forall s off x w,
  omatch rx_dtd_comment s off = Some x -> license_at s off x = false ->
  omatch rx_dtd_ws s (m_end x) = Some w ->
  (1 <? count_char 10%N (slice s (m_start w) (m_end w))) = false ->
  gnb s off = match omatch rx_dtd_key s (m_end w) with
              | Some k => dtd_entity k (Some (mspan x)) (Some (mspan w))
              | None => mk_comment (mspan x)
              end.
Proof.
  intros s off x w Hc Hl Hw Hn. unfold gnb, get_next_base, the_fmt, fmt_dtd.
  cbn [f_comment f_ws f_key f_cstyle f_license_below f_create f_junk]. rewrite Hc.
  unfold license_at in Hl. rewrite Hl, Hw, Hn.
  destruct (omatch rx_dtd_key s (m_end w)); reflexivity.
Qed.

(* a comment directly in front of what the key expression is tried on *)
Lemma gnb_comment_key : forall s off x,
  omatch rx_dtd_comment s off = Some x -> license_at s off x = false ->
  omatch rx_dtd_ws s (m_end x) = None ->
  gnb s off = match omatch rx_dtd_key s (m_end x) with
              | Some k => dtd_entity k (Some (mspan x)) None
              | None => mk_comment (mspan x)
              end.
Proof.
  intros s off x Hc Hl Hw. unfold gnb, get_next_base, the_fmt, fmt_dtd.
  cbn [f_comment f_ws f_key f_cstyle f_license_below f_create f_junk]. rewrite Hc.
  unfold license_at in Hl. rewrite Hl, Hw.
  destruct (omatch rx_dtd_key s (m_end x)); reflexivity.
Qed.

(* DTDParser.getNext: the mark is skipped at offset 0 only; the parsed-entity expression is
   tried only when Parser.getNext reports Junk *)
Lemma gn_dtd_base : forall (a rest : str),
  (a = [] -> head_is (N.eqb bom) rest = false) ->
  e_kind (gnb (a ++ rest) (length a)) <> KJunk ->
  gn_dtd (a ++ rest) (length a) = gnb (a ++ rest) (length a).
Proof.
  intros a rest Hb Hk. unfold gn_dtd, get_next_dtd.
  assert (E : (Nat.eqb (length a) 0 &&
               match omatch rx_dtd_header (a ++ rest) 0 with Some _ => true | None => false end) = false).
  { destruct a as [|c a']; [|reflexivity]. rewrite header_at0. cbn [app]. rewrite Hb by reflexivity.
    reflexivity. }
  rewrite E. fold the_fmt. fold gnb. destruct (e_kind (gnb (a ++ rest) (length a))); try reflexivity.
  contradiction.
Qed.

Lemma gn_dtd_mark : forall s, head_is (N.eqb bom) s = true -> gn_dtd s 0 = gn_dtd s 1.
Proof.
  intros s H. unfold gn_dtd, get_next_dtd. rewrite header_at0, H. reflexivity.
Qed.
