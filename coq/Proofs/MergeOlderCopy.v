(* merge_two with keep_newer = False when the older dict mirrors the newer one key by key
   (same keys that are no whitespace, one whitespace key against one whitespace key of the
   same text length): the result IS the older dict.  And merging with an empty dict changes
   nothing when no two whitespace entries are adjacent. *)
From Coq Require Import ZArith NArith List Bool Arith Lia Permutation.
From CL Require Import Base.Sx Base.Res Base.Str Model.AddRemove
                       Proofs.AddRemoveProofs Proofs.AddRemoveSpec Model.Channels
                       Proofs.ChannelsProofs Proofs.ChannelsSpec Proofs.ChannelsIdentical
                       Proofs.MergeShapeKeys Proofs.MergeShape.
Import ListNotations.
Local Open Scope nat_scope.

Definition Rw (p q : dkey * centry) : Prop :=
  Rk (fst p) (fst q) /\ (nwk (fst p) = false -> length (c_text (snd p)) = length (c_text (snd q))).

Definition cs_older (A' O' : dict) : list (dkey * option centry) :=
  flat_map (fun pq => if nwk (fst (fst pq)) then [(fst (snd pq), Some (snd (snd pq)))]
                      else [(fst (snd pq), Some (snd (snd pq)));
                            (fst (fst pq), Some (snd (fst pq)))]) (combine A' O').

Lemma key_ok_white_iff p : key_ok p -> is_white (snd p) = negb (nwk (fst p)).
Proof. intros H. pose proof (key_ok_nw p H) as E. unfold nw in E. destruct (is_white (snd p)), (nwk (fst p)); cbn in *; congruence. Qed.

Lemma prune_older : forall A' O', Forall2 Rw A' O' -> Forall key_ok A' -> Forall key_ok O' ->
  no_adj (map fst O') -> forall acc,
  (match A' with
   | p :: _ => nwk (fst p) = false -> match acc with x :: _ => is_white (snd x) = false | [] => True end
   | [] => True
   end) ->
  fold_left prune_step (cs_older A' O') acc = rev O' ++ acc.
Proof.
  induction 1 as [|p q A' O' Hpq HF IH]; intros HA HO Hadj acc Hacc; [reflexivity|].
  inversion HA as [|? ? Hp HA']; subst. inversion HO as [|? ? Hq HO']; subst.
  assert (Hadj' : no_adj (map fst O')) by (destruct O'; [exact I|apply Hadj]).
  destruct Hpq as [Hk Hlen]. unfold cs_older. cbn [combine flat_map fst snd]. fold (cs_older A' O').
  pose proof (key_ok_white_iff p Hp) as Wp. pose proof (key_ok_white_iff q Hq) as Wq.
  destruct Hk as [[Hn Heq]|[Hn Hnq]]; rewrite Hn.
  - cbn [app fold_left]. rewrite <- Heq, Hn in Wq. cbn in Wq.
    assert (Hstep : prune_step acc (fst q, Some (snd q)) = q :: acc).
    { unfold prune_step. cbn [snd fst]. rewrite Wq. cbn. destruct q. destruct acc as [|[pk pe] ?]; reflexivity. }
    rewrite Hstep. rewrite IH; try assumption.
    + cbn [rev]. rewrite <- app_assoc. reflexivity.
    + destruct A' as [|p' ?]; [exact I|]. intros _. exact Wq.
  - cbn [app fold_left]. rewrite Hn in Wp. rewrite Hnq in Wq. cbn in Wp, Wq.
    assert (Hs1 : prune_step acc (fst q, Some (snd q)) = q :: acc).
    { unfold prune_step. cbn [snd fst]. destruct q as [kq eq]. cbn [snd fst] in *.
      destruct acc as [|[pk pe] acc']; [reflexivity|].
      assert (is_white pe = false) as -> by (apply Hacc; exact Hn).
      rewrite andb_false_r. reflexivity. }
    rewrite Hs1.
    assert (Hs2 : prune_step (q :: acc) (fst p, Some (snd p)) = q :: acc).
    { unfold prune_step. cbn [snd fst]. destruct q as [kq eq]. cbn [snd fst] in *.
      rewrite Wp, Wq. cbn [andb]. rewrite <- (Hlen Hn). rewrite Nat.ltb_irrefl. reflexivity. }
    rewrite Hs2. rewrite IH; try assumption.
    + cbn [rev]. rewrite <- app_assoc. reflexivity.
    + destruct A' as [|p' A'']; [exact I|]. intros Hp'. exfalso.
      inversion HF as [|? q' ? O'' Hpq' _]; subst.
      destruct Hpq' as [[[Hn' _]|[Hn' Hnq']] _]; [congruence|].
      cbn in Hadj. destruct Hadj as [[H|H] _]; congruence.
Qed.

Section Copy.
Variables A O : dict.
Hypothesis HA : wf A.
Hypothesis HO : wf O.
Hypothesis Hdis : ws_disjoint (dkeys A) (dkeys O).
Hypothesis Hst : Forall (fun p => is_sticky (snd p) = false) O.

Lemma contents_weave_older : forall A' O', Forall2 Rw A' O' -> incl A' A -> incl O' O ->
  map (fun k => (k, get_older_entity A O k)) (weave (map fst A') (map fst O')) = cs_older A' O'.
Proof.
  induction 1 as [|p q A' O' Hpq HF IH]; intros HiA HiO; [reflexivity|].
  assert (HpA : In p A) by (apply HiA; left; reflexivity).
  assert (HqO : In q O) by (apply HiO; left; reflexivity).
  pose proof HA as [HA1 HA2]. pose proof HO as [HO1 HO2].
  unfold weave, cs_older. cbn [map combine flat_map fst snd].
  fold (weave (map fst A') (map fst O')). fold (cs_older A' O').
  assert (Hgq : get_older_entity A O (fst q) = Some (snd q)).
  { unfold get_older_entity.
    rewrite (In_od_get dkey_eqb dkey_eqb_eq (fst q) (snd q) O HO1) by (destruct q; exact HqO).
    rewrite Forall_forall in Hst. rewrite (Hst q HqO). reflexivity. }
  rewrite map_app. rewrite IH.
  2:{ intros x Hx. apply HiA. right; exact Hx. }
  2:{ intros x Hx. apply HiO. right; exact Hx. }
  destruct Hpq as [[[Hn Heq]|[Hn Hnq]] _]; rewrite Hn; cbn [map app].
  - rewrite Heq, Hgq. reflexivity.
  - rewrite Hgq.
    assert (Hgp : get_older_entity A O (fst p) = Some (snd p)).
    { unfold get_older_entity.
      assert (od_get dkey_eqb (fst p) O = None) as ->.
      { apply (od_get_None dkey_eqb dkey_eqb_eq). intros Hin. apply (Hdis (fst p) Hn); [|exact Hin].
        apply in_map. exact HpA. }
      apply (In_od_get dkey_eqb dkey_eqb_eq); [exact HA1|]. destruct p; exact HpA. }
    rewrite Hgp. reflexivity.
Qed.

Hypothesis HR : Forall2 Rw A O.
Hypothesis Hadj : no_adj (dkeys O).

Lemma Forall2_Rw_keys : forall X Y, Forall2 Rw X Y -> Forall2 Rk (map fst X) (map fst Y).
Proof. induction 1 as [|p q X Y [H _] _ IH]; cbn; constructor; assumption. Qed.

Theorem merge_older_copy : merge_two A O false = O.
Proof.
  rewrite (merge_two_eq A O false HA HO). rewrite merge_contents_map'. cbn [get_entity].
  rewrite (addremove_anchor dkey_eqb dkey_eqb_eq _ _ (proj1 HA) (proj1 HO)).
  assert (Hw : spec_keys dkey_eqb (dkeys A) (dkeys O) = weave (dkeys A) (dkeys O)).
  { unfold spec_keys.
    destruct (weave_suffix (dkeys A) (dkeys A) (dkeys O)) as [W _].
    - apply Forall2_Rw_keys. exact HR.
    - exact Hadj.
    - apply HA.
    - intros x Hx _. exact Hx.
    - intros y Hy Hn Hin. apply (Hdis y Hn Hin Hy).
    - intros x Hx Hn Hin. apply (Hdis x Hn Hx Hin).
    - destruct (runs dkey_eqb (dkeys A) (dkeys O)) as [pre gs]. exact W. }
  rewrite Hw. unfold dkeys. rewrite (contents_weave_older A O HR (incl_refl _) (incl_refl _)).
  rewrite (prune_older A O HR (proj2 HA) (proj2 HO) Hadj []).
  - rewrite app_nil_r. apply rev_involutive.
  - destruct A; [exact I|]. intros _. exact I.
Qed.
End Copy.

(* ---- merging with the empty dict ---------------------------------------------------------------- *)
Lemma prune_plain l : forall acc, noadj (map snd (rev acc) ++ map snd l) ->
  fold_left prune_step (map (fun p => (fst p, Some (snd p))) l) acc = rev l ++ acc.
Proof.
  induction l as [|[k e] l IH]; intros acc H; [reflexivity|].
  cbn [map fold_left fst snd].
  assert (Hstep : prune_step acc (k, Some e) = (k, e) :: acc).
  { unfold prune_step. cbn [snd fst]. destruct acc as [|[pk pe] acc']; [reflexivity|].
    destruct (is_white e && is_white pe) eqn:E; [|reflexivity]. exfalso.
    apply andb_true_iff in E. destruct E as [E1 E2].
    cbn [rev map] in H. rewrite map_app in H. cbn [map snd] in H. rewrite <- app_assoc in H. cbn [app] in H.
    clear - H E1 E2. induction (map snd (rev acc')) as [|x t IHt]; cbn in H.
    - destruct H as [[H|H] _]; congruence.
    - destruct t as [|y t']; cbn in *; [destruct H as [_ [[H|H] _]]; congruence|].
      apply IHt. apply H. }
  rewrite Hstep. rewrite IH.
  - cbn [rev]. rewrite <- app_assoc. reflexivity.
  - cbn [rev]. rewrite map_app. cbn [map snd]. rewrite <- app_assoc. exact H.
Qed.

Theorem merge_two_empty N keep : wf N -> noadj (dvalues N) -> merge_two N [] keep = N.
Proof.
  intros HN Hna.
  assert (HE : wf ([] : dict)) by (split; constructor).
  rewrite (merge_two_eq N [] keep HN HE). rewrite merge_contents_map'.
  assert (Hks : map snd (addremove dkey_eqb (dkeys N) (dkeys ([] : dict))) = dkeys N).
  { change (dkeys ([] : dict)) with (@nil dkey).
    rewrite (addremove_anchor dkey_eqb dkey_eqb_eq (dkeys N) [] (proj1 HN) (NoDup_nil _)).
    unfold spec_keys. cbn. induction (dkeys N) as [|x l IH]; [reflexivity|]. cbn. rewrite IH. reflexivity. }
  rewrite Hks.
  assert (Hc : map (fun k => (k, get_entity keep N [] k)) (dkeys N) =
               map (fun p => (fst p, Some (snd p))) N).
  { unfold dkeys. rewrite map_map. apply map_ext_in. intros [k e] Hin. cbn [fst snd]. f_equal.
    pose proof (In_od_get dkey_eqb dkey_eqb_eq k e N (proj1 HN) Hin) as G.
    unfold get_entity, get_newer_entity, get_older_entity. destruct keep; cbn [od_get]; rewrite G; reflexivity. }
  rewrite Hc, prune_plain.
  - rewrite app_nil_r. apply rev_involutive.
  - cbn. exact Hna.
Qed.
