(* C09: the statements of Properties/C09.v, for every input (no premise about
   the scans: they never raise). *)
From Coq Require Import NArith List Bool Arith Lia.
From CL Require Import Base.Sx Base.Res Base.Str Regex.Rx Regex.RxLemmas Generated.RxC09
  Generated.C09Facts Model.CheckAndroid Proofs.CheckAndroidSpec Proofs.CheckAndroidParams
  Proofs.CheckAndroidExits Proofs.CheckAndroidScan Proofs.CheckAndroidQuoting
  Proofs.CheckAndroidClean Proofs.CheckAndroidTotal.
Import ListNotations.

Lemma args_scan : forall s, exists os, scan_params s = Ok os /\ args s = resolve 1 os.
Proof.
  intro s. destruct (scan_params_total s) as [os H]. exists os. split; auto.
  unfold args. rewrite H. reflexivity.
Qed.

(* get_params: first-occurrence map under implicit numbering, count, conflicts *)
Theorem get_params_spec : forall s, exists st,
  get_params s = Ok st /\
  (forall k, pget k (ps_params st) = first_conv k (args s)) /\
  NoDup (map fst (ps_params st)) /\
  ps_count st = length (args s) /\
  (forall e, In e (ps_errors st) <->
     exists k f p f2, In (k, f, p) (args s) /\ first_conv k (args s) = Some f2 /\ f2 <> f /\
                      e = (render t_conflict [dec_of_nat k; f; f2], p)).
Proof.
  intro s. destruct (args_scan s) as [os [Hs Ha]]. rewrite Ha.
  exists (params_of_occs os). unfold get_params. rewrite Hs. split; [reflexivity|].
  destruct (params_of_occs_spec os) as [H1 [H2 [H3 H4]]]. cbv zeta in *.
  repeat split; auto.
  - rewrite H3, resolve_length. reflexivity.
  - rewrite H4. apply conflicts_in.
  - rewrite H4. apply conflicts_in.
Qed.

Theorem params_errors : forall params count s, exists issues,
  check_params params count s = Ok issues /\
  forall i, (In i issues /\ i_error i = true) <->
    (is_conflict (args s) i \/ is_not_in_ref params (args s) i \/ is_mismatch params (args s) i).
Proof.
  intros params count s. destruct (args_scan s) as [os [Hs Ha]]. rewrite Ha.
  apply check_params_errors. exact Hs.
Qed.

Theorem params_subset_no_error : forall params count s,
  (forall k f p, In (k, f, p) (args s) -> pget k params = Some f) ->
  exists issues, check_params params count s = Ok issues /\
                 Forall (fun i => i_error i = false) issues.
Proof.
  intros params count s. destruct (args_scan s) as [os [Hs Ha]]. rewrite Ha.
  apply check_params_subset_no_error. exact Hs.
Qed.

Theorem params_omitted_warning : forall params count s k f,
  In (k, f) params -> first_conv k (args s) = None ->
  exists issues, check_params params count s = Ok issues /\
                 In (not_in_l10n_issue k f) issues /\ i_error (not_in_l10n_issue k f) = false.
Proof.
  intros params count s k f. destruct (args_scan s) as [os [Hs Ha]]. rewrite Ha.
  apply check_params_omitted_warning. exact Hs.
Qed.

Theorem params_warnings : forall params count s, exists issues,
  check_params params count s = Ok issues /\
  forall i, In i issues -> i_error i = false ->
            is_omitted params (args s) i \/ i = count_issue.
Proof.
  intros params count s. destruct (args_scan s) as [os [Hs Ha]]. rewrite Ha.
  apply check_params_warnings. exact Hs.
Qed.

(* ---- early exits -------------------------------------------------------------------------------- *)
Theorem early_exits : forall ref l10n,
  n_name (e_node ref) = s_string -> n_name (e_node l10n) = s_string ->
  let untranslatable :=
    n_transl (e_node l10n) = Some s_false \/ n_transl (e_node ref) = Some s_false in
  let reference := exists rest, val l10n = s_at_string ++ rest in
  exists enc, check_base l10n = Ok enc /\ Forall is_warning enc /\
  (untranslatable ->
     check ref l10n = Ok (enc ++ [lit_issue y_not_translatable 0])) /\
  (~ untranslatable -> reference ->
     check ref l10n = Ok (enc ++ [lit_issue y_at_string 0])) /\
  (~ untranslatable -> ~ reference -> ~ simple_content (n_children (e_node l10n)) ->
     exists w, check ref l10n = Ok (enc ++ w ++ [lit_issue y_non_simple 0]) /\
               (w = [] \/ w = [lit_issue y_at_string_ref 0])).
Proof.
  intros ref l10n Hr Hl untranslatable reference.
  destruct (check_base_ok l10n) as [enc [He Hw]]. exists enc. split; auto. split; auto.
  unfold untranslatable, reference. split; [|split].
  - apply exit_not_translatable; auto.
  - intros H1 [rest H2]. eapply exit_at_string; eauto.
  - intros H1 H2 H3. apply exit_non_simple; auto. intros rest E. apply H2. eauto.
Qed.

Lemma classic_untranslatable : forall ref l10n,
  let u := n_transl (e_node l10n) = Some s_false \/ n_transl (e_node ref) = Some s_false in
  u \/ ~ u.
Proof.
  intros ref l10n u. unfold u.
  destruct (not_translatable [e_node l10n; e_node ref]) eqn:E.
  - left. apply not_translatable_iff. exact E.
  - right. intro H. apply not_translatable_iff in H. congruence.
Qed.

Lemma classic_reference : forall l10n,
  let r := exists rest, val l10n = s_at_string ++ rest in r \/ ~ r.
Proof.
  intros l10n r. unfold r, val.
  destruct (no_at_string [e_node l10n]) eqn:E.
  - left. apply no_at_string_iff. exact E.
  - right. intro H. apply no_at_string_iff in H. congruence.
Qed.

(* exactly one error on each early exit *)
Theorem early_exit_one_error : forall ref l10n,
  n_name (e_node ref) = s_string -> n_name (e_node l10n) = s_string ->
  (n_transl (e_node l10n) = Some s_false \/ n_transl (e_node ref) = Some s_false) \/
  (exists rest, val l10n = s_at_string ++ rest) \/
  ~ simple_content (n_children (e_node l10n)) ->
  exists issues e, check ref l10n = Ok issues /\ errors_of issues = [e] /\
    (e = lit_issue y_not_translatable 0 \/ e = lit_issue y_at_string 0 \/
     e = lit_issue y_non_simple 0).
Proof.
  intros ref l10n Hr Hl H.
  destruct (early_exits ref l10n Hr Hl) as [enc [He [Hw [E1 [E2 E3]]]]].
  assert (Henc : errors_of enc = []) by (apply errors_of_warnings; exact Hw).
  destruct (classic_untranslatable ref l10n) as [U|U].
  - exists (enc ++ [lit_issue y_not_translatable 0]), (lit_issue y_not_translatable 0).
    split; [apply E1; exact U|]. split; [rewrite errors_of_app, Henc; reflexivity|auto].
  - destruct (classic_reference l10n) as [R|R].
    + exists (enc ++ [lit_issue y_at_string 0]), (lit_issue y_at_string 0).
      split; [apply E2; auto|]. split; [rewrite errors_of_app, Henc; reflexivity|auto].
    + destruct H as [H|[H|H]]; try contradiction.
      destruct (E3 U R H) as [w [Hc Hw']].
      exists (enc ++ w ++ [lit_issue y_non_simple 0]), (lit_issue y_non_simple 0).
      split; [exact Hc|]. split; [|auto].
      rewrite !errors_of_app, Henc. destruct Hw' as [Hw'|Hw']; subst w; reflexivity.
Qed.

(* ---- clean strings ---------------------------------------------------------------------------------- *)
Theorem clean_final : forall ref l10n ts,
  n_name (e_node ref) = s_string -> n_name (e_node l10n) = s_string ->
  n_transl (e_node l10n) <> Some s_false -> n_transl (e_node ref) <> Some s_false ->
  simple_content (n_children (e_node l10n)) ->
  (forall rest, val l10n <> s_at_string ++ rest) ->
  val l10n = qrender ts -> qtoks_ok ts -> ~ In QApos ts -> ~ adjacent_quotes ts ->
  (forall k f p, In (k, f, p) (args (val l10n)) ->
                 first_conv k (args (text_content (e_node ref))) = Some f) ->
  exists issues, check ref l10n = Ok issues /\ Forall is_warning issues.
Proof.
  intros ref l10n ts Hr Hl H1 H2 H3 H4 H5 H6 H7 H8 Hsub.
  destruct (args_scan (val l10n)) as [osl [Hsl Hal]].
  destruct (args_scan (text_content (e_node ref))) as [osr [Hsr Har]].
  rewrite Hal, Har in Hsub.
  eapply clean_no_error; eauto.
Qed.

(* ---- the check never raises ---------------------------------------------------------------------------- *)
Theorem check_params_total : forall params count s, exists issues,
  check_params params count s = Ok issues.
Proof.
  intros params count s. unfold check_params.
  destruct (get_params_total s) as [st H]. rewrite H. simpl. eauto.
Qed.

Theorem check_total : forall ref l10n, exists issues, check ref l10n = Ok issues.
Proof.
  intros ref l10n. unfold check.
  destruct (check_base_ok l10n) as [enc [He _]]. rewrite He. cbn [bind].
  destruct (negb (str_eqb (n_name (e_node ref)) (n_name (e_node l10n)))); [eauto|].
  destruct (negb (str_eqb (n_name (e_node ref)) s_string)); [eauto|].
  unfold check_string.
  destruct (not_translatable _); [cbn [bind]; eauto|].
  destruct (no_at_string [e_node l10n]); [cbn [bind]; eauto|].
  destruct (non_simple_data (e_node l10n)); [cbn [bind]; eauto|].
  rewrite check_apostrophes_chars. cbn [bind].
  destruct (get_params_total (text_content (e_node ref))) as [st Hst]. rewrite Hst. cbn [bind].
  destruct (check_params_total (ps_params st) (ps_count st) (val l10n)) as [cp Hcp].
  rewrite Hcp. cbn [bind]. eauto.
Qed.

(* ---- quoting: consequences of the token theorem, stated on check_apostrophes ---------------------- *)
Theorem apostrophes_clean : forall ts, qtoks_ok ts ->
  ~ In QApos ts -> ~ adjacent_quotes ts -> check_apostrophes (qrender ts) = Ok [].
Proof.
  intros ts H1 H2 H3. rewrite check_apostrophes_tokens by exact H1.
  rewrite quoting_clean; auto.
Qed.

Theorem apostrophes_double_quotes : forall pre post, qtoks_ok (pre ++ QQuote :: QQuote :: post) ->
  exists issues off, check_apostrophes (qrender (pre ++ QQuote :: QQuote :: post)) = Ok issues /\
    In (lit_issue y_double_quotes off) issues /\ i_error (lit_issue y_double_quotes off) = true.
Proof.
  intros pre post H. rewrite check_apostrophes_tokens by exact H.
  destruct (quoting_double_error _ pre post eq_refl) as [off Ho].
  exists (quoting_model (pre ++ QQuote :: QQuote :: post)), off. auto.
Qed.

Theorem apostrophes_bare : forall ts, qtoks_ok ts ->
  In QApos ts -> (forall ts', ts <> QQuote :: ts') ->
  exists issues off, check_apostrophes (qrender ts) = Ok issues /\
    In (lit_issue y_apostrophe off) issues /\ i_error (lit_issue y_apostrophe off) = true.
Proof.
  intros ts H1 H2 H3. rewrite check_apostrophes_tokens by exact H1.
  destruct (quoting_apostrophe_error ts H2) as [off Ho].
  - destruct (q_hd_quote ts) eqn:E; auto. apply q_hd_quote_true in E.
    destruct E as [ts' E]. exfalso. eapply H3. exact E.
  - exists (quoting_model ts), off. auto.
Qed.

Theorem apostrophes_whole_string : forall mid, qtoks_ok (QQuote :: mid ++ [QQuote]) ->
  mid <> [] -> ~ In QQuote mid ->
  exists issues, check_apostrophes (qrender (QQuote :: mid ++ [QQuote])) = Ok issues /\
                 forall off, ~ In (lit_issue y_apostrophe off) issues.
Proof.
  intros mid H1 H2 H3. rewrite check_apostrophes_tokens by exact H1.
  eexists. split; [reflexivity|]. apply quoting_whole_string; auto.
Qed.
