(* Soundness of matching for the grammar: whenever the engine accepts a path
   for the compiled regular expression of a simple matcher, the path splits
   into one piece per pattern node; the piece of a literal is the literal, the
   piece of a variable / star / double star is what its group captured, a
   star's piece has no '/', a double star's piece is empty (group unset) or a
   non-empty text followed by the suffix. *)
From Coq Require Import NArith List Bool Arith Lia.
From CL Require Import Base.Sx Base.Res Base.Str Regex.Rx Regex.RxLemmas Regex.RxSem
  Model.Pattern Model.Matcher Proofs.MatcherBase Proofs.MatcherSpec Proofs.MatcherCompile.
Import ListNotations.

Local Arguments open_group : simpl never.
Local Arguments back_ref : simpl never.

Definition cap_text (path : str) (s : st) (g : nat) : option str :=
  match get_cap g (caps s) with
  | Some (a, b) => Some (slice path a b)
  | None => None
  end.

Record inv (path : str) (e : env) (c : cst) (s : st) : Prop := mkinv {
  inv_names_lt : forall name g, lookup name (c_names c) = Some g -> g < c_next c;
  inv_caps_lt : forall g a b, get_cap g (caps s) = Some (a, b) ->
                  g < c_next c /\ a <= b /\ b <= pos s;
  inv_bound : forall name g v t, lookup name (c_names c) = Some g ->
                lookup name e = Some v -> value_text v = Some t ->
                cap_text path s g = Some t;
  inv_nodup : NoDup (map fst (c_names c));
  inv_noandroid : ~ In s_android_locale (map fst (c_names c))
}.

Definition piece_ok (path : str) (names : list (str * nat)) (s : st) (n : node) (piece : str)
  : Prop :=
  match n with
  | NLit t => piece = t
  | NVar name _ => exists g, lookup name names = Some g /\ cap_text path s g = Some piece
  | NAndroid _ => False
  | NStar k => exists g, lookup (star_name k) names = Some g /\
                 cap_text path s g = Some piece /\ has_char c_slash piece = false
  | NStarstar k suffix =>
      exists g, lookup (star_name k) names = Some g /\
        ((cap_text path s g = None /\ piece = []) \/
         (cap_text path s g = Some piece /\
          exists b, b <> [] /\ has_char nl b = false /\ piece = b ++ suffix))
  end.

Definition names_ext (n1 n2 : list (str * nat)) : Prop :=
  forall name g, lookup name n1 = Some g -> lookup name n2 = Some g.

Definition caps_keep (bound : nat) (s s' : st) : Prop :=
  forall g, g < bound -> get_cap g (caps s') = get_cap g (caps s).

Lemma piece_ok_stable : forall path names names' s s' n piece bound,
  piece_ok path names s n piece -> names_ext names names' ->
  (forall name g, lookup name names = Some g -> g < bound) ->
  caps_keep bound s s' ->
  piece_ok path names' s' n piece.
Proof.
  intros path names names' s s' n piece bound H He Hlt Hk.
  assert (Hc : forall name g, lookup name names = Some g -> cap_text path s' g = cap_text path s g).
  { intros name g Hl. unfold cap_text. rewrite Hk; eauto. }
  destruct n as [t|name rep|rep|k|k suffix]; simpl in *; auto.
  - destruct H as [g [H1 H2]]. exists g. split; auto. rewrite (Hc _ _ H1). auto.
  - destruct H as [g [H1 [H2 H3]]]. exists g. rewrite (Hc _ _ H1). auto.
  - destruct H as [g [H1 H2]]. exists g. rewrite (Hc _ _ H1). auto.
Qed.

(* the text a back-reference compares with is the captured slice *)
Lemma bref_text : forall path p a b, p <= length path -> a <= b -> b <= p ->
  rev (firstn (b - a) (skipn (p - b) (rev (firstn p path)))) = slice path a b.
Proof.
  intros path p a b Hp Hab Hbp.
  assert (HF : length (firstn p path) = p) by (rewrite firstn_length; lia).
  rewrite skipn_rev, HF. replace (p - (p - b)) with b by lia.
  rewrite firstn_firstn. rewrite Nat.min_l by lia.
  assert (HB : length (firstn b path) = b) by (rewrite firstn_length; lia).
  rewrite firstn_rev, HB, rev_involutive. replace (b - (b - a)) with a by lia.
  unfold slice. rewrite skipn_firstn_comm. replace (a + (b - a)) with b by lia. reflexivity.
Qed.

Lemma lookup_snoc_new : forall name (names : list (str * nat)) g,
  lookup name names = None -> lookup name (names ++ [(name, g)]) = Some g.
Proof.
  intros. rewrite lookup_app, H. simpl. rewrite str_eqb_refl. reflexivity.
Qed.

Lemma names_ext_snoc : forall (names : list (str * nat)) name g, names_ext names (names ++ [(name, g)]).
Proof. intros names name g n g' H. rewrite lookup_app, H. reflexivity. Qed.

Lemma star_name_not_android : forall k, str_eqb (star_name k) s_android_locale = false.
Proof. intros k. reflexivity. Qed.

(* opening a fresh group around a group-free body *)
Lemma open_group_sound : forall path e name c g c1 s s1 piece,
  open_group name c = (g, c1) -> c_err c1 = false ->
  str_eqb name s_android_locale = false ->
  at_path path s -> inv path e c s ->
  consumed s s1 piece -> caps s1 = caps s ->
  (forall v t, lookup name e = Some v -> value_text v = Some t -> piece = t) ->
  let s' := set_cap g (pos s, pos s1) s1 in
  consumed s s' piece /\ inv path e c1 s' /\ caps_keep (c_next c) s s' /\
  c_next c <= c_next c1 /\ names_ext (c_names c) (c_names c1) /\
  lookup name (c_names c1) = Some g /\ cap_text path s' g = Some piece /\ at_path path s'.
Proof.
  intros path e name c g c1 s s1 piece Ho Herr Hna Hat Hinv Hcons Hcaps Hval s'.
  unfold open_group in Ho. inversion Ho; subst g c1. clear Ho. simpl in Herr.
  apply orb_false_iff in Herr. destruct Herr as [Herr Hvalid].
  apply orb_false_iff in Herr. destruct Herr as [Herr Hdup].
  destruct (lookup name (c_names c)) eqn:El; [discriminate|].
  destruct (at_path_consumed _ _ _ _ Hat Hcons) as [Hat1 Hpiece].
  destruct Hinv as [I1 I2 I3 I4 I5].
  assert (Hget : get_cap (c_next c) (caps s') = Some (pos s, pos s1)).
  { unfold s'. simpl. rewrite Nat.eqb_refl. reflexivity. }
  assert (Hkeep : caps_keep (c_next c) s s').
  { intros g Hg. unfold s'. simpl. destruct (Nat.eqb g (c_next c)) eqn:E.
    - apply Nat.eqb_eq in E. lia.
    - rewrite Hcaps. reflexivity. }
  assert (Hpos : pos s <= pos s1) by (destruct Hcons as [_ [_ Hc]]; lia).
  assert (Hinv' : inv path e
            {| c_next := S (c_next c); c_names := c_names c ++ [(name, c_next c)];
               c_err := c_err c || false || negb (valid_group_name name) |} s').
  2: { split; [exact Hcons|]. split; [exact Hinv'|]. split; [exact Hkeep|].
       split; [simpl; lia|]. split; [apply names_ext_snoc|].
       split; [apply lookup_snoc_new; auto|].
       split; [unfold cap_text; rewrite Hget, Hpiece; reflexivity|exact Hat1]. }
  constructor; simpl.
  - intros n g Hl. rewrite lookup_app in Hl. destruct (lookup n (c_names c)) eqn:E.
    + inversion Hl; subst. apply I1 in E. lia.
    + simpl in Hl. destruct (str_eqb n name); inversion Hl; subst. lia.
  - intros g a b Hg. unfold s' in Hg. simpl in Hg. destruct (Nat.eqb g (c_next c)) eqn:E.
    + inversion Hg; subst. apply Nat.eqb_eq in E. subst. lia.
    + rewrite Hcaps in Hg. apply I2 in Hg. lia.
  - intros n g v t Hl Hle Hvt. rewrite lookup_app in Hl. destruct (lookup n (c_names c)) eqn:E.
    + inversion Hl; subst. pose proof (I1 _ _ E) as Hlt.
      unfold cap_text. rewrite Hkeep by auto. eapply I3; eauto.
    + simpl in Hl. destruct (str_eqb n name) eqn:En; [|discriminate].
      assert (g = c_next c) by congruence. subst g.
      apply str_eqb_eq in En. subst n.
      unfold cap_text. rewrite Hget. rewrite <- Hpiece. f_equal. eapply Hval; eauto.
  - rewrite map_app. simpl. apply NoDup_app_snoc; auto. apply lookup_none_notin. auto.
  - rewrite map_app, in_app_iff. simpl. intros [H|[H|[]]]; [auto|].
    subst name. rewrite str_eqb_refl in Hna. discriminate.
Qed.

(* ---- one node ------------------------------------------------------------------ *)
Definition step_ok (path : str) (e : env) (c c' : cst) (s s' : st) (n : node) (piece : str) : Prop :=
  consumed s s' piece /\ inv path e c' s' /\ caps_keep (c_next c) s s' /\
  c_next c <= c_next c' /\ names_ext (c_names c) (c_names c') /\ at_path path s' /\
  piece_ok path (c_names c') s' n piece.

Lemma inv_move : forall path e c s s' t,
  inv path e c s -> consumed s s' t -> caps s' = caps s -> inv path e c s'.
Proof.
  intros path e c s s' t [I1 I2 I3 I4 I5] [_ [_ Hp]] Hc. constructor; auto.
  - intros g a b Hg. rewrite Hc in Hg. apply I2 in Hg. lia.
  - intros n g v t' Hl Hle Hv. unfold cap_text. rewrite Hc. eapply I3; eauto.
Qed.

Lemma not_char_has : forall x t, Forall (fun c => chr_ok true [(x, x)] c = true) t ->
  has_char x t = false.
Proof.
  induction t as [|c t IH]; intros H; simpl; auto. inversion H; subst.
  rewrite IH by auto. rewrite orb_false_r.
  unfold chr_ok, in_ranges in H2. simpl in H2. rewrite orb_false_r in H2.
  destruct (N.eqb x c) eqn:E; auto. apply N.eqb_eq in E. subst c.
  rewrite N.leb_refl in H2. simpl in H2. discriminate.
Qed.

Lemma not_slash_chars : forall t, Forall (fun c => chr_ok true [(c_slash, c_slash)] c = true) t ->
  has_char c_slash t = false.
Proof. apply not_char_has. Qed.

Ltac inv1 H := inversion H; subst; clear H.
Ltac inv_sl := repeat match goal with
  | H : sem_list (_ :: _) _ _ |- _ => inv1 H
  | H : sem_list [] _ _ |- _ => inv1 H
  end.

Lemma node_sound : forall path e n c items c' s s',
  simple_node e n = true -> simple_items e n c = (items, c') -> c_err c' = false ->
  sem_list items s s' -> at_path path s -> inv path e c s ->
  exists piece, step_ok path e c c' s s' n piece.
Proof.
  intros path e n c items c' s s' Hsimple Hitems Herr Hsem Hat Hinv.
  destruct n as [t|name rep|rep|k|k suffix]; simpl in Hsimple.
  - (* literal *)
    simpl in Hitems. inversion Hitems; subst items c'. clear Hitems.
    apply sem_lits in Hsem. destruct Hsem as [Hc Hcaps].
    destruct (at_path_consumed _ _ _ _ Hat Hc) as [Hat' _].
    exists t. unfold step_ok. split; [auto|]. split; [eapply inv_move; eauto|].
    split; [intros g _; rewrite Hcaps; reflexivity|].
    split; [lia|]. split; [intros x g H; exact H|]. split; [auto|]. simpl. reflexivity.
  - apply andb_true_iff in Hsimple. destruct Hsimple as [Hsimple Hv].
    apply andb_true_iff in Hsimple. destruct Hsimple as [Hsimple Hna].
    apply negb_true_iff in Hna.
    destruct rep.
    + (* repeat: a back-reference *)
      unfold simple_items, back_ref in Hitems.
      destruct (lookup name (c_names c)) as [g|] eqn:El.
      2: { inversion Hitems; subst. simpl in Herr. discriminate. }
      inversion Hitems; subst items c'. clear Hitems.
      inv_sl. match goal with H : sem (Bref _) _ _ |- _ => inv1 H end.
      match goal with HG : get_cap g (caps s) = Some (?a, ?b), HL : lit _ s = Some s' |- _ =>
        rename HG into Hget; rename HL into Hlit;
        pose proof (inv_caps_lt _ _ _ _ Hinv _ _ _ Hget) as [Hg [Hab Hb]];
        exists (slice path a b) end.
      destruct Hat as [A1 [A2 A3]].
      rewrite A1, bref_text in Hlit by auto.
      pose proof (lit_ext _ _ _ Hlit) as Hc. pose proof (lit_caps _ _ _ Hlit) as Hcaps.
      assert (Hat : at_path path s) by (repeat split; auto).
      destruct (at_path_consumed _ _ _ _ Hat Hc) as [Hat' _].
      unfold step_ok. split; [exact Hc|].
      split; [eapply inv_move; eauto|].
      split; [intros g' _; rewrite Hcaps; reflexivity|].
      split; [lia|]. split; [intros x g' H; exact H|]. split; [auto|].
      simpl. exists g. split; auto. unfold cap_text. rewrite Hcaps, Hget. reflexivity.
    + (* first occurrence: a named group *)
      unfold simple_items in Hitems.
      destruct (open_group name c) as [g c1] eqn:Ho. inversion Hitems; subst items c'. clear Hitems.
      inv_sl. match goal with H : sem (Grp _ _) _ _ |- _ => inv1 H end.
      match goal with H : sem (cat_list _) s ?s1 |- _ =>
        apply sem_cat_list in H; rename H into Hb; rename s1 into sm end.
      assert (Hbody : exists piece, consumed s sm piece /\ caps sm = caps s /\
                (forall v t, lookup name e = Some v -> value_text v = Some t -> piece = t)).
      { unfold var_body in Hb. destruct (lookup name e) as [v|] eqn:El.
        - destruct (value_text v) as [t|] eqn:Ev; [|discriminate].
          apply sem_lits in Hb. destruct Hb as [Hc Hcaps]. exists t. split; [auto|]. split; [auto|].
          intros v' t' Hv' Ht'. inversion Hv'; subst. congruence.
        - inv_sl. unfold rx_lazy_any in *.
          match goal with H : sem (Rep _ _ _ _) _ _ |- _ => inv1 H end.
          match goal with H : iter _ _ _ _ |- _ =>
            apply iter_chr in H; destruct H as [t [Hc [_ [_ Hcaps]]]] end.
          exists t. split; [auto|]. split; [auto|]. intros; discriminate. }
      destruct Hbody as [piece [Hc [Hcaps Hval]]].
      destruct (open_group_sound path e name c g c1 s sm piece Ho Herr Hna Hat Hinv Hc Hcaps Hval)
        as [P1 [P2 [P3 [P4 [P5 [P6 [P7 P8]]]]]]].
      exists piece. unfold step_ok. repeat (split; [assumption|]).
      simpl. exists g. auto.
  - discriminate.
  - (* star *)
    destruct (lookup (star_name k) e) eqn:El; [discriminate|].
    unfold simple_items in Hitems.
    destruct (open_group (star_name k) c) as [g c1] eqn:Ho.
    inversion Hitems; subst items c'. clear Hitems.
    inv_sl. match goal with H : sem (Grp _ _) _ _ |- _ => inv1 H end.
    unfold rx_not_slash in *.
    match goal with H : sem (Rep _ _ _ _) s ?s1 |- _ => rename s1 into sm; inv1 H end.
    match goal with H : iter _ _ _ _ |- _ =>
      apply iter_chr in H; destruct H as [t [Hc [_ [Hf Hcaps]]]] end.
    destruct (open_group_sound path e (star_name k) c g c1 s sm t Ho Herr
                (star_name_not_android k) Hat Hinv Hc Hcaps)
      as [P1 [P2 [P3 [P4 [P5 [P6 [P7 P8]]]]]]].
    { intros v t' Hv. rewrite El in Hv. discriminate. }
    exists t. unfold step_ok. repeat (split; [assumption|]).
    simpl. exists g. split; [auto|]. split; [auto|]. apply not_slash_chars. auto.
  - (* double star *)
    destruct (lookup (star_name k) e) eqn:El; [discriminate|].
    unfold simple_items in Hitems.
    destruct (open_group (star_name k) c) as [g c1] eqn:Ho.
    inversion Hitems; subst items c'. clear Hitems.
    inv_sl. match goal with H : sem (Alt _ _) _ _ |- _ => inv1 H end.
    + (* the group took part *)
      match goal with H : sem (Grp _ _) _ _ |- _ => inv1 H end.
      match goal with H : sem ?r s ?s1 |- _ =>
        change r with (cat_list (rx_any_plus :: map chr_lit suffix)) in H;
        apply sem_cat_list in H; rename H into Hb; rename s1 into sm end.
      inversion Hb; subst. clear Hb. unfold rx_any_plus in *.
      match goal with H : sem (Rep _ _ _ _) _ _ |- _ => inv1 H end.
      match goal with H : iter _ ?n _ _, Hn : 1 <= ?n |- _ =>
        apply iter_chr in H; destruct H as [t [Hc [Hlen [Hnl Hcaps]]]]; rename Hn into Hn1 end.
      match goal with H : sem_list (map chr_lit suffix) _ _ |- _ =>
        apply sem_lits in H; destruct H as [Hc2 Hcaps2] end.
      pose proof (consumed_trans _ _ _ _ _ Hc Hc2) as Hc3.
      assert (Hcaps3 : caps sm = caps s) by congruence.
      destruct (open_group_sound path e (star_name k) c g c1 s sm (t ++ suffix) Ho Herr
                  (star_name_not_android k) Hat Hinv Hc3 Hcaps3)
        as [P1 [P2 [P3 [P4 [P5 [P6 [P7 P8]]]]]]].
      { intros v t' Hv. rewrite El in Hv. discriminate. }
      exists (t ++ suffix). unfold step_ok. repeat (split; [assumption|]).
      simpl. exists g. split; [auto|]. right. split; [auto|].
      exists t. split; [destruct t; [simpl in Hlen; lia|discriminate]|].
      split; [apply (not_char_has nl); exact Hnl|reflexivity].
    + (* it did not *)
      match goal with H : sem Eps _ _ |- _ => inv1 H end.
      unfold open_group in Ho. inversion Ho; subst g c1. clear Ho. simpl in Herr.
      apply orb_false_iff in Herr. destruct Herr as [Herr Hvalid].
      apply orb_false_iff in Herr. destruct Herr as [Herr Hdup].
      destruct (lookup (star_name k) (c_names c)) eqn:Eln; [discriminate|].
      destruct Hinv as [I1 I2 I3 I4 I5].
      assert (Hnone : get_cap (c_next c) (caps s') = None).
      { destruct (get_cap (c_next c) (caps s')) as [[a b]|] eqn:E; auto.
        apply I2 in E. lia. }
      exists []. unfold step_ok. split; [apply consumed_refl|].
      split; [|split; [intros g _; reflexivity|]]; [|split; [simpl; lia|]];
        [|split; [apply names_ext_snoc|]]; [|split; [auto|]].
      * constructor; simpl.
        -- intros n g Hl. rewrite lookup_app in Hl. destruct (lookup n (c_names c)) eqn:E.
           ++ inversion Hl; subst. apply I1 in E. lia.
           ++ simpl in Hl. destruct (str_eqb n (star_name k)); inversion Hl; subst. lia.
        -- intros g a b Hg. apply I2 in Hg. lia.
        -- intros n g v t Hl Hle Hvt. rewrite lookup_app in Hl.
           destruct (lookup n (c_names c)) eqn:E.
           ++ inversion Hl; subst. eapply I3; eauto.
           ++ simpl in Hl. destruct (str_eqb n (star_name k)) eqn:En; [|discriminate].
              apply str_eqb_eq in En. subst n. rewrite El in Hle. discriminate.
        -- rewrite map_app. simpl. apply NoDup_app_snoc; auto. apply lookup_none_notin. auto.
        -- rewrite map_app, in_app_iff. simpl. intros [H|[H|[]]]; [auto|].
           pose proof (star_name_not_android k) as Hx. rewrite H, str_eqb_refl in Hx. discriminate.
      * simpl. exists (c_next c). split; [apply lookup_snoc_new; auto|].
        left. split; [|reflexivity]. unfold cap_text. rewrite Hnone. reflexivity.
Qed.

(* ---- a list of nodes ------------------------------------------------------------- *)
Lemma nodes_sound : forall path e ns c items c' s s',
  forallb (simple_node e) ns = true -> simple_compile e ns c = (items, c') -> c_err c' = false ->
  sem_list items s s' -> at_path path s -> inv path e c s ->
  exists pieces, consumed s s' (concat pieces) /\ inv path e c' s' /\
    caps_keep (c_next c) s s' /\ c_next c <= c_next c' /\
    names_ext (c_names c) (c_names c') /\ at_path path s' /\
    Forall2 (piece_ok path (c_names c') s') ns pieces.
Proof.
  intros path e. induction ns as [|n ns IH]; intros c items c' s s' Hs Hc Herr Hsem Hat Hinv.
  - simpl in Hc. inversion Hc; subst. inversion Hsem; subst.
    exists []. simpl. split; [apply consumed_refl|]. split; [auto|].
    split; [intros g _; reflexivity|]. split; [lia|]. split; [intros x g H; exact H|].
    split; [auto|constructor].
  - simpl in Hs. apply andb_true_iff in Hs. destruct Hs as [Hs1 Hs2]. simpl in Hc.
    destruct (simple_items e n c) as [a c1] eqn:E1.
    destruct (simple_compile e ns c1) as [b c2] eqn:E2. inversion Hc; subst items c'. clear Hc.
    apply sem_list_app in Hsem. destruct Hsem as [s1 [Hsa Hsb]].
    assert (Herr1 : c_err c1 = false).
    { destruct (c_err c1) eqn:E; auto.
      pose proof (simple_compile_err e ns c1 E) as H. rewrite E2 in H. simpl in H. congruence. }
    destruct (node_sound path e n c a c1 s s1 Hs1 E1 Herr1 Hsa Hat Hinv)
      as [piece [N1 [N2 [N3 [N4 [N5 [N6 N7]]]]]]].
    destruct (IH c1 b c2 s1 s' Hs2 E2 Herr Hsb N6 N2)
      as [pieces [L1 [L2 [L3 [L4 [L5 [L6 L7]]]]]]].
    exists (piece :: pieces). simpl.
    split; [eapply consumed_trans; eauto|]. split; [auto|].
    split; [intros g Hg; rewrite L3 by lia; apply N3; auto|].
    split; [lia|]. split; [intros x g H; apply L5, N5; auto|]. split; [auto|].
    constructor; auto.
    eapply piece_ok_stable; eauto. intros x g H. eapply inv_names_lt; eauto.
Qed.

(* ---- the match dictionary ---------------------------------------------------------- *)
Definition dpiece_ok (d : list (str * option str)) (n : node) (piece : str) : Prop :=
  match n with
  | NLit t => piece = t
  | NVar name _ => lookup name d = Some (Some piece)
  | NAndroid _ => False
  | NStar k => lookup (star_name k) d = Some (Some piece) /\ has_char c_slash piece = false
  | NStarstar k suffix =>
      (lookup (star_name k) d = Some None /\ piece = []) \/
      (lookup (star_name k) d = Some (Some piece) /\
       exists b, b <> [] /\ has_char nl b = false /\ piece = b ++ suffix)
  end.

Lemma lookup_groupdict : forall path names x name,
  lookup name (groupdict path names x) =
  option_map (fun g => group_text path g x) (lookup name names).
Proof.
  intros path names x name. unfold groupdict.
  induction names as [|[k g] names IH]; simpl; auto. destruct (str_eqb name k); auto.
Qed.

Lemma map_fst_groupdict : forall path names x, map fst (groupdict path names x) = map fst names.
Proof.
  intros. unfold groupdict. induction names as [|[k g] names IH]; simpl; auto. rewrite IH. reflexivity.
Qed.

Lemma group_text_cap : forall path g s,
  group_text path g (mkres 0 (pos s) (caps s)) = cap_text path s g.
Proof. intros. unfold group_text, group, cap_text. simpl. destruct (get_cap g (caps s)) as [[a b]|]; auto. Qed.

Lemma piece_ok_dict : forall path names s n piece,
  piece_ok path names s n piece ->
  dpiece_ok (groupdict path names (mkres 0 (pos s) (caps s))) n piece.
Proof.
  intros path names s n piece H.
  destruct n as [t|name rep|rep|k|k suffix]; simpl in *; auto.
  - destruct H as [g [H1 H2]]. rewrite lookup_groupdict, H1. simpl. rewrite group_text_cap, H2. auto.
  - destruct H as [g [H1 [H2 H3]]]. rewrite lookup_groupdict, H1. simpl.
    rewrite group_text_cap, H2. auto.
  - destruct H as [g [H1 H2]]. rewrite lookup_groupdict, H1. simpl. rewrite group_text_cap.
    destruct H2 as [[H2 H3]|[H2 H3]]; rewrite H2; auto.
Qed.

Lemma inv_init : forall path e, inv path e (mkcst 1 [] false) (st_at path 0).
Proof.
  intros. constructor; simpl; try (intros; discriminate).
  - constructor.
  - intros [].
Qed.

Lemma at_eol_false : forall s, at_eol false s = true -> suf s = [] \/ suf s = [10%N].
Proof.
  unfold at_eol. intros s H. destruct (suf s) as [|c t]; auto.
  apply andb_true_iff in H. destruct H as [H1 H2]. apply N.eqb_eq in H1. subst c.
  simpl in H2. destruct t; [auto|discriminate].
Qed.

(* The decomposition theorem. *)
Theorem match_decompose : forall M path d, simple M -> match_ M path = Ok (Some d) ->
  exists pieces,
    upto_final_newline path (concat pieces) /\
    Forall2 (dpiece_ok d) (p_nodes (m_pat M)) pieces /\
    NoDup (map fst d) /\
    (forall name v t x, lookup name (m_env M) = Some v -> value_text v = Some t ->
                        lookup name d = Some x -> x = Some t).
Proof.
  intros M path d HS Hm. pose proof HS as [Hs [Hr Hn]].
  unfold match_ in Hm. rewrite (regex_of_simple M HS) in Hm.
  destruct (simple_compile (m_env M) (p_nodes (m_pat M)) (mkcst 1 [] false)) as [items c] eqn:Ec.
  destruct (c_err c) eqn:Eerr; [discriminate|]. simpl in Hm.
  destruct (rmatch _ path 0) as [|x|] eqn:Er; try discriminate.
  apply rmatch_sem in Er. destruct Er as [sF [Hsem Hx]]. subst x.
  apply sem_cat_list, sem_list_app in Hsem. destruct Hsem as [s1 [Hsa Hsb]].
  inv_sl. match goal with H : sem (Eol false) _ _ |- _ => inv1 H end.
  destruct (nodes_sound path (m_env M) _ _ _ _ _ _ Hs Ec Eerr Hsa (at_path_start path)
              (inv_init path (m_env M)))
    as [pieces [L1 [L2 [L3 [L4 [L5 [L6 L7]]]]]]].
  set (d0 := groupdict path (c_names c) (mkres 0 (pos sF) (caps sF))) in *.
  assert (Hna : has_key s_android_locale d0 = false).
  { unfold has_key, d0. rewrite lookup_groupdict.
    rewrite (notin_lookup_none _ _ (inv_noandroid _ _ _ _ L2)). reflexivity. }
  unfold add_locale in Hm. rewrite Hna in Hm. simpl in Hm. inversion Hm; subst d. clear Hm.
  exists pieces. split; [|split; [|split]].
  - destruct (at_path_consumed _ _ _ _ (at_path_start path) L1) as [_ Hp].
    simpl in Hp. unfold slice in Hp. simpl in Hp. rewrite Nat.sub_0_r in Hp.
    destruct L6 as [_ [A2 _]].
    match goal with H : at_eol false sF = true |- _ => rename H into Heol end.
    apply at_eol_false in Heol. destruct Heol as [H|H].
    + left. rewrite Hp. rewrite <- (firstn_skipn (pos sF) path) at 1. rewrite <- A2, H.
      apply app_nil_r.
    + right. rewrite Hp. rewrite <- (firstn_skipn (pos sF) path) at 1. rewrite <- A2, H. reflexivity.
  - eapply Forall2_imp; [|exact L7]. intros n piece H. apply piece_ok_dict. exact H.
  - unfold d0. rewrite map_fst_groupdict. eapply inv_nodup; eauto.
  - intros name v t x Hl Hv Hd. unfold d0 in Hd. rewrite lookup_groupdict in Hd.
    destruct (lookup name (c_names c)) as [g|] eqn:Eg; [|discriminate]. simpl in Hd.
    inversion Hd; subst x. rewrite group_text_cap. eapply inv_bound; eauto.
Qed.

(* ---- nothing but whole paths match: for every pattern and environment ------------- *)
Theorem match_whole_path : forall e p r names path x,
  regex_of_pattern e p = Ok (r, names) -> rmatch r path 0 = MSome x ->
  m_end x = length path \/ (S (m_end x) = length path /\ skipn (m_end x) path = [10%N]).
Proof.
  intros e p r names path x Hr Hm. unfold regex_of_pattern in Hr.
  destruct (rx_pattern_with _ _ p _) as [[items c]|t]; [|discriminate]. simpl in Hr.
  destruct (c_err c); [discriminate|]. inversion Hr; subst r names. clear Hr.
  apply rmatch_sem in Hm. destruct Hm as [sF [Hsem Hx]]. subst x. simpl.
  pose proof (sem_consumed _ _ _ Hsem) as [t Hc].
  destruct (at_path_consumed _ _ _ _ (at_path_start path) Hc) as [[_ [A2 A3]] _].
  apply sem_cat_list, sem_list_app in Hsem. destruct Hsem as [s1 [_ Hsb]].
  inv_sl. match goal with H : sem (Eol false) _ _ |- _ => inv1 H end.
  match goal with H : at_eol false sF = true |- _ => apply at_eol_false in H; rename H into He end.
  assert (Hl : length (suf sF) = length path - pos sF) by (rewrite A2; apply skipn_length).
  destruct He as [He|He]; rewrite He in Hl; simpl in Hl.
  - left. lia.
  - right. split; [lia|]. rewrite <- A2. exact He.
Qed.
