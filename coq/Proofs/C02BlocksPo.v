(* C02, PO: the block theorem.  A file that is a sequence of blocks
     - a message: optional comment lines #..., optionally whitespace with at most ONE newline
       (the comment stays attached across it), then  [msgctxt items ws] msgid items ws msgstr
       items , where items is a non-empty list of  ws* quote tokens quote  (tokens: plain characters and
       the five escapes),
     - a standalone comment, followed by the end of the file or by whitespace with at least
       TWO newlines (the comment expression consumes the newline that ends the comment, so
       one blank line is a whitespace run with a single newline: the comment is then the
       attached comment of the following message -- the listed finding
       po-comment-attached-across-one-blank-line; see [px_one_blank_line]),
     - a run of whitespace,
   parses (Parser.getNext with PoParser.createEntity) to exactly the entries computed from the
   blocks by [pentries_of]. *)
From Coq Require Import NArith List Bool Arith Lia.
From CL Require Import Base.Sx Base.Res Base.Str Regex.Rx Regex.RxLemmas Model.Entry Model.Parse
  Model.ParseFormats Generated.RxParser Proofs.UnescapeProofs
  Proofs.ClassLoop Proofs.ClassLoop2 Proofs.C02Props Proofs.WalkProofs Proofs.C02Roundtrip
  Proofs.C02BlocksRx Proofs.C02BlocksIniRx Proofs.C02BlocksIncRx Proofs.C02Po Proofs.ParseContracts
  Proofs.C02BlocksPoRx.
Import ListNotations.

Local Arguments Nat.ltb : simpl never.
Local Arguments Nat.leb : simpl never.
Local Arguments Nat.eqb : simpl never.
Local Arguments N.eqb : simpl never.
Local Arguments N.leb : simpl never.
Local Arguments chr_ok : simpl never.

Ltac norm_app := repeat (progress (rewrite <- ?app_assoc; cbn [app])).

(* ---- blocks ------------------------------------------------------------------------------------- *)
Inductive pblock :=
| PBlank (w : str)
| PComment (cs : list (N * str))
| PEntity (cs : list (N * str)) (iw : str)
          (ctxt : option (list pitem * str))      (* msgctxt items, whitespace after them *)
          (idl : list pitem) (w2 : str)            (* msgid items, whitespace before msgstr *)
          (strl : list pitem).                     (* msgstr items *)

Definition ctxt_text (c : option (list pitem * str)) : str :=
  match c with Some (ci, w1) => s_msgctxt ++ items_text ci ++ w1 | None => [] end.

Definition msg_text (ctxt : option (list pitem * str)) (idl : list pitem) (w2 : str) (strl : list pitem) : str :=
  ctxt_text ctxt ++ s_msgid ++ items_text idl ++ w2 ++ s_msgstr ++ items_text strl.

Definition ptext (b : pblock) : str :=
  match b with
  | PBlank w => w
  | PComment cs => ctext cs
  | PEntity cs iw ctxt idl w2 strl => ctext cs ++ iw ++ msg_text ctxt idl w2 strl
  end.

Definition is_nil {A} (l : list A) : bool := match l with [] => true | _ => false end.
Definition all_ws (w : str) : bool := forallb (fun c => mem c WS) w.
Definition legal_items (its : list pitem) : bool := negb (is_nil its) && forallb legal_pitem its.

Definition legal_pblockb (b : pblock) : bool :=
  match b with
  | PBlank w => negb (is_nil w) && all_ws w
  | PComment cs => negb (is_nil cs) && forallb legal_cline_p cs
  | PEntity cs iw ctxt idl w2 strl =>
      forallb legal_cline_p cs && all_ws iw && (count_char 10%N iw <=? 1) &&
      (negb (is_nil cs) || is_nil iw) &&
      match ctxt with Some (ci, w1) => legal_items ci && all_ws w1 | None => true end &&
      legal_items idl && all_ws w2 && legal_items strl
  end.
Definition legal_pblock (b : pblock) : Prop := legal_pblockb b = true.

(* a standalone comment is followed by the end of the file or by whitespace with at least two
   newlines *)
Fixpoint psep (bs : list pblock) : bool :=
  match bs with
  | [] => true
  | PComment _ :: rest =>
      match rest with
      | [] => true
      | PBlank w :: _ => 2 <=? count_char 10%N w
      | _ => false
      end && psep rest
  | _ :: rest => psep rest
  end.

(* the License rule applies below offset 2 (the whole comment text is searched) *)
Fixpoint plic (off : nat) (bs : list pblock) : bool :=
  match bs with
  | PBlank w :: rest => plic (off + length w) rest
  | PEntity cs _ _ _ _ _ :: _ =>
      (2 <=? off) || negb (contains s_License (ctext cs))
  | _ => true
  end.

Definition padjacent_okb (bs : list pblock) : bool := psep bs && plic 0 bs.
Definition padjacent_ok (bs : list pblock) : Prop := padjacent_okb bs = true.

(* ---- the expected entries ------------------------------------------------------------------------- *)
Definition flush (off w : nat) : list entry :=
  match w with 0 => [] | _ => [mk_white (off, off + w)] end.

Fixpoint pents (off w : nat) (bs : list pblock) : list entry :=
  match bs with
  | [] => flush off w
  | PBlank x :: rest => pents off (w + length x) rest
  | PComment cs :: rest =>
      let a := off + w in
      flush off w ++ mk_comment (a, a + length (ctext cs)) :: pents (a + length (ctext cs)) 0 rest
  | PEntity cs iw ctxt idl w2 strl :: rest =>
      let a := off + w in
      let l := a + length (ctext cs) in
      let k := l + length iw in
      let id_end := k + length (ctxt_text ctxt) + 5 + length (items_text idl) in
      let c3 := id_end + length w2 in
      let c4 := c3 + 6 + length (items_text strl) in
      flush off w ++
      mkentry KEntity (k, c4) (Some (k, id_end)) (Some (c3, c4))
              (match cs with [] => None | _ => Some (a, l) end)
              (match iw with [] => None | _ => Some (l, k) end)
      :: pents c4 0 rest
  end.

Definition pentries_of (bs : list pblock) : list entry := pents 0 0 bs.
Definition pfile_text (bs : list pblock) : str := concat (map ptext bs).

(* ---- sanity, by evaluation -------------------------------------------------------------------------- *)
Definition A (l : list nat) : str := map N.of_nat l.
Definition it (lead : list nat) (toks : po_item) : pitem := (A lead, toks).
(*  msgid <a>  newline  msgstr <b\n> <c>   (<..> stands for a quoted item)  *)
Definition px_e1 : pblock :=
  PEntity [] [] None [it [32] [PPlain 97%N]] (A [10])
          [it [32] [PPlain 98%N; PEsc 110%N]; it [32] [PPlain 99%N]].
(*  # c / #, d / msgctxt <x> / msgid <> / <a, escaped quote, b> / msgstr <>  *)
Definition px_e2 : pblock :=
  PEntity [(35%N, A [32; 99]); (35%N, A [44; 32; 100])] [] (Some ([it [32] [PPlain 120%N]], A [10]))
          [it [32] []; it [10] [PPlain 97%N; PEsc 34%N; PPlain 98%N]] (A [10]) [it [] []].
(* the same comment, one blank line, then the message: still attached *)
Definition px_e3 : pblock :=
  PEntity [(35%N, A [32; 99])] (A [10]) None [it [32] [PPlain 97%N]] (A [32]) [it [32] [PPlain 98%N]].
Definition px_c : pblock := PComment [(35%N, A [32; 115]); (35%N, [])].
Definition px_b : pblock := PBlank (A [10]).
Definition px_b2 : pblock := PBlank (A [10; 32; 10]).

Example px_all_kinds :
  let bs := [px_c; px_b2; px_e1; px_b; px_e2; px_b2; px_e3; px_b; px_b; px_c] in
  Forall legal_pblock bs /\ padjacent_ok bs /\ walk_po (pfile_text bs) = Ok (pentries_of bs) /\
  map (fun e => (e_kind e, e_span e, e_key e, e_val e, e_pre e, e_white e)) (pentries_of bs) =
  [(KComment, (0, 6), None, None, None, None);
   (KWhitespace, (6, 9), Some (6, 9), Some (6, 9), None, None);
   (KEntity, (9, 35), Some (9, 18), Some (19, 35), None, None);
   (KWhitespace, (35, 36), Some (35, 36), Some (35, 36), None, None);
   (KEntity, (45, 81), Some (45, 72), Some (73, 81), Some (36, 45), None);
   (KWhitespace, (81, 84), Some (81, 84), Some (81, 84), None, None);
   (KEntity, (89, 109), Some (89, 98), Some (99, 109), Some (84, 88), Some (88, 89));
   (KWhitespace, (109, 111), Some (109, 111), Some (109, 111), None, None);
   (KComment, (111, 117), None, None, None, None)].
Proof. split; [repeat constructor|]. split; [vm_compute; reflexivity|]. split; vm_compute; reflexivity. Qed.

(* the separation premise is needed: a comment block, ONE blank line, a message is NOT parsed as
   a standalone comment and a message (the comment is attached: the listed finding); written
   as a message with its comment attached across the blank line it is *)
Example px_one_blank_line :
  let msg := PEntity [] [] None [it [32] [PPlain 97%N]] (A [32]) [it [32] [PPlain 98%N]] in
  let bs := [PComment [(35%N, A [32; 99])]; px_b; msg] in
  Forall legal_pblock bs /\ padjacent_okb bs = false /\
  walk_po (pfile_text bs) <> Ok (pentries_of bs) /\
  pfile_text bs = pfile_text [px_e3] /\ padjacent_ok [px_e3] /\
  walk_po (pfile_text [px_e3]) = Ok (pentries_of [px_e3]).
Proof.
  split; [repeat constructor|]. split; [vm_compute; reflexivity|]. split; [vm_compute; discriminate|].
  split; [reflexivity|]. split; vm_compute; reflexivity.
Qed.

(* ---- createEntity ------------------------------------------------------------------------------------- *)
Lemma po_ws_shape : rx_po_ws = rx_props_ws.
Proof. reflexivity. Qed.

Lemma skip_ws_run : forall (a w Y : str), all_ws w = true -> head_is (fun c => mem c WS) Y = false ->
  skip_ws rx_po_ws (a ++ w ++ Y) (length a) = length a + length w.
Proof.
  intros a w Y Hw HY. unfold skip_ws. rewrite po_ws_shape. destruct w as [|c w'].
  - simpl app. rewrite omatch_ws_none by exact HY. simpl. lia.
  - rewrite omatch_ws_run by (auto; discriminate). reflexivity.
Qed.

Lemma head_msgid : forall X, head_is (fun c => mem c (34%N :: WS)) (s_msgid ++ X) = false.
Proof. reflexivity. Qed.
Lemma head_msgstr : forall X, head_is (fun c => mem c (34%N :: WS)) (s_msgstr ++ X) = false.
Proof. reflexivity. Qed.
Lemma head_ws_weak : forall Y, head_is (fun c => mem c (34%N :: WS)) Y = false ->
  head_is (fun c => mem c WS) Y = false.
Proof.
  intros [|c Y] H; [reflexivity|]. cbn [head_is] in *. unfold mem in *. cbn [existsb] in H.
  apply orb_false_iff in H. apply H.
Qed.

Lemma legal_items_split : forall its, legal_items its = true -> its <> [] /\ forallb legal_pitem its = true.
Proof.
  intros its H. unfold legal_items in H. apply andb_true_iff in H. destruct H as [H1 H2].
  split; [destruct its; [discriminate|discriminate]|exact H2].
Qed.

Lemma create_po_ok : forall (a : str) ctxt idl w2 strl T k cc wsp,
  m_start k = length a ->
  match ctxt with Some (ci, w1) => legal_items ci && all_ws w1 | None => true end = true ->
  legal_items idl = true -> all_ws w2 = true -> legal_items strl = true -> item_stops T ->
  let id_end := length a + length (ctxt_text ctxt) + 5 + length (items_text idl) in
  let c3 := id_end + length w2 in
  let c4 := c3 + 6 + length (items_text strl) in
  create_po rx_po_ws rx_po_listitem (a ++ msg_text ctxt idl w2 strl ++ T) k cc wsp =
  Some (mkentry KEntity (length a, c4) (Some (length a, id_end)) (Some (c3, c4)) cc wsp).
Proof.
  intros a ctxt idl w2 strl T k cc wsp Hk Hctx Hid Hw2 Hstr HT id_end c3 c4.
  destruct (legal_items_split _ Hid) as [Hid1 Hid2]. destruct (legal_items_split _ Hstr) as [Hs1 Hs2].
  unfold create_po, create_po_full. rewrite Hk.
  set (s := a ++ msg_text ctxt idl w2 strl ++ T).
  set (R2 := s_msgid ++ items_text idl ++ w2 ++ s_msgstr ++ items_text strl ++ T).
  (* the optional msgctxt part *)
  assert (Hc : (let (msgctxt, cursor) :=
                  match parse_string_list rx_po_listitem s (length a) s_msgctxt with
                  | Some (fr, c1) => (Some fr, skip_ws rx_po_ws s c1)
                  | None => (None, length a)
                  end in cursor) = length a + length (ctxt_text ctxt) /\
               s = (a ++ ctxt_text ctxt) ++ R2).
  { destruct ctxt as [[ci w1]|].
    - apply andb_true_iff in Hctx. destruct Hctx as [Hci Hw1].
      destruct (legal_items_split _ Hci) as [Hc1 Hc2].
      assert (Es : s = a ++ s_msgctxt ++ items_text ci ++ (w1 ++ R2)).
      { unfold s, msg_text, R2. cbn [ctxt_text]. norm_app. reflexivity. }
      rewrite Es, parse_string_list_ok; auto.
      2:{ exists w1, R2. split; [reflexivity|]. split; [exact Hw1|apply head_msgid]. }
      assert (Es2 : a ++ s_msgctxt ++ items_text ci ++ w1 ++ R2 =
                    (a ++ s_msgctxt ++ items_text ci) ++ w1 ++ R2) by (norm_app; reflexivity).
      split.
      + rewrite Es2. replace (length a + length s_msgctxt + length (items_text ci))
          with (length (a ++ s_msgctxt ++ items_text ci)) by (rewrite !app_length; lia).
        rewrite skip_ws_run; [| exact Hw1 | reflexivity].
        cbn [ctxt_text]. rewrite !app_length. lia.
      + cbn [ctxt_text]. norm_app. reflexivity.
    - split.
      + unfold parse_string_list.
        assert (Hsw : startswith_at s_msgctxt s (length a) = false).
        { unfold startswith_at, s, msg_text. cbn [ctxt_text app]. rewrite skipn_app_length.
          rewrite <- !app_assoc.
          replace (starts_with s_msgctxt (s_msgid ++ items_text idl ++ w2 ++ s_msgstr ++ items_text strl ++ T))
            with false by reflexivity.
          apply andb_false_r. }
        rewrite Hsw. simpl. lia.
      + unfold s, msg_text, R2. cbn [ctxt_text]. norm_app. reflexivity. }
  destruct Hc as [Hcur Es].
  destruct (match parse_string_list rx_po_listitem s (length a) s_msgctxt with
            | Some (fr, c1) => (Some fr, skip_ws rx_po_ws s c1)
            | None => (None, length a)
            end) as [msgctxt cursor] eqn:Ectx.
  cbv beta iota zeta in Hcur. subst cursor.
  (* msgid *)
  set (P := a ++ ctxt_text ctxt) in *.
  assert (EP : length a + length (ctxt_text ctxt) = length P) by (unfold P; rewrite app_length; reflexivity).
  rewrite EP.
  assert (Es3 : s = P ++ s_msgid ++ items_text idl ++ (w2 ++ s_msgstr ++ items_text strl ++ T))
    by (rewrite Es; unfold R2; reflexivity).
  set (Q := P ++ s_msgid ++ items_text idl).
  assert (EQ : length P + length s_msgid + length (items_text idl) = length Q)
    by (unfold Q; rewrite !app_length; lia).
  assert (Pid : parse_string_list rx_po_listitem s (length P) s_msgid =
                Some (frag_spans (length P + length s_msgid) idl, length Q)).
  { rewrite Es3, parse_string_list_ok; auto; [rewrite EQ; reflexivity|].
    exists w2, (s_msgstr ++ items_text strl ++ T). split; [reflexivity|]. split; [exact Hw2|apply head_msgstr]. }
  rewrite Pid.
  (* the whitespace before msgstr *)
  assert (Es4 : s = Q ++ w2 ++ (s_msgstr ++ items_text strl ++ T)).
  { rewrite Es3. unfold Q. norm_app. reflexivity. }
  set (Q2 := Q ++ w2).
  assert (EQ2 : length Q + length w2 = length Q2) by (unfold Q2; rewrite app_length; reflexivity).
  assert (Hsk : skip_ws rx_po_ws s (length Q) = length Q2).
  { rewrite Es4, skip_ws_run; [exact EQ2| exact Hw2 | reflexivity]. }
  rewrite Hsk.
  (* msgstr *)
  assert (Es5 : s = Q2 ++ s_msgstr ++ items_text strl ++ T).
  { rewrite Es4. unfold Q2. norm_app. reflexivity. }
  assert (Pstr : parse_string_list rx_po_listitem s (length Q2) s_msgstr =
                 Some (frag_spans (length Q2 + length s_msgstr) strl,
                       length Q2 + length s_msgstr + length (items_text strl))).
  { rewrite Es5, parse_string_list_ok; auto. }
  rewrite Pstr.
  unfold id_end, c3, c4. rewrite <- EQ2, <- EQ, <- EP. simpl length.
  replace (length a + length (ctxt_text ctxt) + 5 + length (items_text idl) + length w2 + 6 +
           length (items_text strl))
    with (length a + length (ctxt_text ctxt) + 5 + length (items_text idl) + length w2 + 6 +
          length (items_text strl)) by reflexivity.
  reflexivity.
Qed.

(* ---- steps ----------------------------------------------------------------------------------------------- *)
Lemma head_is_app : forall f (x y : str), x <> [] -> head_is f (x ++ y) = head_is f x.
Proof. intros f [|c x] y H; [contradiction|reflexivity]. Qed.

Lemma ws_not_35 : forall c, mem c WS = true -> N.eqb c 35 = false.
Proof. intros c H. apply mem_in in H. simpl in H. destruct H as [<-|[<-|[<-|[<-|[]]]]]; reflexivity. Qed.

Lemma head_ws_not_35 : forall (x : str), x <> [] -> all_ws x = true -> head_is (fun c => N.eqb c 35) x = false.
Proof.
  intros [|c x] Hne H; [contradiction|]. unfold all_ws in H. simpl in H. apply andb_true_iff in H.
  destruct H as [H _]. cbn [head_is]. apply ws_not_35. exact H.
Qed.

Ltac open_po :=
  unfold gn_po, the_fmt_po, get_next_base, fmt_po;
  cbn [f_comment f_ws f_key f_cstyle f_license_below f_create f_junk]; rewrite ?po_ws_shape.

Lemma gn_po_white : forall (a x y : str),
  x <> [] -> all_ws x = true -> head_is (fun c => mem c WS) y = false ->
  gn_po (a ++ x ++ y) (length a) = mk_white (length a, length a + length x).
Proof.
  intros a x y Hne Hx Hy. open_po.
  rewrite omatch_pcomment_none by (rewrite head_is_app by exact Hne; apply head_ws_not_35; auto).
  rewrite omatch_ws_run by auto. reflexivity.
Qed.

(* the text of a message starts with msgctxt or msgid *)
Lemma msg_head : forall ctxt idl w2 strl X,
  head_is (fun c => mem c WS) (msg_text ctxt idl w2 strl ++ X) = false /\
  head_is (fun c => N.eqb c 35) (msg_text ctxt idl w2 strl ++ X) = false /\
  head_is (fun c => mem c (34%N :: WS)) (msg_text ctxt idl w2 strl ++ X) = false.
Proof. intros [[ci w1]|] idl w2 strl X; repeat split. Qed.

Lemma msg_key : forall (a : str) ctxt idl w2 strl X,
  exists k, omatch rx_po_key (a ++ msg_text ctxt idl w2 strl ++ X) (length a) = Some k /\
            m_start k = length a.
Proof.
  intros a [[ci w1]|] idl w2 strl X; unfold msg_text; cbn [ctxt_text].
  - replace ((s_msgctxt ++ items_text ci ++ w1) ++ s_msgid ++ items_text idl ++ w2 ++ s_msgstr ++ items_text strl)
      with (s_msgctxt ++ (items_text ci ++ w1 ++ s_msgid ++ items_text idl ++ w2 ++ s_msgstr ++ items_text strl))
      by (norm_app; reflexivity).
    rewrite <- app_assoc. apply omatch_po_key_ctxt.
  - cbn [app]. rewrite <- app_assoc. apply omatch_po_key_id.
Qed.

Lemma match_ne' : forall {A B : Type} (l : list A) (x : B), l <> [] ->
  match l with [] => None | _ :: _ => Some x end = Some x.
Proof. intros A B [|c l] x H; [contradiction|reflexivity]. Qed.

Lemma opt_some : forall {A : Type} (o : option A) (e d : A), o = Some e ->
  match o with Some x => x | None => d end = e.
Proof. intros A o e d ->. reflexivity. Qed.

Lemma count_ws_le : forall (x : str) r, count_char 10%N (firstn r x) <= count_char 10%N x.
Proof.
  intros x r. rewrite <- (firstn_skipn r x) at 2. unfold count_char. rewrite filter_app, app_length. lia.
Qed.

Lemma gn_po_entity : forall (a : str) cs iw ctxt idl w2 strl T,
  legal_pblockb (PEntity cs iw ctxt idl w2 strl) = true -> item_stops T ->
  (length a < 2 -> contains s_License (ctext cs) = false) ->
  let l := length a + length (ctext cs) in
  let k := l + length iw in
  let id_end := k + length (ctxt_text ctxt) + 5 + length (items_text idl) in
  let c3 := id_end + length w2 in
  let c4 := c3 + 6 + length (items_text strl) in
  gn_po (a ++ ctext cs ++ iw ++ msg_text ctxt idl w2 strl ++ T) (length a) =
  mkentry KEntity (k, c4) (Some (k, id_end)) (Some (c3, c4))
          (match cs with [] => None | _ => Some (length a, l) end)
          (match iw with [] => None | _ => Some (l, k) end).
Proof.
  intros a cs iw ctxt idl w2 strl T Hleg HT Hlic l k id_end c3 c4.
  cbn [legal_pblockb] in Hleg.
  repeat (apply andb_true_iff in Hleg; let H := fresh "L" in destruct Hleg as [Hleg H]).
  rename Hleg into Lcs. apply Nat.leb_le in L4.
  set (M := msg_text ctxt idl w2 strl) in *.
  destruct (msg_head ctxt idl w2 strl T) as [M1 [M2 M3]]. fold M in M1, M2, M3.
  assert (Hcase : cs = [] \/ cs <> []) by (destruct cs; [left; reflexivity|right; discriminate]).
  destruct Hcase as [Ecs|Hne].
  - (* no comment: then no inner whitespace either *)
    subst cs. assert (Eiw : iw = []) by (destruct iw; [reflexivity|discriminate]). subst iw.
    cbn [ctext concat map app] in *. unfold l, k in *. cbn [length] in *. rewrite !Nat.add_0_r in *.
    destruct (msg_key a ctxt idl w2 strl T) as [kk [K1 K2]]. fold M in K1.
    open_po. rewrite omatch_pcomment_none by exact M2. cbv beta iota zeta.
    rewrite omatch_ws_none by exact M1. cbv beta iota zeta. rewrite K1.
    unfold M. rewrite create_po_ok; auto.
    unfold c4, c3, id_end, k, l. cbn [length]. rewrite !Nat.add_0_r. reflexivity.
  - rewrite (match_ne' cs) by exact Hne.
    set (LC0 := a ++ ctext cs). set (PK0 := LC0 ++ iw).
    assert (EL : l = length LC0) by (unfold l, LC0; rewrite app_length; reflexivity).
    assert (EP : k = length PK0) by (unfold k, PK0; rewrite app_length, EL; reflexivity).
    set (s := a ++ ctext cs ++ iw ++ M ++ T).
    assert (Es2 : s = LC0 ++ iw ++ M ++ T) by (unfold s, LC0; norm_app; reflexivity).
    assert (Es3 : s = PK0 ++ M ++ T) by (unfold s, PK0, LC0; norm_app; reflexivity).
    assert (Ec : omatch rx_po_comment s (length a) = Some (mkres (length a) (length LC0) [])).
    { unfold s. rewrite omatch_pcomment; auto.
      - rewrite <- EL. reflexivity.
      - destruct iw as [|c iw']; [exact M2|]. cbn [app head_is]. apply ws_not_35.
        unfold all_ws in L5. simpl in L5. apply andb_true_iff in L5. apply L5. }
    assert (Lic : (length a <? 2) &&
                  contains s_License (comment_val CPlain (slice s (length a) (length LC0))) = false).
    { cbn [comment_val]. unfold s, LC0. rewrite app_length, slice_mid.
      destruct (length a <? 2) eqn:E2; [|reflexivity]. apply Nat.ltb_lt in E2. rewrite Hlic by exact E2.
      reflexivity. }
    destruct (msg_key PK0 ctxt idl w2 strl T) as [kk [K1 K2]]. fold M in K1. rewrite <- Es3 in K1.
    assert (Hcr : create_po rx_props_ws rx_po_listitem s kk
                    (Some (length a, length LC0)) (match iw with [] => None | _ => Some (length LC0, length PK0) end) =
                  Some (mkentry KEntity (k, c4) (Some (k, id_end)) (Some (c3, c4))
                          (Some (length a, length LC0)) (match iw with [] => None | _ => Some (length LC0, length PK0) end))).
    { rewrite Es3. unfold M. rewrite <- po_ws_shape. rewrite create_po_ok; auto.
      unfold c4, c3, id_end. rewrite EP. reflexivity. }
    open_po. fold s. rewrite Ec. cbn [m_start m_end]. rewrite Lic. cbv beta iota zeta. cbn [m_start m_end].
    assert (Hiw : iw = [] \/ iw <> []) by (destruct iw; [left; reflexivity|right; discriminate]).
    destruct Hiw as [Eiw|Hiw].
    + (* the key follows the comment directly *)
      subst iw.
      assert (Ew : omatch rx_props_ws s (length LC0) = None).
      { rewrite Es2. cbn [app]. apply omatch_ws_none. exact M1. }
      rewrite Ew. cbv beta iota zeta.
      assert (EPL : length PK0 = length LC0) by (unfold PK0; rewrite app_nil_r; reflexivity).
      unfold mspan. cbn [m_start m_end]. rewrite EPL in K1. rewrite K1, EL. apply opt_some. exact Hcr.
    + assert (Ew : omatch rx_props_ws s (length LC0) = Some (mkres (length LC0) (length PK0) [])).
      { rewrite Es2, omatch_ws_run; [unfold PK0; rewrite app_length; reflexivity| exact Hiw | exact L5 | exact M1]. }
      rewrite Ew. cbn [m_start m_end].
      assert (Ect : (1 <? count_char 10%N (slice s (length LC0) (length PK0))) = false).
      { rewrite Es2. unfold PK0. rewrite app_length, slice_mid. apply Nat.ltb_ge. exact L4. }
      rewrite Ect. cbv beta iota zeta. unfold mspan. cbn [m_start m_end]. rewrite K1, EL.
      rewrite (match_ne' iw) in * by exact Hiw.
      etransitivity; [apply opt_some; exact Hcr|]. rewrite EP. reflexivity.
Qed.

(* ---- step: a standalone comment ---------------------------------------------------------------------------- *)
Lemma count_char_app : forall c (x y : str), count_char c (x ++ y) = count_char c x + count_char c y.
Proof. intros. unfold count_char. rewrite filter_app, app_length. reflexivity. Qed.

Lemma gn_po_comment : forall (a : str) cs after,
  cs <> [] -> forallb legal_cline_p cs = true ->
  (after = [] \/ exists x y, after = x ++ y /\ x <> [] /\ all_ws x = true /\ 2 <= count_char 10%N x) ->
  gn_po (a ++ ctext cs ++ after) (length a) = mk_comment (length a, length a + length (ctext cs)).
Proof.
  intros a cs after Hne Hcs Hafter. set (s := a ++ ctext cs ++ after).
  assert (HX : head_is (fun c => N.eqb c 35) after = false).
  { destruct Hafter as [->|[x [y [-> [Hx1 [Hx2 _]]]]]]; [reflexivity|].
    rewrite head_is_app by exact Hx1. apply head_ws_not_35; auto. }
  set (LC := a ++ ctext cs).
  assert (EL : length a + length (ctext cs) = length LC) by (unfold LC; rewrite app_length; reflexivity).
  assert (Es2 : s = LC ++ after) by (unfold s, LC; rewrite <- app_assoc; reflexivity).
  assert (Ec : omatch rx_po_comment s (length a) = Some (mkres (length a) (length LC) [])).
  { unfold s. rewrite omatch_pcomment by auto. rewrite EL. reflexivity. }
  open_po. fold s. rewrite Ec. cbn [m_start m_end].
  destruct ((length a <? 2) &&
            contains s_License (comment_val CPlain (slice s (length a) (length LC)))) eqn:Lic.
  - unfold mspan. cbn [m_start m_end]. rewrite EL. reflexivity.
  - cbv beta iota zeta. cbn [m_start m_end].
    destruct Hafter as [Ea|[x [y [Ea [Hx1 [Hx2 Hx3]]]]]].
    + (* the end of the file: no whitespace, no key *)
      assert (Ew : omatch rx_props_ws s (length LC) = None).
      { rewrite Es2, Ea. apply omatch_ws_none. reflexivity. }
      rewrite Ew. cbv beta iota zeta.
      assert (Ek : omatch rx_po_key s (length LC) = None) by (rewrite Es2, Ea; apply omatch_po_key_nil).
      rewrite Ek. unfold mspan. cbn [m_start m_end]. rewrite EL. reflexivity.
    + set (r := run false (points WS) None after).
      assert (Hr : length x <= r).
      { unfold r. rewrite Ea. apply run_ge_prefix. apply ws_class. exact Hx2. }
      assert (Ew : omatch rx_props_ws s (length LC) = Some (mkres (length LC) (length LC + r) [])).
      { rewrite Es2, omatch_ws. cbv zeta. fold r.
        replace (1 <=? r) with true; [reflexivity|]. symmetry. apply Nat.leb_le.
        destruct x; [contradiction|simpl in Hr; lia]. }
      rewrite Ew. cbn [m_start m_end].
      assert (Esl : slice s (length LC) (length LC + r) = firstn r after).
      { rewrite Es2. apply slice_app0. }
      rewrite Esl.
      assert (Ect : (1 <? count_char 10%N (firstn r after)) = true).
      { apply Nat.ltb_lt. rewrite Ea, firstn_app, (firstn_all2 x) by exact Hr.
        rewrite count_char_app. lia. }
      rewrite Ect. unfold mspan. cbn [m_start m_end]. rewrite EL. reflexivity.
Qed.

(* ---- the walk ------------------------------------------------------------------------------------------------ *)
Lemma walk_step_po : forall fuel s off es,
  off < length s ->
  walk_loop (stateless gn_po) fuel tt s (snd (e_span (gn_po s off))) = Ok es ->
  walk_loop (stateless gn_po) (S fuel) tt s off = Ok (gn_po s off :: es).
Proof.
  intros fuel s off es Hoff H. rewrite walk_loop_S.
  replace (off <? length s) with true by (symmetry; apply Nat.ltb_lt; exact Hoff).
  unfold stateless at 1. rewrite H. reflexivity.
Qed.

Definition pstmt (bs : list pblock) (a w : str) : Prop :=
  plic (length a + length w) bs = true ->
  forall fuel, length (a ++ w ++ pfile_text bs) - length a < fuel ->
  walk_loop (stateless gn_po) fuel tt (a ++ w ++ pfile_text bs) (length a) =
  Ok (pents (length a) (length w) bs).

Definition pnonblank_head (bs : list pblock) : Prop :=
  match bs with PBlank _ :: _ => False | _ => True end.

Lemma pents_flush : forall bs off w, pnonblank_head bs ->
  pents off w bs = flush off w ++ pents (off + w) 0 bs.
Proof.
  intros [|[x|cs|cs iw ctxt idl w2 strl] rest] off w H; try contradiction; simpl;
    rewrite ?Nat.add_0_r, ?app_nil_r; reflexivity.
Qed.

Lemma plic_ge2 : forall bs off, 2 <= off -> plic off bs = true.
Proof.
  induction bs as [|[x|cs|cs iw ctxt idl w2 strl] rest IH]; intros off H; try reflexivity.
  - simpl. apply IH. lia.
  - simpl. replace (2 <=? off) with true by (symmetry; apply Nat.leb_le; exact H). reflexivity.
Qed.

Lemma plift_flush : forall bs, pnonblank_head bs ->
  head_is (fun c => mem c WS) (pfile_text bs) = false ->
  (forall a, pstmt bs a []) ->
  forall a w, all_ws w = true -> pstmt bs a w.
Proof.
  intros bs Hnb Hhead H0 a w Hw Hlic fuel Hf.
  destruct w as [|c w'] eqn:Ew; [apply (H0 a); auto|]. rewrite <- Ew in *.
  assert (Hne : w <> []) by (rewrite Ew; discriminate).
  destruct fuel as [|f]; [lia|].
  rewrite pents_flush by exact Hnb.
  assert (Efl : flush (length a) (length w) = [mk_white (length a, length a + length w)])
    by (rewrite Ew; reflexivity).
  rewrite Efl. simpl app.
  pose proof (gn_po_white a w (pfile_text bs) Hne Hw Hhead) as G.
  rewrite <- G. apply walk_step_po.
  - rewrite !app_length. rewrite Ew. simpl. lia.
  - rewrite G. cbn [mk_white e_span snd].
    assert (Hs : a ++ w ++ pfile_text bs = (a ++ w) ++ [] ++ pfile_text bs)
      by (rewrite <- app_assoc; reflexivity).
    rewrite Hs, <- app_length. apply (H0 (a ++ w)).
    + rewrite app_length. simpl length. rewrite Nat.add_0_r. exact Hlic.
    + rewrite <- Hs. rewrite !app_length in *. rewrite Ew in *. simpl in *. lia.
Qed.

Lemma pfile_text_cons : forall b bs, pfile_text (b :: bs) = ptext b ++ pfile_text bs.
Proof. reflexivity. Qed.

Lemma head_ctext_p : forall (g : N -> bool) cs X, cs <> [] -> forallb legal_cline_p cs = true ->
  g 35%N = false -> head_is g (ctext cs ++ X) = false.
Proof.
  intros g [|[c t] cs] X Hne H Hg; [contradiction|]. simpl in H. apply andb_true_iff in H.
  destruct H as [H _]. unfold legal_cline_p in H. apply andb_true_iff in H. destruct H as [H _].
  cbn [fst] in H. apply N.eqb_eq in H. subst c. rewrite ctext_cons. unfold cline_text. cbn [fst snd].
  simpl app. cbn [head_is]. exact Hg.
Qed.

(* after a message no further string-list item starts, whatever legal blocks follow *)
Lemma item_stops_rest : forall rest, Forall legal_pblock rest -> item_stops (pfile_text rest).
Proof.
  induction rest as [|b rest IH]; intros Hleg.
  - exists [], []. repeat split.
  - inversion Hleg as [|? ? Hb Hrest]; subst. rewrite pfile_text_cons.
    destruct b as [x|cs|cs iw ctxt idl w2 strl]; cbn [ptext].
    + destruct (IH Hrest) as [w [Y [E [Hw HY]]]]. exists (x ++ w), Y. rewrite E.
      split; [rewrite <- app_assoc; reflexivity|]. split; [|exact HY].
      unfold legal_pblock in Hb. cbn [legal_pblockb] in Hb. apply andb_true_iff in Hb. destruct Hb as [_ Hx].
      unfold all_ws in *. rewrite forallb_app, Hx, Hw. reflexivity.
    + unfold legal_pblock in Hb. cbn [legal_pblockb] in Hb. apply andb_true_iff in Hb. destruct Hb as [Hc1 Hc2].
      exists [], (ctext cs ++ pfile_text rest). split; [reflexivity|]. split; [reflexivity|].
      apply head_ctext_p; [destruct cs; discriminate|exact Hc2|reflexivity].
    + exists [], ((ctext cs ++ iw ++ msg_text ctxt idl w2 strl) ++ pfile_text rest).
      split; [reflexivity|]. split; [reflexivity|].
      unfold legal_pblock in Hb. cbn [legal_pblockb] in Hb.
      repeat (apply andb_true_iff in Hb; let H := fresh "L" in destruct Hb as [Hb H]).
      destruct cs as [|c1 cs1].
      * assert (iw = []) by (destruct iw; [reflexivity|discriminate]). subst iw. cbn [ctext concat map app].
        destruct (msg_head ctxt idl w2 strl (pfile_text rest)) as [_ [_ M3]]. exact M3.
      * rewrite <- app_assoc. apply head_ctext_p; [discriminate|exact Hb|reflexivity].
Qed.

Lemma walk_pents : forall bs, Forall legal_pblock bs -> psep bs = true ->
  forall a w, all_ws w = true -> pstmt bs a w.
Proof.
  induction bs as [|b rest IH]; intros Hleg Hsep.
  - apply plift_flush; [exact I|reflexivity|].
    intros a _ fuel Hf. simpl. apply walk_loop_done. rewrite !app_length. simpl. lia.
  - inversion Hleg as [|b' rest' Hb Hrest]; subst b' rest'.
    destruct b as [x|cs|cs iw ctxt idl w2 strl].
    + (* whitespace: joins what is pending *)
      intros a w Hw Hlic fuel Hf. simpl in Hsep.
      unfold legal_pblock in Hb. cbn [legal_pblockb] in Hb. apply andb_true_iff in Hb.
      destruct Hb as [Hx1 Hx2].
      assert (Hs : a ++ w ++ pfile_text (PBlank x :: rest) = a ++ (w ++ x) ++ pfile_text rest).
      { rewrite pfile_text_cons. cbn [ptext]. rewrite <- app_assoc. reflexivity. }
      simpl pents. rewrite Hs in *. rewrite <- app_length. apply (IH Hrest Hsep); auto.
      * unfold all_ws in *. rewrite forallb_app, Hw, Hx2. reflexivity.
      * rewrite app_length, Nat.add_assoc. exact Hlic.
    + (* a standalone comment *)
      unfold legal_pblock in Hb. cbn [legal_pblockb] in Hb. apply andb_true_iff in Hb.
      destruct Hb as [Hc1 Hc2].
      assert (Hne : cs <> []) by (destruct cs; [discriminate|discriminate]).
      simpl in Hsep. apply andb_true_iff in Hsep. destruct Hsep as [Hnext Hsep].
      apply plift_flush; [exact I| rewrite pfile_text_cons; apply head_ctext_p; auto |].
      intros a _ fuel Hf. destruct fuel as [|f]; [lia|].
      rewrite pfile_text_cons in *. cbn [ptext] in *. simpl app in *.
      assert (Hafter : pfile_text rest = [] \/
                exists x y, pfile_text rest = x ++ y /\ x <> [] /\ all_ws x = true /\
                            2 <= count_char 10%N x).
      { destruct rest as [|[x| |] rest']; try discriminate; [left; reflexivity|].
        right. exists x, (pfile_text rest'). split; [reflexivity|].
        inversion Hrest as [|b' r' Hx _]; subst. unfold legal_pblock in Hx. cbn [legal_pblockb] in Hx.
        apply andb_true_iff in Hx. destruct Hx as [Hx1 Hx2].
        split; [destruct x; discriminate|]. split; [exact Hx2|]. apply Nat.leb_le. exact Hnext. }
      pose proof (gn_po_comment a cs (pfile_text rest) Hne Hc2 Hafter) as G.
      simpl pents. rewrite !Nat.add_0_r. rewrite <- G. apply walk_step_po.
      * rewrite !app_length. pose proof (ctext_length_ge cs). destruct cs; [contradiction|].
        simpl in *. lia.
      * rewrite G. cbn [mk_comment e_span snd].
        assert (Hs : a ++ ctext cs ++ pfile_text rest = (a ++ ctext cs) ++ [] ++ pfile_text rest)
          by (rewrite <- app_assoc; reflexivity).
        pose proof (ctext_length_ge cs) as Hpos.
        assert (1 <= length (ctext cs)) by (destruct cs; [contradiction|simpl in *; lia]).
        rewrite Hs, <- app_length. apply (IH Hrest Hsep (a ++ ctext cs) []); [reflexivity| |].
        -- simpl length. rewrite Nat.add_0_r. apply plic_ge2.
           (* a comment line is at least "#" and its newline *)
           destruct cs as [|[c0 t0] cs']; [contradiction|]. rewrite app_length, ctext_cons_len. lia.
        -- rewrite <- Hs. rewrite !app_length in *. lia.
    + (* a message *)
      assert (Hb' := Hb). unfold legal_pblock in Hb'. simpl in Hsep.
      apply plift_flush; [exact I| |].
      { rewrite pfile_text_cons. cbn [ptext].
        cbn [legal_pblockb] in Hb'.
        repeat (apply andb_true_iff in Hb'; let H := fresh "L" in destruct Hb' as [Hb' H]).
        destruct cs as [|c1 cs1].
        - assert (iw = []) by (destruct iw; [reflexivity|discriminate]). subst iw. cbn [ctext concat map app].
          destruct (msg_head ctxt idl w2 strl (pfile_text rest)) as [M1 _]. exact M1.
        - rewrite <- app_assoc. apply head_ctext_p; [discriminate|exact Hb'|reflexivity]. }
      intros a Hlic fuel Hf. destruct fuel as [|f]; [lia|].
      assert (Etxt : a ++ [] ++ pfile_text (PEntity cs iw ctxt idl w2 strl :: rest) =
                     a ++ ctext cs ++ iw ++ msg_text ctxt idl w2 strl ++ pfile_text rest).
      { rewrite pfile_text_cons. cbn [ptext]. norm_app. reflexivity. }
      rewrite Etxt in *.
      assert (Hl : length a < 2 -> contains s_License (ctext cs) = false).
      { intros Ha. simpl in Hlic. rewrite Nat.add_0_r in Hlic.
        replace (2 <=? length a) with false in Hlic by (symmetry; apply Nat.leb_gt; exact Ha).
        apply negb_true_iff in Hlic. exact Hlic. }
      pose proof (gn_po_entity a cs iw ctxt idl w2 strl (pfile_text rest) Hb
                    (item_stops_rest rest Hrest) Hl) as G.
      cbv zeta in G. simpl pents. rewrite !Nat.add_0_r.
      rewrite <- G. apply walk_step_po.
      * rewrite !app_length. unfold msg_text. rewrite !app_length. simpl. lia.
      * rewrite G. cbn [e_span snd].
        set (A0 := a ++ ctext cs ++ iw ++ msg_text ctxt idl w2 strl).
        assert (Hs2 : a ++ ctext cs ++ iw ++ msg_text ctxt idl w2 strl ++ pfile_text rest
                      = A0 ++ [] ++ pfile_text rest) by (unfold A0; norm_app; reflexivity).
        assert (El : length a + length (ctext cs) + length iw + length (ctxt_text ctxt) + 5 +
                     length (items_text idl) + length w2 + 6 + length (items_text strl) = length A0).
        { unfold A0, msg_text. rewrite !app_length. simpl. lia. }
        rewrite Hs2, El. apply (IH Hrest Hsep A0 []); [reflexivity| |].
        -- simpl length. rewrite Nat.add_0_r. apply plic_ge2. rewrite <- El. lia.
        -- rewrite Hs2 in Hf. rewrite <- El in *. rewrite !app_length in *. simpl in *. lia.
Qed.

(* ---- the block theorem --------------------------------------------------------------------------------------- *)
Theorem blocks_po : forall bs : list pblock,
  Forall legal_pblock bs -> padjacent_ok bs ->
  walk_po (pfile_text bs) = Ok (pentries_of bs).
Proof.
  intros bs Hleg Hadj. unfold padjacent_ok, padjacent_okb in Hadj. apply andb_true_iff in Hadj.
  destruct Hadj as [Hsep Hlic]. unfold walk_po, walk, pentries_of.
  apply (walk_pents bs Hleg Hsep [] [] eq_refl); [exact Hlic|]. simpl. lia.
Qed.
