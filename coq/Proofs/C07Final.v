(* C07: the statements of Properties/C07.v, assembled from the lemma files. *)
From Coq Require Import NArith ZArith List Bool Arith Lia.
From CL Require Import Base.Sx Base.Res Base.Str Regex.Rx Generated.RxC07 Generated.C07Facts
  Model.CSS Model.XmlContent Model.CheckDTD
  Proofs.CheckDTDProofs Proofs.CheckDTDSpec Proofs.CheckDTDTheorems Proofs.CSSProofs
  Proofs.XmlRejectProofs Proofs.XmlAcceptProofs Proofs.XmlValueProofs.
Import ListNotations.

Lemma eref_names_covered : forall v l names n,
  entities_for_value v = Ok l -> eref_names v = Ok names -> In n names -> In n l \/ In n xmllist.
Proof.
  intros v l names n H Hn Hin.
  destruct (mem_str n xmllist) eqn:E; [right; apply mem_str_In; exact E|]. left.
  apply mem_str_false in E. apply (entities_for_value_In _ _ _ n H Hn). tauto.
Qed.

Theorem declared_complete : forall cache reference ref l10n docs,
  documents cache reference ref l10n = Ok docs ->
  exists reflist cache' l10nlist,
    known_entities cache reference (e_val ref) = Ok (reflist, cache') /\
    entities_for_value (e_val l10n) = Ok l10nlist /\
    let names := reflist ++ missing_names reflist l10nlist in
    docs = [doc (decls reflist) (e_val ref);
            doc (e_all ref ++ decls reflist) (CSS.render t_selfref [e_key ref]);
            doc (decls names) (e_val l10n);
            doc (e_all l10n ++ decls names) (CSS.render t_selfref [e_key l10n])] /\
    (* every reference the expression recognises in the localized value is declared *)
    (forall ns n, eref_names (e_val l10n) = Ok ns -> In n ns -> In n names \/ In n xmllist) /\
    (* and so is every one of the reference value, with a fresh cache and the reference
       value among the reference file's values (or no reference set) *)
    (cache = None ->
     match reference with Some refs => In (e_val ref) refs | None => True end ->
     forall ns n, eref_names (e_val ref) = Ok ns -> In n ns -> In n reflist \/ In n xmllist).
Proof.
  intros cache reference ref l10n docs H. unfold documents in H.
  apply bind_ok in H. destruct H as [[reflist c'] [Hk H]].
  apply bind_ok in H. destruct H as [l10nlist [Hl H]]. inversion H; subst. clear H.
  exists reflist, c', l10nlist. repeat split; try assumption.
  - intros ns n Hns Hin. eapply declared_covers; eassumption.
  - intros -> Href ns n Hns Hin.
    destruct (entities_for_value (e_val ref)) as [inContext|tg] eqn:Ec.
    + destruct (eref_names_covered _ _ _ _ Ec Hns Hin) as [Hi|Hx]; [left | right; exact Hx].
      eapply known_covers_reference; eassumption.
    + unfold entities_for_value in Ec. rewrite Hns in Ec. discriminate.
Qed.

(* ---- unknown entities ------------------------------------------------------------------------------- *)
Theorem unknown_entity_warnings : forall sax uesc cache reference android ref l10n issues cache',
  check sax uesc cache reference android ref l10n = Ok (issues, cache') ->
  exists reflist inContext unknown,
    known_entities cache reference (e_val ref) = Ok (reflist, cache') /\
    entities_for_value (e_val ref) = Ok inContext /\
    (* the warnings, in order: one per unknown name, each naming it *)
    filter is_unknown_warning issues = map (unknown_issue (warn_suffix reflist inContext)) unknown /\
    (forall k, i_msg (unknown_issue (warn_suffix reflist inContext) k) =
               unknown_prefix ++ k ++ unknown_close ++ warn_suffix reflist inContext) /\
    NoDup unknown /\
    (* the unknown names: referenced by the localized value, known nowhere *)
    (forall ns n, eref_names (e_val l10n) = Ok ns ->
       (In n unknown <-> In n ns /\ ~ In n reflist /\ ~ In n xmllist)).
Proof.
  intros sax uesc cache reference android ref l10n issues cache' H.
  destruct (unknown_warnings sax uesc _ _ _ _ _ _ _ H) as [reflist [inContext [l10nlist [Hk [Hc [Hl Hf]]]]]].
  exists reflist, inContext, (missing_names reflist l10nlist).
  split; [exact Hk|]. split; [exact Hc|]. split; [exact Hf|].
  split; [intros k; apply unknown_issue_msg|].
  split; [eapply missing_NoDup; eassumption|].
  intros ns n Hns. apply (missing_spec reflist _ _ _ n Hl Hns).
Qed.

(* ---- broken values ------------------------------------------------------------------------------------- *)
Lemma value_ok_content : forall declared key v, content_ok declared v = false -> value_ok declared key v = false.
Proof. intros. unfold value_ok. rewrite H. reflexivity. Qed.

Theorem broken_rejected : forall declared key,
  (* a bare "& ", a bare "< ", an unterminated "&foo ", mis-nested "<u><s></u></s>": anywhere *)
  (forall p v, In p [pat_bare_amp; pat_bare_lt; pat_unterminated; pat_misnested] ->
     contains p v = true -> no_special v = true -> value_ok declared key v = false) /\
  (* an unclosed "<u>" or a stray "</u>" inserted at any position of an accepted value *)
  (forall a b, no_special a = true -> content_ok declared (a ++ b) = true ->
     value_ok declared key (a ++ pat_open ++ b) = false /\
     value_ok declared key (a ++ pat_close ++ b) = false) /\
  (* a '%' anywhere *)
  (forall v, In c_pct v -> value_ok declared key v = false).
Proof.
  intros declared key. repeat split.
  - intros p v Hp Hc Hn. apply value_ok_content. unfold content_ok.
    eapply contains_rejected; eassumption.
  - apply value_ok_content. unfold content_ok in *. apply insert_open_rejected; assumption.
  - apply value_ok_content. unfold content_ok in *. apply insert_close_rejected; assumption.
  - intros v Hin. unfold value_ok, ent_repl. rewrite (percent_rejected v EText [] Hin).
    apply andb_false_r.
Qed.
