(* Regex-engine toolkit for per-regex evaluation proofs (C07 CSS parser):
   canonical states [St z l rest caps], one-constructor unfoldings of the matcher,
   greedy class runs (success after the maximal run / failure after every prefix),
   search / finditer plumbing.  Generic: no generated regex is mentioned.
   (The same lemmas exist in Proofs/PrintfRxProofs.v for C06; they are repeated
   here so that the C07 cone does not depend on the C06 facts.) *)
From Coq Require Import NArith List Bool Arith Lia ZifyBool.
From CL Require Import Base.Str Regex.Rx Regex.RxLemmas.
Import ListNotations.

Local Arguments Nat.ltb : simpl never.
Local Arguments Nat.leb : simpl never.
Local Arguments Nat.eqb : simpl never.
Local Arguments Nat.sub : simpl never.
Local Arguments Nat.add : simpl never.

(* ---- states ------------------------------------------------------------------------
   [St z l rest cs]: the state reached from z after consuming l, with the
   remaining input rest and the captures cs *)
Definition St (z : st) (l rest : list N) (cs : list (nat * (nat * nat))) : st :=
  mkst (rev l ++ pre z) rest (pos z + length l) cs.

Lemma st_ext (a b : st) :
  pre a = pre b -> suf a = suf b -> pos a = pos b -> caps a = caps b -> a = b.
Proof. destruct a, b; cbn; intros; subst; reflexivity. Qed.

Lemma St_nil z : St z [] (suf z) (caps z) = z.
Proof. apply st_ext; cbn; auto; lia. Qed.

Lemma St_St z l1 r1 cs1 l2 r2 cs2 : St (St z l1 r1 cs1) l2 r2 cs2 = St z (l1 ++ l2) r2 cs2.
Proof.
  apply st_ext; cbn; auto.
  - rewrite rev_app_distr, app_assoc. reflexivity.
  - rewrite app_length. lia.
Qed.

Lemma advance_St z c t : advance z c t = St z [c] t (caps z).
Proof. apply st_ext; cbn; auto; lia. Qed.

Lemma set_cap_St n sp z l rest cs : set_cap n sp (St z l rest cs) = St z l rest ((n, sp) :: cs).
Proof. reflexivity. Qed.

(* ---- the matcher, one constructor at a time -------------------------------------------- *)
Lemma m_Cat a b s k : m (Cat a b) s k = m a s (fun s' => m b s' k).
Proof. reflexivity. Qed.
Lemma m_Alt a b s k : m (Alt a b) s k = orelse (m a s k) (fun _ => m b s k).
Proof. reflexivity. Qed.
Lemma m_Grp n r s k : m (Grp n r) s k = m r s (fun s' => k (set_cap n (pos s, pos s') s')).
Proof. reflexivity. Qed.
Lemma m_Eps s k : m Eps s k = k s.
Proof. reflexivity. Qed.
Lemma m_Rep g lo hi r s k :
  m (Rep g lo hi r) s k = rep_loop (m r) g lo hi (lo + S (length (suf s))) 0 s k.
Proof. reflexivity. Qed.

Definition head_not (p : N -> bool) (l : list N) : Prop :=
  match l with [] => True | c :: _ => p c = false end.

Lemma m_Chr_ok neg rs s c t k : suf s = c :: t -> chr_ok neg rs c = true ->
  m (Chr neg rs) s k = k (St s [c] t (caps s)).
Proof. intros H1 H2. cbn. rewrite H1, H2, advance_St. reflexivity. Qed.

Lemma m_Chr_fail neg rs s k : head_not (chr_ok neg rs) (suf s) -> m (Chr neg rs) s k = Fail.
Proof. intros H. cbn. destruct (suf s) as [|c t]; [reflexivity|]. cbn in H. rewrite H. reflexivity. Qed.

(* ---- a greedy repetition of a character class over a maximal run -------------------- *)
Section Run.
Variables (neg : bool) (rs : cset).
Let ok (c : N) : bool := chr_ok neg rs c.

(* the continuation succeeds after the whole run: that is the result *)
Lemma rep_run_max : forall run s rest lo fuel count k x,
  suf s = run ++ rest -> Forall (fun c => ok c = true) run -> head_not ok rest ->
  lo <= count + length run -> length run < fuel ->
  k (St s run rest (caps s)) = Done x ->
  rep_loop (m (Chr neg rs)) true lo None fuel count s k = Done x.
Proof.
  induction run as [|c run IH]; intros s rest lo fuel count k x Hs Hok Hrest Hlo Hfuel Hk.
  - destruct fuel as [|f]; [cbn in Hfuel; lia|]. rewrite rep_loop_S.
    cbn in Hs, Hlo. assert (count <? lo = false) as -> by (apply Nat.ltb_ge; lia).
    cbv zeta. rewrite (m_Chr_fail neg rs s) by (rewrite Hs; exact Hrest).
    cbn [orelse]. rewrite <- Hs, St_nil in Hk. exact Hk.
  - destruct fuel as [|f]; [cbn in Hfuel; lia|]. rewrite rep_loop_S.
    inversion Hok as [|? ? Hc Hok']; subst. cbn in Hs, Hlo, Hfuel.
    assert (rep_loop (m (Chr neg rs)) true lo None f (S count) (St s [c] (run ++ rest) (caps s)) k
            = Done x) as Hrec.
    { apply (IH _ rest); auto; try (cbn; lia). rewrite St_St. exact Hk. }
    destruct (count <? lo).
    + rewrite (m_Chr_ok neg rs s c (run ++ rest)) by assumption. exact Hrec.
    + cbv zeta. rewrite (m_Chr_ok neg rs s c (run ++ rest)) by assumption.
      assert (Nat.eqb (pos (St s [c] (run ++ rest) (caps s))) (pos s) = false) as ->.
      { apply Nat.eqb_neq. cbn. lia. }
      rewrite Hrec. reflexivity.
Qed.

(* the continuation fails after every prefix of the run: failure *)
Lemma rep_run_fail : forall run s rest lo fuel count k,
  suf s = run ++ rest -> Forall (fun c => ok c = true) run -> head_not ok rest ->
  length run < fuel ->
  (forall l1 l2, run = l1 ++ l2 -> k (St s l1 (l2 ++ rest) (caps s)) = Fail) ->
  rep_loop (m (Chr neg rs)) true lo None fuel count s k = Fail.
Proof.
  induction run as [|c run IH]; intros s rest lo fuel count k Hs Hok Hrest Hfuel Hk.
  - destruct fuel as [|f]; [cbn in Hfuel; lia|]. rewrite rep_loop_S. cbn in Hs.
    rewrite !(m_Chr_fail neg rs s) by (rewrite Hs; exact Hrest).
    destruct (count <? lo); [reflexivity|]. cbv zeta. cbn [orelse].
    specialize (Hk [] [] eq_refl). cbn [app] in Hk. rewrite <- Hs, St_nil in Hk. exact Hk.
  - destruct fuel as [|f]; [cbn in Hfuel; lia|]. rewrite rep_loop_S.
    inversion Hok as [|? ? Hc Hok']; subst. cbn in Hs, Hfuel.
    assert (rep_loop (m (Chr neg rs)) true lo None f (S count) (St s [c] (run ++ rest) (caps s)) k
            = Fail) as Hrec.
    { apply (IH _ rest); auto; try (cbn; lia).
      intros l1 l2 E. rewrite St_St. apply (Hk (c :: l1) l2). rewrite E. reflexivity. }
    destruct (count <? lo).
    + rewrite (m_Chr_ok neg rs s c (run ++ rest)) by assumption. exact Hrec.
    + cbv zeta. rewrite (m_Chr_ok neg rs s c (run ++ rest)) by assumption.
      assert (Nat.eqb (pos (St s [c] (run ++ rest) (caps s))) (pos s) = false) as ->.
      { apply Nat.eqb_neq. cbn. lia. }
      rewrite Hrec. cbn [orelse].
      specialize (Hk [] (c :: run) eq_refl). cbn [app] in Hk. rewrite <- Hs, St_nil in Hk. exact Hk.
Qed.
End Run.


Ltac st_solve :=
  rewrite ?St_St; apply st_ext; cbn [St pre suf pos caps set_cap app rev length];
  auto; try (repeat f_equal; rewrite ?app_length; cbn [length]; lia).

Lemma head_not_ext (p q : N -> bool) l : (forall c, p c = q c) -> head_not q l -> head_not p l.
Proof. intros H. destruct l; cbn; [auto|]. rewrite H. auto. Qed.

(* ---- repetitions of a class, at the level of [m] ------------------------------------------ *)
Lemma m_Rep_max neg rs lo run s rest k x :
  suf s = run ++ rest -> Forall (fun c => chr_ok neg rs c = true) run ->
  head_not (chr_ok neg rs) rest -> lo <= length run ->
  k (St s run rest (caps s)) = Done x ->
  m (Rep true lo None (Chr neg rs)) s k = Done x.
Proof.
  intros Hs Hok Hr Hlo Hk. rewrite m_Rep. apply (rep_run_max neg rs run s rest); auto.
  rewrite Hs, app_length. lia.
Qed.

Lemma m_Rep_fail neg rs lo run s rest k :
  suf s = run ++ rest -> Forall (fun c => chr_ok neg rs c = true) run ->
  head_not (chr_ok neg rs) rest ->
  (forall l1 l2, run = l1 ++ l2 -> k (St s l1 (l2 ++ rest) (caps s)) = Fail) ->
  m (Rep true lo None (Chr neg rs)) s k = Fail.
Proof.
  intros Hs Hok Hr Hk. rewrite m_Rep. apply (rep_run_fail neg rs run s rest); auto.
  rewrite Hs, app_length. lia.
Qed.

Lemma m_Rep1_none neg rs s k : head_not (chr_ok neg rs) (suf s) ->
  m (Rep true 1 None (Chr neg rs)) s k = Fail.
Proof.
  intros H. rewrite m_Rep. change (1 + S (length (suf s))) with (S (S (length (suf s)))).
  rewrite rep_loop_S. change (0 <? 1) with true. cbv iota. apply m_Chr_fail. exact H.
Qed.


Lemma orelse_Done a b x : a = Done x -> orelse a b = Done x.
Proof. intros ->. reflexivity. Qed.
Lemma orelse_Fail a b : a = Fail -> orelse a b = b tt.
Proof. intros ->. reflexivity. Qed.
Lemma get_cap_hd n sp cs : get_cap n ((n, sp) :: cs) = Some sp.
Proof. cbn. rewrite Nat.eqb_refl. reflexivity. Qed.
Lemma get_cap_tl n k sp cs : n <> k -> get_cap n ((k, sp) :: cs) = get_cap n cs.
Proof. intros H. cbn. apply Nat.eqb_neq in H. rewrite H. reflexivity. Qed.

(* ---- finditer over a rendered token list ----------------------------------------------------- *)
Definition whole (z : st) : list N := rev (pre z) ++ suf z.

Lemma whole_St z l rest cs : suf z = l ++ rest -> whole (St z l rest cs) = whole z.
Proof.
  intros H. unfold whole. cbn [St pre suf]. rewrite H, rev_app_distr, rev_involutive, <- app_assoc.
  reflexivity.
Qed.

Lemma wf_St z l rest cs : wf z -> wf (St z l rest cs).
Proof. unfold wf. cbn [St pos pre]. intros H. rewrite app_length, rev_length. lia. Qed.

Lemma slice_whole z l0 l r : wf z -> suf z = l0 ++ l ++ r ->
  slice (whole z) (pos z + length l0) (pos z + length l0 + length l) = l.
Proof.
  unfold wf, whole, slice. intros Hw Hs. rewrite Hs.
  replace (pos z + length l0 + length l - (pos z + length l0)) with (length l) by lia.
  rewrite app_assoc.
  replace (pos z + length l0) with (length (rev (pre z) ++ l0)) by (rewrite app_length, rev_length; lia).
  rewrite skipn_app, skipn_all, Nat.sub_diag. cbn [skipn app].
  rewrite firstn_app, firstn_all, Nat.sub_diag. cbn [firstn]. apply app_nil_r.
Qed.

Lemma run_at_fail r z (acc : st -> bool) : m r z (fun s' => if acc s' then Done s' else Fail) = Fail ->
  run_at r z acc = MNone.
Proof. unfold run_at. intros ->. reflexivity. Qed.

Lemma run_at_done r z (acc : st -> bool) sfin :
  m r z (fun s' => if acc s' then Done s' else Fail) = Done sfin ->
  run_at r z acc = MSome (mkres (pos z) (pos sfin) (caps sfin)).
Proof. unfold run_at. intros ->. reflexivity. Qed.

Lemma fwd_St : forall l z rest, suf z = l ++ rest -> fwd (length l) z = St z l rest (caps z).
Proof.
  induction l as [|c l IH]; intros z rest Hs; cbn [length fwd].
  - cbn [app] in Hs. rewrite <- Hs. symmetry. apply St_nil.
  - cbn [app] in Hs. rewrite Hs. rewrite (IH (advance z c (l ++ rest)) rest) by reflexivity.
    rewrite advance_St, St_St. reflexivity.
Qed.

Lemma z_nocaps z : caps z = [] -> mkst (pre z) (suf z) (pos z) [] = z.
Proof. intros H. destruct z; cbn in *; subst; reflexivity. Qed.
