(* Values of the properties parser that span several physical lines: a line that ends in
   an odd number of backslashes continues on the next one (PropertiesParser.getNext, the
   loop over reEscapedEnd).  The escaped-end expression on a line with a known number of
   trailing backslashes, and the value loop over a list of continuation lines.
   Used by Proofs/C02Blocks.v. *)
From Coq Require Import NArith List Bool Arith Lia.
From CL Require Import Base.Sx Base.Res Base.Str Regex.Rx Regex.RxLemmas Model.Entry Model.Parse
  Model.ParseFormats Generated.RxParser Proofs.UnescapeProofs
  Proofs.ClassLoop Proofs.ClassLoop2 Proofs.C02Props Proofs.WalkProofs Proofs.C02Roundtrip
  Proofs.C02BlocksRx.
Import ListNotations.

Local Arguments Nat.ltb : simpl never.
Local Arguments Nat.leb : simpl never.
Local Arguments Nat.eqb : simpl never.
Local Arguments N.eqb : simpl never.
Local Arguments N.leb : simpl never.
Local Arguments chr_ok : simpl never.
Local Arguments run : simpl never.
Local Arguments fwd : simpl never.

(* ---- the number of trailing backslashes of a line --------------------------------------------- *)
Fixpoint lead92 (l : str) : nat :=
  match l with
  | c :: t => if N.eqb c 92 then S (lead92 t) else 0
  | [] => 0
  end.
Definition tbs (l : str) : nat := lead92 (rev l).

Lemma lead92_split : forall l, exists r,
  l = repeat 92%N (lead92 l) ++ r /\ head_is (fun c => N.eqb c 92) r = false.
Proof.
  induction l as [|c t IH]; [exists []; split; reflexivity|].
  cbn [lead92]. destruct (N.eqb_spec c 92) as [->|Hne].
  - destruct IH as [r [H1 H2]]. exists r. split; [|exact H2]. simpl. f_equal. exact H1.
  - exists (c :: t). split; [reflexivity|]. cbn [head_is]. apply N.eqb_neq. exact Hne.
Qed.

Lemma rev_repeat : forall (x : N) n, rev (repeat x n) = repeat x n.
Proof.
  induction n as [|n IH]; [reflexivity|]. simpl. rewrite IH. symmetry. apply repeat_cons.
Qed.

Lemma tbs_split : forall l, exists body,
  l = body ++ repeat 92%N (tbs l) /\ (body = [] \/ last body 0%N <> 92%N).
Proof.
  intros l. unfold tbs. destruct (lead92_split (rev l)) as [r [H1 H2]].
  exists (rev r). split.
  - rewrite <- (rev_involutive l) at 1. rewrite H1 at 1. rewrite rev_app_distr, rev_repeat.
    reflexivity.
  - destruct r as [|c r']; [left; reflexivity|]. right. simpl rev. rewrite last_last.
    cbn [head_is] in H2. apply N.eqb_neq. exact H2.
Qed.

Lemma tbs_le : forall l, tbs l <= length l.
Proof.
  intros l. destruct (tbs_split l) as [body [H _]]. rewrite H at 2.
  rewrite app_length, repeat_length. lia.
Qed.

Lemma tbs_zero : forall l, (l = [] \/ last l 0%N <> 92%N) -> tbs l = 0.
Proof.
  intros l [->|H]; [reflexivity|]. unfold tbs.
  destruct l as [|c t] using rev_ind; [reflexivity|].
  rewrite rev_app_distr. simpl. rewrite last_last in H. apply N.eqb_neq in H. rewrite H. reflexivity.
Qed.

(* ---- the escaped-end expression ------------------------------------------------------------------ *)
Lemma bs_class : forall n, forallb (chr_ok false (points [92%N])) (repeat 92%N n) = true.
Proof.
  induction n as [|n IH]; [reflexivity|]. cbn [repeat forallb]. rewrite IH, chr_ok_points.
  reflexivity.
Qed.

Lemma ee_attempt_fails_gen : forall l n pr p,
  l <> [] -> last l 0%N <> 92%N -> (forall c, In c l -> c <> 10%N) ->
  run_at rx_props_escaped_end (mkst pr (l ++ repeat 92%N n) p []) (fun _ => true) = MNone.
Proof.
  intros l n pr p Hne Hlast Hnl. rewrite run_at_k0. unfold rx_props_escaped_end.
  change [(92, 92)]%N with (points [92%N]). rewrite m_Cat.
  set (X := repeat 92%N n).
  destruct (run_stops_inside (points [92%N]) l X Hne) as [c [t [H1 [H2 [H3 H4]]]]].
  { rewrite chr_ok_points, mem_single. apply N.eqb_neq. exact Hlast. }
  pose proof (run_le false (points [92%N]) None (l ++ X)) as Hle.
  rewrite (m_rep_class_desc false (points [92%N]) 1 None); [|exact I|].
  - cbn [suf]. destruct (1 <=? run false (points [92%N]) None (l ++ X)); [|reflexivity].
    rewrite fwd_mkst by exact Hle. rewrite H1, m_Eol. unfold at_eol. cbn [suf].
    apply Hnl in H2. destruct (N.eqb_spec c nlc) as [->|_]; [contradiction|reflexivity].
  - cbn [suf]. intros j Hj _. destruct (run_char _ _ _ _ Hj) as [c' [t' [E1 E2]]].
    rewrite fwd_mkst by lia. rewrite m_Eol. unfold at_eol. cbn [suf]. rewrite E1.
    rewrite chr_ok_points in E2. apply mem_in in E2. simpl in E2. destruct E2 as [<-|[]].
    reflexivity.
Qed.

Lemma ee_attempt_run : forall n pr p, 1 <= n ->
  run_at rx_props_escaped_end (mkst pr (repeat 92%N n) p []) (fun _ => true) =
  MSome (mkres p (p + n) []).
Proof.
  intros n pr p Hn. rewrite run_at_k0. unfold rx_props_escaped_end.
  change [(92, 92)]%N with (points [92%N]). rewrite m_Cat.
  assert (Hr : run false (points [92%N]) None (repeat 92%N n) = n).
  { rewrite <- (app_nil_r (repeat 92%N n)). rewrite run_exact_gen; [apply repeat_length|apply bs_class|reflexivity]. }
  assert (Hk : m (Eol false) (fwd n (mkst pr (repeat 92%N n) p [])) k0 =
               Done (mkst (rev (repeat 92%N n) ++ pr) [] (p + n) [])).
  { rewrite <- (repeat_length 92%N n) at 1. rewrite <- (app_nil_r (repeat 92%N n)) at 2.
    rewrite fwd_app, repeat_length. reflexivity. }
  rewrite (m_rep_class_max false (points [92%N]) 1 None); [|exact I|].
  - cbn [suf]. rewrite Hr. replace (1 <=? n) with true by (symmetry; apply Nat.leb_le; exact Hn).
    rewrite Hk. reflexivity.
  - cbn [suf]. rewrite Hr, Hk. discriminate.
Qed.

Lemma ee_search_line : forall (a body X : str) n,
  (forall c, In c body -> c <> 10%N) -> (body = [] \/ last body 0%N <> 92%N) -> 1 <= n ->
  osearch_end rx_props_escaped_end (a ++ (body ++ repeat 92%N n) ++ 10%N :: X) (length a)
              (length a + length (body ++ repeat 92%N n)) =
  Some (mkres (length a + length body) (length a + length body + n) []).
Proof.
  intros a body X n Hnl Hlast Hn. unfold osearch_end, rsearch_end.
  set (l := body ++ repeat 92%N n).
  replace (firstn (length a + length l) (a ++ l ++ 10%N :: X)) with (a ++ l).
  2:{ rewrite (app_assoc a l (10%N :: X)), firstn_app, <- app_length, firstn_all, Nat.sub_diag.
      simpl. rewrite app_nil_r. reflexivity. }
  rewrite rsearch_split. unfold l. rewrite search_skip_fails.
  - rewrite app_length, repeat_length.
    replace (S (length body + n) - length body) with (S n) by lia.
    rewrite search_from_S. cbv beta iota. cbn [suf pos].
    change (fun s' : st => true) with (fun _ : st => true).
    rewrite ee_attempt_run by exact Hn. reflexivity.
  - rewrite app_length. lia.
  - intros i pr' p' Hi. apply ee_attempt_fails_gen.
    + intro E. apply (f_equal (@length N)) in E. rewrite skipn_length in E. simpl in E. lia.
    + rewrite last_skipn by exact Hi. destruct Hlast as [->|H]; [simpl in Hi; lia|exact H].
    + intros c Hc. apply Hnl. eapply In_skipn. exact Hc.
Qed.

(* in terms of the line: the match is the run of trailing backslashes *)
Lemma ee_search_tbs : forall (a l X : str), no_nl l = true ->
  osearch_end rx_props_escaped_end (a ++ l ++ 10%N :: X) (length a) (length a + length l) =
  if Nat.eqb (tbs l) 0 then None
  else Some (mkres (length a + length l - tbs l) (length a + length l) []).
Proof.
  intros a l X Hl. destruct (tbs_split l) as [body [Hb Hlast]].
  assert (Hnl : forall c, In c body -> c <> 10%N).
  { intros c Hc. apply (no_nl_in l c Hl). rewrite Hb. apply in_or_app. left. exact Hc. }
  destruct (Nat.eqb_spec (tbs l) 0) as [E0|E0].
  - rewrite E0 in Hb. simpl in Hb. rewrite app_nil_r in Hb. subst body.
    apply ee_search_none_gen; auto.
  - assert (Elen : length l = length body + tbs l).
    { rewrite Hb at 1. rewrite app_length, repeat_length. reflexivity. }
    rewrite Hb at 1 2. rewrite ee_search_line by (auto; lia).
    f_equal. f_equal; lia.
Qed.

(* ---- values --------------------------------------------------------------------------------------- *)
(* [conts]: the physical lines that end in an odd number of backslashes (each is followed
   by a newline that belongs to the value); [lastl]: the last line of the value *)
Definition cont_text (l : str) : str := l ++ [10%N].
Definition vpre (conts : list str) : str := concat (map cont_text conts).
Definition vraw (conts : list str) (lastl : str) : str := vpre conts ++ lastl.

Definition legal_cont (l : str) : bool := no_nl l && Nat.odd (tbs l).
Definition legal_last (l : str) : bool :=
  forallb (fun c => negb (mem c [10; 13]%N)) l &&
  match l with [] => true | _ => negb (mem (last l 0%N) [32; 9]%N) end &&
  Nat.even (tbs l).
(* the value does not start with a blank or tab (the key expression takes those) *)
Definition legal_value (conts : list str) (lastl : str) : bool :=
  forallb legal_cont conts && legal_last lastl &&
  negb (head_is (fun c => mem c BL) (vraw conts lastl)).

Lemma last_facts : forall l, legal_last l = true ->
  no_nl l = true /\ (forall c, In c l -> c <> 10%N) /\ Nat.even (tbs l) = true /\
  (l = [] \/ mem (last l 0%N) WS = false).
Proof.
  intros l H. unfold legal_last in H. apply andb_true_iff in H. destruct H as [H H3].
  apply andb_true_iff in H. destruct H as [H1 H2].
  rewrite forallb_forall in H1.
  assert (Hno : forall c, In c l -> c <> 10%N /\ c <> 13%N).
  { intros c Hc. specialize (H1 c Hc). apply negb_true_iff in H1. unfold mem in H1. simpl in H1.
    destruct (N.eqb_spec c 10); [discriminate|]. destruct (N.eqb_spec c 13); [discriminate|]. auto. }
  assert (Hnl : no_nl l = true).
  { unfold no_nl. apply forallb_forall. intros c Hc. apply negb_true_iff, N.eqb_neq.
    apply Hno. exact Hc. }
  split; [exact Hnl|]. split; [intros c Hc; apply Hno; exact Hc|]. split; [exact H3|].
  destruct l as [|r0 rtl] eqn:Er; [left; reflexivity|right].
  apply negb_true_iff in H2.
  assert (Hl : In (last (r0 :: rtl) 0%N) (r0 :: rtl)).
  { clear. generalize r0. induction rtl as [|a l IH]; intros r; [left; reflexivity|].
    right. apply IH. }
  destruct (Hno _ Hl) as [L1 L2].
  set (L := last (r0 :: rtl) 0%N) in *.
  unfold mem in H2. cbn [existsb] in H2.
  destruct (N.eqb_spec L 32) as [|N32]; [discriminate|].
  destruct (N.eqb_spec L 9) as [|N9]; [discriminate|].
  unfold mem, WS. cbn [existsb].
  destruct (N.eqb_spec L 32); [contradiction|].
  destruct (N.eqb_spec L 9); [contradiction|].
  destruct (N.eqb_spec L 13); [contradiction|].
  destruct (N.eqb_spec L 10); [contradiction|]. reflexivity.
Qed.

Lemma vpre_cons : forall l conts, vpre (l :: conts) = l ++ 10%N :: vpre conts.
Proof. intros. unfold vpre. simpl. unfold cont_text. rewrite <- app_assoc. reflexivity. Qed.

(* the loop: the value ends at the end of the last line, which starts at [startline] *)
Lemma value_loop_lines : forall conts (a lastl X : str) fuel,
  forallb legal_cont conts = true -> no_nl lastl = true -> Nat.even (tbs lastl) = true ->
  length conts < fuel ->
  value_loop rx_props_escaped_end fuel (a ++ vpre conts ++ lastl ++ 10%N :: X) (length a) (length a) =
  (length a + length (vpre conts) + length lastl, length a + length (vpre conts)).
Proof.
  induction conts as [|l conts IH]; intros a lastl X fuel Hc Hl He Hf;
    (destruct fuel as [|f]; [lia|]).
  - cbn [vpre map concat app length]. rewrite !Nat.add_0_r. cbn [value_loop].
    rewrite find_char_gen by (intros c Hin; apply (no_nl_in lastl c Hl Hin)).
    rewrite ee_search_tbs by exact Hl.
    destruct (Nat.eqb (tbs lastl) 0); [reflexivity|]. cbn [m_start m_end].
    pose proof (tbs_le lastl).
    replace (length a + length lastl - (length a + length lastl - tbs lastl)) with (tbs lastl) by lia.
    rewrite He. reflexivity.
  - simpl in Hc. apply andb_true_iff in Hc. destruct Hc as [Hl1 Hc].
    unfold legal_cont in Hl1. apply andb_true_iff in Hl1. destruct Hl1 as [Hn1 Ho1].
    rewrite vpre_cons.
    assert (Es : a ++ (l ++ 10%N :: vpre conts) ++ lastl ++ 10%N :: X =
                 a ++ l ++ 10%N :: (vpre conts ++ lastl ++ 10%N :: X)).
    { rewrite <- !app_assoc. reflexivity. }
    rewrite Es. cbn [value_loop].
    rewrite find_char_gen by (intros c Hin; apply (no_nl_in l c Hn1 Hin)).
    rewrite ee_search_tbs by exact Hn1.
    assert (Hodd : Nat.even (tbs l) = false) by (rewrite <- Nat.negb_odd, Ho1; reflexivity).
    destruct (Nat.eqb_spec (tbs l) 0) as [E0|E0]; [rewrite E0 in Hodd; discriminate|].
    cbn [m_start m_end]. pose proof (tbs_le l).
    replace (length a + length l - (length a + length l - tbs l)) with (tbs l) by lia.
    rewrite Hodd.
    assert (Es2 : a ++ l ++ 10%N :: (vpre conts ++ lastl ++ 10%N :: X) =
                  (a ++ l ++ [10%N]) ++ vpre conts ++ lastl ++ 10%N :: X).
    { rewrite <- !app_assoc. reflexivity. }
    assert (El : S (length a + length l) = length (a ++ l ++ [10%N])).
    { rewrite !app_length. simpl. lia. }
    rewrite Es2, El, IH by (auto; simpl in Hf; lia).
    rewrite <- El, !app_length. simpl. f_equal; lia.
Qed.

(* a one-line value in the sense of the single-record theorem is a legal value *)
Lemma legal_raw1_value : forall raw, legal_raw1 raw = true -> legal_value [] raw = true.
Proof.
  intros raw H. destruct (raw_facts 0%N [] [] 0%N [] raw H) as [R1 [R2 [R3 R4]]].
  unfold legal_raw1 in H. apply andb_true_iff in H. destruct H as [H1 H2].
  unfold legal_value, vraw. cbn [vpre map concat app forallb andb].
  apply andb_true_iff. split.
  - unfold legal_last. rewrite H1. rewrite (tbs_zero raw R3).
    destruct raw as [|c t]; [reflexivity|].
    apply andb_true_iff in H2. destruct H2 as [_ H2]. apply negb_true_iff in H2.
    cbn [andb]. apply andb_true_iff. split; [|reflexivity]. apply negb_true_iff.
    unfold mem in *. cbn [existsb] in *.
    destruct (N.eqb (last (c :: t) 0%N) 32); [discriminate|].
    destruct (N.eqb (last (c :: t) 0%N) 9); [discriminate|]. reflexivity.
  - destruct raw as [|c t]; [reflexivity|]. cbn [head_is app] in *. rewrite R2. reflexivity.
Qed.

(* ---- the last line of the file may lack its newline ----------------------------------------------- *)
(* what follows a value: a newline and more text, or nothing *)
Definition tail_ok (T : str) : Prop := T = [] \/ exists X, T = 10%N :: X.

Lemma tw_attempt_fails_any : forall l rest pr p,
  l <> [] -> mem (last l 0%N) WS = false -> (forall c, In c l -> c <> 10%N) ->
  run_at rx_props_trailing_ws (mkst pr (l ++ rest) p []) (fun _ => true) = MNone.
Proof.
  intros l rest pr p Hne Hlast Hnl. rewrite run_at_k0, tw_shape, m_Cat. fold KT.
  destruct (run_stops_inside (points WS) l rest Hne) as [c [t [H1 [H2 [H3 H4]]]]];
    [rewrite chr_ok_points; exact Hlast|].
  pose proof (run_le false (points WS) None (l ++ rest)) as Hle.
  rewrite (m_rep_class_desc false (points WS) 0 None); [|exact I|].
  - cbn [suf]. replace (0 <=? run false (points WS) None (l ++ rest)) with true by reflexivity.
    rewrite fwd_mkst by exact Hle. rewrite H1, KT_fails; [reflexivity|]. apply Hnl. exact H2.
  - cbn [suf]. intros j Hj _. rewrite fwd_mkst by lia.
    destruct (skipn j (l ++ rest)) as [|c' t'] eqn:Es.
    + apply (f_equal (@length N)) in Es. rewrite skipn_length, app_length in Es. cbn [length] in Es. lia.
    + rewrite KT_fails; [reflexivity|]. apply Hnl. eapply skipn_head_in; [|exact Es]. lia.
Qed.

Lemma tw_attempt_end : forall pr p,
  run_at rx_props_trailing_ws (mkst pr [] p []) (fun _ => true) = MSome (mkres p p []).
Proof. reflexivity. Qed.

Lemma tw_search_eof : forall (a raw : str),
  (forall c, In c raw -> c <> 10%N) -> (raw = [] \/ mem (last raw 0%N) WS = false) ->
  exists x, osearch rx_props_trailing_ws (a ++ raw ++ []) (length a) = Some x /\
            m_start x = length a + length raw.
Proof.
  intros a raw Hnl Hlast. unfold osearch. rewrite rsearch_split.
  rewrite search_skip_fails.
  - rewrite app_length. simpl length.
    replace (S (length raw + 0) - length raw) with 1 by lia.
    rewrite search_from_S. cbv beta iota. cbn [suf pos].
    change (fun s' : st => true) with (fun _ : st => true).
    rewrite tw_attempt_end. eexists. split; reflexivity.
  - rewrite app_length. simpl. lia.
  - intros i pr' p' Hi. apply tw_attempt_fails_any.
    + intro E. apply (f_equal (@length N)) in E. rewrite skipn_length in E. simpl in E. lia.
    + rewrite last_skipn by exact Hi. destruct Hlast as [->|H]; [simpl in Hi; lia|exact H].
    + intros c Hc. apply Hnl. eapply In_skipn. exact Hc.
Qed.

Lemma tw_search_tail : forall (a raw T : str), tail_ok T ->
  (forall c, In c raw -> c <> 10%N) -> (raw = [] \/ mem (last raw 0%N) WS = false) ->
  exists x, osearch rx_props_trailing_ws (a ++ raw ++ T) (length a) = Some x /\
            m_start x = length a + length raw.
Proof.
  intros a raw T [->|[X ->]] H1 H2; [apply tw_search_eof|apply tw_search_gen]; auto.
Qed.

Lemma find_from_none : forall (l : str) i, (forall c, In c l -> c <> 10%N) ->
  find_from 10%N l i = None.
Proof.
  induction l as [|a l IH]; intros i H; [reflexivity|].
  simpl. destruct (N.eqb_spec a 10) as [E|_]; [exfalso; apply (H a); [left; reflexivity|exact E]|].
  apply IH. intros c Hc. apply H. right. exact Hc.
Qed.

Lemma find_char_eof : forall (a raw : str), (forall c, In c raw -> c <> 10%N) ->
  find_char 10%N (a ++ raw ++ []) (length a) = None.
Proof.
  intros a raw H. unfold find_char. rewrite skipn_app_length, app_nil_r. apply find_from_none.
  exact H.
Qed.

Lemma value_loop_tail : forall conts (a lastl T : str) fuel, tail_ok T ->
  forallb legal_cont conts = true -> no_nl lastl = true -> Nat.even (tbs lastl) = true ->
  length conts < fuel ->
  value_loop rx_props_escaped_end fuel (a ++ vpre conts ++ lastl ++ T) (length a) (length a) =
  (length a + length (vpre conts) + length lastl, length a + length (vpre conts)).
Proof.
  intros conts a lastl T fuel [->|[X ->]]; [|apply value_loop_lines].
  revert a fuel.
  induction conts as [|l conts IH]; intros a fuel Hc Hl He Hf;
    (destruct fuel as [|f]; [lia|]).
  - cbn [vpre map concat app length]. rewrite !Nat.add_0_r. cbn [value_loop].
    rewrite find_char_eof by (intros c Hin; apply (no_nl_in lastl c Hl Hin)).
    rewrite !app_length. simpl. rewrite Nat.add_0_r. reflexivity.
  - simpl in Hc. apply andb_true_iff in Hc. destruct Hc as [Hl1 Hc].
    unfold legal_cont in Hl1. apply andb_true_iff in Hl1. destruct Hl1 as [Hn1 Ho1].
    rewrite vpre_cons.
    assert (Es : a ++ (l ++ 10%N :: vpre conts) ++ lastl ++ [] =
                 a ++ l ++ 10%N :: (vpre conts ++ lastl ++ [])).
    { rewrite <- !app_assoc. reflexivity. }
    rewrite Es. cbn [value_loop].
    rewrite find_char_gen by (intros c Hin; apply (no_nl_in l c Hn1 Hin)).
    rewrite ee_search_tbs by exact Hn1.
    assert (Hodd : Nat.even (tbs l) = false) by (rewrite <- Nat.negb_odd, Ho1; reflexivity).
    destruct (Nat.eqb_spec (tbs l) 0) as [E0|E0]; [rewrite E0 in Hodd; discriminate|].
    cbn [m_start m_end]. pose proof (tbs_le l).
    replace (length a + length l - (length a + length l - tbs l)) with (tbs l) by lia.
    rewrite Hodd.
    assert (Es2 : a ++ l ++ 10%N :: (vpre conts ++ lastl ++ []) =
                  (a ++ l ++ [10%N]) ++ vpre conts ++ lastl ++ []).
    { rewrite <- !app_assoc. reflexivity. }
    assert (El : S (length a + length l) = length (a ++ l ++ [10%N])).
    { rewrite !app_length. simpl. lia. }
    rewrite Es2, El, IH by (auto; simpl in Hf; lia).
    rewrite <- El, !app_length. simpl. f_equal; lia.
Qed.
