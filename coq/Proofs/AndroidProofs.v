(* The Android locale code mapping (AndroidLocale._get_android_locale and the
   android_locale -> locale step of Matcher.match), through the regex engine on
   the generated regexes. *)
From Coq Require Import NArith List Bool Arith Lia.
From CL Require Import Base.Sx Base.Res Base.Str Regex.Rx Regex.RxLemmas
  Generated.RxC11 Generated.PathFacts Model.Pattern Model.Matcher Proofs.MatcherBase.
Import ListNotations.

Local Arguments chr_ok : simpl never.
Local Arguments N.eqb : simpl never.
Local Arguments N.leb : simpl never.

(* ---- ^-anchored regexes under finditer / sub --------------------------------------------- *)
Lemma bol_fails : forall r z k, pre z <> [] -> m (Cat (Bol false) r) z k = Fail.
Proof.
  intros r z k H. simpl. unfold at_bol. destruct (pre z); [congruence|reflexivity].
Qed.

Lemma search_bol_none : forall r fuel z ne, pre z <> [] -> length (suf z) < fuel ->
  search_from (Cat (Bol false) r) fuel z ne = MNone.
Proof.
  intros r. induction fuel as [|f IH]; intros z ne Hp Hl; [lia|].
  rewrite search_from_S. unfold run_at. rewrite bol_fails by auto.
  destruct (suf z) as [|c t] eqn:Es; [reflexivity|].
  apply IH; simpl; [discriminate|]. simpl in Hl. lia.
Qed.

Lemma pre_fwd_keep : forall n z, pre z <> [] -> pre (fwd n z) <> [].
Proof.
  induction n as [|n IH]; intros z H; simpl; auto.
  destruct (suf z) as [|c t]; auto. apply IH. simpl. discriminate.
Qed.

Lemma pre_fwd : forall n z, 0 < n -> n <= length (suf z) -> pre (fwd n z) <> [].
Proof.
  intros [|n] z Hn Hl; [lia|]. simpl. destruct (suf z) as [|c t]; [simpl in Hl; lia|].
  apply pre_fwd_keep. simpl. discriminate.
Qed.

Lemma fwd_len : forall n z, length (suf (fwd n z)) <= length (suf z).
Proof.
  induction n as [|n IH]; intros z; simpl; auto.
  destruct (suf z) as [|c t] eqn:E; [rewrite E; auto|].
  specialize (IH (advance z c t)). simpl in *. lia.
Qed.

Lemma rfinditer_bol : forall r s, nullable r = false ->
  rfinditer (Cat (Bol false) r) s =
  Some (match rmatch (Cat (Bol false) r) s 0 with MSome x => [x] | _ => [] end).
Proof.
  intros r s Hn. set (R := Cat (Bol false) r).
  unfold rfinditer. replace (2 * length s + 2) with (S (S (2 * length s))) by lia.
  rewrite finditer_from_S.
  assert (Hsuf : suf (st_at s 0) = s) by reflexivity. rewrite Hsuf.
  rewrite search_from_S.
  assert (Hrm : rmatch R s 0 = run_at R (st_at s 0) (fun _ => true)) by reflexivity.
  rewrite Hrm. destruct (run_at R (st_at s 0) (fun _ => true)) as [|x|] eqn:E.
  - rewrite Hsuf. destruct s as [|c t]; [reflexivity|]. unfold R.
    rewrite search_bol_none; [reflexivity|simpl; discriminate|simpl; lia].
  - pose proof (run_at_span _ _ _ _ E) as [H1 [H2 [H3 [H4 _]]]].
    assert (HnR : nullable R = false) by (simpl; exact Hn).
    specialize (H4 HnR). simpl in H1, H2, H3, H4.
    rewrite finditer_from_S.
    set (z' := fwd (m_end x - pos (st_at s 0)) _).
    assert (Hp : pre z' <> []).
    { apply pre_fwd; simpl; lia. }
    unfold R. rewrite search_bol_none; [reflexivity|exact Hp|].
    pose proof (fwd_len (m_end x - pos (st_at s 0))
                  (mkst (pre (st_at s 0)) s (pos (st_at s 0)) [])) as Hlen.
    fold z' in Hlen. simpl in Hlen. lia.
  - exfalso. revert E. apply run_at_no_fuel.
Qed.

Lemma rsub_bol : forall r repl s, nullable r = false ->
  rsub (Cat (Bol false) r) repl s =
  match rmatch (Cat (Bol false) r) s 0 with
  | MSome x => do t <- repl x; Ok (t ++ skipn (m_end x) s)
  | _ => Ok s
  end.
Proof.
  intros r repl s Hn. unfold rsub. rewrite rfinditer_bol by auto.
  destruct (rmatch _ s 0) as [|x|] eqn:E; try reflexivity.
  apply rmatch_span in E. destruct E as [H1 _]. rewrite H1.
  destruct (repl x); reflexivity.
Qed.

(* ---- single characters ---------------------------------------------------------------------- *)
Lemma chr_ok_single : forall d c, chr_ok false [(d, d)] c = N.eqb c d.
Proof.
  intros d c. unfold chr_ok, in_ranges. simpl. rewrite orb_false_r.
  destruct (N.eqb_spec c d).
  - subst. rewrite N.leb_refl. reflexivity.
  - destruct (N.leb d c) eqn:E1; destruct (N.leb c d) eqn:E2; simpl; auto.
    apply N.leb_le in E1. apply N.leb_le in E2. exfalso. apply n. lia.
Qed.

(* ---- the legacy-code regexes at the start of a string ---------------------------------------- *)
Definition pair_is (a b : N) (x y : N) : bool := N.eqb a x && N.eqb b y.

Definition boundary (rest : str) : bool :=
  match rest with [] => true | c :: _ => N.eqb c 45%N end.

Definition hit3 (w1 w2 w3 : N * N) (s : str) : bool :=
  match s with
  | a :: b :: rest =>
      (pair_is a b (fst w1) (snd w1) || pair_is a b (fst w2) (snd w2) || pair_is a b (fst w3) (snd w3))
      && boundary rest
  | _ => false
  end.

Definition hit_res : mres := mkres 0 2 [(1, (0, 2))].

Ltac split_eqb :=
  repeat match goal with
  | |- context [N.eqb ?a ?b] => destruct (N.eqb a b) eqn:?
  end.

Lemma legacy_out_match : forall s,
  rmatch rx_android_legacy_out s 0 =
  if hit3 (104, 101)%N (105, 100)%N (121, 105)%N s then MSome hit_res else MNone.
Proof.
  intros s. unfold rmatch, run_at, rx_android_legacy_out, hit3, pair_is, boundary, hit_res.
  destruct s as [|a [|b [|c rest]]]; simpl; try reflexivity;
    rewrite ?chr_ok_single; split_eqb; reflexivity.
Qed.

Lemma legacy_in_match : forall s,
  rmatch rx_android_legacy_in s 0 =
  if hit3 (105, 119)%N (105, 110)%N (106, 105)%N s then MSome hit_res else MNone.
Proof.
  intros s. unfold rmatch, run_at, rx_android_legacy_in, hit3, pair_is, boundary, hit_res.
  destruct s as [|a [|b [|c rest]]]; simpl; try reflexivity;
    rewrite ?chr_ok_single; split_eqb; reflexivity.
Qed.

(* ---- [a-z]{2,3}-[A-Z]{2} at the start of a string --------------------------------------------- *)
Definition Lc (c : N) : bool := chr_ok false [(97, 122)%N] c.
Definition Uc (c : N) : bool := chr_ok false [(65, 90)%N] c.
Definition Dc (c : N) : bool := chr_ok false [(45, 45)%N] c.

Definition lr_tail (r : str) : bool :=
  match r with d :: u1 :: u2 :: _ => Dc d && Uc u1 && Uc u2 | _ => false end.

Definition lr_hit (s : str) : bool :=
  match s with
  | c1 :: c2 :: r2 =>
      Lc c1 && Lc c2 &&
      ((match r2 with c3 :: r3 => Lc c3 && lr_tail r3 | [] => false end) || lr_tail r2)
  | _ => false
  end.

Ltac split_chr :=
  repeat match goal with
  | |- context [chr_ok ?n ?r ?c] => destruct (chr_ok n r c) eqn:?
  end.

Lemma lang_region_match : forall s,
  (lr_hit s = true -> exists x, rmatch rx_android_lang_region s 0 = MSome x) /\
  (lr_hit s = false -> rmatch rx_android_lang_region s 0 = MNone).
Proof.
  intros s. unfold rmatch, run_at, rx_android_lang_region, lr_hit, lr_tail, Lc, Uc, Dc.
  destruct s as [|c1 [|c2 [|c3 [|c4 [|c5 [|c6 rest]]]]]]; simpl;
    split_chr; simpl; split; intro Hx; try discriminate; try reflexivity;
    try (eexists; reflexivity).
Qed.

(* ---- -r([A-Z]{2}) under sub --------------------------------------------------------------------- *)
Lemma region_fail_end : forall z k, suf z = [] -> m rx_android_region z k = Fail.
Proof. intros z k H. unfold rx_android_region. simpl. rewrite H. reflexivity. Qed.

Lemma region_fail_nodash : forall z c t k, suf z = c :: t -> Dc c = false ->
  m rx_android_region z k = Fail.
Proof.
  intros z c t k H Hd. unfold rx_android_region. simpl. rewrite H. unfold Dc in Hd. rewrite Hd.
  reflexivity.
Qed.

Lemma region_hit : forall pre0 pos0 caps0 u1 u2 t (K : st -> out),
  Uc u1 = true -> Uc u2 = true ->
  m rx_android_region (mkst pre0 (45 :: 114 :: u1 :: u2 :: t)%N pos0 caps0) K =
  K (mkst (u2 :: u1 :: 114 :: 45 :: pre0)%N t (S (S (S (S pos0))))
          ((1, (S (S pos0), S (S (S (S pos0))))) :: caps0)).
Proof.
  intros pre0 pos0 caps0 u1 u2 t K H1 H2. unfold rx_android_region, Uc in *. simpl.
  rewrite H1, H2. reflexivity.
Qed.

Lemma fwd_app : forall p z rest, suf z = p ++ rest ->
  suf (fwd (length p) z) = rest /\ pos (fwd (length p) z) = pos z + length p /\
  pre (fwd (length p) z) = rev p ++ pre z /\ caps (fwd (length p) z) = caps z.
Proof.
  induction p as [|c p IH]; intros z rest H; simpl in *.
  - repeat split; auto.
  - rewrite H. destruct (IH (advance z c (p ++ rest)) rest eq_refl) as [H1 [H2 [H3 H4]]].
    rewrite H1, H2, H3, H4. simpl. split; [auto|]. split; [lia|]. split; [|auto].
    rewrite <- app_assoc. reflexivity.
Qed.

Lemma search_skip : forall p z rest f ne, suf z = p ++ rest ->
  Forall (fun c => Dc c = false) p ->
  search_from rx_android_region (length p + f) z ne =
  search_from rx_android_region f (fwd (length p) z) ne.
Proof.
  induction p as [|c p IH]; intros z rest f ne H HF; [reflexivity|].
  inversion HF as [|? ? Hc HF']; subst.
  change (length (c :: p) + f) with (S (length p + f)).
  rewrite search_from_S. unfold run_at.
  change ((c :: p) ++ rest) with (c :: (p ++ rest)) in H.
  rewrite (region_fail_nodash z c (p ++ rest)) by auto. rewrite H.
  rewrite (IH (advance z c (p ++ rest)) rest) by auto.
  change (fwd (length (c :: p)) z) with
    (match suf z with c' :: t => fwd (length p) (advance z c' t) | [] => z end).
  rewrite H. reflexivity.
Qed.

Lemma region_finditer_none : forall s, Forall (fun c => Dc c = false) s ->
  rfinditer rx_android_region s = Some [].
Proof.
  intros s HF. unfold rfinditer. replace (2 * length s + 2) with (S (S (2 * length s))) by lia.
  rewrite finditer_from_S.
  assert (Hs : suf (st_at s 0) = s ++ []) by (simpl; rewrite app_nil_r; reflexivity).
  replace (S (length (suf (st_at s 0)))) with (length s + 1) by (simpl; lia).
  rewrite (search_skip s _ [] 1 None Hs HF).
  destruct (fwd_app s (st_at s 0) [] Hs) as [H1 _].
  rewrite search_from_S. unfold run_at. rewrite region_fail_end by auto. rewrite H1. reflexivity.
Qed.

Lemma region_finditer_one : forall p u1 u2, Forall (fun c => Dc c = false) p ->
  Uc u1 = true -> Uc u2 = true ->
  rfinditer rx_android_region (p ++ [45; 114; u1; u2])%N =
  Some [mkres (length p) (S (S (S (S (length p)))))
              [(1, (S (S (length p)), S (S (S (S (length p))))))]].
Proof.
  intros p u1 u2 HF H1 H2. set (s := (p ++ [45; 114; u1; u2])%N).
  assert (Hlen : length s = length p + 4) by (unfold s; rewrite app_length; reflexivity).
  unfold rfinditer. replace (2 * length s + 2) with (S (S (2 * length s))) by lia.
  rewrite finditer_from_S.
  assert (Hs : suf (st_at s 0) = p ++ [45; 114; u1; u2]%N) by reflexivity.
  replace (S (length (suf (st_at s 0)))) with (length p + 5) by (simpl; lia).
  rewrite (search_skip p _ _ 5 None Hs HF).
  destruct (fwd_app p (st_at s 0) _ Hs) as [F1 [F2 [F3 F4]]].
  remember (fwd (length p) (st_at s 0)) as z1.
  destruct z1 as [pre1 suf1 pos1 caps1]. simpl in F1, F2, F3, F4. subst suf1 pos1 caps1.
  rewrite search_from_S. unfold run_at. rewrite region_hit by auto.
  cbv beta iota. cbn [pos caps m_end m_start m_caps pre suf].
  assert (Hne : Nat.eqb (length p) (S (S (S (S (length p))))) = false) by (apply Nat.eqb_neq; lia).
  rewrite Hne.
  change (pos (st_at s 0)) with 0. change (pre (st_at s 0)) with (@nil N).
  change (suf (st_at s 0)) with s.
  replace (S (S (S (S (length p)))) - 0) with (length s) by lia.
  assert (Hs2 : suf (mkst [] s 0 []) = s ++ []) by (simpl; rewrite app_nil_r; reflexivity).
  destruct (fwd_app s (mkst [] s 0 []) [] Hs2) as [G1 _].
  rewrite finditer_from_S. rewrite G1. simpl length.
  rewrite search_from_S. unfold run_at. rewrite region_fail_end by auto. rewrite G1. reflexivity.
Qed.

(* ---- character classes --------------------------------------------------------------------------- *)
Definition lower (c : N) : Prop := (97 <= c /\ c <= 122)%N.
Definition upper (c : N) : Prop := (65 <= c /\ c <= 90)%N.

Lemma chr_ok_range : forall lo hi c, chr_ok false [(lo, hi)] c = N.leb lo c && N.leb c hi.
Proof.
  intros. unfold chr_ok, in_ranges. simpl. destruct (N.leb lo c && N.leb c hi); reflexivity.
Qed.

Ltac range_bool :=
  unfold Lc, Uc, Dc; rewrite chr_ok_range;
  match goal with
  | |- _ && _ = true => apply andb_true_iff; split; apply N.leb_le; lia
  | |- _ && _ = false =>
      apply andb_false_iff;
      first [ left; apply N.leb_gt; lia | right; apply N.leb_gt; lia ]
  end.

Lemma lower_L : forall c, lower c -> Lc c = true. Proof. unfold lower. intros. range_bool. Qed.
Lemma lower_U : forall c, lower c -> Uc c = false. Proof. unfold lower. intros. range_bool. Qed.
Lemma lower_D : forall c, lower c -> Dc c = false. Proof. unfold lower. intros. range_bool. Qed.
Lemma upper_L : forall c, upper c -> Lc c = false. Proof. unfold upper. intros. range_bool. Qed.
Lemma upper_U : forall c, upper c -> Uc c = true. Proof. unfold upper. intros. range_bool. Qed.
Lemma upper_D : forall c, upper c -> Dc c = false. Proof. unfold upper. intros. range_bool. Qed.
Lemma dash_D : Dc 45 = true. Proof. reflexivity. Qed.
Lemma dash_L : Lc 45 = false. Proof. reflexivity. Qed.
Lemma dash_U : Uc 45 = false. Proof. reflexivity. Qed.

(* resolve comparisons of a class-constrained character with a constant *)
Ltac atom :=
  match goal with
  | |- context [N.eqb ?x ?y] =>
      first [ is_var x | is_var y ];
      let H := fresh in
      assert (H : N.eqb x y = false) by (apply N.eqb_neq; unfold lower, upper in *; lia);
      rewrite H; clear H
  end.
Ltac norm := repeat (simpl; unfold c_dash, c_plus, c_slash, s_bplus, s_dash_r, of_ascii; simpl;
                     rewrite ?N.eqb_refl, ?andb_false_r, ?andb_true_r, ?orb_false_r; try atom).

(* ---- the legacy substitutions ---------------------------------------------------------------------- *)
Definition out_word (a b : N) : str :=
  if pair_is a b 104 101 then [105; 119]%N
  else if pair_is a b 105 100 then [105; 110]%N
  else if pair_is a b 121 105 then [106; 105]%N
  else [a; b].

Definition in_word (a b : N) : str :=
  if pair_is a b 105 119 then [104; 101]%N
  else if pair_is a b 105 110 then [105; 100]%N
  else if pair_is a b 106 105 then [121; 105]%N
  else [a; b].

Lemma nullable_legacy_out : forall r, rx_android_legacy_out = Cat (Bol false) r -> nullable r = false.
Proof. intros r H. inversion H. reflexivity. Qed.

Lemma legacy_out_sub : forall a b rest,
  rsub rx_android_legacy_out
       (fun x => map_lookup android_legacy_map (text_or_empty (group_text (a :: b :: rest) 1 x)))
       (a :: b :: rest) =
  Ok (if hit3 (104, 101)%N (105, 100)%N (121, 105)%N (a :: b :: rest)
      then out_word a b ++ rest else a :: b :: rest).
Proof.
  intros a b rest. unfold rx_android_legacy_out at 1. rewrite rsub_bol by reflexivity.
  fold rx_android_legacy_out. rewrite legacy_out_match.
  destruct (hit3 _ _ _ (a :: b :: rest)) eqn:Eh; [|reflexivity].
  unfold hit_res, group_text, group. simpl get_cap. cbv iota beta. unfold slice. simpl skipn. simpl firstn.
  unfold hit3, pair_is in Eh. simpl in Eh. unfold out_word, pair_is, map_lookup, android_legacy_map.
  simpl. unfold str_eqb. simpl.
  revert Eh. split_eqb; simpl; intro Eh; try discriminate; reflexivity.
Qed.

Lemma legacy_in_sub : forall a b rest,
  rsub rx_android_legacy_in
       (fun x => map_lookup android_standard_map (text_or_empty (group_text (a :: b :: rest) 1 x)))
       (a :: b :: rest) =
  Ok (if hit3 (105, 119)%N (105, 110)%N (106, 105)%N (a :: b :: rest)
      then in_word a b ++ rest else a :: b :: rest).
Proof.
  intros a b rest. unfold rx_android_legacy_in at 1. rewrite rsub_bol by reflexivity.
  fold rx_android_legacy_in. rewrite legacy_in_match.
  destruct (hit3 _ _ _ (a :: b :: rest)) eqn:Eh; [|reflexivity].
  unfold hit_res, group_text, group. simpl get_cap. cbv iota beta. unfold slice. simpl skipn. simpl firstn.
  unfold hit3, pair_is in Eh. simpl in Eh. unfold in_word, pair_is, map_lookup, android_standard_map.
  simpl. unfold str_eqb. simpl.
  revert Eh. split_eqb; simpl; intro Eh; try discriminate; reflexivity.
Qed.

(* ---- the region substitution on the shapes that occur --------------------------------------------- *)
Lemma slice_app_right : forall (p l : str) i j,
  slice (p ++ l) (length p + i) (length p + j) = slice l i j.
Proof.
  intros p l i j. unfold slice. replace (length p + j - (length p + i)) with (j - i) by lia.
  f_equal. rewrite skipn_app. replace (length p + i - length p) with i by lia.
  rewrite (skipn_all2 p) by lia. reflexivity.
Qed.

Lemma rsub_region_none : forall repl s, Forall (fun c => Dc c = false) s ->
  rsub rx_android_region repl s = Ok s.
Proof. intros repl s H. unfold rsub. rewrite region_finditer_none by auto. reflexivity. Qed.

Lemma rsub_region_one : forall p u1 u2, Forall (fun c => Dc c = false) p ->
  Uc u1 = true -> Uc u2 = true ->
  let s := (p ++ [45; 114; u1; u2])%N in
  rsub rx_android_region (fun x => Ok (c_dash :: text_or_empty (group_text s 1 x))) s =
  Ok (p ++ [45; u1; u2])%N.
Proof.
  intros p u1 u2 HF H1 H2 s. unfold rsub. unfold s at 1. rewrite region_finditer_one by auto.
  unfold group_text, group. cbn [m_caps get_cap Nat.eqb m_start m_end]. cbv iota beta.
  assert (Hg : slice s (S (S (length p))) (S (S (S (S (length p))))) = [u1; u2]).
  { replace (S (S (length p))) with (length p + 2) by lia.
    replace (S (S (length p + 2))) with (length p + 4) by lia.
    unfold s. rewrite slice_app_right. reflexivity. }
  rewrite Hg. cbn [text_or_empty bind].
  assert (Hp : slice s 0 (length p) = p).
  { unfold s, slice. rewrite Nat.sub_0_r. simpl skipn. rewrite firstn_app, Nat.sub_diag, firstn_all.
    simpl. apply app_nil_r. }
  rewrite Hp.
  assert (Hr : skipn (S (S (S (S (length p))))) s = []).
  { apply skipn_all2. unfold s. rewrite app_length. simpl. lia. }
  rewrite Hr. unfold c_dash. rewrite app_nil_r. reflexivity.
Qed.

(* ---- the grammar ------------------------------------------------------------------------------------- *)
Inductive tail_shape : str -> Prop :=
| T_none : tail_shape []
| T_script : forall S c r p, upper S -> lower c -> lower r -> lower p ->
    tail_shape [45; S; c; r; p]%N
| T_region : forall R G, upper R -> upper G -> tail_shape [45; R; G]%N
| T_both : forall S c r p R G, upper S -> lower c -> lower r -> lower p -> upper R -> upper G ->
    tail_shape [45; S; c; r; p; 45; R; G]%N.

Inductive lang_ok : str -> Prop :=
| L_two : forall a b, lower a -> lower b ->
    hit3 (105, 119)%N (105, 110)%N (106, 105)%N [a; b] = false -> lang_ok [a; b]
| L_three : forall a b c, lower a -> lower b -> lower c -> lang_ok [a; b; c].

Definition bcp47_grammar (l : str) : Prop :=
  exists lang tail, l = lang ++ tail /\ lang_ok lang /\ tail_shape tail.

(* what follows the legacy substitution in to_android *)
Definition android_tail (bcp47 : str) : result str :=
  match rmatch rx_android_lang_region bcp47 0 with
  | MFuel => Raise OutOfFuel
  | MSome _ =>
      match split_char c_dash bcp47 with
      | a :: b :: _ => Ok (a ++ s_dash_r ++ b)
      | _ => Raise IndexError
      end
  | MNone =>
      if has_char c_dash bcp47 then Ok (s_bplus ++ replace_char c_dash c_plus bcp47)
      else Ok bcp47
  end.

Definition android_form (lang tail : str) : str :=
  match tail with
  | [] => lang
  | [_; R; G] => lang ++ [45; 114; R; G]%N
  | _ => s_bplus ++ lang ++ replace_char c_dash c_plus tail
  end.

Ltac lr_decide s :=
  let Hy := fresh "Hy" in let Hn := fresh "Hn" in
  destruct (lang_region_match s) as [Hy Hn];
  unfold lr_hit, lr_tail in Hy, Hn.

Ltac class_rewrite :=
  repeat match goal with
  | H : lower ?c |- _ =>
      rewrite ?(lower_L c H), ?(lower_U c H), ?(lower_D c H) in *
  | H : upper ?c |- _ =>
      rewrite ?(upper_L c H), ?(upper_U c H), ?(upper_D c H) in *
  end; rewrite ?dash_D, ?dash_L, ?dash_U in *.

Ltac class_rw_in H :=
  repeat match goal with
  | Hc : lower ?c |- _ =>
      progress (rewrite ?(lower_L c Hc), ?(lower_U c Hc), ?(lower_D c Hc) in H)
  | Hc : upper ?c |- _ =>
      progress (rewrite ?(upper_L c Hc), ?(upper_U c Hc), ?(upper_D c Hc) in H)
  end; rewrite ?dash_D, ?dash_L, ?dash_U in H.

Ltac lr_step s :=
  let Hy := fresh "Hy" in let Hn := fresh "Hn" in
  destruct (lang_region_match s) as [Hy Hn];
  unfold lr_hit, lr_tail in Hy, Hn;
  class_rw_in Hy; class_rw_in Hn; simpl in Hy, Hn;
  first [ rewrite (Hn eq_refl) | (let x := fresh "x" in let Hx := fresh "Hx" in
                                  destruct (Hy eq_refl) as [x Hx]; rewrite Hx) ].

Lemma android_tail_2 : forall a b tail, lower a -> lower b -> tail_shape tail ->
  android_tail ([a; b] ++ tail) = Ok (android_form [a; b] tail).
Proof.
  intros a b tail Ha Hb Ht. inversion Ht; subst; unfold android_tail; simpl app.
  - lr_step [a; b]. unfold has_char, c_dash. norm. reflexivity.
  - lr_step [a; b; 45; S; c; r; p]%N. unfold has_char, replace_char, c_dash, c_plus, android_form.
    norm. reflexivity.
  - lr_step [a; b; 45; R; G]%N. unfold split_char, c_dash, s_dash_r, android_form. norm. reflexivity.
  - lr_step [a; b; 45; S; c; r; p; 45; R; G]%N.
    unfold has_char, replace_char, c_dash, c_plus, android_form. norm. reflexivity.
Qed.

Lemma android_tail_3 : forall a b c0 tail, lower a -> lower b -> lower c0 -> tail_shape tail ->
  android_tail ([a; b; c0] ++ tail) = Ok (android_form [a; b; c0] tail).
Proof.
  intros a b c0 tail Ha Hb Hc Ht. inversion Ht; subst; unfold android_tail; simpl app.
  - lr_step [a; b; c0]. unfold has_char, c_dash. norm. reflexivity.
  - lr_step [a; b; c0; 45; S; c; r; p]%N. unfold has_char, replace_char, c_dash, c_plus, android_form.
    norm. reflexivity.
  - lr_step [a; b; c0; 45; R; G]%N. unfold split_char, c_dash, s_dash_r, android_form. norm. reflexivity.
  - lr_step [a; b; c0; 45; S; c; r; p; 45; R; G]%N.
    unfold has_char, replace_char, c_dash, c_plus, android_form. norm. reflexivity.
Qed.

(* ---- and back ------------------------------------------------------------------------------------------ *)
Definition back (a b : N) (ltail tail : str) : str :=
  if hit3 (105, 119)%N (105, 110)%N (106, 105)%N (a :: b :: ltail ++ tail)
  then in_word a b ++ ltail ++ tail else a :: b :: ltail ++ tail.

Ltac region_none :=
  rewrite rsub_region_none by (repeat constructor; apply lower_D; assumption).

Ltac finish_back rest :=
  match goal with Er : ?rhs = back ?a ?b _ _ |- _ =>
    subst rhs; unfold back; simpl app; apply (legacy_in_sub a b rest) end.

Lemma bcp47_form_2 : forall a b tail, lower a -> lower b -> tail_shape tail ->
  to_bcp47 (android_form [a; b] tail) = Ok (back a b [] tail).
Proof.
  intros a b tail Ha Hb Ht.
  inversion Ht; subst; remember (back a b [] _) as rhs eqn:Er;
    unfold to_bcp47, android_form; simpl app.
  - unfold starts_with, s_bplus. norm. region_none. simpl bind. finish_back (@nil N).
  - unfold starts_with, s_bplus, replace_char. norm. finish_back [45; S; c; r; p]%N.
  - unfold starts_with, s_bplus. norm.
    pose proof (rsub_region_one [a; b] R G) as Hr. simpl in Hr. unfold c_dash in Hr. rewrite Hr;
      [|repeat constructor; apply lower_D; assumption|apply upper_U; assumption|apply upper_U; assumption].
    simpl bind. finish_back [45; R; G]%N.
  - unfold starts_with, s_bplus, replace_char. norm. finish_back [45; S; c; r; p; 45; R; G]%N.
Qed.

Lemma bcp47_form_3 : forall a b c0 tail, lower a -> lower b -> lower c0 -> tail_shape tail ->
  to_bcp47 (android_form [a; b; c0] tail) = Ok (back a b [c0] tail).
Proof.
  intros a b c0 tail Ha Hb Hc Ht.
  inversion Ht; subst; remember (back a b [c0] _) as rhs eqn:Er;
    unfold to_bcp47, android_form; simpl app.
  - unfold starts_with, s_bplus. norm. region_none. simpl bind. finish_back [c0].
  - unfold starts_with, s_bplus, replace_char. norm. finish_back [c0; 45; S; c; r; p]%N.
  - unfold starts_with, s_bplus. norm.
    pose proof (rsub_region_one [a; b; c0] R G) as Hr. simpl in Hr. unfold c_dash in Hr. rewrite Hr;
      [|repeat constructor; apply lower_D; assumption|apply upper_U; assumption|apply upper_U; assumption].
    simpl bind. finish_back [c0; 45; R; G]%N.
  - unfold starts_with, s_bplus, replace_char. norm. finish_back [c0; 45; S; c; r; p; 45; R; G]%N.
Qed.

(* ---- the round trip ---------------------------------------------------------------------------------------- *)
Lemma to_android_unfold : forall l,
  to_android l =
  do b <- rsub rx_android_legacy_out
            (fun x => map_lookup android_legacy_map (text_or_empty (group_text l 1 x))) l;
  android_tail b.
Proof. reflexivity. Qed.

Lemma tail_boundary : forall tail, tail_shape tail -> boundary tail = true.
Proof. intros tail H. inversion H; reflexivity. Qed.

Ltac spec_eqb :=
  repeat match goal with
  | |- context [N.eqb ?x ?y] => destruct (N.eqb_spec x y); subst
  | H : context [N.eqb ?x ?y] |- _ => destruct (N.eqb_spec x y); subst
  end.

Lemma out_word_lower : forall a b, lower a -> lower b ->
  exists a' b', out_word a b = [a'; b'] /\ lower a' /\ lower b'.
Proof.
  intros a b Ha Hb. unfold out_word, pair_is.
  destruct (N.eqb a 104 && N.eqb b 101); [exists 105%N, 119%N; unfold lower; repeat split; lia|].
  destruct (N.eqb a 105 && N.eqb b 100); [exists 105%N, 110%N; unfold lower; repeat split; lia|].
  destruct (N.eqb a 121 && N.eqb b 105); [exists 106%N, 105%N; unfold lower; repeat split; lia|].
  exists a, b. auto.
Qed.

(* mapping a language out and in again: the identity unless it is iw / in / ji *)
Lemma in_out_word : forall a b a' b',
  hit3 (105, 119)%N (105, 110)%N (106, 105)%N [a; b] = false ->
  out_word a b = [a'; b'] ->
  (if hit3 (105, 119)%N (105, 110)%N (106, 105)%N [a'; b'] then in_word a' b' else [a'; b']) = [a; b].
Proof.
  intros a b a' b' Hno Ho. unfold out_word in Ho.
  assert (Hp : forall x y, pair_is a b x y = true -> a = x /\ b = y).
  { intros x y H. unfold pair_is in H. apply andb_true_iff in H. destruct H as [H1 H2].
    apply N.eqb_eq in H1. apply N.eqb_eq in H2. auto. }
  destruct (pair_is a b 104 101) eqn:E1.
  { destruct (Hp _ _ E1); subst. inversion Ho; subst. reflexivity. }
  destruct (pair_is a b 105 100) eqn:E2.
  { destruct (Hp _ _ E2); subst. inversion Ho; subst. reflexivity. }
  destruct (pair_is a b 121 105) eqn:E3.
  { destruct (Hp _ _ E3); subst. inversion Ho; subst. reflexivity. }
  inversion Ho; subst a' b'. rewrite Hno. reflexivity.
Qed.

Theorem android_roundtrip : forall l, bcp47_grammar l ->
  (do a <- to_android l; to_bcp47 a) = Ok l.
Proof.
  intros l [lang [tail [Hl [Hlang Htail]]]]. subst l.
  pose proof (tail_boundary tail Htail) as Hbd.
  inversion Hlang as [a b Ha Hb Hno|a b c0 Ha Hb Hc]; subst lang.
  - (* two-letter language *)
    simpl app. rewrite to_android_unfold, legacy_out_sub.
    assert (Hout : (if hit3 (104, 101)%N (105, 100)%N (121, 105)%N (a :: b :: tail)
                    then out_word a b ++ tail else a :: b :: tail) = out_word a b ++ tail).
    { unfold hit3. rewrite Hbd, andb_true_r. unfold out_word. cbn [fst snd].
      destruct (pair_is a b 104 101); [reflexivity|].
      destruct (pair_is a b 105 100); [reflexivity|].
      destruct (pair_is a b 121 105); reflexivity. }
    rewrite Hout. simpl bind.
    destruct (out_word_lower a b Ha Hb) as [a' [b' [Ho [Ha' Hb']]]]. rewrite Ho.
    rewrite (android_tail_2 a' b' tail Ha' Hb' Htail). simpl bind.
    rewrite (bcp47_form_2 a' b' tail Ha' Hb' Htail). f_equal. unfold back. simpl app.
    pose proof (in_out_word a b a' b' Hno Ho) as Hio.
    unfold hit3 in *. rewrite Hbd, andb_true_r. simpl boundary in Hio. rewrite andb_true_r in Hio.
    cbn [fst snd] in *.
    destruct (pair_is a' b' 105 119 || pair_is a' b' 105 110 || pair_is a' b' 106 105).
    + rewrite Hio. reflexivity.
    + inversion Hio; subst. reflexivity.
  - (* three-letter language: the legacy regexes need a boundary after two letters *)
    simpl app. rewrite to_android_unfold, legacy_out_sub.
    assert (Hc45 : N.eqb c0 45 = false) by (apply N.eqb_neq; unfold lower in Hc; lia).
    assert (Hout : hit3 (104, 101)%N (105, 100)%N (121, 105)%N (a :: b :: c0 :: tail) = false).
    { unfold hit3, boundary. rewrite Hc45. apply andb_false_r. }
    rewrite Hout. simpl bind.
    change (a :: b :: c0 :: tail) with ([a; b; c0] ++ tail).
    rewrite (android_tail_3 a b c0 tail Ha Hb Hc Htail). simpl bind.
    rewrite (bcp47_form_3 a b c0 tail Ha Hb Hc Htail). f_equal. unfold back. simpl app.
    assert (Hin : hit3 (105, 119)%N (105, 110)%N (106, 105)%N (a :: b :: c0 :: tail) = false).
    { unfold hit3, boundary. rewrite Hc45. apply andb_false_r. }
    rewrite Hin. reflexivity.
Qed.
