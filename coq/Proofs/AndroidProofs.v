(* The Android locale code mapping (AndroidLocale._get_android_locale and the
   android_locale -> locale step of Matcher.match), through the regex engine on
   the generated regexes. *)
From Coq Require Import NArith List Bool Arith Lia.
From CL Require Import Base.Sx Base.Res Base.Str Regex.Rx Regex.RxLemmas
  Generated.RxC11 Generated.PathFacts Model.Pattern Model.Matcher Proofs.MatcherBase.
Import ListNotations.

Local Arguments chr_ok : simpl never.
Local Arguments N.eqb : simpl never.
Local Arguments N.leb : simpl never.

(* ---- ^-anchored regexes under finditer / sub --------------------------------------------- *)
Lemma bol_fails : forall r z k, pre z <> [] -> m (Cat (Bol false) r) z k = Fail.
Proof.
  intros r z k H. simpl. unfold at_bol. destruct (pre z); [congruence|reflexivity].
Qed.

Lemma search_bol_none : forall r fuel z ne, pre z <> [] -> length (suf z) < fuel ->
  search_from (Cat (Bol false) r) fuel z ne = MNone.
Proof.
  intros r. induction fuel as [|f IH]; intros z ne Hp Hl; [lia|].
  rewrite search_from_S. unfold run_at. rewrite bol_fails by auto.
  destruct (suf z) as [|c t] eqn:Es; [reflexivity|].
  apply IH; simpl; [discriminate|]. simpl in Hl. lia.
Qed.

Lemma pre_fwd_keep : forall n z, pre z <> [] -> pre (fwd n z) <> [].
Proof.
  induction n as [|n IH]; intros z H; simpl; auto.
  destruct (suf z) as [|c t]; auto. apply IH. simpl. discriminate.
Qed.

Lemma pre_fwd : forall n z, 0 < n -> n <= length (suf z) -> pre (fwd n z) <> [].
Proof.
  intros [|n] z Hn Hl; [lia|]. simpl. destruct (suf z) as [|c t]; [simpl in Hl; lia|].
  apply pre_fwd_keep. simpl. discriminate.
Qed.

Lemma fwd_len : forall n z, length (suf (fwd n z)) <= length (suf z).
Proof.
  induction n as [|n IH]; intros z; simpl; auto.
  destruct (suf z) as [|c t] eqn:E; [rewrite E; auto|].
  specialize (IH (advance z c t)). simpl in *. lia.
Qed.

Lemma rfinditer_bol : forall r s, nullable r = false ->
  rfinditer (Cat (Bol false) r) s =
  Some (match rmatch (Cat (Bol false) r) s 0 with MSome x => [x] | _ => [] end).
Proof.
  intros r s Hn. set (R := Cat (Bol false) r).
  unfold rfinditer. replace (2 * length s + 2) with (S (S (2 * length s))) by lia.
  rewrite finditer_from_S.
  assert (Hsuf : suf (st_at s 0) = s) by reflexivity. rewrite Hsuf.
  rewrite search_from_S.
  assert (Hrm : rmatch R s 0 = run_at R (st_at s 0) (fun _ => true)) by reflexivity.
  rewrite Hrm. destruct (run_at R (st_at s 0) (fun _ => true)) as [|x|] eqn:E.
  - rewrite Hsuf. destruct s as [|c t]; [reflexivity|]. unfold R.
    rewrite search_bol_none; [reflexivity|simpl; discriminate|simpl; lia].
  - pose proof (run_at_span _ _ _ _ E) as [H1 [H2 [H3 [H4 _]]]].
    assert (HnR : nullable R = false) by (simpl; exact Hn).
    specialize (H4 HnR). simpl in H1, H2, H3, H4.
    rewrite finditer_from_S.
    set (z' := fwd (m_end x - pos (st_at s 0)) _).
    assert (Hp : pre z' <> []).
    { apply pre_fwd; simpl; lia. }
    unfold R. rewrite search_bol_none; [reflexivity|exact Hp|].
    pose proof (fwd_len (m_end x - pos (st_at s 0))
                  (mkst (pre (st_at s 0)) s (pos (st_at s 0)) [])) as Hlen.
    fold z' in Hlen. simpl in Hlen. lia.
  - exfalso. revert E. apply run_at_no_fuel.
Qed.

Lemma rsub_bol : forall r repl s, nullable r = false ->
  rsub (Cat (Bol false) r) repl s =
  match rmatch (Cat (Bol false) r) s 0 with
  | MSome x => do t <- repl x; Ok (t ++ skipn (m_end x) s)
  | _ => Ok s
  end.
Proof.
  intros r repl s Hn. unfold rsub. rewrite rfinditer_bol by auto.
  destruct (rmatch _ s 0) as [|x|] eqn:E; try reflexivity.
  apply rmatch_span in E. destruct E as [H1 _]. rewrite H1.
  destruct (repl x); reflexivity.
Qed.

(* ---- single characters ---------------------------------------------------------------------- *)
Lemma chr_ok_single : forall d c, chr_ok false [(d, d)] c = N.eqb c d.
Proof.
  intros d c. unfold chr_ok, in_ranges. simpl. rewrite orb_false_r.
  destruct (N.eqb_spec c d).
  - subst. rewrite N.leb_refl. reflexivity.
  - destruct (N.leb d c) eqn:E1; destruct (N.leb c d) eqn:E2; simpl; auto.
    apply N.leb_le in E1. apply N.leb_le in E2. exfalso. apply n. lia.
Qed.

(* ---- the legacy-code regexes at the start of a string ---------------------------------------- *)
Definition pair_is (a b : N) (x y : N) : bool := N.eqb a x && N.eqb b y.

Definition boundary (rest : str) : bool :=
  match rest with [] => true | c :: _ => N.eqb c 45%N end.

Definition hit3 (w1 w2 w3 : N * N) (s : str) : bool :=
  match s with
  | a :: b :: rest =>
      (pair_is a b (fst w1) (snd w1) || pair_is a b (fst w2) (snd w2) || pair_is a b (fst w3) (snd w3))
      && boundary rest
  | _ => false
  end.

Definition hit_res : mres := mkres 0 2 [(1, (0, 2))].

Ltac split_eqb :=
  repeat match goal with
  | |- context [N.eqb ?a ?b] => destruct (N.eqb a b) eqn:?
  end.

Lemma legacy_out_match : forall s,
  rmatch rx_android_legacy_out s 0 =
  if hit3 (104, 101)%N (105, 100)%N (121, 105)%N s then MSome hit_res else MNone.
Proof.
  intros s. unfold rmatch, run_at, rx_android_legacy_out, hit3, pair_is, boundary, hit_res.
  destruct s as [|a [|b [|c rest]]]; simpl; try reflexivity;
    rewrite ?chr_ok_single; split_eqb; reflexivity.
Qed.

Lemma legacy_in_match : forall s,
  rmatch rx_android_legacy_in s 0 =
  if hit3 (105, 119)%N (105, 110)%N (106, 105)%N s then MSome hit_res else MNone.
Proof.
  intros s. unfold rmatch, run_at, rx_android_legacy_in, hit3, pair_is, boundary, hit_res.
  destruct s as [|a [|b [|c rest]]]; simpl; try reflexivity;
    rewrite ?chr_ok_single; split_eqb; reflexivity.
Qed.

(* ---- [a-z]{2,3}-[A-Z]{2} at the start of a string --------------------------------------------- *)
Definition Lc (c : N) : bool := chr_ok false [(97, 122)%N] c.
Definition Uc (c : N) : bool := chr_ok false [(65, 90)%N] c.
Definition Dc (c : N) : bool := chr_ok false [(45, 45)%N] c.

Definition lr_tail (r : str) : bool :=
  match r with d :: u1 :: u2 :: _ => Dc d && Uc u1 && Uc u2 | _ => false end.

Definition lr_hit (s : str) : bool :=
  match s with
  | c1 :: c2 :: r2 =>
      Lc c1 && Lc c2 &&
      ((match r2 with c3 :: r3 => Lc c3 && lr_tail r3 | [] => false end) || lr_tail r2)
  | _ => false
  end.

Ltac split_chr :=
  repeat match goal with
  | |- context [chr_ok ?n ?r ?c] => destruct (chr_ok n r c) eqn:?
  end.

Lemma lang_region_match : forall s,
  (lr_hit s = true -> exists x, rmatch rx_android_lang_region s 0 = MSome x) /\
  (lr_hit s = false -> rmatch rx_android_lang_region s 0 = MNone).
Proof.
  intros s. unfold rmatch, run_at, rx_android_lang_region, lr_hit, lr_tail, Lc, Uc, Dc.
  destruct s as [|c1 [|c2 [|c3 [|c4 [|c5 [|c6 rest]]]]]]; simpl;
    split_chr; simpl; split; intro Hx; try discriminate; try reflexivity;
    try (eexists; reflexivity).
Qed.
