(* C17, DTD checker: the link between the XML parser's (line, column) of a
   parse error and the contract [DtdBounds.within] of value_position's tuple arm.

   checks/dtd.py parses the wrapper document
       <!DOCTYPE elem [SUBSET]>\n<elem>VALUE</elem>\n
   and turns the parser's (1-based line, 0-based column) into a pair relative
   to VALUE with [CheckDTD.error_position].  SUBSET is a concatenation of
   <!ENTITY name ""> declarations (CheckDTD.decls) and holds no newline, so the
   value starts at document line 2, column len("<elem>") = col_line1.  An error
   at offset k of the value (0 <= k <= |v|; k = |v| is also the closing tag
   right behind the value) is therefore reported by the parser at
       line  2 + (number of "\n" in v[:k])
       col   col_line1 + k               when v[:k] holds no "\n"
             the characters since the last "\n" of v[:k]   otherwise.
   That is [doc_line] / [doc_col] below: the CONTRACT of the parser oracle.

   Scope: values whose only line-break characters are "\n" ([plain]).
   "\r", VT (11), FF (12), FS (28), GS (29), RS (30), NEL (133), LS (8232) and
   PS (8233) are boundaries for str.splitlines but not for the parser's line
   count ("\r" is even normalised by the parser): for them splitlines and the
   parser disagree on the lines and they are OUTSIDE this theorem.

   Results
     splitlines_plain          str.splitlines of a plain value = value.split("\n")
                               with the final empty line dropped
     error_position_within     the pair of error_position satisfies [within]
                               (v <> []), in both arms:
                               (a) the line of offset k is kept by splitlines:
                                   the pair designates offset k;
                               (b) v ends with "\n" and k = |v|: splitlines has
                                   dropped that empty line, lnr > len(lines),
                                   the clamp gives (len(lines), length of the
                                   last kept line), which designates |v| - 1.
     error_position_empty      v = []: the pair is (0, 0), the line-0 pair that
                               Properties/C17.v refutes (C17_bounds_dtd_line0_refuted)
     dtd_error_resolved_between   composition with DtdBounds: the resolved
                               position lies between the entity start and EOF. *)
From Coq Require Import ZArith NArith List Bool Arith Lia ZifyBool.
From CL Require Import Base.Sx Base.Res Base.Str Generated.C07Facts Model.CSS Model.CheckDTD
  Model.LineCol Model.LineColDtd Proofs.LineColProofs Proofs.CheckBounds Proofs.DtdBounds.
Import ListNotations.

Local Arguments Nat.ltb : simpl never.
Local Arguments Nat.leb : simpl never.
Local Arguments Nat.eqb : simpl never.
Local Arguments N.eqb : simpl never.

(* the only line-break characters of v are "\n" *)
Definition plain (v : list N) : bool :=
  forallb (fun c => negb (is_linebreak c) || N.eqb c 10) v.

(* what the parser reports for offset k of the value (SUBSET without newline) *)
Definition doc_line (k : nat) (v : list N) : nat := 2 + count_nl (firstn k v).
Definition doc_col (k : nat) (v : list N) : nat :=
  if count_nl (firstn k v) =? 0 then col_line1 + k else cur 0 (firstn k v).

(* ---- str.splitlines of a plain value ---------------------------------------- *)
(* the lines without a final empty one *)
Fixpoint drop_last_empty (ls : list (list N)) : list (list N) :=
  match ls with
  | [] => []
  | l :: ls' =>
      match ls' with
      | [] => match l with [] => [] | _ :: _ => [l] end
      | _ :: _ => l :: drop_last_empty ls'
      end
  end.

Lemma splitlines_aux_plain s : forall acc,
  plain s = true ->
  splitlines_aux s acc =
  drop_last_empty (match split_nl s with
                   | l :: ls => (rev acc ++ l) :: ls
                   | [] => []
                   end).
Proof.
  induction s as [|c s IH]; intros acc Hp.
  - cbn [splitlines_aux split_nl drop_last_empty]. rewrite app_nil_r.
    destruct acc as [|a acc]; [reflexivity|].
    cbn [rev]. destruct (rev acc ++ [a]) eqn:E; [|reflexivity].
    apply app_eq_nil in E. destruct E as [_ E]. discriminate.
  - cbn [plain forallb] in Hp. apply andb_true_iff in Hp. destruct Hp as [Hc Hp].
    fold (plain s) in Hp.
    cbn [split_nl]. pose proof (split_nl_nonempty s) as Hne.
    destruct (split_nl s) as [|l ls] eqn:Es; [contradiction|].
    destruct (N.eqb c 10) eqn:E10.
    + apply N.eqb_eq in E10. subst c.
      change (N.eqb 10 nl) with true. cbv iota.
      cbn [splitlines_aux]. change (is_linebreak 10) with true. cbv iota.
      rewrite (IH [] Hp). cbn [rev app drop_last_empty]. rewrite app_nil_r. reflexivity.
    + rewrite orb_false_r in Hc. apply negb_true_iff in Hc.
      change (N.eqb c nl) with (N.eqb c 10). rewrite E10.
      cbn [splitlines_aux]. rewrite Hc.
      rewrite (IH (c :: acc) Hp). cbn [rev]. rewrite <- app_assoc. reflexivity.
Qed.

(* value.splitlines() = value.split("\n") without the final empty line *)
Theorem splitlines_plain v :
  plain v = true -> splitlines v = drop_last_empty (split_nl v).
Proof.
  intros Hp. unfold splitlines. rewrite (splitlines_aux_plain v [] Hp).
  destruct (split_nl v); reflexivity.
Qed.

Lemma dle_length ls : length (drop_last_empty ls) <= length ls.
Proof.
  induction ls as [|l ls IH]; [cbn; lia|].
  cbn [drop_last_empty]. destruct ls as [|l' ls'].
  - destruct l; cbn; lia.
  - cbn [length] in *. lia.
Qed.

Lemma dle_nth ls : forall i d,
  i < length (drop_last_empty ls) -> nth i (drop_last_empty ls) d = nth i ls d.
Proof.
  induction ls as [|l ls IH]; intros i d Hi; [reflexivity|].
  cbn [drop_last_empty] in *. destruct ls as [|l' ls'].
  - destruct l; [cbn in Hi; lia|reflexivity].
  - destruct i as [|i]; [reflexivity|]. cbn [length] in Hi.
    cbn [nth]. apply IH. lia.
Qed.

(* only the empty value has no lines *)
Lemma dle_split_nil v : drop_last_empty (split_nl v) = [] -> v = [].
Proof.
  destruct v as [|c v]; [reflexivity|]. cbn [split_nl].
  pose proof (split_nl_nonempty v) as Hne.
  destruct (split_nl v) as [|l ls]; [contradiction|].
  destruct (N.eqb c nl).
  - cbn [drop_last_empty]. discriminate.
  - cbn [drop_last_empty]. destruct ls; discriminate.
Qed.

Lemma last_nth_len {T} (l : list T) : forall d, last l d = nth (length l - 1) l d.
Proof.
  induction l as [|x l IH]; intros d; [reflexivity|].
  destruct l as [|y l]; [reflexivity|].
  change (last (x :: y :: l) d) with (last (y :: l) d). rewrite IH.
  cbn [length]. replace (S (S (length l)) - 1) with (S (S (length l) - 1)) by lia.
  reflexivity.
Qed.

(* ---- the empty value ----------------------------------------------------------- *)
(* an empty value has no lines: every error of the <elem> line or later is
   clamped to (0, 0) *)
Lemma error_position_empty line col :
  (2 <= line)%Z -> error_position [] line col = PTuple 0 0.
Proof.
  intros H. unfold error_position. cbn [splitlines splitlines_aux length].
  replace (Z.of_nat 0 <? line - 1)%Z with true by lia. reflexivity.
Qed.

(* ---- the pair of error_position is within the value ------------------------------ *)
Theorem error_position_within v k :
  plain v = true -> k <= length v -> v <> [] ->
  exists lp cp,
    error_position v (Z.of_nat (doc_line k v)) (Z.of_nat (doc_col k v)) =
      PTuple (Z.of_nat lp) (Z.of_nat cp) /\
    within v lp cp.
Proof.
  intros Hp Hk Hne.
  pose proof (pos_of_linecol v k Hk) as H. cbn zeta in H. destruct H as (_ & HL & HC).
  unfold error_position, doc_line, doc_col. cbv zeta. rewrite (splitlines_plain v Hp).
  set (j := count_nl (firstn k v)) in *. set (C := cur 0 (firstn k v)) in *.
  pose proof (dle_length (split_nl v)) as Hlen.
  pose proof (dle_nth (split_nl v)) as Hnth.
  pose proof (dle_split_nil v) as Hnil.
  remember (drop_last_empty (split_nl v)) as lines eqn:Elines.
  match goal with |- context [Z.ltb ?a ?b] => destruct (Z.ltb a b) eqn:E end.
  - (* (b) clamped: the line of offset k is the final empty one *)
    apply Z.ltb_lt in E.
    destruct lines as [|x l]; [exfalso; apply Hne, Hnil; reflexivity|].
    set (lines := x :: l) in *.
    exists (length lines), (length (last lines x)).
    split; [reflexivity|].
    assert (H1 : 1 <= length lines) by (unfold lines; cbn [length]; lia).
    unfold within. split; [exact H1|]. split; [exact Hlen|].
    rewrite last_nth_len. rewrite (nth_indep lines x []) by lia.
    rewrite Hnth by lia. lia.
  - (* (a) the pair designates offset k *)
    apply Z.ltb_ge in E.
    exists (1 + j), C. split.
    + f_equal; [lia|].
      destruct (j =? 0) eqn:Ej.
      * apply Nat.eqb_eq in Ej.
        replace (Z.of_nat (2 + j) - 1 =? 1)%Z with true by lia.
        assert (HCk : C = k).
        { unfold C. rewrite (cur0_no_nl _ Ej). apply firstn_length_le. exact Hk. }
        lia.
      * apply Nat.eqb_neq in Ej.
        replace (Z.of_nat (2 + j) - 1 =? 1)%Z with false by lia.
        replace (Z.of_nat (2 + j) - 1 =? 0)%Z with false by lia.
        reflexivity.
    + apply (designates_within v (1 + j) C k). unfold designates. auto.
Qed.

(* ---- composition with DtdBounds: inside [entity start, EOF] ------------------------ *)
Theorem dtd_error_resolved_between pre v post a0 k :
  plain v = true -> v <> [] -> k <= length v -> a0 <= length pre ->
  exists lp cp l0 p le,
    error_position v (Z.of_nat (doc_line k v)) (Z.of_nat (doc_col k v)) =
      PTuple (Z.of_nat lp) (Z.of_nat cp) /\
    linecol (pre ++ v ++ post) a0 = Some l0 /\
    dtd_value_position (pre ++ v ++ post) (length pre) lp cp = Some p /\
    linecol (pre ++ v ++ post) (length (pre ++ v ++ post)) = Some le /\
    lex_le l0 p /\ lex_le p le.
Proof.
  intros Hp Hne Hk Ha0.
  destruct (error_position_within v k Hp Hk Hne) as (lp & cp & E & W).
  destruct (dtd_resolved_between_within pre v post a0 lp cp Ha0 W)
    as (l0 & p & le & H1 & H2 & H3 & H4 & H5).
  exists lp, cp, l0, p, le. auto 10.
Qed.

(* ---- examples ------------------------------------------------------------------------ *)
(* "ab\ncd": offset 4 (the "d") is document line 3, column 1 -> (2, 1);
   "ab\n":   offset 3 (the closing tag) is document line 3, column 0, one line
             more than splitlines has -> clamped to (1, 2), the end of "ab" *)
Definition ex_two : list N := [97; 98; 10; 99; 100]%N.
Definition ex_trail : list N := [97; 98; 10]%N.

Example error_position_within_ex :
  plain ex_two = true /\ ex_two <> [] /\
  doc_line 4 ex_two = 3 /\ doc_col 4 ex_two = 1 /\
  error_position ex_two 3 1 = PTuple 2 1 /\
  doc_line 1 ex_two = 2 /\ doc_col 1 ex_two = 7 /\
  error_position ex_two 2 7 = PTuple 1 1 /\
  plain ex_trail = true /\
  doc_line 3 ex_trail = 3 /\ doc_col 3 ex_trail = 0 /\
  splitlines ex_trail = [[97; 98]%N] /\
  error_position ex_trail 3 0 = PTuple 1 2.
Proof. vm_compute. repeat split. discriminate. Qed.

(* <!ENTITY a "ab\ncd">: the value at offset 12, entity start 0 *)
Definition ex_pre : list N := [60;33;69;78;84;73;84;89;32;97;32;34]%N.
Definition ex_post : list N := [34;62]%N.

Example dtd_error_resolved_between_ex :
  linecol (ex_pre ++ ex_two ++ ex_post) 0 = Some (1, 1) /\
  dtd_value_position (ex_pre ++ ex_two ++ ex_post) (length ex_pre) 2 1 = Some (2, 1) /\
  dtd_value_position (ex_pre ++ ex_two ++ ex_post) (length ex_pre) 1 1 = Some (1, 14) /\
  linecol (ex_pre ++ ex_two ++ ex_post) (length (ex_pre ++ ex_two ++ ex_post)) = Some (2, 5).
Proof. vm_compute. repeat split. Qed.

(* outside the scope: "a\rb" is one line for split("\n"), two for splitlines *)
Example plain_excludes_cr :
  plain [97; 13; 98]%N = false /\
  length (splitlines [97; 13; 98]%N) = 2 /\ length (split_nl [97; 13; 98]%N) = 1.
Proof. vm_compute. repeat split. Qed.

Print Assumptions error_position_within.
Print Assumptions dtd_error_resolved_between.
