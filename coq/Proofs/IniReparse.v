(* C15 / C16 for ini: the re-parse clauses from the block theorem of C02 (blocks_ini).
   Section headers are entries of their own (merge key ("[section]", name)); entity keys are
   NOT qualified by their section, so [ukeys] asks for keys that are unique in the file. *)
From Coq Require Import ZArith NArith List Bool Arith Lia.
From CL Require Import Base.Sx Base.Res Base.Str Model.Entry Model.Parse Model.ParseFormats
                       Proofs.C02Roundtrip Proofs.C02BlocksRx Proofs.C02BlocksIniRx Proofs.C02BlocksIni
                       Model.AddRemove Proofs.AddRemoveProofs Proofs.AddRemoveSpec
                       Model.Channels Proofs.ChannelsProofs Proofs.ChannelsSpec
                       Model.Serializer Proofs.SerializerProofs Proofs.SerializerSpec
                       Proofs.SerializerFinal Proofs.MergeShapeKeys Proofs.MergeShape
                       Proofs.ReparsePartial Proofs.IniShape.
From CL Require Proofs.C02Blocks Proofs.PropsShape Proofs.MergeReparse15 Proofs.SerializeReparse16
                Proofs.MergeEntriesShape Proofs.PropsWrap.
Import ListNotations.
Local Open Scope nat_scope.
Local Notation mem := C02Roundtrip.mem.
Local Arguments ctext : simpl never.

Local Notation ws_centry := PropsShape.ws_centry.
Local Notation cflush := PropsShape.cflush.
Local Notation strip_fields := PropsShape.strip_fields.

Section I.
Variable m : nat.

(* a whitespace entry starts and ends with a line break; from length m on it has a second
   line break after the first *)
Definition iwsok (e : centry) : Prop :=
  is_white e = true ->
  exists w', c_text e = 10%N :: w' /\ last (10%N :: w') 0%N = 10%N /\
             (m <= length (c_text e) -> mem 10%N w' = true).

Local Notation all_ws := MergeReparse15.all_ws.

Lemma icents_In bs : Forall legal_iblock bs -> forall w e, all_ws w -> In e (icents w bs) ->
  (exists w0, e = ws_centry w0 /\ all_ws w0) \/
  (exists cs, In (IComment cs) bs /\ e = icom_centry cs) \/
  (exists name nl, In (ISection name nl) bs /\ e = isec_centry name) \/
  (exists cs key val nl, In (IEntity cs key val nl) bs /\ e = ient_centry cs key val).
Proof.
  induction 1 as [|b rest Hb _ IH]; intros w e Hw Hin; cbn [icents] in Hin.
  - apply MergeReparse15.cflush_In in Hin. destruct Hin as [-> _]. left. exists w. split; [reflexivity|exact Hw].
  - assert (Lift : forall w', all_ws w' -> In e (icents w' rest) ->
              (exists w0, e = ws_centry w0 /\ all_ws w0) \/
              (exists cs, In (IComment cs) (b :: rest) /\ e = icom_centry cs) \/
              (exists name nl, In (ISection name nl) (b :: rest) /\ e = isec_centry name) \/
              (exists cs key val nl, In (IEntity cs key val nl) (b :: rest) /\ e = ient_centry cs key val)).
    { intros w' Hw' Hin'.
      destruct (IH w' e Hw' Hin') as [H|[(cs & H1 & H2)|[(name & nl & H1 & H2)|(cs & k & v & nl & H1 & H2)]]].
      - left; exact H.
      - right; left. exists cs. split; [right; exact H1|exact H2].
      - right; right; left. exists name, nl. split; [right; exact H1|exact H2].
      - right; right; right. exists cs, k, v, nl. split; [right; exact H1|exact H2]. }
    assert (Heol : forall nl, all_ws (eol nl)) by (intros [|]; reflexivity).
    destruct b as [x|cs|name nl|cs key val nl].
    + apply (Lift (w ++ x)); [|exact Hin]. apply MergeReparse15.all_ws_app; [exact Hw|].
      unfold legal_iblock in Hb. cbn in Hb. apply andb_true_iff in Hb. apply Hb.
    + apply in_app_or in Hin. destruct Hin as [Hin|[Hin|Hin]].
      * apply MergeReparse15.cflush_In in Hin. destruct Hin as [-> _]. left. exists w. split; [reflexivity|exact Hw].
      * right; left. exists cs. split; [left; reflexivity|symmetry; exact Hin].
      * apply (Lift [10%N]); [reflexivity|exact Hin].
    + apply in_app_or in Hin. destruct Hin as [Hin|[Hin|Hin]].
      * apply MergeReparse15.cflush_In in Hin. destruct Hin as [-> _]. left. exists w. split; [reflexivity|exact Hw].
      * right; right; left. exists name, nl. split; [left; reflexivity|symmetry; exact Hin].
      * apply (Lift (eol nl)); [apply Heol|exact Hin].
    + apply in_app_or in Hin. destruct Hin as [Hin|[Hin|Hin]].
      * apply MergeReparse15.cflush_In in Hin. destruct Hin as [-> _]. left. exists w. split; [reflexivity|exact Hw].
      * right; right; right. exists cs, key, val, nl. split; [left; reflexivity|symmetry; exact Hin].
      * apply (Lift (eol nl)); [apply Heol|exact Hin].
Qed.

Definition iversion_ok (bs : list iblock) : Prop :=
  Forall legal_iblock bs /\ Forall ilic_free bs /\
  ukeys (icentries_of bs) /\ nf m (icentries_of bs) /\ Forall iwsok (icentries_of bs).

Lemma legal_ient_nl cs key val nl : legal_iblockb (IEntity cs key val nl) = legal_iblockb (IEntity cs key val true).
Proof. reflexivity. Qed.

Lemma icentries_dec bs : iversion_ok bs -> Forall (idec m) (icentries_of bs).
Proof.
  intros (Hleg & Hlic & _ & _ & Hws). apply Forall_forall. intros e He.
  rewrite Forall_forall in Hws, Hlic. pose proof (Hws e He) as Hwe.
  destruct (icents_In bs Hleg [] e eq_refl He)
    as [(w0 & -> & W)|[(cs & H1 & ->)|[(name & nl & H1 & ->)|(cs & k & v & nl & H1 & ->)]]].
  - destruct (Hwe eq_refl) as (w' & T & P1 & P2). cbn in T. subst w0.
    apply (idec_ws m _ w'); [reflexivity| |exact P1|exact P2].
    unfold MergeReparse15.all_ws in W. cbn [forallb] in W. apply andb_true_iff in W. apply W.
  - rewrite Forall_forall in Hleg. pose proof (Hleg _ H1) as L. unfold legal_iblock in L. cbn in L.
    apply andb_true_iff in L. destruct L as [L1 L2].
    apply (idec_com m _ cs); [destruct cs; [discriminate|discriminate]|exact L2|reflexivity].
  - rewrite Forall_forall in Hleg. pose proof (Hleg _ H1) as L.
    apply (idec_sec m _ name); [exact L|reflexivity].
  - rewrite Forall_forall in Hleg. pose proof (Hleg _ H1) as L. pose proof (Hlic _ H1) as Lc.
    apply (idec_ent m _ cs k v); [exact L|exact Lc|reflexivity].
Qed.

Lemma icentries_plain bs : Forall legal_iblock bs -> Forall MergeEntriesShape.plain (icentries_of bs).
Proof.
  intros Hl. apply Forall_forall. intros e He. unfold MergeEntriesShape.plain.
  destruct (icents_In bs Hl [] e eq_refl He)
    as [(w0 & -> & _)|[(cs & _ & ->)|[(name & nl & _ & ->)|(cs & k & v & nl & _ & ->)]]]; cbn; auto 8.
Qed.

Lemma icents_noadj bs : forall w, noadj (icents w bs).
Proof.
  induction bs as [|b rest IH]; intros w; cbn [icents].
  - destruct w; cbn; exact I.
  - destruct b; [apply IH| | |]; (apply MergeReparse15.noadj_flush; [reflexivity|]);
      (apply MergeReparse15.noadj_nonws; [reflexivity|apply IH]).
Qed.

(* ---- C15 ---------------------------------------------------------------------------------------------- *)
Theorem merge_reparse_ini name (bss : list (list iblock)) txt :
  Forall iversion_ok bss ->
  merge_channels name (map icentries_of bss) = Ok txt ->
  exists out es,
    merge_entries (map icentries_of bss) = Ok out /\ txt = concat (map c_text out) /\
    walk_ini txt = Ok es /\
    map (fun e => let r := entity_record txt e in (fst (fst r), snd (fst r)))
        (filter (is_kind KEntity) es) = PropsShape.krecs out /\
    map (fun e => span_text txt (e_span e)) (filter (is_kind KComment) es) = PropsShape.ccoms out /\
    map (fun e => opt_text txt (e_val e)) (filter (is_kind KSection) es) = csecs out /\
    filter (is_kind KJunk) es = [].
Proof.
  intros Hok H. destruct (merge_channels_inv _ _ _ H) as (out & Ho & ->). exists out.
  assert (Hu : Forall ukeys (map icentries_of bss)).
  { apply Forall_forall. intros v Hv. apply in_map_iff in Hv. destruct Hv as (bs & <- & Hb).
    rewrite Forall_forall in Hok. apply (Hok bs Hb). }
  assert (Hn : Forall (nf m) (map icentries_of bss)).
  { apply Forall_forall. intros v Hv. apply in_map_iff in Hv. destruct Hv as (bs & <- & Hb).
    rewrite Forall_forall in Hok. apply (Hok bs Hb). }
  assert (Ha : Forall noadj (map icentries_of bss)).
  { apply Forall_forall. intros v Hv. apply in_map_iff in Hv. destruct Hv as (bs & <- & Hb). apply icents_noadj. }
  destruct (MergeEntriesShape.merge_entries_shape m _ out Hu Hn Ha Ho) as (S1 & _ & S3).
  assert (Hd : Forall (idec m) out).
  { apply Forall_forall. intros e He. destruct (S3 e He) as (v & e0 & Hv & He0 & Hs).
    apply in_map_iff in Hv. destruct Hv as (bs & <- & Hb). rewrite Forall_forall in Hok.
    pose proof (icentries_dec bs (Hok bs Hb)) as D. rewrite Forall_forall in D.
    eapply idec_strip; [symmetry; exact Hs|apply D; exact He0]. }
  destruct (ishape_reparse m out S1 Hd) as (es & E1 & E2 & E3 & E4 & E5).
  exists es. unfold serialize_legacy. repeat split; assumption.
Qed.

(* ---- C16 ---------------------------------------------------------------------------------------------- *)
(* a raw value: one line (the serializer does no escaping; the value of an ini entity is the
   rest of its line as it stands, blanks included) *)
Lemma text_pre_ient e cs key val :
  strip e = strip (ient_centry cs key val) -> PropsWrap.text_pre e = ctext cs ++ key ++ [61%N].
Proof.
  intros H. destruct (strip_fields _ _ H) as (_ & _ & K3 & K4). cbn in K3, K4.
  unfold PropsWrap.text_pre. rewrite K3, K4. unfold ient_text.
  replace (ctext cs ++ key ++ 61%N :: val) with ((ctext cs ++ key ++ [61%N]) ++ val)
    by (rewrite <- !app_assoc; reflexivity).
  rewrite app_length.
  replace (length (ctext cs ++ key ++ [61%N]) + length val - length val)
    with (length (ctext cs ++ key ++ [61%N]) + 0) by lia.
  rewrite firstn_app_2. cbn [firstn]. rewrite app_nil_r. reflexivity.
Qed.

Theorem serialize_reparse_ini rbs obs wrap nd name txt :
  iversion_ok rbs -> iversion_ok obs -> NoDup (map fst nd) -> SerializeReparse16.props_wrap wrap ->
  (forall k raw, In (k, Some raw) nd -> no_nl raw = true) ->
  let R := number 0 (icentries_of rbs) in
  let L := number (length (icentries_of rbs)) (icentries_of obs) in
  serialize wrap name R L nd = Ok txt ->
  exists out es,
    serialize_entries wrap R L nd = Ok out /\ txt = concat (map c_text out) /\
    walk_ini txt = Ok es /\
    map (fun e => let r := entity_record txt e in (fst (fst r), snd (fst r)))
        (filter (is_kind KEntity) es) = PropsShape.krecs out /\
    map fst (PropsShape.krecs out) = filter (has_value L nd) (refkeys R) /\
    map (fun e => span_text txt (e_span e)) (filter (is_kind KComment) es) = PropsShape.ccoms out /\
    map (fun e => opt_text txt (e_val e)) (filter (is_kind KSection) es) = csecs out /\
    filter (is_kind KJunk) es = [].
Proof.
  intros Hr Ho Hnd Hw Hraw R L H.
  pose proof (SerializeReparse16.props_wrap_ok wrap Hw) as Hwo.
  destruct (serialize_inv wrap name R L nd txt H) as (out & Hout & ->).
  pose proof (icentries_dec rbs Hr) as DR. pose proof (icentries_dec obs Ho) as DL.
  destruct Hr as (Lr & Cr & Ur & Nr & Wr). destruct Ho as (Lo & Co & Uo & No & Wo).
  pose proof (icentries_plain rbs Lr) as PlR. pose proof (icentries_plain obs Lo) as PlL.
  destruct (MergeEntriesShape.serialize_entries_shape m _ _ PlR PlL Ur Uo Nr No wrap nd Hnd Hwo out Hout) as (S1 & _).
  assert (Hd : Forall (idec m) out).
  { apply Forall_forall. intros e He.
    destruct (serialize_sources wrap R L nd out Hout e He) as [_ [(Hin & _ & _)|[(Hin & _ & _)|(r & raw & Hr1 & Hr2 & Hr3 & Hr4)]]].
    - destruct (SerializeReparse16.number_In_strip _ _ _ Hin) as (e0 & H0 & Hs).
      rewrite Forall_forall in DR. eapply idec_strip; [symmetry; exact Hs|apply DR; exact H0].
    - destruct (SerializeReparse16.number_In_strip _ _ _ Hin) as (e0 & H0 & Hs).
      rewrite Forall_forall in DL. eapply idec_strip; [symmetry; exact Hs|apply DL; exact H0].
    - destruct (SerializeReparse16.number_In_strip _ _ _ Hr1) as (r0 & Hr0 & Hs).
      destruct (icents_In rbs Lr [] r0 eq_refl Hr0)
        as [(w0 & E & _)|[(cs & _ & E)|[(nm & nl & _ & E)|(cs & k & v & nl & Hb & E)]]].
      + exfalso. unfold is_entity in Hr2. rewrite (SerializeReparse16.strip_kind_eq _ _ Hs), E in Hr2. discriminate.
      + exfalso. unfold is_entity in Hr2. rewrite (SerializeReparse16.strip_kind_eq _ _ Hs), E in Hr2. discriminate.
      + exfalso. unfold is_entity in Hr2. rewrite (SerializeReparse16.strip_kind_eq _ _ Hs), E in Hr2. discriminate.
      + subst r0. rewrite Forall_forall in Lr, Cr. pose proof (Lr _ Hb) as Lb. pose proof (Cr _ Hb) as Cb.
        rewrite (Hw r raw e Hr4).
        destruct (strip_fields _ _ Hs) as (_ & K2 & _ & _). cbn in K2.
        apply (idec_ent m _ cs k raw); [|exact Cb|].
        * unfold legal_iblock in Lb. cbn [legal_iblockb] in Lb |- *.
          apply andb_true_iff in Lb. destruct Lb as [Lb _]. rewrite Lb. exact (Hraw _ _ Hr3).
        * unfold strip, literal, ient_centry. cbn [c_kind c_key c_text c_val]. rewrite K2.
          rewrite (text_pre_ient r cs k v Hs). unfold ient_text. rewrite <- !app_assoc. reflexivity. }
  destruct (ishape_reparse m out S1 Hd) as (es & E1 & E2 & E3 & E4 & E5).
  exists out, es. unfold serialize_legacy. repeat split; try assumption.
  rewrite SerializeReparse16.krecs_cent, map_map. cbn [fst].
  apply (entities_keys_thm wrap R L nd).
  - apply (MergeEntriesShape.guR _ PlR Ur).
  - apply (MergeEntriesShape.guL _ _ PlL Uo).
  - exact Hnd.
  - exact Hwo.
  - exact Hout.
Qed.
End I.
