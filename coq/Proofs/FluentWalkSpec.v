(* Statement of C01 for Fluent: the glue of FluentParser.walk over an oracle
   body.  [body_ok] is the contract fluent.syntax is assumed to deliver (the
   harness checks it on every generated input). *)
From Coq Require Import NArith List Bool Arith.
From CL Require Import Base.Sx Base.Res Base.Str Regex.Rx Model.Entry Model.Parse
  Model.ParseFluent Proofs.WalkSpec.
Import ListNotations.

Section FluentSpec.
Context (reLead reTrail : rx).

Definition fentry_ok (s : str) (e : fentry) : Prop :=
  let a := fst (f_span e) in
  let b := snd (f_span e) in
  match f_kind e with
  | FMessage =>
      a <= fst (f_id e) /\ fst (f_id e) <= snd (f_id e) /\ snd (f_id e) <= b /\
      span_inside a b (f_value e)
  | FTerm =>
      a + 1 <= fst (f_id e) /\ fst (f_id e) <= snd (f_id e) /\ snd (f_id e) <= b /\
      span_inside a b (f_value e)
  | FJunk =>
      (* the junk content is the text of its span (that trimming leaves something
         is no longer assumed: [trim_ok] below is proved for the real regexes,
         Proofs/FluentTrim.v) *)
      f_content e = slice s a b
  | FComment => True
  | FOther => False          (* fluent.syntax has no other top-level entry *)
  end.

(* spans are ordered, non-empty, non-overlapping and inside the text *)
Fixpoint body_ok (s : str) (last : nat) (body : list fentry) : Prop :=
  match body with
  | [] => last <= length s
  | e :: rest =>
      last <= fst (f_span e) /\ fst (f_span e) < snd (f_span e) /\
      snd (f_span e) <= length s /\ fentry_ok s e /\ body_ok s (snd (f_span e)) rest
  end.

(* trimming a non-empty junk text leaves a non-empty junk entry: a fact about the
   two inline regexes and the white-space-only guard of FluentParser.walk *)
Definition trim_ok : Prop := forall content : str, content <> [] ->
  lead reLead (trim_content content) + trail reTrail (trim_content content) < length content.

Definition lossless_fluent (s : str) (body : list fentry) : Prop :=
  let es := walk_fluent reLead reTrail false s body in
  length es <= length s /\
  concat (map (all_text s) es) = s /\
  tiles s 0 es /\
  Forall spans_inside es /\
  walk_fluent reLead reTrail true s body = filter is_localizable es.
End FluentSpec.
