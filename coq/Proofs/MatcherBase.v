(* Helper lemmas for the path matcher proofs: string equality, association
   lists (lookup / env_set / env_update / remove), sequences of regexes. *)
From Coq Require Import NArith List Bool Arith Lia.
From CL Require Import Base.Sx Base.Res Base.Str Regex.Rx Regex.RxLemmas Regex.RxSem
  Model.Pattern Model.Matcher.
Import ListNotations.

(* ---- strings ------------------------------------------------------------------ *)
Lemma str_eqb_eq : forall a b, str_eqb a b = true <-> a = b.
Proof.
  unfold str_eqb. induction a as [|x a IH]; destruct b as [|y b]; split; intro H;
    try discriminate; auto.
  - apply andb_true_iff in H. destruct H as [H1 H2]. apply N.eqb_eq in H1.
    apply IH in H2. subst. reflexivity.
  - inversion H; subst. apply andb_true_iff. split; [apply N.eqb_refl|]. apply IH. reflexivity.
Qed.

Lemma str_eqb_refl : forall a, str_eqb a a = true.
Proof. intros. apply str_eqb_eq. reflexivity. Qed.

Lemma str_eqb_neq : forall a b, str_eqb a b = false <-> a <> b.
Proof.
  intros a b. split; intro H.
  - intro E. apply str_eqb_eq in E. congruence.
  - destruct (str_eqb a b) eqn:E; auto. apply str_eqb_eq in E. contradiction.
Qed.

Lemma str_eqb_sym : forall a b, str_eqb a b = str_eqb b a.
Proof.
  intros a b. destruct (str_eqb a b) eqn:E.
  - apply str_eqb_eq in E. subst. symmetry. apply str_eqb_refl.
  - symmetry. apply str_eqb_neq. apply str_eqb_neq in E. auto.
Qed.

Lemma starts_with_app : forall p s, starts_with p (p ++ s) = true.
Proof.
  induction p as [|c p IH]; intros s; simpl; auto. rewrite N.eqb_refl. apply IH.
Qed.

Lemma starts_with_spec : forall p s, starts_with p s = true -> exists t, s = p ++ t.
Proof.
  induction p as [|c p IH]; intros s H; simpl in H.
  - exists s. reflexivity.
  - destruct s as [|d s]; [discriminate|]. apply andb_true_iff in H. destruct H as [H1 H2].
    apply N.eqb_eq in H1. subst d. apply IH in H2. destruct H2 as [t H2]. subst s.
    exists t. reflexivity.
Qed.

(* ---- association lists ---------------------------------------------------------- *)
Section Assoc.
Context {T : Type}.
Implicit Types e : list (str * T).

Lemma lookup_app : forall k e1 e2,
  lookup k (e1 ++ e2) = match lookup k e1 with Some v => Some v | None => lookup k e2 end.
Proof.
  induction e1 as [|[k' v] e1 IH]; intros e2; simpl; auto.
  destruct (str_eqb k k'); auto.
Qed.

Lemma lookup_in : forall k e v, lookup k e = Some v -> In (k, v) e.
Proof.
  induction e as [|[k' v'] e IH]; intros v H; simpl in H; [discriminate|].
  destruct (str_eqb k k') eqn:E.
  - apply str_eqb_eq in E. inversion H; subst. left. reflexivity.
  - right. auto.
Qed.

Lemma lookup_none_notin : forall k e, lookup k e = None -> ~ In k (map fst e).
Proof.
  induction e as [|[k' v'] e IH]; intros H; simpl in *; [tauto|].
  destruct (str_eqb k k') eqn:E; [discriminate|].
  apply str_eqb_neq in E. intros [H1|H1]; [congruence|]. apply IH; auto.
Qed.

Lemma notin_lookup_none : forall k e, ~ In k (map fst e) -> lookup k e = None.
Proof.
  induction e as [|[k' v'] e IH]; intros H; simpl in *; auto.
  destruct (str_eqb k k') eqn:E.
  - apply str_eqb_eq in E. subst. tauto.
  - apply IH. tauto.
Qed.

Lemma lookup_env_set : forall k k' (v : T) e,
  lookup k (env_set k' v e) = if str_eqb k k' then Some v else lookup k e.
Proof.
  induction e as [|[k2 v2] e IH]; simpl.
  - destruct (str_eqb k k'); auto.
  - destruct (str_eqb k' k2) eqn:E2; simpl.
    + apply str_eqb_eq in E2. subst k2. destruct (str_eqb k k'); auto.
    + destruct (str_eqb k k2) eqn:E3.
      * destruct (str_eqb k k') eqn:E4; auto.
        apply str_eqb_eq in E3. apply str_eqb_eq in E4. subst.
        rewrite str_eqb_refl in E2. discriminate.
      * exact IH.
Qed.

(* update with items whose keys are distinct: the items win, in any order *)
Lemma lookup_env_update : forall items e k, NoDup (map fst items) ->
  lookup k (env_update e items) =
  match lookup k items with Some v => Some v | None => lookup k e end.
Proof.
  unfold env_update. induction items as [|[k1 v1] items IH]; intros e k Hn; simpl; auto.
  apply NoDup_cons_iff in Hn. destruct Hn as [Hnotin Hnd]. rewrite IH; auto.
  destruct (str_eqb k k1) eqn:E.
  - apply str_eqb_eq in E. subst k1.
    rewrite (notin_lookup_none k items Hnotin). rewrite lookup_env_set, str_eqb_refl. reflexivity.
  - destruct (lookup k items); auto. rewrite lookup_env_set, E. reflexivity.
Qed.

Lemma lookup_remove_other : forall k k' e, str_eqb k k' = false ->
  lookup k (remove k' e) = lookup k e.
Proof.
  unfold remove. induction e as [|[k2 v2] e IH]; intros H; simpl; auto.
  destruct (str_eqb k' k2) eqn:E2; simpl.
  - destruct (str_eqb k k2) eqn:E3; auto.
    apply str_eqb_eq in E2. apply str_eqb_eq in E3. subst.
    rewrite str_eqb_refl in H. discriminate.
  - destruct (str_eqb k k2); auto.
Qed.

Lemma remove_length : forall k e, length (remove k e) <= length e.
Proof.
  unfold remove. induction e as [|[k2 v2] e IH]; simpl; auto.
  destruct (negb (str_eqb k k2)); simpl; lia.
Qed.

Lemma remove_length_lt : forall k e v, lookup k e = Some v -> length (remove k e) < length e.
Proof.
  unfold remove. induction e as [|[k2 v2] e IH]; intros v H; simpl in *; [discriminate|].
  destruct (str_eqb k k2) eqn:E; simpl.
  - pose proof (remove_length k e). unfold remove in H0. lia.
  - apply IH in H. lia.
Qed.

End Assoc.

Lemma lookup_map_snd : forall {T U} (f : T -> U) k (e : list (str * T)),
  lookup k (map (fun kv => (fst kv, f (snd kv))) e) = option_map f (lookup k e).
Proof.
  induction e as [|[k' v] e IH]; simpl; auto. destruct (str_eqb k k'); auto.
Qed.

Lemma map_fst_map : forall {T U} (f : T -> U) (e : list (str * T)),
  map fst (map (fun kv => (fst kv, f (snd kv))) e) = map fst e.
Proof. induction e as [|[k v] e IH]; simpl; auto. rewrite IH. reflexivity. Qed.

(* ---- sequences of regexes --------------------------------------------------------- *)
Inductive sem_list : list rx -> st -> st -> Prop :=
| SL_nil : forall s, sem_list [] s s
| SL_cons : forall r l s1 s2 s3, sem r s1 s2 -> sem_list l s2 s3 -> sem_list (r :: l) s1 s3.

Lemma sem_cat_list : forall l s s', sem (cat_list l) s s' <-> sem_list l s s'.
Proof.
  induction l as [|r l IH]; intros s s'.
  - simpl. split; intro H; inversion H; subst; constructor.
  - destruct l as [|r2 l].
    + simpl. split; intro H.
      * econstructor; [exact H|constructor].
      * inversion H; subst. inversion H5; subst. auto.
    + change (cat_list (r :: r2 :: l)) with (Cat r (cat_list (r2 :: l))). split; intro H.
      * inversion H; subst. econstructor; eauto. apply IH. auto.
      * inversion H; subst. econstructor; eauto. apply IH. auto.
Qed.

Lemma sem_list_app : forall l1 l2 s s'', sem_list (l1 ++ l2) s s'' <->
  exists s', sem_list l1 s s' /\ sem_list l2 s' s''.
Proof.
  induction l1 as [|r l1 IH]; intros l2 s s''; simpl.
  - split.
    + intro H. exists s. split; [constructor|auto].
    + intros [s' [H1 H2]]. inversion H1; subst. auto.
  - split.
    + intro H. inversion H; subst.
      match goal with HH : sem_list (l1 ++ l2) _ _ |- _ => apply IH in HH; destruct HH as [s' [Ha Hb]] end.
      exists s'. split; [econstructor; eauto|auto].
    + intros [s' [Ha Hb]]. inversion Ha; subst. econstructor; eauto. apply IH. eauto.
Qed.

(* a literal consumes itself *)
Lemma chr_lit_ok : forall c d, chr_ok false [(c, c)] d = true -> d = c.
Proof.
  intros c d H. unfold chr_ok, in_ranges in H. simpl in H.
  destruct ((c <=? d)%N && (d <=? c)%N) eqn:E; [|discriminate].
  apply andb_true_iff in E. destruct E as [Ha Hb].
  apply N.leb_le in Ha. apply N.leb_le in Hb. lia.
Qed.

Lemma sem_lits : forall t s s', sem_list (map chr_lit t) s s' ->
  consumed s s' t /\ caps s' = caps s.
Proof.
  induction t as [|c t IH]; intros s s' H; simpl in H; inversion H; subst.
  - split; [apply consumed_refl|auto].
  - unfold chr_lit in *.
    match goal with HS : sem (Chr _ _) _ _ |- _ => inversion HS; subst end.
    match goal with HL : sem_list _ _ _ |- _ => apply IH in HL; destruct HL as [Hc Hcaps] end.
    match goal with HC : chr_ok false _ _ = true |- _ => apply chr_lit_ok in HC; subst end.
    split; [|simpl in Hcaps; auto].
    change (c :: t) with ([c] ++ t). eapply consumed_trans; [|exact Hc].
    unfold consumed. simpl.
    match goal with HS : suf _ = _ |- _ => rewrite HS end. repeat split. lia.
Qed.

Lemma sem_lits_intro : forall t s u, suf s = t ++ u ->
  exists s', sem_list (map chr_lit t) s s' /\ consumed s s' t /\ suf s' = u /\ caps s' = caps s.
Proof.
  induction t as [|c t IH]; intros s u Hs; simpl in *.
  - exists s. split; [constructor|]. split; [apply consumed_refl|auto].
  - destruct (IH (advance s c (t ++ u)) u eq_refl) as [s' [H1 [H2 [H3 H4]]]].
    exists s'. split; [|split; [|split; auto]].
    + econstructor; [|exact H1]. constructor; auto.
      unfold chr_ok, in_ranges. simpl. rewrite N.leb_refl. reflexivity.
    + change (c :: t) with ([c] ++ t). eapply consumed_trans; [|exact H2].
      unfold consumed. simpl. rewrite Hs. repeat split. lia.
Qed.

(* ---- positions inside the subject --------------------------------------------------- *)
Definition at_path (path : str) (s : st) : Prop :=
  pre s = rev (firstn (pos s) path) /\ suf s = skipn (pos s) path /\ pos s <= length path.

Lemma at_path_start : forall path, at_path path (st_at path 0).
Proof. intros. unfold at_path, st_at. simpl. repeat split. lia. Qed.

Lemma split_at_app : forall (a b : str), firstn (length a) (a ++ b) = a /\ skipn (length a) (a ++ b) = b.
Proof.
  intros a b. split.
  - rewrite firstn_app, Nat.sub_diag, firstn_all. simpl. apply app_nil_r.
  - rewrite skipn_app, Nat.sub_diag, skipn_all. reflexivity.
Qed.

Lemma at_path_consumed : forall path s s' t, at_path path s -> consumed s s' t ->
  at_path path s' /\ t = slice path (pos s) (pos s').
Proof.
  intros path s s' t [A1 [A2 A3]] [C1 [C2 C3]].
  set (F := firstn (pos s) path) in *.
  assert (HF : length F = pos s) by (unfold F; rewrite firstn_length; lia).
  assert (Hp : path = (F ++ t) ++ suf s').
  { rewrite <- app_assoc, <- C1, A2. unfold F. symmetry. apply firstn_skipn. }
  assert (Hl : length (F ++ t) = pos s') by (rewrite app_length; lia).
  destruct (split_at_app (F ++ t) (suf s')) as [S1 S2]. rewrite <- Hp, Hl in S1, S2.
  split; [split; [|split]|].
  - rewrite C2, A1, S1, rev_app_distr. reflexivity.
  - auto.
  - rewrite Hp at 1. rewrite <- Hl, !app_length. lia.
  - unfold slice. rewrite C3. replace (pos s + length t - pos s) with (length t) by lia.
    rewrite <- A2, C1. destruct (split_at_app t (suf s')) as [S3 _]. auto.
Qed.

Lemma NoDup_app_snoc : forall {A} (l : list A) x, NoDup l -> ~ In x l -> NoDup (l ++ [x]).
Proof.
  induction l as [|y l IH]; intros x Hn Hx; simpl.
  - constructor; [intros []|constructor].
  - inversion Hn; subst. constructor.
    + rewrite in_app_iff. simpl. intros [H|[H|[]]]; [auto|]. subst. apply Hx. left. reflexivity.
    + apply IH; auto. intro H. apply Hx. right. auto.
Qed.

Lemma Forall2_imp : forall {A B} (P Q : A -> B -> Prop) l1 l2,
  (forall a b, P a b -> Q a b) -> Forall2 P l1 l2 -> Forall2 Q l1 l2.
Proof. intros A B P Q l1 l2 H F. induction F; constructor; auto. Qed.
