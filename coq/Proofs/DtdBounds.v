(* C17, second clause, for the (line, column) pairs of the DTD checker
   (parser/dtd.py DTDEntityMixin.value_position, tuple arm; Model/LineColDtd.v).

   The DTD checker hands value_position a pair (line_pos, col_pos) derived from
   the XML parser: line_pos is 1-based within the value, col_pos 0-based within
   that line.  The XML parser is not modelled (it is an oracle in
   Model/CheckDTD.v); its CONTRACT here is that the pair designates some offset
   k of the value: [designates v line_pos col_pos k].

   Under that contract the resolved position
     * is exactly the position of the character at offset a + k of the file when
       k lies in the first line of the value,
     * has the right line and the column of that character minus one otherwise
       (the 0-based column is not converted: a quirk, inside the bounds),
     * lies between the start of the entity and the end of the file.
   For line_pos = 0 (whole-value warnings (0, 0), errors in the DOCTYPE line)
   the bound is REFUTED: the resolved position lies before the entity start. *)
From Coq Require Import ZArith NArith List Bool Arith Lia.
From CL Require Import Base.Sx Base.Res Model.LineCol Model.LineColDtd
  Proofs.LineColProofs Proofs.CheckBounds.
Import ListNotations.

Local Arguments Nat.ltb : simpl never.
Local Arguments Nat.leb : simpl never.
Local Arguments Nat.eqb : simpl never.
Local Arguments N.eqb : simpl never.

(* (line_pos, col_pos) is the 1-based line / 0-based column of offset k of v *)
Definition designates (v : list N) (line_pos col_pos k : nat) : Prop :=
  k <= length v /\ line_pos = 1 + count_nl (firstn k v) /\ col_pos = cur 0 (firstn k v).

(* the same contract stated on the lines of the value: the line exists and the
   column lies inside it (or one past its end) *)
Definition within (v : list N) (line_pos col_pos : nat) : Prop :=
  1 <= line_pos /\ line_pos <= length (split_nl v) /\
  col_pos <= length (nth (line_pos - 1) (split_nl v) []).

Lemma firstn_app_le {T} (a b : list T) k :
  firstn (length a + k) (a ++ b) = a ++ firstn k b.
Proof. rewrite firstn_app_2. reflexivity. Qed.

(* the position of offset a + k of  pre ++ v ++ post, |pre| = a *)
Lemma linecol_inside pre v post k :
  k <= length v ->
  linecol (pre ++ v ++ post) (length pre + k) =
  Some (1 + count_nl pre + count_nl (firstn k v),
        1 + (if count_nl (firstn k v) =? 0 then cur 0 pre + k else cur 0 (firstn k v))).
Proof.
  intros Hk.
  rewrite linecol_spec by (rewrite !app_length; lia).
  rewrite firstn_app_le. rewrite firstn_app.
  replace (k - length v) with 0 by lia. rewrite firstn_O, app_nil_r.
  rewrite count_nl_app, cur_app. rewrite (cur_acc (cur 0 pre)).
  rewrite firstn_length_le by assumption.
  reflexivity.
Qed.

Lemma cur0_no_nl x : count_nl x = 0 -> cur 0 x = length x.
Proof. intros H. rewrite (cur_acc 0), H. reflexivity. Qed.

(* exactness: what value_position returns for a designated offset *)
Theorem dtd_value_position_exact pre v post lp cp k :
  designates v lp cp k ->
  exists l c, linecol (pre ++ v ++ post) (length pre + k) = Some (l, c) /\
    dtd_value_position (pre ++ v ++ post) (length pre) lp cp =
      Some (l, if lp =? 1 then c else c - 1).
Proof.
  intros (Hk & Hl & Hc).
  rewrite (linecol_inside pre v post k Hk).
  eexists; eexists; split; [reflexivity|].
  unfold dtd_value_position.
  pose proof (linecol_inside pre v post 0 (Nat.le_0_l _)) as H0.
  rewrite Nat.add_0_r in H0. rewrite H0. cbn [firstn count_nl filter length Nat.add].
  change (0 =? 0) with true. cbv iota. rewrite Nat.add_0_r.
  subst lp cp. destruct (count_nl (firstn k v)) as [|L] eqn:EL.
  - change (1 + 0 =? 1) with true. cbv iota.
    rewrite (cur0_no_nl _ EL), firstn_length_le by assumption.
    change (0 =? 0) with true. cbv iota. f_equal. f_equal; lia.
  - replace (1 + S L =? 1) with false by (symmetry; apply Nat.eqb_neq; lia).
    replace (S L =? 0) with false by (symmetry; apply Nat.eqb_neq; lia).
    f_equal. f_equal; lia.
Qed.

(* the bounds *)
Theorem dtd_resolved_between pre v post a0 lp cp k :
  a0 <= length pre -> designates v lp cp k ->
  exists l0 p le,
    linecol (pre ++ v ++ post) a0 = Some l0 /\
    dtd_value_position (pre ++ v ++ post) (length pre) lp cp = Some p /\
    linecol (pre ++ v ++ post) (length (pre ++ v ++ post)) = Some le /\
    lex_le l0 p /\ lex_le p le.
Proof.
  intros Ha0 HD. set (s := pre ++ v ++ post).
  destruct (dtd_value_position_exact pre v post lp cp k HD) as (l & c & Ek & Ep).
  fold s in Ek, Ep. destruct HD as (Hk & Hl & Hc).
  assert (Hlen : length pre + k <= length s) by (unfold s; rewrite !app_length; lia).
  destruct (linecol_mono s a0 (length pre)) as (l0 & la & E0 & Ea & L0);
    [lia|unfold s; rewrite !app_length; lia|].
  destruct (linecol_mono s (length pre) (length pre + k)) as (la' & lk & Ea' & Ek' & L1); [lia|lia|].
  destruct (linecol_mono s (length pre + k) (length s)) as (lk' & le & Ek'' & Ee & L2); [lia|lia|].
  rewrite Ea in Ea'. inversion Ea'; subst la'. rewrite Ek in Ek', Ek''.
  inversion Ek'; subst lk. inversion Ek''; subst lk'.
  exists l0, (l, if lp =? 1 then c else c - 1), le.
  split; [exact E0|]. split; [exact Ep|]. split; [exact Ee|].
  destruct (lp =? 1) eqn:E1.
  - split; [eapply lex_le_trans; eauto|exact L2].
  - (* a later line of the value: strictly below the line of the value start *)
    apply Nat.eqb_neq in E1.
    pose proof (linecol_inside pre v post k Hk) as Hin. fold s in Hin.
    rewrite Ek in Hin. inversion Hin as [[Hl' Hc']].
    pose proof (linecol_inside pre v post 0 (Nat.le_0_l _)) as H0. fold s in H0.
    rewrite Nat.add_0_r, Ea in H0. cbn [firstn count_nl filter length] in H0.
    inversion H0 as [Hla]. subst la. subst l c.
    assert (Hpos : count_nl (firstn k v) <> 0) by lia.
    apply Nat.eqb_neq in Hpos. rewrite Hpos in *.
    split.
    + eapply lex_le_trans; [exact L0|]. left. cbn [fst]. apply Nat.eqb_neq in Hpos. lia.
    + unfold lex_le in *. cbn [fst snd] in *. lia.
Qed.

(* ---- the two statements of the contract agree ---------------------------- *)
Lemma designates_within v lp cp k : designates v lp cp k -> within v lp cp.
Proof.
  intros (Hk & Hl & Hc). destruct (pos_of_linecol v k Hk) as (_ & H2 & H3).
  unfold within. subst lp cp. replace (1 + count_nl (firstn k v) - 1) with (count_nl (firstn k v)) by lia.
  lia.
Qed.

Lemma count_nl_cons c x : count_nl (c :: x) = (if is_nl c then 1 else 0) + count_nl x.
Proof. unfold count_nl. cbn [filter]. destruct (is_nl c); reflexivity. Qed.

Lemma within_designates v L C :
  L < length (split_nl v) -> C <= length (nth L (split_nl v) []) ->
  designates v (1 + L) C (pos_of (split_nl v) L C).
Proof.
  revert L C. induction v as [|c v IH]; intros L C HL HC.
  - cbn in HL. assert (L = 0) by lia. subst L. cbn in HC. assert (C = 0) by lia. subst C.
    cbn. unfold designates. cbn. auto.
  - cbn [split_nl] in *. pose proof (split_nl_nonempty v) as Hne.
    destruct (split_nl v) as [|l ls] eqn:Es; [contradiction|].
    change (N.eqb c nl) with (is_nl c) in *.
    destruct (is_nl c) eqn:Ec.
    + destruct L as [|L].
      * change (nth 0 ([] :: l :: ls) []) with (@nil N) in HC. cbn [length] in HC. assert (C = 0) by lia. subst C.
        cbn [pos_of]. unfold designates. cbn. split; [lia|auto].
      * change (nth (S L) ([] :: l :: ls) []) with (nth L (l :: ls) []) in HC. cbn [length] in HL.
        destruct (IH L C ltac:(cbn [length]; lia) HC) as (Hk & Hl & Hc).
        change (pos_of ([] :: l :: ls) (S L) C) with (S (pos_of (l :: ls) L C)).
        unfold designates. cbn [firstn length]. rewrite count_nl_cons, Ec.
        cbn [cur]. change (N.eqb c nl) with (is_nl c). rewrite Ec.
        split; [lia|]. split; [lia|exact Hc].
    + destruct L as [|L].
      * change (nth 0 ((c :: l) :: ls) []) with (c :: l) in HC. cbn [length] in HC. cbn [pos_of].
        destruct C as [|C].
        -- unfold designates. cbn. split; [lia|auto].
        -- destruct (IH 0 C ltac:(cbn; lia) ltac:(cbn [nth]; lia)) as (Hk & Hl & Hc).
           cbn [pos_of] in Hk, Hl, Hc.
           unfold designates. cbn [firstn length]. rewrite count_nl_cons, Ec.
           cbn [cur]. change (N.eqb c nl) with (is_nl c). rewrite Ec.
           split; [lia|]. split; [lia|].
           rewrite (cur_acc 1). assert (E0 : count_nl (firstn C v) = 0) by lia.
           rewrite E0. change (0 =? 0) with true. cbv iota.
           rewrite (cur0_no_nl _ E0) in Hc. lia.
      * change (nth (S L) ((c :: l) :: ls) []) with (nth (S L) (l :: ls) []) in HC. cbn [length] in HL.
        destruct (IH (S L) C ltac:(cbn [length]; lia) HC) as (Hk & Hl & Hc).
        change (pos_of ((c :: l) :: ls) (S L) C) with (S (length (c :: l)) + pos_of ls L C).
        change (pos_of (l :: ls) (S L) C) with (S (length l) + pos_of ls L C) in Hk, Hl, Hc.
        cbn [length]. set (k := S (length l) + pos_of ls L C) in *.
        replace (S (S (length l)) + pos_of ls L C) with (S k) by (unfold k; lia).
        unfold designates. cbn [firstn length]. rewrite count_nl_cons, Ec.
        cbn [cur]. change (N.eqb c nl) with (is_nl c). rewrite Ec.
        split; [lia|]. split; [lia|].
        rewrite (cur_acc 1). assert (E0 : count_nl (firstn k v) <> 0) by lia.
        apply Nat.eqb_neq in E0. rewrite E0. exact Hc.
Qed.

Theorem within_iff_designates v lp cp :
  within v lp cp <-> exists k, designates v lp cp k.
Proof.
  split.
  - intros (H1 & H2 & H3). exists (pos_of (split_nl v) (lp - 1) cp).
    replace lp with (1 + (lp - 1)) at 1 by lia. apply within_designates; [lia|exact H3].
  - intros (k & H). eapply designates_within; eauto.
Qed.

(* the bounds under the line-wise contract *)
Theorem dtd_resolved_between_within pre v post a0 lp cp :
  a0 <= length pre -> within v lp cp ->
  exists l0 p le,
    linecol (pre ++ v ++ post) a0 = Some l0 /\
    dtd_value_position (pre ++ v ++ post) (length pre) lp cp = Some p /\
    linecol (pre ++ v ++ post) (length (pre ++ v ++ post)) = Some le /\
    lex_le l0 p /\ lex_le p le.
Proof.
  intros Ha0 HW. apply within_iff_designates in HW. destruct HW as (k & HD).
  eapply dtd_resolved_between; eauto.
Qed.

(* ---- line_pos = 0 is outside the contract, and outside the bounds ---------- *)
(* <!ENTITY a "x">  with the value at offset 12: (0, 0) resolves to line 0 *)
Definition refuted_text : list N :=
  [60;33;69;78;84;73;84;89;32;97;32;34;120;34;62]%N.

Theorem dtd_line0_refuted :
  exists s a0 a p l0,
    a0 <= a /\ a <= length s /\
    linecol s a0 = Some l0 /\ dtd_value_position s a 0 0 = Some p /\
    ~ lex_le l0 p.
Proof.
  exists refuted_text, 0, 12, (0, 0), (1, 1).
  split; [lia|]. split; [cbn; lia|]. split; [vm_compute; reflexivity|].
  split; [vm_compute; reflexivity|]. unfold lex_le. cbn. lia.
Qed.
