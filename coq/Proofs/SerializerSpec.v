(* C16 at entity level: which entities the serializer writes, in which order, with
   which values.  Hypotheses: the non-junk entries of the reference and of the old
   localization have distinct keys (and distinct whitespace objects), new_data is a
   dict (distinct keys), wrap builds an entity with the key of the reference entity. *)
From Coq Require Import ZArith NArith List Bool Arith Lia Permutation.
From CL Require Import Base.Sx Base.Res Base.Str Model.AddRemove
                       Proofs.AddRemoveProofs Proofs.AddRemoveSpec Model.Channels
                       Proofs.ChannelsProofs Proofs.ChannelsSpec Model.Serializer
                       Proofs.SerializerProofs.
Import ListNotations.
Local Open Scope nat_scope.

Notation dmem := (AddRemove.mem dkey_eqb).
Notation ar_keys l r := (map snd (addremove dkey_eqb l r)).

(* ---- generic list facts ------------------------------------------------------------------ *)
Lemma flat_map_filter_nil {A B} (F : A -> list B) (p : A -> bool) (l : list A) :
  (forall x, In x l -> p x = false -> F x = []) -> flat_map F l = flat_map F (filter p l).
Proof.
  induction l as [|x l IH]; intros H; cbn; [reflexivity|].
  rewrite IH by (intros y Hy; apply H; right; exact Hy).
  destruct (p x) eqn:E; cbn; [reflexivity|]. rewrite (H x (or_introl eq_refl) E). reflexivity.
Qed.

Lemma filter_comm {A} (p q : A -> bool) (l : list A) :
  filter p (filter q l) = filter q (filter p l).
Proof.
  induction l as [|x l IH]; cbn; [reflexivity|].
  destruct (p x) eqn:Ep, (q x) eqn:Eq; cbn; rewrite ?Ep, ?Eq, IH; reflexivity.
Qed.

Lemma ar_keys_incl l r : NoDup l -> NoDup r -> incl r l -> ar_keys l r = l.
Proof.
  intros Hl Hr Hi.
  rewrite <- (addremove_left_order dkey_eqb dkey_eqb_eq l r Hl Hr) at 2.
  symmetry. apply filter_all. apply Forall_forall. intros k Hk.
  apply dmem_In. apply (ar_keys_In l r k Hl Hr) in Hk. destruct Hk as [Hk|Hk]; [exact Hk|apply Hi; exact Hk].
Qed.

Definition olist {A} (o : option A) : list A := match o with Some x => [x] | None => [] end.
Definition cent_list (o : option centry) : list centry :=
  match o with Some e => if is_cent e then [e] else [] | None => [] end.

Lemma filter_cent_flat {A} (f : A -> option centry) (l : list A) :
  filter is_cent (flat_map (fun k => olist (f k)) l) = flat_map (fun k => cent_list (f k)) l.
Proof.
  induction l as [|x l IH]; cbn; [reflexivity|]. rewrite filter_app, IH. f_equal.
  destruct (f x) as [e|]; cbn; [destruct (is_cent e); reflexivity|reflexivity].
Qed.

Lemma somes_map_vals (f : dkey -> option centry) (ks : list dkey) :
  map snd (somes (map (fun k => (k, f k)) ks)) = flat_map (fun k => olist (f k)) ks.
Proof.
  induction ks as [|k ks IH]; cbn; [reflexivity|].
  destruct (f k) as [e|]; cbn; rewrite <- IH; reflexivity.
Qed.

Lemma somes_map_keys (f : dkey -> option centry) (ks : list dkey) :
  map fst (somes (map (fun k => (k, f k)) ks)) =
  filter (fun k => match f k with Some _ => true | None => false end) ks.
Proof.
  induction ks as [|k ks IH]; cbn; [reflexivity|].
  destruct (f k) as [e|]; cbn; rewrite <- IH; reflexivity.
Qed.

Lemma filter_cent_nw (d : dict) :
  filter is_cent (map snd (filter nw d)) = filter is_cent (map snd d).
Proof.
  induction d as [|[k e] d IH]; cbn; [reflexivity|].
  unfold nw at 1. cbn. destruct (is_white e) eqn:Ew; cbn.
  - assert (is_cent e = false) as ->; [|exact IH].
    unfold is_cent, is_white in *. destruct (c_kind e); try discriminate; reflexivity.
  - rewrite IH. reflexivity.
Qed.

Lemma merge_contents_map N O keep :
  merge_contents N O keep =
  map (fun k => (k, get_entity keep N O k)) (ar_keys (dkeys N) (dkeys O)).
Proof. unfold merge_contents. rewrite map_map. reflexivity. Qed.

(* the CEntity values of a merge, by key *)
Lemma merge_two_cents N O keep : wf N -> wf O ->
  filter is_cent (dvalues (merge_two N O keep)) =
  flat_map (fun k => cent_list (get_entity keep N O k)) (ar_keys (dkeys N) (dkeys O)).
Proof.
  intros HN HO. unfold dvalues. rewrite <- filter_cent_nw.
  rewrite (merge_two_nw N O keep HN HO). rewrite filter_cent_nw.
  rewrite merge_contents_map, somes_map_vals. apply filter_cent_flat.
Qed.

(* ---- uniq under maps that keep key, keyedness and whitespace ------------------------------ *)
Lemma uniq_map (f : centry -> centry) l :
  (forall e, keyed (f e) = keyed e /\ c_key (f e) = c_key e /\
             is_white (f e) = is_white e /\ (is_white e = true -> c_id (f e) = c_id e) /\
             is_section (f e) = is_section e) ->
  uniq l -> uniq (map f l).
Proof.
  intros Hf (H1 & H2 & H3). split; [|split].
  - assert (E : map c_key (filter keyed (map f l)) = map c_key (filter keyed l)).
    { clear H1 H2 H3. induction l as [|e l IH]; cbn; [reflexivity|].
      destruct (Hf e) as (F1 & F2 & _). rewrite F1. destruct (keyed e); cbn; rewrite IH, ?F2; reflexivity. }
    rewrite E. exact H1.
  - assert (E : map c_id (filter is_white (map f l)) = map c_id (filter is_white l)).
    { clear H1 H2 H3. induction l as [|e l IH]; cbn; [reflexivity|].
      destruct (Hf e) as (_ & _ & F3 & F4 & _). rewrite F3. destruct (is_white e) eqn:Ew; cbn; rewrite IH; [|reflexivity].
      rewrite (F4 eq_refl). reflexivity. }
    rewrite E. exact H2.
  - assert (E : map c_key (filter is_section (map f l)) = map c_key (filter is_section l)).
    { clear H1 H2 H3. induction l as [|e l IH]; cbn; [reflexivity|].
      destruct (Hf e) as (_ & F2 & _ & _ & F5). rewrite F5. destruct (is_section e); cbn; rewrite IH, ?F2; reflexivity. }
    rewrite E. exact H3.
Qed.

Lemma is_entity_keyed e : is_entity e = true -> keyed e = true /\ is_white e = false.
Proof.
  unfold is_entity, keyed, is_comment, is_white, is_section. destruct (c_kind e); try discriminate; auto.
Qed.

Lemma is_entity_nosection e : is_entity e = true -> is_section e = false.
Proof. unfold is_entity, is_section. destruct (c_kind e); try discriminate; auto. Qed.

Lemma placeholder_facts e :
  keyed (placeholder e) = keyed e /\ c_key (placeholder e) = c_key e /\
  is_white (placeholder e) = is_white e /\ (is_white e = true -> c_id (placeholder e) = c_id e) /\
  is_section (placeholder e) = is_section e.
Proof.
  unfold placeholder. destruct (is_entity e) eqn:E; [|auto 6].
  pose proof (is_entity_nosection e E) as E3.
  apply is_entity_keyed in E. destruct E as [E1 E2]. rewrite E1, E2, E3. cbn. repeat split.
  intros; discriminate.
Qed.

Lemma find_map_has_key s (f : centry -> centry) l :
  (forall e, has_key s (f e) = has_key s e) ->
  find (has_key s) (map f l) = option_map f (find (has_key s) l).
Proof.
  intros Hf. induction l as [|e l IH]; cbn; [reflexivity|].
  rewrite Hf. destruct (has_key s e); [reflexivity|exact IH].
Qed.

Lemma has_key_placeholder s e : has_key s (placeholder e) = has_key s e.
Proof.
  unfold has_key. destruct (placeholder_facts e) as (F1 & F2 & _). rewrite F1, F2. reflexivity.
Qed.

Lemma is_cent_placeholder e : is_cent (placeholder e) = false \/ (is_entity e = false /\ placeholder e = e).
Proof.
  unfold placeholder. destruct (is_entity e) eqn:E; [left; reflexivity|right; auto].
Qed.

Lemma not_entity_not_cent e : is_entity e = false -> is_cent e = false.
Proof. unfold is_entity, is_cent. destruct (c_kind e); try discriminate; reflexivity. Qed.

Lemma is_cent_entity e : is_cent e = true -> is_entity e = true /\ is_placeholder e = false /\ keyed e = true.
Proof.
  unfold is_entity, is_cent, is_placeholder, keyed, is_comment, is_white, is_section.
  destruct (c_kind e); try discriminate; auto.
Qed.

Lemma NoDup_map_filter {A B} (f : A -> B) (p : A -> bool) (l : list A) :
  NoDup (map f l) -> NoDup (map f (filter p l)).
Proof.
  induction l as [|x l IH]; cbn; intros H; [constructor|].
  inversion H as [|? ? Hx Hl]; subst. destruct (p x); cbn; [|apply IH; exact Hl].
  constructor; [|apply IH; exact Hl]. intros Hin. apply Hx.
  apply in_map_iff in Hin. destruct Hin as [y [Hy Hin]]. apply filter_In in Hin.
  apply in_map_iff. exists y. split; [exact Hy|apply Hin].
Qed.

Lemma NoDup_map_inj_in {A B} (f : A -> B) (l : list A) a b :
  NoDup (map f l) -> In a l -> In b l -> f a = f b -> a = b.
Proof.
  induction l as [|x l IH]; cbn; intros H Ha Hb Hf; [contradiction|].
  inversion H as [|? ? Hx Hl]; subst.
  destruct Ha as [->|Ha], Hb as [->|Hb]; [reflexivity| | |apply IH; assumption].
  - exfalso. apply Hx. rewrite Hf. apply in_map. exact Hb.
  - exfalso. apply Hx. rewrite <- Hf. apply in_map. exact Ha.
Qed.

Lemma mem_str_In s l : mem_str s l = true <-> In s l.
Proof.
  induction l as [|x l IH]; cbn; [split; [discriminate|tauto]|].
  rewrite orb_true_iff, IH, str_eqb_eq. split; intros [H|H]; auto.
Qed.

Section Spec.
Variable wrap : centry -> str -> result centry.
Variables (reference old : list centry) (nd : new_data_t).
Notation nj := (filter (fun e => negb (is_junk e))).
Hypothesis Href : uniq (nj reference).
Hypothesis Hold : uniq (nj old).
Hypothesis Hnd : NoDup (map fst nd).
Hypothesis Hwrap : forall r raw e, wrap r raw = Ok e -> c_kind e = CEntity /\ c_key e = c_key r.

Definition refkeys : list str := map c_key (filter is_entity reference).

Lemma entity_nonjunk e : is_entity e = true -> negb (is_junk e) = true.
Proof. unfold is_entity, is_junk. destruct (c_kind e); try discriminate; reflexivity. Qed.

Lemma entities_nj : filter is_entity (nj reference) = filter is_entity reference.
Proof. apply filter_filter_imp. intros x. apply entity_nonjunk. Qed.

Lemma refkeys_alt : refkeys = map c_key (filter is_entity (filter keyed (nj reference))).
Proof.
  unfold refkeys. rewrite <- entities_nj. f_equal. symmetry.
  apply filter_filter_imp. intros x Hx. apply is_entity_keyed in Hx. apply Hx.
Qed.

Lemma refkeys_nodup : NoDup refkeys.
Proof. rewrite refkeys_alt. apply NoDup_map_filter. apply Href. Qed.

Lemma rm_pairs : ref_mapping reference = map (fun e => (c_key e, e)) (filter is_entity reference).
Proof.
  unfold ref_mapping. apply (od_of_pairs_nodup str_eqb str_eqb_eq).
  rewrite map_map. cbn. apply refkeys_nodup.
Qed.

Lemma rm_keys : map fst (ref_mapping reference) = refkeys.
Proof. rewrite rm_pairs, map_map. reflexivity. Qed.

Lemma rm_get_some s : In s refkeys -> exists r, od_get str_eqb s (ref_mapping reference) = Some r.
Proof.
  intros H. destruct (od_get str_eqb s (ref_mapping reference)) eqn:E; [eauto|].
  apply (od_get_None str_eqb str_eqb_eq) in E. rewrite rm_keys in E. contradiction.
Qed.

Lemma rm_get_none s : ~ In s refkeys -> od_get str_eqb s (ref_mapping reference) = None.
Proof. intros H. apply (od_get_None str_eqb str_eqb_eq). rewrite rm_keys. exact H. Qed.

(* a keyed reference entry that is no entity does not carry an entity's key *)
Lemma ref_nonentity_key e : In e (nj reference) -> keyed e = true -> is_entity e = false ->
  ~ In (c_key e) refkeys.
Proof.
  intros He Hk Hn Hin. unfold refkeys in Hin. rewrite <- entities_nj in Hin.
  apply in_map_iff in Hin. destruct Hin as [r [Hr Hin]]. apply filter_In in Hin.
  destruct Hin as [Hin Her].
  assert (r = e).
  { apply (NoDup_map_inj_in c_key (filter keyed (nj reference))); [apply Href| | |exact Hr].
    - apply filter_In. split; [exact Hin|]. apply is_entity_keyed in Her. apply Her.
    - apply filter_In. split; assumption. }
  subst r. congruence.
Qed.

(* ---- the three resources ------------------------------------------------------------------------- *)
Definition PL := placeholders reference.
Definition san (e : centry) : centry :=
  if should_placeholder refkeys nd e then placeholder e else e.
Definition OL := map san (nj old).

Lemma OL_eq : sanitize_old (map fst (ref_mapping reference)) old nd = OL.
Proof. rewrite rm_keys. reflexivity. Qed.

Lemma PL_uniq : uniq PL.
Proof. apply uniq_map; [apply placeholder_facts|exact Href]. Qed.

Lemma san_facts e :
  keyed (san e) = keyed e /\ c_key (san e) = c_key e /\
  is_white (san e) = is_white e /\ (is_white e = true -> c_id (san e) = c_id e) /\
  is_section (san e) = is_section e.
Proof. unfold san. destruct (should_placeholder refkeys nd e); [apply placeholder_facts|auto 6]. Qed.

Lemma OL_uniq : uniq OL.
Proof. apply uniq_map; [apply san_facts|exact Hold]. Qed.

Lemma has_key_san s e : has_key s (san e) = has_key s e.
Proof. unfold has_key. destruct (san_facts e) as (F1 & F2 & _). rewrite F1, F2. reflexivity. Qed.

Definition P := parse_resource PL.
Definition O' := parse_resource OL.

Lemma P_wf : wf P. Proof. apply parse_resource_wf. apply PL_uniq. Qed.
Lemma O_wf : wf O'. Proof. apply parse_resource_wf. apply OL_uniq. Qed.

Lemma P_get s : od_get dkey_eqb (DK s) P = option_map placeholder (find (has_key s) (nj reference)).
Proof.
  unfold P. rewrite parse_resource_uniq by apply PL_uniq. rewrite key_values_get.
  unfold PL, placeholders. apply find_map_has_key. intros e. apply has_key_placeholder.
Qed.

Lemma O_get s : od_get dkey_eqb (DK s) O' = option_map san (find (has_key s) (nj old)).
Proof.
  unfold O'. rewrite parse_resource_uniq by apply OL_uniq. rewrite key_values_get.
  unfold OL. apply find_map_has_key. intros e. apply has_key_san.
Qed.

Lemma P_vals_noncent k e : od_get dkey_eqb k P = Some e -> is_cent e = false.
Proof.
  intros H. apply (od_get_In dkey_eqb dkey_eqb_eq) in H.
  assert (Hin : In e (dvalues P)) by (unfold dvalues; apply in_map_iff; exists (k, e); auto).
  unfold P in Hin. rewrite parse_resource_values in Hin by apply PL_uniq.
  unfold PL, placeholders in Hin. apply in_map_iff in Hin. destruct Hin as [r [Hr _]]. subst e.
  destruct (is_cent_placeholder r) as [H1|[H1 H2]]; [exact H1|]. rewrite H2.
  apply not_entity_not_cent. exact H1.
Qed.

Lemma find_has_key_some s l e : find (has_key s) l = Some e -> In e l /\ keyed e = true /\ c_key e = s.
Proof.
  intros H. apply find_some in H. destruct H as [H1 H2]. unfold has_key in H2.
  apply andb_true_iff in H2. destruct H2 as [H2 H3]. apply str_eqb_eq in H3. auto.
Qed.

Lemma P_has s : In s refkeys -> exists p, od_get dkey_eqb (DK s) P = Some p.
Proof.
  intros H. rewrite P_get. unfold refkeys in H. rewrite <- entities_nj in H.
  apply in_map_iff in H. destruct H as [r [Hr Hin]]. apply filter_In in Hin. destruct Hin as [Hin Her].
  destruct (find (has_key s) (nj reference)) eqn:E; [cbn; eauto|].
  exfalso. apply (find_none _ _ E) in Hin. unfold has_key in Hin.
  apply is_entity_keyed in Her. destruct Her as [Hk _]. rewrite Hk, Hr in Hin. cbn in Hin.
  assert (str_eqb s s = true) by (apply str_eqb_eq; reflexivity). congruence.
Qed.

(* ---- the new entities ------------------------------------------------------------------------------- *)
Lemma new_entities_facts rm : (forall k r, od_get str_eqb k rm = Some r -> c_key r = k) ->
  forall nd' es, new_entities wrap rm nd' = Ok es ->
  Forall (fun e => is_cent e = true /\ In (c_key e) (map fst nd') /\
                   od_get str_eqb (c_key e) rm <> None) es.
Proof.
  intros Hrm. induction nd' as [|[k [raw|]] nd' IH]; intros es H; cbn in H.
  - inversion H; subst. constructor.
  - destruct (od_get str_eqb k rm) as [r|] eqn:Er.
    + destruct (wrap r raw) as [e1|] eqn:Ew; cbn in H; [|discriminate].
      destruct (new_entities wrap rm nd') as [es1|] eqn:En; cbn in H; [|discriminate].
      inversion H; subst. destruct (Hwrap _ _ _ Ew) as [W1 W2]. constructor.
      * unfold is_cent. rewrite W1, W2, (Hrm _ _ Er). repeat split; [left; reflexivity|congruence].
      * eapply Forall_impl; [|apply IH; reflexivity]. cbn. intros a (A1 & A2 & A3). auto.
    + eapply Forall_impl; [|apply IH; exact H]. cbn. intros a (A1 & A2 & A3). auto.
  - eapply Forall_impl; [|apply IH; exact H]. cbn. intros a (A1 & A2 & A3). auto.
Qed.

Lemma has_key_cent s e : is_cent e = true -> has_key s e = str_eqb (c_key e) s.
Proof. intros H. apply is_cent_entity in H. destruct H as (_ & _ & H). unfold has_key. rewrite H. reflexivity. Qed.

Lemma find_none_keys s es : Forall (fun e => is_cent e = true) es -> ~ In s (map c_key es) ->
  find (has_key s) es = None.
Proof.
  induction 1 as [|e es He _ IH]; cbn; intros Hn; [reflexivity|].
  rewrite (has_key_cent s e He). destruct (str_eqb (c_key e) s) eqn:E.
  - apply str_eqb_eq in E. exfalso. apply Hn. left. exact E.
  - apply IH. intros Hin. apply Hn. right. exact Hin.
Qed.

(* which new entity there is for a key *)
Lemma new_entities_find rm s : (forall k r, od_get str_eqb k rm = Some r -> c_key r = k) ->
  forall nd' es, NoDup (map fst nd') -> new_entities wrap rm nd' = Ok es ->
  match find (has_key s) es with
  | Some e => exists raw r, od_get str_eqb s nd' = Some (Some raw) /\
                            od_get str_eqb s rm = Some r /\ wrap r raw = Ok e
  | None => forall raw, od_get str_eqb s nd' = Some (Some raw) -> od_get str_eqb s rm = None
  end.
Proof.
  intros Hrm. induction nd' as [|[k v] nd' IH]; intros es Hd H.
  - cbn in H. inversion H; subst. cbn. intros raw; discriminate.
  - cbn in Hd. inversion Hd as [|? ? Hk Hd']; subst. cbn [od_get].
    assert (Hskip : forall es', new_entities wrap rm nd' = Ok es' -> str_eqb s k = true ->
                    find (has_key s) es' = None).
    { intros es' He' Hs. apply str_eqb_eq in Hs. subst k.
      pose proof (new_entities_facts rm Hrm nd' es' He') as Hf.
      apply find_none_keys.
      - eapply Forall_impl; [|exact Hf]. cbn. tauto.
      - intros Hin. apply Hk. apply in_map_iff in Hin. destruct Hin as [a [Ha Hin]].
        rewrite Forall_forall in Hf. destruct (Hf a Hin) as (_ & A2 & _). rewrite Ha in A2. exact A2. }
    cbn in H. destruct v as [raw|].
    + destruct (od_get str_eqb k rm) as [r|] eqn:Er.
      * destruct (wrap r raw) as [e1|] eqn:Ew; cbn in H; [|discriminate].
        destruct (new_entities wrap rm nd') as [es1|] eqn:En; cbn in H; [|discriminate].
        inversion H; subst. cbn [find]. destruct (Hwrap _ _ _ Ew) as [W1 W2].
        assert (Hc : is_cent e1 = true) by (unfold is_cent; rewrite W1; reflexivity).
        rewrite (has_key_cent s e1 Hc), W2, (Hrm _ _ Er), (str_eqb_sym k s).
        destruct (str_eqb s k) eqn:Es.
        -- apply str_eqb_eq in Es. subst k. exists raw, r. auto.
        -- apply (IH es1 Hd' eq_refl).
      * destruct (str_eqb s k) eqn:Es.
        -- rewrite (Hskip es H eq_refl). apply str_eqb_eq in Es. subst k. intros raw' _. exact Er.
        -- apply (IH es Hd' H).
    + destruct (str_eqb s k) eqn:Es.
      * rewrite (Hskip es H eq_refl). intros raw'; discriminate.
      * apply (IH es Hd' H).
Qed.

Lemma flat_map_ext_in {A B} (f g : A -> list B) (l : list A) :
  (forall x, In x l -> f x = g x) -> flat_map f l = flat_map g l.
Proof.
  induction l as [|x l IH]; intros H; cbn; [reflexivity|].
  rewrite (H x (or_introl eq_refl)), IH; [reflexivity|]. intros y Hy. apply H. right; exact Hy.
Qed.

Lemma flat_map_map {A B C} (f : B -> list C) (g : A -> B) (l : list A) :
  flat_map f (map g l) = flat_map (fun x => f (g x)) l.
Proof. induction l as [|x l IH]; cbn; [reflexivity|]. rewrite IH. reflexivity. Qed.

Lemma rm_key k r : od_get str_eqb k (ref_mapping reference) = Some r -> c_key r = k.
Proof. intros H. apply ref_mapping_get in H. apply H. Qed.

Variable NL : list centry.
Hypothesis HNL : new_entities wrap (ref_mapping reference) nd = Ok NL.

Lemma NL_facts : Forall (fun e => is_cent e = true /\ In (c_key e) (map fst nd) /\
                                  od_get str_eqb (c_key e) (ref_mapping reference) <> None) NL.
Proof. apply (new_entities_facts _ rm_key nd NL HNL). Qed.

Lemma NL_cent : Forall (fun e => is_cent e = true) NL.
Proof. eapply Forall_impl; [|apply NL_facts]. cbn. tauto. Qed.

Lemma NL_keys_ref e : In e NL -> In (c_key e) refkeys.
Proof.
  intros H. pose proof NL_facts as F. rewrite Forall_forall in F. destruct (F e H) as (_ & _ & F3).
  destruct (in_dec (list_eq_dec N.eq_dec) (c_key e) refkeys) as [Hin|Hn]; [exact Hin|].
  exfalso. apply F3. apply rm_get_none. exact Hn.
Qed.

Lemma new_entities_nodup rm : (forall k r, od_get str_eqb k rm = Some r -> c_key r = k) ->
  forall nd' es, NoDup (map fst nd') -> new_entities wrap rm nd' = Ok es -> NoDup (map c_key es).
Proof.
  intros Hrm. induction nd' as [|[k v] nd' IH]; intros es Hd H; cbn in H.
  - inversion H; subst. constructor.
  - cbn in Hd. inversion Hd as [|? ? Hk Hd']; subst. destruct v as [raw|]; [|apply IH; assumption].
    destruct (od_get str_eqb k rm) as [r|] eqn:Er; [|apply IH; assumption].
    destruct (wrap r raw) as [e1|] eqn:Ew; cbn in H; [|discriminate].
    destruct (new_entities wrap rm nd') as [es1|] eqn:En; cbn in H; [|discriminate].
    inversion H; subst. cbn. constructor; [|apply IH; [exact Hd'|reflexivity]].
    destruct (Hwrap _ _ _ Ew) as [_ W2]. rewrite W2, (Hrm _ _ Er). intros Hin.
    apply Hk. apply in_map_iff in Hin. destruct Hin as [a [Ha Hin]].
    pose proof (new_entities_facts rm Hrm nd' es1 En) as Hf. rewrite Forall_forall in Hf.
    destruct (Hf a Hin) as (_ & A2 & _). rewrite Ha in A2. exact A2.
Qed.

Lemma NL_uniq : uniq NL.
Proof.
  pose proof NL_cent as Hc. split; [|split].
  - rewrite (filter_all keyed).
    + apply (new_entities_nodup _ rm_key nd NL Hnd HNL).
    + eapply Forall_impl; [|exact Hc]. cbn. intros a Ha. apply is_cent_entity in Ha. apply Ha.
  - rewrite (filter_none is_white); [constructor|].
    eapply Forall_impl; [|exact Hc]. cbn. intros a Ha. apply is_cent_nonwhite in Ha.
    unfold nonwhite in Ha. destruct (is_white a); [discriminate|reflexivity].
  - rewrite (filter_none is_section); [constructor|].
    eapply Forall_impl; [|exact Hc]. cbn. intros a Ha. apply is_cent_entity in Ha.
    apply is_entity_nosection. apply Ha.
Qed.

Definition Nw := parse_resource NL.
Lemma N_wf : wf Nw. Proof. apply parse_resource_wf. apply NL_uniq. Qed.

Lemma N_get s : od_get dkey_eqb (DK s) Nw = find (has_key s) NL.
Proof. unfold Nw. rewrite parse_resource_uniq by apply NL_uniq. apply key_values_get. Qed.

Lemma N_pairs k e : In (k, e) Nw -> is_cent e = true /\ k = DK (c_key e) /\ In (c_key e) refkeys.
Proof.
  intros H. assert (Hin : In e NL).
  { rewrite <- (parse_resource_values NL NL_uniq). unfold dvalues. apply in_map_iff. exists (k, e). auto. }
  pose proof NL_cent as Hc. rewrite Forall_forall in Hc. pose proof (Hc e Hin) as He.
  split; [exact He|]. split; [|apply NL_keys_ref; exact Hin].
  pose proof N_wf as [_ Hok]. rewrite Forall_forall in Hok. pose proof (Hok _ H) as Hk.
  unfold key_ok in Hk. cbn in Hk. apply is_cent_entity in He. destruct He as (_ & _ & He).
  destruct k as [s|v n|i|s].
  - destruct Hk as [_ Hk]. subst s. reflexivity.
  - destruct Hk as [Hk _]. rewrite (not_keyed e) in He by auto. discriminate.
  - destruct Hk as [Hk _]. rewrite (not_keyed e) in He by auto. discriminate.
  - destruct Hk as [Hk _]. rewrite (not_keyed e) in He by auto. discriminate.
Qed.

Lemma N_get_some k e : od_get dkey_eqb k Nw = Some e ->
  is_cent e = true /\ k = DK (c_key e) /\ In (c_key e) refkeys.
Proof. intros H. apply (od_get_In dkey_eqb dkey_eqb_eq) in H. apply N_pairs. exact H. Qed.

(* ---- the merges ---------------------------------------------------------------------------------------- *)
Definition M1 := merge_two P O' false.
Definition M := merge_two M1 Nw false.
Notation ks1 := (ar_keys (dkeys P) (dkeys O')).

Lemma M1_wf : wf M1. Proof. apply merge_two_wf; [apply P_wf|apply O_wf]. Qed.

Definition someP (k : dkey) : bool :=
  match get_older_entity P O' k with Some _ => true | None => false end.

Lemma older_P_some k : In k (dkeys P) -> someP k = true.
Proof.
  intros H. unfold someP, get_older_entity.
  destruct (od_get dkey_eqb k P) eqn:E.
  - destruct (od_get dkey_eqb k O'); [destruct (is_sticky c0)|]; reflexivity.
  - apply (od_get_None dkey_eqb dkey_eqb_eq) in E. contradiction.
Qed.

Lemma P_key_in s : In s refkeys -> In (DK s) (dkeys P).
Proof.
  intros H. destruct (P_has s H) as [p Hp]. eapply od_get_Some_key; [apply dkey_eqb_eq|exact Hp].
Qed.

Lemma ks1_In k : In k ks1 <-> In k (dkeys P) \/ In k (dkeys O').
Proof. apply ar_keys_In; [apply P_wf|apply O_wf]. Qed.

Lemma M1_get k : nwk k = true -> In k ks1 -> od_get dkey_eqb k M1 = get_older_entity P O' k.
Proof.
  intros Hk Hin. destruct (get_older_entity P O' k) as [e|] eqn:E.
  - apply (merge_two_get P O' false P_wf O_wf k e Hk). auto.
  - destruct (od_get dkey_eqb k M1) as [e'|] eqn:E2; [|reflexivity].
    apply (merge_two_get P O' false P_wf O_wf k e' Hk) in E2. destruct E2 as [_ E2].
    cbn in E2. congruence.
Qed.

Lemma N_keys_in_M1 : incl (dkeys Nw) (dkeys M1).
Proof.
  intros k Hk. unfold dkeys in Hk. apply in_map_iff in Hk. destruct Hk as [[k' e] [Hk Hin]].
  cbn in Hk. subst k'. apply N_pairs in Hin. destruct Hin as (_ & -> & Hr).
  pose proof (P_key_in _ Hr) as HP. pose proof (older_P_some _ HP) as Hs. unfold someP in Hs.
  destruct (get_older_entity P O' (DK (c_key e))) as [e1|] eqn:E; [|discriminate].
  eapply od_get_Some_key; [apply dkey_eqb_eq|].
  rewrite M1_get; [exact E|reflexivity|]. apply ks1_In. left. exact HP.
Qed.

Definition Hc' (k : dkey) : list centry :=
  cent_list (match od_get dkey_eqb k Nw with Some e => Some e | None => get_older_entity P O' k end).

Lemma get_older_N k : get_older_entity M1 Nw k =
  match od_get dkey_eqb k Nw with Some e => Some e | None => od_get dkey_eqb k M1 end.
Proof.
  unfold get_older_entity. destruct (od_get dkey_eqb k Nw) as [e|] eqn:E; [|reflexivity].
  apply N_get_some in E. destruct E as [E _]. unfold is_cent in E. unfold is_sticky.
  destruct (c_kind e); try discriminate. reflexivity.
Qed.

Lemma ekeys_M1 : ekeys M1 = filter nwk (filter someP ks1).
Proof.
  unfold ekeys. pose proof M1_wf as [_ W2]. rewrite <- (filter_nw_keys _ W2).
  unfold M1. rewrite (merge_two_nw P O' false P_wf O_wf).
  rewrite (filter_nw_keys (somes (merge_contents P O' false))).
  2:{ apply merge_contents_key_ok; [apply P_wf|apply O_wf]. }
  unfold dkeys at 1. rewrite merge_contents_map, somes_map_keys. reflexivity.
Qed.

Lemma step123 : filter is_cent (dvalues M) = flat_map Hc' (filter nwk ks1).
Proof.
  unfold M. rewrite (merge_two_cents M1 Nw false M1_wf N_wf). cbn [get_entity].
  rewrite (ar_keys_incl _ _ (proj1 M1_wf) (proj1 N_wf) N_keys_in_M1).
  (* whitespace keys contribute nothing *)
  rewrite (flat_map_filter_nil _ nwk).
  2:{ intros k Hin Hk. rewrite get_older_N.
      destruct (od_get dkey_eqb k Nw) as [e|] eqn:E.
      - apply N_get_some in E. destruct E as (_ & -> & _). discriminate.
      - destruct (od_get dkey_eqb k M1) as [e|] eqn:E1; [|reflexivity]. cbn.
        apply (od_get_In dkey_eqb dkey_eqb_eq) in E1. pose proof M1_wf as [_ W2].
        rewrite Forall_forall in W2. pose proof (key_ok_nw _ (W2 _ E1)) as Hn. cbn in Hn.
        rewrite Hk in Hn. unfold nw in Hn. cbn in Hn.
        assert (is_cent e = false) as ->; [|reflexivity].
        unfold is_cent. unfold is_white in Hn. destruct (c_kind e); try reflexivity; discriminate. }
  fold (ekeys M1). rewrite ekeys_M1.
  rewrite (flat_map_ext_in _ Hc').
  2:{ intros k Hk. apply filter_In in Hk. destruct Hk as [Hk Hn]. apply filter_In in Hk.
      destruct Hk as [Hk _]. rewrite get_older_N. unfold Hc'. rewrite (M1_get k Hn Hk). reflexivity. }
  rewrite filter_comm. symmetry. apply flat_map_filter_nil.
  intros k Hk Hs. unfold Hc'. destruct (od_get dkey_eqb k Nw) as [e|] eqn:E.
  - exfalso. apply N_get_some in E. destruct E as (_ & -> & Hr).
    rewrite (older_P_some _ (P_key_in _ Hr)) in Hs. discriminate.
  - unfold someP in Hs. destruct (get_older_entity P O' k); [discriminate|reflexivity].
Qed.

Definition isref (k : dkey) : bool :=
  match k with DK s => mem_str s refkeys | _ => false end.

Lemma P_pairs_noncent k e : In (k, e) P -> is_cent e = false.
Proof.
  intros H. apply (P_vals_noncent k e). apply (In_od_get dkey_eqb dkey_eqb_eq); [apply P_wf|exact H].
Qed.

Lemma OL_cent e : In e OL -> is_cent e = true ->
  In (c_key e) refkeys /\ od_get str_eqb (c_key e) nd <> Some None /\ In e (nj old).
Proof.
  unfold OL. intros Hin Hc. apply in_map_iff in Hin. destruct Hin as [o [Ho Hin]].
  unfold san in Ho. destruct (should_placeholder refkeys nd o) eqn:Es.
  - unfold should_placeholder in Es. unfold placeholder in Ho.
    destruct (is_entity o); [subst e; discriminate|discriminate].
  - subst e. apply is_cent_entity in Hc. destruct Hc as (Hc & _ & _).
    unfold should_placeholder in Es. rewrite Hc in Es. cbn in Es.
    destruct (mem_str (c_key o) refkeys) eqn:Em; [|discriminate]. cbn in Es.
    split; [apply mem_str_In; exact Em|]. split; [|exact Hin].
    intros Hn. rewrite Hn in Es. discriminate.
Qed.

Lemma O_pairs k e : In (k, e) O' -> In e OL.
Proof.
  intros H. rewrite <- (parse_resource_values OL OL_uniq). unfold dvalues.
  apply in_map_iff. exists (k, e). auto.
Qed.

Lemma Hc'_nonref k : nwk k = true -> isref k = false -> Hc' k = [].
Proof.
  intros Hn Hr. unfold Hc'. destruct (od_get dkey_eqb k Nw) as [e|] eqn:E.
  - exfalso. apply N_get_some in E. destruct E as (_ & -> & Hin). cbn in Hr.
    apply mem_str_In in Hin. congruence.
  - destruct (get_older_entity P O' k) as [e|] eqn:E1; [|reflexivity]. cbn.
    assert (is_cent e = false) as ->; [|reflexivity].
    pose proof (get_entity_In P O' false k e E1) as [H|H].
    + apply (P_pairs_noncent k e H).
    + destruct (is_cent e) eqn:Ec; [|reflexivity]. exfalso.
      pose proof (O_pairs k e H) as Hin. destruct (OL_cent e Hin Ec) as (Hk & _ & _).
      pose proof O_wf as [_ W2]. rewrite Forall_forall in W2. pose proof (W2 _ H) as Hok.
      unfold key_ok in Hok. cbn in Hok. apply is_cent_entity in Ec. destruct Ec as (_ & _ & Ek).
      destruct k as [s|v n|i|s]; cbn in *.
      * destruct Hok as [_ Hok]. subst s. apply mem_str_In in Hk. congruence.
      * destruct Hok as [Hok _]. rewrite (not_keyed e) in Ek by auto. discriminate.
      * discriminate.
      * destruct Hok as [Hok _]. rewrite (not_keyed e) in Ek by auto. discriminate.
Qed.

Lemma isref_nwk k : isref k = true -> nwk k = true.
Proof. destruct k; cbn; try discriminate; reflexivity. Qed.

Lemma isref_P k : isref k = true -> dmem k (dkeys P) = true.
Proof.
  destruct k as [s| | |]; cbn; try discriminate. intros H. apply mem_str_In in H.
  apply dmem_In. apply P_key_in. exact H.
Qed.

Lemma step45 : flat_map Hc' (filter nwk ks1) = flat_map Hc' (filter isref (dkeys P)).
Proof.
  rewrite (flat_map_filter_nil Hc' isref (filter nwk ks1)).
  2:{ intros k Hk Hr. apply filter_In in Hk. apply Hc'_nonref; [apply Hk|exact Hr]. }
  rewrite (filter_filter_imp isref nwk) by apply isref_nwk.
  rewrite <- (filter_filter_imp isref (fun k => dmem k (dkeys P))) by apply isref_P.
  rewrite (addremove_left_order dkey_eqb dkey_eqb_eq _ _ (proj1 P_wf) (proj1 O_wf)).
  reflexivity.
Qed.

Lemma step6_gen l : forall c,
  (forall e, In e l -> keyed e = true -> is_entity e = false -> ~ In (c_key e) refkeys) ->
  (forall e, In e l -> is_entity e = true -> In (c_key e) refkeys) ->
  filter isref (map fst (key_values (map placeholder l) c)) = map DK (map c_key (filter is_entity l)).
Proof.
  induction l as [|e l IH]; intros c H1 H2; cbn [map key_values filter]; [reflexivity|].
  assert (IH' : forall c', filter isref (map fst (key_values (map placeholder l) c')) =
                           map DK (map c_key (filter is_entity l))).
  { intros c'. apply IH; intros x Hx; [apply H1|apply H2]; right; exact Hx. }
  unfold placeholder at 1. destruct (is_entity e) eqn:Ee.
  - unfold get_key_value. cbn. rewrite IH'.
    assert (mem_str (c_key e) refkeys = true) as ->; [|reflexivity].
    apply mem_str_In. apply H2; [left; reflexivity|exact Ee].
  - unfold get_key_value. destruct (c_kind e) eqn:Ek; cbn; try apply IH';
      try (unfold is_entity in Ee; rewrite Ek in Ee; discriminate);
      (assert (mem_str (c_key e) refkeys = false) as ->; [|apply IH']);
      (destruct (mem_str (c_key e) refkeys) eqn:Em; [|reflexivity]); exfalso;
      apply mem_str_In in Em; apply (H1 e (or_introl eq_refl)); try exact Ee; try exact Em;
      unfold keyed, is_comment, is_white, is_section; rewrite Ek; reflexivity.
Qed.

Lemma step6 : filter isref (dkeys P) = map DK refkeys.
Proof.
  unfold P. rewrite parse_resource_uniq by apply PL_uniq. unfold dkeys, PL, placeholders.
  rewrite step6_gen.
  - rewrite entities_nj. reflexivity.
  - intros e He. apply ref_nonentity_key. exact He.
  - intros e He Hent. unfold refkeys. rewrite <- entities_nj. apply in_map. apply filter_In. auto.
Qed.

(* ---- the value written for a reference key ---------------------------------------------------------- *)
Definition removed (s : str) : bool :=
  match od_get str_eqb s nd with Some None => true | _ => false end.
Definition old_cent (s : str) : option centry :=
  match find (has_key s) (nj old) with
  | Some o => if is_cent o then Some o else None
  | None => None
  end.
Definition value_of (s : str) : option centry :=
  match find (has_key s) NL with
  | Some e => Some e
  | None => if removed s then None else old_cent s
  end.

Lemma step7 s : In s refkeys -> Hc' (DK s) = olist (value_of s).
Proof.
  intros Hs. unfold Hc', value_of. rewrite N_get.
  destruct (find (has_key s) NL) as [e|] eqn:En.
  - apply find_some in En. destruct En as [En _]. pose proof NL_cent as Hc.
    rewrite Forall_forall in Hc. cbn. rewrite (Hc e En). reflexivity.
  - destruct (P_has s Hs) as [p Hp]. pose proof (P_vals_noncent _ _ Hp) as Hpc.
    unfold get_older_entity. rewrite O_get, Hp. unfold old_cent.
    destruct (find (has_key s) (nj old)) as [o|] eqn:Eo; cbn [option_map].
    2:{ cbn. rewrite Hpc. destruct (removed s); reflexivity. }
    destruct (find_has_key_some _ _ _ Eo) as (Hin & Hk & Hkey).
    assert (Hsp : should_placeholder refkeys nd o = is_entity o && removed s).
    { unfold should_placeholder, removed. destruct (is_entity o); [|reflexivity]. cbn.
      rewrite Hkey. assert (mem_str s refkeys = true) as -> by (apply mem_str_In; exact Hs).
      cbn. destruct (od_get str_eqb s nd) as [[?|]|]; reflexivity. }
    unfold san. rewrite Hsp. destruct (is_entity o) eqn:Ee; cbn [andb].
    + destruct (removed s) eqn:Er.
      * unfold placeholder. rewrite Ee. cbn. reflexivity.
      * assert (is_sticky o = false) as ->.
        { unfold is_entity in Ee. unfold is_sticky. destruct (c_kind o); try discriminate; reflexivity. }
        cbn. destruct (is_cent o); reflexivity.
    + pose proof (not_entity_not_cent o Ee) as Hoc. rewrite Hoc.
      destruct (is_sticky o); cbn; rewrite ?Hpc, ?Hoc; destruct (removed s); reflexivity.
Qed.

(* the entities of the output: one per reference key that has a value, in reference order *)
Theorem entities_eq : filter is_cent (prune_placeholders (dvalues M)) =
  flat_map (fun s => olist (value_of s)) refkeys.
Proof.
  rewrite prune_placeholders_cent, step123, step45, step6, flat_map_map.
  apply flat_map_ext_in. apply step7.
Qed.

Lemma value_of_key s e : value_of s = Some e -> is_cent e = true /\ c_key e = s.
Proof.
  unfold value_of, old_cent. destruct (find (has_key s) NL) as [e1|] eqn:E1.
  - intros H; inversion H; subst. destruct (find_has_key_some _ _ _ E1) as (Hin & _ & Hk).
    pose proof NL_cent as Hc. rewrite Forall_forall in Hc. auto.
  - destruct (removed s); [discriminate|].
    destruct (find (has_key s) (nj old)) as [o|] eqn:E2; [|discriminate].
    destruct (is_cent o) eqn:Ec; [|discriminate]. intros H; inversion H; subst.
    destruct (find_has_key_some _ _ _ E2) as (_ & _ & Hk). auto.
Qed.

Lemma entities_keys : map c_key (flat_map (fun s => olist (value_of s)) refkeys) =
  filter (fun s => match value_of s with Some _ => true | None => false end) refkeys.
Proof.
  induction refkeys as [|s l IH]; cbn; [reflexivity|]. rewrite map_app, IH.
  destruct (value_of s) as [e|] eqn:E; cbn; [|reflexivity].
  apply value_of_key in E. destruct E as [_ E]. rewrite E. reflexivity.
Qed.

(* which reference keys get an entity, in terms of new_data and the old localization *)
Definition has_value (s : str) : bool :=
  match od_get str_eqb s nd with
  | Some (Some _) => true
  | Some None => false
  | None => match old_cent s with Some _ => true | None => false end
  end.

Lemma value_of_cases s : In s refkeys ->
  match od_get str_eqb s nd with
  | Some (Some raw) => exists r e, od_get str_eqb s (ref_mapping reference) = Some r /\
                                   wrap r raw = Ok e /\ value_of s = Some e
  | Some None => value_of s = None
  | None => value_of s = old_cent s
  end.
Proof.
  intros Hs. pose proof (new_entities_find (ref_mapping reference) s rm_key nd NL Hnd HNL) as Hf.
  unfold value_of, removed. destruct (find (has_key s) NL) as [e|] eqn:En.
  - destruct Hf as (raw & r & F1 & F2 & F3). rewrite F1. exists r, e. auto.
  - destruct (od_get str_eqb s nd) as [[raw|]|] eqn:Ed; try reflexivity.
    exfalso. specialize (Hf raw eq_refl). destruct (rm_get_some s Hs) as [r Hr]. congruence.
Qed.

Lemma has_value_spec s : In s refkeys ->
  (match value_of s with Some _ => true | None => false end) = has_value s.
Proof.
  intros Hs. pose proof (value_of_cases s Hs) as H. unfold has_value.
  destruct (od_get str_eqb s nd) as [[raw|]|].
  - destruct H as (r & e & _ & _ & ->). reflexivity.
  - rewrite H. reflexivity.
  - rewrite H. reflexivity.
Qed.
End Spec.
