(* The re-parse clause of C04, conditional on a block-compositional parser:
   the localization is a list of blocks (entities with their attached comment,
   whitespace runs, junk regions), some of them flagged as skips; merge
   leaves exactly the unflagged blocks, a newline block and the
   newline-terminated reference texts.  What a parser makes of that text is
   the business of the per-format block theorem (C02), which is a hypothesis
   here. *)
From Coq Require Import NArith List Bool Arith Lia Permutation Sorted.
From CL Require Import Base.Sx Base.Res Base.Str Model.AddRemove Model.Merge Generated.C04Facts
  Proofs.MergeProofs.
Import ListNotations.
Local Open Scope nat_scope.

Section Blocks.
Context {K : Type} (keqb : K -> K -> bool).
Notation blk := (@blk K).

Lemma block_skips_spans : forall (bs : list blk) off,
  map sk_span (block_skips off bs) = map ospan_of (block_spans off (flags bs)).
Proof.
  induction bs as [|[[[k j]|] t] bs IH]; intro off; simpl; [reflexivity| |apply IH].
  now rewrite IH.
Qed.

Lemma block_skips_from : forall (bs : list blk) off,
  Forall (fun s => exists a, sk_start s = Some a /\ off <= a) (block_skips off bs).
Proof.
  induction bs as [|[[[k j]|] t] bs IH]; intro off; simpl; [constructor| |].
  - constructor; [exists off; split; [reflexivity|lia]|].
    eapply Forall_impl; [|apply (IH (off + length t))].
    intros s [a [Ha Hle]]. exists a. split; [exact Ha|lia].
  - eapply Forall_impl; [|apply (IH (off + length t))].
    intros s [a [Ha Hle]]. exists a. split; [exact Ha|lia].
Qed.

Lemma block_skips_sorted : forall (bs : list blk) off,
  StronglySorted start_le (block_skips off bs) /\ Forall has_start (block_skips off bs).
Proof.
  induction bs as [|[[[k j]|] t] bs IH]; intro off; simpl.
  - split; constructor.
  - destruct (IH (off + length t)) as [S F]. split.
    + constructor; [exact S|].
      eapply Forall_impl; [|apply (block_skips_from bs (off + length t))].
      intros s [a [Ha Hle]]. unfold start_le, sk_start in *. simpl. rewrite Ha. lia.
    + constructor; [now exists off|exact F].
  - apply IH.
Qed.

Lemma block_skips_nonempty : forall (bs : list blk) off,
  nonempty (block_skips off bs) = existsb flagged bs.
Proof.
  induction bs as [|[[[k j]|] t] bs IH]; intro off; simpl; [reflexivity|reflexivity|apply IH].
Qed.

(* what merge stages for a block-structured localization *)
Theorem merge_blocks : forall caps (bs : list blk) missing refs ms ss,
  has caps can_copy = false -> has caps can_skip = true -> has caps can_merge = true ->
  existsb flagged bs = true ->
  map_result (ref_all keqb refs) missing = Ok ms ->
  map_result (fun s => ref_all keqb refs (sk_key s)) (non_junk (block_skips 0 bs)) = Ok ss ->
  merge keqb true caps (l10n_text bs) (block_skips 0 bs) missing refs =
  Ok (Write (concat (kept_texts bs ++ [[10%N]] ++ map ensure_newline (ms ++ ss)))).
Proof.
  intros caps bs missing refs ms ss Hc Hs Hm Hf Hms Hss.
  destruct (block_skips_sorted bs 0) as [S F].
  rewrite (merge_append keqb caps (l10n_text bs) (block_skips 0 bs) missing refs
             (block_skips 0 bs) ms ss Hc Hs Hm); try assumption.
  - rewrite block_skips_nonempty, Hf. cbv zeta. do 2 f_equal.
    rewrite block_skips_spans. unfold l10n_text.
    replace (map snd bs) with (map snd (flags bs)).
    + rewrite remove_block_spans. rewrite !concat_app. simpl. reflexivity.
    + unfold flags. rewrite map_map. reflexivity.
  - now rewrite block_skips_nonempty, Hf.
  - now apply sort_skips_sorted.
Qed.

(* ---- conditional on a block-compositional parser -------------------------- *)
Context {E : Type} (parse : str -> list E) (entries : str -> list E) (legal : list str -> Prop).
Hypothesis parse_blocks : forall ts, legal ts -> parse (concat ts) = flat_map entries ts.

Theorem reparse_blocks : forall caps (bs : list blk) missing refs ms ss,
  has caps can_copy = false -> has caps can_skip = true -> has caps can_merge = true ->
  existsb flagged bs = true ->
  map_result (ref_all keqb refs) missing = Ok ms ->
  map_result (fun s => ref_all keqb refs (sk_key s)) (non_junk (block_skips 0 bs)) = Ok ss ->
  legal (kept_texts bs ++ [[10%N]] ++ map ensure_newline (ms ++ ss)) ->
  exists t, merge keqb true caps (l10n_text bs) (block_skips 0 bs) missing refs = Ok (Write t) /\
    parse t = flat_map entries (kept_texts bs) ++ entries [10%N] ++
              flat_map entries (map ensure_newline (ms ++ ss)).
Proof.
  intros caps bs missing refs ms ss Hc Hs Hm Hf Hms Hss Hl.
  exists (concat (kept_texts bs ++ [[10%N]] ++ map ensure_newline (ms ++ ss))).
  split; [apply merge_blocks; assumption|].
  rewrite (parse_blocks _ Hl). rewrite !flat_map_app. simpl. now rewrite app_nil_r.
Qed.

(* skip-only formats (Fluent, PO, Android): nothing is appended, the staged text is
   the unflagged blocks *)
Theorem merge_blocks_skip_only : forall caps (bs : list blk) missing refs,
  has caps can_copy = false -> has caps can_skip = true -> has caps can_merge = false ->
  existsb flagged bs = true ->
  merge keqb true caps (l10n_text bs) (block_skips 0 bs) missing refs =
  Ok (Write (concat (kept_texts bs))).
Proof.
  intros caps bs missing refs Hc Hs Hm Hf.
  destruct (block_skips_sorted bs 0) as [S F].
  rewrite (merge_skip_only keqb) by assumption.
  rewrite (has_not_none _ _ Hs), Hs. cbn [negb].
  pose proof (block_skips_nonempty bs 0) as Hn. rewrite Hf in Hn.
  destruct (block_skips 0 bs) as [|s0 rest] eqn:Ebs; [discriminate|].
  rewrite <- Ebs in *. rewrite (sort_skips_sorted _ S F). cbn [bind].
  do 2 f_equal. rewrite block_skips_spans. unfold l10n_text.
  replace (map snd bs) with (map snd (flags bs)).
  - apply remove_block_spans.
  - unfold flags. rewrite map_map. reflexivity.
Qed.

Theorem reparse_blocks_skip_only : forall caps (bs : list blk) missing refs,
  has caps can_copy = false -> has caps can_skip = true -> has caps can_merge = false ->
  existsb flagged bs = true ->
  legal (kept_texts bs) ->
  exists t, merge keqb true caps (l10n_text bs) (block_skips 0 bs) missing refs = Ok (Write t) /\
    parse t = flat_map entries (kept_texts bs).
Proof.
  intros caps bs missing refs Hc Hs Hm Hf Hl.
  exists (concat (kept_texts bs)). split; [now apply merge_blocks_skip_only|].
  now apply parse_blocks.
Qed.

End Blocks.
