(* For matchers of the grammar (MatcherSpec.simple) the regular expression the
   model compiles has an explicit shape: [simple_compile]. *)
From Coq Require Import NArith List Bool Arith Lia.
From CL Require Import Base.Sx Base.Res Base.Str Regex.Rx Regex.RxLemmas Regex.RxSem
  Model.Pattern Model.Matcher Proofs.MatcherBase Proofs.MatcherSpec.
Import ListNotations.

Definition var_body (e : env) (name : str) : list rx :=
  match lookup name e with
  | None => [rx_lazy_any]
  | Some v => match value_text v with Some t => map chr_lit t | None => [] end
  end.

Definition simple_items (e : env) (n : node) (c : cst) : list rx * cst :=
  match n with
  | NLit s => (map chr_lit s, c)
  | NVar name true => let (r, c') := back_ref name c in ([r], c')
  | NVar name false =>
      let (g, c1) := open_group name c in ([Grp g (cat_list (var_body e name))], c1)
  | NAndroid _ => ([], c)
  | NStar k => let (g, c1) := open_group (star_name k) c in ([Grp g rx_not_slash], c1)
  | NStarstar k suffix =>
      let (g, c1) := open_group (star_name k) c in
      ([Alt (Grp g (cat_list (rx_any_plus :: map chr_lit suffix))) Eps], c1)
  end.

Fixpoint simple_compile (e : env) (ns : list node) (c : cst) : list rx * cst :=
  match ns with
  | [] => ([], c)
  | n :: ns' =>
      let (a, c1) := simple_items e n c in
      let (b, c2) := simple_compile e ns' c1 in
      (a ++ b, c2)
  end.

Lemma rx_node_S : forall f e n c, rx_node (S f) e n c =
  match n with
  | NLit s => Ok (map chr_lit s, c)
  | NVar name true => let (r, c') := back_ref name c in Ok ([r], c')
  | NVar name false =>
      if negb (is_ascii name) then Raise NotSupported else
      named_group name c (fun c1 =>
        match lookup name e with
        | None => Ok ([rx_lazy_any], c1)
        | Some (EVLit s) => Ok (map chr_lit s, c1)
        | Some (EVPat p) =>
            let e' := remove name e in
            rx_pattern_with (expand_node (expand_fuel e') e' false) (rx_node f e') p c1
        end)
  | NAndroid true => let (r, c') := back_ref s_android_locale c in Ok ([r], c')
  | NAndroid false =>
      named_group s_android_locale c (fun c1 =>
        do a <- get_android_locale e;
        match a with
        | Some a => Ok (map chr_lit a, c1)
        | None => Ok ([rx_lazy_any], c1)
        end)
  | NStar k => named_group (star_name k) c (fun c1 => Ok ([rx_not_slash], c1))
  | NStarstar k suffix =>
      do (g, c') <- named_group (star_name k) c
                      (fun c1 => Ok (rx_any_plus :: map chr_lit suffix, c1));
      Ok ([Alt (cat_list g) Eps], c')
  end.
Proof. reflexivity. Qed.

Local Arguments rx_node : simpl never.
Local Arguments open_group : simpl never.
Local Arguments back_ref : simpl never.

Lemma rx_children_lits : forall f e ns c, forallb is_lit ns = true ->
  rx_children (rx_node (S f) e) ns c = Ok (map chr_lit (nodes_text ns), c).
Proof.
  induction ns as [|n ns IH]; intros c H; simpl in *; auto.
  apply andb_true_iff in H. destruct H as [H1 H2]. destruct n; try discriminate.
  rewrite rx_node_S. simpl. rewrite IH by auto. simpl. unfold nodes_text. simpl. rewrite map_app. reflexivity.
Qed.

Lemma rx_node_simple : forall f e n c, (f = 0 -> e = []) -> simple_node e n = true ->
  rx_node (S f) e n c = Ok (simple_items e n c).
Proof.
  intros f e n c Hf H. rewrite rx_node_S.
  destruct n as [s|name rep|rep|k|k suffix]; simpl in H.
  - reflexivity.
  - destruct rep; unfold simple_items.
    + destruct (back_ref name c). reflexivity.
    + apply andb_true_iff in H. destruct H as [H Hv].
      apply andb_true_iff in H. destruct H as [H Ha].
      apply andb_true_iff in H. destruct H as [Hasc Hval].
      rewrite Hasc. unfold negb, named_group, var_body.
      destruct (open_group name c) as [g c1].
      destruct (lookup name e) as [v|] eqn:El; [|reflexivity].
      destruct v as [s|p]; simpl in *; [reflexivity|].
      destruct (lit_only p) eqn:Elit; [|discriminate].
      unfold lit_only in Elit. apply andb_true_iff in Elit. destruct Elit as [E1 E2].
      destruct (p_root p) eqn:Er; [discriminate|].
      destruct f as [|f'].
      * rewrite (Hf eq_refl) in El. discriminate.
      * unfold rx_pattern_with. rewrite Er. simpl. rewrite rx_children_lits by auto. reflexivity.
  - discriminate.
  - unfold simple_items, named_group. destruct (open_group (star_name k) c). reflexivity.
  - unfold simple_items, named_group. destruct (open_group (star_name k) c). reflexivity.
Qed.

Lemma rx_children_simple : forall f e ns c, (f = 0 -> e = []) ->
  forallb (simple_node e) ns = true ->
  rx_children (rx_node (S f) e) ns c = Ok (simple_compile e ns c).
Proof.
  induction ns as [|n ns IH]; intros c Hf H; simpl in *; auto.
  apply andb_true_iff in H. destruct H as [H1 H2].
  rewrite rx_node_simple by auto. simpl.
  destruct (simple_items e n c) as [a c1]. rewrite IH by auto. simpl.
  destruct (simple_compile e ns c1). reflexivity.
Qed.

Lemma regex_of_simple : forall M, simple M ->
  regex_of_pattern (m_env M) (m_pat M) =
  let (items, c) := simple_compile (m_env M) (p_nodes (m_pat M)) (mkcst 1 [] false) in
  if c_err c then Raise ReError else Ok (cat_list (items ++ [Eol false]), c_names c).
Proof.
  intros M [Hs [Hr Hn]]. unfold regex_of_pattern, rx_pattern_with, rx_fuel. rewrite Hr. simpl.
  rewrite rx_children_simple; auto.
  - simpl. destruct (simple_compile _ _ _). reflexivity.
  - intro H. destruct (m_env M); [auto|discriminate].
Qed.

(* ---- the deferred error flag only ever rises ------------------------------------ *)
Lemma simple_items_err : forall e n c, c_err c = true -> c_err (snd (simple_items e n c)) = true.
Proof.
  intros e n c H. destruct n as [s|name [|]|rep|k|k suffix]; simpl; auto.
  - unfold back_ref. destruct (lookup name (c_names c)); simpl; auto.
  - rewrite H. reflexivity.
  - rewrite H. reflexivity.
  - rewrite H. reflexivity.
Qed.

Lemma simple_compile_err : forall e ns c, c_err c = true -> c_err (snd (simple_compile e ns c)) = true.
Proof.
  induction ns as [|n ns IH]; intros c H; simpl; auto.
  pose proof (simple_items_err e n c H) as H1.
  destruct (simple_items e n c) as [a c1]. simpl in H1.
  pose proof (IH c1 H1) as H2. destruct (simple_compile e ns c1) as [b c2]. auto.
Qed.
