From Coq Require Import ZArith NArith List Bool Arith Lia.
From CL Require Import Base.Sx Base.Res Model.LineCol.
Import ListNotations.
Local Arguments N.eqb : simpl never.
Local Arguments Nat.leb : simpl never.
Local Arguments Nat.ltb : simpl never.

Definition count_le (x : nat) (a : list nat) : nat :=
  length (filter (fun y => y <=? x) a).

Definition sorted (a : list nat) : Prop :=
  forall i j, i < j -> j < length a -> nth i a 0 <= nth j a 0.

Lemma count_le_split x a lo :
  lo <= length a ->
  (forall i, i < lo -> nth i a 0 <= x) ->
  (forall i, lo <= i -> i < length a -> x < nth i a 0) ->
  count_le x a = lo.
Proof.
  revert lo; induction a as [|y a IH]; intros lo Hlo Hlt Hge; cbn in *.
  - lia.
  - destruct lo as [|lo].
    + pose proof (Hge 0 (le_n 0)) as Hge0. cbn in Hge0.
      assert (y <=? x = false) as -> by (apply Nat.leb_gt; apply Hge0; lia).
      apply (IH 0); [lia|intros; lia|].
      intros i _ Hi. apply (Hge (S i)); lia.
    + assert (y <=? x = true) as -> by (apply Nat.leb_le; apply (Hlt 0); lia).
      cbn. f_equal. apply IH; [lia| |].
      * intros i Hi. apply (Hlt (S i)); lia.
      * intros i H1 H2. apply (Hge (S i)); lia.
Qed.

Lemma bisect_loop_correct fuel a x lo hi :
  sorted a -> lo <= hi -> hi <= length a -> hi - lo < fuel ->
  (forall i, i < lo -> nth i a 0 <= x) ->
  (forall i, hi <= i -> i < length a -> x < nth i a 0) ->
  bisect_loop fuel a x lo hi = Some (count_le x a).
Proof.
  intros Hs. revert lo hi; induction fuel as [|f IH]; intros lo hi Hle Hhi Hf Hlo Hge.
  - lia.
  - cbn [bisect_loop]. destruct (lo <? hi) eqn:E.
    + apply Nat.ltb_lt in E.
      assert (Hmid : lo <= (lo + hi) / 2 < hi).
      { split; [apply Nat.div_le_lower_bound; lia|apply Nat.div_lt_upper_bound; lia]. }
      destruct (x <? nth ((lo + hi) / 2) a 0) eqn:Ex.
      * apply Nat.ltb_lt in Ex. apply IH; try lia; [exact Hlo|].
        intros i H1 H2. destruct (Nat.eq_dec i ((lo + hi) / 2)) as [->|Hne]; [exact Ex|].
        specialize (Hs ((lo + hi) / 2) i). lia.
      * apply Nat.ltb_ge in Ex. apply IH; try lia; [|exact Hge].
        intros i Hi. destruct (Nat.eq_dec i ((lo + hi) / 2)) as [->|Hne]; [exact Ex|].
        specialize (Hs i ((lo + hi) / 2)). lia.
    + apply Nat.ltb_ge in E. assert (lo = hi) by lia. subst hi.
      f_equal. symmetry. apply count_le_split; assumption.
Qed.

Lemma bisect_correct a x : sorted a -> bisect a x = Some (count_le x a).
Proof.
  intros Hs. unfold bisect. apply bisect_loop_correct; try lia; try exact Hs; intros; lia.
Qed.

(* ---- line ends --------------------------------------------------------- *)
Lemma line_ends_from_gt i s : Forall (fun e => i < e) (line_ends_from i s).
Proof.
  revert i; induction s as [|c s IH]; intros i; cbn; [constructor|].
  destruct (N.eqb c nl).
  - constructor; [lia|]. eapply Forall_impl; [|apply IH]. cbn; intros; lia.
  - eapply Forall_impl; [|apply IH]. cbn; intros; lia.
Qed.

Lemma line_ends_from_sorted i s : sorted (line_ends_from i s).
Proof.
  revert i; induction s as [|c s IH]; intros i; cbn.
  - intros a b _ H; cbn in H; lia.
  - destruct (N.eqb c nl); [|apply IH].
    intros a b Hab Hb. cbn in Hb. destruct b as [|b]; [lia|]. destruct a as [|a]; cbn.
    + pose proof (line_ends_from_gt (S i) s) as Hg. rewrite Forall_forall in Hg.
      assert (S i < nth b (line_ends_from (S i) s) 0); [|lia].
      apply Hg. apply nth_In. lia.
    + apply IH; lia.
Qed.

Lemma filter_le_none i p s : p <= i -> filter (fun y => y <=? p) (line_ends_from i s) = [].
Proof.
  intros H. pose proof (line_ends_from_gt i s) as Hg.
  induction (line_ends_from i s) as [|e l IH]; cbn; [reflexivity|].
  inversion Hg; subst. assert (e <=? p = false) as -> by (apply Nat.leb_gt; lia).
  apply IH; assumption.
Qed.

Lemma count_le_line_ends i s p :
  i <= p -> count_le p (line_ends_from i s) = count_nl (firstn (p - i) s).
Proof.
  revert i; induction s as [|c s IH]; intros i Hip; cbn.
  - rewrite firstn_nil. reflexivity.
  - destruct (Nat.eq_dec p i) as [->|Hne].
    + rewrite Nat.sub_diag. cbn. unfold count_le.
      pose proof (filter_le_none i i (c :: s) (le_n i)) as H. cbn in H. rewrite H. reflexivity.
    + replace (p - i) with (S (p - S i)) by lia. cbn. unfold count_nl in *. cbn.
      unfold is_nl. destruct (N.eqb c nl); unfold count_le in *; cbn.
      * assert (S i <=? p = true) as -> by (apply Nat.leb_le; lia). cbn. f_equal. apply IH. lia.
      * apply IH. lia.
Qed.

Lemma last_cons {T} (x : T) l d : last (x :: l) d = last l x.
Proof.
  revert x d; induction l as [|y l IH]; intros x d; [reflexivity|].
  change (last (x :: y :: l) d) with (last (y :: l) d).
  rewrite (IH y d), (IH y x). reflexivity.
Qed.

Lemma linestart_cur i d s p :
  d <= i -> i <= p -> p <= i + length s ->
  p - last (filter (fun y => y <=? p) (line_ends_from i s)) d = cur (i - d) (firstn (p - i) s).
Proof.
  revert i d; induction s as [|c s IH]; intros i d Hd Hip Hp.
  - cbn in *. rewrite firstn_nil. cbn. lia.
  - destruct (Nat.eq_dec p i) as [->|Hne].
    + rewrite Nat.sub_diag. rewrite filter_le_none by lia. cbn. reflexivity.
    + replace (p - i) with (S (p - S i)) by lia. cbn [firstn cur line_ends_from].
      cbn in Hp. destruct (N.eqb c nl).
      * cbn [filter]. assert (S i <=? p = true) as -> by (apply Nat.leb_le; lia).
        rewrite last_cons. rewrite (IH (S i) (S i)) by lia. rewrite Nat.sub_diag. reflexivity.
      * rewrite (IH (S i) d) by lia. replace (S i - d) with (S (i - d)) by lia. reflexivity.
Qed.

Lemma filter_le_firstn a p :
  sorted a -> filter (fun y => y <=? p) a = firstn (count_le p a) a.
Proof.
  induction a as [|x a IH]; intros Hs; [reflexivity|].
  assert (Hs' : sorted a).
  { intros i j Hij Hj. apply (Hs (S i) (S j)); cbn; lia. }
  unfold count_le in *. cbn. destruct (x <=? p) eqn:E.
  - cbn. f_equal. apply IH; exact Hs'.
  - (* everything after is larger too *)
    assert (Hnone : filter (fun y => y <=? p) a = []).
    { apply Nat.leb_gt in E. clear IH. 
      assert (Hall : forall j, j < length a -> p < nth j a 0).
      { intros j Hj. specialize (Hs 0 (S j)). cbn in Hs. specialize (Hs ltac:(lia) ltac:(lia)). lia. }
      clear Hs Hs'. induction a as [|y a IHa]; [reflexivity|]. cbn.
      assert (y <=? p = false) as ->.
      { apply Nat.leb_gt. apply (Hall 0). cbn; lia. }
      apply IHa. intros j Hj. apply (Hall (S j)). cbn; lia. }
    rewrite Hnone. reflexivity.
Qed.

Lemma last_firstn_nth (a : list nat) k d :
  k < length a -> last (firstn (S k) a) d = nth k a 0.
Proof.
  revert k d; induction a as [|x a IH]; intros k d Hk; cbn in Hk; [lia|].
  destruct k as [|k].
  - cbn. reflexivity.
  - change (firstn (S (S k)) (x :: a)) with (x :: firstn (S k) a).
    rewrite last_cons. cbn [nth]. apply IH. lia.
Qed.

Lemma count_le_bound p a : count_le p a <= length a.
Proof.
  unfold count_le. induction a as [|y a IH]; cbn; [lia|].
  destruct (y <=? p); cbn; lia.
Qed.

Theorem linecol_spec s p :
  p <= length s ->
  linecol s p = Some (1 + count_nl (firstn p s), 1 + cur 0 (firstn p s)).
Proof.
  intros Hp. unfold linecol, line_ends.
  rewrite (bisect_correct _ _ (line_ends_from_sorted 0 s)).
  pose proof (count_le_line_ends 0 s p (Nat.le_0_l p)) as Hc. rewrite Nat.sub_0_r in Hc.
  pose proof (linestart_cur 0 0 s p (le_n 0) (Nat.le_0_l p) Hp) as Hl.
  replace (p - 0) with p in Hl by lia. replace (0 - 0) with 0 in Hl by lia.
  rewrite (filter_le_firstn _ p (line_ends_from_sorted 0 s)) in Hl.
  pose proof (count_le_bound p (line_ends_from 0 s)) as Hb.
  rewrite <- Hc. destruct (count_le p (line_ends_from 0 s)) as [|k] eqn:Ek.
  - cbn in Hl. rewrite <- Hl. f_equal. f_equal; lia.
  - rewrite last_firstn_nth in Hl by lia. rewrite <- Hl. f_equal. f_equal; lia.
Qed.

(* ---- the (line, column) pair identifies the character at the offset ---- *)
Lemma cur_acc n pre :
  cur n pre = if count_nl pre =? 0 then n + length pre else cur 0 pre.
Proof.
  revert n; induction pre as [|c pre IH]; intros n; cbn; [lia|].
  unfold count_nl in *. cbn. change (N.eqb c nl) with (is_nl c). destruct (is_nl c); cbn.
  - reflexivity.
  - rewrite (IH (S n)), (IH 1). destruct (length (filter is_nl pre) =? 0); lia.
Qed.

Lemma split_nl_nonempty s : split_nl s <> [].
Proof.
  destruct s as [|c s]; cbn; [discriminate|].
  destruct (split_nl s); [discriminate|]. destruct (N.eqb c nl); discriminate.
Qed.

Theorem pos_of_linecol s p :
  p <= length s ->
  let L := count_nl (firstn p s) in
  let C := cur 0 (firstn p s) in
  pos_of (split_nl s) L C = p /\ L < length (split_nl s) /\
  C <= length (nth L (split_nl s) []).
Proof.
  revert p; induction s as [|c s IH]; intros p Hp.
  - cbn in Hp. assert (p = 0) by lia. subst. cbn. lia.
  - destruct p as [|p]; [cbn; destruct (split_nl s); [|destruct (N.eqb c nl)]; cbn; lia|].
    cbn in Hp. specialize (IH p ltac:(lia)). cbn zeta in IH.
    destruct IH as (IH1 & IH2 & IH3).
    cbn [firstn split_nl]. pose proof (split_nl_nonempty s) as Hne.
    destruct (split_nl s) as [|l ls] eqn:Es; [contradiction|].
    unfold count_nl in *. cbn [filter cur]. change (N.eqb c nl) with (is_nl c).
    destruct (is_nl c); cbn [length].
    + set (L := length (filter is_nl (firstn p s))) in *.
      set (C := cur 0 (firstn p s)) in *.
      change (pos_of ([] :: l :: ls) (S L) C) with (S (pos_of (l :: ls) L C)).
      change (nth (S L) ([] :: l :: ls) []) with (nth L (l :: ls) []).
      cbn [length] in *. lia.
    + rewrite (cur_acc 1). unfold count_nl.
      destruct (length (filter is_nl (firstn p s))) as [|L'] eqn:EL.
      * cbn [Nat.eqb pos_of nth length]. cbn [pos_of nth] in IH1, IH3.
        rewrite (cur_acc 0) in IH1, IH3. unfold count_nl in IH1, IH3. rewrite EL in IH1, IH3.
        cbn in IH1, IH3. cbn. lia.
      * cbn [Nat.eqb pos_of nth length]. cbn [pos_of nth length] in IH1, IH2, IH3.
        lia.
Qed.
