(* Lemmas for C05 (Model/Robust.v). *)
From Coq Require Import ZArith NArith List Bool Arith Lia.
From CL Require Import Base.Sx Base.Res Base.Str Regex.Rx Regex.RxLemmas
  Generated.RxC05 Generated.C05Facts Model.LineCol Proofs.LineColProofs Model.Robust.
Import ListNotations.
Local Arguments N.eqb : simpl never.
Local Arguments Nat.leb : simpl never.
Local Arguments Nat.ltb : simpl never.
Local Arguments Nat.eqb : simpl never.

(* ---- finditer of a one-character class -------------------------------------- *)
Section Chr.
Variables (neg : bool) (rs : cset).

Fixpoint first_hit (t : list N) : option nat :=
  match t with
  | [] => None
  | c :: t' => if chr_ok neg rs c then Some 0
               else match first_hit t' with Some i => Some (S i) | None => None end
  end.

Fixpoint hits (p : nat) (t : list N) : list nat :=
  match t with
  | [] => []
  | c :: t' => if chr_ok neg rs c then p :: hits (S p) t' else hits (S p) t'
  end.

Lemma first_hit_lt : forall t i, first_hit t = Some i -> i < length t.
Proof.
  induction t as [|c t IH]; intros i H; cbn in *; [discriminate|].
  destruct (chr_ok neg rs c).
  - inversion H; lia.
  - destruct (first_hit t) as [j|]; [|discriminate]. inversion H; subst.
    specialize (IH j eq_refl). lia.
Qed.

Lemma hits_none : forall t p, first_hit t = None -> hits p t = [].
Proof.
  induction t as [|c t IH]; intros p H; cbn in *; [reflexivity|].
  destruct (chr_ok neg rs c); [discriminate|].
  destruct (first_hit t); [discriminate|]. apply IH; reflexivity.
Qed.

Lemma hits_first : forall t p i, first_hit t = Some i ->
  hits p t = (p + i) :: hits (p + S i) (skipn (S i) t).
Proof.
  induction t as [|c t IH]; intros p i H; cbn in H; [discriminate|].
  cbn [hits]. destruct (chr_ok neg rs c).
  - inversion H; subst. cbn [skipn]. f_equal; [lia|]. f_equal; lia.
  - destruct (first_hit t) as [j|] eqn:E; [|discriminate]. inversion H; subst.
    rewrite (IH (S p) j eq_refl). cbn [skipn]. f_equal; [lia|]. f_equal; lia.
Qed.

Lemma search_from_chr : forall fuel z, length (suf z) < fuel ->
  search_from (Chr neg rs) fuel z None =
  match first_hit (suf z) with
  | None => MNone
  | Some i => MSome (mkres (pos z + i) (S (pos z + i)) (caps z))
  end.
Proof.
  induction fuel as [|f IH]; intros z Hf; [lia|].
  rewrite search_from_S. unfold run_at. cbn [m].
  destruct (suf z) as [|c t] eqn:Hs; cbn [first_hit]; [reflexivity|].
  destruct (chr_ok neg rs c).
  - cbn. rewrite Nat.add_0_r. reflexivity.
  - rewrite IH by (cbn in *; lia). cbn.
    destruct (first_hit t) as [i|]; [|reflexivity].
    f_equal. f_equal; lia.
Qed.

Lemma fwd_suf : forall n z, suf (fwd n z) = skipn n (suf z).
Proof.
  induction n as [|n IH]; intros z; cbn; [reflexivity|].
  destruct (suf z) as [|c t] eqn:Hs.
  - rewrite Hs. reflexivity.
  - rewrite IH. reflexivity.
Qed.

Lemma finditer_chr : forall fuel z, length (suf z) < fuel ->
  exists l, finditer_from (Chr neg rs) fuel z None = Some l /\
            map m_start l = hits (pos z) (suf z) /\
            Forall (fun x => m_end x = S (m_start x)) l.
Proof.
  induction fuel as [|f IH]; intros z Hf; [lia|].
  rewrite finditer_from_S. rewrite search_from_chr by lia.
  destruct (first_hit (suf z)) as [i|] eqn:E.
  - pose proof (first_hit_lt _ _ E) as Hi.
    cbn [m_start m_end].
    assert (Hne : Nat.eqb (pos z + i) (S (pos z + i)) = false) by (apply Nat.eqb_neq; lia).
    rewrite Hne.
    replace (S (pos z + i) - pos z) with (S i) by lia.
    set (z0 := mkst (pre z) (suf z) (pos z) []).
    destruct (fwd_spec (S i) z0) as [Hp Hl]; [cbn; lia|].
    destruct (IH (fwd (S i) z0)) as [l [H1 [H2 H3]]].
    { rewrite Hl. cbn. lia. }
    rewrite H1. eexists; split; [reflexivity|]. split.
    + cbn [map m_start]. rewrite H2, Hp, fwd_suf. cbn [z0 pos suf].
      symmetry. apply hits_first. exact E.
    + constructor; [reflexivity|exact H3].
  - exists []. split; [reflexivity|]. split; [|constructor].
    cbn. symmetry. apply hits_none. exact E.
Qed.

Lemma rfinditer_chr : forall s,
  exists l, rfinditer (Chr neg rs) s = Some l /\ map m_start l = hits 0 s /\
            Forall (fun x => m_end x = S (m_start x)) l.
Proof.
  intros s. unfold rfinditer.
  destruct (finditer_chr (2 * length s + 2) (st_at s 0)) as [l [H1 [H2 H3]]].
  { rewrite st_at_suf_len. lia. }
  exists l. split; [exact H1|]. split; [|exact H3].
  rewrite H2. unfold st_at. cbn. reflexivity.
Qed.
End Chr.

Lemma chr_ok_single : forall a c, chr_ok false [(a, a)] c = N.eqb c a.
Proof.
  intros a c. unfold chr_ok, in_ranges. cbn.
  rewrite orb_false_r. destruct (N.eqb_spec c a) as [->|Hne].
  - rewrite N.leb_refl. reflexivity.
  - destruct (N.leb_spec a c), (N.leb_spec c a); cbn; try reflexivity. lia.
Qed.

Lemma hits_single : forall a t p, hits false [(a, a)] p t = occurrences a p t.
Proof.
  intros a. induction t as [|c t IH]; intros p; cbn [hits occurrences]; [reflexivity|].
  rewrite chr_ok_single, IH. reflexivity.
Qed.

(* the generated regex is the one-character class of the generated code point *)
Lemma mochibake_shape : rx_c05_mochibake = Chr false [(c05_fffd, c05_fffd)].
Proof. reflexivity. Qed.

Lemma occurrences_length : forall c s p, length (occurrences c p s) = count_char c s.
Proof.
  intros c. induction s as [|d s IH]; intros p; [reflexivity|].
  unfold count_char in *. cbn. rewrite (N.eqb_sym c d).
  destruct (N.eqb d c); cbn; rewrite IH; reflexivity.
Qed.

Lemma occurrences_nth : forall c s p off, In off (occurrences c p s) ->
  exists i, off = p + i /\ nth_error s i = Some c.
Proof.
  intros c. induction s as [|d s IH]; intros p off H; cbn in H; [contradiction|].
  destruct (N.eqb_spec d c) as [->|Hne].
  - destruct H as [<-|H].
    + exists 0. split; [lia|reflexivity].
    + destruct (IH _ _ H) as [i [-> Hi]]. exists (S i). split; [lia|exact Hi].
  - destruct (IH _ _ H) as [i [-> Hi]]. exists (S i). split; [lia|exact Hi].
Qed.

(* ---- Checker.check -------------------------------------------------------------- *)
Definition is_encoding_finding (key : str) (f : finding) : Prop :=
  f_error f = c05_enc_is_error /\ f_msg f = render c05_enc_msg [key] /\ f_cat f = c05_enc_cat.

Lemma encoding_findings_spec : forall all key,
  exists fs, encoding_findings all key = Ok fs /\
             map f_pos fs = map EntPos (occurrences c05_fffd 0 all) /\
             Forall (is_encoding_finding key) fs.
Proof.
  intros all key. unfold encoding_findings, finditer. rewrite mochibake_shape.
  destruct (rfinditer_chr false [(c05_fffd, c05_fffd)] all) as [l [H1 [H2 _]]].
  rewrite H1. cbn [bind]. eexists; split; [reflexivity|]. split.
  - rewrite map_map. cbn [f_pos]. rewrite <- hits_single, <- H2, map_map. reflexivity.
  - apply Forall_forall. intros f Hf. apply in_map_iff in Hf. destruct Hf as [x [<- _]].
    repeat split.
Qed.

(* ---- positions ---------------------------------------------------------------------- *)
Definition line_start (s : str) (k : nat) : nat :=
  match k with O => 0 | S k' => nth k' (line_ends s) 0 end.

(* for EVERY offset (also beyond the end of the text): the search terminates,
   line and column are >= 1, and the start of the line found is not after the
   offset (so the subtraction in the column is the integer subtraction) *)
Lemma linecol_any : forall s p,
  exists k, linecol s p = Some (k + 1, p - line_start s k + 1) /\ line_start s k <= p.
Proof.
  intros s p. unfold linecol, line_ends.
  rewrite (bisect_correct _ _ (line_ends_from_sorted 0 s)).
  set (a := line_ends_from 0 s). exists (count_le p a). split; [reflexivity|].
  unfold line_start, line_ends. fold a.
  destruct (count_le p a) as [|k] eqn:Ek; [lia|].
  pose proof (filter_le_firstn a p (line_ends_from_sorted 0 s)) as Hf. rewrite Ek in Hf.
  pose proof (count_le_bound p a) as Hb. rewrite Ek in Hb.
  assert (Hin : In (nth k a 0) (firstn (S k) a)).
  { rewrite <- (last_firstn_nth a k 0) by lia.
    assert (Hne : firstn (S k) a <> []).
    { destruct a; [cbn in Hb; lia|discriminate]. }
    clear -Hne. induction (firstn (S k) a) as [|x l IH]; [congruence|].
    destruct l as [|y l]; [left; reflexivity|]. right. apply IH. discriminate. }
  rewrite <- Hf in Hin. apply filter_In in Hin. destruct Hin as [_ Hle].
  apply Nat.leb_le in Hle. exact Hle.
Qed.

Lemma linecol_one_based : forall s p l c, linecol s p = Some (l, c) -> 1 <= l /\ 1 <= c.
Proof.
  intros s p l c H. destruct (linecol_any s p) as [k [Hk _]]. rewrite Hk in H.
  inversion H; subst. lia.
Qed.

Lemma resolve_entpos : forall s e off,
  resolve s e (EntPos off) = of_opt (linecol s (fst (e_span e) + off)).
Proof.
  intros s e off. unfold resolve, position.
  assert (H : (Z.of_nat off <? 0)%Z = false) by (apply Z.ltb_ge; lia).
  rewrite H, Nat2Z.id. reflexivity.
Qed.

(* ---- mapM ------------------------------------------------------------------------------ *)
Lemma mapM_ok : forall {A B} (f : A -> result B) (P : A -> B -> Prop) l,
  (forall x, In x l -> exists y, f x = Ok y /\ P x y) ->
  exists ys, mapM f l = Ok ys /\ Forall2 P l ys.
Proof.
  intros A B f P. induction l as [|x l IH]; intros H.
  - exists []. split; [reflexivity|constructor].
  - destruct (H x (or_introl eq_refl)) as [y [Hy Py]].
    destruct IH as [ys [Hys Pys]]; [intros x' Hx'; apply H; right; exact Hx'|].
    exists (y :: ys). cbn. rewrite Hy. cbn. rewrite Hys. cbn. split; [reflexivity|].
    constructor; assumption.
Qed.

(* ---- one entity --------------------------------------------------------------------------- *)
(* what is reported for the occurrence at offset [off] of entity.all *)
Definition reports (s : str) (e : ent) (off : nat) (x : entry) : Prop :=
  linecol s (fst (e_span e) + off) = Some (d_line x, d_col x) /\
  1 <= d_line x /\ 1 <= d_col x /\
  d_error x = c05_enc_is_error /\ d_msg x = render c05_enc_msg [ent_key s e].

Lemma check_entity_spec : forall s e,
  exists es, check_entity s e = Ok es /\
             Forall2 (reports s e) (occurrences c05_fffd 0 (ent_all s e)) es.
Proof.
  intros s e. unfold check_entity.
  destruct (encoding_findings_spec (ent_all s e) (ent_key s e)) as [fs [H1 [H2 H3]]].
  rewrite H1. cbn [bind]. unfold resolve_all.
  set (P := fun (f : finding) (x : entry) =>
              exists off, f_pos f = EntPos off /\ reports s e off x).
  destruct (mapM_ok (fun f => do lc <- resolve s e (f_pos f);
                              Ok (mk_entry (f_error f) (fst lc) (snd lc) (f_msg f))) P fs)
    as [es [Hes HP]].
  { intros f Hf.
    assert (Hpos : In (f_pos f) (map EntPos (occurrences c05_fffd 0 (ent_all s e)))).
    { rewrite <- H2. apply in_map. exact Hf. }
    apply in_map_iff in Hpos. destruct Hpos as [off [Hoff _]].
    rewrite Forall_forall in H3. destruct (H3 f Hf) as [E1 [E2 _]].
    rewrite <- Hoff, resolve_entpos.
    destruct (linecol_any s (fst (e_span e) + off)) as [k [Hk _]].
    rewrite Hk. cbn. eexists; split; [reflexivity|].
    exists off. split; [symmetry; exact Hoff|]. unfold reports. cbn.
    rewrite Hk. repeat split; try lia; assumption. }
  exists es. split; [exact Hes|].
  (* transport Forall2 along map f_pos fs = map EntPos occurrences *)
  clear Hes H1 H3. revert es HP H2.
  generalize (occurrences c05_fffd 0 (ent_all s e)) as offs.
  induction fs as [|f fs IH]; intros offs es HP H2; inversion HP; subst.
  - destruct offs; [constructor|discriminate].
  - destruct offs as [|o offs]; [discriminate|]. cbn in H2. inversion H2; subst.
    constructor.
    + destruct H1 as [off [Hoff Hr]]. rewrite H0 in Hoff. inversion Hoff; subst. exact Hr.
    + apply IH; assumption.
Qed.

Lemma Forall2_length' : forall {A B} (P : A -> B -> Prop) l l', Forall2 P l l' -> length l = length l'.
Proof. intros A B P l l' H. induction H; cbn; congruence. Qed.

(* an entity without a pre-comment that lies inside the text: every reported
   position is the position of a U+FFFD character of the file *)
Lemma nth_error_firstn_some : forall {T} n (t : list T) i c,
  nth_error (firstn n t) i = Some c -> nth_error t i = Some c.
Proof.
  intros T. induction n as [|n IH]; intros t i c H; cbn in H.
  - destruct i; discriminate.
  - destruct t as [|d t]; [destruct i; discriminate|].
    destruct i as [|i]; cbn in *; [exact H|]. apply IH. exact H.
Qed.

Lemma nth_error_skipn_add : forall {T} a (s : list T) i,
  nth_error (skipn a s) i = nth_error s (a + i).
Proof.
  intros T. induction a as [|a IH]; intros s i; [reflexivity|].
  destruct s as [|d s]; cbn; [destruct i; reflexivity|]. apply IH.
Qed.

Lemma nth_error_slice : forall (s : str) a b i c,
  nth_error (slice s a b) i = Some c -> nth_error s (a + i) = Some c.
Proof.
  intros s a b i c H. unfold slice in H. apply nth_error_firstn_some in H.
  rewrite nth_error_skipn_add in H. exact H.
Qed.

Lemma check_entity_points : forall s e es,
  e_start e = fst (e_span e) -> check_entity s e = Ok es ->
  Forall (fun x => exists p, nth_error s p = Some c05_fffd /\
                             linecol s p = Some (d_line x, d_col x) /\
                             d_line x = 1 + count_nl (firstn p s) /\
                             d_col x = 1 + cur 0 (firstn p s)) es.
Proof.
  intros s e es Hst H. destruct (check_entity_spec s e) as [es' [H' HF]].
  rewrite H in H'. inversion H'; subst es'. clear H' H.
  assert (Hocc : forall off, In off (occurrences c05_fffd 0 (ent_all s e)) ->
                 nth_error s (fst (e_span e) + off) = Some c05_fffd).
  { intros off Hin. destruct (occurrences_nth _ _ _ _ Hin) as [i [-> Hi]].
    unfold ent_all in Hi. rewrite Hst in Hi. apply nth_error_slice in Hi. exact Hi. }
  revert HF Hocc. generalize (occurrences c05_fffd 0 (ent_all s e)) as offs0. intros offs0 HF.
  induction HF as [|off x offs es Hr HF IH]; intros Hocc; constructor.
  - destruct Hr as [Hl _]. exists (fst (e_span e) + off).
    pose proof (Hocc off (or_introl eq_refl)) as Hn. split; [exact Hn|]. split; [exact Hl|].
    assert (Hle : fst (e_span e) + off <= length s).
    { apply Nat.lt_le_incl. apply nth_error_Some. rewrite Hn. discriminate. }
    rewrite (linecol_spec s _ Hle) in Hl. inversion Hl. split; reflexivity.
  - apply IH. intros o Ho. apply Hocc. right. exact Ho.
Qed.

(* ---- the formatting branch -------------------------------------------------------------------- *)
Definition detail_of (s : str) (e : ent) (d : bool * str) : Prop :=
  exists x off, In off (occurrences c05_fffd 0 (ent_all s e)) /\ reports s e off x /\
                d = (d_error x, compare_message x (ent_key s e)).

Lemma Forall2_in_r : forall {A B} (P : A -> B -> Prop) l l' y,
  Forall2 P l l' -> In y l' -> exists x, In x l /\ P x y.
Proof.
  intros A B P l l' y H. induction H as [|a b l l' Hab H IH]; intros Hin; [contradiction|].
  destruct Hin as [<-|Hin].
  - exists a. split; [left; reflexivity|exact Hab].
  - destruct (IH Hin) as [x [Hx Px]]. exists x. split; [right; exact Hx|exact Px].
Qed.

Fixpoint total_fffd (s : str) (es : list ent) : nat :=
  match es with
  | [] => 0
  | e :: es' => count_char c05_fffd (ent_all s e) + total_fffd s es'
  end.

Lemma compare_details_spec : forall s shared,
  exists ds, compare_details s shared = Ok ds /\
             length ds = total_fffd s shared /\
             Forall (fun d => exists e, In e shared /\ detail_of s e d) ds.
Proof.
  intros s shared. unfold compare_details.
  set (f := fun e => do es <- check_entity s e;
                     Ok (map (fun x => (d_error x, compare_message x (ent_key s e))) es)).
  set (P := fun (e : ent) (ds : list (bool * str)) =>
              length ds = count_char c05_fffd (ent_all s e) /\ Forall (detail_of s e) ds).
  destruct (mapM_ok f P shared) as [xs [Hxs HP]].
  { intros e _. unfold f. destruct (check_entity_spec s e) as [es [H1 H2]]. rewrite H1. cbn.
    eexists; split; [reflexivity|]. split.
    - rewrite map_length, <- (Forall2_length' _ _ _ H2). apply occurrences_length.
    - apply Forall_forall. intros d Hd. apply in_map_iff in Hd. destruct Hd as [x [<- Hx]].
      destruct (Forall2_in_r _ _ _ _ H2 Hx) as [off [Hoff Hr]].
      exists x, off. split; [exact Hoff|]. split; [exact Hr|reflexivity]. }
  rewrite Hxs. cbn [bind]. eexists; split; [reflexivity|].
  clear Hxs. induction HP as [|e ds es xs [Hl Hd] HP [IH1 IH2]]; cbn.
  - split; [reflexivity|constructor].
  - split.
    + rewrite app_length, Hl, IH1. reflexivity.
    + apply Forall_app. split.
      * eapply Forall_impl; [|exact Hd]. intros d Hdd. exists e. split; [left; reflexivity|exact Hdd].
      * eapply Forall_impl; [|exact IH2]. intros d [e' [He' Hdd]]. exists e'. split; [right|]; assumption.
Qed.

Lemma lint_details_spec : forall s every,
  exists xs, lint_details s every = Ok xs /\
             length xs = total_fffd s every /\
             Forall (fun x => exists e off, In e every /\ reports s e off x) xs.
Proof.
  intros s every. unfold lint_details.
  set (P := fun (e : ent) (xs : list entry) =>
              length xs = count_char c05_fffd (ent_all s e) /\
              Forall (fun x => exists off, reports s e off x) xs).
  destruct (mapM_ok (check_entity s) P every) as [xs [Hxs HP]].
  { intros e _. destruct (check_entity_spec s e) as [es [H1 H2]]. exists es. split; [exact H1|].
    split.
    - rewrite <- (Forall2_length' _ _ _ H2). apply occurrences_length.
    - apply Forall_forall. intros x Hx. destruct (Forall2_in_r _ _ _ _ H2 Hx) as [off [_ Hr]].
      exists off. exact Hr. }
  rewrite Hxs. cbn [bind]. eexists; split; [reflexivity|].
  clear Hxs. induction HP as [|e ds es xs [Hl Hd] HP [IH1 IH2]]; cbn.
  - split; [reflexivity|constructor].
  - split.
    + rewrite app_length, Hl, IH1. reflexivity.
    + apply Forall_app. split.
      * eapply Forall_impl; [|exact Hd]. intros x [off Hr]. exists e, off. split; [left; reflexivity|exact Hr].
      * eapply Forall_impl; [|exact IH2]. intros x [e' [off [He' Hr]]]. exists e', off. split; [right|]; assumption.
Qed.

(* the message text, spelled out with the generated template *)
Lemma compare_message_eq : forall x k,
  compare_message x k = render c05_fmt [d_msg x; dec_of_nat (d_line x); dec_of_nat (d_col x); k].
Proof. reflexivity. Qed.
