(* Strings, the order of Python str, sorted(), dirname: facts used by the C13 proofs. *)
From Coq Require Import ZArith NArith List Bool Arith Lia Sorted Permutation.
From CL Require Import Base.Sx Base.Str Model.ProjectFiles.
Import ListNotations.

(* ---- equality ------------------------------------------------------------- *)
Lemma pf_str_eqb_eq : forall a b : str, str_eqb a b = true <-> a = b.
Proof.
  unfold str_eqb. induction a as [|x a IH]; destruct b as [|y b]; split; intro H;
    try reflexivity; try discriminate.
  - apply andb_true_iff in H as [H1 H2]. apply N.eqb_eq in H1. apply IH in H2. congruence.
  - inversion H; subst. apply andb_true_iff. split; [apply N.eqb_refl | apply IH; reflexivity].
Qed.

Lemma pf_str_eqb_refl : forall a, str_eqb a a = true.
Proof. intro a. apply pf_str_eqb_eq. reflexivity. Qed.

Lemma pf_str_eqb_false : forall a b : str, str_eqb a b = false <-> a <> b.
Proof.
  intros a b. split.
  - intros H E. apply pf_str_eqb_eq in E. congruence.
  - intro H. destruct (str_eqb a b) eqn:E; [apply pf_str_eqb_eq in E; contradiction | reflexivity].
Qed.

Lemma mem_str_In : forall s l, mem_str s l = true <-> In s l.
Proof.
  intros s l. unfold mem_str. rewrite existsb_exists. split.
  - intros [x [Hx E]]. apply pf_str_eqb_eq in E. subst. exact Hx.
  - intro H. exists s. split; [exact H | apply pf_str_eqb_refl].
Qed.

Lemma okey_eqb_eq : forall a b, okey_eqb a b = true <-> a = b.
Proof.
  intros [a|] [b|]; simpl; split; intro H; try discriminate; try reflexivity.
  - apply pf_str_eqb_eq in H. congruence.
  - inversion H. apply pf_str_eqb_refl.
Qed.

(* ---- the order -------------------------------------------------------------- *)
Lemma str_ltb_irrefl : forall a, str_ltb a a = false.
Proof.
  induction a as [|x a IH]; simpl; [reflexivity|].
  rewrite N.ltb_irrefl, N.eqb_refl. exact IH.
Qed.

Lemma str_ltb_trans : forall a b c, str_ltb a b = true -> str_ltb b c = true -> str_ltb a c = true.
Proof.
  induction a as [|x a IH]; intros [|y b] [|z c] H1 H2; simpl in *; try discriminate; try reflexivity.
  destruct (N.ltb x y) eqn:Exy.
  - apply N.ltb_lt in Exy. destruct (N.ltb y z) eqn:Eyz.
    + apply N.ltb_lt in Eyz. assert (E : N.ltb x z = true) by (apply N.ltb_lt; lia). now rewrite E.
    + destruct (N.eqb y z) eqn:Eq; [|discriminate]. apply N.eqb_eq in Eq. subst.
      assert (E : N.ltb x z = true) by (apply N.ltb_lt; lia). now rewrite E.
  - destruct (N.eqb x y) eqn:Eq; [|discriminate]. apply N.eqb_eq in Eq. subst.
    destruct (N.ltb y z); [reflexivity|]. destruct (N.eqb y z); [|discriminate].
    eapply IH; eassumption.
Qed.

Lemma str_ltb_total : forall a b, a <> b -> str_ltb a b = true \/ str_ltb b a = true.
Proof.
  induction a as [|x a IH]; intros [|y b] H; simpl.
  - contradiction.
  - left; reflexivity.
  - right; reflexivity.
  - destruct (N.ltb x y) eqn:Exy; [left; reflexivity|].
    destruct (N.ltb y x) eqn:Eyx; [right; reflexivity|].
    apply N.ltb_ge in Exy. apply N.ltb_ge in Eyx. assert (x = y) by lia. subst.
    rewrite N.eqb_refl. apply IH. congruence.
Qed.

Lemma str_ltb_asym : forall a b, str_ltb a b = true -> str_ltb b a = false.
Proof.
  intros a b H. destruct (str_ltb b a) eqn:E; [|reflexivity].
  pose proof (str_ltb_trans _ _ _ H E) as T. rewrite str_ltb_irrefl in T. discriminate.
Qed.

Lemma okey_leb_total : forall a b, okey_leb a b = true \/ okey_leb b a = true.
Proof.
  intros [a|] [b|]; simpl; auto. unfold str_leb.
  destruct (str_ltb b a) eqn:E; [right | left; reflexivity].
  rewrite (str_ltb_asym _ _ E). reflexivity.
Qed.

Lemma okey_leb_trans : forall a b c, okey_leb a b = true -> okey_leb b c = true -> okey_leb a c = true.
Proof.
  intros [a|] [b|] [c|]; simpl; auto; try discriminate. unfold str_leb.
  intros H1 H2. apply negb_true_iff in H1. apply negb_true_iff in H2. apply negb_true_iff.
  destruct (str_ltb c a) eqn:E; [|reflexivity].
  (* c < a, not b < a, not c < b *)
  destruct (pf_str_eqb_false a b) as [_ Hn].
  destruct (str_eqb a b) eqn:Eab.
  - apply pf_str_eqb_eq in Eab. subst. congruence.
  - apply pf_str_eqb_false in Eab. destruct (str_ltb_total _ _ Eab) as [L|L]; [|congruence].
    pose proof (str_ltb_trans _ _ _ E L). congruence.
Qed.

Lemma okey_leb_antisym : forall a b, okey_leb a b = true -> okey_leb b a = true -> a = b.
Proof.
  intros [a|] [b|]; simpl; try discriminate; auto. unfold str_leb.
  intros H1 H2. apply negb_true_iff in H1. apply negb_true_iff in H2.
  destruct (str_eqb a b) eqn:E; [apply pf_str_eqb_eq in E; congruence|].
  apply pf_str_eqb_false in E. destruct (str_ltb_total _ _ E); congruence.
Qed.

(* strictly before, in the order of sorted() *)
Definition okey_lt (a b : okey) : Prop := okey_leb a b = true /\ a <> b.

(* ---- sorted() ----------------------------------------------------------------- *)
Lemma kinsert_perm : forall x s, Permutation (kinsert x s) (x :: s).
Proof.
  induction s as [|y s IH]; simpl; [apply Permutation_refl|].
  destruct (okey_leb (fst x) (fst y)); [apply Permutation_refl|].
  eapply Permutation_trans; [apply perm_skip; exact IH | apply perm_swap].
Qed.

Lemma ksort_perm : forall l, Permutation (ksort l) l.
Proof.
  induction l as [|x l IH]; simpl; [apply perm_nil|].
  eapply Permutation_trans; [apply kinsert_perm | apply perm_skip; exact IH].
Qed.

Definition kle (a b : okey * info) : Prop := okey_leb (fst a) (fst b) = true.

Lemma kinsert_sorted : forall x s, StronglySorted kle s -> StronglySorted kle (kinsert x s).
Proof.
  induction s as [|y s IH]; intro H; simpl.
  - constructor; constructor.
  - inversion H as [|? ? Hs Hall]; subst.
    destruct (okey_leb (fst x) (fst y)) eqn:E.
    + constructor; [exact H|]. constructor; [exact E|].
      eapply Forall_impl; [|exact Hall]. intros z Hz. unfold kle in *.
      eapply okey_leb_trans; eassumption.
    + constructor; [apply IH; exact Hs|].
      assert (Hyx : kle y x).
      { unfold kle. destruct (okey_leb_total (fst x) (fst y)); congruence. }
      eapply Permutation_Forall; [apply Permutation_sym; apply kinsert_perm|].
      constructor; assumption.
Qed.

Lemma ksort_sorted : forall l, StronglySorted kle (ksort l).
Proof.
  induction l as [|x l IH]; simpl; [constructor | apply kinsert_sorted; exact IH].
Qed.

(* a sorted list with distinct keys is strictly increasing *)
Lemma sorted_strict : forall l : known_t,
  StronglySorted kle l -> NoDup (map fst l) -> StronglySorted okey_lt (map fst l).
Proof.
  induction l as [|x l IH]; intros Hs Hn; simpl; [constructor|].
  inversion Hs as [|? ? Hs' Hall]; subst. inversion Hn as [|? ? Hni Hn']; subst.
  constructor; [apply IH; assumption|].
  apply Forall_forall. intros k Hk. apply in_map_iff in Hk as [y [<- Hy]].
  rewrite Forall_forall in Hall. split; [apply Hall; exact Hy|].
  intro E. apply Hni. rewrite E. apply in_map. exact Hy.
Qed.

(* ---- prefixes ------------------------------------------------------------------ *)
Lemma starts_with_iff : forall p s, starts_with p s = true <-> exists t, s = p ++ t.
Proof.
  induction p as [|x p IH]; intros s; simpl.
  - split; [intros _; exists s; reflexivity | reflexivity].
  - destruct s as [|y s].
    + split; [discriminate | intros [t H]; discriminate].
    + rewrite andb_true_iff, N.eqb_eq, IH. split.
      * intros [-> [t ->]]. exists t. reflexivity.
      * intros [t H]. inversion H; subst. split; [reflexivity | exists t; reflexivity].
Qed.

Lemma starts_with_trans : forall a b c,
  starts_with a b = true -> starts_with b c = true -> starts_with a c = true.
Proof.
  intros a b c H1 H2. apply starts_with_iff in H1 as [t ->]. apply starts_with_iff in H2 as [u ->].
  apply starts_with_iff. exists (t ++ u). rewrite app_assoc. reflexivity.
Qed.

Lemma drop_while_split : forall f s,
  exists t, s = t ++ drop_while f s /\ Forall (fun c => f c = true) t /\
            match drop_while f s with [] => True | c :: _ => f c = false end.
Proof.
  induction s as [|c s IH]; simpl.
  - exists []. repeat split; constructor.
  - destruct (f c) eqn:E.
    + destruct IH as [t [H1 [H2 H3]]]. exists (c :: t). repeat split.
      * simpl. congruence.
      * constructor; assumption.
      * exact H3.
    + exists []. repeat split; [constructor | exact E].
Qed.

Lemma ends_slash_snoc : forall s c, ends_slash (s ++ [c]) = N.eqb c SLASH.
Proof. intros. unfold ends_slash. rewrite rev_app_distr. reflexivity. Qed.

Lemma ends_slash_rev : forall c d, ends_slash (rev (c :: d)) = N.eqb c SLASH.
Proof. intros. simpl. apply ends_slash_snoc. Qed.

(* the directory part of a path that contains a slash is, with a slash
   appended if it lacks one, a prefix of the path *)
Lemma dirname_prefix : forall s,
  In SLASH s -> dirname s <> [] /\ starts_with (ensure_slash (dirname s)) s = true.
Proof.
  intros s Hin. unfold dirname.
  remember (fun c => negb (N.eqb c SLASH)) as notslash eqn:Ens.
  destruct (drop_while_split notslash (rev s)) as [t [Hs [Ht Hd]]].
  remember (drop_while notslash (rev s)) as d eqn:Ed0. clear Ed0.
  assert (Hd' : exists d', d = SLASH :: d').
  { destruct d as [|c d'].
    - exfalso. rewrite app_nil_r in Hs. apply in_rev in Hin. rewrite Hs in Hin.
      rewrite Forall_forall in Ht. apply Ht in Hin. rewrite Ens in Hin.
      rewrite N.eqb_refl in Hin. discriminate.
    - rewrite Ens in Hd. apply negb_false_iff in Hd. apply N.eqb_eq in Hd. rewrite Hd. eauto. }
  destruct Hd' as [d' Ed].
  assert (Es : s = rev d ++ rev t).
  { rewrite <- (rev_involutive s), Hs, rev_app_distr. reflexivity. }
  rewrite rev_involutive.
  remember (fun c => N.eqb c SLASH) as isslash eqn:Eis.
  destruct (drop_while_split isslash d) as [u [Hu [Hu1 Hu2]]].
  remember (drop_while isslash d) as e eqn:Ee0. clear Ee0.
  destruct (rev e) as [|x xs] eqn:Er.
  - (* only slashes: dirname = head *)
    split.
    + rewrite Ed. simpl. intro H. apply app_eq_nil in H as [_ H]. discriminate.
    + unfold ensure_slash. rewrite Ed, ends_slash_rev, N.eqb_refl. rewrite <- Ed.
      apply starts_with_iff. exists (rev t). exact Es.
  - split; [discriminate|].
    rewrite <- Er.
    (* d = u ++ e, u = slashes, nonempty; e does not start with a slash *)
    assert (Hu' : exists u', u = SLASH :: u').
    { destruct u as [|c u'].
      - exfalso. simpl in Hu. rewrite <- Hu in Hu2. rewrite Ed in Hu2.
        rewrite Eis in Hu2. rewrite N.eqb_refl in Hu2. discriminate.
      - inversion Hu1 as [|? ? H1 H2]. rewrite Eis in H1. apply N.eqb_eq in H1. rewrite H1. eauto. }
    destruct Hu' as [u' Eu].
    assert (Ee : ends_slash (rev e) = false).
    { destruct e as [|c e'] eqn:Ee'; [discriminate|].
      rewrite ends_slash_rev. rewrite Eis in Hu2. exact Hu2. }
    unfold ensure_slash. rewrite Ee.
    assert (Hw : exists w, rev u = SLASH :: w).
    { pose proof (Forall_rev Hu1) as Hr. destruct (rev u) as [|c w] eqn:Eru.
      - exfalso. rewrite Eu in Eru. simpl in Eru. apply app_eq_nil in Eru as [_ Eru]. discriminate.
      - inversion Hr as [|? ? H1 H2]. rewrite Eis in H1. apply N.eqb_eq in H1. rewrite H1. eauto. }
    destruct Hw as [w Ew].
    apply starts_with_iff. exists (w ++ rev t).
    rewrite Es, Hu. rewrite rev_app_distr, Ew. simpl.
    repeat rewrite <- app_assoc. reflexivity.
Qed.
