(* C14 end to end, the Matcher side: matchers of the C11 grammar (rooted) are
   defined on every path; what "the rule's pattern matches the path" means in
   terms of valuations (C11 soundness / completeness); the matchers of a built
   configuration are those of its data. *)
From Coq Require Import NArith List Bool Arith Lia.
From CL Require Import Base.Sx Base.Res Base.Str Regex.Rx Regex.RxLemmas Regex.RxSem
  Generated.FilterFacts Model.Pattern Model.Matcher Model.Filter Model.FilterSpec Model.FilterE2E
  Proofs.MatcherBase Proofs.MatcherSpec Proofs.MatcherCompile Proofs.MatcherSound
  Proofs.MatcherExpand Proofs.MatcherComplete Proofs.MatcherRooted
  Proofs.FilterProofs Proofs.FilterCacheProofs Proofs.FilterE2EProofs.
Import ListNotations.

(* ---- matching never raises on the grammar ----------------------------------------- *)
Lemma match_total_simple : forall M path, simple M -> compiles M ->
  exists r, match_ M path = Ok r.
Proof.
  intros M path HS [r [names Hr]]. pose proof HS as [Hs [Hroot Hn]].
  unfold match_. rewrite (regex_of_simple M HS) in *.
  destruct (simple_compile (m_env M) (p_nodes (m_pat M)) (mkcst 1 [] false)) as [items c] eqn:Ec.
  destruct (c_err c) eqn:Eerr; [discriminate|]. simpl.
  destruct (rmatch (cat_list (items ++ [Eol false])) path 0) as [|x|] eqn:Ex.
  - eexists. reflexivity.
  - apply rmatch_sem in Ex. destruct Ex as [sG [HsemG HxG]]. subst x.
    apply sem_cat_list, sem_list_app in HsemG. destruct HsemG as [s1 [Hsa Hsb]].
    destruct (nodes_sound path (m_env M) _ _ _ _ _ _ Hs Ec Eerr Hsa (at_path_start path)
                (inv_init path (m_env M))) as [ps [_ [I2 _]]].
    assert (Hna : has_key s_android_locale
                    (groupdict path (c_names c) (mkres 0 (pos sG) (caps sG))) = false).
    { unfold has_key. rewrite lookup_groupdict.
      rewrite (notin_lookup_none _ _ (inv_noandroid _ _ _ _ I2)). reflexivity. }
    unfold add_locale. rewrite Hna. simpl. eexists. reflexivity.
  - exfalso. exact (rmatch_no_fuel _ _ _ Ex).
Qed.

Lemma match_total_rooted : forall M path, simple_rooted M -> compiles (unroot M) ->
  exists r, match_ M path = Ok r.
Proof.
  intros M path [HR HS] HC. rewrite (match_unroot M path HR). apply match_total_simple; assumption.
Qed.

(* the rule path [M], bound to the locale, is a matcher of the C11 grammar (rooted) *)
Definition in_filter_grammar (M : matcher) (loc : str) : Prop :=
  exists B, e2e_bind M loc = Ok B /\ simple_rooted B /\ compiles (unroot B).

Lemma grammar_defined : forall M loc path, in_filter_grammar M loc -> e2e_defined M loc path.
Proof.
  intros M loc path [B [HB [HS HC]]]. destruct (match_total_rooted B path HS HC) as [r Hr].
  exists B, r. split; assumption.
Qed.

Lemma defined_def_at : forall M loc path, e2e_defined M loc path ->
  def_at matcher matcher str str e2e_bind e2e_match e2e_matches loc path M.
Proof.
  intros M loc path [B [r [HB Hr]]]. exists B. split; [exact HB|].
  unfold e2e_match, e2e_matches. rewrite HB, Hr. simpl. destruct r; reflexivity.
Qed.

(* ---- what "matches" means -------------------------------------------------------------- *)
(* soundness (C11_match_sound_rooted): a matching rule path has a valuation -- the
   match dictionary -- under which the pattern expands to the path (up to the final
   newline `$` lets through), wildcard values of their kinds *)
Theorem e2e_matches_sound : forall M loc path, e2e_matches M loc path = true ->
  exists B d, e2e_bind M loc = Ok B /\ match_ B path = Ok (Some d) /\
  (simple_rooted B ->
   (exists p0, upto_final_newline path p0 /\
               expand_pattern (sub_env d (m_env B)) false (m_pat B) = Ok p0) /\
   kinds_ok (m_pat (unroot B)) d).
Proof.
  intros M loc path H. unfold e2e_matches in H.
  destruct (e2e_bind M loc) as [B|] eqn:EB; [|discriminate].
  destruct (match_ B path) as [[d|]|] eqn:Em; try discriminate.
  exists B, d. split; [reflexivity|]. split; [exact Em|].
  intro HS. exact (match_sound_rooted B path d HS Em).
Qed.

(* completeness (C11_match_complete through the rooted reading): the path assembled
   from one fitting piece per node of the bound pattern, behind the root, matches *)
Theorem e2e_matches_complete : forall M loc B d pieces,
  e2e_bind M loc = Ok B -> simple_rooted B -> compiles (unroot B) ->
  Forall var_not_star (p_nodes (m_pat (unroot B))) ->
  Forall2 (piece_for (m_env B) d) (p_nodes (m_pat (unroot B))) pieces ->
  e2e_matches M loc (concat pieces) = true.
Proof.
  intros M loc B d pieces HB [HR HS] HC HV HF. unfold e2e_matches. rewrite HB.
  rewrite (match_unroot B _ HR).
  destruct (match_complete (unroot B) d pieces HS HC HV) as [d' Hd'].
  - rewrite unroot_env. exact HF.
  - rewrite Hd'. reflexivity.
Qed.

(* ---- the matchers of a built configuration are those of its data --------------------- *)
Section Matchers.
Variables (matcher locale : Type).
Variable compile_re : str -> option rx.

Definition rule_matchers (rs : list (rawrule matcher)) : list matcher :=
  flat_map (fun r => paths_of _ (rr_path _ r)) rs.

Fixpoint raw_matchers (r : rawconfig matcher locale) : list matcher :=
  match r with
  | mkrawc _ _ _ paths rules children excludes =>
      map (p_l10n _ _) paths ++ rule_matchers rules ++
      flat_map raw_matchers children ++ flat_map raw_matchers excludes
  end.

Lemma compile_keys_paths : forall p a ks rs,
  compile_keys matcher compile_re p a ks = Ok rs -> Forall (fun r => r_path _ r = p) rs.
Proof.
  induction ks as [|s ks IH]; intros rs H; simpl in H.
  - injection H as <-. constructor.
  - destruct (compile_key compile_re s); simpl in H; [|discriminate].
    destruct (compile_keys matcher compile_re p a ks) as [rest|]; simpl in H; [|discriminate].
    injection H as <-. constructor; [reflexivity|apply IH; reflexivity].
Qed.

Lemma compile_paths_paths : forall ps k a rs,
  compile_paths matcher compile_re ps k a = Ok rs -> Forall (fun r => In (r_path _ r) ps) rs.
Proof.
  induction ps as [|p ps IH]; intros k a rs H; simpl in H.
  - injection H as <-. constructor.
  - destruct (match k with
              | Some k' => compile_keys matcher compile_re p a (flat_keys k')
              | None => Ok [mkrule matcher p None a]
              end) as [here|] eqn:E; simpl in H; [|discriminate].
    destruct (compile_paths matcher compile_re ps k a) as [rest|] eqn:E'; simpl in H; [|discriminate].
    injection H as <-. apply Forall_app. split.
    + destruct k as [k'|].
      * apply compile_keys_paths in E. eapply Forall_impl; [|exact E].
        intros r Hr. left. symmetry. exact Hr.
      * injection E as <-. constructor; [left; reflexivity|constructor].
    + eapply Forall_impl; [|exact (IH k a rest E')]. intros r Hr. right. exact Hr.
Qed.

Lemma compile_rules_paths : forall raws rs,
  compile_rules matcher compile_re raws = Ok rs ->
  Forall (fun r => In (r_path _ r) (rule_matchers raws)) rs.
Proof.
  induction raws as [|r raws IH]; intros rs H; simpl in H.
  - injection H as <-. constructor.
  - destruct (compile_rule matcher compile_re r) as [a|] eqn:E; simpl in H; [|discriminate].
    destruct (compile_rules matcher compile_re raws) as [b|] eqn:E'; simpl in H; [|discriminate].
    injection H as <-. apply Forall_app. split.
    + unfold compile_rule in E. apply compile_paths_paths in E.
      eapply Forall_impl; [|exact E]. intros x Hx. unfold rule_matchers. simpl.
      apply in_or_app. left. exact Hx.
    + eapply Forall_impl; [|exact (IH b eq_refl)]. intros x Hx. unfold rule_matchers. simpl.
      apply in_or_app. right. exact Hx.
Qed.

Lemma built_matchers : forall raw cfg,
  build matcher locale compile_re raw = Ok cfg ->
  forall M, In M (cfg_matchers matcher locale cfg) -> In M (raw_matchers raw).
Proof.
  apply (rawconfig_ind2 matcher locale (fun raw => forall cfg,
           build matcher locale compile_re raw = Ok cfg ->
           forall M, In M (cfg_matchers matcher locale cfg) -> In M (raw_matchers raw))).
  intros locs paths rules children excludes IHc IHe cfg Hb M HM.
  destruct (build_ok matcher locale compile_re _ _ _ _ _ _ Hb) as (rs & cs & es & Hr & Hcs & Hes & ->).
  apply mapM_Forall2 in Hcs, Hes. rewrite Forall_forall in IHc, IHe.
  simpl in HM. simpl.
  apply in_app_or in HM. destruct HM as [HM|HM]; [apply in_or_app; left; exact HM|].
  apply in_or_app. right.
  apply in_app_or in HM. destruct HM as [HM|HM].
  { apply in_or_app. left. apply in_map_iff in HM. destruct HM as [r [<- Hin]].
    pose proof (compile_rules_paths rules rs Hr) as F. rewrite Forall_forall in F. apply F. exact Hin. }
  apply in_or_app. right.
  assert (Hsub : forall (l : list (rawconfig matcher locale)) l',
            Forall2 (fun x y => build matcher locale compile_re x = Ok y) l l' ->
            (forall x, In x l -> forall cfg, build matcher locale compile_re x = Ok cfg ->
                       forall M, In M (cfg_matchers matcher locale cfg) -> In M (raw_matchers x)) ->
            In M (flat_map (cfg_matchers matcher locale) l') -> In M (flat_map raw_matchers l)).
  { induction 1 as [|x y l l' Hxy _ IH]; intros HI Hin; simpl in *; [exact Hin|].
    apply in_app_or in Hin. apply in_or_app. destruct Hin as [Hin|Hin].
    - left. apply (HI x (or_introl eq_refl) y Hxy M Hin).
    - right. apply IH; [|exact Hin]. intros z Hz. apply HI. right. exact Hz. }
  apply in_app_or in HM. destruct HM as [HM|HM]; apply in_or_app.
  - left. exact (Hsub _ _ Hcs IHc HM).
  - right. exact (Hsub _ _ Hes IHe HM).
Qed.

End Matchers.

(* ---- C14_end_to_end --------------------------------------------------------------------- *)
Section EndToEnd.
Variable compile_re : str -> option rx.

(* every l10n path and rule path of the project, bound to the locale, is in the grammar *)
Definition project_in_grammar (raw : rawconfig matcher str) (loc : str) : Prop :=
  forall M, In M (raw_matchers matcher str raw) -> in_filter_grammar M loc.

Theorem end_to_end_defined : forall t raw cfg loc path ent,
  t_compile t = Ok raw -> build matcher str compile_re raw = Ok cfg ->
  (forall M, In M (raw_matchers matcher str raw) -> e2e_defined M loc path) ->
  e2e_filter compile_re t loc path ent =
  Ok (filter_pure matcher str str str_eqb e2e_matches cfg loc path ent).
Proof.
  intros t raw cfg loc path ent Ht Hb Hd. unfold e2e_filter. rewrite Ht. simpl. rewrite Hb. simpl.
  unfold e2e_filter_cfg. apply filter_res_refines.
  intros M HM. apply defined_def_at. apply Hd. eapply built_matchers; eauto.
Qed.

Theorem end_to_end : forall t raw loc path ent,
  t_compile t = Ok raw ->
  (exists cfg, build matcher str compile_re raw = Ok cfg) ->
  project_in_grammar raw loc ->
  excludes_error_only matcher str str str_eqb e2e_matches compile_re raw loc path = true ->
  e2e_filter compile_re t loc path ent =
  Ok (spec matcher str str str_eqb e2e_matches compile_re raw loc path ent).
Proof.
  intros t raw loc path ent Ht [cfg Hb] Hg Hex.
  rewrite (end_to_end_defined t raw cfg loc path ent Ht Hb).
  - f_equal. apply refines_spec; assumption.
  - intros M HM. apply grammar_defined. apply Hg. exact HM.
Qed.

(* one configuration, no includes or excludes: the clauses spelled out *)
Theorem end_to_end_flat : forall t locs ps rs loc path ent,
  t_compile t = Ok (mkrawc _ _ locs ps rs [] []) ->
  (exists cfg, build matcher str compile_re (mkrawc _ _ locs ps rs [] []) = Ok cfg) ->
  project_in_grammar (mkrawc _ _ locs ps rs [] []) loc ->
  e2e_filter compile_re t loc path ent =
  Ok (if existsb (str_eqb loc) (raw_locales _ _ (mkrawc _ _ locs ps rs [] [])) &&
         existsb (fun p => path_covers matcher str str str_eqb e2e_matches p loc path) ps
      then match last_such (fun r => rule_applies matcher str str e2e_matches compile_re r loc path ent) rs with
           | Some r => rr_action _ r
           | None => AError
           end
      else AIgnore).
Proof.
  intros t locs ps rs loc path ent Ht Hb Hg.
  rewrite (end_to_end t _ loc path ent Ht Hb Hg eq_refl). f_equal.
  unfold spec. destruct (existsb (str_eqb loc) (raw_locales _ _ _)); [|reflexivity].
  simpl. rewrite app_nil_r. unfold own_verdict.
  destruct (existsb _ ps); [|reflexivity].
  destruct (last_such _ rs) as [r|]; simpl; [destruct (rr_action _ r)|]; reflexivity.
Qed.

End EndToEnd.
