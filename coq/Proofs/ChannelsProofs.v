(* Lemmas on Model/Channels.v: ordered dicts, parse_resource, prune, merge_two.
   Everything about AddRemove is imported from Proofs/AddRemoveProofs.v and
   Proofs/AddRemoveSpec.v (C20). *)
From Coq Require Import ZArith NArith List Bool Arith Lia Permutation.
From CL Require Import Base.Sx Base.Res Base.Str Regex.Rx Regex.RxLemmas Model.AddRemove
                       Proofs.AddRemoveProofs Proofs.AddRemoveSpec Model.Channels.
Import ListNotations.
Local Open Scope nat_scope.

(* ---- key equality ------------------------------------------------------------- *)
Lemma str_eqb_eq (a b : str) : str_eqb a b = true <-> a = b.
Proof.
  revert b; induction a as [|x a IH]; intros [|y b]; cbn; split; try discriminate; try reflexivity.
  - intros H. apply andb_true_iff in H. destruct H as [H1 H2].
    apply N.eqb_eq in H1. apply IH in H2. subst; reflexivity.
  - intros H. inversion H; subst. apply andb_true_iff. split; [apply N.eqb_refl|].
    apply IH. reflexivity.
Qed.

Lemma dkey_eqb_eq (a b : dkey) : dkey_eqb a b = true <-> a = b.
Proof.
  destruct a, b; cbn; split; try discriminate; intros H.
  - apply str_eqb_eq in H. subst; reflexivity.
  - inversion H; subst. apply str_eqb_eq. reflexivity.
  - apply andb_true_iff in H. destruct H as [H1 H2]. apply str_eqb_eq in H1.
    apply Nat.eqb_eq in H2. subst; reflexivity.
  - inversion H; subst. apply andb_true_iff. split; [apply str_eqb_eq|apply Nat.eqb_eq]; reflexivity.
  - apply Nat.eqb_eq in H. subst; reflexivity.
  - inversion H; subst. apply Nat.eqb_eq. reflexivity.
  - apply str_eqb_eq in H. subst; reflexivity.
  - inversion H; subst. apply str_eqb_eq. reflexivity.
Qed.

(* ---- ordered dicts ------------------------------------------------------------ *)
Section ODP.
Context {K V : Type} (eqb : K -> K -> bool).
Hypothesis eqb_eq : forall a b, eqb a b = true <-> a = b.

Lemma od_eqb_refl a : eqb a a = true.
Proof. apply eqb_eq. reflexivity. Qed.

Lemma od_eqb_neq a b : a <> b -> eqb a b = false.
Proof. intros H. destruct (eqb a b) eqn:E; [apply eqb_eq in E; contradiction|reflexivity]. Qed.

Lemma od_get_In k (v : V) m : od_get eqb k m = Some v -> In (k, v) m.
Proof.
  induction m as [|[k' v'] m IH]; cbn; [discriminate|].
  destruct (eqb k k') eqn:E.
  - intros H; inversion H; subst. apply eqb_eq in E. subst. left; reflexivity.
  - intros H. right. apply IH. exact H.
Qed.

Lemma od_get_None k (m : list (K * V)) : od_get eqb k m = None <-> ~ In k (map fst m).
Proof.
  induction m as [|[k' v'] m IH]; cbn; [tauto|].
  destruct (eqb k k') eqn:E.
  - apply eqb_eq in E. subst. split; [discriminate|]. intros H; exfalso; apply H; left; reflexivity.
  - rewrite IH. split; [intros H [H1|H1]|tauto].
    + subst. rewrite od_eqb_refl in E. discriminate.
    + contradiction.
Qed.

Lemma In_od_get k (v : V) m : NoDup (map fst m) -> In (k, v) m -> od_get eqb k m = Some v.
Proof.
  induction m as [|[k' v'] m IH]; cbn; intros Hnd Hin; [contradiction|].
  inversion Hnd as [|? ? Hk Hm]; subst. destruct Hin as [Hin|Hin].
  - inversion Hin; subst. rewrite od_eqb_refl. reflexivity.
  - destruct (eqb k k') eqn:E.
    + apply eqb_eq in E. subst. exfalso. apply Hk. apply in_map_iff. exists (k', v). auto.
    + apply IH; assumption.
Qed.

Lemma od_get_Some_key k (v : V) m : od_get eqb k m = Some v -> In k (map fst m).
Proof. intros H. apply od_get_In in H. apply in_map_iff. exists (k, v). auto. Qed.

Lemma od_set_new k (v : V) m : ~ In k (map fst m) -> od_set eqb k v m = m ++ [(k, v)].
Proof.
  induction m as [|[k' v'] m IH]; cbn; intros H; [reflexivity|].
  rewrite od_eqb_neq by (intros ->; apply H; left; reflexivity).
  rewrite IH; [reflexivity|]. intros Hin. apply H. right; exact Hin.
Qed.

Lemma od_of_pairs_app_nodup (ps acc : list (K * V)) :
  NoDup (map fst (acc ++ ps)) ->
  fold_left (fun m p => od_set eqb (fst p) (snd p) m) ps acc = acc ++ ps.
Proof.
  revert acc; induction ps as [|[k v] ps IH]; intros acc H; cbn.
  - rewrite app_nil_r. reflexivity.
  - rewrite od_set_new.
    + rewrite IH; rewrite <- app_assoc; [reflexivity|exact H].
    + rewrite map_app in H. cbn in H. apply NoDup_remove_2 in H.
      intros Hin. apply H. apply in_or_app. left; exact Hin.
Qed.

(* OrderedDict(pairs) is the pair list itself when the keys are distinct *)
Lemma od_of_pairs_nodup (ps : list (K * V)) :
  NoDup (map fst ps) -> od_of_pairs eqb ps = ps.
Proof. intros H. unfold od_of_pairs. apply (od_of_pairs_app_nodup ps []). exact H. Qed.

Lemma od_get_set_same k (v : V) m : od_get eqb k (od_set eqb k v m) = Some v.
Proof.
  induction m as [|[k' v'] m IH]; cbn.
  - rewrite od_eqb_refl. reflexivity.
  - destruct (eqb k k') eqn:E; cbn; rewrite E; [reflexivity|exact IH].
Qed.

Lemma od_get_set_other k k' (v : V) m : k <> k' -> od_get eqb k (od_set eqb k' v m) = od_get eqb k m.
Proof.
  intros Hn. induction m as [|[k2 v2] m IH]; cbn.
  - rewrite od_eqb_neq by exact Hn. reflexivity.
  - destruct (eqb k' k2) eqn:E; cbn.
    + apply eqb_eq in E. subst. rewrite (od_eqb_neq _ _ Hn). reflexivity.
    + destruct (eqb k k2); [reflexivity|exact IH].
Qed.
End ODP.

(* ---- entries and keys ------------------------------------------------------------ *)
(* an entry that is keyed by its own key: neither comment nor whitespace nor section *)
Definition keyed (e : centry) : bool :=
  negb (is_comment e) && negb (is_white e) && negb (is_section e).

(* the dict key fits the entry (get_key_value) *)
Definition key_ok (p : dkey * centry) : Prop :=
  match fst p with
  | DK s => keyed (snd p) = true /\ c_key (snd p) = s
  | DC v n => is_comment (snd p) = true /\ c_key (snd p) = v
  | DW i => is_white (snd p) = true /\ c_id (snd p) = i
  | DS s => is_section (snd p) = true /\ c_key (snd p) = s
  end.

Definition nw (p : dkey * centry) : bool := negb (is_white (snd p)).
Definition nwk (k : dkey) : bool := negb (is_ws_key k).

Lemma key_ok_nw p : key_ok p -> nw p = nwk (fst p).
Proof.
  destruct p as [k e]. unfold key_ok, nw, nwk, keyed. cbn.
  destruct k; cbn; intros [H1 H2].
  - apply andb_true_iff in H1. destruct H1 as [H1 _].
    apply andb_true_iff in H1. destruct H1 as [_ H1]. exact H1.
  - unfold is_comment, is_white in *. destruct (c_kind e); try discriminate; reflexivity.
  - rewrite H1. reflexivity.
  - unfold is_section, is_white in *. destruct (c_kind e); try discriminate; reflexivity.
Qed.

Lemma key_ok_white k e : key_ok (k, e) -> is_white e = true -> k = DW (c_id e).
Proof.
  unfold key_ok, keyed. cbn. destruct k; intros [H1 H2] Hw.
  - rewrite Hw in H1. cbn in H1. rewrite andb_false_r in H1. discriminate.
  - unfold is_comment, is_white in *. destruct (c_kind e); discriminate.
  - subst. reflexivity.
  - unfold is_section, is_white in *. destruct (c_kind e); discriminate.
Qed.

(* a well-formed dict *)
Definition wf (d : dict) : Prop := NoDup (dkeys d) /\ Forall key_ok d.

Lemma filter_nw_keys d : Forall key_ok d ->
  map fst (filter nw d) = filter nwk (dkeys d).
Proof.
  induction 1 as [|p d Hp _ IH]; cbn; [reflexivity|].
  rewrite (key_ok_nw p Hp). destruct (nwk (fst p)); cbn; rewrite IH; reflexivity.
Qed.

(* ---- key_values / parse_resource ----------------------------------------------------- *)
Lemma cget_set_same v n c : cget v (od_set str_eqb v n c) = n.
Proof. unfold cget. rewrite (od_get_set_same str_eqb str_eqb_eq). reflexivity. Qed.

Lemma cget_set_other v v' n c : v <> v' -> cget v (od_set str_eqb v' n c) = cget v c.
Proof. intros H. unfold cget. rewrite (od_get_set_other str_eqb str_eqb_eq) by exact H. reflexivity. Qed.

Lemma key_values_key_ok es : forall c, Forall key_ok (key_values es c).
Proof.
  induction es as [|e es IH]; intros c; cbn; [constructor|].
  unfold get_key_value. destruct (c_kind e) eqn:Ek; constructor; try apply IH;
    unfold key_ok, keyed, is_comment, is_white, is_section; cbn; rewrite Ek; auto.
Qed.

Lemma key_values_values es : forall c, map snd (key_values es c) = es.
Proof.
  induction es as [|e es IH]; intros c; cbn; [reflexivity|].
  unfold get_key_value. destruct (c_kind e); cbn; rewrite IH; reflexivity.
Qed.

(* comment keys generated from a counter state are above it *)
Lemma key_values_DC es : forall c v n, In (DC v n) (map fst (key_values es c)) -> cget v c < n.
Proof.
  induction es as [|e es IH]; intros c v n; cbn; [contradiction|].
  unfold get_key_value. destruct (c_kind e) eqn:Ek; cbn;
    try (intros [H|H]; [discriminate|apply IH in H; exact H]).
  intros [H|H].
  - inversion H; subst. lia.
  - apply IH in H. destruct (list_eq_dec N.eq_dec v (c_key e)) as [->|Hne].
    + rewrite cget_set_same in H. lia.
    + rewrite cget_set_other in H by exact Hne. exact H.
Qed.

Lemma key_values_DK es : forall c s, In (DK s) (map fst (key_values es c)) ->
  In s (map c_key (filter keyed es)).
Proof.
  induction es as [|e es IH]; intros c s; cbn; [contradiction|].
  unfold get_key_value, keyed, is_comment, is_white, is_section.
  destruct (c_kind e) eqn:Ek; cbn;
    try (intros [H|H]; [inversion H; left; reflexivity|right; eapply IH; exact H]);
    (intros [H|H]; [discriminate|eapply IH; exact H]).
Qed.

Lemma key_values_DS es : forall c s, In (DS s) (map fst (key_values es c)) ->
  In s (map c_key (filter is_section es)).
Proof.
  induction es as [|e es IH]; intros c s; cbn; [contradiction|].
  unfold get_key_value, is_section.
  destruct (c_kind e) eqn:Ek; cbn;
    try (intros [H|H]; [discriminate|eapply IH; exact H]).
  intros [H|H]; [inversion H; left; reflexivity|right; eapply IH; exact H].
Qed.

Lemma key_values_DW es : forall c i, In (DW i) (map fst (key_values es c)) ->
  In i (map c_id (filter is_white es)).
Proof.
  induction es as [|e es IH]; intros c i; cbn; [contradiction|].
  unfold get_key_value, is_white.
  destruct (c_kind e) eqn:Ek; cbn;
    try (intros [H|H]; [discriminate|eapply IH; exact H]).
  intros [H|H]; [inversion H; left; reflexivity|right; eapply IH; exact H].
Qed.

(* entries with distinct keys, distinct section names and distinct whitespace
   identities get distinct dict keys *)
Definition uniq (es : list centry) : Prop :=
  NoDup (map c_key (filter keyed es)) /\ NoDup (map c_id (filter is_white es)) /\
  NoDup (map c_key (filter is_section es)).

Lemma key_values_nodup es : uniq es -> forall c, NoDup (map fst (key_values es c)).
Proof.
  unfold uniq. induction es as [|e es IH]; intros (Hk & Hw & Hs) c; cbn; [constructor|].
  unfold get_key_value.
  assert (Hrest : forall c', NoDup (map fst (key_values es c'))).
  { intros c'. apply IH. repeat split.
    - cbn in Hk. destruct (keyed e); [inversion Hk; assumption|exact Hk].
    - cbn in Hw. destruct (is_white e); [inversion Hw; assumption|exact Hw].
    - cbn in Hs. destruct (is_section e); [inversion Hs; assumption|exact Hs]. }
  destruct (c_kind e) eqn:Ek; cbn; constructor; try apply Hrest;
    try (intros Hin; apply key_values_DK in Hin; cbn in Hk;
         unfold keyed, is_comment, is_white, is_section in Hk; rewrite Ek in Hk; cbn in Hk;
         inversion Hk; contradiction).
  - intros Hin. apply key_values_DC in Hin. rewrite cget_set_same in Hin. lia.
  - intros Hin. apply key_values_DW in Hin. cbn in Hw. unfold is_white in Hw at 1.
    rewrite Ek in Hw. cbn in Hw. inversion Hw; contradiction.
  - intros Hin. apply key_values_DS in Hin. cbn in Hs. unfold is_section in Hs at 1.
    rewrite Ek in Hs. cbn in Hs. inversion Hs; contradiction.
Qed.

Lemma parse_resource_uniq es : uniq es -> parse_resource es = key_values es [].
Proof.
  intros H. unfold parse_resource. apply (od_of_pairs_nodup dkey_eqb dkey_eqb_eq).
  apply key_values_nodup. exact H.
Qed.

Lemma parse_resource_wf es : uniq es -> wf (parse_resource es).
Proof.
  intros H. rewrite parse_resource_uniq by exact H. split.
  - apply key_values_nodup. exact H.
  - apply key_values_key_ok.
Qed.

Lemma parse_resource_values es : uniq es -> dvalues (parse_resource es) = es.
Proof. intros H. rewrite parse_resource_uniq by exact H. apply key_values_values. Qed.

(* ---- prune ----------------------------------------------------------------------------- *)
Definition somes (cs : list (dkey * option centry)) : list (dkey * centry) :=
  flat_map (fun c => match snd c with Some e => [(fst c, e)] | None => [] end) cs.

Lemma filter_nw_snoc_white l k e : is_white e = true -> filter nw (l ++ [(k, e)]) = filter nw l.
Proof.
  intros H. rewrite filter_app. cbn. unfold nw at 2. cbn. rewrite H. cbn. apply app_nil_r.
Qed.

Lemma somes_cons_some k e cs : somes ((k, Some e) :: cs) = (k, e) :: somes cs.
Proof. reflexivity. Qed.
Lemma somes_cons_none k cs : somes ((k, None) :: cs) = somes cs.
Proof. reflexivity. Qed.

(* pruning touches whitespace only: the other entries stay, in order, with their keys *)
Lemma prune_nw cs : forall acc,
  filter nw (rev (fold_left prune_step cs acc)) = filter nw (rev acc) ++ filter nw (somes cs).
Proof.
  induction cs as [|[k [e|]] cs IH]; intros acc.
  - cbn. rewrite app_nil_r. reflexivity.
  - rewrite somes_cons_some. cbn [fold_left]. rewrite IH.
    change ((k, e) :: somes cs) with ([(k, e)] ++ somes cs).
    rewrite (filter_app nw [(k, e)]). rewrite app_assoc. f_equal.
    unfold prune_step. cbn [snd fst].
    destruct acc as [|[pk pe] acc']; [cbn; reflexivity|].
    destruct (is_white e && is_white pe) eqn:Ew.
    + apply andb_true_iff in Ew. destruct Ew as [He Hpe].
      assert (Hk : filter nw [(k, e)] = []) by (cbn; unfold nw; cbn; rewrite He; reflexivity).
      rewrite Hk, app_nil_r.
      destruct (length (c_text pe) <? length (c_text e)); [|reflexivity].
      cbn [rev]. rewrite !filter_nw_snoc_white by assumption. reflexivity.
    + cbn [rev]. rewrite filter_app. reflexivity.
  - rewrite somes_cons_none. cbn [fold_left]. unfold prune_step at 2. cbn [snd]. apply IH.
Qed.

Lemma prune_inv cs : forall acc,
  Forall key_ok acc -> Forall key_ok (somes cs) ->
  NoDup (map fst (rev acc) ++ map fst cs) ->
  Forall key_ok (fold_left prune_step cs acc) /\
  NoDup (map fst (rev (fold_left prune_step cs acc))) /\
  incl (map fst (fold_left prune_step cs acc)) (map fst acc ++ map fst cs).
Proof.
  induction cs as [|[k [e|]] cs IH]; intros acc Hacc Hcs Hnd.
  - cbn in *. rewrite app_nil_r in Hnd. repeat split; try assumption.
    intros x Hx. rewrite app_nil_r. exact Hx.
  - cbn [fold_left]. rewrite somes_cons_some in Hcs.
    inversion Hcs as [|? ? Hke Hcs']; subst.
    assert (Hstep : Forall key_ok (prune_step acc (k, Some e)) /\
                    NoDup (map fst (rev (prune_step acc (k, Some e))) ++ map fst cs) /\
                    incl (map fst (prune_step acc (k, Some e))) (k :: map fst acc)).
    { unfold prune_step. cbn [snd fst].
      assert (Happ : Forall key_ok ((k, e) :: acc) /\
                     NoDup (map fst (rev ((k, e) :: acc)) ++ map fst cs) /\
                     incl (map fst ((k, e) :: acc)) (k :: map fst acc)).
      { repeat split.
        - constructor; assumption.
        - cbn [rev]. rewrite map_app. cbn. rewrite <- app_assoc. exact Hnd.
        - cbn. apply incl_refl. }
      destruct acc as [|[pk pe] acc']; [exact Happ|].
      destruct (is_white e && is_white pe) eqn:Ew; [|exact Happ].
      apply andb_true_iff in Ew. destruct Ew as [He Hpe].
      pose proof (key_ok_white k e Hke He) as Hk. subst k.
      cbn [rev map] in Hnd. rewrite map_app in Hnd. cbn in Hnd. rewrite <- app_assoc in Hnd.
      cbn in Hnd.
      destruct (length (c_text pe) <? length (c_text e)).
      - repeat split.
        + constructor; [exact Hke|]. inversion Hacc; assumption.
        + cbn [rev]. rewrite map_app. cbn. rewrite <- app_assoc. cbn.
          apply NoDup_remove_1 in Hnd. exact Hnd.
        + cbn. intros x [Hx|Hx]; [left; exact Hx|right; right; exact Hx].
      - repeat split.
        + exact Hacc.
        + cbn [rev]. rewrite map_app. cbn. rewrite <- app_assoc. cbn.
          change (map fst (rev acc') ++ pk :: DW (c_id e) :: map fst cs)
            with (map fst (rev acc') ++ [pk] ++ DW (c_id e) :: map fst cs) in Hnd.
          rewrite app_assoc in Hnd. apply NoDup_remove_1 in Hnd.
          rewrite <- app_assoc in Hnd. exact Hnd.
        + cbn. intros x Hx. right; exact Hx. }
    destruct Hstep as (H1 & H2 & H3).
    destruct (IH _ H1 Hcs' H2) as (I1 & I2 & I3).
    repeat split; try assumption.
    intros x Hx. apply I3 in Hx. apply in_app_or in Hx. destruct Hx as [Hx|Hx].
    + apply H3 in Hx. destruct Hx as [Hx|Hx].
      * subst. apply in_or_app. right. left. reflexivity.
      * apply in_or_app. left. exact Hx.
    + apply in_or_app. right. right. exact Hx.
  - cbn [fold_left]. unfold prune_step at 2. cbn [snd].
    rewrite somes_cons_none in Hcs.
    assert (Hnd' : NoDup (map fst (rev acc) ++ map fst cs)).
    { cbn in Hnd. apply NoDup_remove_1 in Hnd. exact Hnd. }
    destruct (IH _ Hacc Hcs Hnd') as (I1 & I2 & I3).
    repeat split; try assumption.
    intros x Hx. apply I3 in Hx. apply in_app_or in Hx. apply in_or_app.
    destruct Hx as [Hx|Hx]; [left; exact Hx|right; right; exact Hx].
Qed.

(* ---- merge_two ---------------------------------------------------------------------------- *)
Notation ar_keys l r := (map snd (addremove dkey_eqb l r)).

Lemma merge_contents_keys N O keep :
  map fst (merge_contents N O keep) = ar_keys (dkeys N) (dkeys O).
Proof. unfold merge_contents. rewrite map_map. reflexivity. Qed.

Lemma ar_keys_In l r k : NoDup l -> NoDup r -> (In k (ar_keys l r) <-> In k l \/ In k r).
Proof.
  intros Hl Hr. destruct (addremove_once dkey_eqb dkey_eqb_eq l r Hl Hr) as [Hp _].
  split; intros H.
  - apply (Permutation_in _ Hp) in H. apply in_app_or in H. destruct H as [H|H]; [left; exact H|].
    apply filter_In in H. right. apply H.
  - apply (Permutation_in _ (Permutation_sym Hp)). apply in_or_app.
    destruct (AddRemove.mem dkey_eqb k l) eqn:E.
    + left. apply (mem_In dkey_eqb dkey_eqb_eq). exact E.
    + destruct H as [H|H]; [left; exact H|]. right. apply filter_In. split; [exact H|].
      rewrite E. reflexivity.
Qed.

Lemma get_entity_In N O keep k e :
  get_entity keep N O k = Some e -> In (k, e) N \/ In (k, e) O.
Proof.
  unfold get_entity, get_newer_entity, get_older_entity. destruct keep.
  - destruct (od_get dkey_eqb k N) eqn:E1.
    + intros H; inversion H; subst. left. apply (od_get_In dkey_eqb dkey_eqb_eq). exact E1.
    + intros H. right. apply (od_get_In dkey_eqb dkey_eqb_eq). exact H.
  - destruct (od_get dkey_eqb k O) eqn:E1.
    + destruct (is_sticky c).
      * intros H. left. apply (od_get_In dkey_eqb dkey_eqb_eq). exact H.
      * intros H; inversion H; subst. right. apply (od_get_In dkey_eqb dkey_eqb_eq). exact E1.
    + intros H. left. apply (od_get_In dkey_eqb dkey_eqb_eq). exact H.
Qed.

Lemma somes_In cs k e : In (k, e) (somes cs) <-> In (k, Some e) cs.
Proof.
  unfold somes. rewrite in_flat_map. split.
  - intros [[k' [e'|]] [H1 H2]]; cbn in H2; [|contradiction].
    destruct H2 as [H2|[]]. inversion H2; subst. exact H1.
  - intros H. exists (k, Some e). split; [exact H|left; reflexivity].
Qed.

Lemma merge_contents_key_ok N O keep :
  Forall key_ok N -> Forall key_ok O -> Forall key_ok (somes (merge_contents N O keep)).
Proof.
  intros HN HO. apply Forall_forall. intros [k e] Hin. apply somes_In in Hin.
  unfold merge_contents in Hin. apply in_map_iff in Hin. destruct Hin as [lk [Heq _]].
  injection Heq as Hk He. subst k. apply get_entity_In in He.
  rewrite Forall_forall in HN, HO. destruct He as [H|H]; [apply HN|apply HO]; exact H.
Qed.

Section MergeTwo.
Variables (N O : dict) (keep : bool).
Hypothesis HN : wf N.
Hypothesis HO : wf O.

Let pruned := rev (fold_left prune_step (merge_contents N O keep) []).

Lemma merge_two_pruned_inv :
  Forall key_ok pruned /\ NoDup (map fst pruned) /\
  incl (map fst pruned) (ar_keys (dkeys N) (dkeys O)).
Proof.
  destruct HN as [HN1 HN2], HO as [HO1 HO2].
  destruct (prune_inv (merge_contents N O keep) []) as (I1 & I2 & I3).
  - constructor.
  - apply merge_contents_key_ok; assumption.
  - cbn. rewrite merge_contents_keys.
    apply (addremove_once dkey_eqb dkey_eqb_eq); assumption.
  - unfold pruned. repeat split.
    + apply Forall_rev. exact I1.
    + exact I2.
    + intros x Hx. rewrite map_rev in Hx. apply in_rev in Hx. apply I3 in Hx.
      cbn in Hx. rewrite merge_contents_keys in Hx. exact Hx.
Qed.

Lemma merge_two_eq : merge_two N O keep = pruned.
Proof.
  unfold merge_two. apply (od_of_pairs_nodup dkey_eqb dkey_eqb_eq).
  apply merge_two_pruned_inv.
Qed.

Theorem merge_two_wf : wf (merge_two N O keep).
Proof. rewrite merge_two_eq. destruct merge_two_pruned_inv as (H1 & H2 & _). split; assumption. Qed.

Theorem merge_two_nw :
  filter nw (merge_two N O keep) = filter nw (somes (merge_contents N O keep)).
Proof. rewrite merge_two_eq. unfold pruned. rewrite prune_nw. reflexivity. Qed.

Theorem merge_two_keys_incl k :
  In k (dkeys (merge_two N O keep)) -> In k (dkeys N) \/ In k (dkeys O).
Proof.
  rewrite merge_two_eq. intros H. destruct merge_two_pruned_inv as (_ & _ & H3).
  apply H3 in H. apply ar_keys_In in H; [exact H|apply HN|apply HO].
Qed.

(* a key that is no whitespace key is looked up in the merged dict as in the contents *)
Theorem merge_two_get k e : nwk k = true ->
  (od_get dkey_eqb k (merge_two N O keep) = Some e <->
   (In k (ar_keys (dkeys N) (dkeys O)) /\ get_entity keep N O k = Some e)).
Proof.
  intros Hk. pose proof merge_two_wf as [W1 W2].
  assert (Hc : Forall key_ok (somes (merge_contents N O keep)))
    by (apply merge_contents_key_ok; [apply HN|apply HO]).
  assert (Hiff : In (k, e) (merge_two N O keep) <-> In (k, e) (somes (merge_contents N O keep))).
  { rewrite Forall_forall in W2, Hc. split; intros H.
    - assert (H' : In (k, e) (filter nw (merge_two N O keep))).
      { apply filter_In. split; [exact H|]. rewrite (key_ok_nw _ (W2 _ H)). exact Hk. }
      rewrite merge_two_nw in H'. apply filter_In in H'. apply H'.
    - assert (H' : In (k, e) (filter nw (somes (merge_contents N O keep)))).
      { apply filter_In. split; [exact H|]. rewrite (key_ok_nw _ (Hc _ H)). exact Hk. }
      rewrite <- merge_two_nw in H'. apply filter_In in H'. apply H'. }
  split.
  - intros H. apply (od_get_In dkey_eqb dkey_eqb_eq) in H. apply Hiff in H.
    apply somes_In in H. unfold merge_contents in H. apply in_map_iff in H.
    destruct H as [lk [Heq Hin]]. inversion Heq; subst. split; [|reflexivity].
    apply in_map. exact Hin.
  - intros [H1 H2]. apply (In_od_get dkey_eqb dkey_eqb_eq); [exact W1|]. apply Hiff.
    apply somes_In. unfold merge_contents. apply in_map_iff in H1.
    destruct H1 as [lk [Hs Hin]]. apply in_map_iff. exists lk. split; [|exact Hin].
    rewrite Hs, H2. reflexivity.
Qed.

End MergeTwo.

(* ---- the C20 specification restricted to the keys that are no whitespace ------------- *)
Notation dmem := (AddRemove.mem dkey_eqb).
Notation druns := (runs dkey_eqb).
Notation dfollowers := (followers dkey_eqb).
Notation dspec_keys := (spec_keys dkey_eqb).

(* no whitespace key is shared *)
Definition ws_disjoint (l r : list dkey) : Prop :=
  forall k, nwk k = false -> In k l -> In k r -> False.

Lemma dmem_In k l : dmem k l = true <-> In k l.
Proof. apply (mem_In dkey_eqb dkey_eqb_eq). Qed.

Lemma dmem_filter k l : nwk k = true -> dmem k (filter nwk l) = dmem k l.
Proof.
  intros Hk. destruct (dmem k l) eqn:E.
  - apply dmem_In. apply filter_In. split; [apply dmem_In; exact E|exact Hk].
  - destruct (dmem k (filter nwk l)) eqn:E2; [|reflexivity].
    apply dmem_In in E2. apply filter_In in E2. destruct E2 as [E2 _].
    apply dmem_In in E2. congruence.
Qed.

Definition fgs (gs : list (dkey * list dkey)) : list (dkey * list dkey) :=
  map (fun g => (fst g, filter nwk (snd g))) gs.

Lemma runs_filter l r : (forall k, nwk k = false -> In k r -> ~ In k l) ->
  druns (filter nwk l) (filter nwk r) =
  (filter nwk (fst (druns l r)), fgs (snd (druns l r))).
Proof.
  intros Hd. induction r as [|y r IH]; cbn; [reflexivity|].
  assert (IH' := IH (fun k Hk Hin => Hd k Hk (or_intror Hin))). clear IH.
  destruct (druns l r) as [pre gs]. cbn in IH'.
  destruct (nwk y) eqn:Ey; cbn.
  - rewrite IH'. rewrite (dmem_filter y l Ey).
    destruct (dmem y l); cbn; [reflexivity|]. rewrite Ey. reflexivity.
  - assert (dmem y l = false) as ->.
    { destruct (dmem y l) eqn:E; [|reflexivity]. apply dmem_In in E.
      exfalso. apply (Hd y Ey (or_introl eq_refl) E). }
    cbn. rewrite Ey. exact IH'.
Qed.

Lemma followers_fgs x gs : dfollowers x (fgs gs) = filter nwk (dfollowers x gs).
Proof.
  induction gs as [|[a ys] gs IH]; cbn; [reflexivity|].
  destruct (dkey_eqb x a); [reflexivity|exact IH].
Qed.

Theorem spec_keys_filter l r : ws_disjoint l r ->
  filter nwk (dspec_keys l r) = dspec_keys (filter nwk l) (filter nwk r).
Proof.
  intros Hd. unfold spec_keys.
  rewrite runs_filter by (intros k Hk Hr Hl; exact (Hd k Hk Hl Hr)).
  pose proof (followers_notin dkey_eqb dkey_eqb_eq l r) as Hfn.
  destruct (druns l r) as [pre gs]. cbn [fst snd] in *.
  rewrite filter_app. f_equal.
  induction l as [|x l IH]; cbn; [reflexivity|].
  assert (IH' : filter nwk (flat_map (fun x0 => x0 :: dfollowers x0 gs) l) =
                flat_map (fun x0 => x0 :: dfollowers x0 (fgs gs)) (filter nwk l)).
  { apply IH. intros k Hk Hl Hr. apply (Hd k Hk); [right; exact Hl|exact Hr]. }
  destruct (nwk x) eqn:Ex; cbn.
  - rewrite filter_app, IH', followers_fgs. reflexivity.
  - rewrite filter_app, IH'. rewrite Hfn; [reflexivity|].
    intros Hr. apply (Hd x Ex); [left; reflexivity|exact Hr].
Qed.

(* ---- merge_two keeping the newer values ------------------------------------------------ *)
Definition ekeys (d : dict) : list dkey := filter nwk (dkeys d).

Lemma somes_all cs : (forall c, In c cs -> snd c <> None) -> map fst (somes cs) = map fst cs.
Proof.
  induction cs as [|[k [e|]] cs IH]; intros H; cbn; [reflexivity| |].
  - f_equal. apply IH. intros c Hc. apply H. right; exact Hc.
  - exfalso. apply (H (k, None)); [left; reflexivity|reflexivity].
Qed.

Section MergeNewer.
Variables (N O : dict).
Hypothesis HN : wf N.
Hypothesis HO : wf O.

Lemma get_newer_some k : In k (dkeys N) \/ In k (dkeys O) -> get_newer_entity N O k <> None.
Proof.
  unfold get_newer_entity. intros H.
  destruct (od_get dkey_eqb k N) eqn:E1; [discriminate|].
  apply (od_get_None dkey_eqb dkey_eqb_eq) in E1.
  destruct H as [H|H]; [contradiction|].
  intros E2. apply (od_get_None dkey_eqb dkey_eqb_eq) in E2. contradiction.
Qed.

Theorem merge_newer_ekeys :
  ekeys (merge_two N O true) = filter nwk (ar_keys (dkeys N) (dkeys O)).
Proof.
  unfold ekeys. pose proof (merge_two_wf N O true HN HO) as [_ W2].
  rewrite <- (filter_nw_keys _ W2). rewrite (merge_two_nw N O true HN HO).
  rewrite (filter_nw_keys (somes (merge_contents N O true))).
  2:{ apply merge_contents_key_ok; [apply HN|apply HO]. }
  unfold dkeys. rewrite somes_all; [rewrite merge_contents_keys; reflexivity|].
  intros c Hc. unfold merge_contents in Hc. apply in_map_iff in Hc.
  destruct Hc as [lk [Heq Hin]]. subst c. cbn. apply get_newer_some.
  apply (ar_keys_In _ _ _ (proj1 HN) (proj1 HO)). apply in_map. exact Hin.
Qed.

(* order: the C20 specification on the non-whitespace keys *)
Theorem merge_newer_spec : ws_disjoint (dkeys N) (dkeys O) ->
  ekeys (merge_two N O true) = dspec_keys (ekeys N) (ekeys O).
Proof.
  intros Hd. rewrite merge_newer_ekeys.
  rewrite (addremove_anchor dkey_eqb dkey_eqb_eq _ _ (proj1 HN) (proj1 HO)).
  apply spec_keys_filter. exact Hd.
Qed.

(* values: the newer dict wins *)
Theorem merge_newer_get k : nwk k = true ->
  od_get dkey_eqb k (merge_two N O true) =
  match od_get dkey_eqb k N with Some e => Some e | None => od_get dkey_eqb k O end.
Proof.
  intros Hk. change (match od_get dkey_eqb k N with Some e => Some e | None => od_get dkey_eqb k O end)
    with (get_newer_entity N O k).
  destruct (get_newer_entity N O k) as [e|] eqn:E.
  - apply (merge_two_get N O true HN HO k e Hk). split; [|exact E].
    apply (ar_keys_In _ _ _ (proj1 HN) (proj1 HO)).
    unfold get_newer_entity in E. destruct (od_get dkey_eqb k N) eqn:E1.
    + left. eapply od_get_Some_key; [apply dkey_eqb_eq|exact E1].
    + right. eapply od_get_Some_key; [apply dkey_eqb_eq|exact E].
  - destruct (od_get dkey_eqb k (merge_two N O true)) as [e'|] eqn:E2; [|reflexivity].
    apply (merge_two_get N O true HN HO k e' Hk) in E2. destruct E2 as [_ E2].
    cbn in E2. congruence.
Qed.
End MergeNewer.

(* ---- the fold over the versions (newest first) ---------------------------------------------- *)
Definition fold_merge (d : dict) (ds : list dict) : dict :=
  fold_left (fun x y => merge_two x y true) ds d.

Fixpoint first_get (k : dkey) (ds : list dict) : option centry :=
  match ds with
  | [] => None
  | d :: ds' => match od_get dkey_eqb k d with Some e => Some e | None => first_get k ds' end
  end.

Fixpoint ws_sep (ds : list dict) : Prop :=
  match ds with
  | [] => True
  | d :: rest => (forall d', In d' rest -> ws_disjoint (dkeys d) (dkeys d')) /\ ws_sep rest
  end.

Definition spec_fold (l : list dkey) (ls : list (list dkey)) : list dkey :=
  fold_left (fun a y => dspec_keys a y) ls l.

Lemma fold_merge_inv ds : forall d, wf d -> Forall wf ds -> ws_sep (d :: ds) ->
  wf (fold_merge d ds) /\
  ekeys (fold_merge d ds) = spec_fold (ekeys d) (map ekeys ds) /\
  (forall k, nwk k = true -> od_get dkey_eqb k (fold_merge d ds) = first_get k (d :: ds)) /\
  (forall k, In k (dkeys (fold_merge d ds)) -> exists d', In d' (d :: ds) /\ In k (dkeys d')).
Proof.
  induction ds as [|y ds IH]; intros d Hd Hds Hsep.
  - cbn. repeat split; try apply Hd.
    + intros k _. destruct (od_get dkey_eqb k d); reflexivity.
    + intros k Hk. exists d. split; [left; reflexivity|exact Hk].
  - inversion Hds as [|? ? Hy Hds']; subst. cbn [fold_merge fold_left].
    destruct Hsep as [Hsd [Hsy Hsds]].
    assert (Hw : wf (merge_two d y true)) by (apply merge_two_wf; assumption).
    assert (Hsep' : ws_sep (merge_two d y true :: ds)).
    { split; [|exact Hsds]. intros d' Hd' k Hk Hin Hin'.
      apply (merge_two_keys_incl d y true Hd Hy) in Hin. destruct Hin as [Hin|Hin].
      - apply (Hsd d' (or_intror Hd') k Hk Hin Hin').
      - apply (Hsy d' Hd' k Hk Hin Hin'). }
    destruct (IH _ Hw Hds' Hsep') as (I1 & I2 & I3 & I4).
    fold (fold_merge (merge_two d y true) ds).
    repeat split; try apply I1.
    + rewrite I2. cbn [map spec_fold fold_left].
      rewrite (merge_newer_spec d y Hd Hy); [reflexivity|].
      apply Hsd. left; reflexivity.
    + intros k Hk. rewrite (I3 k Hk). cbn [first_get].
      rewrite (merge_newer_get d y Hd Hy k Hk).
      destruct (od_get dkey_eqb k d); [reflexivity|].
      destruct (od_get dkey_eqb k y); reflexivity.
    + intros k Hk. apply I4 in Hk. destruct Hk as [d' [[Hd'|Hd'] Hin]].
      * subst d'. apply (merge_two_keys_incl d y true Hd Hy) in Hin.
        destruct Hin as [Hin|Hin]; [exists d|exists y]; split; auto; [left|right; left]; reflexivity.
      * exists d'. split; [right; right; exact Hd'|exact Hin].
Qed.

(* ---- numbering ------------------------------------------------------------------------------------ *)
Definition strip (e : centry) := (c_kind e, c_key e, c_text e, c_val e).
Definition ukeys (es : list centry) : Prop :=
  NoDup (map c_key (filter keyed es)) /\ NoDup (map c_key (filter is_section es)).

Lemma number_strip es : forall ctr, map strip (number ctr es) = map strip es.
Proof. induction es as [|e es IH]; intros ctr; cbn; [reflexivity|]. rewrite IH. reflexivity. Qed.

Lemma number_length es : forall ctr, length (number ctr es) = length es.
Proof. induction es as [|e es IH]; intros ctr; cbn; [reflexivity|]. rewrite IH. reflexivity. Qed.

Lemma number_text es ctr : serialize_legacy (number ctr es) = serialize_legacy es.
Proof.
  unfold serialize_legacy. f_equal. revert ctr.
  induction es as [|e es IH]; intros ctr; cbn; [reflexivity|]. rewrite IH. reflexivity.
Qed.

Lemma keyed_renumber e i : keyed (mkc (c_kind e) (c_key e) (c_text e) (c_val e) i) = keyed e.
Proof. destruct e; reflexivity. Qed.
Lemma white_renumber e i : is_white (mkc (c_kind e) (c_key e) (c_text e) (c_val e) i) = is_white e.
Proof. destruct e; reflexivity. Qed.

Lemma number_keyed es : forall ctr,
  map c_key (filter keyed (number ctr es)) = map c_key (filter keyed es).
Proof.
  induction es as [|e es IH]; intros ctr; cbn [number filter]; [reflexivity|].
  rewrite keyed_renumber. destruct (keyed e); cbn; rewrite IH; reflexivity.
Qed.

Lemma section_renumber e i : is_section (mkc (c_kind e) (c_key e) (c_text e) (c_val e) i) = is_section e.
Proof. destruct e; reflexivity. Qed.

Lemma number_sections es : forall ctr,
  map c_key (filter is_section (number ctr es)) = map c_key (filter is_section es).
Proof.
  induction es as [|e es IH]; intros ctr; cbn [number filter]; [reflexivity|].
  rewrite section_renumber. destruct (is_section e); cbn; rewrite IH; reflexivity.
Qed.

Lemma number_white_ids es : forall ctr i,
  In i (map c_id (filter is_white (number ctr es))) -> ctr <= i < ctr + length es.
Proof.
  induction es as [|e es IH]; intros ctr i; cbn [number filter]; [contradiction|].
  rewrite white_renumber. destruct (is_white e); cbn.
  - intros [H|H]; [lia|apply IH in H; lia].
  - intros H; apply IH in H; lia.
Qed.

Lemma number_white_nodup es : forall ctr, NoDup (map c_id (filter is_white (number ctr es))).
Proof.
  induction es as [|e es IH]; intros ctr; cbn [number filter]; [constructor|].
  rewrite white_renumber. destruct (is_white e); cbn; [|apply IH].
  constructor; [|apply IH]. intros H. apply number_white_ids in H. lia.
Qed.

Lemma number_uniq es ctr : ukeys es -> uniq (number ctr es).
Proof.
  intros [H1 H2]. split; [rewrite number_keyed; exact H1|].
  split; [apply number_white_nodup|rewrite number_sections; exact H2].
Qed.

Lemma parse_number_ws es ctr i : ukeys es ->
  In (DW i) (dkeys (parse_resource (number ctr es))) -> ctr <= i < ctr + length es.
Proof.
  intros H Hin. rewrite parse_resource_uniq in Hin by (apply number_uniq; exact H).
  apply key_values_DW in Hin. apply number_white_ids in Hin. exact Hin.
Qed.

Lemma nwk_false k : nwk k = false -> exists i, k = DW i.
Proof. destruct k; cbn; try discriminate. eauto. Qed.

Lemma number_all_sep vs : Forall ukeys vs -> forall ctr,
  ws_sep (map parse_resource (number_all ctr vs)) /\
  Forall wf (map parse_resource (number_all ctr vs)) /\
  (forall d i, In d (map parse_resource (number_all ctr vs)) -> In (DW i) (dkeys d) -> ctr <= i).
Proof.
  induction 1 as [|v vs Hv _ IH]; intros ctr; cbn.
  - repeat split; [constructor|]. intros d i [].
  - destruct (IH (ctr + length v)) as (I1 & I2 & I3). repeat split.
    + intros d' Hd' k Hk Hin Hin'. apply nwk_false in Hk. destruct Hk as [i ->].
      apply (parse_number_ws v ctr i Hv) in Hin. apply (I3 d' i Hd') in Hin'. lia.
    + exact I1.
    + constructor; [|exact I2]. apply parse_resource_wf. apply number_uniq. exact Hv.
    + intros d i [Hd|Hd] Hin.
      * subst d. apply (parse_number_ws v ctr i Hv) in Hin. lia.
      * apply (I3 d i Hd) in Hin. lia.
Qed.

(* non-whitespace keys of a version do not depend on the numbering *)
Definition vkeys (es : list centry) : list dkey := filter nwk (map fst (key_values es [])).

Lemma key_values_number es : forall ctr c,
  filter nwk (map fst (key_values (number ctr es) c)) = filter nwk (map fst (key_values es c)).
Proof.
  induction es as [|e es IH]; intros ctr c; cbn; [reflexivity|].
  unfold get_key_value. cbn. destruct (c_kind e); cbn; rewrite IH; reflexivity.
Qed.

Lemma ekeys_parse_number es ctr : ukeys es -> ekeys (parse_resource (number ctr es)) = vkeys es.
Proof.
  intros H. unfold ekeys. rewrite parse_resource_uniq by (apply number_uniq; exact H).
  unfold dkeys. apply key_values_number.
Qed.

(* ---- lookups in a parsed version -------------------------------------------------------------------- *)
Definition has_key (k : str) (e : centry) : bool := keyed e && str_eqb (c_key e) k.

Lemma str_eqb_sym a b : str_eqb a b = str_eqb b a.
Proof.
  destruct (str_eqb a b) eqn:E.
  - apply str_eqb_eq in E. subst. symmetry. apply str_eqb_eq. reflexivity.
  - destruct (str_eqb b a) eqn:E2; [|reflexivity]. apply str_eqb_eq in E2. subst.
    assert (str_eqb a a = true) by (apply str_eqb_eq; reflexivity). congruence.
Qed.

Lemma gkv_DK e c k :
  dkey_eqb (DK k) (fst (fst (get_key_value e c))) = has_key k e /\
  snd (fst (get_key_value e c)) = e.
Proof.
  unfold get_key_value, has_key, keyed, is_comment, is_white, is_section.
  destruct (c_kind e); cbn; rewrite ?(str_eqb_sym k (c_key e)); auto.
Qed.

Lemma key_values_get es k : forall c,
  od_get dkey_eqb (DK k) (key_values es c) = find (has_key k) es.
Proof.
  induction es as [|e es IH]; intros c; cbn [key_values find]; [reflexivity|].
  destruct (gkv_DK e c k) as [H1 H2].
  destruct (get_key_value e c) as [[k' e'] c']. cbn in *. subst e'. rewrite H1.
  destruct (has_key k e); [reflexivity|apply IH].
Qed.

Lemma key_values_In_DK es e : forall c, In e es -> keyed e = true ->
  In (DK (c_key e)) (map fst (key_values es c)).
Proof.
  induction es as [|a es IH]; intros c Hin Hk; [contradiction|].
  cbn. destruct Hin as [->|Hin].
  - unfold get_key_value. unfold keyed, is_comment, is_white, is_section in Hk.
    destruct (c_kind e); cbn in *; try discriminate; left; reflexivity.
  - destruct (get_key_value a c) as [p c'] eqn:E. cbn. right. apply IH; assumption.
Qed.

Lemma has_key_renumber k e i :
  has_key k (mkc (c_kind e) (c_key e) (c_text e) (c_val e) i) = has_key k e.
Proof. destruct e; reflexivity. Qed.

Lemma find_number k es : forall ctr,
  option_map strip (find (has_key k) (number ctr es)) = option_map strip (find (has_key k) es).
Proof.
  induction es as [|e es IH]; intros ctr; cbn [number find]; [reflexivity|].
  rewrite has_key_renumber. destruct (has_key k e); [reflexivity|apply IH].
Qed.

Fixpoint first_entry (k : str) (vs : list (list centry)) : option centry :=
  match vs with
  | [] => None
  | v :: vs' => match find (has_key k) v with Some e => Some e | None => first_entry k vs' end
  end.

Lemma first_entry_number k vs : forall ctr,
  option_map strip (first_entry k (number_all ctr vs)) = option_map strip (first_entry k vs).
Proof.
  induction vs as [|v vs IH]; intros ctr; cbn; [reflexivity|].
  pose proof (find_number k v ctr) as H.
  destruct (find (has_key k) (number ctr v)), (find (has_key k) v); cbn in *;
    try discriminate; [exact H|apply IH].
Qed.

Lemma first_get_entry k vs : Forall uniq vs ->
  first_get (DK k) (map parse_resource vs) = first_entry k vs.
Proof.
  induction 1 as [|v vs Hv _ IH]; cbn; [reflexivity|].
  rewrite parse_resource_uniq by exact Hv. rewrite key_values_get.
  destruct (find (has_key k) v); [reflexivity|exact IH].
Qed.

Lemma not_keyed e : is_comment e = true \/ is_white e = true \/ is_section e = true -> keyed e = false.
Proof.
  unfold keyed, is_comment, is_white, is_section. destruct (c_kind e); cbn; intuition discriminate.
Qed.

(* in a well-formed dict a keyed entry sits under its own key, once *)
Lemma wf_count_key d k : wf d ->
  length (filter (has_key k) (dvalues d)) = if dmem (DK k) (dkeys d) then 1 else 0.
Proof.
  intros [Hnd Hok]. unfold dvalues, dkeys in *.
  induction d as [|[k' e] d IH]; cbn; [reflexivity|].
  cbn in Hnd. inversion Hnd as [|? ? Hk' Hnd']; subst. inversion Hok as [|? ? He Hok']; subst.
  specialize (IH Hnd' Hok'). unfold key_ok in He. cbn in He.
  destruct k' as [s|v n|i|s]; cbn.
  - destruct He as [He1 He2]. unfold has_key at 1. rewrite He1, He2. cbn.
    rewrite (str_eqb_sym k s). destruct (str_eqb s k) eqn:E; cbn.
    + apply str_eqb_eq in E. subst s. rewrite IH.
      destruct (dmem (DK k) (map fst d)) eqn:E2; [|reflexivity].
      apply dmem_In in E2. subst k. contradiction.
    + exact IH.
  - destruct He as [He1 He2]. unfold has_key at 1. rewrite (not_keyed e) by auto. cbn. exact IH.
  - destruct He as [He1 He2]. unfold has_key at 1. rewrite (not_keyed e) by auto. cbn. exact IH.
  - destruct He as [He1 He2]. unfold has_key at 1. rewrite (not_keyed e) by auto. cbn. exact IH.
Qed.

Lemma wf_keyed_In d e : wf d -> In e (dvalues d) -> keyed e = true ->
  od_get dkey_eqb (DK (c_key e)) d = Some e.
Proof.
  intros [Hnd Hok] Hin Hk. unfold dvalues in Hin. apply in_map_iff in Hin.
  destruct Hin as [[k e'] [Heq Hin]]. cbn in Heq. subst e'.
  rewrite Forall_forall in Hok. pose proof (Hok _ Hin) as H. unfold key_ok in H. cbn in H.
  apply (In_od_get dkey_eqb dkey_eqb_eq); [exact Hnd|].
  destruct k as [s|v n|i|s].
  - destruct H as [_ H]. subst s. exact Hin.
  - destruct H as [H _]. rewrite (not_keyed e) in Hk by auto. discriminate.
  - destruct H as [H _]. rewrite (not_keyed e) in Hk by auto. discriminate.
  - destruct H as [H _]. rewrite (not_keyed e) in Hk by auto. discriminate.
Qed.
