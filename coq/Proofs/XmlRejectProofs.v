(* Model/XmlContent.v rejects every well-formedness-breaking edit at every
   position.  All statements are about strings that contain no "<!" and no "<?"
   (no comment, CDATA section, processing instruction: inside those a '&' or a
   '<' is harmless) — the value grammar of C07 has none. *)
From Coq Require Import NArith List Bool Arith Lia.
From CL Require Import Base.Str Regex.Rx Generated.C07Facts Model.XmlContent.
Import ListNotations.

Local Arguments is_name_start : simpl never.
Local Arguments is_name_char : simpl never.
Local Arguments is_xml_char : simpl never.
Local Arguments is_ws : simpl never.
Local Arguments is_digit : simpl never.
Local Arguments is_hex : simpl never.
Local Arguments N.eqb : simpl never.
Local Arguments Nat.eqb : simpl never.
Local Arguments str_eqb : simpl never.
Local Arguments mem_str : simpl never.

(* ---- running a prefix --------------------------------------------------------- *)
Fixpoint run_opt (refok : str -> bool) (st : xst) (p : str) : option xst :=
  match p with
  | [] => Some st
  | c :: p' => match step refok st c with
               | Some st' => run_opt refok st' p'
               | None => None
               end
  end.

Lemma run_app : forall refok p st s,
  run refok st (p ++ s) = match run_opt refok st p with
                          | Some st' => run refok st' s
                          | None => false
                          end.
Proof.
  induction p as [|c p IH]; simpl; intros st s; [reflexivity|].
  destruct (step refok st c); [apply IH | reflexivity].
Qed.

Lemma run_opt_app : forall refok p q st,
  run_opt refok st (p ++ q) = match run_opt refok st p with
                              | Some st' => run_opt refok st' q
                              | None => None
                              end.
Proof.
  induction p as [|c p IH]; simpl; intros q st; [reflexivity|].
  destruct (step refok st c); [apply IH | reflexivity].
Qed.

(* ---- plain states: outside comments, CDATA sections, processing instructions ------------ *)
Definition ok_q (q : N) : bool := N.eqb q c_dq || N.eqb q c_sq.
Definition ok_ctx (x : rctx) : bool := match x with RContent => true | RAttr q => ok_q q end.

Definition plain (m : mode) : bool :=
  match m with
  | MText _ | MLt | MSName _ | MSTag _ | MAName _ | MAEq0 | MAEq | MSlash | MEt0 | MEName _ | MEWs => true
  | MAmp x | MEnt x _ | MHash x | MDec x _ | MHexS x | MHex x _ => ok_ctx x
  | MAVal q => ok_q q
  | _ => false
  end.

Definition is_bq (d : N) : bool := N.eqb d c_bang || N.eqb d c_qm.

(* no "<!" and no "<?" *)
Fixpoint no_special (s : str) : bool :=
  match s with
  | [] => true
  | c :: s' => negb (N.eqb c c_lt && match s' with d :: _ => is_bq d | [] => false end) && no_special s'
  end.

Definition head_ok (m : mode) (s : str) : bool :=
  match m with
  | MLt => match s with d :: _ => negb (is_bq d) | [] => true end
  | _ => true
  end.

Ltac crush_step :=
  repeat match goal with
  | H : (if ?b then _ else _) = Some _ |- _ => destruct b eqn:?; try discriminate
  | H : match ?x with _ => _ end = Some _ |- _ => destruct x eqn:?; try discriminate
  | H : Some _ = Some _ |- _ => inversion H; subst; clear H
  | H : None = Some _ |- _ => discriminate
  end.

Lemma step_plain : forall refok st c s' st',
  plain (x_mode st) = true -> head_ok (x_mode st) (c :: s') = true ->
  no_special (c :: s') = true -> step refok st c = Some st' ->
  plain (x_mode st') = true /\ head_ok (x_mode st') s' = true.
Proof.
  intros refok [m k t a] c s' st' Hp Hh Hn H.
  cbn [no_special] in Hn. apply andb_true_iff in Hn. destruct Hn as [Hn _].
  unfold step in H. cbn [x_mode] in *.
  destruct m; cbn [plain] in Hp; try discriminate;
    cbn [x_mode x_stack x_tag x_attrs with_mode push_tag pop_tag back] in H;
    crush_step; cbn [x_mode with_mode plain head_ok back ok_ctx]; auto;
    try (destruct x; cbn [back plain ok_ctx] in *; auto; fail).
  - (* MText, '<' *)
    split; [reflexivity|]. cbn [andb] in Hn. destruct s'; [reflexivity|]. exact Hn.
  - (* MLt, '!' *) cbn [head_ok] in Hh. unfold is_bq in Hh. rewrite Heqb0 in Hh. discriminate.
  - (* MLt, '?' *) cbn [head_ok] in Hh. unfold is_bq in Hh. rewrite Heqb1, orb_true_r in Hh. discriminate.
  - (* MAName *) destruct (N.eqb c c_eq); split; reflexivity.
  - (* pop_tag *) unfold pop_tag in H. cbn [x_stack] in H. crush_step. split; reflexivity.
  - unfold pop_tag in H. cbn [x_stack] in H. crush_step. split; reflexivity.
Qed.

Lemma starts_with_split : forall p s, starts_with p s = true -> exists rest, s = p ++ rest.
Proof.
  induction p as [|x p IH]; simpl; intros s H; [exists s; reflexivity|].
  destruct s as [|y s]; [discriminate|]. apply andb_true_iff in H. destruct H as [H1 H2].
  apply N.eqb_eq in H1. subst y. destruct (IH _ H2) as [rest ->]. exists rest. reflexivity.
Qed.

Lemma no_special_tail : forall c s, no_special (c :: s) = true -> no_special s = true.
Proof. intros c s H. cbn [no_special] in H. apply andb_true_iff in H. tauto. Qed.

(* a pattern that no plain state survives is rejected wherever it occurs *)
Theorem reject_contains : forall refok p,
  (forall st, plain (x_mode st) = true -> run_opt refok st p = None) ->
  forall s st, contains p s = true -> no_special s = true ->
    plain (x_mode st) = true -> head_ok (x_mode st) s = true -> run refok st s = false.
Proof.
  intros refok p Hp. induction s as [|c s IH]; intros st Hc Hn Hpl Hh.
  - simpl in Hc. rewrite orb_false_r in Hc. apply starts_with_split in Hc. destruct Hc as [rest E].
    destruct p; [|discriminate]. specialize (Hp st Hpl). discriminate.
  - cbn [contains] in Hc. apply orb_true_iff in Hc. destruct Hc as [Hc|Hc].
    + apply starts_with_split in Hc. destruct Hc as [rest ->]. rewrite run_app, (Hp st Hpl). reflexivity.
    + cbn [run]. destruct (step refok st c) as [st'|] eqn:Es; [|reflexivity].
      destruct (step_plain _ _ _ _ _ Hpl Hh Hn Es) as [Hpl' Hh'].
      apply IH; try assumption. eapply no_special_tail; eassumption.
Qed.

Lemma ok_q_cases : forall q, ok_q q = true -> q = c_dq \/ q = c_sq.
Proof.
  unfold ok_q. intros q H. apply orb_true_iff in H. destruct H as [H|H]; apply N.eqb_eq in H; auto.
Qed.

Ltac plain_cases st Hp :=
  destruct st as [m k t a]; cbn [x_mode] in Hp; destruct m; cbn [plain] in Hp; try discriminate;
  try match goal with x : rctx |- _ =>
        destruct x as [|q]; cbn [ok_ctx] in Hp;
        [| destruct (ok_q_cases _ Hp); subst q] end;
  try match goal with q : N |- _ =>
        destruct (ok_q_cases _ Hp); subst q end;
  try (vm_compute; reflexivity).

Definition pat_bare_amp : str := [38; 32]%N.                          (* "& " *)
Definition pat_bare_lt : str := [60; 32]%N.                           (* "< " *)
Definition pat_unterminated : str := [38; 102; 111; 111; 32]%N.       (* "&foo " *)
Definition pat_misnested : str :=                                      (* "<u><s></u></s>" *)
  [60; 117; 62; 60; 115; 62; 60; 47; 117; 62; 60; 47; 115; 62]%N.

Lemma pat_bare_amp_dies : forall refok st, plain (x_mode st) = true -> run_opt refok st pat_bare_amp = None.
Proof. intros refok st Hp. plain_cases st Hp. Qed.

Lemma pat_bare_lt_dies : forall refok st, plain (x_mode st) = true -> run_opt refok st pat_bare_lt = None.
Proof. intros refok st Hp. plain_cases st Hp. Qed.

Lemma pat_unterminated_dies : forall refok st, plain (x_mode st) = true -> run_opt refok st pat_unterminated = None.
Proof. intros refok st Hp. plain_cases st Hp. Qed.

Lemma pat_misnested_dies : forall refok st, plain (x_mode st) = true -> run_opt refok st pat_misnested = None.
Proof. intros refok st Hp. plain_cases st Hp. Qed.

(* ---- the depth of the element stack is determined by what remains to be read ------------ *)
Definition in_tag (m : mode) : bool :=
  match m with
  | MSTag _ | MAName _ | MAEq0 | MAEq | MAVal _ | MEWs => true
  | MAmp (RAttr _) | MEnt (RAttr _) _ | MHash (RAttr _) | MDec (RAttr _) _
  | MHexS (RAttr _) | MHex (RAttr _) _ => true
  | _ => false
  end.

Definition mode_sim (m1 m2 : mode) : Prop :=
  m1 = m2 \/ exists a b, m1 = MText a /\ m2 = MText b.

Definition sim (s1 s2 : xst) : Prop :=
  mode_sim (x_mode s1) (x_mode s2) /\
  (in_tag (x_mode s1) = true -> x_tag s1 = x_tag s2 /\ x_attrs s1 = x_attrs s2).

Lemma mode_sim_refl : forall m, mode_sim m m.
Proof. left. reflexivity. Qed.

Ltac crush_two :=
  repeat match goal with
  | H : (if ?b then _ else _) = Some _ |- _ => destruct b eqn:?; try discriminate
  | H : match ?x with _ => _ end = Some _ |- _ => destruct x eqn:?; try discriminate
  | H : Some _ = Some _ |- _ => inversion H; subst; clear H
  | H : None = Some _ |- _ => discriminate
  | H : true = false |- _ => discriminate
  | H : false = true |- _ => discriminate
  end.

Lemma step_sim : forall refok s1 s2 c s1' s2',
  sim s1 s2 -> step refok s1 c = Some s1' -> step refok s2 c = Some s2' ->
  sim s1' s2' /\
  length (x_stack s1') + length (x_stack s2) = length (x_stack s2') + length (x_stack s1).
Proof.
  intros refok [m1 k1 t1 a1] [m2 k2 t2 a2] c s1' s2' [Hm Ht] H1 H2. cbn [x_mode x_tag x_attrs] in *.
  destruct Hm as [Hm|[ra [rb [-> ->]]]].
  - subst m2. unfold step in H1, H2. cbn [x_mode] in H1, H2.
    destruct m1; try match goal with x : rctx |- _ => destruct x end; cbn [in_tag] in Ht;
      try (destruct (Ht eq_refl) as [<- <-]); clear Ht;
      cbn [x_mode x_stack x_tag x_attrs with_mode push_tag back] in H1, H2;
      unfold pop_tag in H1, H2; cbn [x_stack] in H1, H2;
      crush_two; unfold sim, push_tag; cbn [x_mode x_stack x_tag x_attrs with_mode length in_tag back];
      try (split; [split; [apply mode_sim_refl | try discriminate; auto] | lia]).
    all: match goal with
         | |- in_tag (if ?b then _ else _) = true -> _ => destruct b; cbn [in_tag]; discriminate
         end.
  - clear Ht. unfold step in H1, H2. cbn [x_mode x_stack x_tag x_attrs with_mode] in H1, H2.
    crush_two; unfold sim; cbn [x_mode x_stack x_tag x_attrs with_mode length in_tag];
      (split; [split; [try apply mode_sim_refl; try (right; eauto) | discriminate] | lia]).
Qed.

Theorem depth_unique : forall refok s st1 st2,
  sim st1 st2 -> run refok st1 s = true -> run refok st2 s = true ->
  length (x_stack st1) = length (x_stack st2).
Proof.
  intros refok. induction s as [|c s IH]; intros st1 st2 Hs H1 H2.
  - cbn [run] in H1, H2. unfold final in H1, H2.
    destruct (x_mode st1); try discriminate; destruct (x_stack st1); try discriminate;
    destruct (x_mode st2); try discriminate; destruct (x_stack st2); try discriminate. reflexivity.
  - cbn [run] in H1, H2.
    destruct (step refok st1 c) as [st1'|] eqn:E1; [|discriminate].
    destruct (step refok st2 c) as [st2'|] eqn:E2; [|discriminate].
    destruct (step_sim _ _ _ _ _ _ Hs E1 E2) as [Hs' Hl].
    specialize (IH _ _ Hs' H1 H2). lia.
Qed.

Lemma run_opt_plain : forall refok a st st',
  no_special a = true -> plain (x_mode st) = true -> head_ok (x_mode st) a = true ->
  run_opt refok st a = Some st' -> plain (x_mode st') = true.
Proof.
  intros refok. induction a as [|c a IH]; intros st st' Hn Hp Hh H.
  - cbn [run_opt] in H. inversion H; subst. exact Hp.
  - cbn [run_opt] in H. destruct (step refok st c) as [st1|] eqn:Es; [|discriminate].
    destruct (step_plain _ _ _ _ _ Hp Hh Hn Es) as [Hp1 Hh1].
    eapply IH; try eassumption. eapply no_special_tail; eassumption.
Qed.

Definition pat_open : str := [60; 117; 62]%N.              (* "<u>" *)
Definition pat_close : str := [60; 47; 117; 62]%N.         (* "</u>" *)
Definition s_u : str := [117]%N.

Lemma open_from_text : forall refok rb k t a,
  run_opt refok (mkx (MText rb) k t a) pat_open = Some (mkx (MText 0) (s_u :: k) [] []).
Proof. intros. vm_compute. reflexivity. Qed.

Lemma close_from_text : forall refok rb k t a,
  run_opt refok (mkx (MText rb) k t a) pat_close = pop_tag (mkx (MEName s_u) k t a) s_u.
Proof.
  intros. unfold pat_close. cbn [run_opt].
  change (step refok (mkx (MText rb) k t a) 60%N) with (Some (mkx MLt k t a)). cbv iota.
  change (step refok (mkx MLt k t a) 47%N) with (Some (mkx MEt0 k t a)). cbv iota.
  change (step refok (mkx MEt0 k t a) 117%N) with (Some (mkx (MEName s_u) k t a)). cbv iota.
  change (step refok (mkx (MEName s_u) k t a) 62%N) with (pop_tag (mkx (MEName s_u) k t a) s_u).
  destruct (pop_tag (mkx (MEName s_u) k t a) s_u); reflexivity.
Qed.

Lemma lt_dies_outside_text : forall refok st p,
  plain (x_mode st) = true -> (forall rb, x_mode st <> MText rb) ->
  run_opt refok st (60%N :: p) = None.
Proof.
  intros refok st p Hp Hm. cbn [run_opt].
  assert (E : step refok st 60%N = None); [|rewrite E; reflexivity].
  destruct st as [m k t a]; cbn [x_mode] in *; destruct m; cbn [plain] in Hp; try discriminate;
    try (exfalso; eapply Hm; reflexivity);
    try match goal with x : rctx |- _ =>
          destruct x as [|q]; cbn [ok_ctx] in Hp; [| destruct (ok_q_cases _ Hp); subst q] end;
    try match goal with q : N |- _ => destruct (ok_q_cases _ Hp); subst q end;
    vm_compute; reflexivity.
Qed.

Lemma sim_text : forall ra rb k1 t1 a1 k2 t2 a2,
  sim (mkx (MText ra) k1 t1 a1) (mkx (MText rb) k2 t2 a2).
Proof. intros. split; cbn [x_mode in_tag]; [right; eauto | discriminate]. Qed.

(* an unclosed start tag, anywhere *)
Theorem insert_open_rejected : forall refok a b,
  no_special a = true -> fragment_ok refok (a ++ b) = true ->
  fragment_ok refok (a ++ pat_open ++ b) = false.
Proof.
  unfold fragment_ok. intros refok a b Hn H. rewrite run_app in H |- *.
  destruct (run_opt refok x_init a) as [st|] eqn:Ea; [|discriminate].
  assert (Hp : plain (x_mode st) = true) by (eapply run_opt_plain; try eassumption; reflexivity).
  rewrite run_app.
  destruct st as [m k t a0]. destruct m;
    try (unfold pat_open; rewrite (lt_dies_outside_text refok _ _ Hp);
         [reflexivity | cbn [x_mode]; intros; discriminate]).
  rewrite open_from_text.
  destruct (run refok (mkx (MText 0) (s_u :: k) [] []) b) eqn:E; [|reflexivity].
  pose proof (depth_unique _ _ _ _ (sim_text rb 0 k t a0 (s_u :: k) [] []) H E) as Hl.
  cbn [x_stack length] in Hl. lia.
Qed.

(* a stray end tag, anywhere *)
Theorem insert_close_rejected : forall refok a b,
  no_special a = true -> fragment_ok refok (a ++ b) = true ->
  fragment_ok refok (a ++ pat_close ++ b) = false.
Proof.
  unfold fragment_ok. intros refok a b Hn H. rewrite run_app in H |- *.
  destruct (run_opt refok x_init a) as [st|] eqn:Ea; [|discriminate].
  assert (Hp : plain (x_mode st) = true) by (eapply run_opt_plain; try eassumption; reflexivity).
  rewrite run_app.
  destruct st as [m k t a0]. destruct m;
    try (unfold pat_close; rewrite (lt_dies_outside_text refok _ _ Hp);
         [reflexivity | cbn [x_mode]; intros; discriminate]).
  rewrite close_from_text. unfold pop_tag. cbn [x_stack].
  destruct k as [|top rest]; [reflexivity|]. destruct (str_eqb top s_u); [|reflexivity].
  destruct (run refok (mkx (MText 0) rest [] []) b) eqn:E; [|reflexivity].
  pose proof (depth_unique _ _ _ _ (sim_text rb 0 (top :: rest) t a0 rest [] []) H E) as Hl.
  cbn [x_stack length] in Hl. lia.
Qed.

(* the four patterns that no state survives, anywhere *)
Theorem contains_rejected : forall refok p s,
  In p [pat_bare_amp; pat_bare_lt; pat_unterminated; pat_misnested] ->
  contains p s = true -> no_special s = true -> fragment_ok refok s = false.
Proof.
  intros refok p s Hin Hc Hn. unfold fragment_ok.
  assert (Hd : forall st, plain (x_mode st) = true -> run_opt refok st p = None).
  { destruct Hin as [<-|[<-|[<-|[<-|[]]]]]; intros st Hp;
      [apply pat_bare_amp_dies | apply pat_bare_lt_dies | apply pat_unterminated_dies
       | apply pat_misnested_dies]; exact Hp. }
  eapply reject_contains; try eassumption; reflexivity.
Qed.

(* any '%' makes the declaration malformed *)
Lemma percent_step : forall m out s, ent_repl_from m out (c_pct :: s) = None.
Proof. intros. destruct m; vm_compute; reflexivity. Qed.

Theorem percent_rejected : forall s m out, In c_pct s -> ent_repl_from m out s = None.
Proof.
  induction s as [|c s IH]; intros m out Hin; [contradiction|].
  destruct Hin as [->|Hin]; [apply percent_step|].
  destruct m; cbn [ent_repl_from];
    repeat match goal with
    | |- (if ?b then _ else _) = None => destruct b
    end; auto.
Qed.
