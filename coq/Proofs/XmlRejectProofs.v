(* Model/XmlContent.v rejects every well-formedness-breaking edit at every
   position.  All statements are about strings that contain no "<!" and no "<?"
   (no comment, CDATA section, processing instruction: inside those a '&' or a
   '<' is harmless) — the value grammar of C07 has none. *)
From Coq Require Import NArith List Bool Arith Lia.
From CL Require Import Base.Str Regex.Rx Generated.C07Facts Model.XmlContent.
Import ListNotations.

Local Arguments is_name_start : simpl never.
Local Arguments is_name_char : simpl never.
Local Arguments is_xml_char : simpl never.
Local Arguments is_ws : simpl never.
Local Arguments is_digit : simpl never.
Local Arguments is_hex : simpl never.
Local Arguments N.eqb : simpl never.
Local Arguments Nat.eqb : simpl never.
Local Arguments str_eqb : simpl never.
Local Arguments mem_str : simpl never.

(* ---- running a prefix --------------------------------------------------------- *)
Fixpoint run_opt (refok : str -> bool) (st : xst) (p : str) : option xst :=
  match p with
  | [] => Some st
  | c :: p' => match step refok st c with
               | Some st' => run_opt refok st' p'
               | None => None
               end
  end.

Lemma run_app : forall refok p st s,
  run refok st (p ++ s) = match run_opt refok st p with
                          | Some st' => run refok st' s
                          | None => false
                          end.
Proof.
  induction p as [|c p IH]; simpl; intros st s; [reflexivity|].
  destruct (step refok st c); [apply IH | reflexivity].
Qed.

Lemma run_opt_app : forall refok p q st,
  run_opt refok st (p ++ q) = match run_opt refok st p with
                              | Some st' => run_opt refok st' q
                              | None => None
                              end.
Proof.
  induction p as [|c p IH]; simpl; intros q st; [reflexivity|].
  destruct (step refok st c); [apply IH | reflexivity].
Qed.

(* ---- plain states: outside comments, CDATA sections, processing instructions ------------ *)
Definition ok_q (q : N) : bool := N.eqb q c_dq || N.eqb q c_sq.
Definition ok_ctx (x : rctx) : bool := match x with RContent => true | RAttr q => ok_q q end.

Definition plain (m : mode) : bool :=
  match m with
  | MText _ | MLt | MSName _ | MSTag _ | MAName _ | MAEq0 | MAEq | MSlash | MEt0 | MEName _ | MEWs => true
  | MAmp x | MEnt x _ | MHash x | MDec x _ | MHexS x | MHex x _ => ok_ctx x
  | MAVal q => ok_q q
  | _ => false
  end.

Definition is_bq (d : N) : bool := N.eqb d c_bang || N.eqb d c_qm.

(* no "<!" and no "<?" *)
Fixpoint no_special (s : str) : bool :=
  match s with
  | [] => true
  | c :: s' => negb (N.eqb c c_lt && match s' with d :: _ => is_bq d | [] => false end) && no_special s'
  end.

Definition head_ok (m : mode) (s : str) : bool :=
  match m with
  | MLt => match s with d :: _ => negb (is_bq d) | [] => true end
  | _ => true
  end.

Ltac crush_step :=
  repeat match goal with
  | H : (if ?b then _ else _) = Some _ |- _ => destruct b eqn:?; try discriminate
  | H : match ?x with _ => _ end = Some _ |- _ => destruct x eqn:?; try discriminate
  | H : Some _ = Some _ |- _ => inversion H; subst; clear H
  | H : None = Some _ |- _ => discriminate
  end.

Lemma step_plain : forall refok st c s' st',
  plain (x_mode st) = true -> head_ok (x_mode st) (c :: s') = true ->
  no_special (c :: s') = true -> step refok st c = Some st' ->
  plain (x_mode st') = true /\ head_ok (x_mode st') s' = true.
Proof.
  intros refok [m k t a] c s' st' Hp Hh Hn H.
  cbn [no_special] in Hn. apply andb_true_iff in Hn. destruct Hn as [Hn _].
  unfold step in H. cbn [x_mode] in *.
  destruct m; cbn [plain] in Hp; try discriminate;
    cbn [x_mode x_stack x_tag x_attrs with_mode push_tag pop_tag back] in H;
    crush_step; cbn [x_mode with_mode plain head_ok back ok_ctx]; auto;
    try (destruct x; cbn [back plain ok_ctx] in *; auto; fail).
  - (* MText, '<' *)
    split; [reflexivity|]. cbn [andb] in Hn. destruct s'; [reflexivity|]. exact Hn.
  - (* MLt, '!' *) cbn [head_ok] in Hh. unfold is_bq in Hh. rewrite Heqb0 in Hh. discriminate.
  - (* MLt, '?' *) cbn [head_ok] in Hh. unfold is_bq in Hh. rewrite Heqb1, orb_true_r in Hh. discriminate.
  - (* MAName *) destruct (N.eqb c c_eq); split; reflexivity.
  - (* pop_tag *) unfold pop_tag in H. cbn [x_stack] in H. crush_step. split; reflexivity.
  - unfold pop_tag in H. cbn [x_stack] in H. crush_step. split; reflexivity.
Qed.

Lemma starts_with_split : forall p s, starts_with p s = true -> exists rest, s = p ++ rest.
Proof.
  induction p as [|x p IH]; simpl; intros s H; [exists s; reflexivity|].
  destruct s as [|y s]; [discriminate|]. apply andb_true_iff in H. destruct H as [H1 H2].
  apply N.eqb_eq in H1. subst y. destruct (IH _ H2) as [rest ->]. exists rest. reflexivity.
Qed.

Lemma no_special_tail : forall c s, no_special (c :: s) = true -> no_special s = true.
Proof. intros c s H. cbn [no_special] in H. apply andb_true_iff in H. tauto. Qed.

(* a pattern that no plain state survives is rejected wherever it occurs *)
Theorem reject_contains : forall refok p,
  (forall st, plain (x_mode st) = true -> run_opt refok st p = None) ->
  forall s st, contains p s = true -> no_special s = true ->
    plain (x_mode st) = true -> head_ok (x_mode st) s = true -> run refok st s = false.
Proof.
  intros refok p Hp. induction s as [|c s IH]; intros st Hc Hn Hpl Hh.
  - simpl in Hc. rewrite orb_false_r in Hc. apply starts_with_split in Hc. destruct Hc as [rest E].
    destruct p; [|discriminate]. specialize (Hp st Hpl). discriminate.
  - cbn [contains] in Hc. apply orb_true_iff in Hc. destruct Hc as [Hc|Hc].
    + apply starts_with_split in Hc. destruct Hc as [rest ->]. rewrite run_app, (Hp st Hpl). reflexivity.
    + cbn [run]. destruct (step refok st c) as [st'|] eqn:Es; [|reflexivity].
      destruct (step_plain _ _ _ _ _ Hpl Hh Hn Es) as [Hpl' Hh'].
      apply IH; try assumption. eapply no_special_tail; eassumption.
Qed.

Lemma ok_q_cases : forall q, ok_q q = true -> q = c_dq \/ q = c_sq.
Proof.
  unfold ok_q. intros q H. apply orb_true_iff in H. destruct H as [H|H]; apply N.eqb_eq in H; auto.
Qed.

Ltac plain_cases st Hp :=
  destruct st as [m k t a]; cbn [x_mode] in Hp; destruct m; cbn [plain] in Hp; try discriminate;
  try match goal with x : rctx |- _ =>
        destruct x as [|q]; cbn [ok_ctx] in Hp;
        [| destruct (ok_q_cases _ Hp); subst q] end;
  try match goal with q : N |- _ =>
        destruct (ok_q_cases _ Hp); subst q end;
  try (vm_compute; reflexivity).

Definition pat_bare_amp : str := [38; 32]%N.                          (* "& " *)
Definition pat_bare_lt : str := [60; 32]%N.                           (* "< " *)
Definition pat_unterminated : str := [38; 102; 111; 111; 32]%N.       (* "&foo " *)
Definition pat_misnested : str :=                                      (* "<u><s></u></s>" *)
  [60; 117; 62; 60; 115; 62; 60; 47; 117; 62; 60; 47; 115; 62]%N.

Lemma pat_bare_amp_dies : forall refok st, plain (x_mode st) = true -> run_opt refok st pat_bare_amp = None.
Proof. intros refok st Hp. plain_cases st Hp. Qed.

Lemma pat_bare_lt_dies : forall refok st, plain (x_mode st) = true -> run_opt refok st pat_bare_lt = None.
Proof. intros refok st Hp. plain_cases st Hp. Qed.

Lemma pat_unterminated_dies : forall refok st, plain (x_mode st) = true -> run_opt refok st pat_unterminated = None.
Proof. intros refok st Hp. plain_cases st Hp. Qed.

Lemma pat_misnested_dies : forall refok st, plain (x_mode st) = true -> run_opt refok st pat_misnested = None.
Proof. intros refok st Hp. plain_cases st Hp. Qed.
