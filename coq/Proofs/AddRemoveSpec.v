(* AddRemove.__iter__ (the model [addremove]) equals the independent recursive
   specification [spec] on duplicate-free inputs.

   Route: (1) the dict built by [order_map] is [lent 0 l ++ rent (lent 0 l) 0 (-1) r];
   (2) the "bucket" arrangement of these entries is a permutation of the dict
   and is strictly sorted; (3) a strictly sorted list and a sorted list that
   are permutations of each other are equal, so the bucket arrangement is the
   result of [sort]; (4) the keys of the bucket arrangement are [spec_keys]. *)
From Coq Require Import ZArith List Bool Lia ZifyBool Permutation Sorted.
From CL Require Import Base.Sx Base.Res Model.AddRemove Proofs.AddRemoveProofs.
Import ListNotations.
Open Scope Z_scope.

(* statement sanity checks on concrete inputs *)
Goal addremove Z.eqb [1;2;3] [4;2;5;6;3;7] = spec Z.eqb [1;2;3] [4;2;5;6;3;7].
Proof. vm_compute. reflexivity. Qed.
Goal addremove Z.eqb [1;2;3] [3;8;2;9;1;4] = spec Z.eqb [1;2;3] [3;8;2;9;1;4].
Proof. vm_compute. reflexivity. Qed.
Goal addremove Z.eqb [1;2;3;4] [9;3;8;7;1] = spec Z.eqb [1;2;3;4] [9;3;8;7;1].
Proof. vm_compute. reflexivity. Qed.

(* ---- generic list lemmas ------------------------------------------------ *)
Lemma SSorted_app {A} (P : A -> A -> Prop) (a b : list A) :
  StronglySorted P a -> StronglySorted P b ->
  (forall x y, In x a -> In y b -> P x y) -> StronglySorted P (a ++ b).
Proof.
  intros Ha Hb Hab. induction Ha as [|x a Ha IH Hx]; cbn; [exact Hb|].
  constructor.
  - apply IH. intros u v Hu Hv. apply Hab; [right; exact Hu|exact Hv].
  - apply Forall_app. split; [exact Hx|].
    apply Forall_forall. intros y Hy. apply Hab; [left; reflexivity|exact Hy].
Qed.

Lemma filter_split_perm {A} (f g h : A -> bool) (R : list A) :
  (forall x, In x R -> h x = f x || g x) ->
  (forall x, In x R -> f x && g x = false) ->
  Permutation (filter f R ++ filter g R) (filter h R).
Proof.
  induction R as [|a R IH]; intros Hh Hd; cbn; [constructor|].
  assert (IH' : Permutation (filter f R ++ filter g R) (filter h R)).
  { apply IH; intros x Hx; [apply Hh|apply Hd]; right; exact Hx. }
  rewrite (Hh a (or_introl eq_refl)).
  pose proof (Hd a (or_introl eq_refl)) as Hda.
  destruct (f a), (g a); cbn in *; try discriminate.
  - constructor. exact IH'.
  - symmetry. apply Permutation_cons_app. symmetry. exact IH'.
  - exact IH'.
Qed.

Lemma filter_all {A} (f : A -> bool) (R : list A) :
  Forall (fun x => f x = true) R -> filter f R = R.
Proof.
  induction 1 as [|a R Ha _ IH]; cbn; [reflexivity|]. rewrite Ha, IH. reflexivity.
Qed.

Lemma filter_none {A} (f : A -> bool) (R : list A) :
  Forall (fun x => f x = false) R -> filter f R = [].
Proof.
  induction 1 as [|a R Ha _ IH]; cbn; [reflexivity|]. rewrite Ha, IH. reflexivity.
Qed.

Section Spec.
Context {K : Type} (eqb : K -> K -> bool).
Hypothesis eqb_eq : forall a b, eqb a b = true <-> a = b.

Notation dset := (dset eqb).
Notation dget := (dget eqb).
Notation mem := (mem eqb).
Notation ent := (K * ord)%type.

Definition off (e : ent) : Z := fst (snd e).
Definition ridx (e : ent) : Z := snd (snd e).

(* the entries of the left items, numbered from i *)
Fixpoint lent (i : Z) (l : list K) : list ent :=
  match l with
  | [] => []
  | x :: l' => (x, (i, -1)) :: lent (i + 1) l'
  end.

(* the entries appended by the loop over the right items, looked up in the
   fixed dict m0 of the left items *)
Fixpoint rent (m0 : list ent) (i o : Z) (r : list K) : list ent :=
  match r with
  | [] => []
  | x :: r' =>
      match dget x m0 with
      | Some (li, _) => rent m0 (i + 1) li r'
      | None => (x, (o, i)) :: rent m0 (i + 1) o r'
      end
  end.

(* ---- (1) the dict ------------------------------------------------------- *)
Lemma dset_new k v (m : list ent) :
  mem k (keys m) = false -> dset k v m = m ++ [(k, v)].
Proof.
  induction m as [|[k' v'] m IH]; cbn; [reflexivity|].
  destruct (eqb k k'); cbn; [discriminate|].
  intros H. rewrite IH by exact H. reflexivity.
Qed.

Lemma keys_app (a b : list ent) : keys (a ++ b) = keys a ++ keys b.
Proof. unfold keys. apply map_app. Qed.

Lemma keys_lent i l : keys (lent i l) = l.
Proof.
  revert i; induction l as [|x l IH]; intros i; cbn; [reflexivity|].
  f_equal. apply IH.
Qed.

Lemma build_left_lent l : forall i (m : list ent),
  NoDup (keys m ++ l) -> build_left eqb i l m = m ++ lent i l.
Proof.
  induction l as [|x l IH]; intros i m H; cbn.
  - rewrite app_nil_r. reflexivity.
  - assert (Hx : mem x (keys m) = false).
    { apply (mem_nIn eqb eqb_eq). intros Hin. apply NoDup_remove_2 in H. apply H.
      apply in_or_app; left; exact Hin. }
    rewrite (dset_new _ _ _ Hx). rewrite IH.
    + rewrite <- app_assoc. reflexivity.
    + rewrite keys_app. cbn. rewrite <- app_assoc. exact H.
Qed.

Lemma dget_app x (a b : list ent) :
  dget x (a ++ b) = match dget x a with Some v => Some v | None => dget x b end.
Proof.
  induction a as [|[k v] a IH]; cbn; [reflexivity|].
  destruct (eqb x k); [reflexivity|exact IH].
Qed.

Lemma build_right_rent (m0 : list ent) r : forall i o (acc : list ent),
  NoDup r -> (forall x, In x r -> ~ In x (keys acc)) ->
  build_right eqb i o r (m0 ++ acc) = m0 ++ acc ++ rent m0 i o r.
Proof.
  induction r as [|x r IH]; intros i o acc Hnd Hacc; cbn.
  - rewrite app_nil_r. reflexivity.
  - inversion Hnd as [|? ? Hx Hr]; subst.
    rewrite dget_app. destruct (dget x m0) as [[li ri]|] eqn:E.
    + apply IH; [exact Hr|]. intros y Hy. apply Hacc. right; exact Hy.
    + assert (Ha : dget x acc = None).
      { apply (dget_none eqb). apply (mem_nIn eqb eqb_eq). apply Hacc. left; reflexivity. }
      rewrite Ha. rewrite dset_new.
      2:{ apply (dget_none eqb). rewrite dget_app, E. exact Ha. }
      rewrite <- app_assoc. rewrite IH; [|exact Hr|].
      * rewrite <- app_assoc. reflexivity.
      * intros y Hy. rewrite keys_app. cbn. intros Hin.
        apply in_app_or in Hin. destruct Hin as [Hin|[Hin|[]]].
        -- apply (Hacc y); [right; exact Hy|exact Hin].
        -- subst. contradiction.
Qed.

Lemma order_map_eq l r :
  NoDup l -> NoDup r ->
  order_map eqb l r = lent 0 l ++ rent (lent 0 l) 0 (-1) r.
Proof.
  intros Hl Hr. unfold order_map.
  rewrite (build_left_lent l 0 []) by exact Hl. cbn [app].
  pose proof (build_right_rent (lent 0 l) r 0 (-1) [] Hr) as H.
  rewrite app_nil_r in H. apply H. intros x _ [].
Qed.

(* ---- facts on the left dict --------------------------------------------- *)
Lemma dget_lent x l : forall i p s,
  dget x (lent i l) = Some (p, s) -> s = -1 /\ i <= p < i + Z.of_nat (length l).
Proof.
  induction l as [|a l IH]; intros i p s; simpl; [discriminate|].
  destruct (eqb x a).
  - intros H; inversion H; subst. lia.
  - intros H. apply IH in H. lia.
Qed.

Lemma dget_lent_inj l : forall i x y p s s',
  dget x (lent i l) = Some (p, s) -> dget y (lent i l) = Some (p, s') -> x = y.
Proof.
  induction l as [|a l IH]; intros i x y p s s'; simpl; [discriminate|].
  destruct (eqb x a) eqn:Ex, (eqb y a) eqn:Ey.
  - apply eqb_eq in Ex, Ey. congruence.
  - intros H1 H2. inversion H1; subst. apply dget_lent in H2. lia.
  - intros H1 H2. inversion H2; subst. apply dget_lent in H1. lia.
  - apply IH.
Qed.

Lemma dget_lent_none x i l : dget x (lent i l) = None <-> mem x l = false.
Proof. rewrite (dget_none eqb), keys_lent. reflexivity. Qed.

Lemma dget_lent_some x i l p s : dget x (lent i l) = Some (p, s) -> mem x l = true.
Proof.
  intros H. destruct (mem x l) eqn:E; [reflexivity|].
  apply (dget_lent_none x i l) in E. congruence.
Qed.

Lemma dget_In (m : list ent) : forall k v,
  NoDup (keys m) -> In (k, v) m -> dget k m = Some v.
Proof.
  induction m as [|[k' v'] m IH]; intros k v Hnd Hin; cbn in *; [contradiction|].
  inversion Hnd as [|? ? Hk' Hm]; subst. destruct Hin as [Heq|Hin].
  - inversion Heq; subst. rewrite (eqb_refl eqb eqb_eq). reflexivity.
  - destruct (eqb k k') eqn:E.
    + apply eqb_eq in E. subst. exfalso. apply Hk'.
      apply in_map_iff. exists (k', v). split; [reflexivity|exact Hin].
    + apply IH; assumption.
Qed.

(* ---- facts on the right entries ----------------------------------------- *)
Definition ridx_lt (a b : ent) : Prop := ridx a < ridx b.

Lemma rent_ridx (m0 : list ent) r : forall i o,
  Forall (fun e => i <= ridx e) (rent m0 i o r) /\
  StronglySorted ridx_lt (rent m0 i o r).
Proof.
  induction r as [|a r IH]; intros i o; cbn.
  - split; constructor.
  - destruct (dget a m0) as [[li ri]|].
    + destruct (IH (i + 1) li) as [H1 H2]. split; [|exact H2].
      eapply Forall_impl; [|exact H1]. cbn; intros; lia.
    + destruct (IH (i + 1) o) as [H1 H2]. split.
      * constructor; [unfold ridx; cbn; lia|].
        eapply Forall_impl; [|exact H1]. cbn; intros; lia.
      * constructor; [exact H2|].
        eapply Forall_impl; [|exact H1]. intros e He.
        unfold ridx_lt, ridx in *. cbn. lia.
Qed.

Lemma rent_off (m0 : list ent) n r :
  (forall x p s, dget x m0 = Some (p, s) -> 0 <= p < n) ->
  forall i o, -1 <= o < n -> Forall (fun e => -1 <= off e < n) (rent m0 i o r).
Proof.
  intros Hm. induction r as [|a r IH]; intros i o Ho; cbn; [constructor|].
  destruct (dget a m0) as [[li ri]|] eqn:E.
  - apply IH. apply Hm in E. lia.
  - constructor; [unfold off; cbn; exact Ho|]. apply IH. exact Ho.
Qed.

(* ---- (2) the bucket arrangement ----------------------------------------- *)
Definition lt_ent (a b : ent) : Prop := ord_ltb (snd a) (snd b) = true.

Fixpoint buckets (L R : list ent) : list ent :=
  match L with
  | [] => []
  | e :: L' => e :: filter (fun e' => off e' =? off e) R ++ buckets L' R
  end.

Lemma buckets_lent_cons i x l R :
  buckets (lent i (x :: l)) R =
  (x, (i, -1)) :: filter (fun e' => off e' =? i) R ++ buckets (lent (i + 1) l) R.
Proof. reflexivity. Qed.

Lemma bucket_sorted p (R : list ent) :
  StronglySorted ridx_lt R ->
  StronglySorted lt_ent (filter (fun e => off e =? p) R).
Proof.
  induction 1 as [|a R HR IH Ha]; cbn; [constructor|].
  destruct (off a =? p) eqn:E; [|exact IH].
  constructor; [exact IH|]. apply Forall_forall. intros e He.
  apply filter_In in He. destruct He as [He1 He2].
  rewrite Forall_forall in Ha. specialize (Ha e He1).
  unfold lt_ent. apply ord_ltb_spec. unfold off, ridx_lt, ridx in *. lia.
Qed.

Lemma buckets_sorted (R : list ent) l :
  Forall (fun e => 0 <= ridx e) R -> StronglySorted ridx_lt R ->
  forall i, StronglySorted lt_ent (buckets (lent i l) R) /\
            Forall (fun e => i <= off e) (buckets (lent i l) R).
Proof.
  intros H0 HS. induction l as [|x l IH]; intros i.
  - cbn. split; constructor.
  - rewrite buckets_lent_cons. destruct (IH (i + 1)) as [IH1 IH2].
    assert (Hf : Forall (fun e => off e = i /\ 0 <= ridx e)
                        (filter (fun e' => off e' =? i) R)).
    { apply Forall_forall. intros e He. apply filter_In in He.
      destruct He as [He1 He2]. rewrite Forall_forall in H0.
      specialize (H0 e He1). lia. }
    rewrite Forall_forall in Hf, IH2.
    split.
    + constructor.
      * apply SSorted_app; [apply bucket_sorted; exact HS|exact IH1|].
        intros u v Hu Hv. apply Hf in Hu. apply IH2 in Hv.
        unfold lt_ent. apply ord_ltb_spec. unfold off in *. lia.
      * apply Forall_app. split; apply Forall_forall; intros e He.
        -- apply Hf in He. unfold lt_ent. apply ord_ltb_spec.
           unfold off, ridx in *. cbn. lia.
        -- apply IH2 in He. unfold lt_ent. apply ord_ltb_spec.
           unfold off in *. cbn. lia.
    + constructor; [unfold off; cbn; lia|].
      apply Forall_app. split; apply Forall_forall; intros e He.
      * apply Hf in He. lia.
      * apply IH2 in He. lia.
Qed.

Lemma buckets_perm (R : list ent) l : forall i,
  Forall (fun e => off e < i + Z.of_nat (length l)) R ->
  Permutation (filter (fun e => off e <? i) R ++ buckets (lent i l) R)
              (lent i l ++ R).
Proof.
  induction l as [|x l IH]; intros i Hb.
  - cbn. rewrite app_nil_r. rewrite filter_all; [reflexivity|].
    eapply Forall_impl; [|exact Hb]. cbn. intros; lia.
  - rewrite buckets_lent_cons. cbn [lent app].
    symmetry. apply Permutation_cons_app. symmetry.
    rewrite app_assoc.
    rewrite (filter_split_perm _ _ (fun e => off e <? i + 1)).
    + apply IH. eapply Forall_impl; [|exact Hb]. cbn [length]. intros; lia.
    + intros; lia.
    + intros; lia.
Qed.

Definition arranged (l : list K) (R : list ent) : list ent :=
  filter (fun e => off e <? 0) R ++ buckets (lent 0 l) R.

Lemma arranged_sorted l (R : list ent) :
  Forall (fun e => 0 <= ridx e) R -> StronglySorted ridx_lt R ->
  Forall (fun e => -1 <= off e) R ->
  StronglySorted lt_ent (arranged l R).
Proof.
  intros H0 HS Hm. unfold arranged.
  assert (Hfe : filter (fun e => off e <? 0) R = filter (fun e => off e =? -1) R).
  { apply filter_ext_in. intros e He. rewrite Forall_forall in Hm.
    specialize (Hm e He). lia. }
  rewrite Hfe. destruct (buckets_sorted R l H0 HS 0) as [B1 B2].
  apply SSorted_app; [apply bucket_sorted; exact HS|exact B1|].
  intros u v Hu Hv. apply filter_In in Hu. destruct Hu as [_ Hu].
  rewrite Forall_forall in B2. apply B2 in Hv.
  unfold lt_ent. apply ord_ltb_spec. unfold off in *. lia.
Qed.

(* ---- (3) uniqueness of the sorted arrangement --------------------------- *)
Lemma sorted_unique (S T : list ent) :
  StronglySorted lt_ent S -> StronglySorted ent_le T -> Permutation S T -> S = T.
Proof.
  revert T; induction S as [|s S IH]; intros T HS HT HP.
  - apply Permutation_nil in HP. symmetry; exact HP.
  - destruct T as [|t T]; [apply Permutation_sym, Permutation_nil in HP; discriminate|].
    inversion HS as [|? ? HS' Hs]; subst. inversion HT as [|? ? HT' Ht]; subst.
    assert (s = t).
    { assert (H1 : In t (s :: S))
        by (eapply Permutation_in; [symmetry; exact HP|left; reflexivity]).
      assert (H2 : In s (t :: T))
        by (eapply Permutation_in; [exact HP|left; reflexivity]).
      destruct H1 as [H1|H1]; [exact H1|].
      destruct H2 as [H2|H2]; [symmetry; exact H2|].
      exfalso. rewrite Forall_forall in Hs, Ht.
      specialize (Hs _ H1). specialize (Ht _ H2).
      unfold lt_ent, ent_le, ord_le in *. congruence. }
    subst. f_equal. apply IH; [exact HS'|exact HT'|].
    eapply Permutation_cons_inv; exact HP.
Qed.

Theorem sort_order_map l r :
  NoDup l -> NoDup r ->
  sort (order_map eqb l r) = arranged l (rent (lent 0 l) 0 (-1) r).
Proof.
  intros Hl Hr. symmetry.
  set (R := rent (lent 0 l) 0 (-1) r).
  destruct (rent_ridx (lent 0 l) r 0 (-1)) as [R0 R1]. fold R in R0, R1.
  assert (R2 : Forall (fun e => -1 <= off e < 0 + Z.of_nat (length l)) R).
  { apply rent_off; [|lia]. intros x p s H. apply dget_lent in H. lia. }
  apply sorted_unique.
  - apply arranged_sorted; [exact R0|exact R1|].
    eapply Forall_impl; [|exact R2]. cbn; intros; lia.
  - apply sort_sorted.
  - rewrite sort_perm. rewrite order_map_eq by assumption. fold R.
    unfold arranged. apply buckets_perm.
    eapply Forall_impl; [|exact R2]. cbn; intros; lia.
Qed.

(* ---- (4) the keys of the arrangement are the specification -------------- *)
Lemma followers_notin l r x :
  ~ In x r -> followers eqb x (snd (runs eqb l r)) = [].
Proof.
  induction r as [|y r IH]; intros Hx; cbn; [reflexivity|].
  destruct (runs eqb l r) as [pre gs]. cbn in IH.
  assert (Hxy : eqb x y = false).
  { apply (eqb_neq eqb eqb_eq). intros ->. apply Hx. left; reflexivity. }
  assert (IH' : followers eqb x gs = []).
  { apply IH. intros Hin. apply Hx. right; exact Hin. }
  destruct (mem y l); cbn; [rewrite Hxy|]; exact IH'.
Qed.

Lemma rent_bucket l r x p s :
  dget x (lent 0 l) = Some (p, s) ->
  forall i o, NoDup r -> (o = p -> ~ In x r) ->
  map fst (filter (fun e => off e =? p) (rent (lent 0 l) i o r)) =
  if o =? p then fst (runs eqb l r) else followers eqb x (snd (runs eqb l r)).
Proof.
  intros Hx. induction r as [|y r IH]; intros i o Hnd Ho; cbn.
  - destruct (o =? p); reflexivity.
  - inversion Hnd as [|? ? Hy Hr]; subst.
    pose proof (followers_notin l r x) as Hfn.
    destruct (runs eqb l r) as [pre gs] eqn:Er. cbn in IH, Hfn.
    destruct (dget y (lent 0 l)) as [[q t]|] eqn:Ey.
    + rewrite (dget_lent_some _ _ _ _ _ Ey). cbn.
      destruct (q =? p) eqn:Eq.
      * assert (q = p) by lia. subst q.
        assert (x = y) by (eapply dget_lent_inj; eassumption). subst y.
        rewrite IH; [|exact Hr|intros _; exact Hy]. rewrite Eq.
        destruct (o =? p) eqn:Eo.
        -- exfalso. apply Ho; [lia|left; reflexivity].
        -- rewrite (eqb_refl eqb eqb_eq). reflexivity.
      * assert (Hxy : x <> y).
        { intros ->. rewrite Hx in Ey. inversion Ey. lia. }
        rewrite IH; [|exact Hr|intros; lia]. rewrite Eq.
        destruct (o =? p) eqn:Eo.
        -- apply Hfn. intros Hin. apply Ho; [lia|right; exact Hin].
        -- rewrite (proj2 (eqb_neq eqb eqb_eq x y) Hxy). reflexivity.
    + rewrite (proj1 (dget_lent_none y 0 l) Ey). cbn.
      assert (Ho' : o = p -> ~ In x r).
      { intros E Hin. apply (Ho E). right; exact Hin. }
      unfold off at 1. cbn [fst snd].
      destruct (o =? p) eqn:Eo; cbn; rewrite IH, Eo by assumption; reflexivity.
Qed.

Lemma rent_front l r : forall i o,
  map fst (filter (fun e => off e <? 0) (rent (lent 0 l) i o r)) =
  if o <? 0 then fst (runs eqb l r) else [].
Proof.
  induction r as [|y r IH]; intros i o; cbn.
  - destruct (o <? 0); reflexivity.
  - destruct (runs eqb l r) as [pre gs] eqn:Er. cbn in IH.
    destruct (dget y (lent 0 l)) as [[q t]|] eqn:Ey.
    + rewrite (dget_lent_some _ _ _ _ _ Ey). cbn. rewrite IH.
      apply dget_lent in Ey.
      assert (q <? 0 = false) as -> by lia. destruct (o <? 0); reflexivity.
    + rewrite (proj1 (dget_lent_none y 0 l) Ey). cbn.
      unfold off at 1. cbn [fst snd].
      destruct (o <? 0) eqn:Eo; cbn; rewrite IH, Eo; reflexivity.
Qed.

Lemma buckets_keys l r (L' : list ent) :
  NoDup r ->
  (forall e, In e L' -> dget (fst e) (lent 0 l) = Some (snd e)) ->
  map fst (buckets L' (rent (lent 0 l) 0 (-1) r)) =
  flat_map (fun x => x :: followers eqb x (snd (runs eqb l r))) (map fst L').
Proof.
  intros Hr. induction L' as [|[x [p s]] L' IH]; intros HL; cbn; [reflexivity|].
  f_equal. rewrite map_app. f_equal.
  - pose proof (HL _ (or_introl eq_refl)) as Hx. cbn in Hx.
    rewrite (rent_bucket l r x p s Hx 0 (-1) Hr).
    + apply dget_lent in Hx. assert (-1 =? p = false) as -> by lia. reflexivity.
    + intros E. apply dget_lent in Hx. lia.
  - apply IH. intros e He. apply HL. right; exact He.
Qed.

Theorem sort_keys_spec l r :
  NoDup l -> NoDup r ->
  map fst (sort (order_map eqb l r)) = spec_keys eqb l r.
Proof.
  intros Hl Hr. rewrite sort_order_map by assumption. unfold arranged.
  rewrite map_app, rent_front, buckets_keys; [|exact Hr|].
  - change (map fst (lent 0 l)) with (keys (lent 0 l)). rewrite keys_lent.
    unfold spec_keys. destruct (runs eqb l r) as [pre gs]. reflexivity.
  - intros [k v] He. cbn. apply dget_In; [rewrite keys_lent; exact Hl|exact He].
Qed.

(* ---- main theorems ------------------------------------------------------ *)
Theorem addremove_eq_spec : forall l r : list K,
  NoDup l -> NoDup r -> addremove eqb l r = spec eqb l r.
Proof.
  intros l r Hl Hr. unfold addremove, spec.
  rewrite <- sort_keys_spec by assumption. rewrite map_map. reflexivity.
Qed.

Theorem addremove_anchor : forall l r,
  NoDup l -> NoDup r -> map snd (addremove eqb l r) = spec_keys eqb l r.
Proof.
  intros l r Hl Hr. rewrite addremove_eq_spec by assumption.
  unfold spec. rewrite map_map. cbn. apply map_id.
Qed.

Lemma runs_notin l r :
  Forall (fun y => mem y l = false) (fst (runs eqb l r)) /\
  Forall (fun g => Forall (fun y => mem y l = false) (snd g)) (snd (runs eqb l r)).
Proof.
  induction r as [|y r IH]; cbn; [split; constructor|].
  destruct (runs eqb l r) as [pre gs]. cbn in IH. destruct IH as [IH1 IH2].
  destruct (mem y l) eqn:E; cbn; split; auto.
Qed.

Lemma followers_Forall (P : K -> Prop) x (gs : list (K * list K)) :
  Forall (fun g => Forall P (snd g)) gs -> Forall P (followers eqb x gs).
Proof.
  induction 1 as [|[a ys] gs Ha _ IH]; cbn; [constructor|].
  destruct (eqb x a); [exact Ha|exact IH].
Qed.

Lemma filter_flat_left l (F : K -> list K) (l' : list K) :
  (forall x, In x l' -> mem x l = true) ->
  (forall x, Forall (fun y => mem y l = false) (F x)) ->
  filter (fun k => mem k l) (flat_map (fun x => x :: F x) l') = l'.
Proof.
  intros Hin HF. induction l' as [|x l' IH]; cbn; [reflexivity|].
  rewrite (Hin x (or_introl eq_refl)). f_equal.
  rewrite filter_app, (filter_none _ _ (HF x)). cbn.
  apply IH. intros y Hy. apply Hin. right; exact Hy.
Qed.

Theorem addremove_left_order : forall l r,
  NoDup l -> NoDup r ->
  filter (fun k => mem k l) (map snd (addremove eqb l r)) = l.
Proof.
  intros l r Hl Hr. rewrite addremove_anchor by assumption.
  unfold spec_keys. destruct (runs_notin l r) as [H1 H2].
  destruct (runs eqb l r) as [pre gs]. cbn in H1, H2.
  rewrite filter_app, (filter_none _ _ H1). cbn.
  apply filter_flat_left.
  - intros x Hx. apply (mem_In eqb eqb_eq). exact Hx.
  - intros x. apply followers_Forall. exact H2.
Qed.

End Spec.

