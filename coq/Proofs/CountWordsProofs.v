(* Entry.count_words (Model/CountWords.v): it never runs out of fuel, and on a
   value without '<' it is just len(value.split()). *)
From Coq Require Import NArith List Bool Arith Lia.
From CL Require Import Base.Sx Base.Res Base.Str Regex.Rx Regex.RxLemmas Generated.Tables
  Generated.RxC03 Model.CountWords.
Import ListNotations.
Local Open Scope nat_scope.

Lemma re_sub_total r repl s : exists t, re_sub r repl s = Ok t.
Proof.
  unfold re_sub. destruct (rfinditer r s) eqn:E; [eauto|].
  exfalso. exact (rfinditer_no_fuel r s E).
Qed.

Theorem count_words_total s : exists n, count_words s = Ok n.
Proof.
  unfold count_words. destruct (re_sub_total rx_count_br [10%N] s) as [t ->]. cbn [bind].
  destruct (re_sub_total rx_count_sgml [] t) as [u ->]. cbn [bind]. eauto.
Qed.

(* a regex that begins with the literal '<' finds nothing in a text without '<' *)
Definition lt_c : N := 60%N.

Lemma search_no_lt (r' : rx) : forall l p0 n0 cs fuel ne,
  ~ In lt_c l -> length l < fuel ->
  search_from (Cat (Chr false [(lt_c, lt_c)]) r') fuel (mkst p0 l n0 cs) ne = MNone.
Proof.
  induction l as [|c l IH]; intros p0 n0 cs fuel ne Hn Hf;
    (destruct fuel as [|f]; [lia|]); rewrite search_from_S; unfold run_at; cbn [m suf].
  - reflexivity.
  - assert (Hc : chr_ok false [(lt_c, lt_c)] c = false).
    { unfold chr_ok, in_ranges. cbn [existsb fst snd]. rewrite xorb_false_l, orb_false_r.
      destruct (N.leb_spec lt_c c), (N.leb_spec c lt_c); cbn; try reflexivity.
      exfalso. apply Hn. left. lia. }
    rewrite Hc. unfold advance. cbn [pre pos caps].
    apply IH; [intros H; apply Hn; right; exact H|cbn in Hf; lia].
Qed.

Lemma re_sub_no_lt r' repl s :
  ~ In lt_c s -> re_sub (Cat (Chr false [(lt_c, lt_c)]) r') repl s = Ok s.
Proof.
  intros Hn. unfold re_sub, rfinditer.
  replace (2 * length s + 2) with (S (2 * length s + 1)) by lia.
  rewrite finditer_from_S. unfold st_at. cbn [firstn skipn rev suf].
  rewrite search_no_lt by (auto; lia). reflexivity.
Qed.

Theorem count_words_plain s :
  ~ In lt_c s -> count_words s = Ok (split_count s false).
Proof.
  intros Hn. unfold count_words, rx_count_br, rx_count_sgml.
  rewrite re_sub_no_lt by exact Hn. cbn [bind].
  rewrite re_sub_no_lt by exact Hn. reflexivity.
Qed.
