(* pattern.sub(function, text) for an expression whose match attempt at a position
   is a function of the text from that position on ("local": no look-behind, no
   anchors) and never matches the empty string.  Given a description [here] of one
   attempt, search / finditer / sub are characterised by a left-to-right scan. *)
From Coq Require Import NArith List Bool Arith Lia.
From CL Require Import Base.Sx Base.Res Base.Str Regex.Rx Regex.RxLemmas Model.Unescape
  Proofs.UnescapeProofs.
Import ListNotations.

Local Arguments Nat.ltb : simpl never.
Local Arguments Nat.leb : simpl never.
Local Arguments Nat.eqb : simpl never.

Lemma skipn_skipn' : forall (A : Type) (l : list A) a b, skipn b (skipn a l) = skipn (a + b) l.
Proof.
  intros A l a. revert l. induction a as [|a IH]; intros l b; [reflexivity|].
  destruct l; simpl; [destruct b; reflexivity|apply IH].
Qed.

Definition capsf := nat -> list (nat * (nat * nat)).

Section Local.
Variable R : rx.
(* one attempt at the head of the suffix: length of the match and its captures as a
   function of the start position *)
Variable here : str -> option (nat * capsf).
Hypothesis here_ok : forall pr sf p,
  run_at R (mkst pr sf p []) (fun _ => true) =
  match here sf with
  | Some (n, cf) => MSome (mkres p (p + n) (cf p))
  | None => MNone
  end.
Hypothesis here_len : forall sf n cf, here sf = Some (n, cf) -> 0 < n /\ n <= length sf.

Definition loc_res (p q n : nat) (cf : capsf) : mres := mkres (p + q) (p + q + n) (cf (p + q)).

(* first position of the suffix where an attempt succeeds *)
Fixpoint first_here (sf : str) : option (nat * nat * capsf) :=
  match here sf with
  | Some (n, cf) => Some (0, n, cf)
  | None =>
      match sf with
      | [] => None
      | _ :: t => match first_here t with
                  | Some (q, n, cf) => Some (S q, n, cf)
                  | None => None
                  end
      end
  end.

Lemma first_here_unfold : forall sf,
  first_here sf =
  match here sf with
  | Some (n, cf) => Some (0, n, cf)
  | None =>
      match sf with
      | [] => None
      | _ :: t => match first_here t with
                  | Some (q, n, cf) => Some (S q, n, cf)
                  | None => None
                  end
      end
  end.
Proof. destruct sf; reflexivity. Qed.

Lemma search_loc : forall sf pr p fuel, length sf < fuel ->
  search_from R fuel (mkst pr sf p []) None =
  match first_here sf with
  | None => MNone
  | Some (q, n, cf) => MSome (loc_res p q n cf)
  end.
Proof.
  induction sf as [|c t IH]; intros pr p fuel Hf; (destruct fuel; [simpl in Hf; lia|]);
    rewrite search_from_S; cbv beta iota; cbn [suf pos];
    change (fun s' : st => true) with (fun _ : st => true); rewrite here_ok, first_here_unfold.
  - destruct (here []) as [[n cf]|]; [|reflexivity].
    unfold loc_res. rewrite Nat.add_0_r. reflexivity.
  - destruct (here (c :: t)) as [[n cf]|].
    + unfold loc_res. rewrite Nat.add_0_r. reflexivity.
    + unfold advance. cbn [suf pos pre caps]. rewrite IH by (simpl in Hf; lia).
      destruct (first_here t) as [[[q n] cf]|]; [|reflexivity].
      unfold loc_res. replace (S p + q) with (p + S q) by lia. reflexivity.
Qed.

Lemma first_here_spec : forall sf q n cf, first_here sf = Some (q, n, cf) ->
  here (skipn q sf) = Some (n, cf) /\ q + n <= length sf /\ 0 < n.
Proof.
  induction sf as [|c t IH]; intros q n cf H; rewrite first_here_unfold in H.
  - destruct (here []) as [[n' cf']|] eqn:Eh; [|discriminate]. inversion H; subst.
    simpl. destruct (here_len _ _ _ Eh). repeat split; auto.
  - destruct (here (c :: t)) as [[n' cf']|] eqn:Eh.
    + inversion H; subst. destruct (here_len _ _ _ Eh). simpl skipn. repeat split; auto.
    + destruct (first_here t) as [[[q' n'] cf']|] eqn:F; [|discriminate].
      inversion H; subst. destruct (IH _ _ _ eq_refl) as [A [B C0]].
      simpl skipn. simpl length. repeat split; auto. lia.
Qed.

Fixpoint loc_matches (fuel p : nat) (sf : str) : list mres :=
  match fuel with
  | O => []
  | S f =>
      match first_here sf with
      | None => []
      | Some (q, n, cf) => loc_res p q n cf :: loc_matches f (p + q + n) (skipn (q + n) sf)
      end
  end.

Lemma finditer_loc : forall fuel sf pr p, length sf < fuel ->
  finditer_from R fuel (mkst pr sf p []) None = Some (loc_matches fuel p sf).
Proof.
  induction fuel as [|f IH]; intros sf pr p Hf; [lia|].
  rewrite finditer_from_S. cbn [suf pre pos]. rewrite search_loc by lia.
  cbn [loc_matches]. destruct (first_here sf) as [[[q n] cf]|] eqn:F; [|reflexivity].
  destruct (first_here_spec _ _ _ _ F) as [_ [Hb Hn]].
  unfold loc_res at 1 2 3. cbn [m_end m_start].
  replace (p + q + n - p) with (q + n) by lia.
  rewrite fwd_mkst by lia.
  replace (Nat.eqb (p + q) (p + q + n)) with false by (symmetry; apply Nat.eqb_neq; lia).
  rewrite IH by (rewrite skipn_length; lia).
  replace (p + (q + n)) with (p + q + n) by lia. reflexivity.
Qed.

Lemma rfinditer_loc : forall s,
  rfinditer R s = Some (loc_matches (2 * length s + 2) 0 s).
Proof.
  intros s. unfold rfinditer, st_at. simpl firstn. simpl skipn. simpl rev.
  apply finditer_loc. lia.
Qed.

(* ---- sub ---------------------------------------------------------------------------- *)
Variable f : str -> mres -> result str.      (* the callback, given the subject *)
Variable repl : str -> result str.           (* what it returns, from the suffix at the match *)
Hypothesis f_ok : forall a sf n cf, here sf = Some (n, cf) ->
  f (a ++ sf) (mkres (length a) (length a + n) (cf (length a))) = repl sf.

(* the left-to-right scan *)
Fixpoint loc_spec (fuel : nat) (sf : str) : result str :=
  match fuel with
  | O => Raise OutOfFuel
  | S fu =>
      match here sf with
      | Some (n, _) =>
          match repl sf with
          | Raise e => Raise e
          | Ok r => match loc_spec fu (skipn n sf) with
                    | Raise e => Raise e
                    | Ok tl => Ok (r ++ tl)
                    end
          end
      | None =>
          match sf with
          | [] => Ok []
          | c :: t => match loc_spec fu t with Raise e => Raise e | Ok tl => Ok (c :: tl) end
          end
      end
  end.

(* skipping the unmatched prefix in front of the first match *)
Lemma loc_spec_prefix : forall sf q n cf fuel, first_here sf = Some (q, n, cf) ->
  q < fuel ->
  loc_spec fuel sf =
  match loc_spec (fuel - q) (skipn q sf) with
  | Raise e => Raise e
  | Ok tl => Ok (firstn q sf ++ tl)
  end.
Proof.
  induction sf as [|c t IH]; intros q n cf fuel H Hq; rewrite first_here_unfold in H.
  - destruct (here []) as [[n' cf']|] eqn:Eh; [|discriminate]. inversion H; subst.
    rewrite Nat.sub_0_r. simpl. destruct (loc_spec fuel []); reflexivity.
  - destruct (here (c :: t)) as [[n' cf']|] eqn:Eh.
    + inversion H; subst. rewrite Nat.sub_0_r. simpl skipn. simpl firstn. simpl app.
      destruct (loc_spec fuel (c :: t)); reflexivity.
    + destruct (first_here t) as [[[q' n'] cf']|] eqn:F; [|discriminate].
      inversion H; subst. destruct fuel as [|fu]; [lia|].
      simpl loc_spec at 1. rewrite Eh. rewrite (IH q' n cf fu eq_refl) by lia.
      simpl skipn. simpl firstn. replace (S fu - S q') with (fu - q') by lia.
      destruct (loc_spec (fu - q') (skipn q' t)); reflexivity.
Qed.

Lemma loc_spec_none : forall sf fuel, first_here sf = None -> length sf < fuel ->
  loc_spec fuel sf = Ok sf.
Proof.
  induction sf as [|c t IH]; intros fuel H Hf; rewrite first_here_unfold in H;
    (destruct fuel as [|fu]; [simpl in Hf; lia|]); simpl loc_spec.
  - destruct (here []) as [[n cf]|]; [discriminate|reflexivity].
  - destruct (here (c :: t)) as [[n cf]|]; [discriminate|].
    destruct (first_here t) as [[[q n] cf]|] eqn:F; [discriminate|].
    rewrite IH by (auto; simpl in Hf; lia). reflexivity.
Qed.

(* more fuel does not change a finished scan *)
Lemma loc_spec_fuel : forall fuel sf fuel', length sf < fuel -> length sf < fuel' ->
  loc_spec fuel sf = loc_spec fuel' sf.
Proof.
  induction fuel as [|fu IH]; intros sf fuel' H1 H2; [lia|].
  destruct fuel' as [|fu']; [lia|]. simpl.
  destruct (here sf) as [[n cf]|] eqn:Eh.
  - destruct (here_len _ _ _ Eh) as [Hn Hl].
    destruct (repl sf); [|reflexivity].
    rewrite (IH (skipn n sf) fu') by (rewrite skipn_length; lia). reflexivity.
  - destruct sf as [|c t]; [reflexivity|].
    rewrite (IH t fu') by (simpl in *; lia). reflexivity.
Qed.

Lemma sub_loc : forall n sf a fuel, length sf <= n -> length sf < fuel ->
  sub_pieces (f (a ++ sf)) (a ++ sf) (length a) (loc_matches fuel (length a) sf) =
  loc_spec (S (length sf)) sf.
Proof.
  induction n as [|n IH]; intros sf a fuel Hn Hf.
  - destruct sf; [|simpl in Hn; lia]. destruct fuel; [lia|].
    cbn [loc_matches]. rewrite first_here_unfold.
    destruct (here []) as [[n0 cf]|] eqn:Eh.
    + destruct (here_len _ _ _ Eh). simpl in *. lia.
    + simpl. rewrite Eh. rewrite skipn_app_length. reflexivity.
  - destruct fuel as [|fu]; [lia|]. cbn [loc_matches].
    destruct (first_here sf) as [[[q m0] cf]|] eqn:F.
    + destruct (first_here_spec _ _ _ _ F) as [Hh [Hb Hm]].
      rewrite (loc_spec_prefix sf q m0 cf (S (length sf)) F) by lia.
      (* the text re-split at the match *)
      assert (S1 : a ++ sf = (a ++ firstn q sf) ++ skipn q sf)
        by (rewrite <- app_assoc, firstn_skipn; reflexivity).
      assert (L1 : length (a ++ firstn q sf) = length a + q)
        by (rewrite app_length, firstn_length; lia).
      assert (S2 : a ++ sf = (a ++ firstn (q + m0) sf) ++ skipn (q + m0) sf)
        by (rewrite <- app_assoc, firstn_skipn; reflexivity).
      assert (L2 : length (a ++ firstn (q + m0) sf) = length a + q + m0)
        by (rewrite app_length, firstn_length; lia).
      simpl sub_pieces. unfold loc_res at 1. rewrite <- L1.
      pose proof (f_ok (a ++ firstn q sf) (skipn q sf) m0 cf Hh) as Hf'.
      rewrite <- S1 in Hf'. rewrite Hf'. clear Hf'.
      destruct (S (length sf) - q) as [|fu'] eqn:Efu; [lia|].
      simpl loc_spec. rewrite Hh.
      destruct (repl (skipn q sf)) as [r|e]; [|reflexivity].
      unfold loc_res. cbn [m_end m_start].
      pose proof (IH (skipn (q + m0) sf) (a ++ firstn (q + m0) sf) fu) as IH'.
      rewrite <- S2, L2 in IH'. rewrite L1. rewrite IH' by (rewrite skipn_length; lia).
      rewrite skipn_skipn'.
      rewrite (loc_spec_fuel fu' (skipn (q + m0) sf) (S (length (skipn (q + m0) sf))))
        by (rewrite skipn_length; lia).
      destruct (loc_spec (S (length (skipn (q + m0) sf))) (skipn (q + m0) sf)) as [tl|e];
        [|reflexivity].
      rewrite slice_app0, app_assoc. reflexivity.
    + cbn [sub_pieces]. rewrite skipn_app_length. rewrite loc_spec_none; auto.
Qed.

Theorem rsub_with_loc : forall line,
  rsub_with R (f line) line = loc_spec (S (length line)) line.
Proof.
  intros line. unfold rsub_with. rewrite rfinditer_loc.
  apply (sub_loc (length line) line [] (2 * length line + 2)); lia.
Qed.
End Local.
