(* ini: the entries merge.py / serializer.py see for the text of a legal block list
   ([icentries_of], Proofs/IniShape.v) are the view (kind, key / comment value / section name,
   Entity.all, raw value) of what the parser yields for that text (C02 blocks_ini); and on
   these entities the model's Entity.wrap (apply_wrap over the parse's spans) is wrap_props:
   the new raw value replaces the tail of the entity text. *)
From Coq Require Import ZArith NArith List Bool Arith Lia.
From CL Require Import Base.Sx Base.Res Base.Str Model.Entry Model.Parse Model.ParseFormats
                       Proofs.C02Roundtrip Proofs.C02BlocksRx Proofs.C02BlocksIniRx Proofs.C02BlocksIni
                       Model.Channels Model.Serializer Proofs.ChannelsProofs Proofs.IniShape.
From CL Require Proofs.C02Blocks Proofs.PropsShape Proofs.PropsView Proofs.PropsWrap Proofs.MergeReparse15
                Proofs.MergeProofs.
Import ListNotations.
Local Open Scope nat_scope.

Local Arguments ctext : simpl never.
Local Arguments Nat.sub : simpl never.
Local Notation centry_view := PropsView.centry_view.
Local Notation cflush := PropsShape.cflush.

Lemma iview_flush (a w rest : str) :
  map (centry_view (a ++ w ++ rest)) (flush (length a) (length w)) = cflush w.
Proof.
  destruct w as [|c w']; [reflexivity|].
  change (flush (length a) (length (c :: w'))) with [mk_white (length a, length a + length (c :: w'))].
  cbn [map PropsShape.cflush].
  unfold PropsView.centry_view, mk_white, all_text, Entry.span_start. cbn [e_kind e_pre e_span fst snd PropsView.ckind_of].
  rewrite (slice_mid a (c :: w') rest). reflexivity.
Qed.

Lemma icents_view : forall bs, Forall legal_iblock bs -> forall (a w : str),
  map (centry_view (a ++ w ++ ifile_text bs)) (ients (length a) (length w) bs) = icents w bs.
Proof.
  induction bs as [|b rest IH]; intros Hleg a w.
  - cbn [ients icents ifile_text map concat]. apply iview_flush.
  - inversion Hleg as [|b' rest' Hb Hrest]; subst b' rest'. specialize (IH Hrest).
    rewrite ifile_text_cons. destruct b as [x|cs|name nl|cs key val nl].
    + cbn [ients icents itext]. rewrite <- app_length.
      replace (a ++ w ++ x ++ ifile_text rest) with (a ++ (w ++ x) ++ ifile_text rest)
        by (rewrite <- !app_assoc; reflexivity).
      apply IH.
    + unfold legal_iblock in Hb. cbn [legal_iblockb] in Hb. apply andb_true_iff in Hb.
      destruct Hb as [Hc1 _].
      assert (Hne : cs <> []) by (destruct cs; [discriminate|discriminate]).
      cbn [ients icents itext]. rewrite map_app. f_equal; [apply iview_flush|].
      set (A0 := a ++ w ++ cbody cs).
      assert (Hs : a ++ w ++ ctext cs ++ ifile_text rest = A0 ++ [10%N] ++ ifile_text rest).
      { unfold A0. rewrite (ctext_body cs Hne). rewrite <- !app_assoc. reflexivity. }
      assert (El : length a + length w + length (cbody cs) = length A0)
        by (unfold A0; rewrite !app_length; lia).
      cbn [map]. f_equal.
      * unfold PropsView.centry_view, mk_comment, all_text, Entry.span_start, icom_centry.
        cbn [e_kind e_pre e_span fst snd PropsView.ckind_of].
        assert (Sl : slice (a ++ w ++ ctext cs ++ ifile_text rest) (length a + length w)
                       (length a + length w + length (cbody cs)) = cbody cs).
        { rewrite (ctext_body cs Hne).
          replace (a ++ w ++ (cbody cs ++ [10%N]) ++ ifile_text rest)
            with ((a ++ w) ++ cbody cs ++ [10%N] ++ ifile_text rest)
            by (rewrite <- !app_assoc; reflexivity).
          rewrite <- app_length. apply slice_mid. }
        rewrite Sl. reflexivity.
      * rewrite Hs, El. change 1 with (length [10%N]). apply IH.
    + set (N0 := a ++ w ++ [91%N]).
      set (A0 := N0 ++ name ++ [93%N]).
      set (s := a ++ w ++ itext (ISection name nl) ++ ifile_text rest).
      assert (Hs : s = A0 ++ eol nl ++ ifile_text rest).
      { unfold s, A0, N0. cbn [itext]. norm_app. reflexivity. }
      assert (En : length a + length w + 1 = length N0)
        by (unfold N0; rewrite !app_length; simpl; lia).
      assert (Ee : length a + length w + S (length name) + 1 = length A0).
      { unfold A0, N0. rewrite !app_length. simpl. lia. }
      cbn [ients icents]. rewrite map_app. f_equal; [apply iview_flush|].
      cbn [map]. rewrite Ee, En. f_equal.
      * unfold PropsView.centry_view, all_text, Entry.span_start, isec_centry.
        cbn [e_kind e_key e_val e_pre e_span PropsView.ckind_of C02Blocks.opt_text fst snd].
        assert (S1 : slice s (length N0) (length N0 + length name) = name).
        { replace s with (N0 ++ name ++ [93%N] ++ eol nl ++ ifile_text rest)
            by (rewrite Hs; unfold A0; norm_app; reflexivity).
          apply slice_mid. }
        assert (S2 : slice s (length a + length w) (length A0) = isec_text name).
        { replace (length A0) with (length (a ++ w) + length (isec_text name))
            by (rewrite <- Ee; unfold isec_text; rewrite app_length; simpl; rewrite app_length; simpl; lia).
          rewrite <- (app_length a w).
          replace s with ((a ++ w) ++ isec_text name ++ eol nl ++ ifile_text rest)
            by (unfold s, isec_text; cbn [itext]; norm_app; reflexivity).
          apply slice_mid. }
        unfold C02Blocks.span_text. cbn [fst snd]. rewrite S1, S2. reflexivity.
      * rewrite Hs. apply IH.
    + set (K0 := a ++ w ++ ctext cs).
      set (V0 := K0 ++ key ++ [61%N]).
      set (A0 := V0 ++ val).
      set (s := a ++ w ++ itext (IEntity cs key val nl) ++ ifile_text rest).
      assert (Hs : s = A0 ++ eol nl ++ ifile_text rest).
      { unfold s, A0, V0, K0. cbn [itext]. norm_app. reflexivity. }
      assert (Ek : length a + length w + length (ctext cs) = length K0)
        by (unfold K0; rewrite !app_length; lia).
      assert (Ev : length K0 + length key + 1 = length V0).
      { unfold V0. rewrite !app_length. simpl. lia. }
      assert (Ee : length V0 + length val = length A0) by (unfold A0; rewrite app_length; lia).
      cbn [ients icents]. rewrite map_app. f_equal; [apply iview_flush|].
      cbn [map]. rewrite Ek, Ev, Ee. f_equal.
      * unfold PropsView.centry_view, all_text, ient_centry.
        cbn [e_kind e_key e_val e_pre e_span PropsView.ckind_of C02Blocks.opt_text fst snd].
        assert (S1 : slice s (length K0) (length K0 + length key) = key).
        { replace s with (K0 ++ key ++ ([61%N] ++ val ++ eol nl) ++ ifile_text rest)
            by (unfold s, K0; cbn [itext]; norm_app; reflexivity).
          apply slice_mid. }
        assert (S2 : slice s (length V0) (length A0) = val).
        { rewrite <- Ee, Hs. unfold A0. rewrite <- app_assoc. apply slice_mid. }
        assert (S3 : slice s (length a + length w) (length A0) = ient_text cs key val).
        { replace (length A0) with (length (a ++ w) + length (ient_text cs key val)).
          2:{ rewrite <- Ee, <- Ev, <- Ek. unfold ient_text. rewrite !app_length. simpl. lia. }
          rewrite <- (app_length a w).
          replace s with ((a ++ w) ++ ient_text cs key val ++ eol nl ++ ifile_text rest)
            by (unfold s, ient_text; cbn [itext]; norm_app; reflexivity).
          apply slice_mid. }
        unfold C02Blocks.span_text. cbn [fst snd]. rewrite S1, S2. f_equal.
        unfold Entry.span_start. cbn [e_pre e_span fst snd].
        destruct cs as [|c cs'].
        -- cbn [fst].
           assert (length K0 = length a + length w) as -> by (rewrite <- Ek; unfold ctext; cbn; lia).
           exact S3.
        -- cbn [fst]. exact S3.
      * rewrite Hs. apply IH.
Qed.

(* the entries of the parse of a legal file, as the models see them *)
Theorem icentries_view : forall bs, Forall legal_iblock bs -> iadjacent_ok bs ->
  exists es, walk_ini (ifile_text bs) = Ok es /\
             map (centry_view (ifile_text bs)) es = icentries_of bs.
Proof.
  intros bs Hl Ha. exists (ientries_of bs). split; [apply blocks_ini; assumption|].
  exact (icents_view bs Hl [] []).
Qed.

(* ---- Entity.wrap ------------------------------------------------------------------------------------ *)
Definition iwrap_good (s : str) (e : entry) : Prop :=
  e_kind e = KEntity -> forall raw,
  apply_wrap s (PropsWrap.wrap_info_of e) (c_key (centry_view s e)) raw =
  PropsWrap.wrap_props (centry_view s e) raw.

Lemma iflush_good s off w : Forall (iwrap_good s) (flush off w).
Proof. destruct w; constructor; [intros H; discriminate|constructor]. Qed.

Lemma ients_wrap : forall bs, Forall legal_iblock bs -> forall (a w : str),
  Forall (iwrap_good (a ++ w ++ ifile_text bs)) (ients (length a) (length w) bs).
Proof.
  induction bs as [|b rest IH]; intros Hleg a w.
  - cbn [ients]. apply iflush_good.
  - inversion Hleg as [|b' rest' Hb Hrest]; subst b' rest'. specialize (IH Hrest).
    rewrite ifile_text_cons. destruct b as [x|cs|name nl|cs key val nl].
    + cbn [ients itext]. rewrite <- app_length.
      replace (a ++ w ++ x ++ ifile_text rest) with (a ++ (w ++ x) ++ ifile_text rest)
        by (rewrite <- !app_assoc; reflexivity).
      apply IH.
    + unfold legal_iblock in Hb. cbn [legal_iblockb] in Hb. apply andb_true_iff in Hb.
      destruct Hb as [Hc1 _].
      assert (Hne : cs <> []) by (destruct cs; [discriminate|discriminate]).
      cbn [ients itext]. apply Forall_app. split; [apply iflush_good|].
      constructor; [intros H; discriminate|].
      set (A0 := a ++ w ++ cbody cs).
      assert (Hs : a ++ w ++ ctext cs ++ ifile_text rest = A0 ++ [10%N] ++ ifile_text rest).
      { unfold A0. rewrite (ctext_body cs Hne). rewrite <- !app_assoc. reflexivity. }
      assert (El : length a + length w + length (cbody cs) = length A0)
        by (unfold A0; rewrite !app_length; lia).
      rewrite Hs, El. change 1 with (length [10%N]). apply IH.
    + set (A0 := (a ++ w ++ [91%N]) ++ name ++ [93%N]).
      assert (Hs : a ++ w ++ itext (ISection name nl) ++ ifile_text rest = A0 ++ eol nl ++ ifile_text rest).
      { unfold A0. cbn [itext]. norm_app. reflexivity. }
      assert (Ee : length a + length w + S (length name) + 1 = length A0).
      { unfold A0. rewrite !app_length. simpl. lia. }
      cbn [ients]. apply Forall_app. split; [apply iflush_good|].
      constructor; [intros H; discriminate|]. rewrite Ee, Hs. apply IH.
    + set (ep := ctext cs ++ key ++ [61%N]).
      set (s := a ++ w ++ itext (IEntity cs key val nl) ++ ifile_text rest).
      set (A0 := (a ++ w) ++ ep ++ val).
      assert (Hs : s = A0 ++ eol nl ++ ifile_text rest).
      { unfold s, A0, ep. cbn [itext]. norm_app. reflexivity. }
      assert (Hs2 : s = (a ++ w) ++ ep ++ val ++ eol nl ++ ifile_text rest).
      { rewrite Hs. unfold A0. norm_app. reflexivity. }
      cbn [ients]. apply Forall_app. split; [apply iflush_good|].
      set (k := length a + length w + length (ctext cs)).
      assert (Ek : k + length key + 1 = length (a ++ w) + length ep).
      { unfold k, ep. rewrite !app_length. simpl. lia. }
      assert (Ee : k + length key + 1 + length val = length A0).
      { rewrite Ek. unfold A0. rewrite !app_length. lia. }
      constructor.
      * intros _ raw.
        pose proof (icents_view (IEntity cs key val nl :: rest) Hleg a w) as Hv.
        rewrite ifile_text_cons in Hv. fold s in Hv. cbn [ients icents] in Hv.
        rewrite map_app in Hv. unfold s in Hv at 1. rewrite iview_flush in Hv. fold s in Hv.
        apply app_inv_head in Hv.
        cbn [map] in Hv. apply MergeReparse15.cons_inv in Hv. destruct Hv as [Hview _]. fold k in Hview.
        rewrite Hview. unfold PropsWrap.wrap_props.
        assert (Tp : PropsWrap.text_pre (ient_centry cs key val) = ep).
        { unfold PropsWrap.text_pre, ient_centry, ient_text. cbn [c_text c_val].
          replace (ctext cs ++ key ++ 61%N :: val) with (ep ++ val) by (unfold ep; norm_app; reflexivity).
          rewrite app_length.
          replace (length ep + length val - length val) with (length ep + 0) by lia.
          rewrite firstn_app_2. cbn. apply app_nil_r. }
        rewrite Tp. cbn [c_key ient_centry].
        unfold apply_wrap, PropsWrap.wrap_info_of. cbn [e_span e_val e_pre option_map].
        assert (Hlen : length A0 <= length s) by (rewrite Hs, app_length; lia).
        assert (P1 : forall pre,
                   pre = match cs with [] => None | _ :: _ => Some (length a + length w, k - 1) end ->
                   pyslice s (Serializer.span_start (PropsWrap.zs (k, k + length key + 1 + length val))
                                (option_map PropsWrap.zs pre))
                           (fst (PropsWrap.zs (k + length key + 1, k + length key + 1 + length val))) = ep).
        { intros pre ->.
          assert (Hgoal : forall z, z = Z.of_nat (length (a ++ w)) ->
                    pyslice s z (fst (PropsWrap.zs (k + length key + 1, k + length key + 1 + length val))) = ep).
          { intros z ->. cbn [PropsWrap.zs fst snd]. rewrite Ek. rewrite PropsWrap.pyslice_nat.
            - rewrite Hs2. apply slice_mid.
            - rewrite Hs2, !app_length. lia.
            - rewrite Hs2, !app_length. lia. }
          apply Hgoal.
          destruct cs as [|c cs']; cbn [option_map Serializer.span_start PropsWrap.zs fst snd].
          - unfold k. unfold ctext. cbn. rewrite app_length. f_equal. lia.
          - rewrite app_length. reflexivity. }
        f_equal. f_equal. f_equal; [apply (P1 _ eq_refl)|].
        cbn [PropsWrap.zs fst snd]. rewrite Ee.
        rewrite PropsWrap.pyslice_nat by assumption. rewrite MergeProofs.slice_empty by lia. rewrite app_nil_r. reflexivity.
      * rewrite Ee, Hs. apply IH.
Qed.

(* on the entities of the parse of a legal file, the model's Entity.wrap is wrap_props *)
Theorem wrap_view_ini : forall bs, Forall legal_iblock bs ->
  forall e, In e (ientries_of bs) -> e_kind e = KEntity -> forall raw,
  apply_wrap (ifile_text bs) (PropsWrap.wrap_info_of e) (c_key (centry_view (ifile_text bs) e)) raw =
  PropsWrap.wrap_props (centry_view (ifile_text bs) e) raw.
Proof.
  intros bs Hl e He Hk raw. pose proof (ients_wrap bs Hl [] []) as H. cbn [app length] in H.
  rewrite Forall_forall in H. apply (H e He Hk raw).
Qed.
