(* C14: the cache-free model of ProjectConfig.filter computes the documented
   semantics (Model/FilterSpec.v) on every configuration built through the
   API, when every excluded configuration that covers the file answers `error`. *)
From Coq Require Import NArith List Bool Arith Lia.
From CL Require Import Base.Sx Base.Res Base.Str Regex.Rx Generated.FilterFacts Generated.RxC14
  Model.Filter Model.FilterSpec Proofs.FilterKeyProofs.
Import ListNotations.

Local Arguments Nat.ltb : simpl never.

(* ---- generic list facts -------------------------------------------------- *)
Lemma find_app {A} (p : A -> bool) (a b : list A) :
  find p (a ++ b) = match find p a with Some x => Some x | None => find p b end.
Proof. induction a as [|x a IH]; simpl; [reflexivity|]. destruct (p x); auto. Qed.

Lemma find_none_existsb {A} (p : A -> bool) (l : list A) :
  find p l = None <-> existsb p l = false.
Proof.
  induction l as [|x l IH]; simpl; [tauto|]. destruct (p x); simpl; [split; discriminate|exact IH].
Qed.

Lemma existsb_rev {A} (p : A -> bool) (l : list A) : existsb p (rev l) = existsb p l.
Proof.
  induction l as [|x l IH]; simpl; [reflexivity|]. rewrite existsb_app, IH. simpl.
  rewrite orb_false_r. apply orb_comm.
Qed.

Lemma existsb_ext' {A} (p q : A -> bool) (l : list A) :
  (forall x, In x l -> p x = q x) -> existsb p l = existsb q l.
Proof.
  induction l as [|x l IH]; intro H; simpl; [reflexivity|].
  rewrite (H x (or_introl eq_refl)), IH; [reflexivity|]. intros y Hy. apply H. right. exact Hy.
Qed.

Lemma flat_map_ext_in' {A B} (g h : A -> list B) (l : list A) :
  (forall x, In x l -> g x = h x) -> flat_map g l = flat_map h l.
Proof.
  induction l as [|x l IH]; intro H; simpl; [reflexivity|].
  rewrite (H x (or_introl eq_refl)), IH; [reflexivity|]. intros y Hy. apply H. right. exact Hy.
Qed.

Lemma forallb_ext_in' {A} (p q : A -> bool) (l : list A) :
  (forall x, In x l -> p x = q x) -> forallb p l = forallb q l.
Proof.
  induction l as [|x l IH]; intro H; simpl; [reflexivity|].
  rewrite (H x (or_introl eq_refl)), IH; [reflexivity|]. intros y Hy. apply H. right. exact Hy.
Qed.

Lemma last_such_rev {A} (p : A -> bool) (l : list A) : last_such p l = find p (rev l).
Proof.
  unfold last_such.
  assert (H : forall acc, fold_left (fun acc x => if p x then Some x else acc) l acc =
                          match find p (rev l) with Some x => Some x | None => acc end).
  { induction l as [|x l IH]; intro acc; simpl; [reflexivity|].
    rewrite IH, find_app. destruct (find p (rev l)); [reflexivity|]. simpl.
    destruct (p x); reflexivity. }
  rewrite H. destruct (find p (rev l)); reflexivity.
Qed.

Lemma flat_map_flat_map {A B C} (f : B -> list C) (g : A -> list B) (l : list A) :
  flat_map f (flat_map g l) = flat_map (fun x => flat_map f (g x)) l.
Proof.
  induction l as [|x l IH]; simpl; [reflexivity|]. rewrite flat_map_app, IH. reflexivity.
Qed.

Lemma Forall2_map_eq {A B C} (R : A -> B -> Prop) (g : B -> C) (h : A -> C) l l' :
  Forall2 R l l' -> (forall x y, In x l -> R x y -> g y = h x) -> map g l' = map h l.
Proof.
  induction 1 as [|x y l l' Hxy _ IH]; intro H; simpl; [reflexivity|].
  rewrite (H x y (or_introl eq_refl) Hxy), IH; [reflexivity|].
  intros x' y' Hin. apply H. right. exact Hin.
Qed.

Lemma Forall2_flat_map_eq {A B C} (R : A -> B -> Prop) (g : B -> list C) (h : A -> list C) l l' :
  Forall2 R l l' -> (forall x y, In x l -> R x y -> g y = h x) -> flat_map g l' = flat_map h l.
Proof.
  induction 1 as [|x y l l' Hxy _ IH]; intro H; simpl; [reflexivity|].
  rewrite (H x y (or_introl eq_refl) Hxy), IH; [reflexivity|].
  intros x' y' Hin. apply H. right. exact Hin.
Qed.

Lemma Forall2_existsb_eq {A B} (R : A -> B -> Prop) (g : B -> bool) (h : A -> bool) l l' :
  Forall2 R l l' -> (forall x y, In x l -> R x y -> g y = h x) -> existsb g l' = existsb h l.
Proof.
  induction 1 as [|x y l l' Hxy _ IH]; intro H; simpl; [reflexivity|].
  rewrite (H x y (or_introl eq_refl) Hxy), IH; [reflexivity|].
  intros x' y' Hin. apply H. right. exact Hin.
Qed.

Lemma mapM_Forall2 {A B} (f : A -> result B) l l' :
  mapM f l = Ok l' -> Forall2 (fun x y => f x = Ok y) l l'.
Proof.
  revert l'. induction l as [|x l IH]; intros l' H; simpl in H.
  - injection H as <-. constructor.
  - destruct (f x) as [y|] eqn:E; simpl in H; [|discriminate].
    destruct (mapM f l) as [ys|] eqn:E'; simpl in H; [|discriminate].
    injection H as <-. constructor; [exact E|]. apply IH. reflexivity.
Qed.

(* ---- severity: the chain of _filter is a least upper bound ---------------- *)
Definition osup (a b : option action) : option action :=
  match a, b with
  | None, x => x
  | x, None => x
  | Some x, Some y => Some (if sev y <? sev x then x else y)
  end.

Definition spec_merge (l : list action) : option action :=
  match l with [] => None | _ => Some (most_severe l) end.

Lemma osup_assoc : forall a b c, osup a (osup b c) = osup (osup a b) c.
Proof. intros [[]|] [[]|] [[]|]; reflexivity. Qed.

Lemma osup_none_r : forall a, osup a None = a.
Proof. intros [[]|]; reflexivity. Qed.

Lemma merge_acts_cons : forall x l, merge_acts (x :: l) = osup x (merge_acts l).
Proof.
  intros x l. unfold merge_acts, sev_order. simpl.
  destruct x as [[]|]; simpl;
    destruct (mem_act (Some AError) l), (mem_act (Some AWarning) l), (mem_act (Some AIgnore) l);
    reflexivity.
Qed.

Lemma merge_acts_nil : merge_acts [] = None.
Proof. reflexivity. Qed.

Lemma merge_early : forall l, mem_act (Some act_early) l = true -> merge_acts l = Some act_early.
Proof. intros l H. unfold merge_acts, sev_order. simpl. unfold act_early in H. rewrite H. reflexivity. Qed.

Lemma osup_early_r : forall x, osup x (Some act_early) = Some act_early.
Proof. intros [[]|]; reflexivity. Qed.

Lemma spec_merge_cons : forall a l, spec_merge (a :: l) = osup (Some a) (spec_merge l).
Proof.
  intros a l. destruct l as [|b l].
  - destruct a; reflexivity.
  - unfold spec_merge. simpl. reflexivity.
Qed.

Lemma spec_merge_app : forall a b, spec_merge (a ++ b) = osup (spec_merge a) (spec_merge b).
Proof.
  induction a as [|x a IH]; intro b.
  - reflexivity.
  - rewrite <- app_comm_cons, !spec_merge_cons, IH, osup_assoc. reflexivity.
Qed.

Lemma spec_merge_flat_map {A} (g : A -> list action) (l : list A) :
  spec_merge (flat_map g l) = merge_acts (map (fun x => spec_merge (g x)) l).
Proof.
  induction l as [|x l IH]; simpl; [reflexivity|].
  rewrite spec_merge_app, merge_acts_cons, IH. reflexivity.
Qed.

Section Proofs.
Variables (matcher locale file : Type).
Variable loc_eqb : locale -> locale -> bool.
Variable matches : matcher -> locale -> file -> bool.
Variable compile_re : str -> option rx.

Notation rule := (rule matcher).
Notation rawrule := (rawrule matcher).
Notation pathd := (pathd matcher locale).
Notation config := (config matcher locale).
Notation rawconfig := (rawconfig matcher locale).
Notation build := (build matcher locale compile_re).
Notation filter_node_pure := (filter_node_pure matcher locale file loc_eqb matches).
Notation filter_pure := (filter_pure matcher locale file loc_eqb matches).
Notation verdicts := (verdicts matcher locale file loc_eqb matches compile_re).
Notation spec := (spec matcher locale file loc_eqb matches compile_re).
Notation rule_applies := (rule_applies matcher locale file matches compile_re).
Notation excludes_error_only := (excludes_error_only matcher locale file loc_eqb matches compile_re).

(* ---- a compiled rule applies ---------------------------------------------- *)
Definition crule_applies (r : rule) (loc : locale) (f : file) (ent : option str) : bool :=
  matches (r_path _ r) loc f &&
  match r_key _ r, ent with
  | None, None => true
  | Some k, Some e => key_match k e
  | _, _ => false
  end.

Lemma scan_rules_pure_find : forall rs loc f ent,
  scan_rules_pure matcher locale file matches rs loc f ent =
  match find (fun r => crule_applies r loc f ent) rs with
  | Some r => r_action _ r
  | None => act_default
  end.
Proof.
  induction rs as [|r rs IH]; intros loc f ent; simpl; [reflexivity|].
  unfold crule_applies at 1. destruct (matches (r_path _ r) loc f); simpl; [|apply IH].
  destruct (r_key _ r) as [k|], ent as [e|]; simpl; try apply IH; try reflexivity.
  destruct (key_match k e); simpl; [reflexivity|apply IH].
Qed.

Lemma compile_key_match : forall s r e,
  compile_key compile_re s = Ok r -> key_match r e = spec_key_match compile_re s e.
Proof.
  intros s r e H. unfold compile_key in H. unfold spec_key_match.
  destruct (starts_with key_re_prefix s).
  - destruct (compile_re (skipn key_re_skip s)); [|discriminate]. injection H as <-. reflexivity.
  - injection H as <-. apply lit_key_match.
Qed.

Lemma compile_keys_spec : forall p a ks rs loc f ent,
  compile_keys matcher compile_re p a ks = Ok rs ->
  Forall (fun r => r_action _ r = a) rs /\
  existsb (fun r => crule_applies r loc f ent) rs =
  matches p loc f && match ent with
                     | Some e => existsb (fun s => spec_key_match compile_re s e) ks
                     | None => false
                     end.
Proof.
  induction ks as [|s ks IH]; intros rs loc f ent H; simpl in H.
  - injection H as <-. split; [constructor|]. simpl. destruct ent; rewrite andb_false_r; reflexivity.
  - destruct (compile_key compile_re s) as [r|] eqn:E; simpl in H; [|discriminate].
    destruct (compile_keys matcher compile_re p a ks) as [rest|] eqn:E'; simpl in H; [|discriminate].
    injection H as <-. destruct (IH rest loc f ent eq_refl) as [F X]. split.
    + constructor; [reflexivity|exact F].
    + simpl. rewrite X. unfold crule_applies. simpl.
      destruct (matches p loc f); simpl; [|reflexivity].
      destruct ent as [e|]; [|reflexivity]. rewrite (compile_key_match s r e E). reflexivity.
Qed.

Definition key_part (k : option rawkey) (ent : option str) : bool :=
  match k, ent with
  | None, None => true
  | Some k', Some e => existsb (fun s => spec_key_match compile_re s e) (flat_keys k')
  | _, _ => false
  end.

Lemma compile_paths_spec : forall ps k a rs loc f ent,
  compile_paths matcher compile_re ps k a = Ok rs ->
  Forall (fun r => r_action _ r = a) rs /\
  existsb (fun r => crule_applies r loc f ent) rs =
  existsb (fun p => matches p loc f) ps && key_part k ent.
Proof.
  induction ps as [|p ps IH]; intros k a rs loc f ent H; simpl in H.
  - injection H as <-. split; [constructor|reflexivity].
  - destruct (match k with
              | Some k' => compile_keys matcher compile_re p a (flat_keys k')
              | None => Ok [mkrule matcher p None a]
              end) as [here|] eqn:E; simpl in H; [|discriminate].
    destruct (compile_paths matcher compile_re ps k a) as [rest|] eqn:E'; simpl in H; [|discriminate].
    injection H as <-. destruct (IH k a rest loc f ent E') as [F X].
    assert (Hh : Forall (fun r => r_action _ r = a) here /\
                 existsb (fun r => crule_applies r loc f ent) here =
                 matches p loc f && key_part k ent).
    { destruct k as [k'|].
      - destruct (compile_keys_spec p a (flat_keys k') here loc f ent E) as [F1 X1].
        split; [exact F1|]. rewrite X1. unfold key_part. destruct ent; reflexivity.
      - injection E as <-. split; [repeat constructor|]. simpl. unfold crule_applies. simpl.
        rewrite orb_false_r. destruct ent; reflexivity. }
    destruct Hh as [F1 X1]. split.
    + apply Forall_app. split; assumption.
    + rewrite existsb_app, X1, X. simpl.
      destruct (matches p loc f), (existsb (fun p0 => matches p0 loc f) ps), (key_part k ent);
        reflexivity.
Qed.

Lemma compile_rule_spec : forall r rs loc f ent,
  compile_rule matcher compile_re r = Ok rs ->
  Forall (fun x => r_action _ x = rr_action _ r) rs /\
  existsb (fun x => crule_applies x loc f ent) rs = rule_applies r loc f ent.
Proof.
  intros r rs loc f ent H. unfold compile_rule in H.
  destruct (compile_paths_spec _ _ _ rs loc f ent H) as [F X]. split; [exact F|].
  rewrite X. unfold rule_applies, key_part. reflexivity.
Qed.

Lemma find_action_all {A} (p : A -> bool) (act : A -> action) a (l : list A) :
  Forall (fun x => act x = a) l ->
  option_map act (find p l) = if existsb p l then Some a else None.
Proof.
  induction 1 as [|x l Hx _ IH]; simpl; [reflexivity|].
  destruct (p x); simpl; [rewrite Hx; reflexivity|exact IH].
Qed.

Lemma compile_rules_last : forall raws rs loc f ent,
  compile_rules matcher compile_re raws = Ok rs ->
  option_map (r_action _) (find (fun r => crule_applies r loc f ent) (rev rs)) =
  option_map (rr_action _) (find (fun r => rule_applies r loc f ent) (rev raws)).
Proof.
  induction raws as [|r raws IH]; intros rs loc f ent H; simpl in H.
  - injection H as <-. reflexivity.
  - destruct (compile_rule matcher compile_re r) as [a|] eqn:E; simpl in H; [|discriminate].
    destruct (compile_rules matcher compile_re raws) as [b|] eqn:E'; simpl in H; [|discriminate].
    injection H as <-. specialize (IH b loc f ent eq_refl).
    rewrite rev_app_distr, find_app. simpl rev. rewrite find_app.
    destruct (find (fun r0 => crule_applies r0 loc f ent) (rev b)) as [x|],
             (find (fun r0 => rule_applies r0 loc f ent) (rev raws)) as [y|];
      simpl in IH; try discriminate; try exact IH.
    destruct (compile_rule_spec r a loc f ent E) as [F X].
    rewrite (find_action_all _ _ (rr_action _ r)); [|apply Forall_rev; exact F].
    rewrite existsb_rev, X. simpl. destruct (rule_applies r loc f ent); reflexivity.
Qed.

(* the reversed scan of the compiled rules = the last documented rule that applies *)
Lemma scan_compiled : forall raws rs loc f ent,
  compile_rules matcher compile_re raws = Ok rs ->
  scan_rules_pure matcher locale file matches (rev rs) loc f ent =
  match last_such (fun r => rule_applies r loc f ent) raws with
  | Some r => rr_action _ r
  | None => AError
  end.
Proof.
  intros raws rs loc f ent H. rewrite scan_rules_pure_find, last_such_rev.
  pose proof (compile_rules_last raws rs loc f ent H) as L.
  destruct (find (fun r => crule_applies r loc f ent) (rev rs)),
           (find (fun r => rule_applies r loc f ent) (rev raws)); simpl in L;
    try discriminate; [injection L as ->|]; reflexivity.
Qed.

Lemma own_action_spec : forall paths raws rs loc f ent,
  compile_rules matcher compile_re raws = Ok rs ->
  own_action_pure matcher locale file loc_eqb matches paths rs loc f ent =
  spec_merge (own_verdict matcher locale file loc_eqb matches compile_re paths raws loc f ent).
Proof.
  intros paths raws rs loc f ent H. unfold own_action_pure, own_verdict.
  assert (E : existsb (fun p : pathd => loc_ok _ _ loc_eqb p loc && matches (p_l10n _ _ p) loc f) paths =
              existsb (fun p => path_covers matcher locale file loc_eqb matches p loc f) paths).
  { apply existsb_ext'. intros p _. unfold loc_ok, path_covers, mem_loc.
    destruct (p_locales _ _ p); reflexivity. }
  rewrite E.
  destruct (existsb (fun p : pathd => path_covers matcher locale file loc_eqb matches p loc f) paths);
    [|reflexivity].
  rewrite (scan_compiled raws rs loc f ent H).
  destruct (last_such _ raws) as [r|]; simpl; [destruct (rr_action _ r)|]; reflexivity.
Qed.

(* ---- configurations built through the API -------------------------------- *)
Lemma rawconfig_ind2 (P : rawconfig -> Prop) :
  (forall locs paths rules children excludes,
      Forall P children -> Forall P excludes ->
      P (mkrawc _ _ locs paths rules children excludes)) ->
  forall r, P r.
Proof.
  intro H. fix IH 1. intros [locs paths rules children excludes]. apply H.
  - induction children as [|c cs IHc]; constructor; [apply IH|exact IHc].
  - induction excludes as [|c cs IHc]; constructor; [apply IH|exact IHc].
Qed.

Lemma fold_add_child : forall cs a p r f ch ex c',
  fold_res (add_child matcher locale) cs (mkconfig _ _ a None p r f ch ex) = Ok c' ->
  c' = mkconfig _ _ a None p r f (ch ++ cs) ex.
Proof.
  induction cs as [|c cs IH]; intros a p r f ch ex c' H; simpl in H.
  - injection H as <-. rewrite app_nil_r. reflexivity.
  - destruct (has_excludes _ _ c); simpl in H; [discriminate|].
    apply IH in H. rewrite <- app_assoc in H. exact H.
Qed.

Lemma fold_exclude : forall es a al p r f ch ex c',
  fold_res (exclude matcher locale) es (mkconfig _ _ a al p r f ch ex) = Ok c' ->
  c' = mkconfig _ _ a al p r f ch (ex ++ es).
Proof.
  induction es as [|e es IH]; intros a al p r f ch ex c' H; simpl in H.
  - injection H as <-. rewrite app_nil_r. reflexivity.
  - unfold exclude in H at 1. destruct (existsb _ (configs _ _ e)); simpl in H; [discriminate|].
    apply IH in H. rewrite <- app_assoc in H. exact H.
Qed.

Lemma build_ok : forall locs paths rules children excludes cfg,
  build (mkrawc _ _ locs paths rules children excludes) = Ok cfg ->
  exists rs cs es,
    compile_rules matcher compile_re rules = Ok rs /\
    mapM build children = Ok cs /\ mapM build excludes = Ok es /\
    cfg = mkconfig _ _ locs None paths rs None cs es.
Proof.
  intros locs paths rules children excludes cfg H. simpl in H.
  unfold add_rules in H.
  destruct (compile_rules matcher compile_re rules) as [rs|]; simpl in H; [|discriminate].
  destruct (mapM build children) as [cs|]; simpl in H; [|discriminate].
  destruct (fold_res _ cs _) as [c2|] eqn:E2; simpl in H; [|discriminate].
  apply fold_add_child in E2. subst c2.
  destruct (mapM build excludes) as [es|]; simpl in H; [|discriminate].
  destruct (fold_res _ es _) as [c3|] eqn:E3; simpl in H; [|discriminate].
  apply fold_exclude in E3. subst c3.
  exists rs, cs, es. repeat split; try reflexivity.
  destruct locs; injection H as <-; reflexivity.
Qed.

Definition tree_ok (raw : rawconfig) : Prop :=
  forall cfg, build raw = Ok cfg ->
    all_locales_pure _ _ cfg = raw_locales _ _ raw /\
    forall loc f ent, excludes_error_only raw loc f = true ->
      filter_node_pure cfg loc f ent = spec_merge (verdicts raw loc f ent).

Lemma tree_all : forall raw, tree_ok raw.
Proof.
  apply rawconfig_ind2. intros locs paths rules children excludes IHc IHe cfg Hb.
  destruct (build_ok _ _ _ _ _ _ Hb) as (rs & cs & es & Hr & Hcs & Hes & ->).
  apply mapM_Forall2 in Hcs, Hes. rewrite Forall_forall in IHc, IHe.
  assert (Hloc : all_locales_pure _ _ (mkconfig _ _ locs None paths rs None cs es) =
                 raw_locales _ _ (mkrawc _ _ locs paths rules children excludes)).
  { unfold all_locales_pure. simpl. rewrite flat_map_flat_map.
    rewrite (Forall2_flat_map_eq _ _ (raw_locales _ _) _ _ Hcs).
    - unfold own_locales. simpl. rewrite app_assoc. reflexivity.
    - intros x y Hin Hxy. exact (proj1 (IHc x Hin y Hxy)). }
  split; [exact Hloc|].
  intros loc f ent Hex. simpl in Hex. apply andb_true_iff in Hex. destruct Hex as [Hexe Hexc].
  rewrite forallb_forall in Hexe, Hexc.
  simpl.
  (* the excluded configurations *)
  rewrite (Forall2_existsb_eq _ _
             (fun e : rawconfig => existsb (loc_eqb loc) (raw_locales _ _ e) &&
                                   negb (is_nil (verdicts e loc f None))) _ _ Hes).
  2:{ intros x y Hin Hxy. destruct (IHe x Hin y Hxy) as [Hl Hf].
      specialize (Hexe x Hin). apply andb_true_iff in Hexe. destruct Hexe as [Hx1 Hx2].
      unfold filter_wrap_pure, mem_loc. rewrite Hl, (Hf loc f None Hx1).
      unfold excl_covers in Hx2.
      destruct (existsb (loc_eqb loc) (raw_locales _ _ x)); simpl; [|reflexivity].
      destruct (verdicts x loc f None) as [|v vs]; [reflexivity|].
      simpl in Hx2. simpl. exact Hx2. }
  destruct (existsb _ excludes); [reflexivity|].
  (* the included configurations *)
  rewrite (Forall2_map_eq _ _ (fun ch : rawconfig => spec_merge (verdicts ch loc f ent)) _ _ Hcs).
  2:{ intros x y Hin Hxy. exact (proj2 (IHc x Hin y Hxy) loc f ent (Hexc x Hin)). }
  rewrite spec_merge_app, spec_merge_flat_map, <- (own_action_spec paths rules rs loc f ent Hr).
  set (acts := map (fun ch : rawconfig => spec_merge (verdicts ch loc f ent)) children).
  destruct (mem_act (Some act_early) acts) eqn:Em.
  - rewrite (merge_early _ Em), osup_early_r. reflexivity.
  - destruct (own_action_pure _ _ _ _ _ paths rs loc f ent) as [a|].
    + apply merge_acts_cons.
    + reflexivity.
Qed.

Theorem refines_spec : forall raw cfg loc f ent,
  build raw = Ok cfg -> excludes_error_only raw loc f = true ->
  filter_pure cfg loc f ent = spec raw loc f ent.
Proof.
  intros raw cfg loc f ent Hb Hex. destruct (tree_all raw cfg Hb) as [Hl Hf].
  unfold Filter.filter_pure, filter_wrap_pure, FilterSpec.spec, mem_loc.
  rewrite Hl, (Hf loc f ent Hex).
  destruct (existsb (loc_eqb loc) (raw_locales _ _ raw)); [|reflexivity].
  destruct (verdicts raw loc f ent); reflexivity.
Qed.

(* ---- the syntactic sufficient condition ----------------------------------- *)
Lemma last_such_some {A} (p : A -> bool) (l : list A) x :
  last_such p l = Some x -> In x l /\ p x = true.
Proof.
  rewrite last_such_rev. intro H. apply find_some in H. destruct H as [Hin Hp].
  split; [apply in_rev; exact Hin|exact Hp].
Qed.

Lemma most_severe_all_error : forall l, l <> [] -> Forall (eq AError) l -> most_severe l = AError.
Proof.
  induction l as [|a l IH]; intros Hne H; [contradiction|].
  inversion H as [|? ? Ha Hl]; subst. simpl. destruct (most_severe l); reflexivity.
Qed.

Lemma verdicts_all_error : forall e loc f,
  file_rules_error _ _ e = true -> Forall (eq AError) (verdicts e loc f None).
Proof.
  intros e loc f. revert e. apply (rawconfig_ind2 (fun e => file_rules_error _ _ e = true ->
                                           Forall (eq AError) (verdicts e loc f None))).
  intros locs paths rules children excludes IHc _ H. simpl in H.
  apply andb_true_iff in H. destruct H as [Hr Hc].
  rewrite forallb_forall in Hr, Hc. rewrite Forall_forall in IHc. simpl.
  destruct (existsb _ excludes); [constructor|].
  apply Forall_app. split.
  - unfold own_verdict. destruct (existsb _ paths); [|constructor].
    destruct (last_such _ rules) as [r|] eqn:E; [|repeat constructor].
    apply last_such_some in E. destruct E as [Hin Hp]. specialize (Hr r Hin).
    unfold FilterSpec.rule_applies in Hp. apply andb_true_iff in Hp. destruct Hp as [_ Hk].
    destruct (rr_key _ r); [discriminate|].
    constructor; [|constructor]. symmetry. apply internal_action_dec_bl. exact Hr.
  - apply Forall_flat_map. apply Forall_forall. intros ch Hin. apply IHc; [exact Hin|].
    apply Hc. exact Hin.
Qed.

Lemma no_exclude_rules_sufficient : forall raw loc f,
  no_exclude_rules _ _ raw = true -> excludes_error_only raw loc f = true.
Proof.
  intros raw loc f. revert raw.
  apply (rawconfig_ind2 (fun raw => no_exclude_rules _ _ raw = true ->
                                    excludes_error_only raw loc f = true)).
  intros locs paths rules children excludes IHc IHe H. simpl in H. simpl.
  apply andb_true_iff in H. destruct H as [He Hc].
  rewrite forallb_forall in He, Hc. rewrite Forall_forall in IHc, IHe.
  apply andb_true_iff. split; apply forallb_forall; intros x Hin.
  - specialize (He x Hin). apply andb_true_iff in He. destruct He as [H1 H2].
    apply andb_true_iff. split; [apply IHe; assumption|].
    unfold excl_covers. destruct (existsb (loc_eqb loc) (raw_locales _ _ x)); [|reflexivity].
    pose proof (verdicts_all_error x loc f H1) as Hall.
    pose proof (most_severe_all_error (verdicts x loc f None)) as Hm.
    destruct (verdicts x loc f None) as [|v vs] eqn:E; [reflexivity|].
    rewrite Hm; [reflexivity|discriminate|exact Hall].
  - apply IHc; [exact Hin|]. apply Hc. exact Hin.
Qed.

End Proofs.
