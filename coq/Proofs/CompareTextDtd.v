(* End to end for .dtd: texts -> report, as Proofs/CompareTextProofs.v does for .properties.
   DTDEntityMixin.val = html_unescape(raw_val) is CPython's html.unescape: a parameter (any
   total function); the (key, value) pairs of a block list are its records with the value
   passed through it.  The Junk counter also advances at parsed entities (dtd_bump), so the
   generated key of the Junk entity is excluded for every counter value. *)
From Coq Require Import ZArith NArith List Bool Arith Lia Permutation.
From CL Require Import Base.Sx Base.Res Base.Str Regex.Rx Model.Entry Model.Parse Model.ParseFormats
  Model.CountWords Model.AddRemove Model.Compare Model.CompareText
  Proofs.C02Roundtrip Proofs.C02Blocks Proofs.CompareSpec Proofs.CompareProofs Proofs.CompareKeys
  Proofs.CompareFlat Proofs.CompareTextProofs Proofs.C02BlocksDtd Proofs.C02BlocksDtdJunk.
Import ListNotations.
Local Open Scope nat_scope.

Section Dtd.
Context (html_unescape : str -> str).
Notation valf := (fun raw : str => Ok (html_unescape raw)).

Definition dtd_pair (r : C02Blocks.record) : pykey * str :=
  (KS (fst (fst r)), html_unescape (snd (fst r))).
Definition dtd_pairs (rs : list C02Blocks.record) : list (pykey * str) := map dtd_pair rs.

Lemma dtd_valued rs : Forall2 (valued valf) rs (dtd_pairs rs).
Proof. induction rs as [|r rs IH]; constructor; [split; reflexivity|exact IH]. Qed.

Lemma parse_dtd_blocks bs j :
  Forall legal_block bs -> adjacent_ok bs ->
  exists C j', parse_dtd html_unescape j (file_text bs) = Ok (C, j') /\
               reads wdf C (dtd_pairs (records_of bs)) [].
Proof.
  intros Hl Ha.
  destruct (C02_roundtrip_dtd_multi bs Hl Ha) as (es & Hw & Hr & _ & Hj).
  destruct (parse_of_views walk_dtd valf dtd_bump (file_text bs) es j
              (dtd_pairs (records_of bs)) [] Hw) as (C & j' & Jc & HC & HR & HJ & _); auto.
  - rewrite Hr. apply dtd_valued.
  - inversion HJ; subst. exists C, j'. auto.
Qed.

Lemma parse_dtd_blocks_junk bs1 g bs2 j :
  Forall legal_block bs1 -> legal_garbage g = true -> Forall legal_block bs2 ->
  jadjacent_ok (with_garbage bs1 g bs2) ->
  let s := file_text bs1 ++ g ++ file_text bs2 in
  let p := length (file_text bs1) in
  exists C j' n, parse_dtd html_unescape j s = Ok (C, j') /\
    reads wdf C (dtd_pairs (records_of bs1 ++ records_of bs2))
          [mkcent (KS (junk_key n (p, p + length g))) g 0 true (Z.of_nat p)].
Proof.
  intros H1 Hg H2 Ha s p.
  destruct (dtd_junk_one_region bs1 g bs2 H1 Hg H2 Ha) as (es & Hw & Hr & _ & Hj & Hs).
  fold s in Hw, Hr, Hs. fold p in Hj, Hs.
  destruct (parse_of_views walk_dtd valf dtd_bump s es j
              (dtd_pairs (records_of bs1 ++ records_of bs2)) [mk_junk (p, p + length g)] Hw)
    as (C & j' & Jc & HC & HR & HJ & _); auto.
  - rewrite Hr. apply dtd_valued.
  - inversion HJ as [|x c xs cs (n & Hc) Hrest]; subst. inversion Hrest; subst.
    exists C, j', n. split; [exact HC|].
    unfold junk_cent, mk_junk, text_of in HR. cbn [e_span fst snd] in HR. rewrite Hs in HR. exact HR.
Qed.

Section EndToEnd.
Context (chk : @cent pykey str -> @cent pykey str -> list finding) (merge : bool) (j0 : nat).
Context (bsR : list block).
Hypothesis HlegR : Forall legal_block bsR.
Hypothesis HadjR : adjacent_ok bsR.
Notation lR := (dtd_pairs (records_of bsR)).
Hypothesis HndR : NoDup (lkeys lR).

Theorem end_to_end_dtd (bsL : list block) :
  Forall legal_block bsL -> adjacent_ok bsL ->
  let lL := dtd_pairs (records_of bsL) in
  NoDup (lkeys lL) ->
  exists r, compare_dtd html_unescape j0 (fun _ => VError) chk merge (file_text bsR) (file_text bsL)
            = Ok r /\
            report lR lL r /\ filter (@is_njunk pykey) (a_notes r) = [] /\
            ((forall a b, chk a b = []) ->
             summary (fun _ => VError) r =
             0 :: 0 :: flat_stats pykey_eqb str_eqb py_keyname wdf lR lL).
Proof.
  intros Hl Ha lL HndL.
  destruct (parse_dtd_blocks bsR j0 HlegR HadjR) as (R & j1 & HpR & HrR).
  destruct (parse_dtd_blocks bsL j1 Hl Ha) as (L & j2 & HpL & HrL).
  destruct (end_to_end_core walk_dtd valf dtd_bump chk merge lR lL HndR HndL
              (file_text bsR) (file_text bsL) R L [] j0 j1 j2 HpR HrR HpL HrL)
    as (r & Hr & Hrep & Hj & Hsum).
  - constructor.
  - intros j [].
  - intros j [].
  - exists r. split; [exact Hr|]. split; [exact Hrep|]. split; [|exact Hsum].
    apply Permutation_sym, Permutation_nil in Hj. exact Hj.
Qed.

Theorem end_to_end_dtd_junk (bs1 : list block) (g : str) (bs2 : list block) :
  Forall legal_block bs1 -> legal_garbage g = true -> Forall legal_block bs2 ->
  jadjacent_ok (with_garbage bs1 g bs2) ->
  let lL := dtd_pairs (records_of bs1 ++ records_of bs2) in
  let textL := file_text bs1 ++ g ++ file_text bs2 in
  let p := length (file_text bs1) in
  NoDup (lkeys lL) ->
  (forall n, ~ In (KS (junk_key n (p, p + length g))) (lkeys lR)) ->
  (forall n, ~ In (KS (junk_key n (p, p + length g))) (lkeys lL)) ->
  exists r, compare_dtd html_unescape j0 (fun _ => VError) chk merge (file_text bsR) textL = Ok r /\
            report lR lL r /\
            filter (@is_njunk pykey) (a_notes r) = [NJunk (Z.of_nat p)] /\
            slice textL p (p + length g) = g /\
            ((forall a b, chk a b = []) ->
             summary (fun _ => VError) r =
             1 :: 0 :: flat_stats pykey_eqb str_eqb py_keyname wdf lR lL).
Proof.
  intros H1 Hg H2 Ha lL textL p HndL HjR HjL.
  destruct (parse_dtd_blocks bsR j0 HlegR HadjR) as (R & j1 & HpR & HrR).
  destruct (parse_dtd_blocks_junk bs1 g bs2 j1 H1 Hg H2 Ha) as (L & j2 & n & HpL & HrL).
  fold textL p lL in HpL, HrL.
  set (J := [mkcent (KS (junk_key n (p, p + length g))) g 0 true (Z.of_nat p)]) in *.
  destruct (end_to_end_core walk_dtd valf dtd_bump chk merge lR lL HndR HndL
              (file_text bsR) textL R L J j0 j1 j2 HpR HrR HpL HrL)
    as (r & Hr & Hrep & Hj & Hsum).
  - repeat constructor. intros [].
  - intros j [<-|[]]. apply HjL.
  - intros j [<-|[]]. apply HjR.
  - exists r. split; [exact Hr|]. split; [exact Hrep|]. split.
    + apply Permutation_singleton. exact Hj.
    + split; [unfold textL, p; apply C02Roundtrip.slice_mid|exact Hsum].
Qed.

End EndToEnd.
End Dtd.
