(* Proofs about Model/Observer.v, part 2: the details as an insertion log,
   quiet levels, the fan-out of ObserverList and the exit status. *)
From Coq Require Import ZArith NArith List Bool Arith Lia.
From CL Require Import Base.Sx Base.Res Base.Str Model.Tree Model.Observer
  Generated.ObserverFacts Proofs.TreeProofs Proofs.TreeRefine Proofs.ObserverProofs.
Import ListNotations.

Local Open Scope nat_scope.
Local Arguments Nat.leb : simpl never.
Local Arguments Nat.ltb : simpl never.
Local Arguments Nat.eqb : simpl never.

(* ---- subsequences ----------------------------------------------------------- *)
Inductive subseq {A : Type} : list A -> list A -> Prop :=
| ss_nil : subseq [] []
| ss_skip : forall x l' l, subseq l' l -> subseq l' (x :: l)
| ss_keep : forall x l' l, subseq l' l -> subseq (x :: l') (x :: l).

Lemma subseq_refl : forall {A} (l : list A), subseq l l.
Proof. induction l; constructor; assumption. Qed.

Lemma subseq_app : forall {A} (a b c d : list A), subseq a b -> subseq c d -> subseq (a ++ c) (b ++ d).
Proof.
  intros A a b c d H Hc. induction H; simpl.
  - exact Hc.
  - apply ss_skip. exact IHsubseq.
  - apply ss_keep. exact IHsubseq.
Qed.

Lemma subseq_nil_l : forall {A} (l : list A), subseq [] l.
Proof. induction l; constructor; assumption. Qed.

(* ---- the details as a log of insertions ---------------------------------------- *)
Definition ev_detail (q : nat) (flt : option filter_t) (e : event) : list (key * list item) :=
  match e with
  | ENotify c f d =>
      if detailed q flt c f d then [(file_parts f, [item_of c (overdict flt c f d) d])] else []
  | EStats _ _ => []
  end.

Definition dlog (q : nat) (flt : option filter_t) (h : list event) : list (key * list item) :=
  flat_map (ev_detail q flt) h.

Lemma ostate_step_details : forall q flt st e, keys_ok (o_details st) -> ev_ok e ->
  run_tree (o_details st) (ev_detail q flt e) = Ok (o_details (ostate_step q flt st e)).
Proof.
  intros q flt st [c f d | f stats] Hk He; simpl in *.
  - rewrite notify_state_details. destruct (detailed q flt c f d); [|reflexivity].
    simpl. unfold ins.
    destruct (tree_getitem_ok (o_details st) (file_parts f) [item_of c (overdict flt c f d) d] He Hk)
      as (t' & Ht & _).
    rewrite Ht. reflexivity.
  - unfold update_state. destruct (stats_ignored flt f); [reflexivity|].
    rewrite stats_state_details. reflexivity.
Qed.

Lemma run_tree_app : forall {V} (a b : list (key * list V)) (t : tree V),
  run_tree t (a ++ b) = bind (run_tree t a) (fun t' => run_tree t' b).
Proof.
  induction a as [|[p xs] a IH]; intros b t; simpl; [reflexivity|].
  destruct (tree_getitem t p xs); simpl; [apply IH | reflexivity].
Qed.

Lemma orun_details : forall q flt h st, ost_ok st -> Forall ev_ok h ->
  run_tree (o_details st) (dlog q flt h) = Ok (o_details (orun_pure q flt st h)).
Proof.
  induction h as [|e h IH]; intros st Hok Hh; [reflexivity|].
  pose proof (Forall_inv Hh) as He. pose proof (Forall_inv_tail Hh) as Hh'.
  unfold dlog. simpl. rewrite run_tree_app.
  rewrite (ostate_step_details q flt st e (proj2 Hok) He). simpl.
  apply IH; [|exact Hh']. apply (ostep_eq q flt st e Hok He).
Qed.

(* ---- quiet -------------------------------------------------------------------- *)
(* raising the quiet level only hides categories.  This uses the generated
   thresholds; it is false, e.g., for thr_obsolete_file_shown = 1 *)
Lemma shown_mono : forall q q' c, q <= q' -> shown q' c = true -> shown q c = true.
Proof.
  intros q q' c Hq. unfold shown, thr_files_hidden, thr_obsolete_file_shown, thr_missingEntity,
    thr_obsoleteEntity, thr_error, thr_warning.
  destruct c; rewrite ?andb_true_iff, ?negb_true_iff, ?Nat.leb_gt, ?Nat.ltb_lt, ?Nat.eqb_eq;
    try lia; try discriminate.
Qed.

Lemma detailed_mono : forall q q' flt c f d, q <= q' ->
  detailed q' flt c f d = true -> detailed q flt c f d = true.
Proof.
  intros q q' flt c f d Hq. unfold detailed. rewrite !andb_true_iff. intros [A B].
  split; [exact A | eapply shown_mono; eassumption].
Qed.

Lemma dlog_mono : forall q q' flt h, q <= q' -> subseq (dlog q' flt h) (dlog q flt h).
Proof.
  intros q q' flt h Hq. induction h as [|e h IH]; [constructor|].
  unfold dlog in *. simpl. apply subseq_app; [|exact IH].
  destruct e as [c f d | f stats]; simpl; [|constructor].
  destruct (detailed q' flt c f d) eqn:E'.
  - rewrite (detailed_mono q q' flt c f d Hq E'). apply subseq_refl.
  - apply subseq_nil_l.
Qed.

(* the per-path value lists of a sub-log are subsequences *)
Section HvalSub.
Context {V : Type}.

Definition vals (l : list (key * list V)) (p : key) : list V :=
  concat (map snd (filter (fun e => key_eqb (fst e) p) l)).
Definition has (l : list (key * list V)) (p : key) : bool :=
  existsb (fun e => key_eqb (fst e) p) l.

Lemma hval_vals : forall l p, hval l p = if has l p then Some (vals l p) else None.
Proof. reflexivity. Qed.

Lemma subseq_vals : forall (l' l : list (key * list V)) p, subseq l' l ->
  subseq (vals l' p) (vals l p) /\ (has l' p = true -> has l p = true).
Proof.
  intros l' l p H. induction H as [|x l' l H [IH1 IH2] | x l' l H [IH1 IH2]].
  - split; [constructor | auto].
  - unfold vals, has in *. simpl. split.
    + destruct (key_eqb (fst x) p); simpl; [|exact IH1].
      change (concat (map snd (filter (fun e => key_eqb (fst e) p) l')))
        with ([] ++ concat (map snd (filter (fun e => key_eqb (fst e) p) l'))).
      apply subseq_app; [apply subseq_nil_l | exact IH1].
    + intro E. rewrite (IH2 E). apply orb_true_r.
  - unfold vals, has in *. simpl. split.
    + destruct (key_eqb (fst x) p); simpl; [|exact IH1].
      apply subseq_app; [apply subseq_refl | exact IH1].
    + destruct (key_eqb (fst x) p); simpl; [reflexivity | exact IH2].
Qed.

Lemma subseq_hval : forall (l' l : list (key * list V)) p v', subseq l' l ->
  hval l' p = Some v' -> exists v, hval l p = Some v /\ subseq v' v.
Proof.
  intros l' l p v' H E. rewrite hval_vals in *. destruct (subseq_vals l' l p H) as [A B].
  destruct (has l' p); [|discriminate]. rewrite (B eq_refl). inversion E; subst. eauto.
Qed.

Lemma subseq_map_fst : forall (l' l : list (key * list V)) x, subseq l' l ->
  In x (map fst l') -> In x (map fst l).
Proof.
  intros l' l x H. induction H; simpl; auto.
  - intros [E | Hin]; auto.
Qed.
End HvalSub.

(* the paths a history inserts under *)
Definition ev_paths (e : event) : list key :=
  match e with ENotify _ f _ => [file_parts f] | EStats _ _ => [] end.
Definition hist_paths (h : list event) : list key := flat_map ev_paths h.

Lemma dlog_paths : forall q flt h p, In p (map fst (dlog q flt h)) -> In p (hist_paths h).
Proof.
  intros q flt h p. unfold dlog, hist_paths. induction h as [|e h IH]; simpl; [auto|].
  rewrite map_app, !in_app_iff. intros [H | H]; [left | right; auto].
  destruct e as [c f d | f stats]; simpl in *; [|contradiction].
  destruct (detailed q flt c f d); simpl in H; tauto.
Qed.

Lemma dlog_nonempty : forall q flt h, Forall ev_ok h ->
  Forall (fun e : key * list item => fst e <> []) (dlog q flt h).
Proof.
  intros q flt h Hh. unfold dlog. induction h as [|e h IH]; [constructor|].
  pose proof (Forall_inv Hh) as He. pose proof (Forall_inv_tail Hh) as Hh'.
  simpl. apply Forall_app. split; [|apply IH; exact Hh'].
  destruct e as [c f d | f stats]; simpl in *; [|constructor].
  destruct (detailed q flt c f d); constructor; [exact He | constructor].
Qed.

Lemma prefix_free_sub : forall (a b : list key), (forall x, In x a -> In x b) ->
  prefix_free b -> prefix_free a.
Proof. intros a b H Hb p q Hp Hq. apply Hb; auto. Qed.

(* the details of a run from the empty state are the association given by the log *)
Theorem orun_details_refine : forall q flt h, Forall ev_ok h -> prefix_free (hist_paths h) ->
  let t := o_details (orun_pure q flt init_state h) in
  inv t /\ (forall p v, In (p, v) (flatten t) <-> hval (dlog q flt h) p = Some v) /\
  NoDup (map fst (flatten t)) /\ flatten_json (toJSON t) = flatten t.
Proof.
  intros q flt h Hh Hpf.
  destruct (tree_refines (dlog q flt h) (dlog_nonempty q flt h Hh)) as (t & Ht & Hinv & Hrep & Hnd & Hjs).
  { eapply prefix_free_sub; [|exact Hpf]. intros x Hx. eapply dlog_paths. exact Hx. }
  pose proof (orun_details q flt h init_state init_ok Hh) as E.
  change (o_details init_state) with (@empty_tree item) in E. rewrite Ht in E. inversion E; subst.
  auto.
Qed.

(* summary and error flag do not depend on the quiet level at all; details at a
   higher level are, path by path, subsequences of the details at a lower one *)
Theorem orun_quiet : forall q q' flt h, q <= q' -> Forall ev_ok h -> prefix_free (hist_paths h) ->
  let st := orun q flt init_state h in
  let st' := orun q' flt init_state h in
  o_summary st' = o_summary st /\ o_error st' = o_error st /\
  (forall p v', In (p, v') (flatten (o_details st')) ->
                exists v, In (p, v) (flatten (o_details st)) /\ subseq v' v).
Proof.
  intros q q' flt h Hq Hh Hpf. cbv zeta.
  rewrite (proj1 (orun_eq q flt h init_state init_ok Hh)).
  rewrite (proj1 (orun_eq q' flt h init_state init_ok Hh)).
  assert (Hpe : proj (orun_pure q' flt init_state h) = proj (orun_pure q flt init_state h))
    by (rewrite !proj_run; reflexivity).
  unfold proj in Hpe. injection Hpe as Hs He.
  split; [exact Hs|]. split; [exact He|].
  destruct (orun_details_refine q flt h Hh Hpf) as (_ & R & _).
  destruct (orun_details_refine q' flt h Hh Hpf) as (_ & R' & _).
  intros p v' Hin. apply R' in Hin.
  destruct (subseq_hval _ _ p v' (dlog_mono q q' flt h Hq) Hin) as (v & Hv & Hsub).
  exists v. split; [apply R; exact Hv | exact Hsub].
Qed.

(* ---- ObserverList -------------------------------------------------------------- *)
Definition obs_ok (obs : list (oconf * ostate)) : Prop := Forall (fun cs => ost_ok (snd cs)) obs.
Definition lst_ok (st : lstate) : Prop := ost_ok (l_own st) /\ obs_ok (l_obs st).

Definition obs_verdicts (obs : list (oconf * ostate)) (c : category) (f : file) (d : data) : list verdict :=
  map (fun cs => overdict (c_filter (fst cs)) c f d) obs.

Definition obs_notified (obs : list (oconf * ostate)) (c : category) (f : file) (d : data) :=
  map (fun cs => (fst cs, notify_state (c_quiet (fst cs)) (c_filter (fst cs)) (snd cs) c f d)) obs.

Lemma notify_all_eq : forall obs c f d, obs_ok obs -> file_parts f <> [] ->
  notify_all obs c f d = (obs_notified obs c f d, Ok (obs_verdicts obs c f d)) /\
  obs_ok (obs_notified obs c f d).
Proof.
  induction obs as [|[cf st] obs IH]; intros c f d Hok Hp; [split; [reflexivity | constructor]|].
  pose proof (Forall_inv Hok) as H1. pose proof (Forall_inv_tail Hok) as H2. simpl in H1.
  cbn [notify_all]. rewrite (notify_eq (c_quiet cf) (c_filter cf) st c f d H1 Hp).
  destruct (IH c f d H2 Hp) as [E Hok']. rewrite E. split; [reflexivity|].
  constructor; [apply notify_state_ok; assumption | exact Hok'].
Qed.

Lemma forallb_filter_neq : forall v l,
  forallb is_ignore (filter (fun w => negb (verdict_eqb v w)) l) = true ->
  is_ignore v = true -> forallb is_ignore l = true.
Proof.
  intros v l. induction l as [|w l IH]; intros H Hv; [reflexivity|]. simpl in *.
  destruct (verdict_eqb v w) eqn:E; simpl in *.
  - assert (Hw : is_ignore w = true).
    { destruct v, w; simpl in *; try discriminate; try reflexivity. }
    rewrite Hw. apply IH; assumption.
  - apply andb_true_iff in H as [A B]. rewrite A. apply IH; assumption.
Qed.

Lemma forallb_filter_sub : forall {A} (p g : A -> bool) l, forallb p l = true -> forallb p (filter g l) = true.
Proof.
  intros A p g l. induction l as [|x l IH]; simpl; [auto|]. intro H. apply andb_true_iff in H as [A1 A2].
  destruct (g x); simpl; [rewrite A1|]; auto.
Qed.

Lemma forallb_vset : forall l, forallb is_ignore (vset l) = forallb is_ignore l.
Proof.
  induction l as [|v l IH]; [reflexivity|]. simpl.
  destruct (is_ignore v) eqn:Ev; simpl; [|reflexivity].
  destruct (forallb is_ignore l) eqn:El.
  - apply forallb_filter_sub. rewrite IH. reflexivity.
  - destruct (forallb is_ignore (filter (fun w => negb (verdict_eqb v w)) (vset l))) eqn:E; [|reflexivity].
    apply forallb_filter_neq in E; [|exact Ev]. congruence.
Qed.

Lemma in_vset : forall l v, In v (vset l) <-> In v l.
Proof.
  induction l as [|w l IH]; intro v; simpl; [tauto|]. rewrite filter_In, IH.
  split.
  - intros [E | [H _]]; auto.
  - intros [E | H]; auto. destruct (verdict_eqb w v) eqn:E; [|auto].
    left. destruct w, v; simpl in E; try discriminate; try reflexivity.
    apply N.eqb_eq in E. congruence.
Qed.

Lemma verdict_eqb_eq : forall a b, verdict_eqb a b = true <-> a = b.
Proof.
  intros a b. destruct a, b; simpl; split; intro H; try reflexivity; try discriminate.
  - apply N.eqb_eq in H. congruence.
  - inversion H. apply N.eqb_refl.
Qed.

Lemma vset_nodup : forall l, NoDup (vset l).
Proof.
  induction l as [|v l IH]; simpl; constructor.
  - rewrite filter_In. intros [_ H]. rewrite (proj2 (verdict_eqb_eq v v) eq_refl) in H. discriminate.
  - apply NoDup_filter. exact IH.
Qed.

(* does any project observer not ignore the event *)
Definition reaches (obs : list (oconf * ostate)) (c : category) (f : file) (d : data) : bool :=
  negb (forallb is_ignore (obs_verdicts obs c f d)).

Definition three_valued (v : verdict) : Prop := v = VError \/ v = VWarning \/ v = VIgnore.

Lemma single_warning : forall l : list verdict, NoDup l -> (forall v, In v l -> v = VWarning) ->
  l = [] \/ l = [VWarning].
Proof.
  intros [|a [|b l]] Hnd H; auto.
  - right. rewrite (H a); [reflexivity | left; reflexivity].
  - exfalso. inversion Hnd as [|? ? Hn _]; subst. apply Hn. left.
    rewrite (H a), (H b); simpl; auto.
Qed.

(* ObserverList.notify: state and return value *)
Theorem lnotify_spec : forall q st c f d, lst_ok st -> file_parts f <> [] ->
  let vs := obs_verdicts (l_obs st) c f d in
  let st' := fst (lnotify q st c f d) in
  let r := snd (lnotify q st c f d) in
  l_obs st' = obs_notified (l_obs st) c f d /\
  l_own st' = (if reaches (l_obs st) c f d then notify_state q None (l_own st) c f d else l_own st) /\
  lst_ok st' /\
  (r = Ok VIgnore <-> forallb is_ignore vs = true) /\
  (existsb is_error vs = true -> r = Ok VError) /\
  (Forall three_valued vs -> r <> Raise AssertionError /\ exists v, r = Ok v /\ three_valued v) /\
  (forall t, r = Raise t -> t = AssertionError).
Proof.
  intros q st c f d [Hown Hobs] Hp. cbv zeta. unfold lnotify, reaches.
  destruct (notify_all_eq (l_obs st) c f d Hobs Hp) as [E Hobs']. rewrite E.
  rewrite forallb_vset.
  set (vs := obs_verdicts (l_obs st) c f d).
  destruct (forallb is_ignore vs) eqn:Eall; cbn [negb fst snd l_own l_obs].
  - (* everybody ignores *)
    split; [reflexivity|]. split; [reflexivity|]. split; [split; assumption|].
    split; [tauto|]. split.
    + intro Hex. exfalso. apply existsb_exists in Hex as (v & Hin & Hv).
      rewrite forallb_forall in Eall. specialize (Eall v Hin). destruct v; discriminate.
    + split; [|intros t Ht; discriminate]. intros _. split; [discriminate|]. exists VIgnore. split; [reflexivity|].
      right. right. reflexivity.
  - rewrite (notify_eq q None (l_own st) c f d Hown Hp). cbn [fst snd].
    set (rvs' := filter (fun v => negb (is_ignore v)) (vset vs)).
    assert (Hin' : forall v, In v rvs' <-> In v vs /\ is_ignore v = false).
    { intro v. unfold rvs'. rewrite filter_In, in_vset, negb_true_iff. tauto. }
    assert (Hne : rvs' <> []).
    { intro En. assert (Hall : forallb is_ignore vs = true).
      { apply forallb_forall. intros v Hv. destruct (is_ignore v) eqn:Ei; [reflexivity|].
        exfalso. assert (Hx : In v rvs') by (apply Hin'; auto). rewrite En in Hx. destruct Hx. }
      congruence. }
    assert (Hnd : NoDup rvs') by (apply NoDup_filter, vset_nodup).
    assert (Hres : forall r', r' = (if existsb is_error rvs' then Ok VError
                                    else match rvs' with [v] => Ok v | _ => Raise AssertionError end) ->
             (r' = Ok VIgnore <-> false = true) /\
             (existsb is_error vs = true -> r' = Ok VError) /\
             (Forall three_valued vs -> r' <> Raise AssertionError /\ exists v, r' = Ok v /\ three_valued v) /\
             (forall t, r' = Raise t -> t = AssertionError)).
    { intros r' ->. destruct (existsb is_error rvs') eqn:Eerr.
      - split; [split; discriminate|]. split; [reflexivity|].
        split; [|intros t Ht; discriminate]. intros _. split; [discriminate|]. exists VError. split; [reflexivity|]. left. reflexivity.
      - assert (Hnoerr : forall v, In v vs -> is_error v = false).
        { intros v Hv. destruct (is_error v) eqn:Ev; [|reflexivity].
          assert (Hx : In v rvs') by (apply Hin'; split; [exact Hv | destruct v; simpl in *; try discriminate; reflexivity]).
          assert (Hy : existsb is_error rvs' = true) by (apply existsb_exists; eauto). congruence. }
        split; [|split; [|split]].
        + split; [|discriminate]. intro H. exfalso.
          destruct rvs' as [|v [|w l]]; try discriminate. inversion H; subst.
          assert (Hx : In VIgnore [VIgnore]) by (left; reflexivity). apply Hin' in Hx as [_ Hx]. discriminate.
        + intro Hex. exfalso. apply existsb_exists in Hex as (v & Hv & Hv'). rewrite (Hnoerr v Hv) in Hv'. discriminate.
        + intro H3. assert (Hw : forall v, In v rvs' -> v = VWarning).
          { intros v Hv. apply Hin' in Hv as [Hv Hi]. rewrite Forall_forall in H3.
            destruct (H3 v Hv) as [-> | [-> | ->]]; [|reflexivity|discriminate].
            specialize (Hnoerr VError Hv). discriminate. }
          destruct (single_warning rvs' Hnd Hw) as [E1 | E1]; [contradiction|]. rewrite E1.
          split; [discriminate|]. exists VWarning. split; [reflexivity|]. right. left. reflexivity.
        + intros t Ht. destruct rvs' as [|v [|w l]]; inversion Ht; reflexivity. }
    set (st1 := {| l_own := notify_state q None (l_own st) c f d; l_obs := obs_notified (l_obs st) c f d |}).
    assert (Hshape : forall (X : lstate * result verdict),
       X = (if existsb is_error rvs' then (st1, Ok VError)
            else match rvs' with
                 | [v] => (st1, Ok v)
                 | _ => (st1, Raise AssertionError)
                 end) ->
       fst X = st1 /\
       snd X = (if existsb is_error rvs' then Ok VError
                else match rvs' with [v] => Ok v | _ => Raise AssertionError end)).
    { intros X ->. destruct (existsb is_error rvs'); [split; reflexivity|].
      destruct rvs' as [|v [|w l]]; split; reflexivity. }
    destruct (Hshape _ eq_refl) as [Ef Es]. rewrite Ef, Es. unfold st1. cbn [l_own l_obs].
    split; [reflexivity|]. split; [reflexivity|].
    split; [split; [apply notify_state_ok; assumption | exact Hobs']|].
    apply Hres. reflexivity.
Qed.

(* ObserverList.updateStats *)
Definition obs_updated (obs : list (oconf * ostate)) (f : file) (stats : list (str * nat)) :=
  map (fun cs => (fst cs, update_state (c_filter (fst cs)) (snd cs) f stats)) obs.

Lemma stats_all_eq : forall obs f stats, obs_ok obs -> stats_ok stats ->
  stats_all obs f stats = (obs_updated obs f stats, Ok tt) /\ obs_ok (obs_updated obs f stats).
Proof.
  induction obs as [|[cf st] obs IH]; intros f stats Hok Hs; [split; [reflexivity | constructor]|].
  pose proof (Forall_inv Hok) as H1. pose proof (Forall_inv_tail Hok) as H2. simpl in H1.
  cbn [stats_all]. destruct (update_eq (c_filter cf) st f stats H1 Hs) as [E Hst]. rewrite E.
  destruct (IH f stats H2 Hs) as [E' Hok']. rewrite E'. split; [reflexivity|].
  constructor; [exact Hst | exact Hok'].
Qed.

Lemma lupdate_spec : forall st f stats, lst_ok st -> stats_ok stats ->
  lupdate_stats st f stats =
    ({| l_own := update_state None (l_own st) f stats; l_obs := obs_updated (l_obs st) f stats |}, Ok tt) /\
  lst_ok {| l_own := update_state None (l_own st) f stats; l_obs := obs_updated (l_obs st) f stats |}.
Proof.
  intros st f stats [Hown Hobs] Hs. unfold lupdate_stats.
  destruct (stats_all_eq (l_obs st) f stats Hobs Hs) as [E Hobs']. rewrite E.
  destruct (update_eq None (l_own st) f stats Hown Hs) as [E' Hown']. rewrite E'.
  split; [reflexivity | split; assumption].
Qed.

(* ---- whole histories through the list ------------------------------------------ *)
Definition lstate_of (st : lstate) (e : event) (q : nat) : lstate := fst (lstep q st e).

Fixpoint lrun_state (q : nat) (st : lstate) (h : list event) : lstate :=
  match h with
  | [] => st
  | e :: h' => lrun_state q (fst (lstep q st e)) h'
  end.

Lemma lrun_fst : forall q h st, fst (lrun q st h) = lrun_state q st h.
Proof.
  induction h as [|e h IH]; intro st; [reflexivity|]. simpl.
  destruct (lstep q st e) as [st' o] eqn:E. specialize (IH st').
  destruct (lrun q st' h) as [st'' os]. simpl in *. exact IH.
Qed.

(* does the event reach the list's own observer *)
Definition ev_reaches (confs : list oconf) (e : event) : bool :=
  match e with
  | ENotify c f d => negb (forallb (fun cf => is_ignore (overdict (c_filter cf) c f d)) confs)
  | EStats _ _ => true
  end.

Lemma reaches_confs : forall obs c f d,
  reaches obs c f d = ev_reaches (map fst obs) (ENotify c f d).
Proof.
  intros. unfold reaches, ev_reaches, obs_verdicts. f_equal.
  induction obs as [|cs obs IH]; simpl; [reflexivity | rewrite IH; reflexivity].
Qed.

Lemma lstep_spec : forall q st e, lst_ok st -> ev_ok e ->
  let st' := fst (lstep q st e) in
  lst_ok st' /\
  l_own st' = (if ev_reaches (map fst (l_obs st)) e then ostate_step q None (l_own st) e else l_own st) /\
  l_obs st' = map (fun cs => (fst cs, ostate_step (c_quiet (fst cs)) (c_filter (fst cs)) (snd cs) e)) (l_obs st).
Proof.
  intros q st [c f d | f stats] Hok He; cbv zeta; simpl in He.
  - destruct (lnotify_spec q st c f d Hok He) as (A & B & C & _).
    unfold lstep. destruct (lnotify q st c f d) as [st' r]. cbn [fst] in *.
    split; [exact C|]. split; [rewrite B, reaches_confs; reflexivity | exact A].
  - destruct (lupdate_spec st f stats Hok He) as [E H]. unfold lstep. rewrite E. cbn [fst].
    split; [exact H|]. split; reflexivity.
Qed.

Lemma map_fst_step : forall (obs : list (oconf * ostate)) (g : oconf * ostate -> ostate),
  map fst (map (fun cs => (fst cs, g cs)) obs) = map fst obs.
Proof. intros. rewrite map_map. reflexivity. Qed.

(* every project observer sees the whole history; the list's own observer
   sees the events that at least one of them does not ignore *)
Theorem lrun_spec : forall q h st, lst_ok st -> Forall ev_ok h ->
  let st' := lrun_state q st h in
  lst_ok st' /\
  l_own st' = orun_pure q None (l_own st) (filter (ev_reaches (map fst (l_obs st))) h) /\
  l_obs st' = map (fun cs => (fst cs, orun_pure (c_quiet (fst cs)) (c_filter (fst cs)) (snd cs) h)) (l_obs st).
Proof.
  induction h as [|e h IH]; intros st Hok Hh; cbv zeta.
  - split; [exact Hok|]. split; [reflexivity|]. simpl. induction (l_obs st) as [|[cf s] l IHl]; simpl; congruence.
  - pose proof (Forall_inv Hh) as He. pose proof (Forall_inv_tail Hh) as Hh'.
    destruct (lstep_spec q st e Hok He) as (A & B & C).
    destruct (IH (fst (lstep q st e)) A Hh') as (A' & B' & C').
    cbn [lrun_state]. split; [exact A'|]. split.
    + rewrite B', C, map_fst_step, B. cbn [filter].
      destruct (ev_reaches (map fst (l_obs st)) e); reflexivity.
    + rewrite C', C, map_map. reflexivity.
Qed.

Lemma init_list_ok : forall confs, lst_ok (init_list confs).
Proof.
  intro confs. split; [exact init_ok|]. unfold init_list, obs_ok. simpl.
  induction confs; constructor; [exact init_ok | assumption].
Qed.

(* ---- exit status ------------------------------------------------------------- *)
Lemma exit_code_spec : forall rz st,
  exit_code rz st = exit_error <-> rz = false /\ o_error (l_own st) = true.
Proof.
  intros rz st. unfold exit_code. destruct rz, (o_error (l_own st)); simpl; split;
    try tauto; try (intros [A B]; discriminate); try (intro H; vm_compute in H; discriminate).
Qed.

Lemma errors_keys_agree : msg_key CError = stats_errors_key.
Proof. reflexivity. Qed.

(* no updateStats call carries the errors key (as the comment in the source says) *)
Definition no_errors_stats (e : event) : Prop :=
  match e with
  | ENotify _ _ _ => True
  | EStats _ stats => Forall (fun kv => str_eqb (fst kv) stats_errors_key = false) stats
  end.

Lemma stats_sum_none : forall stats k,
  Forall (fun kv : str * nat => str_eqb (fst kv) k = false) stats -> stats_sum k stats = 0.
Proof.
  induction stats as [|[cat v] r IH]; intros k H; [reflexivity|].
  pose proof (Forall_inv H) as H1. pose proof (Forall_inv_tail H) as H2. simpl in *.
  assert (E : str_eqb k cat = false).
  { apply seqb_neq. apply seqb_neq in H1. congruence. }
  rewrite E. simpl. apply IH. exact H2.
Qed.

Lemma existsb_none : forall stats k,
  Forall (fun kv : str * nat => str_eqb (fst kv) k = false) stats ->
  existsb (fun kv => str_eqb (fst kv) k) stats = false.
Proof.
  induction stats as [|kv r IH]; intros k H; [reflexivity|].
  pose proof (Forall_inv H) as H1. pose proof (Forall_inv_tail H) as H2. simpl in *.
  rewrite H1. simpl. apply IH. exact H2.
Qed.

(* the error flag is set exactly when an error was counted *)
Lemma error_flag_counts : forall flt h, Forall no_errors_stats h ->
  existsb (ev_sets_error flt) h = true <-> 0 < hist_total flt h (msg_key CError).
Proof.
  intros flt h Hn. induction h as [|e h IH]; simpl; [split; [discriminate | lia]|].
  pose proof (Forall_inv Hn) as H1. pose proof (Forall_inv_tail Hn) as H2. specialize (IH H2).
  rewrite orb_true_iff, IH.
  assert (E : ev_sets_error flt e = true <-> 0 < ev_total flt e (msg_key CError)).
  { destruct e as [c f d | f stats]; simpl in *.
    - destruct (counted flt c f d); simpl; [|split; [discriminate | lia]].
      destruct c; simpl; split; intro H; try discriminate; try lia; try reflexivity;
        vm_compute in H; lia.
    - rewrite (existsb_none stats _ H1), andb_false_r. rewrite errors_keys_agree.
      rewrite (stats_sum_none stats _ H1). destruct (stats_ignored flt f); split; try discriminate; lia. }
  rewrite E. lia.
Qed.
