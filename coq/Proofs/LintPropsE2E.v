(* C19 end to end for .properties: the block lists of Proofs/C02BlocksJunk.v as item lists
   (Proofs/LintE2E.v), the objects the parser model yields for them, and the theorem. *)
From Coq Require Import ZArith NArith List Bool Arith Lia.
From CL Require Import Base.Sx Base.Res Base.Str Regex.Rx Model.Entry Model.Parse
  Model.ParseFormats Model.Unescape Model.CheckProps Model.LineCol Model.AddRemove Model.Lint
  Model.LintProps
  Proofs.AddRemoveProofs Proofs.LineColProofs Proofs.LintProofs Proofs.C02Roundtrip
  Proofs.C02BlocksRx Proofs.C02BlocksVal Proofs.C02Blocks Proofs.C02BlocksJunkRx
  Proofs.C02BlocksJunk Proofs.PropsValTotal Proofs.LintE2E.
Import ListNotations.
Open Scope nat_scope.

Local Arguments Nat.ltb : simpl never.
Local Arguments Nat.leb : simpl never.
Local Arguments vraw : simpl never.
Local Arguments str_of_nat : simpl never.

Ltac norm_app := repeat (progress (rewrite <- ?app_assoc; cbn [app])).
Ltac len := rewrite ?app_length; cbn [length]; rewrite ?app_length; cbn [length]; lia.

(* ---- blocks as items ---------------------------------------------------------------------- *)
Definition pitem (jb : jblock) : item :=
  match jb with
  | JB (BBlank w) => IOther w
  | JB (BComment cs) => IOther (ctext cs)
  | JB (BEntity cs key b1 sc b2 conts lastl nl) =>
      IEnt (ctext cs) [] key (b1 ++ sc :: b2) (vraw conts lastl) [] (eol nl)
  | JG gl => IJunk (gtext gl)
  end.

Lemma pitem_text : forall jb, item_text (pitem jb) = jtext jb.
Proof.
  intros [[w|cs|cs key b1 sc b2 conts lastl nl]|gl]; cbn [pitem item_text jtext text]; try reflexivity.
  norm_app. reflexivity.
Qed.

Lemma pitems_text : forall bs, items_text (map pitem bs) = jfile_text bs.
Proof.
  induction bs as [|b bs IH]; [reflexivity|].
  cbn [map]. rewrite items_text_cons, jfile_text_cons, pitem_text, IH. reflexivity.
Qed.

Lemma loc_flush : forall off w, filter is_localizable (flush off w) = [].
Proof. intros off [|w]; reflexivity. Qed.

Notation vp_props := entry_value_position.

Lemma ents_entities : forall bs, Forall legal_jblock bs -> forall (a w : str) j,
  let s := a ++ w ++ jfile_text bs in
  fmt_entities vp_props s j (filter is_localizable (jents (length a) (length w) bs)) =
  gen_entities vp_props s j (a ++ w) (map pitem bs).
Proof.
  induction bs as [|b rest IH]; intros Hleg a w j s.
  - simpl jents. rewrite loc_flush. reflexivity.
  - inversion Hleg as [|b' rest' Hb Hrest]; subst b' rest'. specialize (IH Hrest).
    destruct b as [[x|cs|cs key b1 sc b2 conts lastl nl]|gl]; cbn [map pitem gen_entities].
    + assert (Hs : s = a ++ (w ++ x) ++ jfile_text rest).
      { unfold s. rewrite jfile_text_cons. cbn [jtext text]. rewrite <- app_assoc. reflexivity. }
      simpl jents. rewrite <- app_length.
      rewrite Hs. rewrite (IH a (w ++ x) j). f_equal. apply app_assoc.
    + unfold legal_jblock in Hb. cbn [legal_jblockb legal_blockb] in Hb. apply andb_true_iff in Hb.
      destruct Hb as [Hc1 _].
      assert (Hne : cs <> []) by (destruct cs; [discriminate|discriminate]).
      set (A0 := a ++ w ++ cbody cs).
      assert (Hs : s = A0 ++ [10%N] ++ jfile_text rest).
      { unfold s, A0. rewrite jfile_text_cons. cbn [jtext text]. rewrite (ctext_body cs Hne).
        norm_app. reflexivity. }
      assert (El : length a + length w + length (cbody cs) = length A0)
        by (unfold A0; rewrite !app_length; lia).
      simpl jents. rewrite !filter_app, loc_flush, El. cbn [app filter is_localizable mk_comment Entry.e_kind].
      cbn [fmt_entities mk_comment Entry.e_kind].
      change 1 with (length [10%N]). rewrite Hs, (IH A0 [10%N] j).
      f_equal. unfold A0. rewrite (ctext_body cs Hne). norm_app. reflexivity.
    + set (raw := vraw conts lastl).
      set (K0 := a ++ w ++ ctext cs).
      set (V0 := K0 ++ key ++ b1 ++ sc :: b2).
      set (A0 := V0 ++ raw).
      assert (Hs : s = A0 ++ eol nl ++ jfile_text rest).
      { unfold s, A0, V0, K0. rewrite jfile_text_cons. cbn [jtext text]. fold raw. norm_app. reflexivity. }
      assert (Ek : length a + length w + length (ctext cs) = length K0)
        by (unfold K0; rewrite !app_length; lia).
      assert (Ev : length K0 + length key + length b1 + 1 + length b2 = length V0).
      { unfold V0. rewrite !app_length. simpl. rewrite ?app_length. lia. }
      assert (Ee : length V0 + length raw = length A0) by (unfold A0; rewrite app_length; lia).
      simpl jents. fold raw. rewrite !filter_app, loc_flush, Ek, Ev, Ee.
      cbn [app filter is_localizable Entry.e_kind].
      cbn [fmt_entities Entry.e_kind Entry.e_span Entry.e_key Entry.e_val fst snd osp_text option_map].
      assert (S1 : sp_text s (length K0, length K0 + length key) = key).
      { unfold sp_text. cbn [fst snd]. unfold s. rewrite jfile_text_cons. cbn [jtext text]. fold raw.
        replace (a ++ w ++ (ctext cs ++ key ++ b1 ++ sc :: b2 ++ raw ++ eol nl) ++ jfile_text rest)
          with (K0 ++ key ++ (b1 ++ sc :: b2 ++ raw ++ eol nl) ++ jfile_text rest)
          by (unfold K0; norm_app; reflexivity).
        apply slice_mid. }
      assert (S2 : sp_text s (length V0, length A0) = raw).
      { unfold sp_text. cbn [fst snd]. rewrite <- Ee, Hs. unfold A0. rewrite <- app_assoc. apply slice_mid. }
      rewrite S1, S2.
      f_equal.
      * apply mk_ent_eq.
        -- unfold K0. len.
        -- rewrite <- Ee, <- Ev. unfold K0. len.
        -- rewrite <- Ev. unfold K0. len.
        -- rewrite <- Ee, <- Ev. unfold K0. len.
      * rewrite Hs, (IH A0 (eol nl) j). f_equal.
        unfold A0, V0, K0. cbn [item_text]. fold raw. norm_app. reflexivity.
    + set (A0 := a ++ w ++ gtext gl).
      assert (Hs : s = A0 ++ [] ++ jfile_text rest).
      { unfold s, A0. rewrite jfile_text_cons. cbn [jtext]. norm_app. reflexivity. }
      assert (El : length a + length w + length (gtext gl) = length A0)
        by (unfold A0; rewrite !app_length; lia).
      simpl jents. rewrite !filter_app, loc_flush, El.
      cbn [app filter is_localizable mk_junk Entry.e_kind].
      cbn [fmt_entities mk_junk Entry.e_kind Entry.e_span fst snd].
      assert (S1 : sp_text s (length a + length w, length A0) = gtext gl).
      { unfold sp_text. cbn [fst snd]. rewrite <- El, <- app_length.
        replace s with ((a ++ w) ++ gtext gl ++ jfile_text rest)
          by (unfold s; rewrite jfile_text_cons; cbn [jtext]; norm_app; reflexivity).
        apply slice_mid. }
      rewrite S1. f_equal.
      * apply mk_junk_eq; [len|rewrite <- El; len].
      * change 0 with (length (@nil N)). rewrite Hs, (IH A0 [] (S j)). f_equal.
        unfold A0. norm_app. rewrite app_nil_r. reflexivity.
Qed.

(* the parser model parses the text of a legal block list to the objects of its items *)
Theorem parsed_properties : forall bs, Forall legal_jblock bs -> jadjacent_ok bs ->
  parsed vp_props walk_properties (map pitem bs).
Proof.
  intros bs Hleg Hadj. exists (jentries_of bs). rewrite pitems_text. split.
  - apply blocks_properties_junk; assumption.
  - intros j. exact (ents_entities bs Hleg [] [] j).
Qed.

Lemma pitem_keys : forall bs,
  Forall (fun jb => match jb with
                    | JB (BEntity _ key _ _ _ _ _ _) => starts_with s_junk_ key = false
                    | _ => True
                    end) bs ->
  Forall item_key_ok (map pitem bs).
Proof.
  induction 1 as [|b bs Hb _ IH]; constructor; [|exact IH].
  destruct b as [[w|cs|cs key b1 sc b2 conts lastl nl]|gl]; exact Hb || exact I.
Qed.

(* ---- the statement in terms of blocks ------------------------------------------------------- *)
(* premise on the keys of the linted file: none is spelt like the key of a Junk object *)
Definition block_key_ok (jb : jblock) : Prop :=
  match jb with
  | JB (BEntity _ key _ _ _ _ _ _) => starts_with s_junk_ key = false
  | _ => True
  end.

(* the findings expected for the block list [all] against the reference block list [rref] *)
Definition pexpected {Msg : Type} (all : list jblock) (rref : option (list jblock))
  : list (@finding str Msg) :=
  expected props_val (map pitem all) (option_map (map pitem) rref) [] (map pitem all).

Section Top.
Context {Msg : Type}.
Variable chk : option (@checker str Msg).
Variable all : list jblock.
Variable rref : option (list jblock).
Variable j0 : nat.
Hypothesis Hleg : Forall legal_jblock all.
Hypothesis Hadj : jadjacent_ok all.
Hypothesis Hkeys : Forall block_key_ok all.
Hypothesis Href : match rref with
                  | Some rbs => Forall legal_jblock rbs /\ jadjacent_ok rbs
                  | None => True
                  end.

Lemma texts_eq :
  lint_properties j0 chk (jfile_text all) (option_map jfile_text rref) =
  lint_text vp_props props_val walk_properties j0 chk
    (items_text (map pitem all)) (option_map items_text (option_map (map pitem) rref)).
Proof.
  unfold lint_properties. rewrite pitems_text. destruct rref as [rbs|]; cbn [option_map];
    rewrite ?pitems_text; reflexivity.
Qed.

Lemma Href_items : match option_map (map pitem) rref with
                   | Some rits => parsed vp_props walk_properties rits
                   | None => True
                   end.
Proof. destruct rref as [rbs|]; cbn [option_map]; [apply parsed_properties; tauto|exact I]. Qed.

Theorem e2e_properties_silent :
  (forall e, check_results chk e = []) ->
  lint_properties j0 chk (jfile_text all) (option_map jfile_text rref) = Ok (pexpected all rref).
Proof.
  intros Hsil. rewrite texts_eq.
  exact (lint_text_items_silent vp_props props_val props_val_total walk_properties chk
           (map pitem all) (option_map (map pitem) rref) j0
           (parsed_properties all Hleg Hadj) (pitem_keys all Hkeys) Href_items Hsil).
Qed.

Theorem e2e_properties : forall fs,
  lint_properties j0 chk (jfile_text all) (option_map jfile_text rref) = Ok fs ->
  filter no_check fs = pexpected all rref.
Proof.
  intros fs H. rewrite texts_eq in H.
  exact (lint_text_items vp_props props_val props_val_total walk_properties chk
           (map pitem all) (option_map (map pitem) rref) j0
           (parsed_properties all Hleg Hadj) (pitem_keys all Hkeys) Href_items fs H).
Qed.
End Top.

(* ---- a concrete file for the Example of Properties/C19.v ------------------------------------
     k=v / zz (garbage) / # c / k=w / m=1         reference:  k=v / m=2     *)
Definition e2e_kv (k v : list nat) : block := BEntity [] (A k) [] 61%N [] [] (A v) true.
Definition e2e_file : list jblock :=
  [JB (e2e_kv [107] [118]); JG [A [122; 122]];
   JB (BEntity [(35%N, A [32; 99])] (A [107]) [] 61%N [] [] (A [119]) true);
   JB (e2e_kv [109] [49])].
Definition e2e_ref : list jblock := [JB (e2e_kv [107] [118]); JB (e2e_kv [109] [50])].
