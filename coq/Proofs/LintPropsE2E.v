(* C19 end to end for .properties: lint of a file given as TEXT (Model/LintProps.v:
   parser model, entity objects, Entry.equals, the linter) on the text of a block list
   with garbage regions and repeated keys (Proofs/C02BlocksJunk.v), against the text of a
   legal block list as reference, yields exactly the findings computed from the blocks. *)
From Coq Require Import ZArith NArith List Bool Arith Lia.
From CL Require Import Base.Sx Base.Res Base.Str Regex.Rx Model.Entry Model.Parse
  Model.ParseFormats Model.Unescape Model.CheckProps Model.LineCol Model.AddRemove Model.Lint
  Model.LintProps
  Proofs.AddRemoveProofs Proofs.LineColProofs Proofs.LintProofs Proofs.C02Roundtrip
  Proofs.C02BlocksRx Proofs.C02BlocksVal Proofs.C02Blocks Proofs.C02BlocksJunkRx
  Proofs.C02BlocksJunk Proofs.CheckDTDProofs.
Import ListNotations.
Open Scope nat_scope.

Local Arguments Nat.ltb : simpl never.
Local Arguments Nat.leb : simpl never.
Local Arguments vraw : simpl never.
Local Arguments str_of_nat : simpl never.

Ltac norm_app := repeat (progress (rewrite <- ?app_assoc; cbn [app])).

(* ---- the entity objects of a block list ---------------------------------------------- *)
(* [pre]: the text before the blocks; offsets are lengths of prefixes *)
Fixpoint exp_entities (s : str) (j : nat) (pre : str) (bs : list jblock) : list (@entity str) :=
  match bs with
  | [] => []
  | JG gl :: rest =>
      let a := length pre in
      let e := a + length (gtext gl) in
      mkEntity a (junk_key (S j) (a, e)) true (gtext gl)
               (entry_position s (zspan (a, e))) (fun _ => Raise NotSupported)
      :: exp_entities s (S j) (pre ++ gtext gl) rest
  | JB (BEntity cs key b1 sc b2 conts lastl nl) :: rest =>
      let k := length (pre ++ ctext cs) in
      let v := k + length key + length b1 + 1 + length b2 in
      let e := v + length (vraw conts lastl) in
      mkEntity k key false (vraw conts lastl)
               (entry_position s (zspan (k, e))) (entry_value_position s (Some (zspan (v, e))))
      :: exp_entities s j (pre ++ text (BEntity cs key b1 sc b2 conts lastl nl)) rest
  | JB b :: rest => exp_entities s j (pre ++ text b) rest
  end.

Lemma loc_flush : forall off w, filter is_localizable (flush off w) = [].
Proof. intros off [|w]; reflexivity. Qed.

Lemma ents_entities : forall bs, Forall legal_jblock bs -> forall (a w : str) j,
  let s := a ++ w ++ jfile_text bs in
  props_entities s j (filter is_localizable (jents (length a) (length w) bs)) =
  exp_entities s j (a ++ w) bs.
Proof.
  induction bs as [|b rest IH]; intros Hleg a w j s.
  - simpl jents. rewrite loc_flush. reflexivity.
  - inversion Hleg as [|b' rest' Hb Hrest]; subst b' rest'. specialize (IH Hrest).
    destruct b as [[x|cs|cs key b1 sc b2 conts lastl nl]|gl].
    + assert (Hs : s = a ++ (w ++ x) ++ jfile_text rest).
      { unfold s. rewrite jfile_text_cons. cbn [jtext text]. rewrite <- app_assoc. reflexivity. }
      simpl jents. rewrite <- app_length. cbn [exp_entities text].
      rewrite Hs. rewrite (IH a (w ++ x) j). f_equal. apply app_assoc.
    + unfold legal_jblock in Hb. cbn [legal_jblockb legal_blockb] in Hb. apply andb_true_iff in Hb.
      destruct Hb as [Hc1 _].
      assert (Hne : cs <> []) by (destruct cs; [discriminate|discriminate]).
      set (A0 := a ++ w ++ cbody cs).
      assert (Hs : s = A0 ++ [10%N] ++ jfile_text rest).
      { unfold s, A0. rewrite jfile_text_cons. cbn [jtext text]. rewrite (ctext_body cs Hne).
        norm_app. reflexivity. }
      assert (El : length a + length w + length (cbody cs) = length A0)
        by (unfold A0; rewrite !app_length; lia).
      simpl jents. rewrite !filter_app, loc_flush, El. cbn [app filter is_localizable mk_comment Entry.e_kind].
      cbn [props_entities mk_comment Entry.e_kind exp_entities text].
      change 1 with (length [10%N]). rewrite Hs, (IH A0 [10%N] j).
      f_equal. unfold A0. rewrite (ctext_body cs Hne). norm_app. reflexivity.
    + set (raw := vraw conts lastl).
      set (K0 := a ++ w ++ ctext cs).
      set (V0 := K0 ++ key ++ b1 ++ sc :: b2).
      set (A0 := V0 ++ raw).
      assert (Hs : s = A0 ++ eol nl ++ jfile_text rest).
      { unfold s, A0, V0, K0. rewrite jfile_text_cons. cbn [jtext text]. fold raw. norm_app. reflexivity. }
      assert (Ek : length a + length w + length (ctext cs) = length K0)
        by (unfold K0; rewrite !app_length; lia).
      assert (Ev : length K0 + length key + length b1 + 1 + length b2 = length V0).
      { unfold V0. rewrite !app_length. simpl. rewrite ?app_length. lia. }
      assert (Ee : length V0 + length raw = length A0) by (unfold A0; rewrite app_length; lia).
      simpl jents. fold raw. rewrite !filter_app, loc_flush, Ek, Ev, Ee.
      cbn [app filter is_localizable Entry.e_kind].
      cbn [props_entities Entry.e_kind Entry.e_span Entry.e_key Entry.e_val fst snd osp_text option_map
           exp_entities].
      fold raw.
      assert (S1 : sp_text s (length K0, length K0 + length key) = key).
      { unfold sp_text. cbn [fst snd]. unfold s. rewrite jfile_text_cons. cbn [jtext text]. fold raw.
        replace (a ++ w ++ (ctext cs ++ key ++ b1 ++ sc :: b2 ++ raw ++ eol nl) ++ jfile_text rest)
          with (K0 ++ key ++ (b1 ++ sc :: b2 ++ raw ++ eol nl) ++ jfile_text rest)
          by (unfold K0; norm_app; reflexivity).
        apply slice_mid. }
      assert (S2 : sp_text s (length V0, length A0) = raw).
      { unfold sp_text. cbn [fst snd]. rewrite <- Ee, Hs. unfold A0. rewrite <- app_assoc. apply slice_mid. }
      rewrite S1, S2.
      assert (EK : length ((a ++ w) ++ ctext cs) = length K0) by (unfold K0; rewrite <- app_assoc; reflexivity).
      rewrite EK, Ev, Ee.
      f_equal.
      rewrite Hs, (IH A0 (eol nl) j). f_equal.
      unfold A0, V0, K0. cbn [text]. fold raw. norm_app. reflexivity.
    + set (A0 := a ++ w ++ gtext gl).
      assert (Hs : s = A0 ++ [] ++ jfile_text rest).
      { unfold s, A0. rewrite jfile_text_cons. cbn [jtext]. norm_app. reflexivity. }
      assert (El : length a + length w + length (gtext gl) = length A0)
        by (unfold A0; rewrite !app_length; lia).
      simpl jents. rewrite !filter_app, loc_flush, El.
      cbn [app filter is_localizable mk_junk Entry.e_kind].
      cbn [props_entities mk_junk Entry.e_kind Entry.e_span fst snd exp_entities].
      assert (Ea : length a + length w = length (a ++ w)) by (rewrite app_length; reflexivity).
      rewrite Ea.
      assert (El' : length (a ++ w) + length (gtext gl) = length A0)
        by (unfold A0; rewrite !app_length; lia).
      rewrite El'.
      assert (S1 : sp_text s (length (a ++ w), length A0) = gtext gl).
      { unfold sp_text. cbn [fst snd]. rewrite <- El'.
        replace s with ((a ++ w) ++ gtext gl ++ jfile_text rest)
          by (unfold s; rewrite jfile_text_cons; cbn [jtext]; norm_app; reflexivity).
        apply slice_mid. }
      rewrite S1. f_equal.
      change 0 with (length (@nil N)). rewrite Hs, (IH A0 [] (S j)). f_equal.
      unfold A0. norm_app. rewrite app_nil_r. reflexivity.
Qed.

(* ---- what the blocks say -------------------------------------------------------------- *)
(* number of entity blocks with the key *)
Fixpoint key_occurrences (k : str) (bs : list jblock) : nat :=
  match bs with
  | [] => 0
  | JB (BEntity _ key _ _ _ _ _ _) :: rest => (if str_eqb k key then 1 else 0) + key_occurrences k rest
  | _ :: rest => key_occurrences k rest
  end.

(* raw value of the LAST entity block of the reference with the key *)
Fixpoint ref_value (k : str) (rbs : list block) : option str :=
  match rbs with
  | [] => None
  | b :: rest =>
      match ref_value k rest with
      | Some v => Some v
      | None => match b with
                | BEntity _ key _ _ _ conts lastl _ =>
                    if str_eqb k key then Some (vraw conts lastl) else None
                | _ => None
                end
      end
  end.

(* premises on the keys and values of a file *)
Definition block_key_ok (jb : jblock) : Prop :=
  match jb with
  | JB (BEntity _ key _ _ _ conts lastl _) =>
      starts_with s_junk_ key = false /\ exists v, props_val (vraw conts lastl) = Ok v
  | _ => True
  end.

(* the unescaped value, where props_val returns *)
Definition uval (raw : str) : str := match props_val raw with Ok v => v | Raise _ => raw end.

(* (line, column), 1-based, of the character that follows the prefix [pre]: newlines in
   [pre] plus one, characters since its last newline plus one (C17) *)
Definition lc (pre : str) : pos :=
  (Z.of_nat (1 + count_nl pre), Z.of_nat (1 + LineCol.cur 0 pre)).

Lemma starts_with_app : forall p x, starts_with p (p ++ x) = true.
Proof. induction p as [|c p IH]; intros x; cbn; [reflexivity|]. rewrite N.eqb_refl, IH. reflexivity. Qed.

Lemma junk_key_neq : forall k n sp, starts_with s_junk_ k = false -> str_eqb k (junk_key n sp) = false.
Proof.
  intros k n sp H. destruct (str_eqb k (junk_key n sp)) eqn:E; [|reflexivity].
  apply str_eqb_eq in E. subst k. unfold junk_key in H. rewrite starts_with_app in H. discriminate.
Qed.

Lemma kcount_exp : forall k, starts_with s_junk_ k = false -> forall bs s j pre,
  kcount str_eqb k (exp_entities s j pre bs) = key_occurrences k bs.
Proof.
  intros k Hk. induction bs as [|b rest IH]; intros s j pre; [reflexivity|].
  destruct b as [[x|cs|cs key b1 sc b2 conts lastl nl]|gl]; cbn [exp_entities key_occurrences].
  - apply IH.
  - apply IH.
  - unfold kcount in *. cbn [filter Lint.e_key]. destruct (str_eqb k key); cbn [length]; rewrite IH; reflexivity.
  - unfold kcount in *. cbn [filter Lint.e_key]. rewrite junk_key_neq by exact Hk. apply IH.
Qed.

Lemma last_with_exp : forall k rbs s j pre,
  match last_with str_eqb Lint.e_key k (exp_entities s j pre (map JB rbs)) with
  | Some r => Lint.e_key r = k /\ e_junk r = false /\ ref_value k rbs = Some (e_raw r)
  | None => ref_value k rbs = None
  end.
Proof.
  intros k. induction rbs as [|b rest IH]; intros s j pre; [reflexivity|].
  destruct b as [x|cs|cs key b1 sc b2 conts lastl nl]; cbn [map exp_entities ref_value].
  - specialize (IH s j (pre ++ text (BBlank x))).
    destruct (last_with _ _ _ _) as [r|]; [destruct IH as (A1 & A2 & A3); rewrite A3; auto|].
    rewrite IH. reflexivity.
  - specialize (IH s j (pre ++ text (BComment cs))).
    destruct (last_with _ _ _ _) as [r|]; [destruct IH as (A1 & A2 & A3); rewrite A3; auto|].
    rewrite IH. reflexivity.
  - cbn [last_with]. specialize (IH s j (pre ++ text (BEntity cs key b1 sc b2 conts lastl nl))).
    destruct (last_with _ _ _ _) as [r|]; [destruct IH as (A1 & A2 & A3); rewrite A3; auto|].
    rewrite IH. cbn [Lint.e_key]. destruct (str_eqb k key) eqn:E; [|reflexivity].
    apply str_eqb_eq in E. cbn [Lint.e_key e_junk e_raw]. auto.
Qed.

(* ---- positions -------------------------------------------------------------------------- *)
Lemma firstn_pre : forall (pre rest : str), firstn (length pre) (pre ++ rest) = pre.
Proof.
  intros. rewrite firstn_app, firstn_all, Nat.sub_diag. cbn. apply app_nil_r.
Qed.

Lemma pos_at : forall (s pre rest : str), s = pre ++ rest ->
  ctx_linecol s (Z.of_nat (length pre)) = Ok (lc pre).
Proof.
  intros s pre rest ->. rewrite ctx_linecol_spec.
  - rewrite Nat2Z.id, firstn_pre. reflexivity.
  - rewrite app_length. lia.
Qed.

Lemma entity_pos0 : forall (s pre rest : str) e, s = pre ++ rest ->
  entry_position s (zspan (length pre, e)) 0%Z = Ok (lc pre).
Proof.
  intros s pre rest e H. unfold entry_position, zspan. cbn [fst snd].
  change (0 <? 0)%Z with false. cbv iota. rewrite Z.add_0_r. exact (pos_at s pre rest H).
Qed.

Lemma junk_pos_end : forall (s pre g rest : str) a, s = (pre ++ g) ++ rest ->
  entry_position s (zspan (a, length pre + length g)) (-1)%Z = Ok (lc (pre ++ g)).
Proof.
  intros s pre g rest a H. unfold entry_position, zspan. cbn [fst snd].
  change (-1 <? 0)%Z with true. cbv iota. rewrite <- app_length. exact (pos_at s (pre ++ g) rest H).
Qed.

(* ---- the expected findings, from the blocks alone ---------------------------------------- *)
Section E2E.
Context {Msg : Type}.
Variable chk : option (@checker str Msg).
Variable all : list jblock.              (* the linted file *)
Variable rref : option (list block).     (* the reference file, if any *)
Variables j0 : nat.                      (* Junk.junkid before the run *)

Notation finding := (@finding str Msg).

(* the key is in the reference and its last value there unescapes to something else *)
Definition changed_by_ref (key raw : str) : bool :=
  match rref with
  | Some rbs => match ref_value key rbs with
                | Some v => negb (str_eqb (uval raw) (uval v))
                | None => false
                end
  | None => false
  end.

Fixpoint expected (pre : str) (bs : list jblock) : list finding :=
  match bs with
  | [] => []
  | JG gl :: rest =>
      mkf (lc pre) LError (MJunk (length pre) (lc pre) (lc (pre ++ gtext gl)))
      :: expected (pre ++ gtext gl) rest
  | JB (BEntity cs key b1 sc b2 conts lastl nl) :: rest =>
      let p := lc (pre ++ ctext cs) in
      (if 1 <? key_occurrences key all then [mkf p LError (MDuplicate key)] else []) ++
      (if changed_by_ref key (vraw conts lastl) then [mkf p LWarning (MChanged key)] else []) ++
      expected (pre ++ text (BEntity cs key b1 sc b2 conts lastl nl)) rest
  | JB b :: rest => expected (pre ++ text b) rest
  end.

Definition no_check (f : finding) : bool := negb (is_check f).

Let s := jfile_text all.
Let rtext := match rref with Some rbs => file_text rbs | None => [] end.
Let reference := match rref with
                 | Some rbs => Some (exp_entities rtext j0 [] (map JB rbs))
                 | None => None
                 end.
Let cur_ents := exp_entities s j0 [] all.
Let li := new_linter str_eqb cur_ents chk reference.

Hypothesis ref_ok : match rref with
                    | Some rbs => Forall (fun b => block_key_ok (JB b)) rbs
                    | None => True
                    end.

Lemma ref_values_ok : forall rbs k v, Forall (fun b => block_key_ok (JB b)) rbs ->
  ref_value k rbs = Some v -> exists u, props_val v = Ok u.
Proof.
  induction rbs as [|b rest IH]; intros k v Hf H; [discriminate|].
  inversion Hf as [|? ? Hb Hr]; subst. cbn [ref_value] in H.
  destruct (ref_value k rest) as [v'|] eqn:E.
  - inversion H; subst. exact (IH k v Hr E).
  - destruct b as [x|cs|cs key b1 sc b2 conts lastl nl]; try discriminate.
    destruct (str_eqb k key); [|discriminate]. inversion H; subst. destruct Hb as [_ Hv]. exact Hv.
Qed.

Lemma verdict : forall k sp vp key raw u,
  props_val raw = Ok u ->
  ref_verdict str_eqb props_equals reference
    (mkEntity k key false raw sp vp) = Ok (changed_by_ref key raw).
Proof.
  intros k sp vp key raw u Hu. unfold ref_verdict, changed_by_ref, reference, ref_entity.
  cbn [Lint.e_key]. destruct rref as [rbs|]; [|reflexivity].
  pose proof (last_with_exp key rbs rtext j0 []) as H.
  destruct (last_with str_eqb Lint.e_key key (exp_entities rtext j0 [] (map JB rbs))) as [r|].
  - destruct H as (A1 & A2 & A3). rewrite A3.
    destruct (ref_values_ok rbs key (e_raw r) ref_ok A3) as [y Hy].
    unfold props_equals, ent_val. cbn [Lint.e_key e_junk e_raw]. rewrite A1, A2.
    rewrite (proj2 (str_eqb_eq key key) eq_refl), Hu, Hy. cbn.
    unfold uval. rewrite Hu, Hy. reflexivity.
  - rewrite H. reflexivity.
Qed.

Lemma nocheck_resolved : forall (e : @entity str) rs cks,
  mapM (resolve (Msg := Msg) e) rs = Ok cks -> filter no_check cks = [].
Proof.
  intros e rs cks H. apply mapM_Forall2 in H.
  induction H as [|r f rs cks Hr _ IH]; [reflexivity|].
  apply resolve_resolved in Hr. destruct Hr as (p & _ & ->). cbn. exact IH.
Qed.

Lemma lint_blocks : forall bs pre j,
  s = pre ++ jfile_text bs -> Forall block_key_ok bs ->
  (forall fs, lint_entities str_eqb props_equals li (exp_entities s j pre bs) = Ok fs ->
              filter no_check fs = expected pre bs) /\
  ((forall e, check_results chk e = []) ->
   lint_entities str_eqb props_equals li (exp_entities s j pre bs) = Ok (expected pre bs)).
Proof.
  induction bs as [|b rest IH]; intros pre j Hs Hok.
  - split; [intros fs H; inversion H; reflexivity|reflexivity].
  - inversion Hok as [|? ? Hb Hrest]; subst.
    rewrite jfile_text_cons in Hs.
    destruct b as [[x|cs|cs key b1 sc b2 conts lastl nl]|gl]; cbn [exp_entities expected].
    + apply IH; [rewrite <- app_assoc; exact Hs|exact Hrest].
    + apply IH; [rewrite <- app_assoc; exact Hs|exact Hrest].
    + destruct Hb as [Hk [u Hu]].
      set (b := BEntity cs key b1 sc b2 conts lastl nl) in *.
      set (e := mkEntity _ _ _ _ _ _).
      destruct (IH (pre ++ text b) j) as [IHa IHb]; [rewrite <- app_assoc; exact Hs|exact Hrest|].
      assert (Hp : e_position e 0%Z = Ok (lc (pre ++ ctext cs))).
      { unfold e. cbn [e_position].
        apply (entity_pos0 s (pre ++ ctext cs)
                 (key ++ b1 ++ sc :: b2 ++ vraw conts lastl ++ eol nl ++ jfile_text rest)).
        rewrite Hs. unfold b. cbn [jtext text]. norm_app. reflexivity. }
      assert (Hv : ref_verdict str_eqb props_equals reference e = Ok (changed_by_ref key (vraw conts lastl)))
        by (unfold e; eapply verdict; exact Hu).
      assert (Hc : kcount str_eqb (Lint.e_key e) cur_ents = key_occurrences key all)
        by (unfold e, cur_ents; cbn [Lint.e_key]; apply kcount_exp; exact Hk).
      pose proof (lint_entity_exact str_eqb str_eqb_eq props_equals cur_ents chk reference e _ _
                    eq_refl Hp Hv) as Hex.
      fold li in Hex. rewrite Hc in Hex. unfold dup_finding, changed_finding in Hex. cbn [Lint.e_key e] in Hex.
      rewrite (lint_entities_cons str_eqb props_equals cur_ents chk reference). fold li. rewrite Hex.
      split.
      * intros fs H.
        destruct (mapM (resolve e) (check_results chk e)) as [cks|t] eqn:Em; [|discriminate].
        destruct (lint_entities str_eqb props_equals li (exp_entities s j (pre ++ text b) rest))
          as [fs'|t] eqn:El; [|discriminate].
        inversion H; subst fs. rewrite !filter_app, (IHa fs' eq_refl), (nocheck_resolved e _ _ Em).
        destruct (1 <? key_occurrences key all); destruct (changed_by_ref key (vraw conts lastl)); reflexivity.
      * intros Hsil. rewrite (Hsil e). cbn [mapM]. rewrite (IHb Hsil). rewrite app_nil_r, app_assoc.
        reflexivity.
    + set (e := mkEntity _ _ _ _ _ _).
      destruct (IH (pre ++ gtext gl) (S j)) as [IHa IHb]; [rewrite <- app_assoc; exact Hs|exact Hrest|].
      assert (Hp : e_position e 0%Z = Ok (lc pre)).
      { unfold e. cbn [e_position]. apply (entity_pos0 s pre (jtext (JG gl) ++ jfile_text rest)). exact Hs. }
      assert (Hq : e_position e (-1)%Z = Ok (lc (pre ++ gtext gl))).
      { unfold e. cbn [e_position]. apply (junk_pos_end s pre (gtext gl) (jfile_text rest)).
        rewrite Hs. cbn [jtext]. norm_app. reflexivity. }
      pose proof (lint_entity_junk_exact str_eqb props_equals cur_ents chk reference e _ _
                    eq_refl Hp Hq) as Hex.
      fold li in Hex. unfold junk_finding in Hex. cbn [Lint.e_id e] in Hex.
      rewrite (lint_entities_cons str_eqb props_equals cur_ents chk reference). fold li. rewrite Hex.
      split.
      * intros fs H.
        destruct (lint_entities str_eqb props_equals li (exp_entities s (S j) (pre ++ gtext gl) rest))
          as [fs'|t] eqn:El; [|discriminate].
        inversion H; subst fs. cbn [app filter no_check is_check f_message mkf negb].
        rewrite (IHa fs' eq_refl). reflexivity.
      * intros Hsil. rewrite (IHb Hsil). reflexivity.
Qed.

End E2E.

(* ---- from the texts ------------------------------------------------------------------------ *)
Lemma jsep_JB : forall bs, jsep (map JB bs) = separatedb bs.
Proof.
  induction bs as [|b bs IH]; [reflexivity|].
  destruct b as [x|cs|cs key b1 sc b2 conts lastl nl]; cbn [map jsep separatedb]; rewrite IH.
  - reflexivity.
  - destruct bs as [|[x|cs'|cs' key' b1' sc' b2' conts' lastl' nl'] bs']; reflexivity.
  - destruct bs; reflexivity.
Qed.

Lemma jadjacent_JB : forall bs, adjacent_ok bs -> jadjacent_ok (map JB bs).
Proof.
  intros bs H. unfold adjacent_ok, adjacent_okb, jadjacent_ok, jadjacent_okb in *.
  rewrite jsep_JB. apply andb_true_iff in H. destruct H as [H1 H2]. rewrite H1. cbn.
  destruct bs as [|[x|cs|cs key b1 sc b2 conts lastl nl] bs]; auto.
Qed.

Lemma legal_JB : forall bs, Forall legal_block bs -> Forall legal_jblock (map JB bs).
Proof. induction 1; constructor; auto. Qed.

Lemma count_junk_JB : forall bs, count_junk (jentries_of (map JB bs)) = 0.
Proof.
  intros bs. unfold count_junk, jentries_of.
  rewrite (filter_ext _ (is_kind KJunk)) by (intros e; unfold is_kind; destruct (Entry.e_kind e); reflexivity).
  rewrite jents_junk, jspans_JB. reflexivity.
Qed.

Lemma parse_blocks : forall bs j, Forall legal_jblock bs ->
  props_entities (jfile_text bs) j (filter is_localizable (jentries_of bs)) =
  exp_entities (jfile_text bs) j [] bs.
Proof. intros bs j H. exact (ents_entities bs H [] [] j). Qed.

Section Top.
Context {Msg : Type}.
Variable chk : option (@checker str Msg).
Variable all : list jblock.
Variable rref : option (list block).
Variable j0 : nat.

Hypothesis Hleg : Forall legal_jblock all.
Hypothesis Hadj : jadjacent_ok all.
Hypothesis Hkeys : Forall block_key_ok all.
Hypothesis Href : match rref with
                  | Some rbs => Forall legal_block rbs /\ adjacent_ok rbs /\
                                Forall (fun b => block_key_ok (JB b)) rbs
                  | None => True
                  end.

Lemma lint_properties_unfold :
  lint_properties j0 chk (jfile_text all) (option_map file_text rref) =
  lint_entities str_eqb props_equals
    (new_linter str_eqb (exp_entities (jfile_text all) j0 [] all) chk
       match rref with
       | Some rbs => Some (exp_entities (match rref with Some r => file_text r | None => [] end)
                                        j0 [] (map JB rbs))
       | None => None
       end)
    (exp_entities (jfile_text all) j0 [] all).
Proof.
  unfold lint_properties. destruct rref as [rbs|]; cbn [option_map].
  - destruct Href as (L & A & _).
    rewrite <- (jfile_text_JB rbs).
    rewrite (blocks_properties_junk (map JB rbs) (legal_JB rbs L) (jadjacent_JB rbs A)).
    cbn [bind fst snd].
    rewrite count_junk_JB, Nat.add_0_r.
    rewrite (blocks_properties_junk all Hleg Hadj). cbn [bind fst snd].
    rewrite !parse_blocks by (auto using legal_JB). reflexivity.
  - cbn [bind fst snd]. rewrite (blocks_properties_junk all Hleg Hadj). cbn [bind fst snd].
    rewrite parse_blocks by exact Hleg. reflexivity.
Qed.

Lemma Href_keys : match rref with
                  | Some rbs => Forall (fun b => block_key_ok (JB b)) rbs
                  | None => True
                  end.
Proof. destruct rref; [tauto|exact I]. Qed.

(* silent checker: the result is exactly the expected list *)
Theorem e2e_properties_silent :
  (forall e, check_results chk e = []) ->
  lint_properties j0 chk (jfile_text all) (option_map file_text rref) =
  Ok (expected all rref [] all).
Proof.
  intros Hsil. rewrite lint_properties_unfold.
  exact (proj2 (lint_blocks chk all rref j0 Href_keys all [] j0 eq_refl Hkeys) Hsil).
Qed.

(* any checker: whatever the checks add, the other findings are exactly the expected list *)
Theorem e2e_properties : forall fs,
  lint_properties j0 chk (jfile_text all) (option_map file_text rref) = Ok fs ->
  filter no_check fs = expected all rref [] all.
Proof.
  intros fs H. rewrite lint_properties_unfold in H.
  exact (proj1 (lint_blocks chk all rref j0 Href_keys all [] j0 eq_refl Hkeys) fs H).
Qed.

End Top.

(* ---- a concrete file for the Example of Properties/C19.v ------------------------------------
     k=v / zz (garbage) / # c / k=w / m=1         reference:  k=v / m=2     *)
Definition e2e_kv (k v : list nat) : block := BEntity [] (A k) [] 61%N [] [] (A v) true.
Definition e2e_file : list jblock :=
  [JB (e2e_kv [107] [118]); JG [A [122; 122]];
   JB (BEntity [(35%N, A [32; 99])] (A [107]) [] 61%N [] [] (A [119]) true);
   JB (e2e_kv [109] [49])].
Definition e2e_ref : list block := [e2e_kv [107] [118]; e2e_kv [109] [50]].
