(* Report functions that satisfy the contract [res_contract] of Model/History.v. *)
From Coq Require Import NArith ZArith List Bool Arith Lia.
From CL Require Import Base.Sx Base.Res Base.Str Model.AddRemove Model.History Model.HistoryWire
                       Proofs.HistoryProofs.
Import ListNotations.
Local Open Scope nat_scope.

(* a report that reads the entries without their junk ids *)
Lemma canon_res_contract : res_contract _ canon_res.
Proof.
  intros v Ls Ls' H _ _. unfold canon_res.
  induction H as [|a b Ls Ls' Hab _ IH]; simpl; [reflexivity|]. f_equal; auto.
  clear IH. induction Hab as [|x y a b Hxy _ IH]; simpl; [reflexivity|]. f_equal; auto.
  destruct Hxy as (A & B & C). destruct x as [[k t] d], y as [[k' t'] d']. simpl in *.
  congruence.
Qed.
