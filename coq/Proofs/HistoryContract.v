(* Report functions that satisfy the contract [res_contract] of Model/History.v:
   [canon_res] (reads entries without their junk ids) and [toy_res], the
   compare-like report built on the AddRemove / KeyedTuple models of C20 with
   keys compared as the rendered strings — the key-level algorithm of
   ContentComparer.compare.  The second proof is a relational reading of
   AddRemove: renaming keys in a way that preserves which keys are equal does
   not change the labels or the order. *)
From Coq Require Import NArith ZArith List Bool Arith Lia.
From CL Require Import Base.Sx Base.Res Base.Str Model.AddRemove Model.History Model.HistoryWire
                       Proofs.AddRemoveProofs Proofs.HistoryProofs.
Import ListNotations.
Local Open Scope nat_scope.

Lemma canon_res_contract : res_contract _ canon_res.
Proof.
  intros v Ls Ls' H _ _. unfold canon_res.
  induction H as [|a b Ls Ls' Hab _ IH]; simpl; [reflexivity|]. f_equal; auto.
  clear IH. induction Hab as [|x y a b Hxy _ IH]; simpl; [reflexivity|]. f_equal; auto.
  destruct Hxy as (A & B & C). destruct x as [[k t] d], y as [[k' t'] d']. simpl in *.
  congruence.
Qed.

Lemma Forall2_impl : forall {A B} (P Q : A -> B -> Prop) l l',
  (forall a b, P a b -> Q a b) -> Forall2 P l l' -> Forall2 Q l l'.
Proof. induction 2; constructor; auto. Qed.

Lemma Forall2_length : forall {A B} (P : A -> B -> Prop) l l',
  Forall2 P l l' -> length l = length l'.
Proof. induction 1; simpl; auto. Qed.

Lemma NoDup_app_no_common : forall {A} (a b : list A) x,
  NoDup (a ++ b) -> In x a -> In x b -> False.
Proof.
  induction a as [|y a IH]; simpl; intros b x H Ha Hb; [tauto|].
  inversion H; subst. destruct Ha as [->|Ha].
  - apply H2. apply in_or_app; auto.
  - eapply IH; eauto.
Qed.

(* ---- AddRemove and KeyedTuple under a renaming of keys -------------------- *)
Section Rel.
Context {K K' : Type} (eqb : K -> K -> bool) (eqb' : K' -> K' -> bool) (Rk : K -> K' -> Prop).
Hypothesis pat : forall a a' b b', Rk a a' -> Rk b b' -> eqb a b = eqb' a' b'.

Definition RP (p : K * ord) (p' : K' * ord) : Prop := Rk (fst p) (fst p') /\ snd p = snd p'.
Definition RA := Forall2 RP.

Lemma mem_rel : forall k k' l l', Rk k k' -> Forall2 Rk l l' -> mem eqb k l = mem eqb' k' l'.
Proof.
  intros k k' l l' Hk H. induction H as [|x x' l l' Hx _ IH]; simpl; [reflexivity|].
  rewrite (pat k k' x x' Hk Hx), IH. reflexivity.
Qed.

Lemma dget_rel : forall k k' m m', Rk k k' -> RA m m' -> dget eqb k m = dget eqb' k' m'.
Proof.
  intros k k' m m' Hk H. induction H as [|[x v] [x' v'] m m' [Hx Hv] _ IH]; simpl in *; [reflexivity|].
  subst v'. rewrite (pat k k' x x' Hk Hx), IH. reflexivity.
Qed.

Lemma dset_rel : forall k k' v m m', Rk k k' -> RA m m' -> RA (dset eqb k v m) (dset eqb' k' v m').
Proof.
  intros k k' v m m' Hk H. induction H as [|[x w] [x' w'] m m' [Hx Hw] Hm IH]; simpl in *.
  - constructor; [split; auto | constructor].
  - subst w'. rewrite (pat k k' x x' Hk Hx). destruct (eqb' k' x').
    + constructor; [split; auto | exact Hm].
    + constructor; [split; auto | exact IH].
Qed.

Lemma build_left_rel : forall l l', Forall2 Rk l l' -> forall i m m', RA m m' ->
  RA (build_left eqb i l m) (build_left eqb' i l' m').
Proof.
  induction 1 as [|x x' l l' Hx _ IH]; intros i m m' Hm; simpl; auto.
  apply IH. apply dset_rel; auto.
Qed.

Lemma build_right_rel : forall r r', Forall2 Rk r r' -> forall i off m m', RA m m' ->
  RA (build_right eqb i off r m) (build_right eqb' i off r' m').
Proof.
  induction 1 as [|x x' r r' Hx _ IH]; intros i off m m' Hm; simpl; auto.
  rewrite <- (dget_rel x x' m m' Hx Hm). destruct (dget eqb x m) as [[li ?]|].
  - apply IH; auto.
  - apply IH. apply dset_rel; auto.
Qed.

Lemma insert_rel : forall x x' s s', RP x x' -> RA s s' -> RA (insert x s) (insert x' s').
Proof.
  intros x x' s s' Hx H. induction H as [|y y' s s' Hy Hs IH]; simpl.
  - constructor; auto.
  - destruct Hx as [Hx1 Hx2], Hy as [Hy1 Hy2]. rewrite <- Hx2, <- Hy2.
    destruct (ord_ltb (snd y) (snd x)).
    + constructor; [split; auto | exact IH].
    + constructor; [split; auto|]. constructor; [split; auto | exact Hs].
Qed.

Lemma sort_rel : forall m m', RA m m' -> RA (sort m) (sort m').
Proof.
  induction 1 as [|x x' m m' Hx _ IH]; simpl; [constructor|]. apply insert_rel; auto.
Qed.

Lemma label_of_rel : forall k k' l l' r r', Rk k k' -> Forall2 Rk l l' -> Forall2 Rk r r' ->
  label_of eqb l r k = label_of eqb' l' r' k'.
Proof.
  intros. unfold label_of. rewrite (mem_rel k k' l l'), (mem_rel k k' r r'); auto.
Qed.

Lemma addremove_rel : forall l l' r r', Forall2 Rk l l' -> Forall2 Rk r r' ->
  Forall2 (fun p p' => fst p = fst p' /\ Rk (snd p) (snd p')) (addremove eqb l r) (addremove eqb' l' r').
Proof.
  intros l l' r r' Hl Hr. unfold addremove.
  assert (H : RA (sort (order_map eqb l r)) (sort (order_map eqb' l' r'))).
  { apply sort_rel. unfold order_map. apply build_right_rel; auto.
    apply build_left_rel; auto. constructor. }
  induction H as [|p p' m m' [Hp _] _ IH]; simpl; constructor; auto.
  split; simpl; auto. apply label_of_rel; auto.
Qed.

Context {E E' : Type} (key : E -> K) (key' : E' -> K') (P : E -> E' -> Prop).
Hypothesis P_key : forall e e', P e e' -> Rk (key e) (key' e').

Lemma kt_index_rel : forall items items', Forall2 P items items' -> forall i k k', Rk k k' ->
  kt_index_from eqb key i k items = kt_index_from eqb' key' i k' items'.
Proof.
  induction 1 as [|e e' items items' He _ IH]; intros i k k' Hk; simpl; [reflexivity|].
  rewrite (IH (S i) k k' Hk). rewrite (pat k k' (key e) (key' e') Hk (P_key e e' He)). reflexivity.
Qed.

Lemma Forall2_nth_error : forall {A B} (Q : A -> B -> Prop) l l', Forall2 Q l l' ->
  forall i, match nth_error l i, nth_error l' i with
            | Some a, Some b => Q a b
            | None, None => True
            | _, _ => False
            end.
Proof.
  induction 1 as [|a b l l' Hab _ IH]; intros [|i]; simpl; auto. apply IH.
Qed.

Lemma kt_getitem_rel : forall items items' k k', Forall2 P items items' -> Rk k k' ->
  match kt_getitem eqb key k items, kt_getitem eqb' key' k' items' with
  | Ok e, Ok e' => P e e'
  | Raise t, Raise t' => t = t'
  | _, _ => False
  end.
Proof.
  intros items items' k k' H Hk. unfold kt_getitem, kt_index.
  rewrite (kt_index_rel items items' H 0 k k' Hk).
  destruct (kt_index_from eqb' key' 0 k' items') as [i|]; [|reflexivity].
  pose proof (Forall2_nth_error P items items' H i) as Hn.
  destruct (nth_error items i), (nth_error items' i); auto; contradiction.
Qed.

End Rel.

(* ---- the compare-like report ------------------------------------------------- *)
Lemma str_eqb_iff : forall a b, str_eqb a b = true <-> a = b.
Proof. intros a b. split; [apply str_eqb_eq | intros ->; apply str_eqb_refl]. Qed.

Definition kjunk (k : kent) : bool := is_junk_key (fst (fst k)).

Lemma same_junk : forall a b, same_but_id a b -> kjunk a = kjunk b.
Proof.
  intros [[k t] d] [[k' t'] d'] (H & _ & _). unfold kjunk. simpl in *.
  destruct k, k'; simpl in *; auto; discriminate.
Qed.

Lemma same_str_key : forall a b, same_but_id a b -> kjunk a = false -> kkey a = kkey b.
Proof.
  intros [[k t] d] [[k' t'] d'] (H & _ & _) J. unfold kjunk, kkey in *. simpl in *.
  destruct k, k'; simpl in *; try discriminate. injection H as ->. reflexivity.
Qed.

Lemma same_kval : forall a b, same_but_id a b -> kval a = kval b.
Proof.
  intros [[k t] d] [[k' t'] d'] (_ & Ht & Hd). unfold kval. simpl in *. subst. reflexivity.
Qed.

Lemma in_junk_keys : forall X e, In e X -> kjunk e = true -> In (fst (fst e)) (junk_keys X).
Proof.
  intros X e Hin J. unfold junk_keys. apply filter_In. split; [|exact J].
  apply in_map_iff. exists e. auto.
Qed.

Lemma in_str_keys : forall X e, In e X -> kjunk e = false -> In (kkey e) (str_keys X).
Proof.
  intros X e Hin J. unfold str_keys. apply in_flat_map. exists e. split; auto.
  unfold kjunk, kkey in *. destruct (fst (fst e)); simpl in *; [auto | discriminate].
Qed.

(* corresponding entries of two lists that differ only in junk ids: a junk key
   equal to another key of the list is that same entry *)
Lemma pattern_junk : forall X X', Forall2 same_but_id X X' ->
  NoDup (map render (junk_keys X)) ->
  forall e1 e1' e2 e2', In (e1, e1') (combine X X') -> In (e2, e2') (combine X X') ->
  kjunk e1 = true -> kjunk e2 = true -> kkey e1 = kkey e2 -> kkey e1' = kkey e2'.
Proof.
  induction 1 as [|x x' X X' Hx HX IH]; intros Hn e1 e1' e2 e2' H1 H2 J1 J2 E; simpl in *; [tauto|].
  assert (Hn' : NoDup (map render (junk_keys X))).
  { unfold junk_keys in *. simpl in Hn. destruct (is_junk_key (fst (fst x))); auto.
    simpl in Hn. inversion Hn; auto. }
  assert (Hhead : forall e e', In (e, e') (combine X X') -> kjunk e = true -> kjunk x = true ->
                               kkey x <> kkey e).
  { intros e e' Hin Je Jx Eq. unfold junk_keys in Hn. simpl in Hn.
    unfold kjunk in Jx. rewrite Jx in Hn. simpl in Hn. inversion Hn; subst.
    apply H3. unfold kkey in Eq. rewrite Eq. apply in_map.
    apply (in_junk_keys X e); auto. eapply in_combine_l; eauto. }
  destruct H1 as [H1|H1], H2 as [H2|H2].
  - injection H1 as <- <-. injection H2 as <- <-. reflexivity.
  - injection H1 as <- <-. exfalso. eapply Hhead; eauto.
  - injection H2 as <- <-. exfalso. eapply Hhead; eauto.
  - eapply IH; eauto.
Qed.

Lemma in_combine_same : forall X X', Forall2 same_but_id X X' ->
  forall e e', In (e, e') (combine X X') -> same_but_id e e'.
Proof.
  induction 1 as [|x x' X X' Hx _ IH]; intros e e' Hin; simpl in *; [tauto|].
  destruct Hin as [Hin|Hin]; [injection Hin as <- <-; auto | auto].
Qed.

Lemma Forall2_sym_same : forall X X', Forall2 same_but_id X X' -> Forall2 same_but_id X' X.
Proof.
  induction 1; constructor; auto. destruct H as (A & B & C). repeat split; auto.
Qed.

Lemma in_combine_swap : forall {A B} (l : list A) (l' : list B) a b,
  In (a, b) (combine l l') -> In (b, a) (combine l' l).
Proof.
  induction l; destruct l'; simpl; intros; try tauto.
  destruct H as [H|H]; [injection H as <- <-; auto | right; auto].
Qed.

(* which keys are equal is the same on both sides *)
Lemma pattern : forall X X', Forall2 same_but_id X X' -> coll_free X -> coll_free X' ->
  forall e1 e1' e2 e2', In (e1, e1') (combine X X') -> In (e2, e2') (combine X X') ->
  str_eqb (kkey e1) (kkey e2) = str_eqb (kkey e1') (kkey e2').
Proof.
  intros X X' HX (N & D) (N' & D') e1 e1' e2 e2' H1 H2.
  pose proof (in_combine_same X X' HX _ _ H1) as S1.
  pose proof (in_combine_same X X' HX _ _ H2) as S2.
  pose proof (in_combine_l _ _ _ _ H1) as I1. pose proof (in_combine_l _ _ _ _ H2) as I2.
  pose proof (in_combine_r _ _ _ _ H1) as I1'. pose proof (in_combine_r _ _ _ _ H2) as I2'.
  assert (Hiff : kkey e1 = kkey e2 <-> kkey e1' = kkey e2').
  { destruct (kjunk e1) eqn:J1, (kjunk e2) eqn:J2.
    - split; intros E.
      + eapply (pattern_junk X X'); eauto.
      + eapply (pattern_junk X' X); eauto using Forall2_sym_same, in_combine_swap;
          rewrite <- ?(same_junk _ _ S1), <- ?(same_junk _ _ S2); auto.
    - split; intros E; exfalso.
      + eapply (D (fst (fst e1)) (kkey e2)); eauto using in_junk_keys, in_str_keys.
      + eapply (D' (fst (fst e1')) (kkey e2')); eauto.
        * apply in_junk_keys; auto. rewrite <- (same_junk _ _ S1); auto.
        * apply in_str_keys; auto. rewrite <- (same_junk _ _ S2); auto.
    - split; intros E; exfalso.
      + eapply (D (fst (fst e2)) (kkey e1)); eauto using in_junk_keys, in_str_keys.
      + eapply (D' (fst (fst e2')) (kkey e1')); eauto.
        * apply in_junk_keys; auto. rewrite <- (same_junk _ _ S2); auto.
        * apply in_str_keys; auto. rewrite <- (same_junk _ _ S1); auto.
    - rewrite <- (same_str_key _ _ S1 J1), <- (same_str_key _ _ S2 J2). tauto. }
  destruct (str_eqb (kkey e1) (kkey e2)) eqn:A, (str_eqb (kkey e1') (kkey e2')) eqn:B; auto.
  - apply str_eqb_iff in A. apply Hiff in A. apply str_eqb_iff in A. congruence.
  - apply str_eqb_iff in B. apply Hiff in B. apply str_eqb_iff in B. congruence.
Qed.

Lemma combine_app_same : forall {A B} (a : list A) (a' : list B) b b',
  length a = length a' -> combine (a ++ b) (a' ++ b') = combine a a' ++ combine b b'.
Proof.
  induction a; destruct a'; simpl; intros; try discriminate; auto. f_equal. auto.
Qed.

Lemma Forall2_in_combine : forall {A B} (Q : A -> B -> Prop) l l',
  Forall2 Q l l' -> Forall2 (fun a b => In (a, b) (combine l l')) l l'.
Proof.
  induction 1 as [|a b l l' _ _ IH]; simpl; constructor; auto.
  eapply Forall2_impl; [|exact IH]. simpl. auto.
Qed.

Lemma Forall2_map2 : forall {A B C D} (f : A -> C) (g : B -> D) (Q : C -> D -> Prop) l l',
  Forall2 (fun a b => Q (f a) (g b)) l l' -> Forall2 Q (map f l) (map g l').
Proof. induction 1; simpl; constructor; auto. Qed.

Theorem toy_res_contract : res_contract _ toy_res.
Proof.
  intros v Ls Ls' HL C C'.
  destruct HL as [|R R' Ls Ls' HR HL]; [reflexivity|].
  destruct HL as [|Lc Lc' Ls Ls' HLc HL]; [reflexivity|].
  destruct HL as [|? ? ? ? _ _]; [|reflexivity].
  simpl in C, C'. rewrite app_nil_r in C, C'. simpl.
  set (X := R ++ Lc) in *. set (X' := R' ++ Lc') in *.
  assert (HX : Forall2 same_but_id X X') by (apply Forall2_app; auto).
  (* the renaming: corresponding entries *)
  set (Rk := fun a a' : str => exists e e', In (e, e') (combine X X') /\ a = kkey e /\ a' = kkey e').
  assert (pat : forall a a' b b', Rk a a' -> Rk b b' -> str_eqb a b = str_eqb a' b').
  { intros a a' b b' (e1 & e1' & H1 & -> & ->) (e2 & e2' & H2 & -> & ->).
    eapply pattern; eauto. }
  assert (PR : forall e e', In (e, e') (combine R R') -> In (e, e') (combine X X')).
  { intros e e' H. unfold X, X'. rewrite combine_app_same by (eapply Forall2_length; eauto).
    apply in_or_app; auto. }
  assert (PL : forall e e', In (e, e') (combine Lc Lc') -> In (e, e') (combine X X')).
  { intros e e' H. unfold X, X'. rewrite combine_app_same by (eapply Forall2_length; eauto).
    apply in_or_app; auto. }
  set (PE := fun e e' : kent => In (e, e') (combine X X')).
  assert (PkR : Forall2 PE R R').
  { eapply Forall2_impl; [|apply (Forall2_in_combine _ _ _ HR)]. intros; apply PR; auto. }
  assert (PkL : Forall2 PE Lc Lc').
  { eapply Forall2_impl; [|apply (Forall2_in_combine _ _ _ HLc)]. intros; apply PL; auto. }
  assert (PE_key : forall e e', PE e e' -> Rk (kkey e) (kkey e')).
  { intros e e' H. exists e, e'. auto. }
  assert (KR : Forall2 Rk (map kkey R) (map kkey R')).
  { apply Forall2_map2. eapply Forall2_impl; [|exact PkR]. auto. }
  assert (KL : Forall2 Rk (map kkey Lc) (map kkey Lc')).
  { apply Forall2_map2. eapply Forall2_impl; [|exact PkL]. auto. }
  pose proof (addremove_rel str_eqb str_eqb Rk pat _ _ _ _ KR KL) as HA.
  (* membership facts for the items of each side *)
  assert (Hlab : forall lab k, In (lab, k) (addremove str_eqb (map kkey R) (map kkey Lc)) ->
                 lab = label_of str_eqb (map kkey R) (map kkey Lc) k)
    by (intros; eapply addremove_labels; eauto).
  remember (addremove str_eqb (map kkey R) (map kkey Lc)) as AR eqn:EAR.
  remember (addremove str_eqb (map kkey R') (map kkey Lc')) as AR' eqn:EAR'.
  assert (Hlab' : forall lab k, In (lab, k) AR -> lab = label_of str_eqb (map kkey R) (map kkey Lc) k)
    by (subst AR; auto).
  clear Hlab EAR EAR'.
  induction HA as [|[lab k] [lab' k'] AR AR' [Hl Hk] _ IH]; simpl; [reflexivity|].
  simpl in Hl, Hk. subst lab'. f_equal; [|apply IH; intros; apply Hlab'; simpl; auto].
  pose proof (Hlab' lab k (or_introl eq_refl)) as Elab.
  pose proof (label_of_spec str_eqb str_eqb_iff (map kkey R) (map kkey Lc) k) as Hspec.
  rewrite <- Elab in Hspec.
  pose proof (kt_getitem_rel str_eqb str_eqb Rk pat kkey kkey PE PE_key R R' k k' PkR Hk) as GR.
  pose proof (kt_getitem_rel str_eqb str_eqb Rk pat kkey kkey PE PE_key Lc Lc' k k' PkL Hk) as GL.
  (* a found entity (not junk) has the looked-up key on both sides *)
  assert (found : forall (Y Y' : list kent) e e',
             kt_getitem str_eqb kkey k Y = Ok e -> kt_getitem str_eqb kkey k' Y' = Ok e' ->
             PE e e' -> kjunk e = false -> k = k').
  { intros Y Y' e e' G G' Pe J.
    apply (kt_getitem_spec str_eqb str_eqb_iff kkey) in G. destruct G as (_ & _ & _ & Ek & _).
    apply (kt_getitem_spec str_eqb str_eqb_iff kkey) in G'. destruct G' as (_ & _ & _ & Ek' & _).
    rewrite <- Ek, <- Ek'. apply same_str_key; auto. eapply in_combine_same; eauto. }
  unfold toy_item. destruct lab.
  - (* Equal: the key occurs on both sides; the reference entry cannot be junk *)
    destruct (kt_getitem str_eqb kkey k R) as [a|] eqn:Ga,
             (kt_getitem str_eqb kkey k' R') as [a'|] eqn:Ga'; try contradiction;
    destruct (kt_getitem str_eqb kkey k Lc) as [b|] eqn:Gb,
             (kt_getitem str_eqb kkey k' Lc') as [b'|] eqn:Gb'; try contradiction; auto.
    assert (Sa : same_but_id a a') by (eapply in_combine_same; eauto).
    assert (Sb : same_but_id b b') by (eapply in_combine_same; eauto).
    rewrite <- (same_kval _ _ Sa), <- (same_kval _ _ Sb).
    assert (Ja : kjunk a = false).
    { destruct (kjunk a) eqn:J; auto. exfalso.
      pose proof Ga as Ga2. pose proof Gb as Gb2.
      apply (kt_getitem_spec str_eqb str_eqb_iff kkey) in Ga2.
      destruct Ga2 as (p1 & p2 & ER & Eka & _).
      apply (kt_getitem_spec str_eqb str_eqb_iff kkey) in Gb2.
      destruct Gb2 as (q1 & q2 & EL & Ekb & _).
      assert (InA : In a R) by (rewrite ER; apply in_or_app; right; left; reflexivity).
      assert (InB : In b Lc) by (rewrite EL; apply in_or_app; right; left; reflexivity).
      destruct C as (N & Dj).
      destruct (kjunk b) eqn:Jb.
      - (* two junk entries with the same rendered key, one in each file *)
        unfold X in N. rewrite junk_keys_app, map_app in N.
        apply (NoDup_app_no_common _ _ (kkey a) N).
        + unfold kkey. apply in_map. apply in_junk_keys; auto.
        + rewrite Eka, <- Ekb. unfold kkey. apply in_map. apply in_junk_keys; auto.
      - apply (Dj (fst (fst a)) (kkey b)).
        + apply in_junk_keys; auto. unfold X. apply in_or_app; auto.
        + apply in_str_keys; auto. unfold X. apply in_or_app; auto.
        + change (kkey a = kkey b). congruence. }
    rewrite (found R R' a a' Ga Ga' GR Ja). reflexivity.
  - (* Delete *)
    destruct (kt_getitem str_eqb kkey k R) as [a|] eqn:Ga,
             (kt_getitem str_eqb kkey k' R') as [a'|] eqn:Ga'; try contradiction; auto.
    assert (Sa : same_but_id a a') by (eapply in_combine_same; eauto).
    change (is_junk_key (fst (fst a'))) with (kjunk a').
    change (is_junk_key (fst (fst a))) with (kjunk a). rewrite <- (same_junk _ _ Sa).
    destruct (kjunk a) eqn:J; auto. rewrite (found R R' a a' Ga Ga' GR J). reflexivity.
  - (* Add *)
    destruct (kt_getitem str_eqb kkey k Lc) as [b|] eqn:Gb,
             (kt_getitem str_eqb kkey k' Lc') as [b'|] eqn:Gb'; try contradiction; auto.
    assert (Sb : same_but_id b b') by (eapply in_combine_same; eauto).
    change (is_junk_key (fst (fst b'))) with (kjunk b').
    change (is_junk_key (fst (fst b))) with (kjunk b). rewrite <- (same_junk _ _ Sb).
    destruct (kjunk b) eqn:J; [rewrite (same_kval _ _ Sb); reflexivity|].
    rewrite (found Lc Lc' b b' Gb Gb' GL J). reflexivity.
Qed.
