(* Vocabulary of the C03 statements (definitions only). *)
From Coq Require Import ZArith NArith List Bool Arith.
From CL Require Import Base.Sx Base.Res Base.Str Model.AddRemove Proofs.AddRemoveProofs
  Model.Compare.
Import ListNotations.
Local Open Scope nat_scope.

Section Spec.
Context {K V : Type} (eqb : K -> K -> bool).

Definition keys_of (ents : list (@cent K V)) : list K := map c_key ents.

(* [e] is the LAST entity of [ents] whose key is [k]: what KeyedTuple's ents[k] denotes *)
Definition last_ent (ents : list (@cent K V)) (k : K) (e : @cent K V) : Prop :=
  exists pre post, ents = pre ++ e :: post /\ c_key e = k /\
                   Forall (fun e' => c_key e' <> k) post.

(* count_words() of the last entity with key k (0 when there is none) *)
Definition words_at (ents : list (@cent K V)) (k : K) : nat :=
  match last_with eqb c_key k ents with
  | Some e => c_words e
  | None => 0
  end.

(* [n] is the number of keys satisfying [P]: the size of a duplicate-free
   enumeration of exactly those keys *)
Definition card (P : K -> Prop) (n : nat) : Prop :=
  exists L, NoDup L /\ (forall k, In k L <-> P k) /\ n = length L.

(* ... and [w] the sum of [f] over them *)
Definition card_sum (P : K -> Prop) (f : K -> nat) (n w : nat) : Prop :=
  exists L, NoDup L /\ (forall k, In k L <-> P k) /\ n = length L /\
            w = list_sum (map f L).

End Spec.
