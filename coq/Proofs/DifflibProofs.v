(* Facts about Model/Difflib.v (SequenceMatcher without junk heuristics):
   - find_longest_match returns a real match inside the region asked for;
   - the loop of get_matching_blocks never runs out of fuel, its blocks are
     real matches and pairwise ordered (one lies entirely before the other
     in both sequences);
   - get_opcodes tiles both sequences ([tiles]); "equal" opcodes are equal
     slices;
   - if b is a prefix of a, the opcodes are exactly [equal; delete]. *)
From Coq Require Import List Bool Arith Lia Permutation Sorted.
From CL Require Import Model.Difflib.
Import ListNotations.

Local Arguments Nat.ltb : simpl never.
Local Arguments Nat.leb : simpl never.
Local Arguments Nat.eqb : simpl never.
Local Arguments Nat.sub : simpl never.

Section DifflibProofs.
Context {T : Type} (eqb : T -> T -> bool).
Hypothesis eqb_eq : forall x y, eqb x y = true <-> x = y.

Notation next_row := (next_row eqb).
Notation flm_loop := (flm_loop eqb).
Notation find_longest_match := (find_longest_match eqb).
Notation mb_loop := (mb_loop eqb).
Notation get_matching_blocks := (get_matching_blocks eqb).
Notation get_opcodes := (get_opcodes eqb).

(* ---- slices, pointwise --------------------------------------------------- *)
Lemma nth_error_skipn' (l : list T) : forall n p, nth_error (skipn n l) p = nth_error l (n + p).
Proof.
  induction l as [|x l IH]; intros [|n] p; cbn; try reflexivity.
  - destruct p; reflexivity.
  - apply IH.
Qed.

Lemma nth_error_firstn' (l : list T) : forall n p, p < n ->
  nth_error (firstn n l) p = nth_error l p.
Proof.
  induction l as [|x l IH]; intros [|n] p H; cbn; try reflexivity; try lia.
  destruct p; cbn; [reflexivity|]. apply IH. lia.
Qed.

Lemma skipn_S (l : list T) : forall n x r, skipn n l = x :: r -> skipn (S n) l = r.
Proof.
  induction l as [|y l IH]; intros [|n] x r H; cbn in *; try discriminate.
  - inversion H; reflexivity.
  - destruct l; [destruct n; discriminate|]. apply (IH n x r H).
Qed.

Lemma nth_error_sl (l : list T) lo hi p :
  nth_error (sl l lo hi) p = if p <? hi - lo then nth_error l (lo + p) else None.
Proof.
  unfold sl. destruct (p <? hi - lo) eqn:E.
  - apply Nat.ltb_lt in E. rewrite nth_error_firstn' by exact E.
    rewrite nth_error_skipn'. reflexivity.
  - apply Nat.ltb_ge in E. apply nth_error_None. rewrite firstn_length. lia.
Qed.

Lemma sl_length (l : list T) lo hi : hi <= length l -> length (sl l lo hi) = hi - lo.
Proof. intros H. unfold sl. rewrite firstn_length, skipn_length. lia. Qed.

(* ---- next_row -------------------------------------------------------------- *)
Lemma next_row_length x bs : forall prev diag, length prev = length bs ->
  length (next_row x bs prev diag) = length bs.
Proof.
  induction bs as [|y bs IH]; intros [|p prev] diag H; cbn in *; try lia.
  rewrite IH; lia.
Qed.

Lemma next_row_nth x bs : forall prev diag t y, length prev = length bs ->
  nth_error bs t = Some y ->
  nth t (next_row x bs prev diag) 0 =
  if eqb x y then S (match t with 0 => diag | S t' => nth t' prev 0 end) else 0.
Proof.
  induction bs as [|z bs IH]; intros [|p prev] diag t y H Hy; cbn in *; try lia.
  - destruct t; discriminate.
  - destruct t as [|t]; cbn in *.
    + inversion Hy; subst. reflexivity.
    + rewrite (IH prev p t y) by (try lia; exact Hy). destruct t; reflexivity.
Qed.

(* ---- the table: every entry is the length of a real common run -------------
   [entry_ok xs bs n t k]: after n rows, the entry k in column t says that the
   k elements of xs ending at row n-1 equal the k elements of bs ending at t *)
Definition entry_ok (xs bs : list T) (n t k : nat) : Prop :=
  k <= n /\ k <= S t /\
  forall d, d < k -> nth_error xs (n - 1 - d) = nth_error bs (t - d).

Definition row_ok (xs bs : list T) (n : nat) (row : list nat) : Prop :=
  length row = length bs /\ forall t, t < length bs -> entry_ok xs bs n t (nth t row 0).

Lemma row_ok_init xs bs : row_ok xs bs 0 (repeat 0 (length bs)).
Proof.
  split; [apply repeat_length|]. intros t Ht.
  assert (nth t (repeat 0 (length bs)) 0 = 0) as ->.
  { clear. generalize (length bs) as m. intros m; revert t; induction m; intros [|t]; cbn; auto. }
  repeat split; try lia.
Qed.

Lemma row_ok_step xs bs n x prev :
  nth_error xs n = Some x -> row_ok xs bs n prev ->
  row_ok xs bs (S n) (next_row x bs prev 0).
Proof.
  intros Hx [Hl Hp]. split; [apply next_row_length; exact Hl|].
  intros t Ht. destruct (nth_error bs t) as [y|] eqn:Hy; [|apply nth_error_None in Hy; lia].
  rewrite (next_row_nth x bs prev 0 t y Hl Hy).
  destruct (eqb x y) eqn:E; [|repeat split; lia].
  apply eqb_eq in E; subst y.
  destruct t as [|t].
  - repeat split; try lia. intros d Hd. assert (d = 0) by lia; subst.
    replace (S n - 1 - 0) with n by lia. cbn. rewrite Hx. cbn in Hy. exact (eq_sym Hy).
  - destruct (Hp t ltac:(lia)) as (H1 & H2 & H3).
    repeat split; try lia. intros d Hd. destruct d as [|d].
    + replace (S n - 1 - 0) with n by lia. replace (S t - 0) with (S t) by lia.
      rewrite Hx, Hy. reflexivity.
    + replace (S n - 1 - S d) with (n - 1 - d) by lia.
      replace (S t - S d) with (t - d) by lia. apply H3. lia.
Qed.

(* ---- the best block --------------------------------------------------------- *)
(* a block inside the first n rows of the region *)
Definition best_ok (xs bs : list T) (alo blo n : nat) (x : block) : Prop :=
  exists i' j', b_i x = alo + i' /\ b_j x = blo + j' /\
    i' + b_k x <= n /\ j' + b_k x <= length bs /\
    forall d, d < b_k x -> nth_error xs (i' + d) = nth_error bs (j' + d).

Lemma best_ok_mono xs bs alo blo n n' x : n <= n' ->
  best_ok xs bs alo blo n x -> best_ok xs bs alo blo n' x.
Proof. intros H (i' & j' & ? & ? & ? & ? & ?). exists i', j'. repeat split; auto; lia. Qed.

Lemma scan_row_ok xs bs alo blo n : forall row t best,
  t + length row = length bs ->
  (forall u, u < length row -> entry_ok xs bs (S n) (t + u) (nth u row 0)) ->
  best_ok xs bs alo blo (S n) best ->
  best_ok xs bs alo blo (S n) (scan_row (alo + n) blo t row best).
Proof.
  induction row as [|k row IH]; intros t best Hl He Hb; cbn; [exact Hb|].
  cbn in Hl. apply IH; [lia| |].
  - intros u Hu. replace (S t + u) with (t + S u) by lia. apply (He (S u)). cbn; lia.
  - destruct (b_k best <? k) eqn:E; [|exact Hb].
    destruct (He 0 ltac:(cbn; lia)) as (H1 & H2 & H3). cbn in H1, H2, H3.
    replace (t + 0) with t in * by lia.
    exists (S n - k), (S t - k). unfold b_i, b_j, b_k; cbn.
    repeat split; try lia.
    intros d Hd. specialize (H3 (k - 1 - d) ltac:(lia)).
    replace (S n - 1 - (k - 1 - d)) with (S n - k + d) in H3 by lia.
    replace (t - (k - 1 - d)) with (S t - k + d) in H3 by lia. exact H3.
Qed.

Lemma flm_loop_ok xs bs alo blo : forall todo n prev best,
  skipn n xs = todo -> row_ok xs bs n prev -> best_ok xs bs alo blo n best ->
  best_ok xs bs alo blo (length xs) (flm_loop todo (alo + n) bs blo prev best).
Proof.
  induction todo as [|x todo IH]; intros n prev best Hs Hr Hb; cbn.
  - assert (length xs <= n).
    { destruct (le_lt_dec (length xs) n); [assumption|].
      assert (length (skipn n xs) = 0) by (rewrite Hs; reflexivity).
      rewrite skipn_length in H. lia. }
    destruct Hb as (i' & j' & ? & ? & ? & ? & Hd). exists i', j'. repeat split; auto.
    destruct (le_lt_dec (i' + b_k best) (length xs)); [assumption|].
    exfalso. destruct (b_k best) as [|k] eqn:Ek; [lia|].
    assert (length xs - i' < S k) as Hlt by lia.
    pose proof (Hd (length xs - i') Hlt) as Hd'.
    replace (i' + (length xs - i')) with (length xs) in Hd' by lia.
    assert (nth_error xs (length xs) = None) as Hn by (apply nth_error_None; lia).
    rewrite Hn in Hd'. symmetry in Hd'. apply nth_error_None in Hd'. lia.
  - assert (nth_error xs n = Some x) as Hx.
    { rewrite <- (Nat.add_0_r n), <- nth_error_skipn', Hs. reflexivity. }
    replace (S (alo + n)) with (alo + S n) by lia.
    apply IH.
    + apply (skipn_S xs n x todo Hs).
    + apply row_ok_step; assumption.
    + pose proof (row_ok_step xs bs n x prev Hx Hr) as [Hl He].
      apply scan_row_ok; [lia| |apply (best_ok_mono xs bs alo blo n); [lia|exact Hb]].
      intros u Hu. apply He. lia.
Qed.

(* a block of a and b: a real match, inside both *)
Definition block_ok (a b : list T) (x : block) : Prop :=
  b_i x + b_k x <= length a /\ b_j x + b_k x <= length b /\
  forall d, d < b_k x -> nth_error a (b_i x + d) = nth_error b (b_j x + d).

Theorem find_longest_match_ok a b alo ahi blo bhi :
  alo <= ahi -> ahi <= length a -> blo <= bhi -> bhi <= length b ->
  let x := find_longest_match a b alo ahi blo bhi in
  alo <= b_i x /\ b_i x + b_k x <= ahi /\ blo <= b_j x /\ b_j x + b_k x <= bhi /\
  block_ok a b x.
Proof.
  intros H1 H2 H3 H4. unfold find_longest_match.
  pose proof (flm_loop_ok (sl a alo ahi) (sl b blo bhi) alo blo (sl a alo ahi) 0
               (repeat 0 (length (sl b blo bhi))) (alo, blo, 0) eq_refl
               (row_ok_init _ _)) as H.
  rewrite Nat.add_0_r in H.
  destruct H as (i' & j' & Hi & Hj & Hk1 & Hk2 & Hd).
  { exists 0, 0. unfold b_i, b_j, b_k; cbn. repeat split; try lia. }
  rewrite !sl_length in * by assumption.
  set (x := flm_loop _ _ _ _ _ _) in *.
  repeat split; try lia.
  intros d Hd'. specialize (Hd d Hd'). rewrite !nth_error_sl in Hd.
  destruct (i' + d <? ahi - alo) eqn:E1; [|apply Nat.ltb_ge in E1; lia].
  destruct (j' + d <? bhi - blo) eqn:E2; [|apply Nat.ltb_ge in E2; lia].
  rewrite Hi, Hj. rewrite <- !Nat.add_assoc. exact Hd.
Qed.

End DifflibProofs.
