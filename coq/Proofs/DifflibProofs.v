(* Facts about Model/Difflib.v (SequenceMatcher without junk heuristics):
   - find_longest_match returns a real match inside the region asked for;
   - the loop of get_matching_blocks never runs out of fuel, its blocks are
     real matches and pairwise ordered (one lies entirely before the other
     in both sequences);
   - get_opcodes tiles both sequences ([tiles]); "equal" opcodes are equal
     slices;
   - if b is a prefix of a, the opcodes are exactly [equal; delete]. *)
From Coq Require Import List Bool Arith Lia ZifyBool Permutation Sorted.
From CL Require Import Model.Difflib.
Import ListNotations.

Local Arguments Nat.ltb : simpl never.
Local Arguments Nat.leb : simpl never.
Local Arguments Nat.eqb : simpl never.
Local Arguments Nat.sub : simpl never.

Section DifflibProofs.
Context {T : Type} (eqb : T -> T -> bool).
Hypothesis eqb_eq : forall x y, eqb x y = true <-> x = y.

Notation next_row := (next_row eqb).
Notation flm_loop := (flm_loop eqb).
Notation find_longest_match := (find_longest_match eqb).
Notation mb_loop := (mb_loop eqb).
Notation get_matching_blocks := (get_matching_blocks eqb).
Notation get_opcodes := (get_opcodes eqb).

(* ---- slices, pointwise --------------------------------------------------- *)
Lemma nth_error_skipn' (l : list T) : forall n p, nth_error (skipn n l) p = nth_error l (n + p).
Proof.
  induction l as [|x l IH]; intros [|n] p; cbn; try reflexivity.
  - destruct p; reflexivity.
  - apply IH.
Qed.

Lemma nth_error_firstn' (l : list T) : forall n p, p < n ->
  nth_error (firstn n l) p = nth_error l p.
Proof.
  induction l as [|x l IH]; intros [|n] p H; cbn; try reflexivity; try lia.
  destruct p; cbn; [reflexivity|]. apply IH. lia.
Qed.

Lemma skipn_S (l : list T) : forall n x r, skipn n l = x :: r -> skipn (S n) l = r.
Proof.
  induction l as [|y l IH]; intros [|n] x r H; cbn in *; try discriminate.
  - inversion H; reflexivity.
  - destruct l; [destruct n; discriminate|]. apply (IH n x r H).
Qed.

Lemma nth_error_sl (l : list T) lo hi p :
  nth_error (sl l lo hi) p = if p <? hi - lo then nth_error l (lo + p) else None.
Proof.
  unfold sl. destruct (p <? hi - lo) eqn:E.
  - apply Nat.ltb_lt in E. rewrite nth_error_firstn' by exact E.
    rewrite nth_error_skipn'. reflexivity.
  - apply Nat.ltb_ge in E. apply nth_error_None. rewrite firstn_length. lia.
Qed.

Lemma sl_length (l : list T) lo hi : hi <= length l -> length (sl l lo hi) = hi - lo.
Proof. intros H. unfold sl. rewrite firstn_length, skipn_length. lia. Qed.

(* ---- next_row -------------------------------------------------------------- *)
Lemma next_row_length x bs : forall prev diag, length prev = length bs ->
  length (next_row x bs prev diag) = length bs.
Proof.
  induction bs as [|y bs IH]; intros [|p prev] diag H; cbn in *; try lia.
  rewrite IH; lia.
Qed.

Lemma next_row_nth x bs : forall prev diag t y, length prev = length bs ->
  nth_error bs t = Some y ->
  nth t (next_row x bs prev diag) 0 =
  if eqb x y then S (match t with 0 => diag | S t' => nth t' prev 0 end) else 0.
Proof.
  induction bs as [|z bs IH]; intros [|p prev] diag t y H Hy; cbn in *; try lia.
  - destruct t; discriminate.
  - destruct t as [|t]; cbn in *.
    + inversion Hy; subst. reflexivity.
    + rewrite (IH prev p t y) by (try lia; exact Hy). destruct t; reflexivity.
Qed.

(* ---- the table: every entry is the length of a real common run -------------
   [entry_ok xs bs n t k]: after n rows, the entry k in column t says that the
   k elements of xs ending at row n-1 equal the k elements of bs ending at t *)
Definition entry_ok (xs bs : list T) (n t k : nat) : Prop :=
  k <= n /\ k <= S t /\
  forall d, d < k -> nth_error xs (n - 1 - d) = nth_error bs (t - d).

Definition row_ok (xs bs : list T) (n : nat) (row : list nat) : Prop :=
  length row = length bs /\ forall t, t < length bs -> entry_ok xs bs n t (nth t row 0).

Lemma row_ok_init xs bs : row_ok xs bs 0 (repeat 0 (length bs)).
Proof.
  split; [apply repeat_length|]. intros t Ht.
  assert (nth t (repeat 0 (length bs)) 0 = 0) as ->.
  { clear. generalize (length bs) as m. intros m; revert t; induction m; intros [|t]; cbn; auto. }
  repeat split; try lia.
Qed.

Lemma row_ok_step xs bs n x prev :
  nth_error xs n = Some x -> row_ok xs bs n prev ->
  row_ok xs bs (S n) (next_row x bs prev 0).
Proof.
  intros Hx [Hl Hp]. split; [apply next_row_length; exact Hl|].
  intros t Ht. destruct (nth_error bs t) as [y|] eqn:Hy; [|apply nth_error_None in Hy; lia].
  rewrite (next_row_nth x bs prev 0 t y Hl Hy).
  destruct (eqb x y) eqn:E; [|repeat split; lia].
  apply eqb_eq in E; subst y.
  destruct t as [|t].
  - repeat split; try lia. intros d Hd. assert (d = 0) by lia; subst.
    replace (S n - 1 - 0) with n by lia. cbn. rewrite Hx. cbn in Hy. exact (eq_sym Hy).
  - destruct (Hp t ltac:(lia)) as (H1 & H2 & H3).
    repeat split; try lia. intros d Hd. destruct d as [|d].
    + replace (S n - 1 - 0) with n by lia. replace (S t - 0) with (S t) by lia.
      rewrite Hx, Hy. reflexivity.
    + replace (S n - 1 - S d) with (n - 1 - d) by lia.
      replace (S t - S d) with (t - d) by lia. apply H3. lia.
Qed.

(* ---- the best block --------------------------------------------------------- *)
(* a block inside the first n rows of the region *)
Definition best_ok (xs bs : list T) (alo blo n : nat) (x : block) : Prop :=
  exists i' j', b_i x = alo + i' /\ b_j x = blo + j' /\
    i' + b_k x <= n /\ j' + b_k x <= length bs /\
    forall d, d < b_k x -> nth_error xs (i' + d) = nth_error bs (j' + d).

Lemma best_ok_mono xs bs alo blo n n' x : n <= n' ->
  best_ok xs bs alo blo n x -> best_ok xs bs alo blo n' x.
Proof. intros H (i' & j' & ? & ? & ? & ? & ?). exists i', j'. repeat split; auto; lia. Qed.

Lemma scan_row_ok xs bs alo blo n : forall row t best,
  t + length row = length bs ->
  (forall u, u < length row -> entry_ok xs bs (S n) (t + u) (nth u row 0)) ->
  best_ok xs bs alo blo (S n) best ->
  best_ok xs bs alo blo (S n) (scan_row (alo + n) blo t row best).
Proof.
  induction row as [|k row IH]; intros t best Hl He Hb; cbn; [exact Hb|].
  cbn in Hl. apply IH; [lia| |].
  - intros u Hu. replace (S t + u) with (t + S u) by lia. apply (He (S u)). cbn; lia.
  - destruct (b_k best <? k) eqn:E; [|exact Hb].
    destruct (He 0 ltac:(cbn; lia)) as (H1 & H2 & H3). cbn in H1, H2, H3.
    replace (t + 0) with t in * by lia.
    exists (S n - k), (S t - k). unfold b_i, b_j, b_k; cbn.
    repeat split; try lia.
    intros d Hd. specialize (H3 (k - 1 - d) ltac:(lia)).
    replace (S n - 1 - (k - 1 - d)) with (S n - k + d) in H3 by lia.
    replace (t - (k - 1 - d)) with (S t - k + d) in H3 by lia. exact H3.
Qed.

Lemma flm_loop_ok xs bs alo blo : forall todo n prev best,
  skipn n xs = todo -> row_ok xs bs n prev -> best_ok xs bs alo blo n best ->
  best_ok xs bs alo blo (n + length todo) (flm_loop todo (alo + n) bs blo prev best).
Proof.
  induction todo as [|x todo IH]; intros n prev best Hs Hr Hb; cbn.
  - rewrite Nat.add_0_r. exact Hb.
  - assert (nth_error xs n = Some x) as Hx.
    { rewrite <- (Nat.add_0_r n), <- nth_error_skipn', Hs. reflexivity. }
    replace (S (alo + n)) with (alo + S n) by lia.
    replace (n + S (length todo)) with (S n + length todo) by lia.
    apply IH.
    + apply (skipn_S xs n x todo Hs).
    + apply row_ok_step; assumption.
    + pose proof (row_ok_step xs bs n x prev Hx Hr) as [Hl He].
      apply scan_row_ok; [lia| |apply (best_ok_mono xs bs alo blo n); [lia|exact Hb]].
      intros u Hu. apply He. lia.
Qed.

(* a block of a and b: a real match, inside both *)
Definition block_ok (a b : list T) (x : block) : Prop :=
  b_i x + b_k x <= length a /\ b_j x + b_k x <= length b /\
  forall d, d < b_k x -> nth_error a (b_i x + d) = nth_error b (b_j x + d).

Theorem find_longest_match_ok a b alo ahi blo bhi :
  alo <= ahi -> ahi <= length a -> blo <= bhi -> bhi <= length b ->
  let x := find_longest_match a b alo ahi blo bhi in
  alo <= b_i x /\ b_i x + b_k x <= ahi /\ blo <= b_j x /\ b_j x + b_k x <= bhi /\
  block_ok a b x.
Proof.
  intros H1 H2 H3 H4. unfold find_longest_match.
  pose proof (flm_loop_ok (sl a alo ahi) (sl b blo bhi) alo blo (sl a alo ahi) 0
               (repeat 0 (length (sl b blo bhi))) (alo, blo, 0) eq_refl
               (row_ok_init _ _)) as H.
  rewrite Nat.add_0_r in H. cbn [Nat.add] in H.
  destruct H as (i' & j' & Hi & Hj & Hk1 & Hk2 & Hd).
  { exists 0, 0. unfold b_i, b_j, b_k; cbn. repeat split; try lia. }
  rewrite !sl_length in * by assumption.
  set (x := flm_loop _ _ _ _ _ _) in *.
  repeat split; try lia.
  intros d Hd'. specialize (Hd d Hd'). rewrite !nth_error_sl in Hd.
  destruct (i' + d <? ahi - alo) eqn:E1; [|apply Nat.ltb_ge in E1; lia].
  destruct (j' + d <? bhi - blo) eqn:E2; [|apply Nat.ltb_ge in E2; lia].
  rewrite Hi, Hj. rewrite <- !Nat.add_assoc. exact Hd.
Qed.

(* ---- get_matching_blocks: the loop -------------------------------------------- *)
Section Blocks.
Variables a b : list T.

Definition r_alo (r : region) : nat := fst (fst (fst r)).
Definition r_ahi (r : region) : nat := snd (fst (fst r)).
Definition r_blo (r : region) : nat := snd (fst r).
Definition r_bhi (r : region) : nat := snd r.

(* r1 lies entirely before r2, in both sequences *)
Definition rbefore (r1 r2 : region) : Prop := r_ahi r1 <= r_alo r2 /\ r_bhi r1 <= r_blo r2.
Definition rcompat (r1 r2 : region) : Prop := rbefore r1 r2 \/ rbefore r2 r1.
Definition inside (r R : region) : Prop :=
  r_alo R <= r_alo r /\ r_ahi r <= r_ahi R /\ r_blo R <= r_blo r /\ r_bhi r <= r_bhi R.
Definition region_ok (r : region) : Prop :=
  r_alo r <= r_ahi r /\ r_ahi r <= length a /\ r_blo r <= r_bhi r /\ r_bhi r <= length b.
Definition rect_of (x : block) : region := (b_i x, b_i x + b_k x, b_j x, b_j x + b_k x).
Definition good_block (x : block) : Prop := block_ok a b x /\ 0 < b_k x.

Lemma rcompat_sym r1 r2 : rcompat r1 r2 -> rcompat r2 r1.
Proof. unfold rcompat; tauto. Qed.

Lemma rcompat_inside r R X : inside r R -> r_alo r <= r_ahi r -> r_blo r <= r_bhi r ->
  rcompat R X -> rcompat r X.
Proof. unfold rcompat, rbefore, inside. intros; lia. Qed.

Lemma FOP_perm {A} (R : A -> A -> Prop) (Rsym : forall x y, R x y -> R y x) l l' :
  Permutation l l' -> ForallOrdPairs R l -> ForallOrdPairs R l'.
Proof.
  intros P; induction P as [|z l l' P IH|y z l|l l' l'' P1 IH1 P2 IH2]; intros F.
  - exact F.
  - inversion F as [|? ? Fz F']; subst. constructor; [|auto].
    eapply Permutation_Forall; eassumption.
  - inversion F as [|? ? Fy F']; subst. inversion F' as [|? ? Fz F'']; subst.
    inversion Fy; subst. constructor; [constructor; auto|constructor; auto].
  - auto.
Qed.

Lemma FOP_replace R0 news rest :
  ForallOrdPairs rcompat (R0 :: rest) ->
  Forall (fun X => inside X R0 /\ r_alo X <= r_ahi X /\ r_blo X <= r_bhi X) news ->
  ForallOrdPairs rcompat news ->
  ForallOrdPairs rcompat (news ++ rest).
Proof.
  intros H Hin Hn. inversion H as [|? ? HR Hrest]; subst.
  induction news as [|X news IH]; cbn; [exact Hrest|].
  inversion Hin as [|? ? (Hi & H1 & H2) Hin']; subst. inversion Hn as [|? ? HX Hn']; subst.
  constructor; [|auto].
  apply Forall_app; split; [exact HX|].
  eapply Forall_impl; [|exact HR]. intros Y HY. eapply rcompat_inside; eauto.
Qed.

Definition mu (q : list region) : nat :=
  fold_right (fun r acc => 2 * (r_ahi r - r_alo r) + 1 + acc) 0 q.

Lemma mu_app q1 q2 : mu (q1 ++ q2) = mu q1 + mu q2.
Proof.
  induction q1 as [|r q1 IH]; [reflexivity|].
  change (mu ((r :: q1) ++ q2)) with (2 * (r_ahi r - r_alo r) + 1 + mu (q1 ++ q2)).
  change (mu (r :: q1)) with (2 * (r_ahi r - r_alo r) + 1 + mu q1). rewrite IH. lia.
Qed.

Definition loop_inv (q : list region) (acc : list block) : Prop :=
  Forall region_ok q /\ Forall good_block acc /\
  ForallOrdPairs rcompat (q ++ map rect_of acc).

Lemma mb_loop_ok : forall fuel q acc, loop_inv q acc -> mu q <= fuel ->
  exists bl, mb_loop a b fuel q acc = Some bl /\
    Forall good_block bl /\ ForallOrdPairs rcompat (map rect_of bl).
Proof.
  induction fuel as [|f IH]; intros q acc (Hq & Ha & Hf) Hmu.
  - destruct q as [|[[[alo ahi] blo] bhi] q]; cbn in *; [|lia].
    exists acc. auto.
  - destruct q as [|[[[alo ahi] blo] bhi] q]; [exists acc; cbn in *; auto|].
    inversion Hq as [|? ? (R1 & R2 & R3 & R4) Hq']; subst. cbn in R1, R2, R3, R4.
    pose proof (find_longest_match_ok a b alo ahi blo bhi R1 R2 R3 R4) as Hx.
    cbn [mb_loop]. destruct (find_longest_match a b alo ahi blo bhi) as [[i j] k] eqn:Ex.
    unfold b_i, b_j, b_k in Hx; cbn in Hx. destruct Hx as (X1 & X2 & X3 & X4 & Xok).
    assert (2 * (ahi - alo) + 1 + mu q <= S f) as Hmu' by exact Hmu. clear Hmu.
    destruct (Nat.eqb k 0) eqn:Ek.
    + apply IH; [|lia]. split; [exact Hq'|]. split; [exact Ha|].
      cbn in Hf. inversion Hf; assumption.
    + apply Nat.eqb_neq in Ek.
      set (c1 := (alo <? i) && (blo <? j)). set (c2 := (i + k <? ahi) && (j + k <? bhi)).
      set (N := (if c2 then [(i + k, ahi, j + k, bhi)] else []) ++
                (if c1 then [(alo, i, blo, j)] else [])).
      assert ((if c2 then (i + k, ahi, j + k, bhi) :: (if c1 then (alo, i, blo, j) :: q else q)
               else (if c1 then (alo, i, blo, j) :: q else q)) = N ++ q) as ->.
      { unfold N. destruct c1, c2; reflexivity. }
      apply IH.
      * split; [|split].
        -- apply Forall_app; split; [|exact Hq'].
           unfold N. apply Forall_app; split.
           ++ destruct c2; constructor; [|constructor]. unfold region_ok; cbn. lia.
           ++ destruct c1; constructor; [|constructor]. unfold region_ok; cbn. lia.
        -- apply Forall_app; split; [exact Ha|]. constructor; [|constructor].
           split; [exact Xok|]. unfold b_k; cbn. lia.
        -- rewrite map_app. cbn [map]. rewrite app_assoc.
           apply (FOP_perm rcompat rcompat_sym (rect_of (i, j, k) :: (N ++ q) ++ map rect_of acc)).
           { apply Permutation_cons_append. }
           rewrite <- app_assoc.
           change (rect_of (i, j, k) :: N ++ q ++ map rect_of acc)
             with ((rect_of (i, j, k) :: N) ++ q ++ map rect_of acc).
           apply (FOP_replace (alo, ahi, blo, bhi)); [exact Hf| |].
           ++ constructor.
              { unfold inside, rect_of, r_alo, r_ahi, r_blo, r_bhi, b_i, b_j, b_k; cbn. lia. }
              unfold N. apply Forall_app; split.
              ** destruct c2; constructor; [|constructor].
                 unfold inside, r_alo, r_ahi, r_blo, r_bhi; cbn. lia.
              ** destruct c1; constructor; [|constructor].
                 unfold inside, r_alo, r_ahi, r_blo, r_bhi; cbn. lia.
           ++ unfold N. destruct c1, c2; cbn; repeat constructor;
                unfold rcompat, rbefore, rect_of, r_alo, r_ahi, r_blo, r_bhi, b_i, b_j, b_k; cbn; lia.
      * assert (mu (N ++ q) + 1 <= 2 * (ahi - alo) + 1 + mu q); [|lia].
        rewrite mu_app. generalize (mu q) as m; intros m.
        unfold N. subst c1 c2.
        destruct (alo <? i) eqn:E1; destruct (blo <? j) eqn:E2;
          destruct (i + k <? ahi) eqn:E3; destruct (j + k <? bhi) eqn:E4; cbn;
          unfold r_ahi, r_alo; cbn; lia.
Qed.

(* ---- sorting ----------------------------------------------------------------- *)
Lemma block_leb_total x y : block_leb x y = false -> block_leb y x = true.
Proof.
  unfold block_leb. destruct x as [[i1 j1] k1], y as [[i2 j2] k2]; unfold b_i, b_j, b_k; cbn.
  intros H.
  destruct (i1 <? i2) eqn:A1; destruct (i2 <? i1) eqn:A2; destruct (Nat.eqb i1 i2) eqn:A3;
    destruct (Nat.eqb i2 i1) eqn:A4; destruct (j1 <? j2) eqn:B1; destruct (j2 <? j1) eqn:B2;
    destruct (Nat.eqb j1 j2) eqn:B3; destruct (Nat.eqb j2 j1) eqn:B4;
    destruct (k1 <=? k2) eqn:C1; destruct (k2 <=? k1) eqn:C2; cbn in *; try congruence;
    repeat match goal with
           | H : (_ <? _) = true |- _ => apply Nat.ltb_lt in H
           | H : (_ <? _) = false |- _ => apply Nat.ltb_ge in H
           | H : (_ <=? _) = true |- _ => apply Nat.leb_le in H
           | H : (_ <=? _) = false |- _ => apply Nat.leb_gt in H
           | H : Nat.eqb _ _ = true |- _ => apply Nat.eqb_eq in H
           | H : Nat.eqb _ _ = false |- _ => apply Nat.eqb_neq in H
           end; lia.
Qed.

Definition leR (x y : block) : Prop := block_leb x y = true.

Lemma insert_block_perm x l : Permutation (insert_block x l) (x :: l).
Proof.
  induction l as [|y l IH]; cbn; [reflexivity|].
  destruct (block_leb x y); [reflexivity|].
  rewrite IH. apply perm_swap.
Qed.

Lemma insert_block_sorted x l : Sorted leR l -> Sorted leR (insert_block x l).
Proof.
  induction l as [|y l IH]; intros H; cbn; [repeat constructor|].
  destruct (block_leb x y) eqn:E.
  - constructor; [exact H|constructor; exact E].
  - inversion H as [|? ? Hs Hh]; subst. constructor; [auto|].
    destruct l as [|z l]; cbn.
    + constructor. apply block_leb_total; exact E.
    + destruct (block_leb x z); constructor.
      * apply block_leb_total; exact E.
      * inversion Hh; assumption.
Qed.

Lemma sort_blocks_perm l : Permutation (sort_blocks l) l.
Proof.
  induction l as [|x l IH]; cbn; [reflexivity|].
  rewrite insert_block_perm. constructor. exact IH.
Qed.

Lemma sort_blocks_sorted l : Sorted leR (sort_blocks l).
Proof. induction l; cbn; [constructor|apply insert_block_sorted; assumption]. Qed.

(* ---- chains -------------------------------------------------------------------- *)
Fixpoint chain (i j : nat) (l : list block) : Prop :=
  match l with
  | [] => True
  | x :: r => i <= b_i x /\ j <= b_j x /\ chain (b_i x + b_k x) (b_j x + b_k x) r
  end.

Lemma chain_sorted : forall l i j, Sorted leR l -> ForallOrdPairs rcompat (map rect_of l) ->
  Forall good_block l ->
  match l with x :: _ => i <= b_i x /\ j <= b_j x | [] => True end ->
  chain i j l.
Proof.
  induction l as [|x l IH]; intros i j Hs Hf Hg Hh; cbn; [exact I|].
  destruct Hh as [H1 H2]. split; [exact H1|]. split; [exact H2|].
  inversion Hs as [|? ? Hs' Hhd]; subst. cbn in Hf. inversion Hf as [|? ? Hx Hf']; subst.
  inversion Hg as [|? ? _ Hg']; subst.
  apply IH; auto.
  destruct l as [|y l]; [exact I|].
  inversion Hhd as [|? ? Hle]; subst. cbn in Hx. inversion Hx as [|? ? Hc _]; subst.
  inversion Hg' as [|? ? [_ Hky] _]; subst.
  unfold leR, block_leb in Hle. unfold rcompat, rbefore, rect_of, r_alo, r_ahi, r_blo, r_bhi in Hc.
  cbn in Hc. destruct Hc as [Hc|Hc]; [lia|].
  exfalso.
  destruct (b_i x <? b_i y) eqn:A1; [apply Nat.ltb_lt in A1; lia|].
  destruct (Nat.eqb (b_i x) (b_i y)) eqn:A2; [apply Nat.eqb_eq in A2; lia|].
  cbn in Hle. discriminate.
Qed.

Lemma block_ok_merge i1 j1 k1 k2 :
  block_ok a b (i1, j1, k1) -> block_ok a b (i1 + k1, j1 + k1, k2) ->
  block_ok a b (i1, j1, k1 + k2).
Proof.
  unfold block_ok, b_i, b_j, b_k; cbn. intros (A1 & A2 & A3) (B1 & B2 & B3).
  repeat split; try lia. intros d Hd.
  destruct (le_lt_dec k1 d) as [Hge|Hlt]; [|apply A3; exact Hlt].
  specialize (B3 (d - k1) ltac:(lia)).
  replace (i1 + k1 + (d - k1)) with (i1 + d) in B3 by lia.
  replace (j1 + k1 + (d - k1)) with (j1 + d) in B3 by lia. exact B3.
Qed.

Lemma collapse_chain : forall l i1 j1 k1 i j,
  chain (i1 + k1) (j1 + k1) l -> Forall (block_ok a b) l -> block_ok a b (i1, j1, k1) ->
  i <= i1 -> j <= j1 ->
  chain i j (collapse l i1 j1 k1) /\ Forall (block_ok a b) (collapse l i1 j1 k1).
Proof.
  induction l as [|[[i2 j2] k2] l IH]; intros i1 j1 k1 i j Hc Hl Hb Hi Hj; cbn.
  - destruct (Nat.eqb k1 0); cbn; [auto|]. unfold b_i, b_j; cbn. repeat split; auto.
  - cbn in Hc. unfold b_i, b_j, b_k in Hc; cbn in Hc. destruct Hc as (C1 & C2 & C3).
    inversion Hl as [|? ? Hb2 Hl']; subst.
    destruct (Nat.eqb (i1 + k1) i2 && Nat.eqb (j1 + k1) j2) eqn:E.
    + apply andb_true_iff in E. destruct E as [E1 E2].
      apply Nat.eqb_eq in E1. apply Nat.eqb_eq in E2. subst i2 j2.
      apply IH; auto.
      * replace (i1 + (k1 + k2)) with (i1 + k1 + k2) by lia.
        replace (j1 + (k1 + k2)) with (j1 + k1 + k2) by lia. exact C3.
      * apply block_ok_merge; assumption.
    + destruct (IH i2 j2 k2 (i1 + k1) (j1 + k1) C3 Hl' Hb2 C1 C2) as [D1 D2].
      destruct (Nat.eqb k1 0) eqn:Ek; cbn.
      * apply Nat.eqb_eq in Ek. subst k1.
        destruct (IH i2 j2 k2 i j C3 Hl' Hb2 ltac:(lia) ltac:(lia)) as [F1 F2]. auto.
      * unfold b_i, b_j, b_k; cbn. repeat split; auto.
Qed.

Lemma chain_sentinel : forall l i j, chain i j l -> Forall (block_ok a b) l ->
  i <= length a -> j <= length b ->
  chain i j (l ++ [(length a, length b, 0)]).
Proof.
  induction l as [|x l IH]; intros i j Hc Hl Hi Hj; cbn.
  - unfold b_i, b_j; cbn. auto.
  - cbn in Hc. destruct Hc as (C1 & C2 & C3). inversion Hl as [|? ? (B1 & B2 & _) Hl']; subst.
    repeat split; auto.
Qed.

(* ---- opcodes --------------------------------------------------------------------- *)
Definition op_ok (o : opcode) : Prop :=
  o_i1 o <= o_i2 o /\ o_i2 o <= length a /\ o_j1 o <= o_j2 o /\ o_j2 o <= length b /\
  match o_tag o with
  | Equal => o_i1 o < o_i2 o /\ o_i2 o - o_i1 o = o_j2 o - o_j1 o /\
             forall d, d < o_i2 o - o_i1 o -> nth_error a (o_i1 o + d) = nth_error b (o_j1 o + d)
  | Delete => o_i1 o < o_i2 o /\ o_j1 o = o_j2 o
  | Insert => o_i1 o = o_i2 o /\ o_j1 o < o_j2 o
  | Replace => o_i1 o < o_i2 o /\ o_j1 o < o_j2 o
  end.

(* the opcodes tile both sequences from (i, j) to the ends *)
Fixpoint tiles (ops : list opcode) (i j : nat) : Prop :=
  match ops with
  | [] => i = length a /\ j = length b
  | o :: r => o_i1 o = i /\ o_j1 o = j /\ op_ok o /\ tiles r (o_i2 o) (o_j2 o)
  end.

Lemma opcodes_tiles : forall l i j,
  chain i j (l ++ [(length a, length b, 0)]) -> Forall (block_ok a b) l ->
  tiles (opcodes_of (l ++ [(length a, length b, 0)]) i j) i j.
Proof.
  induction l as [|[[ai bj] size] l IH]; intros i j Hc Hl.
  - cbn in Hc. unfold b_i, b_j in Hc; cbn in Hc. destruct Hc as (C1 & C2 & _).
    cbn. rewrite !Nat.add_0_r.
    destruct (i <? length a) eqn:E1; destruct (j <? length b) eqn:E2; cbn;
      try apply Nat.ltb_lt in E1; try apply Nat.ltb_ge in E1;
      try apply Nat.ltb_lt in E2; try apply Nat.ltb_ge in E2;
      unfold op_ok; cbn; repeat split; try lia.
  - cbn in Hc. unfold b_i, b_j, b_k in Hc; cbn in Hc. destruct Hc as (C1 & C2 & C3).
    inversion Hl as [|? ? (B1 & B2 & B3) Hl']; subst. unfold b_i, b_j, b_k in B1, B2, B3; cbn in *.
    specialize (IH _ _ C3 Hl').
    assert (tiles ((if Nat.eqb size 0 then [] else [mkop Equal ai (ai + size) bj (bj + size)]) ++
                   opcodes_of (l ++ [(length a, length b, 0)]) (ai + size) (bj + size)) ai bj) as Heq.
    { destruct (Nat.eqb size 0) eqn:Es; cbn.
      - apply Nat.eqb_eq in Es. subst size. rewrite !Nat.add_0_r in *. exact IH.
      - apply Nat.eqb_neq in Es. repeat split; auto; unfold op_ok; cbn; repeat split; try lia.
        intros d Hd. apply B3. lia. }
    destruct (i <? ai) eqn:E1; destruct (j <? bj) eqn:E2; cbn [andb app];
      try apply Nat.ltb_lt in E1; try apply Nat.ltb_ge in E1;
      try apply Nat.ltb_lt in E2; try apply Nat.ltb_ge in E2.
    + cbn. repeat split; auto; unfold op_ok; cbn; repeat split; lia.
    + cbn. repeat split; auto; unfold op_ok; cbn; repeat split; lia.
    + cbn. repeat split; auto; unfold op_ok; cbn; repeat split; lia.
    + assert (i = ai) by lia. assert (j = bj) by lia. subst. exact Heq.
Qed.

End Blocks.

Theorem get_opcodes_tiles a b :
  exists ops, get_opcodes a b = Some ops /\ tiles a b ops 0 0.
Proof.
  unfold get_opcodes, get_matching_blocks.
  destruct (mb_loop_ok a b (mb_fuel a) [(0, length a, 0, length b)] []) as (bl & -> & Hg & Hf).
  - split; [|split].
    + constructor; [|constructor]. unfold region_ok, r_alo, r_ahi, r_blo, r_bhi; cbn. lia.
    + constructor.
    + cbn. repeat constructor.
  - unfold mb_fuel, mu, r_ahi, r_alo; cbn. lia.
  - eexists; split; [reflexivity|].
    assert (Forall (good_block a b) (sort_blocks bl)) as Hg'.
    { eapply Permutation_Forall; [apply Permutation_sym, sort_blocks_perm|exact Hg]. }
    assert (ForallOrdPairs rcompat (map rect_of (sort_blocks bl))) as Hf'.
    { eapply (FOP_perm rcompat rcompat_sym); [|exact Hf].
      apply Permutation_map, Permutation_sym, sort_blocks_perm. }
    assert (chain 0 0 (sort_blocks bl)) as Hc.
    { apply (chain_sorted a b); auto; [apply sort_blocks_sorted|].
      destruct (sort_blocks bl); [exact I|lia]. }
    assert (Forall (block_ok a b) (sort_blocks bl)) as Hb.
    { eapply Forall_impl; [|exact Hg']. intros x [H _]; exact H. }
    destruct (collapse_chain a b (sort_blocks bl) 0 0 0 0 0 Hc Hb) as [D1 D2]; try lia.
    { unfold block_ok, b_i, b_j, b_k; cbn. repeat split; try lia. }
    apply opcodes_tiles; [|exact D2].
    apply chain_sentinel; auto; lia.
Qed.

(* ---- b is a prefix of a ---------------------------------------------------------- *)
Lemma eqb_refl x : eqb x x = true.
Proof. apply eqb_eq; reflexivity. Qed.

Lemma scan_row_noop i blo : forall row t best,
  (forall u, u < length row -> nth u row 0 <= b_k best) -> scan_row i blo t row best = best.
Proof.
  induction row as [|k row IH]; intros t best H; cbn; [reflexivity|].
  pose proof (H 0 ltac:(cbn; lia)) as H0. cbn in H0.
  destruct (b_k best <? k) eqn:E; [apply Nat.ltb_lt in E; lia|].
  apply IH. intros u Hu. apply (H (S u)). cbn; lia.
Qed.

Lemma scan_row_app i blo : forall r1 r2 t best,
  scan_row i blo t (r1 ++ r2) best = scan_row i blo (t + length r1) r2 (scan_row i blo t r1 best).
Proof.
  induction r1 as [|k r1 IH]; intros r2 t best; cbn.
  - rewrite Nat.add_0_r. reflexivity.
  - rewrite IH. replace (S t + length r1) with (t + S (length r1)) by lia. reflexivity.
Qed.

Lemma flm_prefix_loop (bs c : list T) : forall todo n prev,
  skipn n (bs ++ c) = todo -> row_ok (bs ++ c) bs n prev ->
  (0 < n -> n <= length bs -> nth (n - 1) prev 0 = n) ->
  flm_loop todo n bs 0 prev (0, 0, Nat.min n (length bs)) = (0, 0, length bs).
Proof.
  induction todo as [|x todo IH]; intros n prev Hs Hr Hd; cbn.
  - assert (length (skipn n (bs ++ c)) = 0) as Hl by (rewrite Hs; reflexivity).
    rewrite skipn_length, app_length in Hl. f_equal. lia.
  - assert (nth_error (bs ++ c) n = Some x) as Hx.
    { rewrite <- (Nat.add_0_r n), <- nth_error_skipn', Hs. reflexivity. }
    pose proof (row_ok_step (bs ++ c) bs n x prev Hx Hr) as Hr'.
    destruct Hr as [Hpl _]. destruct Hr' as [Hl He].
    set (row := next_row x bs prev 0) in *.
    destruct (le_lt_dec (length bs) n) as [Hge|Hlt].
    + (* rows below the prefix: nothing can beat length bs *)
      rewrite scan_row_noop.
      * replace (Nat.min n (length bs)) with (Nat.min (S n) (length bs)) by lia.
        apply IH; [apply (skipn_S _ n x todo Hs)|split; assumption|lia].
      * intros u Hu. destruct (He u ltac:(lia)) as (_ & H2 & _). unfold b_k; cbn. lia.
    + (* row n < length bs: the diagonal entry is n + 1 *)
      assert (nth_error bs n = Some x) as Hy.
      { rewrite nth_error_app1 in Hx by exact Hlt. exact Hx. }
      assert (nth n row 0 = S n) as Hdiag.
      { unfold row. rewrite (next_row_nth x bs prev 0 n x Hpl Hy), eqb_refl.
        destruct n as [|n']; [reflexivity|]. f_equal.
        specialize (Hd ltac:(lia) ltac:(lia)). replace (S n' - 1) with n' in Hd by lia. exact Hd. }
      destruct (nth_split row 0 (n := n)) as (l1 & l2 & Hrow & Hl1); [lia|].
      rewrite Hdiag in Hrow.
      assert (scan_row n 0 0 row (0, 0, Nat.min n (length bs)) = (0, 0, S n)) as ->.
      { rewrite Hrow, scan_row_app.
        rewrite (scan_row_noop n 0 l1 0 (0, 0, Nat.min n (length bs))).
        2:{ intros u Hu. unfold b_k; cbn [snd].
            assert (nth u l1 0 = nth u row 0) as -> by (rewrite Hrow, app_nth1 by lia; reflexivity).
            destruct (He u ltac:(lia)) as (_ & H2 & _). lia. }
        cbn [scan_row]. unfold b_k at 1; cbn [snd].
        replace (Nat.min n (length bs)) with n by lia.
        assert (n <? S n = true) as -> by (apply Nat.ltb_lt; lia).
        rewrite scan_row_noop.
        + rewrite Hl1. replace (S n - S n) with 0 by lia.
          replace (S (0 + (0 + n)) - S n) with 0 by lia. reflexivity.
        + intros u Hu. unfold b_k; cbn [snd].
          assert (nth u l2 0 = nth (S n + u) row 0) as ->.
          { rewrite Hrow, app_nth2 by lia. rewrite Hl1.
            replace (S n + u - n) with (S u) by lia. reflexivity. }
          assert (S n + u < length bs) as Hlt'.
          { rewrite <- Hl, Hrow, app_length. cbn. lia. }
          destruct (He (S n + u) Hlt') as (H1 & _ & _). exact H1. }
      replace (S n) with (Nat.min (S n) (length bs)) at 2 by lia.
      apply IH; [apply (skipn_S _ n x todo Hs)|split; assumption|].
      intros _ _. replace (S n - 1) with n by lia. exact Hdiag.
Qed.

Lemma flm_prefix (bs c : list T) :
  find_longest_match (bs ++ c) bs 0 (length (bs ++ c)) 0 (length bs) = (0, 0, length bs).
Proof.
  unfold find_longest_match, sl. rewrite !Nat.sub_0_r, !skipn_O, !firstn_all.
  apply (flm_prefix_loop bs c (bs ++ c) 0 (repeat 0 (length bs)) eq_refl (row_ok_init _ _)).
  lia.
Qed.

Lemma mb_loop_nil a b fuel acc : mb_loop a b fuel [] acc = Some acc.
Proof. destruct fuel; reflexivity. Qed.

(* if b is a proper prefix of a, the opcodes are "equal" over b (when b is
   not empty) and one "delete" of the rest of a *)
Theorem get_opcodes_prefix (bs c : list T) : c <> [] ->
  get_opcodes (bs ++ c) bs =
  Some ((if Nat.eqb (length bs) 0 then [] else [mkop Equal 0 (length bs) 0 (length bs)]) ++
        [mkop Delete (length bs) (length (bs ++ c)) (length bs) (length bs)]).
Proof.
  intros Hc. unfold get_opcodes, get_matching_blocks, mb_fuel.
  replace (2 * length (bs ++ c) + 2) with (S (2 * length (bs ++ c) + 1)) by lia.
  cbn [mb_loop]. rewrite flm_prefix.
  assert (0 < length c) as Hlc by (destruct c; [contradiction|cbn; lia]).
  destruct (Nat.eqb (length bs) 0) eqn:E.
  - apply Nat.eqb_eq in E. rewrite E. cbn [Nat.eqb]. rewrite mb_loop_nil.
    cbn [collapse sort_blocks fold_right app opcodes_of Nat.eqb].
    rewrite app_length, E. cbn [Nat.add]. rewrite Nat.eqb_refl. cbn [app opcodes_of].
    assert (0 <? length c = true) as -> by (apply Nat.ltb_lt; lia).
    rewrite Nat.ltb_irrefl, Nat.eqb_refl. reflexivity.
  - apply Nat.eqb_neq in E.
    assert (0 <? 0 = false) as -> by reflexivity. cbn [andb].
    assert (0 + length bs <? length bs = false) as -> by (apply Nat.ltb_ge; lia).
    rewrite andb_false_r. rewrite mb_loop_nil.
    cbn [app sort_blocks fold_right insert_block collapse Nat.add].
    rewrite !Nat.eqb_refl. cbn [andb collapse].
    rewrite (proj2 (Nat.eqb_neq (length bs) 0) E).
    cbn [app opcodes_of]. rewrite Nat.ltb_irrefl. cbn [andb app].
    rewrite (proj2 (Nat.eqb_neq (length bs) 0) E). cbn [app Nat.add].
    rewrite Nat.add_0_r, Nat.ltb_irrefl, andb_false_r.
    assert (length bs <? length (bs ++ c) = true) as -> by (apply Nat.ltb_lt; rewrite app_length; lia).
    rewrite Nat.eqb_refl. reflexivity.
Qed.

End DifflibProofs.
