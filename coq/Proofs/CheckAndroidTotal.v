(* C09: get_params never raises.  A relational reading of the matcher (what a
   successful run of [m] did, construct by construct) is proved sound for every
   regular expression; on the printf-like expression of get_params it shows that
   the "format" group always takes part in a match and that a non-empty "order"
   group starts with a digit 1-9, so int(order[0]) cannot fail. *)
From Coq Require Import NArith List Bool Arith Lia.
From CL Require Import Base.Sx Base.Res Base.Str Regex.Rx Regex.RxLemmas Generated.RxC09
  Generated.C09Facts Model.CheckAndroid.
Import ListNotations.

Inductive star (P : st -> st -> Prop) : st -> st -> Prop :=
| star_nil : forall s, star P s s
| star_cons : forall s s1 s2, P s s1 -> star P s1 s2 -> star P s s2.

Lemma star_trans : forall P a b c, star P a b -> star P b c -> star P a c.
Proof.
  intros P a b c H. induction H; intro H2; auto. eapply star_cons; eauto.
Qed.

(* what a successful run of the matcher on r from s to s' consists of
   (back-references are left unconstrained, assertions do not move) *)
Inductive ms : rx -> st -> st -> Prop :=
| ms_eps : forall s, ms Eps s s
| ms_chr : forall neg rs s c t, suf s = c :: t -> chr_ok neg rs c = true ->
    ms (Chr neg rs) s (advance s c t)
| ms_cat : forall a b s s1 s2, ms a s s1 -> ms b s1 s2 -> ms (Cat a b) s s2
| ms_altl : forall a b s s1, ms a s s1 -> ms (Alt a b) s s1
| ms_altr : forall a b s s1, ms b s s1 -> ms (Alt a b) s s1
| ms_rep : forall g lo hi r s s1, star (ms r) s s1 -> ms (Rep g lo hi r) s s1
| ms_grp : forall n r s s1, ms r s s1 -> ms (Grp n r) s (set_cap n (pos s, pos s1) s1)
| ms_bref : forall n s s1, ms (Bref n) s s1
| ms_bol : forall mu s, ms (Bol mu) s s
| ms_eol : forall mu s, ms (Eol mu) s s
| ms_end : forall s, ms EndStr s s
| ms_look : forall a n r s, ms (Look a n r) s s.

Lemma rep_loop_ms : forall (P : st -> st -> Prop) body g lo hi,
  (forall s k x, body s k = Done x -> exists s', P s s' /\ k s' = Done x) ->
  forall fuel count s k x, rep_loop body g lo hi fuel count s k = Done x ->
  exists s', star P s s' /\ k s' = Done x.
Proof.
  intros P body g lo hi Hb. induction fuel as [|f IH]; intros count s k x H.
  - discriminate.
  - rewrite rep_loop_S in H. destruct (count <? lo).
    + apply Hb in H. destruct H as [s1 [P1 H]].
      apply IH in H. destruct H as [s2 [P2 H]].
      exists s2. split; auto. eapply star_cons; eauto.
    + cbv zeta in H.
      assert (Hm : (if match hi with None => true | Some h => count <? h end then
                      body s (fun s' => if Nat.eqb (pos s') (pos s) then Fail
                                        else rep_loop body g lo hi f (S count) s' k)
                    else Fail) = Done x ->
                   exists s', star P s s' /\ k s' = Done x).
      { intro Hm. destruct (match hi with None => true | Some h => count <? h end);
          [|discriminate].
        apply Hb in Hm. destruct Hm as [s1 [P1 Hm]].
        destruct (Nat.eqb (pos s1) (pos s)); [discriminate|].
        apply IH in Hm. destruct Hm as [s2 [P2 Hm]].
        exists s2. split; auto. eapply star_cons; eauto. }
      destruct g; apply orelse_done in H; destruct H as [H|[_ H]]; auto;
        exists s; (split; [apply star_nil|exact H]).
Qed.

Theorem m_sound : forall r s k x, m r s k = Done x -> exists s', ms r s s' /\ k s' = Done x.
Proof.
  induction r; intros s k x H; simpl in H.
  - exists s. split; [constructor|auto].
  - destruct (suf s) as [|c t] eqn:Hs; [discriminate|].
    destruct (chr_ok neg rs c) eqn:Hc; [|discriminate].
    exists (advance s c t). split; [constructor; auto|auto].
  - apply IHr1 in H. destruct H as [s1 [M1 H]].
    apply IHr2 in H. destruct H as [s2 [M2 H]].
    exists s2. split; auto. econstructor; eauto.
  - apply orelse_done in H. destruct H as [H|[_ H]].
    + apply IHr1 in H. destruct H as [s1 [M1 H]]. exists s1. split; auto. apply ms_altl; auto.
    + apply IHr2 in H. destruct H as [s1 [M1 H]]. exists s1. split; auto. apply ms_altr; auto.
  - apply (rep_loop_ms (ms r) _ _ _ _ IHr) in H. destruct H as [s1 [M1 H]].
    exists s1. split; auto. constructor; auto.
  - apply IHr in H. destruct H as [s1 [M1 H]].
    exists (set_cap n (pos s, pos s1) s1). split; auto. constructor; auto.
  - destruct (get_cap n (caps s)) as [[a b]|]; [|discriminate].
    destruct (lit _ s) as [s1|]; [|discriminate].
    exists s1. split; auto. constructor.
  - destruct (at_bol multi s); [|discriminate]. exists s. split; [constructor|auto].
  - destruct (at_eol multi s); [|discriminate]. exists s. split; [constructor|auto].
  - destruct (suf s); [|discriminate]. exists s. split; [constructor|auto].
  - destruct ahead.
    + destruct (m r s Done); destruct neg; try discriminate;
        exists s; (split; [constructor|auto]).
    + destruct (pre s) as [|c p].
      * destruct neg; [|discriminate]. exists s. split; [constructor|auto].
      * match type of H with match ?e with _ => _ end = _ => destruct e end;
          destruct neg; try discriminate; exists s; (split; [constructor|auto]).
Qed.

(* ---- expressions without groups leave the captures alone ----------------------------------- *)
Fixpoint no_grp (r : rx) : bool :=
  match r with
  | Grp _ _ | Bref _ => false
  | Cat a b | Alt a b => no_grp a && no_grp b
  | Rep _ _ _ r' => no_grp r'
  | _ => true
  end.

Lemma ms_no_grp : forall r, no_grp r = true -> forall s s', ms r s s' -> caps s' = caps s.
Proof.
  induction r; intros Hn s s' H; simpl in Hn; try discriminate;
    try (inversion H; subst; reflexivity).
  - apply andb_true_iff in Hn. destruct Hn as [H1 H2].
    inversion H; subst. rewrite (IHr2 H2 _ _ H7), (IHr1 H1 _ _ H4). reflexivity.
  - apply andb_true_iff in Hn. destruct Hn as [H1 H2].
    inversion H; subst; auto.
  - inversion H; subst. clear H.
    match goal with Hs : star _ _ _ |- _ => induction Hs as [|? ? ? Hp Hs IHs]; auto end.
    rewrite IHs. apply IHr; auto.
Qed.

(* ---- the matcher state and the subject ------------------------------------------------------------ *)
Definition on (s0 : str) (z : st) : Prop :=
  rev (pre z) ++ suf z = s0 /\ pos z = length (pre z).

Lemma on_advance : forall s0 z c t, on s0 z -> suf z = c :: t -> on s0 (advance z c t).
Proof.
  intros s0 z c t [H1 H2] Hs. split; simpl.
  - rewrite <- app_assoc. simpl. rewrite <- Hs. exact H1.
  - lia.
Qed.

Lemma on_nth : forall s0 z c t, on s0 z -> suf z = c :: t -> nth_error s0 (pos z) = Some c.
Proof.
  intros s0 z c t [H1 H2] Hs. rewrite <- H1, Hs, nth_error_app2; rewrite rev_length; [|lia].
  rewrite H2, Nat.sub_diag. reflexivity.
Qed.

Lemma on_st_at : forall s, on s (st_at s 0).
Proof. intro s. split; reflexivity. Qed.

Lemma on_fwd : forall s0 n z, on s0 z -> on s0 (fwd n z) /\ caps (fwd n z) = caps z.
Proof.
  induction n as [|n IH]; intros z H; simpl; auto.
  destruct (suf z) as [|c t] eqn:Hs; auto.
  destruct (IH (advance z c t)) as [H1 H2]; [apply on_advance; auto|]. auto.
Qed.

(* every result of finditer comes from a run of the matcher at a position of the subject *)
Definition from_run (r : rx) (s0 : str) (x : mres) : Prop :=
  exists z s', on s0 z /\ caps z = [] /\ ms r z s' /\ x = mkres (pos z) (pos s') (caps s').

Lemma run_at_ms : forall r z acc res, run_at r z acc = MSome res ->
  exists s', ms r z s' /\ res = mkres (pos z) (pos s') (caps s').
Proof.
  unfold run_at. intros r z acc res H.
  destruct (m r z _) as [|s1|] eqn:E; try discriminate.
  apply m_sound in E. destruct E as [s' [M E]].
  destruct (acc s'); [|discriminate]. inversion E; subst s1. inversion H. eauto.
Qed.

Lemma search_from_run : forall r s0 fuel z ne x, on s0 z -> caps z = [] ->
  search_from r fuel z ne = MSome x -> from_run r s0 x.
Proof.
  intros r s0. induction fuel as [|f IH]; intros z ne x Hon Hc H; [discriminate|].
  rewrite search_from_S in H. destruct (run_at r z _) as [|res|] eqn:E.
  - destruct (suf z) as [|c t] eqn:Hs; [discriminate|].
    eapply IH; [| |exact H]; [apply on_advance; auto|exact Hc].
  - inversion H; subst res. apply run_at_ms in E. destruct E as [s' [M E]].
    exists z, s'. auto.
  - discriminate.
Qed.

Lemma finditer_from_run : forall r s0 fuel z ne l, on s0 z -> caps z = [] ->
  finditer_from r fuel z ne = Some l -> Forall (from_run r s0) l.
Proof.
  intros r s0. induction fuel as [|f IH]; intros z ne l Hon Hc H; [discriminate|].
  rewrite finditer_from_S in H.
  destruct (search_from r _ z ne) as [|x|] eqn:E; try discriminate.
  - inversion H. constructor.
  - destruct (finditer_from r f _ _) as [rest|] eqn:F; [|discriminate].
    inversion H; subst l. constructor.
    + eapply search_from_run; eauto.
    + assert (Hz : on s0 (mkst (pre z) (suf z) (pos z) [])) by exact Hon.
      destruct (on_fwd s0 (m_end x - pos z) _ Hz) as [H1 H2].
      eapply IH; [exact H1|exact H2|exact F].
Qed.

Theorem rfinditer_run : forall r s l, rfinditer r s = Some l -> Forall (from_run r s) l.
Proof.
  intros r s l H. unfold rfinditer in H.
  eapply finditer_from_run; [apply on_st_at|reflexivity|exact H].
Qed.

(* ---- the printf-like expression ---------------------------------------------------------------------- *)
(* its shape: a first item without groups, an optional group "order" that
   starts with a digit 1-9, a group "format" without inner groups *)
Definition params_shape (r : rx) : Prop :=
  exists pct x body,
    r = Cat pct (Cat (Alt (Grp g_c09_params_order (Cat (Chr false [(49, 57)]%N) x)) Eps)
                     (Grp g_c09_params_format body)) /\
    no_grp pct = true /\ no_grp x = true /\ no_grp body = true.

Lemma rx_params_shape : params_shape rx_c09_params.
Proof.
  unfold params_shape, rx_c09_params. do 3 eexists. split; [reflexivity|].
  repeat split; reflexivity.
Qed.

Definition good_match (s0 : str) (x : mres) : Prop :=
  (exists sp, group g_c09_params_format x = Some sp) /\
  (forall a b, group g_c09_params_order x = Some (a, b) -> a < b ->
     exists c, nth_error s0 a = Some c /\ (49 <= c)%N /\ (c <= 57)%N).

Lemma in_ranges_one : forall c lo hi, in_ranges c [(lo, hi)] = true -> (lo <= c)%N /\ (c <= hi)%N.
Proof.
  intros c lo hi H. unfold in_ranges in H. simpl in H. rewrite orb_false_r in H.
  apply andb_true_iff in H. destruct H as [H1 H2].
  apply N.leb_le in H1, H2. auto.
Qed.

(* [on] along a run of an expression without groups and back-references *)
Lemma ms_on : forall s0 r, no_grp r = true -> forall z s', on s0 z -> ms r z s' -> on s0 s'.
Proof.
  intros s0. induction r; intros Hn z s' Hon H; simpl in Hn; try discriminate;
    try (inversion H; subst; exact Hon).
  - inversion H; subst. apply on_advance; auto.
  - apply andb_true_iff in Hn. destruct Hn as [H1 H2].
    inversion H; subst. apply (IHr2 H2 s1 s'); auto. apply (IHr1 H1 z s1); auto.
  - apply andb_true_iff in Hn. destruct Hn as [H1 H2].
    inversion H; subst; eauto.
  - inversion H; subst. clear H.
    match goal with Hs : star _ _ _ |- _ => induction Hs as [|? ? ? Hp Hs IHs]; auto end.
    apply IHs. eapply IHr; eauto.
Qed.

Lemma shape_good : forall r s0 x, params_shape r -> from_run r s0 x -> good_match s0 x.
Proof.
  intros r s0 x [pct [xr [body [Hr [Hp [Hx Hb]]]]]] [z [s' [Hon [Hc [M Hres]]]]].
  subst r x. unfold good_match, group. simpl m_caps.
  inversion M as [| |? ? ? s1 ? M1 M2| | | | | | | | |]; subst. clear M.
  inversion M2 as [| |? ? ? s2 ? M3 M4| | | | | | | | |]; subst. clear M2.
  inversion M4 as [| | | | | |? ? ? s3 M5| | | | |]; subst. clear M4.
  pose proof (ms_no_grp _ Hp _ _ M1) as C1.
  pose proof (ms_no_grp _ Hb _ _ M5) as C3.
  pose proof (ms_on s0 _ Hp _ _ Hon M1) as On1.
  simpl caps. unfold g_c09_params_format, g_c09_params_order in *.
  split.
  - simpl. eauto.
  - intros a b Hg Hab. simpl in Hg. rewrite C3 in Hg.
    inversion M3 as [| | |? ? ? ? M6|? ? ? ? M6| | | | | | |]; subst; clear M3.
    + (* the order group took part *)
      inversion M6 as [| | | | | |? ? ? s4 M7| | | | |]; subst. clear M6.
      inversion M7 as [| |? ? ? s5 ? M8 M9| | | | | | | | |]; subst. clear M7.
      inversion M8 as [|? ? ? c t Hs Hok| | | | | | | | | |]; subst. clear M8.
      simpl in Hg. inversion Hg; subst. clear Hg.
      exists c. split.
      * eapply on_nth; eauto.
      * unfold chr_ok in Hok. rewrite Bool.xorb_false_l in Hok. apply in_ranges_one in Hok. exact Hok.
    + (* it did not: no capture at all *)
      inversion M6; subst. rewrite C1, Hc in Hg. discriminate.
Qed.

Lemma occ_of_match_ok : forall s x, good_match s x -> exists o, occ_of_match s x = Ok o.
Proof.
  intros s x [[[a b] Hf] Ho]. unfold occ_of_match. rewrite Hf. cbn [bind].
  destruct (group g_c09_params_order x) as [[a' b']|] eqn:E; [|eauto].
  destruct (a' <? b') eqn:El; [|eauto].
  apply Nat.ltb_lt in El. destruct (Ho _ _ eq_refl El) as [c [Hc [H1 H2]]]. rewrite Hc.
  unfold int_of_digit.
  assert (Hd : N.leb 48 c && N.leb c 57 = true).
  { apply andb_true_iff. split; apply N.leb_le; lia. }
  rewrite Hd. cbn [bind]. eauto.
Qed.

Lemma mapM_ok : forall {T U} (f : T -> result U) l,
  Forall (fun x => exists y, f x = Ok y) l -> exists ys, mapM f l = Ok ys.
Proof.
  intros T U f. induction l as [|x l IH]; intro H.
  - exists []. reflexivity.
  - inversion H as [|? ? [y Hy] H']; subst. destruct (IH H') as [ys Hys].
    exists (y :: ys). simpl. rewrite Hy, Hys. reflexivity.
Qed.

(* get_params never raises: no fuel exhaustion, the format group is always there,
   int(order[0]) always gets a digit *)
Theorem scan_params_total : forall s, exists os, scan_params s = Ok os.
Proof.
  intro s. unfold scan_params, finditer.
  destruct (rfinditer rx_c09_params s) as [l|] eqn:E.
  - cbn [bind]. apply mapM_ok. apply rfinditer_run in E.
    eapply Forall_impl; [|exact E]. intros x Hx.
    apply occ_of_match_ok. eapply shape_good; [apply rx_params_shape|exact Hx].
  - exfalso. revert E. apply rfinditer_no_fuel.
Qed.

Theorem get_params_total : forall s, exists st, get_params s = Ok st.
Proof.
  intro s. unfold get_params. destruct (scan_params_total s) as [os H]. rewrite H. simpl. eauto.
Qed.
