(* The first entry of a merged entry list: it is no whitespace when no version starts with
   whitespace, and it is an entry of a given kind and key when every version starts with such
   an entry (a header instruction like "#filter emptyLines" stays in front).  For
   merge_channels and for serialize. *)
From Coq Require Import ZArith NArith List Bool Arith Lia.
From CL Require Import Base.Sx Base.Res Base.Str Model.AddRemove Proofs.AddRemoveProofs
                       Proofs.AddRemoveSpec Model.Channels Proofs.ChannelsProofs Proofs.ChannelsSpec
                       Model.Serializer Proofs.SerializerProofs Proofs.SerializerSpec
                       Proofs.SerializerFinal Proofs.MergeShapeKeys Proofs.MergeShape.
From CL Require Proofs.MergeReparse15.
Import ListNotations.
Local Open Scope nat_scope.

(* ---- the C20 order --------------------------------------------------------------------------- *)
Section SpecHead.
Context {K : Type} (eqb : K -> K -> bool).
Hypothesis eqb_eq : forall a b, eqb a b = true <-> a = b.

Lemma flat_single (l : list K) : flat_map (fun x => x :: followers eqb x []) l = l.
Proof. induction l as [|x l IH]; [reflexivity|]. cbn. f_equal. exact IH. Qed.

Lemma spec_keys_nil_r l : spec_keys eqb l [] = l.
Proof. unfold spec_keys. cbn. apply flat_single. Qed.

Lemma spec_keys_head l r k t : spec_keys eqb l r = k :: t ->
  (exists l', l = k :: l') \/ (exists r', r = k :: r').
Proof.
  unfold spec_keys. destruct r as [|y r'].
  - cbn. rewrite flat_single. intros ->. left. eauto.
  - cbn [runs]. destruct (runs eqb l r') as [pre gs]. destruct (mem eqb y l).
    + cbn [app]. destruct l as [|x l']; [discriminate|]. cbn. intros H. inversion H. left. eauto.
    + cbn [app]. intros H. inversion H. right. eauto.
Qed.

Lemma spec_keys_same_head k l r : exists t, spec_keys eqb (k :: l) (k :: r) = k :: t.
Proof.
  unfold spec_keys. cbn [runs]. destruct (runs eqb (k :: l) r) as [pre gs].
  assert (E : mem eqb k (k :: l) = true).
  { cbn. replace (eqb k k) with true by (symmetry; apply eqb_eq; reflexivity). reflexivity. }
  rewrite E. cbn. eauto.
Qed.
End SpecHead.

(* ---- folding whitespace keeps a first entry that is no whitespace ------------------------ *)
Lemma fold_ws_bottom e : is_white e = false -> forall l acc,
  exists acc', fold_left prune_ws_step l (acc ++ [e]) = acc' ++ [e].
Proof.
  intros He. induction l as [|x l IH]; intros acc; [exists acc; reflexivity|].
  cbn [fold_left]. destruct acc as [|a acc0].
  - cbn [app prune_ws_step]. rewrite He, andb_false_r. apply (IH [x]).
  - cbn [app prune_ws_step]. destruct (is_white x && is_white a).
    + destruct (length (c_text a) <? length (c_text x)).
      * apply (IH (x :: acc0)).
      * apply (IH (a :: acc0)).
    + apply (IH (x :: a :: acc0)).
Qed.

Lemma pws_head e l : is_white e = false -> exists t, pws (e :: l) = e :: t.
Proof.
  intros He. unfold pws. cbn [fold_left prune_ws_step].
  destruct (fold_ws_bottom e He l []) as (acc' & E). cbn [app] in E. rewrite E, rev_app_distr.
  cbn. eauto.
Qed.

Definition hdq (Q : centry -> Prop) (l : list centry) : Prop :=
  match l with [] => True | e :: _ => Q e end.

Lemma dvalues_head (D : dict) e t : dvalues D = e :: t -> exists k D', D = (k, e) :: D'.
Proof. destruct D as [|[k e'] D']; cbn; [discriminate|]. intros H. inversion H. eauto. Qed.

Lemma od_get_head (k : dkey) (e : centry) D : od_get dkey_eqb k ((k, e) :: D) = Some e.
Proof.
  cbn. replace (dkey_eqb k k) with true by (symmetry; apply dkey_eqb_eq; reflexivity). reflexivity.
Qed.

(* ---- merge_two --------------------------------------------------------------------------------- *)
Section Two.
Variables (N O : dict) (keep : bool).
Hypothesis HN : wf N.
Hypothesis HO : wf O.
Hypothesis Hst : keep = false -> Forall (fun p => is_sticky (snd p) = false) O.

Lemma merge_two_vals : dvalues (merge_two N O keep) =
  pws (map (valm N O keep) (spec_keys dkey_eqb (dkeys N) (dkeys O))).
Proof.
  rewrite (merge_two_dvalues N O keep HN HO), (contents_vals N O keep HN HO Hst).
  rewrite (addremove_anchor dkey_eqb dkey_eqb_eq _ _ (proj1 HN) (proj1 HO)). reflexivity.
Qed.

(* A: a property of entries that the dict key decides and that excludes whitespace *)
Variable Q : centry -> Prop.
Hypothesis Qnw : forall e, Q e -> is_white e = false.
Hypothesis Qkey : forall k e e', key_ok (k, e) -> key_ok (k, e') -> Q e -> Q e'.

Lemma merge_two_hdq : hdq Q (dvalues N) -> hdq Q (dvalues O) -> hdq Q (dvalues (merge_two N O keep)).
Proof.
  intros HqN HqO. rewrite merge_two_vals.
  destruct (spec_keys dkey_eqb (dkeys N) (dkeys O)) as [|k0 t] eqn:E; [exact I|].
  cbn [map].
  assert (Hk : In k0 (dkeys N) \/ In k0 (dkeys O)).
  { destruct (spec_keys_head dkey_eqb _ _ _ _ E) as [(l' & El)|(r' & Er)]; [left; rewrite El|right; rewrite Er]; left; reflexivity. }
  destruct (get_entity_total N O keep Hst k0 Hk) as (e & Ge & Hin & _).
  assert (Ev : valm N O keep k0 = e) by (unfold valm; rewrite Ge; reflexivity).
  assert (Qe : Q e).
  { assert (Ke : key_ok (k0, e)).
    { destruct Hin as [Hin|Hin]; [apply (key_ok_in N k0 e HN Hin)|apply (key_ok_in O k0 e HO Hin)]. }
    destruct (spec_keys_head dkey_eqb _ _ _ _ E) as [(l' & El)|(r' & Er)].
    - destruct N as [|[k1 e1] N']; [discriminate|]. cbn in El. inversion El; subst k1.
      cbn in HqN. apply (Qkey k0 e1 e); [|exact Ke|exact HqN].
      apply (key_ok_in _ k0 e1 HN). left. reflexivity.
    - destruct O as [|[k1 e1] O']; [discriminate|]. cbn in Er. inversion Er; subst k1.
      cbn in HqO. apply (Qkey k0 e1 e); [|exact Ke|exact HqO].
      apply (key_ok_in _ k0 e1 HO). left. reflexivity. }
  rewrite Ev. destruct (pws_head e (map (valm N O keep) t) (Qnw e Qe)) as (t' & ->). exact Qe.
Qed.
End Two.

(* B: every dict starts with the key k0 and an entry with P *)
Section Same.
Variable k0 : dkey.
Variable P : centry -> Prop.
Hypothesis Pnw : forall e, P e -> is_white e = false.
Hypothesis Pns : forall e, P e -> is_sticky e = false.
Hypothesis Pkey : forall k e, key_ok (k, e) -> P e -> k = k0.

Definition hdk (D : dict) : Prop := exists e D', D = (k0, e) :: D' /\ P e.

Lemma merge_two_hdk N O keep : wf N -> wf O ->
  (keep = false -> Forall (fun p => is_sticky (snd p) = false) O) ->
  hdk N -> O = [] \/ hdk O -> hdk (merge_two N O keep).
Proof.
  intros HN HO Hst (eN & N' & EN & PN) HO'. subst N.
  pose proof (merge_two_vals _ O keep HN HO Hst) as Hv.
  assert (Hhead : exists e t, P e /\ dvalues (merge_two ((k0, eN) :: N') O keep) = e :: t).
  { destruct HO' as [->|(eO & O' & EO & PO)].
    - rewrite Hv. cbn [dkeys map fst]. rewrite spec_keys_nil_r. cbn [map].
      assert (Ev : valm ((k0, eN) :: N') [] keep k0 = eN).
      { unfold valm, get_entity. destruct keep.
        - unfold get_newer_entity. rewrite od_get_head. reflexivity.
        - unfold get_older_entity. change (od_get dkey_eqb k0 []) with (@None centry).
          rewrite od_get_head. reflexivity. }
      rewrite Ev.
      destruct (pws_head eN (map (valm ((k0, eN) :: N') [] keep) (map fst N')) (Pnw eN PN)) as (t & Et).
      exists eN, t. split; [exact PN|exact Et].
    - subst O. rewrite Hv. cbn [dkeys map fst].
      destruct (spec_keys_same_head dkey_eqb dkey_eqb_eq k0 (map fst N') (map fst O')) as (t & ->).
      cbn [map].
      assert (Ev : valm ((k0, eN) :: N') ((k0, eO) :: O') keep k0 = if keep then eN else eO).
      { unfold valm, get_entity. destruct keep.
        - unfold get_newer_entity. rewrite od_get_head. reflexivity.
        - unfold get_older_entity. rewrite od_get_head, (Pns eO PO). reflexivity. }
      rewrite Ev. destruct keep.
      + destruct (pws_head eN (map (valm ((k0, eN) :: N') ((k0, eO) :: O') true) t) (Pnw eN PN)) as (t' & Et).
        exists eN, t'. auto.
      + destruct (pws_head eO (map (valm ((k0, eN) :: N') ((k0, eO) :: O') false) t) (Pnw eO PO)) as (t' & Et).
        exists eO, t'. auto. }
  destruct Hhead as (e & t & Pe & Et). destruct (dvalues_head _ _ _ Et) as (k & D' & ED).
  exists e, D'. split; [|exact Pe].
  pose proof (merge_two_wf _ O keep HN HO) as Hw.
  assert (Kk : key_ok (k, e)) by (apply (key_ok_in _ k e Hw); rewrite ED; left; reflexivity).
  rewrite ED, (Pkey k e Kk Pe). reflexivity.
Qed.
End Same.

(* ---- merge_entries ---------------------------------------------------------------------------- *)
Section Entries.
Variable Q : centry -> Prop.
Hypothesis Qnw : forall e, Q e -> is_white e = false.
Hypothesis Qkey : forall k e e', key_ok (k, e) -> key_ok (k, e') -> Q e -> Q e'.
Hypothesis Qstrip : forall e e', strip e = strip e' -> Q e -> Q e'.

Lemma number_hdq v c : hdq Q v -> hdq Q (number c v).
Proof.
  destruct v as [|e v']; [exact (fun H => H)|]. cbn [hdq].
  pose proof (number_strip (e :: v') c) as Hs. destruct (number c (e :: v')) as [|e' t]; [discriminate|].
  cbn in Hs. apply MergeReparse15.cons_inv in Hs. destruct Hs as [Hs _]. cbn. intros H. exact (Qstrip _ _ (eq_sym Hs) H).
Qed.

Lemma fold_hdq ds : forall d, wf d -> Forall wf ds -> hdq Q (dvalues d) ->
  Forall (fun x => hdq Q (dvalues x)) ds -> hdq Q (dvalues (fold_merge d ds)).
Proof.
  induction ds as [|y ds IH]; intros d Hd Hds Hq Hqs; [exact Hq|].
  inversion Hds as [|? ? Hy Hds']; subst. inversion Hqs as [|? ? Hqy Hqs']; subst.
  cbn [fold_merge fold_left]. fold (fold_merge (merge_two d y true) ds).
  apply IH; try assumption.
  - apply merge_two_wf; assumption.
  - apply (merge_two_hdq d y true Hd Hy ltac:(discriminate) Q Qnw Qkey Hq Hqy).
Qed.

Theorem merge_entries_hdq vs out : Forall ukeys vs -> Forall (hdq Q) vs ->
  merge_entries vs = Ok out -> hdq Q out.
Proof.
  intros Hu Hq Ho. destruct vs as [|v0 vs]; [discriminate|].
  unfold merge_entries, merge_resources, merge_dicts in Ho. cbn in Ho. inversion Ho; subst out; clear Ho.
  destruct (number_all_sep (v0 :: vs) Hu 0) as (_ & S2 & _). cbn in S2.
  inversion S2 as [|? ? Sv Svs]; subst.
  inversion Hu as [|? ? U0 Ur]; subst. inversion Hq as [|? ? Q0 Qr]; subst.
  apply (fold_hdq _ _ Sv Svs).
  - rewrite parse_resource_values by (apply number_uniq; exact U0). apply number_hdq. exact Q0.
  - clear - Ur Qr Qstrip. generalize (length v0). revert Qr.
    induction Ur as [|v vs Hv _ IH]; intros Qr c; cbn; constructor.
    + inversion Qr; subst. rewrite parse_resource_values by (apply number_uniq; exact Hv).
      apply number_hdq. assumption.
    + inversion Qr; subst. apply IH. assumption.
Qed.
End Entries.
