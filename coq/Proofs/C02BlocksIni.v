(* C02, ini: the block theorem.  A file that is a sequence of blocks
     - a section header  [name]  (followed by a newline or the end of the file),
     - an entity  key=value newline , optionally preceded directly by comment lines (its
       attached comment); key and value are taken as they stand (blanks included),
     - a standalone comment (lines starting with ; or #), followed by the end of the file, a
       whitespace block that contains a newline, or a section header,
     - a run of whitespace,
   parses (IniParser: section test, then Parser.getNext) to exactly the entries computed
   from the blocks by [entries_of]; the entities are the records, there is no Junk.
   Comment lines are only recognised at the start of a line (the expression is anchored),
   so a block with comment lines must start a line; the License rule (a comment at offset
   0 or 1 containing "License" stands alone) is excluded by [license_okb], that case is
   C02_license_ini. *)
From Coq Require Import NArith List Bool Arith Lia.
From CL Require Import Base.Sx Base.Res Base.Str Regex.Rx Regex.RxLemmas Model.Entry Model.Parse
  Model.ParseFormats Generated.RxParser Proofs.UnescapeProofs
  Proofs.ClassLoop Proofs.ClassLoop2 Proofs.C02Props Proofs.WalkProofs Proofs.C02Roundtrip
  Proofs.C02BlocksRx Proofs.C02BlocksIniRx.
Import ListNotations.

Local Arguments Nat.ltb : simpl never.
Local Arguments Nat.leb : simpl never.
Local Arguments Nat.eqb : simpl never.
Local Arguments N.eqb : simpl never.
Local Arguments N.leb : simpl never.
Local Arguments chr_ok : simpl never.

Ltac norm_app := repeat (progress (rewrite <- ?app_assoc; cbn [app])).

(* ---- blocks ---------------------------------------------------------------------------------- *)
Inductive iblock :=
| IBlank (w : str)
| IComment (cs : list (N * str))
| ISection (name : str) (nl : bool)
| IEntity (cs : list (N * str)) (key val : str) (nl : bool).

Definition eol (nl : bool) : str := if nl then [10%N] else [].

Definition itext (b : iblock) : str :=
  match b with
  | IBlank w => w
  | IComment cs => ctext cs
  | ISection name nl => 91%N :: name ++ 93%N :: eol nl
  | IEntity cs key val nl => ctext cs ++ key ++ 61%N :: val ++ eol nl
  end.

Definition is_nil {A} (l : list A) : bool := match l with [] => true | _ => false end.

(* a key: does not start with whitespace, "[", ";" or "#", contains no "=" and no newline *)
Definition KFI : list N := WS ++ [91; 59; 35]%N.
Definition legal_ikey (key : str) : bool :=
  match key with
  | [] => false
  | c0 :: _ => negb (mem c0 KFI) && no_chars [10; 61]%N key
  end.

Definition legal_iblockb (b : iblock) : bool :=
  match b with
  | IBlank w => negb (is_nil w) && forallb (fun c => mem c WS) w
  | IComment cs => negb (is_nil cs) && forallb (legal_cline_m CMI) cs
  | ISection name _ => no_chars [10; 93; 61]%N name
  | IEntity cs key val _ => forallb (legal_cline_m CMI) cs && legal_ikey key && no_nl val
  end.
Definition legal_iblock (b : iblock) : Prop := legal_iblockb b = true.

(* local separation; [ls]: the block starts at the beginning of a line *)
Fixpoint isep (ls : bool) (bs : list iblock) : bool :=
  match bs with
  | [] => true
  | IBlank w :: rest => isep (N.eqb (last w 0%N) 10) rest
  | IComment _ :: rest =>
      ls && match rest with
            | [] => true
            | IBlank w :: _ => mem 10%N w
            | ISection _ _ :: _ => true
            | _ => false
            end && isep true rest
  | ISection _ nl :: rest => (nl || is_nil rest) && isep nl rest
  | IEntity cs _ _ nl :: rest => (is_nil cs || ls) && (nl || is_nil rest) && isep nl rest
  end.

(* the License rule applies below offset 2 *)
Fixpoint ilic (off : nat) (bs : list iblock) : bool :=
  match bs with
  | IBlank w :: rest => ilic (off + length w) rest
  | IEntity cs _ _ _ :: _ =>
      (2 <=? off) || negb (contains s_License (comment_val (COffset 1) (cbody cs)))
  | _ => true
  end.

Definition iadjacent_okb (bs : list iblock) : bool := isep true bs && ilic 0 bs.
Definition iadjacent_ok (bs : list iblock) : Prop := iadjacent_okb bs = true.

(* ---- the expected entries ---------------------------------------------------------------------- *)
Definition flush (off w : nat) : list entry :=
  match w with 0 => [] | _ => [mk_white (off, off + w)] end.

Fixpoint ients (off w : nat) (bs : list iblock) : list entry :=
  match bs with
  | [] => flush off w
  | IBlank x :: rest => ients off (w + length x) rest
  | IComment cs :: rest =>
      let a := off + w in
      let e := a + length (cbody cs) in
      flush off w ++ mk_comment (a, e) :: ients e 1 rest
  | ISection name nl :: rest =>
      let a := off + w in
      let e := a + S (length name) + 1 in
      flush off w ++
      mkentry KSection (a, e) (Some (a + 1, a + 1 + length name)) (Some (a + 1, a + 1 + length name))
              None None
      :: ients e (length (eol nl)) rest
  | IEntity cs key val nl :: rest =>
      let a := off + w in
      let k := a + length (ctext cs) in
      let ke := k + length key in
      let v := ke + 1 in
      let e := v + length val in
      flush off w ++
      mkentry KEntity (k, e) (Some (k, ke)) (Some (v, e))
              (match cs with [] => None | _ => Some (a, k - 1) end)
              (match cs with [] => None | _ => Some (k - 1, k) end)
      :: ients e (length (eol nl)) rest
  end.

Definition ientries_of (bs : list iblock) : list entry := ients 0 0 bs.
Definition ifile_text (bs : list iblock) : str := concat (map itext bs).

(* ---- sanity, by evaluation ------------------------------------------------------------------------ *)
Definition A (l : list nat) : str := map N.of_nat l.
Definition ix_sec : iblock := ISection (A [83; 116; 114]) true.                  (* [Str] *)
Definition ix_e1 : iblock := IEntity [] (A [107]) (A [118]) true.                (* k=v *)
Definition ix_e2 : iblock :=                                                     (* ;c / #d / a b = x ; y *)
  IEntity [(59%N, A [99]); (35%N, A [100])] (A [97; 32; 98; 32]) (A [32; 120; 32; 59; 32; 121]) true.
Definition ix_e3 : iblock := IEntity [] (A [107; 50]) [] false.                  (* k2=  (no newline) *)
Definition ix_c : iblock := IComment [(59%N, A [32; 115]); (35%N, [])].
Definition ix_b : iblock := IBlank (A [10]).
Definition ix_b2 : iblock := IBlank (A [32; 10; 9]).

Example ix_all_kinds :
  let bs := [ix_c; ix_sec; ix_e1; ix_e2; ix_b; ix_c; ix_b; ix_b2; ix_e1; ix_sec; ix_b; ix_e3] in
  Forall legal_iblock bs /\ iadjacent_ok bs /\ walk_ini (ifile_text bs) = Ok (ientries_of bs) /\
  map (fun e => (e_kind e, e_span e)) (ientries_of bs) =
  [(KComment, (0, 5)); (KWhitespace, (5, 6)); (KSection, (6, 11)); (KWhitespace, (11, 12));
   (KEntity, (12, 15)); (KWhitespace, (15, 16)); (KEntity, (22, 33)); (KWhitespace, (33, 35));
   (KComment, (35, 40)); (KWhitespace, (40, 45)); (KEntity, (45, 48)); (KWhitespace, (48, 49));
   (KSection, (49, 54)); (KWhitespace, (54, 56)); (KEntity, (56, 59))].
Proof. split; [repeat constructor|]. split; [vm_compute; reflexivity|]. split; vm_compute; reflexivity. Qed.

(* a comment that does not start a line is not a comment: the hypothesis is needed *)
Example ix_line_start_needed :
  let bs := [ix_e1; IBlank (A [32]); ix_c] in
  Forall legal_iblock bs /\ iadjacent_okb bs = false /\ walk_ini (ifile_text bs) <> Ok (ientries_of bs).
Proof. split; [repeat constructor|]. split; [vm_compute; reflexivity|]. vm_compute. discriminate. Qed.

Definition ix_lic : list (N * str) := [(59%N, 32%N :: s_License)].
Example ix_license_needed :
  let bs := [ix_b; IEntity ix_lic (A [107]) (A [118]) true] in
  Forall legal_iblock bs /\ iadjacent_okb bs = false /\ walk_ini (ifile_text bs) <> Ok (ientries_of bs).
Proof. split; [repeat constructor|]. split; [vm_compute; reflexivity|]. vm_compute. discriminate. Qed.
Example ix_license_late :
  let bs := [ix_b; ix_b; IEntity ix_lic (A [107]) (A [118]) true] in
  Forall legal_iblock bs /\ iadjacent_ok bs /\ walk_ini (ifile_text bs) = Ok (ientries_of bs).
Proof. split; [repeat constructor|]. split; vm_compute; reflexivity. Qed.

(* ---- character classes ---------------------------------------------------------------------------- *)
Lemma ws_not_cmi : forall c, mem c WS = true -> mem c CMI = false.
Proof. intros c H. apply mem_in in H. simpl in H. destruct H as [<-|[<-|[<-|[<-|[]]]]]; reflexivity. Qed.
Lemma ws_not_91 : forall c, mem c WS = true -> N.eqb c 91 = false.
Proof. intros c H. apply mem_in in H. simpl in H. destruct H as [<-|[<-|[<-|[<-|[]]]]]; reflexivity. Qed.
Lemma cmi_not_ws : forall c, mem c CMI = true -> mem c WS = false.
Proof. intros c H. apply mem_in in H. simpl in H. destruct H as [<-|[<-|[]]]; reflexivity. Qed.
Lemma cmi_not_91 : forall c, mem c CMI = true -> N.eqb c 91 = false.
Proof. intros c H. apply mem_in in H. simpl in H. destruct H as [<-|[<-|[]]]; reflexivity. Qed.

Lemma head_is_app : forall f (x y : str), x <> [] -> head_is f (x ++ y) = head_is f x.
Proof. intros f [|c x] y H; [contradiction|reflexivity]. Qed.

Lemma head_all : forall (f g : N -> bool) (x : str), x <> [] -> forallb f x = true ->
  (forall c, f c = true -> g c = false) -> head_is g x = false.
Proof.
  intros f g [|c x] Hne H Hfg; [contradiction|]. simpl in H. apply andb_true_iff in H.
  destruct H as [H _]. cbn [head_is]. apply Hfg. exact H.
Qed.

Lemma ikey_facts : forall c0 ktl, legal_ikey (c0 :: ktl) = true ->
  mem c0 WS = false /\ mem c0 CMI = false /\ N.eqb c0 91 = false /\
  no_chars [10; 61]%N (c0 :: ktl) = true.
Proof.
  intros c0 ktl H. unfold legal_ikey in H. apply andb_true_iff in H. destruct H as [H1 H2].
  apply negb_true_iff in H1. unfold mem, KFI, WS in H1. cbn [existsb app] in H1.
  unfold mem, WS, CMI. cbn [existsb].
  destruct (N.eqb c0 32); [discriminate|]. destruct (N.eqb c0 9); [discriminate|].
  destruct (N.eqb c0 13); [discriminate|]. destruct (N.eqb c0 10); [discriminate|].
  destruct (N.eqb c0 91); [discriminate|]. destruct (N.eqb c0 59); [discriminate|].
  destruct (N.eqb c0 35); [discriminate|]. auto.
Qed.

(* the first comment line starts with a marker *)
Lemma head_ctext_m : forall (g : N -> bool) cs X, cs <> [] -> forallb (legal_cline_m CMI) cs = true ->
  (forall c, mem c CMI = true -> g c = false) -> head_is g (ctext cs ++ X) = false.
Proof.
  intros g [|[c t] cs] X Hne H Hg; [contradiction|]. simpl in H. apply andb_true_iff in H.
  destruct H as [H _]. unfold legal_cline_m in H. apply andb_true_iff in H. destruct H as [H _].
  cbn [fst] in H. rewrite ctext_cons. unfold cline_text. cbn [fst snd]. simpl app. cbn [head_is].
  apply Hg. exact H.
Qed.

Notation gn_i := gn_ini (only parsing).

Ltac open_ini :=
  unfold gn_ini, get_next_ini.
Ltac open_base :=
  unfold get_next_base, fmt_ini; cbn [f_comment f_ws f_key f_cstyle f_license_below f_create f_junk];
  rewrite ?ini_comment_shape, ?ini_ws_shape.

(* ---- step: whitespace ------------------------------------------------------------------------------ *)
Lemma gn_ini_white : forall (a x y : str),
  x <> [] -> forallb (fun c => mem c WS) x = true -> head_is (fun c => mem c WS) y = false ->
  gn_ini (a ++ x ++ y) (length a) = mk_white (length a, length a + length x).
Proof.
  intros a x y Hne Hx Hy. open_ini.
  rewrite omatch_section_none
    by (rewrite head_is_app by exact Hne; eapply head_all; eauto; apply ws_not_91).
  open_base.
  rewrite omatch_acomment_none
    by (rewrite head_is_app by exact Hne; eapply head_all; eauto; apply ws_not_cmi).
  rewrite omatch_ws_run by auto. reflexivity.
Qed.

(* ---- step: a section header --------------------------------------------------------------------------- *)
Lemma gn_ini_section : forall (a : str) name X, no_chars [10; 93; 61]%N name = true ->
  gn_ini (a ++ 91%N :: name ++ 93%N :: X) (length a) =
  mkentry KSection (length a, length a + S (length name) + 1)
          (Some (length a + 1, length a + 1 + length name))
          (Some (length a + 1, length a + 1 + length name)) None None.
Proof.
  intros a name X Hn. open_ini.
  rewrite omatch_section.
  - unfold mspan, group, g_ini_section_val. cbn [m_start m_end m_caps get_cap].
    replace (Nat.eqb 1 1) with true by reflexivity. reflexivity.
  - eapply no_chars_weaken; [|exact Hn]. intros c Hc. unfold mem in *. cbn [existsb] in *.
    destruct (N.eqb c 10); [reflexivity|]. destruct (N.eqb c 93); [reflexivity|]. discriminate.
Qed.

(* ---- step: key=value with its attached comment ------------------------------------------------------- *)
Lemma count_nl1 : count_char 10%N [10%N] = 1.
Proof. reflexivity. Qed.

Lemma match_ne : forall {A B : Type} (l : list A) (x : B), l <> [] ->
  match l with [] => None | _ :: _ => Some x end = Some x.
Proof. intros A B [|c l] x H; [contradiction|reflexivity]. Qed.

Lemma ikey_created : forall (P : str) c0 ktl val T cc wsp dflt,
  no_chars [10; 61]%N (c0 :: ktl) = true -> no_nl val = true -> tail_nl T ->
  let s := P ++ c0 :: ktl ++ 61%N :: val ++ T in
  let v := length P + S (length ktl) + 1 in
  match
    match omatch rx_ini_key s (length P) with
    | Some k => create_base g_ini_key_key g_ini_key_val s k cc wsp
    | None => None
    end
  with
  | Some e => e
  | None => dflt
  end =
  mkentry KEntity (length P, v + length val) (Some (length P, length P + S (length ktl)))
          (Some (v, v + length val)) cc wsp.
Proof.
  intros P c0 ktl val T cc wsp dflt Hk Hv HT s v. unfold s.
  rewrite omatch_ikey by auto. unfold create_base, mspan, group, g_ini_key_key, g_ini_key_val.
  cbn [m_start m_end m_caps get_cap].
  replace (Nat.eqb 1 2) with false by reflexivity. replace (Nat.eqb 1 1) with true by reflexivity.
  replace (Nat.eqb 2 2) with true by reflexivity. reflexivity.
Qed.

Lemma gn_ini_entity : forall (a : str) cs c0 ktl val T,
  forallb (legal_cline_m CMI) cs = true -> legal_ikey (c0 :: ktl) = true -> no_nl val = true ->
  tail_nl T ->
  (cs <> [] -> bol (rev a) = true) ->
  (length a < 2 -> contains s_License (comment_val (COffset 1) (cbody cs)) = false) ->
  let s := a ++ ctext cs ++ c0 :: ktl ++ 61%N :: val ++ T in
  let k := length a + length (ctext cs) in
  let v := k + S (length ktl) + 1 in
  gn_ini s (length a) =
  mkentry KEntity (k, v + length val) (Some (k, k + S (length ktl))) (Some (v, v + length val))
    (match cs with [] => None | _ => Some (length a, k - 1) end)
    (match cs with [] => None | _ => Some (k - 1, k) end).
Proof.
  intros a cs c0 ktl val T Hcs Hk Hv HT Hbol Hlic s k v.
  destruct (ikey_facts c0 ktl Hk) as [C1 [C2 [C3 C4]]].
  set (X := c0 :: ktl ++ 61%N :: val ++ T) in *.
  assert (HX1 : head_is (fun c => mem c CMI) X = false) by exact C2.
  assert (HX2 : head_is (fun c => mem c WS) X = false) by exact C1.
  assert (HX3 : head_is (fun c => N.eqb c 91) X = false) by exact C3.
  assert (Hcase : cs = [] \/ cs <> []) by (destruct cs; [left; reflexivity|right; discriminate]).
  destruct Hcase as [Ecs|Hne].
  - subst cs.
    assert (Es : s = a ++ X) by reflexivity.
    assert (Ek : k = length a) by (unfold k; simpl; lia).
    open_ini. rewrite Es, omatch_section_none by exact HX3. open_base.
    rewrite omatch_acomment_none, omatch_ws_none by auto.
    cbv beta iota zeta. unfold v. rewrite Ek. unfold X. apply ikey_created; auto.
  - rewrite !(match_ne cs) by exact Hne. specialize (Hbol Hne).
    set (L := a ++ cbody cs). set (P := a ++ ctext cs).
    assert (Es1 : s = a ++ cbody cs ++ [10%N] ++ X).
    { unfold s. rewrite (ctext_body cs Hne), <- app_assoc. reflexivity. }
    assert (Es2 : s = L ++ [10%N] ++ X) by (rewrite Es1; unfold L; rewrite <- app_assoc; reflexivity).
    assert (Es3 : s = P ++ X) by (unfold s, P; rewrite <- app_assoc; reflexivity).
    assert (EL : length a + length (cbody cs) = length L) by (unfold L; rewrite app_length; reflexivity).
    assert (EP : length L + 1 = length P).
    { unfold L, P. rewrite (ctext_body cs Hne), !app_length. simpl. lia. }
    assert (Ekp : k = length P) by (unfold k, P; rewrite app_length; reflexivity).
    assert (Esec : omatch rx_ini_section s (length a) = None).
    { unfold s. apply omatch_section_none. apply head_ctext_m; auto. apply cmi_not_91. }
    assert (Ec : omatch (ACOMMENT CMI) s (length a) = Some (mkres (length a) (length L) [])).
    { unfold s. rewrite omatch_acomment by auto. rewrite EL. reflexivity. }
    assert (Lic : (length a <? 2) &&
                  contains s_License (comment_val (COffset 1) (slice s (length a) (length L))) = false).
    { rewrite <- EL, Es1, slice_mid. destruct (length a <? 2) eqn:E2; [|reflexivity].
      apply Nat.ltb_lt in E2. rewrite Hlic by exact E2. reflexivity. }
    assert (Ew : omatch rx_props_ws s (length L) = Some (mkres (length L) (length P) [])).
    { rewrite Es2, omatch_ws_run; [rewrite <- EP; reflexivity|discriminate|reflexivity|exact HX2]. }
    assert (Ect : (1 <? count_char 10%N (slice s (length L) (length P))) = false).
    { rewrite <- EP, Es2. replace (length L + 1) with (length L + length [10%N]) by reflexivity.
      rewrite slice_mid. reflexivity. }
    open_ini. rewrite Esec. open_base.
    rewrite Ec. cbn [m_start m_end]. rewrite Lic. cbv beta iota zeta. cbn [m_start m_end].
    rewrite Ew. cbn [m_start m_end]. rewrite Ect. cbv beta iota zeta. cbn [mspan m_start m_end].
    replace (k - 1) with (length L) by lia. rewrite Ekp.
    unfold v. rewrite Ekp, Es3. unfold X. apply ikey_created; auto.
Qed.

(* ---- step: a standalone comment ------------------------------------------------------------------------ *)
Lemma count_char_app : forall c (x y : str), count_char c (x ++ y) = count_char c x + count_char c y.
Proof. intros. unfold count_char. rewrite filter_app, app_length. reflexivity. Qed.

Lemma count_char_mem : forall x, mem 10%N x = true -> 1 <= count_char 10%N x.
Proof.
  induction x as [|d x IH]; intros H; [discriminate|].
  unfold mem in H. cbn [existsb] in H. unfold count_char. cbn [filter].
  destruct (N.eqb 10 d); [simpl; lia|]. simpl in H. apply IH in H. exact H.
Qed.

(* what may follow a standalone comment *)
Inductive after_comment : str -> Prop :=
| ac_eof : after_comment []
| ac_blank : forall x y, forallb (fun c => mem c WS) x = true -> mem 10%N x = true ->
             after_comment (x ++ y)
| ac_section : forall name T, no_chars [10; 93; 61]%N name = true -> tail_nl T ->
               after_comment (91%N :: name ++ 93%N :: T).

Lemma gn_ini_comment : forall (a : str) cs after,
  bol (rev a) = true -> cs <> [] -> forallb (legal_cline_m CMI) cs = true -> after_comment after ->
  gn_ini (a ++ ctext cs ++ after) (length a) =
  mk_comment (length a, length a + length (cbody cs)).
Proof.
  intros a cs after Hbol Hne Hcs Hafter. set (s := a ++ ctext cs ++ after).
  assert (HX1 : head_is (fun c => mem c CMI) after = false).
  { destruct Hafter as [|x y Hx Hm|name T Hn HT]; [reflexivity| |reflexivity].
    assert (x <> []) by (intro; subst x; discriminate).
    rewrite head_is_app by auto. eapply head_all; eauto. apply ws_not_cmi. }
  set (L := a ++ cbody cs). set (P := a ++ ctext cs).
  assert (Es2 : s = L ++ 10%N :: after).
  { unfold s, L. rewrite (ctext_body cs Hne), <- !app_assoc. reflexivity. }
  assert (EL : length a + length (cbody cs) = length L) by (unfold L; rewrite app_length; reflexivity).
  assert (EP : length L + 1 = length P).
  { unfold L, P. rewrite (ctext_body cs Hne), !app_length. simpl. lia. }
  assert (Esec : omatch rx_ini_section s (length a) = None).
  { unfold s. apply omatch_section_none. apply head_ctext_m; auto. apply cmi_not_91. }
  assert (Ec : omatch (ACOMMENT CMI) s (length a) = Some (mkres (length a) (length L) [])).
  { unfold s. rewrite omatch_acomment by auto. rewrite EL. reflexivity. }
  open_ini. fold s. rewrite Esec. open_base. fold s.
  rewrite Ec. cbn [m_start m_end].
  destruct ((length a <? 2) &&
            contains s_License (comment_val (COffset 1) (slice s (length a) (length L)))) eqn:Lic.
  - unfold mspan. cbn [m_start m_end]. rewrite EL. reflexivity.
  - cbv beta iota zeta. cbn [m_start m_end].
    set (r := run false (points WS) None after).
    assert (Ew : omatch rx_props_ws s (length L) = Some (mkres (length L) (length L + S r) [])).
    { rewrite Es2, omatch_ws. cbv zeta. rewrite run_none_cons, chr_ok_points.
      replace (mem 10%N WS) with true by reflexivity. fold r. reflexivity. }
    rewrite Ew. cbn [m_start m_end].
    assert (Esl : slice s (length L) (length L + S r) = 10%N :: firstn r after).
    { rewrite Es2, slice_app0. reflexivity. }
    rewrite Esl.
    destruct Hafter as [|x y Hx Hm|name T Hn HT].
    + (* end of the file: no key follows *)
      assert (Er : r = 0) by reflexivity.
      rewrite Er. simpl firstn. rewrite count_nl1. replace (1 <? 1) with false by reflexivity.
      cbv beta iota zeta. cbn [mspan m_start m_end]. rewrite EP.
      assert (Es3 : s = P ++ [] ++ []) by (unfold s, P; rewrite <- app_assoc; reflexivity).
      rewrite Es3, omatch_ikey_none; [|reflexivity|left; reflexivity]. rewrite EL. reflexivity.
    + assert (Hr : length x <= r).
      { unfold r. apply run_ge_prefix. apply ws_class. exact Hx. }
      assert (Ect : (1 <? count_char 10%N (10%N :: firstn r (x ++ y))) = true).
      { apply Nat.ltb_lt. rewrite firstn_app.
        rewrite (firstn_all2 x) by exact Hr.
        change (10%N :: x ++ firstn (r - length x) y) with ([10%N] ++ x ++ firstn (r - length x) y).
        rewrite !count_char_app, count_nl1. pose proof (count_char_mem x Hm). lia. }
      rewrite Ect. cbv beta iota zeta. unfold mspan. cbn [m_start m_end]. rewrite EL. reflexivity.
    + (* a section header follows: it contains no "=", the key expression does not match *)
      assert (Er : r = 0) by reflexivity.
      rewrite Er. simpl firstn. rewrite count_nl1. replace (1 <? 1) with false by reflexivity.
      cbv beta iota zeta. cbn [mspan m_start m_end]. rewrite EP.
      assert (Es3 : s = P ++ (91%N :: name ++ [93%N]) ++ T).
      { unfold s, P. norm_app. reflexivity. }
      rewrite Es3, omatch_ikey_none; [rewrite EL; reflexivity| |exact HT].
      unfold no_chars in *. cbn [forallb]. rewrite forallb_app. cbn [forallb].
      replace (negb (mem 91%N [10%N; 61%N])) with true by reflexivity.
      replace (negb (mem 93%N [10%N; 61%N])) with true by reflexivity.
      rewrite andb_true_r. cbn [andb].
      rewrite forallb_forall in *. intros c Hc. specialize (Hn c Hc).
      apply negb_true_iff in Hn. apply negb_true_iff. unfold mem in *. cbn [existsb] in *.
      destruct (N.eqb c 10); [discriminate|]. destruct (N.eqb c 93); [discriminate|].
      destruct (N.eqb c 61); [discriminate|]. reflexivity.
Qed.

(* ---- the walk -------------------------------------------------------------------------------------------- *)
Lemma walk_step : forall fuel s off es,
  off < length s ->
  walk_loop (stateless gn_ini) fuel tt s (snd (e_span (gn_ini s off))) = Ok es ->
  walk_loop (stateless gn_ini) (S fuel) tt s off = Ok (gn_ini s off :: es).
Proof.
  intros fuel s off es Hoff H. rewrite walk_loop_S.
  replace (off <? length s) with true by (symmetry; apply Nat.ltb_lt; exact Hoff).
  unfold stateless at 1. rewrite H. reflexivity.
Qed.

(* the invariant: [a] has been consumed, the whitespace [w] is pending; [ls]: what follows
   starts a line *)
Definition istmt (bs : list iblock) (ls : bool) (a w : str) : Prop :=
  (ls = true -> bol (rev (a ++ w)) = true) ->
  ilic (length a + length w) bs = true ->
  forall fuel, length (a ++ w ++ ifile_text bs) - length a < fuel ->
  walk_loop (stateless gn_ini) fuel tt (a ++ w ++ ifile_text bs) (length a) =
  Ok (ients (length a) (length w) bs).

Definition nonblank_head (bs : list iblock) : Prop :=
  match bs with IBlank _ :: _ => False | _ => True end.

Lemma ients_flush : forall bs off w, nonblank_head bs ->
  ients off w bs = flush off w ++ ients (off + w) 0 bs.
Proof.
  intros [|[x|cs|name nl|cs key val nl] rest] off w H; try contradiction; simpl;
    rewrite ?Nat.add_0_r, ?app_nil_r; reflexivity.
Qed.

Lemma ilic_ge2 : forall bs off, 2 <= off -> ilic off bs = true.
Proof.
  induction bs as [|[x|cs|name nl|cs key val nl] rest IH]; intros off H; try reflexivity.
  - simpl. apply IH. lia.
  - simpl. replace (2 <=? off) with true by (symmetry; apply Nat.leb_le; exact H). reflexivity.
Qed.

Lemma lift_flush : forall bs ls, nonblank_head bs ->
  head_is (fun c => mem c WS) (ifile_text bs) = false ->
  (forall a, istmt bs ls a []) ->
  forall a w, forallb (fun c => mem c WS) w = true -> istmt bs ls a w.
Proof.
  intros bs ls Hnb Hhead H0 a w Hw Hbol Hlic fuel Hf.
  destruct w as [|c w'] eqn:Ew; [apply (H0 a); auto|]. rewrite <- Ew in *.
  assert (Hne : w <> []) by (rewrite Ew; discriminate).
  destruct fuel as [|f]; [lia|].
  rewrite ients_flush by exact Hnb.
  assert (Efl : flush (length a) (length w) = [mk_white (length a, length a + length w)])
    by (rewrite Ew; reflexivity).
  rewrite Efl. simpl app.
  pose proof (gn_ini_white a w (ifile_text bs) Hne Hw Hhead) as G.
  rewrite <- G. apply walk_step.
  - rewrite !app_length. rewrite Ew. simpl. lia.
  - rewrite G. cbn [mk_white e_span snd].
    assert (Hs : a ++ w ++ ifile_text bs = (a ++ w) ++ [] ++ ifile_text bs)
      by (rewrite <- app_assoc; reflexivity).
    rewrite Hs, <- app_length. apply (H0 (a ++ w)).
    + rewrite app_nil_r. exact Hbol.
    + rewrite app_length. simpl length. rewrite Nat.add_0_r. exact Hlic.
    + rewrite <- Hs. rewrite !app_length in *. rewrite Ew in *. simpl in *. lia.
Qed.

Lemma ifile_text_cons : forall b bs, ifile_text (b :: bs) = itext b ++ ifile_text bs.
Proof. reflexivity. Qed.

Lemma cbody_length_pos : forall cs, cs <> [] -> 1 <= length (cbody cs).
Proof.
  intros [|c [|c2 cs]] H; [contradiction| |].
  - rewrite cbody_one. simpl. lia.
  - rewrite cbody_cons, app_length. unfold cline_text. simpl. lia.
Qed.

Lemma bol_rev_snoc : forall (y : str), bol (rev (y ++ [10%N])) = true.
Proof. intros y. rewrite rev_app_distr. reflexivity. Qed.

Lemma bol_rev_last : forall (y x : str), x <> [] -> N.eqb (last x 0%N) 10 = true ->
  bol (rev (y ++ x)) = true.
Proof.
  intros y x Hne H. destruct (exists_last Hne) as [x' [c ->]]. rewrite last_last in H.
  rewrite app_assoc, rev_app_distr. simpl. exact H.
Qed.

Lemma eol_ws : forall nl, forallb (fun c => mem c WS) (eol nl) = true.
Proof. destruct nl; reflexivity. Qed.

Lemma eol_tail : forall nl rest, (nl || is_nil rest) = true -> tail_nl (eol nl ++ ifile_text rest).
Proof.
  intros [|] rest H; [right; eexists; reflexivity|]. simpl in H.
  destruct rest; [left; reflexivity|discriminate].
Qed.

Lemma walk_ients : forall bs, Forall legal_iblock bs -> forall ls, isep ls bs = true ->
  forall a w, forallb (fun c => mem c WS) w = true -> istmt bs ls a w.
Proof.
  induction bs as [|b rest IH]; intros Hleg ls Hsep.
  - apply lift_flush; [exact I|reflexivity|].
    intros a _ _ fuel Hf. simpl. apply walk_loop_done. rewrite !app_length. simpl. lia.
  - inversion Hleg as [|b' rest' Hb Hrest]; subst b' rest'.
    destruct b as [x|cs|name nl|cs key val nl].
    + (* whitespace: joins what is pending *)
      intros a w Hw Hbol Hlic fuel Hf. simpl in Hsep.
      unfold legal_iblock in Hb. cbn [legal_iblockb] in Hb. apply andb_true_iff in Hb.
      destruct Hb as [Hx1 Hx2].
      assert (Hxne : x <> []) by (destruct x; [discriminate|discriminate]).
      assert (Hs : a ++ w ++ ifile_text (IBlank x :: rest) = a ++ (w ++ x) ++ ifile_text rest).
      { rewrite ifile_text_cons. simpl itext. rewrite <- app_assoc. reflexivity. }
      simpl ients. rewrite Hs in *. rewrite <- app_length.
      apply (IH Hrest _ Hsep); auto.
      * rewrite forallb_app, Hw, Hx2. reflexivity.
      * intros E. rewrite app_assoc. apply bol_rev_last; auto.
      * rewrite app_length, Nat.add_assoc. exact Hlic.
    + (* a standalone comment *)
      unfold legal_iblock in Hb. cbn [legal_iblockb] in Hb. apply andb_true_iff in Hb.
      destruct Hb as [Hc1 Hc2].
      assert (Hne : cs <> []) by (destruct cs; [discriminate|discriminate]).
      simpl in Hsep. apply andb_true_iff in Hsep. destruct Hsep as [Hsep0 Hsep].
      apply andb_true_iff in Hsep0. destruct Hsep0 as [Hls Hnext]. subst ls.
      apply lift_flush; [exact I| rewrite ifile_text_cons; apply head_ctext_m; auto; apply cmi_not_ws |].
      intros a Hbol _ fuel Hf. destruct fuel as [|f]; [lia|].
      rewrite app_nil_r in Hbol. specialize (Hbol eq_refl).
      rewrite ifile_text_cons in *. simpl itext in *. simpl app in *.
      assert (Hafter : after_comment (ifile_text rest)).
      { destruct rest as [|[x| |name nl|] rest']; try discriminate; [constructor| |].
        - rewrite ifile_text_cons. simpl itext. constructor; [|exact Hnext].
          inversion Hrest as [|b' r' Hx _]; subst. unfold legal_iblock in Hx. cbn [legal_iblockb] in Hx.
          apply andb_true_iff in Hx. destruct Hx as [_ Hx]. exact Hx.
        - rewrite ifile_text_cons. simpl itext.
          replace ((91%N :: name ++ 93%N :: eol nl) ++ ifile_text rest')
            with (91%N :: name ++ 93%N :: (eol nl ++ ifile_text rest')) by (norm_app; reflexivity).
          inversion Hrest as [|b' r' Hx _]; subst. constructor; [exact Hx|].
          simpl in Hsep. apply andb_true_iff in Hsep. destruct Hsep as [Hn _].
          apply eol_tail. exact Hn. }
      pose proof (gn_ini_comment a cs (ifile_text rest) Hbol Hne Hc2 Hafter) as G.
      simpl ients. rewrite !Nat.add_0_r. rewrite <- G. apply walk_step.
      * rewrite !app_length. pose proof (ctext_length_ge cs). destruct cs; [contradiction|].
        simpl in *. lia.
      * rewrite G. cbn [mk_comment e_span snd].
        assert (Hs : a ++ ctext cs ++ ifile_text rest = (a ++ cbody cs) ++ [10%N] ++ ifile_text rest).
        { rewrite (ctext_body cs Hne), <- !app_assoc. reflexivity. }
        pose proof (cbody_length_pos cs Hne) as Hpos.
        rewrite Hs, <- app_length. change 1 with (length [10%N]).
        apply (IH Hrest _ Hsep); [reflexivity| | |].
        -- intros _. apply bol_rev_snoc.
        -- apply ilic_ge2. rewrite app_length. simpl. lia.
        -- rewrite <- Hs.
           assert (Elen : length (ctext cs) = length (cbody cs) + 1)
             by (rewrite (ctext_body cs Hne), app_length; reflexivity).
           rewrite !app_length in *. simpl in *. lia.
    + (* a section header *)
      unfold legal_iblock in Hb. cbn [legal_iblockb] in Hb.
      simpl in Hsep. apply andb_true_iff in Hsep. destruct Hsep as [Hnl Hsep].
      apply lift_flush; [exact I|reflexivity|].
      intros a _ _ fuel Hf. destruct fuel as [|f]; [lia|].
      assert (Etxt : a ++ [] ++ ifile_text (ISection name nl :: rest) =
                     a ++ 91%N :: name ++ 93%N :: (eol nl ++ ifile_text rest)).
      { rewrite ifile_text_cons. simpl itext. norm_app. reflexivity. }
      rewrite Etxt in *.
      pose proof (gn_ini_section a name (eol nl ++ ifile_text rest) Hb) as G.
      simpl ients. rewrite !Nat.add_0_r. rewrite <- G. apply walk_step.
      * rewrite !app_length. simpl. lia.
      * rewrite G. cbn [e_span snd].
        set (A0 := a ++ 91%N :: name ++ [93%N]).
        assert (Hs2 : a ++ 91%N :: name ++ 93%N :: (eol nl ++ ifile_text rest) =
                      A0 ++ eol nl ++ ifile_text rest) by (unfold A0; norm_app; reflexivity).
        assert (El : length a + S (length name) + 1 = length A0).
        { unfold A0. rewrite !app_length. simpl. rewrite app_length. simpl. lia. }
        rewrite Hs2, El. apply (IH Hrest _ Hsep); [apply eol_ws| | |].
        -- intros E. subst nl. apply bol_rev_snoc.
        -- apply ilic_ge2. lia.
        -- rewrite Hs2 in Hf. rewrite !app_length in *. simpl in *. lia.
    + (* an entity line *)
      unfold legal_iblock in Hb. cbn [legal_iblockb] in Hb. apply andb_true_iff in Hb.
      destruct Hb as [Hb Hv]. apply andb_true_iff in Hb. destruct Hb as [Hcs Hk].
      simpl in Hsep. apply andb_true_iff in Hsep. destruct Hsep as [Hsep0 Hsep].
      apply andb_true_iff in Hsep0. destruct Hsep0 as [Hls Hnl].
      destruct key as [|c0 ktl]; [discriminate|].
      destruct (ikey_facts c0 ktl Hk) as [C1 _].
      assert (Etxt : forall Y, itext (IEntity cs (c0 :: ktl) val nl) ++ Y =
                     ctext cs ++ c0 :: ktl ++ 61%N :: val ++ eol nl ++ Y).
      { intros Y. cbn [itext]. norm_app. reflexivity. }
      apply lift_flush; [exact I| |].
      { rewrite ifile_text_cons, Etxt. destruct cs as [|c1 cs1]; [exact C1|].
        apply head_ctext_m; [discriminate|exact Hcs|apply cmi_not_ws]. }
      intros a Hbol Hlic fuel Hf. destruct fuel as [|f]; [lia|].
      rewrite app_nil_r in Hbol.
      rewrite ifile_text_cons in *. rewrite Etxt in *. simpl app in *.
      assert (Hb2 : cs <> [] -> bol (rev a) = true).
      { intros Hne. apply Hbol. destruct cs; [contradiction|]. exact Hls. }
      assert (Hl : length a < 2 -> contains s_License (comment_val (COffset 1) (cbody cs)) = false).
      { intros Ha. simpl in Hlic. rewrite Nat.add_0_r in Hlic.
        replace (2 <=? length a) with false in Hlic by (symmetry; apply Nat.leb_gt; exact Ha).
        apply negb_true_iff in Hlic. exact Hlic. }
      pose proof (gn_ini_entity a cs c0 ktl val (eol nl ++ ifile_text rest) Hcs Hk Hv
                    (eol_tail nl rest Hnl) Hb2 Hl) as G.
      cbv zeta in G. simpl ients. rewrite !Nat.add_0_r. simpl length.
      set (k := length a + length (ctext cs)) in *.
      replace (k + S (length ktl) + 1) with (k + S (length ktl) + 1) in * by reflexivity.
      rewrite <- G. apply walk_step.
      * rewrite !app_length. simpl. rewrite !app_length. simpl. lia.
      * rewrite G. cbn [e_span snd].
        set (A0 := a ++ ctext cs ++ c0 :: ktl ++ 61%N :: val).
        assert (Hs2 : a ++ ctext cs ++ c0 :: ktl ++ 61%N :: val ++ eol nl ++ ifile_text rest
                      = A0 ++ eol nl ++ ifile_text rest) by (unfold A0; norm_app; reflexivity).
        assert (El : k + S (length ktl) + 1 + length val = length A0).
        { unfold A0, k. rewrite !app_length. simpl. rewrite !app_length. simpl. lia. }
        rewrite Hs2, El. apply (IH Hrest _ Hsep); [apply eol_ws| | |].
        -- intros E. subst nl. apply bol_rev_snoc.
        -- apply ilic_ge2. rewrite <- El. lia.
        -- assert (Hlt : length a < length A0) by (rewrite <- El; unfold k; lia).
           rewrite Hs2 in Hf. clear - Hf Hlt. rewrite !app_length in *. simpl in *. lia.
Qed.

(* ---- the block theorem -------------------------------------------------------------------------------------- *)
Theorem blocks_ini : forall bs : list iblock,
  Forall legal_iblock bs -> iadjacent_ok bs ->
  walk_ini (ifile_text bs) = Ok (ientries_of bs).
Proof.
  intros bs Hleg Hadj. unfold iadjacent_ok, iadjacent_okb in Hadj. apply andb_true_iff in Hadj.
  destruct Hadj as [Hsep Hlic]. unfold walk_ini, walk, ientries_of.
  apply (walk_ients bs Hleg true Hsep [] [] eq_refl); [reflexivity|exact Hlic|]. simpl. lia.
Qed.

(* ---- the records of a file ------------------------------------------------------------------------------------ *)
Definition irecord := (str * str * option str)%type.      (* key, value, attached comment *)

Fixpoint irecords_of (bs : list iblock) : list irecord :=
  match bs with
  | [] => []
  | IEntity cs key val _ :: rest =>
      (key, val, match cs with [] => None | _ => Some (cbody cs) end) :: irecords_of rest
  | _ :: rest => irecords_of rest
  end.

Fixpoint icomments_of (bs : list iblock) : list str :=
  match bs with
  | [] => []
  | IComment cs :: rest => cbody cs :: icomments_of rest
  | _ :: rest => icomments_of rest
  end.

Fixpoint isections_of (bs : list iblock) : list str :=
  match bs with
  | [] => []
  | ISection name _ :: rest => name :: isections_of rest
  | _ :: rest => isections_of rest
  end.

Definition span_text (s : str) (sp : span) : str := slice s (fst sp) (snd sp).
Definition opt_text (s : str) (o : option span) : str :=
  match o with Some sp => span_text s sp | None => [] end.
Definition entity_record (s : str) (e : entry) : irecord :=
  (opt_text s (e_key e), opt_text s (e_val e), option_map (span_text s) (e_pre e)).
Definition is_kind (k : kind) (e : entry) : bool :=
  match e_kind e, k with
  | KEntity, KEntity | KComment, KComment | KWhitespace, KWhitespace | KJunk, KJunk
  | KSection, KSection | KInstruction, KInstruction => true
  | _, _ => false
  end.

Lemma flush_no : forall k off w, k <> KWhitespace -> filter (is_kind k) (flush off w) = [].
Proof. intros k off [|w] H; [reflexivity|]. destruct k; try reflexivity. contradiction. Qed.

Definition iviews (s : str) (es : list entry) (bs : list iblock) : Prop :=
  map (entity_record s) (filter (is_kind KEntity) es) = irecords_of bs /\
  map (fun e => span_text s (e_span e)) (filter (is_kind KComment) es) = icomments_of bs /\
  map (fun e => opt_text s (e_val e)) (filter (is_kind KSection) es) = isections_of bs /\
  filter (is_kind KJunk) es = [].

Lemma ients_views : forall bs, Forall legal_iblock bs -> forall (a w : str),
  iviews (a ++ w ++ ifile_text bs) (ients (length a) (length w) bs) bs.
Proof.
  induction bs as [|b rest IH]; intros Hleg a w; unfold iviews.
  - simpl ients. rewrite !flush_no by discriminate. repeat split.
  - inversion Hleg as [|b' rest' Hb Hrest]; subst b' rest'. specialize (IH Hrest).
    set (s := a ++ w ++ ifile_text (b :: rest)).
    destruct b as [x|cs|name nl|cs key val nl].
    + assert (Hs : s = a ++ (w ++ x) ++ ifile_text rest).
      { unfold s. rewrite ifile_text_cons. cbn [itext]. rewrite <- app_assoc. reflexivity. }
      simpl ients. rewrite <- app_length, Hs. apply IH.
    + unfold legal_iblock in Hb. cbn [legal_iblockb] in Hb. apply andb_true_iff in Hb.
      destruct Hb as [Hc1 _].
      assert (Hne : cs <> []) by (destruct cs; [discriminate|discriminate]).
      set (A0 := a ++ w ++ cbody cs).
      assert (Hs : s = A0 ++ [10%N] ++ ifile_text rest).
      { unfold s, A0. rewrite ifile_text_cons. cbn [itext]. rewrite (ctext_body cs Hne).
        norm_app. reflexivity. }
      assert (El : length a + length w + length (cbody cs) = length A0)
        by (unfold A0; rewrite !app_length; lia).
      destruct (IH A0 [10%N]) as [I1 [I2 [I3 I4]]]. rewrite <- Hs in I1, I2, I3.
      change (length [10%N]) with 1 in I1, I2, I3, I4.
      simpl ients. rewrite !filter_app, !flush_no by discriminate. rewrite El.
      cbn [app filter is_kind mk_comment e_kind map e_span]. rewrite I1, I2, I3, I4.
      split; [reflexivity|split; [|split; reflexivity]]. cbn [icomments_of]. f_equal.
      assert (Hs' : s = (a ++ w) ++ cbody cs ++ [10%N] ++ ifile_text rest)
        by (rewrite Hs; unfold A0; norm_app; reflexivity).
      unfold span_text. cbn [fst snd]. rewrite <- El, <- app_length, Hs'. apply slice_mid.
    + set (N0 := a ++ w ++ [91%N]).
      set (A0 := N0 ++ name ++ [93%N]).
      assert (Hs : s = A0 ++ eol nl ++ ifile_text rest).
      { unfold s, A0, N0. rewrite ifile_text_cons. cbn [itext]. norm_app. reflexivity. }
      assert (En : length a + length w + 1 = length N0)
        by (unfold N0; rewrite !app_length; simpl; lia).
      assert (Ee : length a + length w + S (length name) + 1 = length A0).
      { unfold A0, N0. rewrite !app_length. simpl. lia. }
      destruct (IH A0 (eol nl)) as [I1 [I2 [I3 I4]]]. rewrite <- Hs in I1, I2, I3.
      simpl ients. rewrite !filter_app, !flush_no by discriminate. rewrite Ee, En.
      cbn [app filter is_kind e_kind map e_val]. rewrite I1, I2, I3, I4.
      split; [reflexivity|split; [reflexivity|split; [|reflexivity]]].
      cbn [isections_of]. f_equal. unfold opt_text, span_text. cbn [fst snd].
      assert (Hs' : s = N0 ++ name ++ [93%N] ++ eol nl ++ ifile_text rest)
        by (rewrite Hs; unfold A0; norm_app; reflexivity).
      rewrite Hs'. apply slice_mid.
    + set (K0 := a ++ w ++ ctext cs).
      set (V0 := K0 ++ key ++ [61%N]).
      set (A0 := V0 ++ val).
      assert (Hs : s = A0 ++ eol nl ++ ifile_text rest).
      { unfold s, A0, V0, K0. rewrite ifile_text_cons. cbn [itext]. norm_app. reflexivity. }
      assert (Ek : length a + length w + length (ctext cs) = length K0)
        by (unfold K0; rewrite !app_length; lia).
      assert (Ev : length K0 + length key + 1 = length V0).
      { unfold V0. rewrite !app_length. simpl. lia. }
      assert (Ee : length V0 + length val = length A0) by (unfold A0; rewrite app_length; lia).
      destruct (IH A0 (eol nl)) as [I1 [I2 [I3 I4]]]. rewrite <- Hs in I1, I2, I3.
      simpl ients. rewrite !filter_app, !flush_no by discriminate. rewrite Ek, Ev, Ee.
      cbn [app filter is_kind e_kind map]. rewrite I1, I2, I3, I4.
      split; [|split; [reflexivity|split; reflexivity]]. cbn [irecords_of]. f_equal.
      unfold entity_record. cbn [e_key e_val e_pre opt_text].
      unfold span_text. cbn [fst snd].
      assert (S1 : slice s (length K0) (length K0 + length key) = key).
      { replace s with (K0 ++ key ++ ([61%N] ++ val ++ eol nl) ++ ifile_text rest)
          by (unfold s, K0; rewrite ifile_text_cons; cbn [itext]; norm_app; reflexivity).
        apply slice_mid. }
      assert (S2 : slice s (length V0) (length A0) = val).
      { rewrite <- Ee, Hs. unfold A0. rewrite <- app_assoc. apply slice_mid. }
      rewrite S1, S2. f_equal.
      assert (Hcase : cs = [] \/ cs <> []) by (destruct cs; [left; reflexivity|right; discriminate]).
      destruct Hcase as [Ecs|Hne]; [rewrite Ecs; reflexivity|].
      rewrite !(match_ne cs) by exact Hne.
      cbn [option_map]. f_equal. cbn [fst snd].
      assert (Ec : length K0 - 1 = length (a ++ w) + length (cbody cs)).
      { rewrite <- Ek, (ctext_body cs Hne), !app_length. simpl. lia. }
      rewrite <- app_length, Ec.
      replace s with ((a ++ w) ++ cbody cs ++ [10%N] ++ (key ++ 61%N :: val ++ eol nl) ++ ifile_text rest)
        by (unfold s; rewrite ifile_text_cons; cbn [itext]; rewrite (ctext_body cs Hne); norm_app; reflexivity).
      apply slice_mid.
Qed.

(* the entities of the walk are exactly the records (key, value, attached comment), the
   standalone comments exactly the comment blocks, the sections exactly the section headers,
   all in order; there is no Junk entry *)
Theorem roundtrip_ini_multi : forall bs : list iblock,
  Forall legal_iblock bs -> iadjacent_ok bs ->
  exists es, walk_ini (ifile_text bs) = Ok es /\ iviews (ifile_text bs) es bs.
Proof.
  intros bs Hleg Hadj. exists (ientries_of bs). split; [apply blocks_ini; auto|].
  exact (ients_views bs Hleg [] []).
Qed.

Example ix_multi_records :
  let bs := [ix_c; ix_sec; ix_e1; ix_e2; ix_b; ix_c; ix_b; ix_e3] in
  Forall legal_iblock bs /\ iadjacent_ok bs /\
  irecords_of bs = [(A [107], A [118], None);
                    (A [97; 32; 98; 32], A [32; 120; 32; 59; 32; 121], Some (A [59; 99; 10; 35; 100]));
                    (A [107; 50], [], None)] /\
  isections_of bs = [A [83; 116; 114]] /\
  icomments_of bs = [A [59; 32; 115; 10; 35]; A [59; 32; 115; 10; 35]].
Proof. split; [repeat constructor|]. split; [vm_compute; reflexivity|]. repeat split. Qed.
