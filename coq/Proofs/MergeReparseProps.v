(* The re-parse clause of C04 for .properties, at full strength, from the block
   theorem of C02 (Proofs/C02Blocks.v blocks_properties).

   The localization is the text of a legal block list [bs]; the skips are the
   entities of ITS OWN PARSE whose key is selected, with the spans of that
   parse (that is the premise that makes the splice land on block boundaries:
   by blocks_properties the parse is [entries_of bs], so an entity span covers
   exactly  key sep value  of one entity block - not its attached comment, not
   its final newline); the reference texts appended are the [Entity.all] texts
   of legal entity blocks.  Then the staged text is again the text of a legal
   block list, [merged_blocks].  The format-independent part (the splice on
   blocks, the sort, the run of merge) is Proofs/MergeReparseShared.v. *)
From Coq Require Import NArith List Bool Arith Lia Permutation Sorted.
From CL Require Import Base.Sx Base.Res Base.Str Model.Merge Generated.C04Facts
  Model.Entry Model.Parse Model.ParseFormats Proofs.MergeProofs Proofs.MergeReparseShared
  Proofs.MergeRefuted Proofs.C02Roundtrip Proofs.C02BlocksRx Proofs.C02BlocksVal Proofs.C02Blocks.
Import ListNotations.
Local Open Scope nat_scope.

Local Arguments Nat.ltb : simpl never.
Local Arguments Nat.leb : simpl never.
Local Arguments N.eqb : simpl never.
Local Arguments vraw : simpl never.
Local Arguments ctext : simpl never.

Local Notation skip := (@Merge.skip str).

(* ---- an entity block: attached comment | key sep value | final newline ------------- *)
Definition p_dec (b : block) : option (str * str * str * str) :=
  match b with
  | BEntity cs key b1 sc b2 conts lastl nl =>
      Some (ctext cs, key, key ++ b1 ++ sc :: b2 ++ vraw conts lastl, eol nl)
  | _ => None
  end.

Lemma p_dec_text : forall b p k c q, p_dec b = Some (p, k, c, q) -> text b = p ++ c ++ q.
Proof.
  intros b p k c q H. destruct b; try discriminate. inversion H; subst. cbn [text]. norm_app. reflexivity.
Qed.

Lemma p_dec_core : forall b p k c q, p_dec b = Some (p, k, c, q) -> c <> [].
Proof.
  intros b p k c q H. destruct b; try discriminate. inversion H; subst.
  intro E. apply (f_equal (@length N)) in E. rewrite !app_length in E. simpl in E. lia.
Qed.

Definition rkey (r : record) : str := fst (fst r).

Notation block_entities := (g_entities text p_dec).

Lemma ftext_file_text : forall bs, ftext text bs = file_text bs.
Proof. reflexivity. Qed.

Lemma keys_of_records : forall bs, keys_of p_dec bs = map rkey (records_of bs).
Proof.
  induction bs as [|b rest IH]; [reflexivity|]. cbn [keys_of flat_map].
  fold (keys_of p_dec rest). rewrite IH. destruct b; reflexivity.
Qed.

Lemma text_entity_length : forall cs key b1 sc b2 conts lastl nl,
  length (text (BEntity cs key b1 sc b2 conts lastl nl)) =
  length (ctext cs) + length key + length b1 + 1 + length b2 + length (vraw conts lastl) +
  length (eol nl).
Proof. intros. cbn [text]. rewrite !app_length. simpl. rewrite !app_length. lia. Qed.

(* the entity spans of the parse are the spans of the blocks *)
Lemma ents_spans : forall bs, Forall legal_block bs -> forall off w,
  map e_span (filter (is_kind KEntity) (ents off w bs)) = map snd (block_entities (off + w) bs).
Proof.
  induction bs as [|b rest IH]; intros Hleg off w.
  - simpl ents. now rewrite flush_no by discriminate.
  - inversion Hleg as [|b' rest' Hb Hrest]; subst b' rest'. specialize (IH Hrest).
    destruct b as [x|cs|cs key b1 sc b2 conts lastl nl].
    + simpl ents. rewrite IH. cbn [g_entities g_entity p_dec text app].
      now replace (off + (w + length x)) with (off + w + length x) by lia.
    + unfold legal_block in Hb. cbn [legal_blockb] in Hb. apply andb_true_iff in Hb.
      destruct Hb as [Hc1 _].
      assert (Hne : cs <> []) by (destruct cs; [discriminate|discriminate]).
      simpl ents. rewrite filter_app, flush_no by discriminate.
      cbn [app filter is_kind mk_comment e_kind]. rewrite IH.
      cbn [g_entities g_entity p_dec text app].
      replace (off + w + length (cbody cs) + 1) with (off + w + length (ctext cs));
        [reflexivity|]. rewrite (ctext_body cs Hne), app_length. simpl. lia.
    + simpl ents. rewrite filter_app, flush_no by discriminate.
      cbn [app filter is_kind e_kind map e_span]. rewrite IH.
      cbn [g_entities]. unfold g_entity at 1. cbn [p_dec app map snd]. rewrite text_entity_length.
      match goal with |- ?p :: map snd (block_entities ?o1 rest) = ?q :: map snd (block_entities ?o2 rest) =>
        replace o1 with o2 by lia; replace p with q; [reflexivity|] end.
      rewrite !app_length. simpl. rewrite !app_length. f_equal; lia.
Qed.

Lemma parse_entities_blocks : forall bs, Forall legal_block bs ->
  parse_entities (file_text bs) (entries_of bs) = block_entities 0 bs.
Proof.
  intros bs Hleg. apply map_pair_eq.
  - rewrite (g_entities_keys text p_dec), keys_of_records. unfold parse_entities. rewrite map_map. cbn [fst].
    destruct (ents_views bs Hleg [] []) as [H _]. cbn [app length] in H.
    unfold entries_of. rewrite <- H. rewrite map_map. reflexivity.
  - unfold parse_entities. rewrite map_map. cbn [snd]. unfold entries_of.
    exact (ents_spans bs Hleg 0 0).
Qed.

(* ---- the splice on blocks ---------------------------------------------------- *)
(* what is left of a block: a skipped entity leaves its attached comment (now a
   standalone comment) and its final newline *)
Definition kept_of (sel : str -> bool) (b : block) : list block :=
  match b with
  | BEntity cs key _ _ _ _ _ nl =>
      if sel key
      then (match cs with [] => [] | _ => [BComment cs] end) ++
           (if nl then [BBlank [10%N]] else [])
      else [b]
  | _ => [b]
  end.
Definition kept (sel : str -> bool) (bs : list block) : list block := flat_map (kept_of sel) bs.


Lemma file_text_app : forall l1 l2, file_text (l1 ++ l2) = file_text l1 ++ file_text l2.
Proof. intros. unfold file_text. now rewrite map_app, concat_app. Qed.

Lemma kept_ftext_blocks : forall sel bs, kept_ftext text p_dec sel bs = file_text (kept sel bs).
Proof.
  intros sel bs. induction bs as [|b rest IH]; [reflexivity|].
  unfold kept_ftext, kept in *. cbn [map concat flat_map]. rewrite file_text_app, IH. f_equal.
  unfold kept_text. destruct b as [x|cs|cs key b1 sc b2 conts lastl nl]; cbn [p_dec kept_of];
    try (unfold file_text; cbn; now rewrite app_nil_r).
  destruct (sel key); [|unfold file_text; cbn [map concat]; now rewrite app_nil_r].
  rewrite file_text_app. destruct cs as [|c cs], nl; cbn; rewrite ?app_nil_r; reflexivity.
Qed.

(* ---- the staged text as a block list ------------------------------------------ *)
(* the "\n" merge writes in front of the appended texts: the missing final newline of
   the last entity, or a blank block *)
Fixpoint closeb (bs : list block) : list block :=
  match bs with
  | [] => [BBlank [10%N]]
  | b :: rest =>
      match rest with
      | [] => match b with
              | BEntity cs key b1 sc b2 conts lastl false => [BEntity cs key b1 sc b2 conts lastl true]
              | _ => [b; BBlank [10%N]]
              end
      | _ => b :: closeb rest
      end
  end.

Definition with_nl (b : block) : block :=
  match b with
  | BEntity cs key b1 sc b2 conts lastl _ => BEntity cs key b1 sc b2 conts lastl true
  | _ => b
  end.

Definition is_entity (b : block) : bool := match b with BEntity _ _ _ _ _ _ _ _ => true | _ => false end.

(* Entity.all of the entity of a block: attached comment, key, separator, raw value *)
Definition entity_all (b : block) : str :=
  match b with
  | BEntity cs key b1 sc b2 conts lastl _ => ctext cs ++ key ++ b1 ++ sc :: b2 ++ vraw conts lastl
  | _ => []
  end.

(* a reference entity whose text can be appended: a legal entity block whose text
   does not end in a newline (see C04_reparse_reference_refuted for why) *)
Definition legal_ref (b : block) : Prop :=
  is_entity b = true /\ legal_block b /\ ends_with_nl (entity_all b) = false.

Definition merged_blocks (sel : str -> bool) (bs abs : list block) : list block :=
  kept sel (closeb bs) ++ map with_nl abs.

Lemma closeb_cons2 : forall b c rest, closeb (b :: c :: rest) = b :: closeb (c :: rest).
Proof. reflexivity. Qed.

Lemma closeb_text : forall bs, file_text (closeb bs) = file_text bs ++ [10%N].
Proof.
  induction bs as [|b rest IH]; [reflexivity|]. destruct rest as [|c rest].
  - destruct b as [x|cs|cs key b1 sc b2 conts lastl [|]]; cbn [closeb];
      unfold file_text; cbn [map concat text eol]; rewrite ?app_nil_r; try reflexivity;
      norm_app; reflexivity.
  - rewrite closeb_cons2, !file_text_cons, IH. now rewrite app_assoc.
Qed.

Lemma kept_closeb_text : forall sel bs,
  file_text (kept sel (closeb bs)) = file_text (kept sel bs) ++ [10%N].
Proof.
  intros sel. induction bs as [|b rest IH]; [reflexivity|]. destruct rest as [|c rest].
  - destruct b as [x|cs|cs key b1 sc b2 conts lastl [|]]; cbn [closeb kept flat_map kept_of app];
      try (unfold file_text; cbn [map concat text eol]; rewrite ?app_nil_r; norm_app; reflexivity).
    + destruct (sel key); [|unfold file_text; cbn [app map concat text eol]; rewrite ?app_nil_r; norm_app; reflexivity].
      destruct cs; unfold file_text; cbn [app map concat text eol]; rewrite ?app_nil_r; norm_app; reflexivity.
    + destruct (sel key); [|unfold file_text; cbn [app map concat text eol]; rewrite ?app_nil_r; norm_app; reflexivity].
      destruct cs; unfold file_text; cbn [app map concat text eol]; rewrite ?app_nil_r; norm_app; reflexivity.
  - rewrite closeb_cons2. unfold kept in *.
    change (flat_map (kept_of sel) (b :: closeb (c :: rest)))
      with (kept_of sel b ++ flat_map (kept_of sel) (closeb (c :: rest))).
    change (flat_map (kept_of sel) (b :: c :: rest))
      with (kept_of sel b ++ flat_map (kept_of sel) (c :: rest)).
    rewrite !file_text_app, IH. now rewrite app_assoc.
Qed.

Lemma with_nl_text : forall b, is_entity b = true -> text (with_nl b) = entity_all b ++ [10%N].
Proof.
  intros b H. destruct b; try discriminate. cbn [with_nl text entity_all eol]. norm_app. reflexivity.
Qed.

Lemma merged_blocks_text : forall sel bs abs, Forall legal_ref abs ->
  file_text (merged_blocks sel bs abs) =
  file_text (kept sel bs) ++ [10%N] ++ concat (map ensure_newline (map entity_all abs)).
Proof.
  intros sel bs abs Ha. unfold merged_blocks. rewrite file_text_app, kept_closeb_text, <- app_assoc.
  do 2 f_equal. induction Ha as [|b abs [He [_ Hn]] _ IH]; [reflexivity|].
  cbn [map]. rewrite file_text_cons, IH. f_equal. cbn [concat]. f_equal.
  unfold ensure_newline. rewrite Hn. now apply with_nl_text.
Qed.

(* -- legality -- *)
Lemma legal_blank_nl : legal_block (BBlank [10%N]).
Proof. reflexivity. Qed.

Lemma closeb_legal : forall bs, Forall legal_block bs -> Forall legal_block (closeb bs).
Proof.
  induction bs as [|b rest IH]; intro H; [repeat constructor|].
  inversion H as [|? ? Hb Hr]; subst. destruct rest as [|c rest].
  - destruct b as [x|cs|cs key b1 sc b2 conts lastl [|]]; cbn [closeb]; repeat constructor; exact Hb.
  - rewrite closeb_cons2. constructor; [exact Hb|now apply IH].
Qed.

Lemma kept_legal : forall sel bs, Forall legal_block bs -> Forall legal_block (kept sel bs).
Proof.
  intros sel bs H. induction H as [|b rest Hb _ IH]; [constructor|].
  unfold kept in *. cbn [flat_map]. apply Forall_app. split; [|exact IH].
  destruct b as [x|cs|cs key b1 sc b2 conts lastl nl]; cbn [kept_of]; try (repeat constructor; exact Hb).
  destruct (sel key); [|repeat constructor; exact Hb].
  apply Forall_app. split.
  - destruct cs as [|c cs]; [constructor|]. repeat constructor.
    unfold legal_block in *. cbn [legal_blockb] in *.
    apply andb_true_iff in Hb. destruct Hb as [Hb _].
    apply andb_true_iff in Hb. destruct Hb as [Hb _].
    apply andb_true_iff in Hb. destruct Hb as [Hb _].
    cbn [is_nil negb andb]. exact Hb.
  - destruct nl; repeat constructor.
Qed.

Lemma with_nl_legal : forall abs, Forall legal_ref abs -> Forall legal_block (map with_nl abs).
Proof.
  intros abs H. induction H as [|b abs [He [Hl _]] _ IH]; [constructor|].
  cbn [map]. constructor; [|exact IH]. destruct b; try discriminate. exact Hl.
Qed.

Lemma merged_blocks_legal : forall sel bs abs, Forall legal_block bs -> Forall legal_ref abs ->
  Forall legal_block (merged_blocks sel bs abs).
Proof.
  intros. unfold merged_blocks. apply Forall_app. split.
  - now apply kept_legal, closeb_legal.
  - now apply with_nl_legal.
Qed.

(* -- separation -- *)
(* after closing: every entity has its newline, every standalone comment is followed
   by a blank block with a newline *)
Fixpoint sep_strict (bs : list block) : bool :=
  match bs with
  | [] => true
  | BComment _ :: rest =>
      match rest with BBlank w :: _ => mem 10%N w | _ => false end && sep_strict rest
  | BEntity _ _ _ _ _ _ _ nl :: rest => nl && sep_strict rest
  | _ :: rest => sep_strict rest
  end.

Lemma closeb_strict : forall bs, separatedb bs = true -> sep_strict (closeb bs) = true.
Proof.
  induction bs as [|b rest IH]; intro H; [reflexivity|]. destruct rest as [|c rest].
  - destruct b as [x|cs|cs key b1 sc b2 conts lastl [|]]; reflexivity.
  - rewrite closeb_cons2.
    destruct b as [x|cs|cs key b1 sc b2 conts lastl nl]; cbn [separatedb sep_strict] in *.
    + now apply IH.
    + apply andb_true_iff in H. destruct H as [H1 H2].
      destruct c as [w| |]; try discriminate. rewrite (IH H2), andb_true_r.
      destruct rest; exact H1.
    + apply andb_true_iff in H. destruct H as [H1 H2]. cbn [is_nil] in H1.
      rewrite orb_false_r in H1. now rewrite H1, (IH H2).
Qed.

Lemma entities_separated : forall abs, Forall legal_ref abs -> separatedb (map with_nl abs) = true.
Proof.
  intros abs H. induction H as [|b abs [He _] _ IH]; [reflexivity|].
  destruct b; try discriminate. cbn [map with_nl separatedb]. now rewrite IH.
Qed.

Lemma strict_kept_separated : forall sel C T, sep_strict C = true -> separatedb T = true ->
  separatedb (kept sel C ++ T) = true.
Proof.
  intros sel C T. induction C as [|b rest IH]; intros H HT; [exact HT|].
  unfold kept in *. cbn [flat_map].
  destruct b as [x|cs|cs key b1 sc b2 conts lastl nl]; cbn [sep_strict kept_of] in *.
  - cbn [app separatedb]. now apply IH.
  - apply andb_true_iff in H. destruct H as [H1 H2]. specialize (IH H2 HT).
    destruct rest as [|[w| |] rest']; try discriminate.
    cbn [flat_map kept_of app] in *. cbn [separatedb] in *. now rewrite H1, IH.
  - apply andb_true_iff in H. destruct H as [H1 H2]. subst nl. specialize (IH H2 HT).
    destruct (sel key).
    + destruct cs as [|c cs]; cbn [app separatedb]; [exact IH|].
      change (mem 10%N [10%N]) with true. cbn [andb separatedb]. exact IH.
    + cbn [app separatedb orb andb]. exact IH.
Qed.

Lemma closeb_head : forall b rest, exists b' rest',
  closeb (b :: rest) = b' :: rest' /\ (b' = b \/ (is_entity b = true /\ b' = with_nl b)).
Proof.
  intros b [|c rest].
  - destruct b as [x|cs|cs key b1 sc b2 conts lastl [|]]; cbn [closeb]; eauto 6;
      try (eexists; eexists; split; [reflexivity|]; right; split; reflexivity).
  - rewrite closeb_cons2. eauto.
Qed.

Lemma merged_blocks_license : forall sel bs abs, separatedb bs = true -> license_okb bs = true ->
  license_okb (merged_blocks sel bs abs) = true.
Proof.
  intros sel bs abs Hsep H. unfold merged_blocks. destruct bs as [|b rest]; [reflexivity|].
  pose proof (closeb_strict _ Hsep) as Hst.
  destruct (closeb_head b rest) as (b' & rest' & E & Hb'). rewrite E in *.
  unfold kept. cbn [flat_map].
  assert (license_okb [b'] = license_okb (b :: rest)) as Hl.
  { destruct Hb' as [->|[He ->]]; [destruct b; reflexivity|]. destruct b; try discriminate. reflexivity. }
  rewrite H in Hl.
  destruct b' as [x|cs|cs key b1 sc b2 conts lastl nl]; cbn [kept_of]; try reflexivity.
  cbn [sep_strict] in Hst. apply andb_true_iff in Hst. destruct Hst as [-> _].
  destruct (sel key); [|exact Hl].
  destruct cs as [|c cs]; reflexivity.
Qed.

Lemma merged_blocks_adjacent : forall sel bs abs, adjacent_ok bs -> Forall legal_ref abs ->
  adjacent_ok (merged_blocks sel bs abs).
Proof.
  intros sel bs abs H Ha. unfold adjacent_ok, adjacent_okb in *. apply andb_true_iff in H.
  destruct H as [H1 H2]. apply andb_true_iff. split.
  - unfold merged_blocks. apply strict_kept_separated; [now apply closeb_strict|now apply entities_separated].
  - now apply merged_blocks_license.
Qed.

(* -- records -- *)
Lemma records_of_app : forall l1 l2, records_of (l1 ++ l2) = records_of l1 ++ records_of l2.
Proof.
  induction l1 as [|b l1 IH]; intro l2; [reflexivity|]. destruct b; cbn [app records_of]; now rewrite IH.
Qed.

Lemma records_closeb : forall bs, records_of (closeb bs) = records_of bs.
Proof.
  induction bs as [|b rest IH]; [reflexivity|]. destruct rest as [|c rest].
  - destruct b as [x|cs|cs key b1 sc b2 conts lastl [|]]; reflexivity.
  - rewrite closeb_cons2. destruct b; cbn [records_of]; now rewrite IH.
Qed.

Lemma records_kept : forall sel bs,
  records_of (kept sel bs) = filter (fun r => negb (sel (rkey r))) (records_of bs).
Proof.
  intros sel. induction bs as [|b rest IH]; [reflexivity|].
  unfold kept in *. cbn [flat_map]. rewrite records_of_app, IH.
  destruct b as [x|cs|cs key b1 sc b2 conts lastl nl]; cbn [kept_of records_of app]; try reflexivity.
  cbn [filter rkey fst]. destruct (sel key); cbn [negb].
  - destruct cs as [|c cs], nl; reflexivity.
  - reflexivity.
Qed.

Lemma records_with_nl : forall abs, records_of (map with_nl abs) = records_of abs.
Proof.
  induction abs as [|b abs IH]; [reflexivity|]. destruct b; cbn [map with_nl records_of]; now rewrite IH.
Qed.

Lemma merged_blocks_records : forall sel bs abs,
  records_of (merged_blocks sel bs abs) =
  filter (fun r => negb (sel (rkey r))) (records_of bs) ++ records_of abs.
Proof.
  intros. unfold merged_blocks.
  now rewrite records_of_app, records_kept, records_closeb, records_with_nl.
Qed.

(* ---- the theorem ------------------------------------------------------------------ *)
Lemma caps_properties_facts :
  has caps_properties can_copy = false /\ has caps_properties can_skip = true /\
  has caps_properties can_merge = true.
Proof. repeat split; reflexivity. Qed.

Theorem reparse_properties :
  forall (bs abs : list block) (sel : str -> bool) (missing : list str)
         (refs : list (str * str)) (es : list entry) (skips : list skip),
  Forall legal_block bs -> adjacent_ok bs ->
  walk_properties (file_text bs) = Ok es ->
  Permutation skips (parse_skips sel (file_text bs) es) ->
  Forall legal_ref abs ->
  map_result (ref_all str_eqb refs) (missing ++ filter sel (map rkey (records_of bs)))
    = Ok (map entity_all abs) ->
  exists a t out es',
    merge str_eqb true caps_properties (file_text bs) skips missing refs = Ok a /\
    staged_text (file_text bs) a = Some t /\
    out = (if nonempty skips || nonempty missing then merged_blocks sel bs abs else bs) /\
    t = file_text out /\ Forall legal_block out /\ adjacent_ok out /\
    walk_properties t = Ok es' /\
    map (entity_record t) (filter (is_kind KEntity) es') =
      filter (fun r => negb (sel (rkey r))) (records_of bs) ++ records_of abs /\
    filter (is_kind KJunk) es' = [].
Proof.
  intros bs abs sel missing refs es skips Hleg Hadj Hwalk Hperm Habs Hlk.
  rewrite (blocks_properties bs Hleg Hadj) in Hwalk. inversion Hwalk; subst es. clear Hwalk.
  unfold parse_skips in Hperm. rewrite (parse_entities_blocks bs Hleg) in Hperm.
  rewrite <- keys_of_records in Hlk.
  destruct caps_properties_facts as (Hc & Hs & Hm).
  destruct (merge_on_blocks text p_dec p_dec_text p_dec_core caps_properties [] bs sel missing refs
              skips (map entity_all abs) Hc Hs Hm Hperm Hlk) as (a & Hmerge & Hcase).
  change (ftext text bs) with (file_text bs) in *.
  change ([] ++ file_text bs) with (file_text bs) in *.
  destruct Hcase as [[Hne Hst]|(Hne & -> & Hnil & Hnone)]; rewrite Hne.
  - assert (staged_text (file_text bs) a = Some (file_text (merged_blocks sel bs abs))) as Hst'.
    { rewrite Hst. f_equal. rewrite (merged_blocks_text sel bs abs Habs), kept_ftext_blocks.
      reflexivity. }
    destruct (C02_roundtrip_properties_multi (merged_blocks sel bs abs)
                (merged_blocks_legal sel bs abs Hleg Habs)
                (merged_blocks_adjacent sel bs abs Hadj Habs)) as (es' & Hw & Hrec & _ & Hjunk).
    rewrite merged_blocks_records in Hrec.
    exists a, (file_text (merged_blocks sel bs abs)), (merged_blocks sel bs abs), es'.
    repeat split; auto using merged_blocks_legal, merged_blocks_adjacent.
  - assert (abs = []) as -> by (destruct abs; [reflexivity|discriminate]).
    destruct (C02_roundtrip_properties_multi bs Hleg Hadj) as (es' & Hw & Hrec & _ & Hjunk).
    exists CopyL10n, (file_text bs), bs, es'. repeat split; auto.
    rewrite Hrec. cbn [records_of]. rewrite app_nil_r. symmetry.
    rewrite keys_of_records in Hnone. exact (filter_none_all rkey sel (records_of bs) Hnone).
Qed.

(* ---- why the premises are there ---------------------------------------------------- *)
(* (1) legality of the localization's last value excludes the listed finding D3: an
   entity whose last line ends in an odd run of backslashes is not a legal block *)
Lemma d3_not_legal :
  let b := BEntity [] [97%N] [] 61%N [] [] [120; 92]%N false in      (*  a=x\  *)
  file_text [b] = d3_l10n /\ legal_blockb b = false.
Proof. split; reflexivity. Qed.

(* (2) [legal_ref] asks that Entity.all of an appended reference entity does not end in
   a newline.  A legal entity block can: the value  a\  continued by an empty last line.
   ensureNewline then adds nothing and the next appended entity is swallowed by the
   continuation.  reference:  k=a\ / <empty> / b=2 ;  localization:  x=1  *)
Definition rk_block : block := BEntity [] [107%N] [] 61%N [] [[97; 92]%N] [] true.
Definition rb_block : block := BEntity [] [98%N] [] 61%N [] [] [50%N] true.
Definition lx_block : block := BEntity [] [120%N] [] 61%N [] [] [49%N] true.

Lemma ref_continuation_witness :
  let bs := [lx_block] in
  let abs := [rk_block; rb_block] in
  let refs := map (fun b => (rkey (hd ([], [], None) (records_of [b])), entity_all b)) abs in
  Forall legal_block bs /\ adjacent_ok bs /\
  (* the reference is itself a legal, separated block list without junk *)
  Forall legal_block abs /\ adjacent_ok abs /\
  walk_properties (file_text abs) = Ok (entries_of abs) /\
  forallb is_entity abs = true /\
  map (fun b => ends_with_nl (entity_all b)) abs = [true; false] /\
  map_result (ref_all str_eqb refs) [[107%N]; [98%N]] = Ok (map entity_all abs) /\
  (do a <- merge str_eqb true caps_properties (file_text bs) [] [[107%N]; [98%N]] refs;
   match staged_text (file_text bs) a with
   | Some t => do ks <- parsed_keys t; Ok (t, ks)
   | None => Raise AssertionError
   end)
  = Ok ([120; 61; 49; 10;  10;  107; 61; 97; 92; 10;  98; 61; 50; 10]%N, [[120%N]; [107%N]]).
Proof.
  cbv zeta. split; [repeat constructor|]. split; [vm_compute; reflexivity|].
  split; [repeat constructor|]. repeat split; vm_compute; reflexivity.
Qed.
