(* More about repetitions of one character class:
   - greedy: the continuation is tried after the maximal run first, then after shorter
     ones; when it fails after every shorter run the result is its result after the
     maximal run;
   - lazy: the continuation is tried after 0, 1, 2, ... class characters; the result is
     its first non-failing answer. *)
From Coq Require Import NArith List Bool Arith Lia.
From CL Require Import Base.Str Regex.Rx Regex.RxLemmas Proofs.ClassLoop.
Import ListNotations.

Local Arguments Nat.ltb : simpl never.
Local Arguments Nat.leb : simpl never.
Local Arguments Nat.eqb : simpl never.
Local Arguments chr_ok : simpl never.

Lemma fwd_S : forall n z c t, suf z = c :: t -> fwd (S n) z = fwd n (advance z c t).
Proof. intros n z c t H. simpl. rewrite H. reflexivity. Qed.

Section Loop.
Variables (neg : bool) (cls : cset).
Let body := m (Chr neg cls).

Lemma body_eq' : forall s k,
  body s k = match suf s with
             | c :: t => if chr_ok neg cls c then k (advance s c t) else Fail
             | [] => Fail
             end.
Proof. reflexivity. Qed.

Lemma run_cons : forall hi count c t b,
  budget_of hi count = match hi with Some _ => Some (S b) | None => None end ->
  budget_of hi (S count) = match hi with Some _ => Some b | None => None end ->
  run neg cls (budget_of hi count) (c :: t) =
  if chr_ok neg cls c then S (run neg cls (budget_of hi (S count)) t) else 0.
Proof. intros hi count c t b H1 H2. rewrite H1, H2. destruct hi; reflexivity. Qed.

(* greedy, the continuation may fail *)
Lemma rep_class_desc : forall lo hi fuel count s k,
  (match hi with Some h => lo <= h | None => True end) ->
  length (suf s) < fuel ->
  (forall j, j < run neg cls (budget_of hi count) (suf s) -> lo <= count + j ->
             k (fwd j s) = Fail) ->
  rep_loop body true lo hi fuel count s k =
  if lo <=? count + run neg cls (budget_of hi count) (suf s)
  then k (fwd (run neg cls (budget_of hi count) (suf s)) s)
  else Fail.
Proof.
  intros lo hi fuel. induction fuel as [|f IH]; intros count s k Hhi Hf Hk; [lia|].
  rewrite rep_loop_S, !body_eq'.
  destruct (count <? lo) eqn:Ecl.
  - apply Nat.ltb_lt in Ecl.
    destruct (suf s) as [|c t] eqn:Es.
    + simpl. rewrite Nat.add_0_r. destruct (lo <=? count) eqn:E; [apply Nat.leb_le in E; lia|reflexivity].
    + assert (Hb : exists b, budget_of hi count = match hi with Some _ => Some (S b) | None => None end
                             /\ budget_of hi (S count) = match hi with Some _ => Some b | None => None end).
      { destruct hi as [h|]; simpl; [|exists 0; auto]. exists (h - S count). split; f_equal; lia. }
      destruct Hb as [b [Hb1 Hb2]].
      rewrite (run_cons hi count c t b Hb1 Hb2) in *.
      destruct (chr_ok neg cls c) eqn:Ec.
      * rewrite IH; auto; [| unfold advance; simpl; simpl in Hf; lia |].
        -- unfold advance at 1 2. cbn [suf].
           replace (count + S (run neg cls (budget_of hi (S count)) t))
             with (S count + run neg cls (budget_of hi (S count)) t) by lia.
           rewrite (fwd_S _ s c t Es). reflexivity.
        -- unfold advance at 1. cbn [suf]. intros j Hj Hl.
           rewrite <- (fwd_S j s c t Es). apply Hk; lia.
      * rewrite Nat.add_0_r.
        destruct (lo <=? count) eqn:E; [apply Nat.leb_le in E; lia|reflexivity].
  - apply Nat.ltb_ge in Ecl. cbv zeta.
    assert (Hlo : forall j, (lo <=? count + j) = true) by (intros; apply Nat.leb_le; lia).
    rewrite Hlo.
    destruct (match hi with Some h => count <? h | None => true end) eqn:Eh.
    + destruct (suf s) as [|c t] eqn:Es.
      * simpl. reflexivity.
      * assert (Hb : exists b, budget_of hi count = match hi with Some _ => Some (S b) | None => None end
                               /\ budget_of hi (S count) = match hi with Some _ => Some b | None => None end).
        { destruct hi as [h|]; simpl; [|exists 0; auto]. apply Nat.ltb_lt in Eh.
          exists (h - S count). split; f_equal; lia. }
        destruct Hb as [b [Hb1 Hb2]].
        rewrite (run_cons hi count c t b Hb1 Hb2) in *.
        destruct (chr_ok neg cls c) eqn:Ec.
        -- assert (Hp : Nat.eqb (pos (advance s c t)) (pos s) = false)
             by (apply Nat.eqb_neq; simpl; lia).
           rewrite Hp. rewrite IH; auto; [| unfold advance; simpl; simpl in Hf; lia |].
           ++ assert (Hlo' : forall j, (lo <=? S count + j) = true) by (intros; apply Nat.leb_le; lia).
              rewrite Hlo'. unfold advance at 1. cbn [suf]. rewrite (fwd_S _ s c t Es).
              destruct (k (fwd (run neg cls (budget_of hi (S count)) t) (advance s c t))) eqn:Ek;
                try reflexivity.
              (* the longest run failed: so does the empty one *)
              simpl orelse. pose proof (Hk 0) as H0. simpl fwd in H0. apply H0; lia.
           ++ unfold advance at 1. cbn [suf]. intros j Hj Hl.
              rewrite <- (fwd_S j s c t Es). apply Hk; lia.
        -- reflexivity.
    + destruct hi as [h|]; [|discriminate]. apply Nat.ltb_ge in Eh.
      assert (Hr : run neg cls (budget_of (Some h) count) (suf s) = 0).
      { simpl. replace (h - count) with 0 by lia. destruct (suf s); reflexivity. }
      rewrite Hr. reflexivity.
Qed.

Lemma m_rep_class_desc : forall lo hi s k,
  (match hi with Some h => lo <= h | None => True end) ->
  (forall j, j < run neg cls hi (suf s) -> lo <= j -> k (fwd j s) = Fail) ->
  m (Rep true lo hi (Chr neg cls)) s k =
  if lo <=? run neg cls hi (suf s)
  then k (fwd (run neg cls hi (suf s)) s)
  else Fail.
Proof.
  intros lo hi s k Hhi Hk. simpl m. fold body.
  assert (Hb : budget_of hi 0 = hi) by (destruct hi; simpl; f_equal; lia).
  rewrite rep_class_desc; auto; [| lia |]; rewrite Hb; auto.
Qed.

(* lazy, unbounded, no mandatory iteration *)
Lemma rep_class_lazy : forall j fuel count s k,
  j <= run neg cls None (suf s) -> j < fuel ->
  (forall i, i < j -> k (fwd i s) = Fail) ->
  k (fwd j s) <> Fail ->
  rep_loop body false 0 None fuel count s k = k (fwd j s).
Proof.
  induction j as [|j IH]; intros fuel count s k Hr Hf Hfail Hok;
    (destruct fuel as [|f]; [lia|]); rewrite rep_loop_S; simpl (count <? 0);
    replace (count <? 0) with false by (symmetry; apply Nat.ltb_ge; lia); cbv zeta.
  - simpl fwd in *. destruct (k s); try reflexivity. contradiction.
  - pose proof (Hfail 0) as H0. simpl fwd in H0. rewrite H0 by lia. simpl orelse. rewrite body_eq'.
    destruct (suf s) as [|c t] eqn:Es; [simpl in Hr; lia|].
    unfold run in Hr. fold run in Hr.
    destruct (chr_ok neg cls c) eqn:Ec; [|lia].
    assert (Hp : Nat.eqb (pos (advance s c t)) (pos s) = false)
      by (apply Nat.eqb_neq; simpl; lia).
    rewrite Hp. rewrite (fwd_S j s c t Es). apply IH.
    + unfold advance. cbn [suf]. lia.
    + lia.
    + intros i Hi. rewrite <- (fwd_S i s c t Es). apply Hfail. lia.
    + rewrite <- (fwd_S j s c t Es). exact Hok.
Qed.

Lemma m_rep_class_lazy : forall j s k,
  j <= run neg cls None (suf s) ->
  (forall i, i < j -> k (fwd i s) = Fail) ->
  k (fwd j s) <> Fail ->
  m (Rep false 0 None (Chr neg cls)) s k = k (fwd j s).
Proof.
  intros j s k Hr Hfail Hok.
  change (m (Rep false 0 None (Chr neg cls)) s k)
    with (rep_loop body false 0 None (0 + S (length (suf s))) 0 s k).
  apply rep_class_lazy; auto.
  pose proof (run_le neg cls None (suf s)). lia.
Qed.
End Loop.

(* greedy: when the continuation does not fail after the maximal run, that is the result *)
Section Max.
Variables (neg : bool) (cls : cset).
Let body := m (Chr neg cls).

Lemma rep_class_max : forall lo hi fuel count s k,
  (match hi with Some h => lo <= h | None => True end) ->
  length (suf s) < fuel ->
  k (fwd (run neg cls (budget_of hi count) (suf s)) s) <> Fail ->
  rep_loop body true lo hi fuel count s k =
  if lo <=? count + run neg cls (budget_of hi count) (suf s)
  then k (fwd (run neg cls (budget_of hi count) (suf s)) s)
  else Fail.
Proof.
  intros lo hi fuel. induction fuel as [|f IH]; intros count s k Hhi Hf Hk; [lia|].
  rewrite rep_loop_S. change body with (m (Chr neg cls)). rewrite !(body_eq' neg cls).
  destruct (count <? lo) eqn:Ecl.
  - apply Nat.ltb_lt in Ecl.
    destruct (suf s) as [|c t] eqn:Es.
    + simpl. rewrite Nat.add_0_r. destruct (lo <=? count) eqn:E; [apply Nat.leb_le in E; lia|reflexivity].
    + assert (Hb : exists b, budget_of hi count = match hi with Some _ => Some (S b) | None => None end
                             /\ budget_of hi (S count) = match hi with Some _ => Some b | None => None end).
      { destruct hi as [h|]; simpl; [|exists 0; auto]. exists (h - S count). split; f_equal; lia. }
      destruct Hb as [b [Hb1 Hb2]].
      rewrite (run_cons neg cls hi count c t b Hb1 Hb2) in *.
      destruct (chr_ok neg cls c) eqn:Ec.
      * fold body. rewrite IH; auto; [| unfold advance; simpl; simpl in Hf; lia |].
        -- unfold advance at 1 2. cbn [suf].
           replace (count + S (run neg cls (budget_of hi (S count)) t))
             with (S count + run neg cls (budget_of hi (S count)) t) by lia.
           rewrite (fwd_S _ s c t Es). reflexivity.
        -- unfold advance at 1. cbn [suf]. rewrite <- (fwd_S _ s c t Es). exact Hk.
      * rewrite Nat.add_0_r.
        destruct (lo <=? count) eqn:E; [apply Nat.leb_le in E; lia|reflexivity].
  - apply Nat.ltb_ge in Ecl. cbv zeta.
    assert (Hlo : forall j, (lo <=? count + j) = true) by (intros; apply Nat.leb_le; lia).
    rewrite Hlo.
    destruct (match hi with Some h => count <? h | None => true end) eqn:Eh.
    + destruct (suf s) as [|c t] eqn:Es.
      * simpl. reflexivity.
      * assert (Hb : exists b, budget_of hi count = match hi with Some _ => Some (S b) | None => None end
                               /\ budget_of hi (S count) = match hi with Some _ => Some b | None => None end).
        { destruct hi as [h|]; simpl; [|exists 0; auto]. apply Nat.ltb_lt in Eh.
          exists (h - S count). split; f_equal; lia. }
        destruct Hb as [b [Hb1 Hb2]].
        rewrite (run_cons neg cls hi count c t b Hb1 Hb2) in *.
        destruct (chr_ok neg cls c) eqn:Ec.
        -- assert (Hp : Nat.eqb (pos (advance s c t)) (pos s) = false)
             by (apply Nat.eqb_neq; simpl; lia).
           rewrite Hp. fold body. rewrite IH; auto; [| unfold advance; simpl; simpl in Hf; lia |].
           ++ assert (Hlo' : forall j, (lo <=? S count + j) = true) by (intros; apply Nat.leb_le; lia).
              rewrite Hlo'. unfold advance at 1. cbn [suf]. rewrite (fwd_S _ s c t Es) in *.
              destruct (k (fwd (run neg cls (budget_of hi (S count)) t) (advance s c t))) eqn:Ek;
                try reflexivity. contradiction.
           ++ unfold advance at 1. cbn [suf]. rewrite <- (fwd_S _ s c t Es). exact Hk.
        -- reflexivity.
    + destruct hi as [h|]; [|discriminate]. apply Nat.ltb_ge in Eh.
      assert (Hr : run neg cls (budget_of (Some h) count) (suf s) = 0).
      { simpl. replace (h - count) with 0 by lia. destruct (suf s); reflexivity. }
      rewrite Hr. reflexivity.
Qed.

Lemma m_rep_class_max : forall lo hi s k,
  (match hi with Some h => lo <= h | None => True end) ->
  k (fwd (run neg cls hi (suf s)) s) <> Fail ->
  m (Rep true lo hi (Chr neg cls)) s k =
  if lo <=? run neg cls hi (suf s)
  then k (fwd (run neg cls hi (suf s)) s)
  else Fail.
Proof.
  intros lo hi s k Hhi Hk.
  change (m (Rep true lo hi (Chr neg cls)) s k)
    with (rep_loop body true lo hi (lo + S (length (suf s))) 0 s k).
  assert (Hb : budget_of hi 0 = hi) by (destruct hi; simpl; f_equal; lia).
  rewrite rep_class_max; auto; [| lia |]; rewrite Hb; auto.
Qed.
End Max.
