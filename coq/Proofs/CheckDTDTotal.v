(* C07: DTDChecker.check (model) raises nothing but the two "cannot happen"
   assertions on regex groups.  In particular no IndexError (the repaired
   `lines[lnr - 1]` on an empty value) and no OutOfFuel: for every oracle,
   cache, reference and pair of entities. *)
From Coq Require Import NArith ZArith List Bool Arith Lia.
From CL Require Import Base.Sx Base.Res Base.Str Regex.Rx Regex.RxLemmas Generated.RxC07 Generated.C07Facts
  Model.CSS Model.XmlContent Model.CheckDTD Proofs.CheckDTDProofs.
Import ListNotations.

(* the only tag a computation can raise is AssertionError *)
Definition only_assert {T} (r : result T) : Prop := forall t, r = Raise t -> t = AssertionError.

Lemma oa_ok : forall {T} (v : T), only_assert (Ok v).
Proof. intros T v t H. discriminate. Qed.

Lemma oa_assert : forall {T}, only_assert (@Raise T AssertionError).
Proof. intros T t H. inversion H. reflexivity. Qed.

Lemma oa_bind : forall {T U} (r : result T) (f : T -> result U),
  only_assert r -> (forall x, only_assert (f x)) -> only_assert (bind r f).
Proof.
  intros T U [x|tg] f Hr Hf t H; simpl in H.
  - eapply Hf. exact H.
  - apply Hr. inversion H. reflexivity.
Qed.

Lemma oa_finditer : forall r s, only_assert (finditer r s).
Proof.
  intros r s t H. unfold finditer in H. destruct (rfinditer r s) eqn:E; [discriminate|].
  exfalso. exact (rfinditer_no_fuel r s E).
Qed.

Lemma oa_mapM : forall {T U} (f : T -> result U) l, (forall x, only_assert (f x)) -> only_assert (mapM f l).
Proof.
  induction l as [|a l IH]; intros Hf; cbn [mapM]; [apply oa_ok|].
  apply oa_bind; [apply Hf|]. intros y. apply oa_bind; [apply IH; exact Hf|]. intros ys. apply oa_ok.
Qed.

Lemma oa_eref_names : forall v, only_assert (eref_names v).
Proof.
  intros v. unfold eref_names. apply oa_bind; [apply oa_finditer|]. intros ms. apply oa_mapM.
  intros m. destruct (group_str v m 1); [apply oa_ok | apply oa_assert].
Qed.

Lemma oa_entities : forall v, only_assert (entities_for_value v).
Proof. intros v. unfold entities_for_value. apply oa_bind; [apply oa_eref_names|]. intros. apply oa_ok. Qed.

Lemma oa_known : forall cache reference v, only_assert (known_entities cache reference v).
Proof.
  intros [k|] [refs|] v; cbn [known_entities]; try apply oa_ok.
  - apply oa_bind; [apply oa_mapM; apply oa_entities|]. intros. apply oa_ok.
  - apply oa_bind; [apply oa_entities|]. intros. apply oa_ok.
Qed.

Lemma oa_css_loop : forall val ms refMap errors e, only_assert (css_loop val ms refMap errors e).
Proof.
  induction ms as [|m ms IH]; intros refMap errors e; cbn [css_loop]; [apply oa_ok|].
  destruct (Nat.eqb e 0 && Nat.eqb (m_start m) (m_end m)); [apply oa_ok|].
  apply oa_bind; [|intros; apply IH].
  destruct (group_str val m g_c07_css_spec_prop) as [[|c p]|]; try apply oa_ok.
  destruct (group_str val m g_c07_css_spec_unit); [apply oa_ok | apply oa_assert].
Qed.

Lemma oa_parse_css : forall val, only_assert (parse_css_spec val).
Proof. intros. unfold parse_css_spec. apply oa_bind; [apply oa_finditer|]. intros. apply oa_css_loop. Qed.

Lemma oa_maybe_style : forall rv lv, only_assert (maybe_style rv lv).
Proof.
  intros. unfold maybe_style. apply oa_bind; [apply oa_parse_css|]. intros r.
  destruct (fst r) as [[|x l]|]; try apply oa_ok.
  apply oa_bind; [apply oa_parse_css|]. intros. apply oa_ok.
Qed.

Lemma oa_android : forall uesc v, only_assert (process_android uesc v).
Proof.
  intros. unfold process_android. apply oa_bind.
  - destruct (omatch0 rx_c07_quoted v); [|apply oa_ok].
    repeat match goal with
           | |- only_assert (match ?x with _ => _ end) => destruct x
           end; try apply oa_ok; apply oa_assert.
  - intros [[r off] v']. apply oa_bind; [apply oa_finditer|]. intros. apply oa_ok.
Qed.

Lemma oa_check_base : forall l10n, only_assert (check_base l10n).
Proof. intros. unfold check_base. apply oa_bind; [apply oa_finditer|]. intros. apply oa_ok. Qed.

Theorem check_raises_only_assertion : forall sax uesc cache reference android ref l10n t,
  check sax uesc cache reference android ref l10n = Raise t -> t = AssertionError.
Proof.
  intros sax uesc cache reference android ref l10n. change (only_assert (check sax uesc cache reference android ref l10n)).
  unfold check. apply oa_bind; [apply oa_check_base|]. intros enc.
  apply oa_bind; [apply oa_known|]. intros [reflist c'].
  apply oa_bind; [apply oa_entities|]. intros inContext.
  apply oa_bind; [apply oa_entities|]. intros l10nlist.
  apply oa_bind; [apply oa_maybe_style|]. intros style.
  apply oa_bind; [destruct android; [apply oa_android | apply oa_ok]|]. intros andr. apply oa_ok.
Qed.
