(* C06_specs_tokens: getPrintfSpecs of a rendered clean token list is the
   positional argument model (Part A: Proofs/PrintfRxProofs.v, the regex layer;
   Part B: Proofs/SpecsProofs.v, the loop). *)
From Coq Require Import NArith List Bool Arith.
From CL Require Import Base.Sx Base.Res Base.Str Regex.Rx Generated.RxC06
  Model.CheckProps Model.CheckPropsSpec Proofs.SpecsProofs Proofs.PrintfRxProofs.
Import ListNotations.

Theorem specs_tokens : forall toks, clean toks = true ->
  get_printf_specs (render toks) = Ok (argmodel toks).
Proof.
  intros toks Hc. destruct (printf_matches toks Hc) as (ms & Hms & Hd).
  unfold get_printf_specs, finditer. rewrite Hms. apply specs_model; assumption.
Qed.
