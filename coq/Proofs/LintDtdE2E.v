(* C19 end to end for .dtd: the block lists of Proofs/C02BlocksDtdJunk.v (entity declarations
   with attached comment, parameter-entity declarations, standalone comments, white-space,
   garbage regions; optionally behind a byte order mark) as item lists (Proofs/LintE2E.v).
   The entity class is DTDEntity: value_position is DTDEntityMixin.value_position and .val is
   html.unescape(raw_val), a library function and here a parameter. *)
From Coq Require Import ZArith NArith List Bool Arith Lia.
From CL Require Import Base.Sx Base.Res Base.Str Regex.Rx Model.Entry Model.Parse
  Model.ParseFormats Model.CheckProps Model.LineCol Model.AddRemove Model.Lint Model.LintProps
  Proofs.LintProofs Proofs.C02Roundtrip Proofs.C02BlocksRx Proofs.C02BlocksDtdRx
  Proofs.C02BlocksDtdPeRx Proofs.C02BlocksDtd Proofs.C02BlocksDtdJunk Proofs.LintE2E.
Import ListNotations.
Open Scope nat_scope.

Local Arguments Nat.ltb : simpl never.
Local Arguments Nat.leb : simpl never.
Local Arguments str_of_nat : simpl never.

Ltac norm_app := repeat (progress (rewrite <- ?app_assoc; cbn [app])).
Ltac len := repeat (progress (rewrite ?app_length; cbn [length])); lia.

Definition ditem (jb : jblock) : item :=
  match jb with
  | JB (BBlank w) => IOther w
  | JB (BComment body) => IOther (comment_text body)
  | JB (BEntity pre ws1 name ws2 q v ws3) =>
      IEnt (pre_text pre) (ENT ++ ws1) name (ws2 ++ [q]) v (q :: ws3 ++ [62%N]) []
  | JB (BPE d) =>
      (* the value span of a parameter entity is the quoted text WITH its quotes *)
      IEnt [] (ENT ++ pe_ws1 d ++ 37%N :: pe_ws2 d) (pe_name d) (pe_ws3 d ++ SYSTEM ++ pe_ws4 d)
           (pe_q d :: pe_v d ++ [pe_q d])
           (pe_ws5 d ++ 62%N :: pe_ws6 d ++ 37%N :: pe_ref d ++ 59%N :: pe_tail_text d) []
  | JG g => IJunk g
  end.

Lemma ditem_text : forall jb, item_text (ditem jb) = jtext jb.
Proof.
  intros [[w|body|pre ws1 name ws2 q v ws3|d]|g]; cbn [ditem item_text jtext text]; try reflexivity.
  - unfold decl_text. norm_app. rewrite ?app_nil_r. reflexivity.
  - unfold pe_text. norm_app. rewrite ?app_nil_r. reflexivity.
Qed.

Lemma ditems_text : forall bs, items_text (map ditem bs) = jfile_text bs.
Proof.
  induction bs as [|b bs IH]; [reflexivity|].
  cbn [map]. rewrite items_text_cons, jfile_text_cons, ditem_text, IH. reflexivity.
Qed.

Lemma dloc_flush : forall off w, filter is_localizable (flush off w) = [].
Proof. intros off [|w]; reflexivity. Qed.

Notation vp_dtd := dtd_value_position.

Lemma dents_entities : forall bs, Forall legal_jblock bs -> forall (a w : str) j,
  let s := a ++ w ++ jfile_text bs in
  fmt_entities vp_dtd s j (filter is_localizable (jents (length a) (length w) bs)) =
  gen_entities vp_dtd s j (a ++ w) (map ditem bs).
Proof.
  induction bs as [|b rest IH]; intros Hleg a w j s.
  - cbn [jents]. rewrite dloc_flush. reflexivity.
  - inversion Hleg as [|b' rest' Hb Hrest]; subst b' rest'. specialize (IH Hrest).
    destruct b as [[x|body|pre ws1 name ws2 q v ws3|d]|g]; cbn [map ditem gen_entities].
    + assert (Hs : s = a ++ (w ++ x) ++ jfile_text rest).
      { unfold s. rewrite jfile_text_cons. cbn [jtext text]. rewrite <- app_assoc. reflexivity. }
      cbn [jents]. rewrite <- app_length.
      rewrite Hs. rewrite (IH a (w ++ x) j). f_equal. apply app_assoc.
    + set (A0 := a ++ w ++ comment_text body).
      assert (Hs : s = A0 ++ [] ++ jfile_text rest).
      { unfold s, A0. rewrite jfile_text_cons. cbn [jtext text]. norm_app. reflexivity. }
      assert (El : length a + length w + length (comment_text body) = length A0)
        by (unfold A0; rewrite !app_length; lia).
      cbn [jents]. rewrite !filter_app, dloc_flush, El.
      cbn [app filter is_localizable mk_comment Entry.e_kind]. cbn [fmt_entities mk_comment Entry.e_kind].
      change 0 with (length (@nil N)). rewrite Hs, (IH A0 [] j).
      f_equal. unfold A0. norm_app. rewrite ?app_nil_r. reflexivity.
    + set (K0 := a ++ w ++ pre_text pre).
      set (N0 := K0 ++ ENT ++ ws1).
      set (V0 := N0 ++ name ++ ws2 ++ [q]).
      set (A0 := V0 ++ v ++ q :: ws3 ++ [62%N]).
      assert (Hs : s = A0 ++ [] ++ jfile_text rest).
      { unfold s, A0, V0, N0, K0. rewrite jfile_text_cons. cbn [jtext text]. unfold decl_text.
        norm_app. reflexivity. }
      assert (Ek : length a + length w + length (pre_text pre) = length K0) by (unfold K0; len).
      assert (En : length K0 + 8 + length ws1 = length N0) by (unfold N0, ENT; len).
      assert (Ev : length N0 + length name + length ws2 + 1 = length V0) by (unfold V0; len).
      assert (Ee : key_end ws1 name ws2 v ws3 (length K0) = length A0).
      { unfold key_end, A0, V0, N0, ENT. len. }
      cbn [jents]. rewrite !filter_app, dloc_flush. unfold entity_entry. rewrite Ek, Ee, En.
      cbn [app filter is_localizable Entry.e_kind].
      cbn [fmt_entities Entry.e_kind Entry.e_span Entry.e_key Entry.e_val fst snd osp_text option_map].
      assert (S1 : sp_text s (length N0, length N0 + length name) = name).
      { unfold sp_text. cbn [fst snd].
        replace s with (N0 ++ name ++ (ws2 ++ [q]) ++ (v ++ q :: ws3 ++ [62%N]) ++ jfile_text rest)
          by (rewrite Hs; unfold A0, V0; norm_app; reflexivity).
        apply slice_mid. }
      assert (S2 : sp_text s (length N0 + length name + length ws2 + 1,
                              length N0 + length name + length ws2 + 1 + length v) = v).
      { unfold sp_text. cbn [fst snd]. rewrite Ev.
        replace s with (V0 ++ v ++ (q :: ws3 ++ [62%N]) ++ jfile_text rest)
          by (rewrite Hs; unfold A0; norm_app; reflexivity).
        apply slice_mid. }
      rewrite S1, S2.
      f_equal.
      * apply mk_ent_eq.
        -- unfold K0. len.
        -- unfold A0, V0, N0, K0, ENT. len.
        -- unfold N0, K0, ENT. len.
        -- unfold N0, K0, ENT. len.
      * change 0 with (length (@nil N)). rewrite Hs, (IH A0 [] j). f_equal.
        unfold A0, V0, N0, K0. cbn [item_text]. norm_app. rewrite ?app_nil_r. reflexivity.
    + set (H0 := a ++ w ++ ENT ++ pe_ws1 d ++ 37%N :: pe_ws2 d).
      set (V0 := H0 ++ pe_name d ++ pe_ws3 d ++ SYSTEM ++ pe_ws4 d).
      set (R0 := pe_q d :: pe_v d ++ [pe_q d]).
      set (C0 := pe_ws5 d ++ 62%N :: pe_ws6 d ++ 37%N :: pe_ref d ++ 59%N :: pe_tail_text d).
      set (A0 := V0 ++ R0 ++ C0).
      assert (Hs : s = A0 ++ [] ++ jfile_text rest).
      { unfold s, A0, C0, R0, V0, H0. rewrite jfile_text_cons. cbn [jtext text]. unfold pe_text.
        norm_app. reflexivity. }
      assert (Eh : length a + length w + 8 + length (pe_ws1 d) + 1 + length (pe_ws2 d) = length H0)
        by (unfold H0, ENT; len).
      assert (Ev : length H0 + length (pe_name d) + length (pe_ws3 d) + 6 + length (pe_ws4 d) = length V0)
        by (unfold V0, SYSTEM; len).
      assert (Ee : length a + length w + length (pe_text d) = length A0).
      { unfold A0, C0, R0, V0, H0, pe_text. len. }
      cbn [jents]. rewrite !filter_app, dloc_flush. unfold pe_entry, pe_val_span, pe_key_span.
      cbn [fst snd]. rewrite Ee, Eh, Ev.
      cbn [app filter is_localizable Entry.e_kind].
      cbn [fmt_entities Entry.e_kind Entry.e_span Entry.e_key Entry.e_val fst snd osp_text option_map].
      assert (S1 : sp_text s (length H0, length H0 + length (pe_name d)) = pe_name d).
      { unfold sp_text. cbn [fst snd].
        replace s with (H0 ++ pe_name d ++ (pe_ws3 d ++ SYSTEM ++ pe_ws4 d) ++ R0 ++ C0 ++ jfile_text rest)
          by (rewrite Hs; unfold A0, V0; norm_app; reflexivity).
        apply slice_mid. }
      assert (S2 : sp_text s (length V0, length V0 + 2 + length (pe_v d)) = R0).
      { unfold sp_text. cbn [fst snd].
        replace (length V0 + 2 + length (pe_v d)) with (length V0 + length R0) by (unfold R0; len).
        replace s with (V0 ++ R0 ++ C0 ++ jfile_text rest)
          by (rewrite Hs; unfold A0; norm_app; reflexivity).
        apply slice_mid. }
      rewrite S1, S2.
      f_equal.
      * apply mk_ent_eq.
        -- len.
        -- rewrite <- Ee. unfold pe_text, R0, C0, SYSTEM, ENT. len.
        -- rewrite <- Ev, <- Eh. unfold SYSTEM, ENT. len.
        -- rewrite <- Ev, <- Eh. unfold R0, SYSTEM, ENT. len.
      * change 0 with (length (@nil N)). rewrite Hs, (IH A0 [] j). f_equal.
        unfold A0, C0, R0, V0, H0. cbn [item_text]. norm_app. rewrite ?app_nil_r. reflexivity.
    + set (A0 := a ++ w ++ g).
      assert (Hs : s = A0 ++ [] ++ jfile_text rest).
      { unfold s, A0. rewrite jfile_text_cons. cbn [jtext]. norm_app. reflexivity. }
      assert (El : length a + length w + length g = length A0)
        by (unfold A0; rewrite !app_length; lia).
      cbn [jents]. rewrite !filter_app, dloc_flush, El.
      cbn [app filter is_localizable mk_junk Entry.e_kind].
      cbn [fmt_entities mk_junk Entry.e_kind Entry.e_span fst snd].
      assert (S1 : sp_text s (length a + length w, length A0) = g).
      { unfold sp_text. cbn [fst snd]. rewrite <- El, <- app_length.
        replace s with ((a ++ w) ++ g ++ jfile_text rest)
          by (unfold s; rewrite jfile_text_cons; cbn [jtext]; norm_app; reflexivity).
        apply slice_mid. }
      rewrite S1. f_equal.
      * apply mk_junk_eq; [len|rewrite <- El; len].
      * change 0 with (length (@nil N)). rewrite Hs, (IH A0 [] (S j)). f_equal.
        unfold A0. norm_app. rewrite ?app_nil_r. reflexivity.
Qed.

(* behind a byte order mark: the mark is text no entry covers; a file that is only the mark
   parses to one empty Junk at offset 1 *)
Definition ditems (mark : bool) (bs : list jblock) : list item :=
  if mark then IOther [bom] :: match bs with [] => [IJunk []] | _ => map ditem bs end
  else map ditem bs.

Lemma ditems_text_bom : forall mark bs, items_text (ditems mark bs) = jfile_text_bom mark bs.
Proof.
  intros [|] bs; unfold ditems, jfile_text_bom.
  - rewrite items_text_cons. cbn [item_text]. f_equal.
    destruct bs as [|b bs]; [reflexivity|]. apply ditems_text.
  - apply ditems_text.
Qed.

Theorem parsed_dtd : forall mark bs, Forall legal_jblock bs -> jadjacent_ok_bom mark bs ->
  parsed vp_dtd walk_dtd (ditems mark bs).
Proof.
  intros mark bs Hleg Hadj. exists (jentries_of_bom mark bs). rewrite ditems_text_bom. split.
  - apply blocks_dtd_junk_bom; assumption.
  - intros j. destruct mark; unfold jentries_of_bom, ditems, jfile_text_bom.
    + destruct bs as [|b rest]; [reflexivity|].
      pose proof (dents_entities (b :: rest) Hleg [bom] [] j) as H. cbn zeta in H.
      change (length [bom]) with 1 in H. change (length (@nil N)) with 0 in H.
      cbn [gen_entities app]. exact H.
    + exact (dents_entities bs Hleg [] [] j).
Qed.

(* premise on the names of the linted file: none is spelt like the key of a Junk object *)
Definition dblock_key_ok (jb : jblock) : Prop :=
  match jb with
  | JB (BEntity _ _ name _ _ _ _) => starts_with s_junk_ name = false
  | JB (BPE d) => starts_with s_junk_ (pe_name d) = false
  | _ => True
  end.

Lemma ditem_keys : forall mark bs, Forall dblock_key_ok bs -> Forall item_key_ok (ditems mark bs).
Proof.
  intros mark bs H.
  assert (Hm : Forall item_key_ok (map ditem bs)).
  { induction H as [|b bs Hb _ IH]; constructor; [|exact IH].
    destruct b as [[w|body|pre ws1 name ws2 q v ws3|d]|g]; exact Hb || exact I. }
  destruct mark; unfold ditems; [|exact Hm].
  constructor; [exact I|]. destruct bs; [repeat constructor|exact Hm].
Qed.

Section Top.
Variable unesc : str -> str.                 (* html.unescape *)
Definition dtd_val (raw : str) : result str := Ok (unesc raw).
Lemma dtd_val_total : forall raw, exists v, dtd_val raw = Ok v.
Proof. intros raw. exists (unesc raw). reflexivity. Qed.

(* the findings expected for the block list [all] against the reference block list [rref] *)
Definition dexpected {Msg : Type} (mark : bool) (all : list jblock)
           (rref : option (bool * list jblock)) : list (@finding str Msg) :=
  expected dtd_val (ditems mark all) (option_map (fun r => ditems (fst r) (snd r)) rref) []
           (ditems mark all).

Context {Msg : Type}.
Variable chk : option (@checker str Msg).
Variable mark : bool.
Variable all : list jblock.
Variable rref : option (bool * list jblock).
Variable j0 : nat.
Hypothesis Hleg : Forall legal_jblock all.
Hypothesis Hadj : jadjacent_ok_bom mark all.
Hypothesis Hkeys : Forall dblock_key_ok all.
Hypothesis Href : match rref with
                  | Some (rm, rbs) => Forall legal_jblock rbs /\ jadjacent_ok_bom rm rbs
                  | None => True
                  end.

Let rits := option_map (fun r => ditems (fst r) (snd r)) rref.

Lemma dtexts_eq :
  lint_dtd unesc j0 chk (jfile_text_bom mark all)
           (option_map (fun r => jfile_text_bom (fst r) (snd r)) rref) =
  lint_text vp_dtd dtd_val walk_dtd j0 chk (items_text (ditems mark all)) (option_map items_text rits).
Proof.
  unfold lint_dtd, rits. rewrite ditems_text_bom. destruct rref as [[rm rbs]|]; cbn [option_map fst snd];
    rewrite ?ditems_text_bom; reflexivity.
Qed.

Lemma dHref_items : match rits with Some r => parsed vp_dtd walk_dtd r | None => True end.
Proof.
  unfold rits. destruct rref as [[rm rbs]|]; cbn [option_map fst snd]; [apply parsed_dtd; tauto|exact I].
Qed.

Theorem e2e_dtd_silent :
  (forall e, check_results chk e = []) ->
  lint_dtd unesc j0 chk (jfile_text_bom mark all)
           (option_map (fun r => jfile_text_bom (fst r) (snd r)) rref) =
  Ok (dexpected mark all rref).
Proof.
  intros Hsil. rewrite dtexts_eq.
  exact (lint_text_items_silent vp_dtd dtd_val dtd_val_total walk_dtd chk
           (ditems mark all) rits j0
           (parsed_dtd mark all Hleg Hadj) (ditem_keys mark all Hkeys) dHref_items Hsil).
Qed.

Theorem e2e_dtd : forall fs,
  lint_dtd unesc j0 chk (jfile_text_bom mark all)
           (option_map (fun r => jfile_text_bom (fst r) (snd r)) rref) = Ok fs ->
  filter no_check fs = dexpected mark all rref.
Proof.
  intros fs H. rewrite dtexts_eq in H.
  exact (lint_text_items vp_dtd dtd_val dtd_val_total walk_dtd chk
           (ditems mark all) rits j0
           (parsed_dtd mark all Hleg Hadj) (ditem_keys mark all Hkeys) dHref_items fs H).
Qed.
End Top.

(* ---- a concrete file for the Example of Properties/C19.v -------------------------------------
     <BOM><!ENTITY a "b"> / zz  (garbage) <!ENTITY a "c"> / <!ENTITY m "1">
     reference:  <!ENTITY a "b"> / <!ENTITY m "2">                                   *)
Definition de2e_ent (k v : list nat) : jblock := JB (BEntity None (A [32]) (A k) (A [32]) 34%N (A v) []).
Definition de2e_nl : jblock := JB (BBlank (A [10])).
Definition de2e_file : list jblock :=
  [de2e_ent [97] [98]; de2e_nl; JG (A [122; 122; 32]); de2e_ent [97] [99]; de2e_nl; de2e_ent [109] [49]].
Definition de2e_ref : list jblock := [de2e_ent [97] [98]; de2e_nl; de2e_ent [109] [50]].
