(* The generated expressions of the DTD parser (comment, whitespace, key, header)
   evaluated by the regex ENGINE at an arbitrary offset inside a longer text of known
   shape.  Used by Proofs/C02BlocksDtd.v (the DTD block theorem).

   The character classes are not typed in: they are projected out of the generated
   ASTs ([dtd_key_classes], [dtd_comment_class]); the shape lemmas ([key_shape],
   [comment_shape], ...) are closed by [reflexivity] against Generated/RxParser.v, and
   the facts about the classes (a blank is not a name character, a dash is not a
   comment character, ...) by [vm_compute] on the projected classes, so that an edit of
   the expressions in dtd.py either leaves the proofs valid or breaks them here. *)
From Coq Require Import NArith List Bool Arith Lia.
From CL Require Import Base.Sx Base.Res Base.Str Regex.Rx Regex.RxLemmas Model.Entry Model.Parse
  Model.ParseFormats Generated.RxParser Proofs.UnescapeProofs
  Proofs.ClassLoop Proofs.ClassLoop2 Proofs.C02Props Proofs.WalkProofs Proofs.C02Roundtrip
  Proofs.C02BlocksRx.
Import ListNotations.

Local Arguments Nat.ltb : simpl never.
Local Arguments Nat.leb : simpl never.
Local Arguments Nat.eqb : simpl never.
Local Arguments N.eqb : simpl never.
Local Arguments N.leb : simpl never.
Local Arguments chr_ok : simpl never.
Local Arguments run : simpl never.
Local Arguments fwd : simpl never.

(* ---- deterministic steps ---------------------------------------------------------------------
   [steps R s s']: from [s] the expression [R] hands its continuation the state [s'] first,
   and when the continuation does not fail there, that is the result (no backtracking
   into [R] happens). *)
Definition steps (R : rx) (s s' : st) : Prop := forall k, k s' <> Fail -> m R s k = k s'.

Lemma orelse_nonfail : forall a b, a <> Fail -> orelse a b = a.
Proof. intros [| |] b H; try reflexivity. contradiction. Qed.

Lemma steps_eps : forall s, steps Eps s s.
Proof. intros s k _. reflexivity. Qed.

Lemma steps_cat : forall A B s s1 s2, steps A s s1 -> steps B s1 s2 -> steps (Cat A B) s s2.
Proof.
  intros A B s s1 s2 HA HB k Hk. rewrite m_Cat. rewrite HA; [apply HB; exact Hk|].
  rewrite HB by exact Hk. exact Hk.
Qed.

Lemma steps_grp : forall n R s s', steps R s s' -> steps (Grp n R) s (set_cap n (pos s, pos s') s').
Proof. intros n R s s' H k Hk. rewrite m_Grp. rewrite H; [reflexivity|exact Hk]. Qed.

Lemma steps_alt_l : forall A B s s', steps A s s' -> steps (Alt A B) s s'.
Proof.
  intros A B s s' H k Hk. rewrite m_Alt, H by exact Hk. apply orelse_nonfail. exact Hk.
Qed.

Lemma steps_alt_r : forall A B s s', (forall k, m A s k = Fail) -> steps B s s' -> steps (Alt A B) s s'.
Proof. intros A B s s' HA HB k Hk. rewrite m_Alt, HA, orelse_fail. apply HB. exact Hk. Qed.

Lemma steps_chr : forall neg cls c t pr p cs, chr_ok neg cls c = true ->
  steps (Chr neg cls) (mkst pr (c :: t) p cs) (mkst (c :: pr) t (S p) cs).
Proof. intros neg cls c t pr p cs H k _. rewrite m_Chr. cbn [suf]. rewrite H. reflexivity. Qed.

(* a greedy class repetition over exactly the run [ds] *)
Lemma steps_rep : forall neg cls lo ds rest pr p cs,
  forallb (chr_ok neg cls) ds = true -> head_is (chr_ok neg cls) rest = false -> lo <= length ds ->
  steps (Rep true lo None (Chr neg cls)) (mkst pr (ds ++ rest) p cs)
        (mkst (rev ds ++ pr) rest (p + length ds) cs).
Proof.
  intros neg cls lo ds rest pr p cs Hds Hrest Hlo k Hk.
  assert (Hr : run neg cls None (ds ++ rest) = length ds) by (apply run_exact_gen; auto).
  rewrite (m_rep_class_max neg cls lo None); [|exact I|].
  - cbn [suf]. rewrite Hr. replace (lo <=? length ds) with true by (symmetry; apply Nat.leb_le; exact Hlo).
    rewrite fwd_app. reflexivity.
  - cbn [suf]. rewrite Hr, fwd_app. exact Hk.
Qed.

(* ---- literal prefixes ------------------------------------------------------------------------- *)
Fixpoint lits (l : list N) (r : rx) : rx :=
  match l with
  | [] => r
  | c :: l' => Cat (Chr false [(c, c)]) (lits l' r)
  end.

Lemma m_lits_ok : forall l r X pr p cs k,
  m (lits l r) (mkst pr (l ++ X) p cs) k = m r (mkst (rev l ++ pr) X (p + length l) cs) k.
Proof.
  induction l as [|c l IH]; intros r X pr p cs k.
  - simpl. rewrite Nat.add_0_r. reflexivity.
  - cbn [lits app]. rewrite m_Cat, m_Chr. cbn [suf]. rewrite single_class, N.eqb_refl.
    unfold advance. cbn [pre suf pos caps]. rewrite IH. cbn [rev length]. rewrite <- app_assoc.
    cbn [app]. replace (S p + length l) with (p + S (length l)) by lia. reflexivity.
Qed.

Lemma m_lits_fail : forall l r X pr p cs k, starts_with l X = false ->
  m (lits l r) (mkst pr X p cs) k = Fail.
Proof.
  induction l as [|c l IH]; intros r X pr p cs k H; [discriminate|].
  cbn [lits]. rewrite m_Cat, m_Chr. cbn [suf]. destruct X as [|d X]; [reflexivity|].
  cbn [starts_with] in H. rewrite single_class, N.eqb_sym.
  destruct (N.eqb c d); [|reflexivity]. unfold advance. cbn [pre suf pos caps]. apply IH. exact H.
Qed.

Lemma steps_lits : forall l r X pr p cs s',
  steps r (mkst (rev l ++ pr) X (p + length l) cs) s' -> steps (lits l r) (mkst pr (l ++ X) p cs) s'.
Proof. intros l r X pr p cs s' H k Hk. rewrite m_lits_ok. apply H. exact Hk. Qed.

Lemma starts_with_app : forall l X, starts_with l (l ++ X) = true.
Proof. induction l as [|c l IH]; intros X; [reflexivity|]. cbn. rewrite N.eqb_refl. apply IH. Qed.

(* ---- the classes of the generated expressions ------------------------------------------------ *)
Definition ENT : str := [60; 33; 69; 78; 84; 73; 84; 89]%N.      (* <!ENTITY *)
Definition COPEN : str := [60; 33; 45; 45]%N.                    (* <!-- *)
Definition CCLOSE : str := [45; 45; 62]%N.                       (* --> *)
Definition bom : N := 65279%N.

(* name start characters, name characters: read from the generated key expression *)
Definition dtd_key_classes : cset * cset :=
  match rx_dtd_key with
  | Cat _ (Cat _ (Cat _ (Cat _ (Cat _ (Cat _ (Cat _ (Cat _ (Cat _
      (Cat (Grp _ (Cat (Chr _ ns) (Rep _ _ _ (Chr _ nc)))) _))))))))) => (ns, nc)
  | _ => ([], [])
  end.
Definition NS : cset := fst dtd_key_classes.
Definition NC : cset := snd dtd_key_classes.

(* the characters of a comment other than the dash *)
Definition dtd_comment_class : cset :=
  match rx_dtd_comment with
  | Cat _ (Cat _ (Cat _ (Cat _ (Cat (Rep _ _ _ (Grp _ (Cat _ (Chr _ nd)))) _)))) => nd
  | _ => []
  end.
Definition ND : cset := dtd_comment_class.

Definition QV (q : N) : rx :=
  Cat (Chr false [(q, q)]) (Cat (Rep true 0 None (Chr true [(q, q)])) (Chr false [(q, q)])).

Definition WSR (lo : nat) : rx := Rep true lo None (Chr false (points WS)).
Definition NAME : rx := Cat (Chr false NS) (Rep true 0 None (Chr false NC)).

Definition KEYTAIL : rx :=
  Cat (WSR 1) (Cat (Grp 1 NAME) (Cat (WSR 1) (Cat (Grp 2 (Alt (QV 34) (QV 39)))
    (Cat (WSR 0) (Chr false [(62, 62)%N]))))).

Lemma key_shape : rx_dtd_key = lits ENT KEYTAIL.
Proof. reflexivity. Qed.

Definition UNIT : rx := Grp 1 (Cat (Alt (Chr false [(45, 45)%N]) Eps) (Chr false ND)).
Definition CEND : rx := lits [45; 45]%N (Chr false [(62, 62)%N]).

Lemma comment_shape : rx_dtd_comment = lits COPEN (Cat (Rep false 0 None UNIT) CEND).
Proof. reflexivity. Qed.

Lemma ws_shape : rx_dtd_ws = rx_props_ws.
Proof. reflexivity. Qed.

Lemma header_shape : rx_dtd_header = Cat (Bol false) (Chr false [(bom, bom)]).
Proof. reflexivity. Qed.

Lemma group_numbers_dtd : g_dtd_key_key = 1 /\ g_dtd_key_val = 2.
Proof. split; reflexivity. Qed.

(* facts about the classes, by evaluation *)
Lemma ws_not_ns : forallb (fun c => negb (chr_ok false NS c)) WS = true.
Proof. vm_compute. reflexivity. Qed.
Lemma ws_not_nc : forallb (fun c => negb (chr_ok false NC c)) WS = true.
Proof. vm_compute. reflexivity. Qed.
Lemma dash_not_nd : chr_ok false ND 45 = false.
Proof. vm_compute. reflexivity. Qed.
Lemma lt_not_ws : mem 60%N WS = false.
Proof. reflexivity. Qed.
Lemma gt_not_ws : mem 62%N WS = false.
Proof. reflexivity. Qed.
Lemma quotes_not_ws : mem 34%N WS = false /\ mem 39%N WS = false.
Proof. split; reflexivity. Qed.
Lemma percent_not_ns : chr_ok false NS 37 = false.
Proof. vm_compute. reflexivity. Qed.

Lemma mem_forallb : forall (f : N -> bool) l c, forallb f l = true -> mem c l = true -> f c = true.
Proof.
  intros f l c H Hm. apply mem_in in Hm. rewrite forallb_forall in H. apply H. exact Hm.
Qed.

Lemma ws_char_not_ns : forall c, mem c WS = true -> chr_ok false NS c = false.
Proof. intros c H. apply negb_true_iff. exact (mem_forallb _ WS c ws_not_ns H). Qed.
Lemma ws_char_not_nc : forall c, mem c WS = true -> chr_ok false NC c = false.
Proof. intros c H. apply negb_true_iff. exact (mem_forallb _ WS c ws_not_nc H). Qed.
Lemma ns_not_ws : forall c, chr_ok false NS c = true -> mem c WS = false.
Proof.
  intros c H. destruct (mem c WS) eqn:E; [|reflexivity]. rewrite (ws_char_not_ns c E) in H. discriminate.
Qed.
Lemma nd_not_dash : forall c, chr_ok false ND c = true -> N.eqb c 45 = false.
Proof.
  intros c H. destruct (N.eqb_spec c 45) as [->|]; [|reflexivity]. rewrite dash_not_nd in H. discriminate.
Qed.

Lemma head_ws_class : forall X, head_is (chr_ok false (points WS)) X = head_is (fun c => mem c WS) X.
Proof. intros X. apply head_is_ext. intros c. apply chr_ok_points. Qed.

(* ---- legal names, values, comment bodies --------------------------------------------------- *)
Definition legal_name (name : str) : bool :=
  match name with
  | [] => false
  | c0 :: tl => chr_ok false NS c0 && forallb (chr_ok false NC) tl
  end.

Definition is_ws (w : str) : bool := forallb (fun c => mem c WS) w.
Definition is_quote (q : N) : bool := N.eqb q 34 || N.eqb q 39.
Definition legal_qval (q : N) (v : str) : bool := is_quote q && forallb (fun c => negb (N.eqb c q)) v.

(* the text between <!-- and -->: comment characters, a dash only directly in front of a
   comment character (no "--", no dash at the end) *)
Fixpoint legal_cbody (b : str) : bool :=
  match b with
  | [] => true
  | c :: t =>
      if N.eqb c 45 then
        match t with
        | d :: t' => chr_ok false ND d && legal_cbody t'
        | [] => false
        end
      else chr_ok false ND c && legal_cbody t
  end.

Definition comment_text (body : str) : str := COPEN ++ body ++ CCLOSE.

Lemma comment_text_length : forall body, length (comment_text body) = 7 + length body.
Proof. intros. unfold comment_text. rewrite !app_length. simpl. lia. Qed.

(* ---- the key expression --------------------------------------------------------------------- *)
Lemma neg_single : forall q c, chr_ok true [(q, q)] c = negb (N.eqb c q).
Proof.
  intros q c. pose proof (single_class q c) as H. unfold chr_ok in *.
  rewrite <- H. destruct (in_ranges c [(q, q)]); reflexivity.
Qed.

Lemma steps_qv : forall q v Y pr p cs,
  forallb (fun c => negb (N.eqb c q)) v = true ->
  steps (QV q) (mkst pr (q :: v ++ q :: Y) p cs)
        (mkst (q :: rev v ++ q :: pr) Y (S (S p + length v)) cs).
Proof.
  intros q v Y pr p cs Hv. unfold QV.
  eapply steps_cat; [apply steps_chr; rewrite single_class; apply N.eqb_refl|].
  eapply steps_cat.
  - apply steps_rep with (lo := 0).
    + rewrite (forallb_ext' _ (fun c => negb (N.eqb c q))); [exact Hv|]. intros c. apply neg_single.
    + cbn [head_is]. rewrite neg_single, N.eqb_refl. reflexivity.
    + lia.
  - apply steps_chr. rewrite single_class. apply N.eqb_refl.
Qed.

Lemma qv_fails : forall q c t pr p cs k, N.eqb c q = false ->
  m (QV q) (mkst pr (c :: t) p cs) k = Fail.
Proof. intros. unfold QV. rewrite m_Cat, m_Chr. cbn [suf]. rewrite single_class, H. reflexivity. Qed.

(* the state after the whole declaration *)
Definition key_end (ws1 name ws2 v ws3 : str) (p : nat) : nat :=
  p + 8 + length ws1 + length name + length ws2 + 2 + length v + length ws3 + 1.

Lemma caps2_eq : forall a b c d a' b' c' d' : nat, a = a' -> b = b' -> c = c' -> d = d' ->
  [(2, (a, b)); (1, (c, d))] = [(2, (a', b')); (1, (c', d'))].
Proof. intros; subst; reflexivity. Qed.

Lemma key_steps : forall ws1 name ws2 q v ws3 X pr p,
  ws1 <> [] -> is_ws ws1 = true -> legal_name name = true -> ws2 <> [] -> is_ws ws2 = true ->
  legal_qval q v = true -> is_ws ws3 = true ->
  exists s',
  steps rx_dtd_key (mkst pr (ENT ++ ws1 ++ name ++ ws2 ++ q :: v ++ q :: ws3 ++ 62%N :: X) p []) s' /\
  suf s' = X /\ pos s' = key_end ws1 name ws2 v ws3 p /\
  caps s' = [(2, (p + 8 + length ws1 + length name + length ws2,
                  p + 8 + length ws1 + length name + length ws2 + 2 + length v));
             (1, (p + 8 + length ws1, p + 8 + length ws1 + length name))].
Proof.
  intros ws1 name ws2 q v ws3 X pr p N1 W1 Hn N2 W2 Hq W3.
  destruct name as [|c0 ntl]; [discriminate|]. cbn [legal_name] in Hn.
  apply andb_true_iff in Hn. destruct Hn as [Hc0 Hntl].
  unfold legal_qval in Hq. apply andb_true_iff in Hq. destruct Hq as [Hq Hv].
  assert (Hqws : mem q WS = false).
  { unfold is_quote in Hq. apply orb_true_iff in Hq.
    destruct Hq as [E|E]; apply N.eqb_eq in E; subst q; reflexivity. }
  destruct ws2 as [|w2h w2t]; [contradiction|].
  assert (Hw2h : mem w2h WS = true).
  { cbn [is_ws forallb] in W2. apply andb_true_iff in W2. exact (proj1 W2). }
  eexists. split.
  { rewrite key_shape. apply steps_lits. unfold KEYTAIL.
    (* ws1 *)
    eapply steps_cat.
    { unfold WSR. apply steps_rep.
      - apply ws_class. exact W1.
      - cbn [app head_is]. rewrite chr_ok_points. apply ns_not_ws. exact Hc0.
      - destruct ws1; [contradiction|simpl; lia]. }
    (* the name *)
    eapply steps_cat.
    { apply steps_grp. unfold NAME. cbn [app]. eapply steps_cat; [apply steps_chr; exact Hc0|].
      apply steps_rep with (lo := 0); [exact Hntl| |lia].
      cbn [app head_is]. apply ws_char_not_nc. exact Hw2h. }
    unfold set_cap. cbn [pre suf pos caps].
    (* ws2 *)
    eapply steps_cat.
    { unfold WSR. apply (steps_rep false (points WS) 1 (w2h :: w2t)).
      - apply ws_class. exact W2.
      - cbn [head_is]. rewrite chr_ok_points. exact Hqws.
      - simpl; lia. }
    (* the quoted value *)
    eapply steps_cat.
    { apply steps_grp. unfold is_quote in Hq. apply orb_true_iff in Hq. destruct Hq as [E|E].
      - apply N.eqb_eq in E. subst q. apply steps_alt_l. apply steps_qv. exact Hv.
      - apply N.eqb_eq in E. subst q. apply steps_alt_r; [intros k; apply qv_fails; reflexivity|].
        apply steps_qv. exact Hv. }
    unfold set_cap. cbn [pre suf pos caps].
    (* ws3 and > *)
    eapply steps_cat.
    { unfold WSR. apply steps_rep with (lo := 0).
      - apply ws_class. exact W3.
      - cbn [head_is]. rewrite chr_ok_points. reflexivity.
      - lia. }
    apply steps_chr. rewrite single_class. reflexivity. }
  cbn [suf pos caps]. split; [reflexivity|]. unfold key_end, ENT. cbn [length].
  split; [lia|]. apply caps2_eq; lia.
Qed.

Lemma omatch_key : forall (a : str) ws1 name ws2 q v ws3 X,
  ws1 <> [] -> is_ws ws1 = true -> legal_name name = true -> ws2 <> [] -> is_ws ws2 = true ->
  legal_qval q v = true -> is_ws ws3 = true ->
  let p := length a in
  omatch rx_dtd_key (a ++ ENT ++ ws1 ++ name ++ ws2 ++ q :: v ++ q :: ws3 ++ 62%N :: X) p =
  Some (mkres p (key_end ws1 name ws2 v ws3 p)
          [(2, (p + 8 + length ws1 + length name + length ws2,
                p + 8 + length ws1 + length name + length ws2 + 2 + length v));
           (1, (p + 8 + length ws1, p + 8 + length ws1 + length name))]).
Proof.
  intros a ws1 name ws2 q v ws3 X N1 W1 Hn N2 W2 Hq W3 p. unfold p.
  destruct (key_steps ws1 name ws2 q v ws3 X (rev a) (length a) N1 W1 Hn N2 W2 Hq W3)
    as [s' [H1 [H2 [H3 H4]]]].
  rewrite omatch_split, run_at_k0, H1 by (rewrite k0_done; discriminate).
  rewrite k0_done. cbn [pos]. rewrite H3, H4. reflexivity.
Qed.

(* the key expression fails where the text does not start with <!ENTITY *)
Lemma key_fails : forall X pr p cs k, starts_with ENT X = false ->
  m rx_dtd_key (mkst pr X p cs) k = Fail.
Proof. intros. rewrite key_shape. apply m_lits_fail. exact H. Qed.

Lemma omatch_key_none : forall (a X : str), starts_with ENT X = false ->
  omatch rx_dtd_key (a ++ X) (length a) = None.
Proof. intros a X H. rewrite omatch_split, run_at_k0, key_fails by exact H. reflexivity. Qed.

(* ---- the comment expression ------------------------------------------------------------------ *)
Definition KEND : st -> out := fun s => m CEND s k0.

Lemma kend_done : forall X pr p cs,
  KEND (mkst pr (CCLOSE ++ X) p cs) = Done (mkst (rev CCLOSE ++ pr) X (p + 3) cs).
Proof.
  intros. unfold KEND, CEND, CCLOSE.
  change ([45; 45; 62]%N ++ X) with ([45; 45]%N ++ 62%N :: X). rewrite m_lits_ok, m_Chr. cbn [suf].
  rewrite single_class. replace (N.eqb 62 62) with true by reflexivity. unfold advance.
  cbn [pre suf pos caps]. rewrite k0_done. cbn [rev app length]. f_equal. f_equal. lia.
Qed.

Lemma kend_fail : forall X pr p cs, starts_with [45; 45]%N X = false -> KEND (mkst pr X p cs) = Fail.
Proof. intros. unfold KEND, CEND. apply m_lits_fail. exact H. Qed.

Lemma steps_unit_dash : forall d t pr p cs, chr_ok false ND d = true ->
  steps UNIT (mkst pr (45%N :: d :: t) p cs) (mkst (d :: 45%N :: pr) t (S (S p)) ((1, (p, S (S p))) :: cs)).
Proof.
  intros d t pr p cs Hd. unfold UNIT.
  change (mkst (d :: 45%N :: pr) t (S (S p)) ((1, (p, S (S p))) :: cs))
    with (set_cap 1 (pos (mkst pr (45%N :: d :: t) p cs), pos (mkst (d :: 45%N :: pr) t (S (S p)) cs))
            (mkst (d :: 45%N :: pr) t (S (S p)) cs)).
  apply steps_grp. eapply steps_cat.
  - apply steps_alt_l. apply steps_chr. rewrite single_class. reflexivity.
  - apply steps_chr. exact Hd.
Qed.

Lemma steps_unit_plain : forall c t pr p cs, N.eqb c 45 = false -> chr_ok false ND c = true ->
  steps UNIT (mkst pr (c :: t) p cs) (mkst (c :: pr) t (S p) ((1, (p, S p)) :: cs)).
Proof.
  intros c t pr p cs Hc Hnd. unfold UNIT.
  change (mkst (c :: pr) t (S p) ((1, (p, S p)) :: cs))
    with (set_cap 1 (pos (mkst pr (c :: t) p cs), pos (mkst (c :: pr) t (S p) cs))
            (mkst (c :: pr) t (S p) cs)).
  apply steps_grp. eapply steps_cat.
  - apply steps_alt_r; [|apply steps_eps].
    intros k. rewrite m_Chr. cbn [suf]. rewrite single_class, Hc. reflexivity.
  - apply steps_chr. exact Hnd.
Qed.

(* the lazy loop over a legal body: the end marker is tried at every unit boundary and
   matches only after the last unit *)
Lemma comment_loop : forall n body, length body <= n -> legal_cbody body = true ->
  forall X fuel count pr p cs, length body < fuel ->
  exists cs',
    rep_loop (m UNIT) false 0 None fuel count (mkst pr (body ++ CCLOSE ++ X) p cs) KEND =
    Done (mkst (rev CCLOSE ++ rev body ++ pr) X (p + length body + 3) cs').
Proof.
  induction n as [|n IH]; intros body Hn Hleg X fuel count pr p cs Hf.
  - destruct body as [|c t]; [|simpl in Hn; lia]. destruct fuel as [|f]; [lia|].
    rewrite rep_loop_S. replace (count <? 0) with false by (symmetry; apply Nat.ltb_ge; lia).
    cbv zeta. cbn [app]. change (45%N :: 45%N :: 62%N :: X) with (CCLOSE ++ X).
    rewrite kend_done. exists cs. cbn [orelse rev app length]. f_equal. f_equal. lia.
  - destruct fuel as [|f]; [lia|].
    rewrite rep_loop_S. replace (count <? 0) with false by (symmetry; apply Nat.ltb_ge; lia).
    cbv zeta.
    destruct body as [|c t].
    + cbn [app]. change (45%N :: 45%N :: 62%N :: X) with (CCLOSE ++ X).
      rewrite kend_done. exists cs. cbn [orelse rev app length]. f_equal. f_equal. lia.
    + cbn [legal_cbody] in Hleg. destruct (N.eqb c 45) eqn:Ec.
      * apply N.eqb_eq in Ec. subst c. destruct t as [|d t']; [discriminate|].
        apply andb_true_iff in Hleg. destruct Hleg as [Hd Hleg].
        pose proof (nd_not_dash d Hd) as Hd45.
        cbn [app]. rewrite kend_fail.
        2:{ cbn [starts_with]. rewrite (N.eqb_sym 45 d), Hd45. reflexivity. }
        rewrite orelse_fail.
        destruct (IH t') with (X := X) (fuel := f) (count := S count) (pr := d :: 45%N :: pr)
          (p := S (S p)) (cs := (1, (p, S (S p))) :: cs) as [cs' E];
          [simpl in Hn; lia|exact Hleg|simpl in Hf; lia|].
        exists cs'. rewrite steps_unit_dash; [|exact Hd|]; cbn [pos].
        -- replace (Nat.eqb (S (S p)) p) with false by (symmetry; apply Nat.eqb_neq; lia).
           rewrite E. cbn [rev length]. rewrite <- !app_assoc. cbn [app]. f_equal. f_equal. lia.
        -- replace (Nat.eqb (S (S p)) p) with false by (symmetry; apply Nat.eqb_neq; lia).
           rewrite E. discriminate.
      * apply andb_true_iff in Hleg. destruct Hleg as [Hc Hleg].
        cbn [app]. rewrite kend_fail.
        2:{ cbn [starts_with]. rewrite (N.eqb_sym 45 c), Ec. reflexivity. }
        rewrite orelse_fail.
        destruct (IH t) with (X := X) (fuel := f) (count := S count) (pr := c :: pr)
          (p := S p) (cs := (1, (p, S p)) :: cs) as [cs' E];
          [simpl in Hn; lia|exact Hleg|simpl in Hf; lia|].
        exists cs'. rewrite steps_unit_plain; [|exact Ec|exact Hc|]; cbn [pos].
        -- replace (Nat.eqb (S p) p) with false by (symmetry; apply Nat.eqb_neq; lia).
           rewrite E. cbn [rev length]. rewrite <- !app_assoc. cbn [app]. f_equal. f_equal. lia.
        -- replace (Nat.eqb (S p) p) with false by (symmetry; apply Nat.eqb_neq; lia).
           rewrite E. discriminate.
Qed.

Lemma comment_match : forall body X pr p, legal_cbody body = true ->
  exists cs',
    m rx_dtd_comment (mkst pr (comment_text body ++ X) p []) k0 =
    Done (mkst (rev (comment_text body) ++ pr) X (p + length (comment_text body)) cs').
Proof.
  intros body X pr p Hleg. rewrite comment_shape. unfold comment_text. rewrite <- !app_assoc.
  rewrite m_lits_ok, m_Cat, m_Rep. fold KEND.
  destruct (comment_loop (length body) body (le_n _) Hleg X
              (0 + S (length (suf (mkst (rev COPEN ++ pr) (body ++ CCLOSE ++ X) (p + length COPEN) []))))
              0 (rev COPEN ++ pr) (p + length COPEN) []) as [cs' E].
  { cbn [suf]. rewrite app_length. lia. }
  exists cs'. rewrite E. rewrite !app_length, !rev_app_distr, <- !app_assoc. f_equal. f_equal.
  simpl. lia.
Qed.

Lemma omatch_comment : forall (a : str) body X, legal_cbody body = true ->
  exists x, omatch rx_dtd_comment (a ++ comment_text body ++ X) (length a) = Some x /\
            m_start x = length a /\ m_end x = length a + length (comment_text body).
Proof.
  intros a body X H. destruct (comment_match body X (rev a) (length a) H) as [cs' E].
  rewrite omatch_split, run_at_k0, E. eexists. split; [reflexivity|]. split; reflexivity.
Qed.

Lemma omatch_comment_none : forall (a X : str), starts_with COPEN X = false ->
  omatch rx_dtd_comment (a ++ X) (length a) = None.
Proof.
  intros a X H. rewrite omatch_split, run_at_k0, comment_shape, m_lits_fail by exact H. reflexivity.
Qed.

(* DTDParser.Comment.val: all[4:-3] *)
Lemma comment_val_dtd : forall body, comment_val CDtd (comment_text body) = body.
Proof.
  intros body. unfold comment_val. rewrite comment_text_length. unfold comment_text.
  replace (7 + length body - 3) with (length COPEN + length body) by (simpl; lia).
  apply slice_mid.
Qed.

(* ---- whitespace --------------------------------------------------------------------------------- *)
Lemma omatch_dtd_ws_run : forall (a x y : str),
  x <> [] -> is_ws x = true -> head_is (fun c => mem c WS) y = false ->
  omatch rx_dtd_ws (a ++ x ++ y) (length a) = Some (mkres (length a) (length a + length x) []).
Proof. intros. rewrite ws_shape. apply omatch_ws_run; auto. Qed.

Lemma omatch_dtd_ws_none : forall (a y : str), head_is (fun c => mem c WS) y = false ->
  omatch rx_dtd_ws (a ++ y) (length a) = None.
Proof. intros. rewrite ws_shape. apply omatch_ws_none; auto. Qed.

(* ---- the header (byte order mark) ---------------------------------------------------------------- *)
Lemma header_at0 : forall s,
  match omatch rx_dtd_header s 0 with Some _ => true | None => false end = head_is (N.eqb bom) s.
Proof.
  intros s. rewrite omatch_at0, run_at_k0, header_shape, m_Cat. simpl m at 1. unfold at_bol. cbn [pre].
  destruct s as [|c t]; [reflexivity|]. cbn [head_is].
  rewrite single_class, N.eqb_sym. destruct (N.eqb bom c); reflexivity.
Qed.
